(* C20 — soundness of the table comparison of Sim.v, for ALL pairs of tables (S, D):
     env_compat S D = true ->
     every input the STRICT reader generated from S accepts is accepted by the STRICT reader generated
     from D, which consumes the same bytes.
   Nothing here mentions a particular declaration. *)
From FB Require Import C20.Fmt C20.FmtTheory C20.Sim.
From Coq Require Import Lia PeanoNat Wf_nat.
Open Scope N_scope.

Arguments N.add : simpl never.
Arguments N.mul : simpl never.
Arguments N.pow : simpl never.
Arguments N.modulo : simpl never.
Arguments N.div : simpl never.

(* ================================================================= the reader consumes len bytes *)
Definition rl_spec (rd : pool -> sty -> list N -> res (val * list N)) (ln : sty -> val -> res N) : Prop :=
  forall p s bs v rest, bytes_ok bs -> rd p s bs = Ok (v, rest) ->
    exists pre, bs = pre ++ rest /\ ln s v = Ok (N.of_nat (length pre)).

Lemma rl_read_n rd ln p s : rl_spec rd ln -> forall k bs vs rest, bytes_ok bs ->
  read_n (rd p s) k bs = Ok (vs, rest) ->
  exists pre, bs = pre ++ rest /\ sum_map (ln s) vs = Ok (N.of_nat (length pre)) /\ length vs = k.
Proof.
  intros Hs k; induction k as [|k IH]; intros bs vs rest Hb H; cbn [read_n] in H.
  - injection H as <- <-. exists []. auto.
  - bind_inv H. destruct a as [v bs1]. bind_inv H. destruct a as [vs' bs2]. injection H as <- <-.
    destruct (Hs _ _ _ _ _ Hb Ha) as (pre1 & -> & Hw).
    destruct (IH _ _ _ (bytes_ok_app_r _ _ Hb) Ha0) as (pre2 & -> & Hc & Hl).
    exists (pre1 ++ pre2). rewrite app_assoc. split; [reflexivity|]. split.
    + cbn [sum_map]. rewrite Hw. cbn [bind]. rewrite Hc. cbn [bind]. rewrite of_nat_app. reflexivity.
    + cbn [length]. lia.
Qed.

Lemma rl_read_vec rd ln p s n bs v rest : rl_spec rd ln -> bytes_ok bs ->
  read_vec (rd p s) n bs = Ok (v, rest) ->
  exists l pre, v = VL l /\ bs = pre ++ rest /\ sum_map (ln s) l = Ok (N.of_nat (length pre)) /\ N.of_nat (length l) = n.
Proof.
  intros Hs Hb H. unfold read_vec in H.
  destruct (n <=? N.of_nat (length bs)); [|discriminate].
  bind_inv H. destruct a as [vs bs']. injection H as <- <-.
  destruct (rl_read_n _ _ _ _ Hs _ _ _ _ Hb Ha) as (pre & -> & Hc & Hl).
  exists vs, pre. repeat split; auto. rewrite Hl. apply N2Nat.id.
Qed.

Lemma rl_read_slots rd ln p s wide : rl_spec rd ln -> forall k bs vs rest, bytes_ok bs ->
  read_slots (rd p s) wide k bs = Ok (vs, rest) ->
  exists pre, bs = pre ++ rest /\ sum_map (ln s) vs = Ok (N.of_nat (length pre)).
Proof.
  intros Hs k; induction k as [k IH] using (well_founded_induction lt_wf); intros bs vs rest Hb H.
  destruct k as [|k']; cbn [read_slots] in H.
  - injection H as <- <-. exists []. auto.
  - bind_inv H. destruct a as [v bs1].
    destruct (Hs _ _ _ _ _ Hb Ha) as (pre1 & -> & Hw).
    pose proof (bytes_ok_app_r _ _ Hb) as Hb1.
    destruct (wide v) eqn:Ew.
    + destruct k' as [|k'']; [discriminate|].
      bind_inv H. destruct a as [vs' bs2]. injection H as <- <-.
      destruct (IH k'' ltac:(lia) _ _ _ Hb1 Ha0) as (pre2 & -> & Hc).
      exists (pre1 ++ pre2). rewrite app_assoc. split; [reflexivity|].
      cbn [sum_map]. rewrite Hw. cbn [bind]. rewrite Hc. cbn [bind]. rewrite of_nat_app. reflexivity.
    + bind_inv H. destruct a as [vs' bs2]. injection H as <- <-.
      destruct (IH k' ltac:(lia) _ _ _ Hb1 Ha0) as (pre2 & -> & Hc).
      exists (pre1 ++ pre2). rewrite app_assoc. split; [reflexivity|].
      cbn [sum_map]. rewrite Hw. cbn [bind]. rewrite Hc. cbn [bind]. rewrite of_nat_app. reflexivity.
Qed.

Lemma rl_ty D rd ln p env t bs v rest : rl_spec rd ln -> bytes_ok bs ->
  read_ty D rd p env t bs = Ok (v, rest) -> exists pre, bs = pre ++ rest /\ len_ty ln t v = Ok (N.of_nat (length pre)).
Proof.
  intros Hs Hb H. destruct t as [s|s [w|e|e]]; cbn [read_ty len_ty] in *.
  - eapply Hs; eauto.
  - bind_inv H. destruct a as [n bs1].
    destruct (enc_dec _ _ _ _ Hb Ha) as (-> & Hn & Hb1).
    destruct (rl_read_vec _ _ _ _ _ _ _ _ Hs Hb1 H) as (l & pre & -> & -> & Hc & Hl).
    exists (enc w n ++ pre). rewrite app_assoc. split; [reflexivity|].
    rewrite Hc. cbn [bind]. rewrite of_nat_app, length_enc. reflexivity.
  - bind_inv H.
    destruct (rl_read_vec _ _ _ _ _ _ _ _ Hs Hb H) as (l & pre & -> & -> & Hc & Hl).
    exists pre. split; [reflexivity|]. rewrite Hc. cbn [bind]. rewrite N.add_0_l. reflexivity.
  - bind_inv H. bind_inv H. destruct a0 as [vs bs']. injection H as <- <-.
    destruct (rl_read_slots _ _ _ _ _ Hs _ _ _ _ Hb Ha0) as (pre & -> & Hc).
    exists pre. split; [reflexivity|]. rewrite Hc. cbn [bind]. rewrite N.add_0_l. reflexivity.
Qed.

Lemma rl_fields D rd ln : rl_spec rd ln -> forall fs p env bs vs cs rest, bytes_ok bs ->
  read_fields D rd p env fs bs = Ok (vs, cs, rest) ->
  exists pre, bs = pre ++ rest /\ len_fields ln fs vs = Ok (N.of_nat (length pre)).
Proof.
  intros Hs fs; induction fs as [|f fs IH]; intros p env bs vs cs rest Hb H; cbn [read_fields] in H.
  - injection H as <- <- <-. exists []. auto.
  - destruct f as [x w e|x t [e|] sp].
    + bind_inv H. destruct a as [n bs1].
      destruct (enc_dec _ _ _ _ Hb Ha) as (-> & Hn & Hb1).
      assert (Hrec : exists vs' cs', read_fields D rd p ((x, VN n) :: env) fs bs1 = Ok (vs', cs', rest) /\ vs = vs').
      { destruct (lit_of e) as [m|].
        - destruct (n =? m); [|discriminate]. eauto.
        - bind_inv H. destruct a as [[vs' cs'] bs2]. injection H as <- <- <-. eauto. }
      destruct Hrec as (vs' & cs' & Hr & ->).
      destruct (IH _ _ _ _ _ _ Hb1 Hr) as (pre & -> & Hw).
      exists (enc w n ++ pre). rewrite app_assoc. split; [reflexivity|].
      cbn [len_fields]. rewrite Hw. cbn [bind]. rewrite of_nat_app, length_enc. reflexivity.
    + bind_inv H. bind_inv H. destruct a0 as [[vs' cs'] bs2]. injection H as <- <- <-.
      destruct (IH _ _ _ _ _ _ Hb Ha0) as (pre & -> & Hw).
      exists pre. split; [reflexivity|]. cbn [len_fields bind]. rewrite Hw. cbn [bind]. rewrite N.add_0_l. reflexivity.
    + bind_inv H. destruct a as [v bs1]. bind_inv H. destruct a as [[vs' cs'] bs2]. injection H as <- <- <-.
      destruct (rl_ty _ _ _ _ _ _ _ _ _ Hs Hb Ha) as (pre1 & -> & Hw1).
      destruct (IH _ _ _ _ _ _ (bytes_ok_app_r _ _ Hb) Ha0) as (pre2 & -> & Hw2).
      exists (pre1 ++ pre2). rewrite app_assoc. split; [reflexivity|].
      cbn [len_fields]. rewrite Hw1. cbn [bind]. rewrite Hw2. cbn [bind]. rewrite of_nat_app. reflexivity.
Qed.

Lemma rl_prim D fuel p strict w bs v rest : bytes_ok bs ->
  read_sty D strict fuel p (Prim w) bs = Ok (v, rest) ->
  exists pre, bs = pre ++ rest /\ len_sty D fuel (Prim w) v = Ok (N.of_nat (length pre)).
Proof.
  intros Hb H. destruct fuel; cbn [read_sty len_sty] in *.
  all: bind_inv H; destruct a as [n bs']; injection H as <- <-;
    destruct (enc_dec _ _ _ _ Hb Ha) as (-> & _ & _); exists (enc w n); rewrite length_enc; auto.
Qed.

(* the announced length of whatever the reader returns is the number of bytes it consumed *)
Theorem read_len D strict : forall fuel p t bs v rest, bytes_ok bs ->
  read_sty D strict fuel p t bs = Ok (v, rest) ->
  exists pre, bs = pre ++ rest /\ len_sty D fuel t v = Ok (N.of_nat (length pre)).
Proof.
  induction fuel as [|f IH]; intros p t bs v rest Hb H.
  - destruct t as [w|n]; [eapply rl_prim; eauto|]. cbn [read_sty] in H. discriminate.
  - destruct t as [w|n]; [eapply rl_prim; eauto|].
    assert (Hs : rl_spec (read_sty D strict f) (len_sty D f)).
    { intros p' s bs' v' rest' Hb' H'. eapply IH; eauto. }
    cbn [read_sty len_sty] in *.
    destruct (lookup D n) as [[fs|tv tw vars ft]|]; [| |discriminate].
    + bind_inv H. destruct a as [[vs cs] bs'].
      match type of H with (if ?c then _ else _) = _ => destruct c; [|discriminate] end.
      injection H as <- <-.
      destruct (rl_fields _ _ _ Hs _ _ _ _ _ _ _ Hb Ha) as (pre & -> & Hw).
      exists pre. auto.
    + bind_inv H. destruct a as [tg bs1].
      destruct (enc_dec _ _ _ _ Hb Ha) as (-> & Htg & Hb1).
      bind_inv H. destruct a as [[k va] env].
      bind_inv H. destruct a as [[vs cs] bs'].
      match type of H with (if ?c then _ else _) = _ => destruct c; [|discriminate] end.
      injection H as <- <-.
      rewrite (select_nth0 _ _ _ _ _ _ _ _ Ha0).
      destruct (rl_fields _ _ _ Hs _ _ _ _ _ _ _ Hb1 Ha1) as (pre & -> & Hw).
      exists (enc tw tg ++ pre). rewrite app_assoc. split; [reflexivity|].
      rewrite Hw. cbn [bind]. rewrite of_nat_app, length_enc. reflexivity.
Qed.

(* ================================================================= small facts *)
Lemma id_eqb_refl' x : id_eqb x x = true.
Proof. apply String.eqb_refl. Qed.
Lemma id_eqb_eq x y : id_eqb x y = true -> x = y.
Proof. apply String.eqb_eq. Qed.
Lemma id_eqb_sym x y : id_eqb x y = id_eqb y x.
Proof. apply String.eqb_sym. Qed.
Lemma wd_eqb_eq a b : wd_eqb a b = true -> a = b.
Proof. destruct a, b; cbn; congruence. Qed.
Lemma st_eqb_eq a b : st_eqb a b = true -> a = b.
Proof.
  destruct a as [x|x], b as [y|y]; cbn [st_eqb]; try discriminate.
  - intros H. apply wd_eqb_eq in H. congruence.
  - intros H. apply id_eqb_eq in H. congruence.
Qed.
Lemma leqbN_eq a : forall b, leqbN a b = true -> a = b.
Proof.
  induction a as [|x a IH]; intros [|y b]; cbn [leqbN]; try discriminate; [reflexivity|].
  intros H. apply andb_true_iff in H as [H1 H2]. apply N.eqb_eq in H1. apply IH in H2. congruence.
Qed.

Lemma lookup_hd {A} x (v : A) env : lookup ((x, v) :: env) x = Some v.
Proof. cbn [lookup]. rewrite id_eqb_refl'. reflexivity. Qed.
Lemma lookup_tl {A} x y (v : A) env : id_eqb y x = false -> lookup ((x, v) :: env) y = lookup env y.
Proof. intros H. cbn [lookup]. rewrite H. reflexivity. Qed.

(* ================================================================= linked variables *)
(* every linked pair holds the same value on both sides *)
Definition linked (r : vlink) (eS eD : venv) : Prop :=
  forall a b, In (a, b) r -> exists v, lookup eS a = Some v /\ lookup eD b = Some v.

Lemma in_link_In r x y : in_link r x y = true -> In (x, y) r.
Proof.
  unfold in_link. intros H. apply existsb_exists in H as ([a b] & Hin & H). cbn [fst snd] in H.
  apply andb_true_iff in H as [H1 H2]. apply id_eqb_eq in H1, H2. subst. exact Hin.
Qed.

Lemma expr_compat_eval S D r eS eD aw slS slD : linked r eS eD -> forall a b, expr_compat r a b = true ->
  eval S aw eS slS a = eval D aw eD slD b.
Proof.
  intros Hl. induction a as [n|x|x|x elt| |a1 IH1 a2 IH2|a1 IH1 a2 IH2|a1 IH1 a2 IH2];
    intros [m|y|y|y elt'| |b1 b2|b1 b2|b1 b2] H; cbn [expr_compat] in H; try discriminate; cbn [eval].
  - apply N.eqb_eq in H. subst. reflexivity.
  - apply in_link_In in H. destruct (Hl _ _ H) as (v & -> & ->). reflexivity.
  - apply andb_true_iff in H as [H1 H2]. rewrite (IH1 _ H1), (IH2 _ H2). reflexivity.
  - apply andb_true_iff in H as [H1 H2]. rewrite (IH1 _ H1), (IH2 _ H2). reflexivity.
  - apply andb_true_iff in H as [H1 H2]. rewrite (IH1 _ H1), (IH2 _ H2). reflexivity.
Qed.

Lemma cexpr_compat_eval S D r eS eD slS slD a b : linked r eS eD -> cexpr_compat r a b = true ->
  ceval S eS slS a = ceval D eD slD b.
Proof.
  intros Hl H. unfold cexpr_compat in H. apply andb_true_iff in H as [H1 H2]. apply N.eqb_eq in H1.
  unfold ceval. rewrite H1. eapply expr_compat_eval; eauto.
Qed.

Lemma linked_nil eS eD : linked [] eS eD.
Proof. intros a b []. Qed.

Lemma linked_unrel r eS eD x y vS vD : linked r eS eD -> linked (link_unrel x y r) ((x, vS) :: eS) ((y, vD) :: eD).
Proof.
  intros Hl a b Hin. unfold link_unrel, drop_l, drop_r in Hin.
  apply filter_In in Hin as [Hin Ha]. apply filter_In in Hin as [Hin Hb]. cbn [fst snd] in Ha, Hb.
  apply negb_true_iff in Ha, Hb. destruct (Hl _ _ Hin) as (v & H1 & H2). exists v.
  rewrite (lookup_tl _ _ _ _ Ha), (lookup_tl _ _ _ _ Hb). auto.
Qed.

Lemma linked_both r eS eD x y v : linked r eS eD -> linked (link_both x y r) ((x, v) :: eS) ((y, v) :: eD).
Proof.
  intros Hl a b [Heq|Hin].
  - injection Heq as <- <-. exists v. rewrite !lookup_hd. auto.
  - eapply linked_unrel; eauto.
Qed.

Lemma linked_l S r eS eD x e n : linked r eS eD -> ceval S eS Err e = Ok n ->
  linked (link_l x e r) ((x, VN n) :: eS) eD.
Proof.
  intros Hl He a b Hin. unfold link_l in Hin. apply in_app_or in Hin as [Hin|Hin].
  - destruct (evar_of e) as [y|] eqn:Ey; [|destruct Hin].
    apply in_map_iff in Hin as ([y' b'] & Heq & Hin). cbn [snd] in Heq. injection Heq as <- <-.
    apply filter_In in Hin as [Hin Hy]. cbn [fst] in Hy. apply id_eqb_eq in Hy. subst y'.
    destruct (Hl _ _ Hin) as (v & H1 & H2).
    unfold evar_of in Ey. unfold ceval in He. destruct (ce_e e); try discriminate. injection Ey as ->.
    cbn [eval] in He. rewrite H1 in He. destruct v; try discriminate. injection He as ->.
    exists (VN n). rewrite lookup_hd. auto.
  - unfold drop_l in Hin. apply filter_In in Hin as [Hin Ha]. cbn [fst] in Ha. apply negb_true_iff in Ha.
    destruct (Hl _ _ Hin) as (v & H1 & H2). exists v. rewrite (lookup_tl _ _ _ _ Ha). auto.
Qed.

(* ================================================================= what the readers observe of a pool *)
Definition utf8_of (D : denv) (v : val) : option (list val) :=
  match v, utf8_variant D with
  | VV k [VL b], Some ku => if Nat.eqb k ku then Some b else None
  | _, _ => None
  end.
Definition obs_eq (S D : denv) (vS vD : val) : Prop :=
  is_wide S cpn vS = is_wide D cpn vD /\ utf8_of S vS = utf8_of D vD.
Definition pool_rel (S D : denv) (pS pD : pool) : Prop :=
  match pS, pD with
  | None, None => True
  | Some a, Some b => Forall2 (obs_eq S D) a b
  | _, _ => False
  end.

Lemma pool_has_utf8_alt D p i s :
  pool_has_utf8 D p i s =
    match p with
    | None => Err
    | Some entries =>
        match pool_get (is_wide D cpn) entries 1 i with
        | Some e => match utf8_of D e with Some b => Ok (bytes_eqb b s) | None => Err end
        | None => Err
        end
    end.
Proof.
  unfold pool_has_utf8, utf8_of, cpn. destruct p as [entries|]; [|reflexivity].
  destruct (pool_get (is_wide D "CpInfo"%string) entries 1 i) as [e|]; [|reflexivity].
  destruct e as [n|l|fs|k fs]; try reflexivity.
  destruct fs as [|f fs]; [reflexivity|].
  destruct f as [n|l|gs|j gs]; try reflexivity.
  destruct fs as [|f' fs]; [|reflexivity].
  destruct (utf8_variant D) as [ku|]; [|reflexivity].
  destruct (Nat.eqb k ku); reflexivity.
Qed.

Lemma pool_get_rel S D a b : Forall2 (obs_eq S D) a b -> forall slot i,
  match pool_get (is_wide S cpn) a slot i, pool_get (is_wide D cpn) b slot i with
  | Some x, Some y => obs_eq S D x y
  | None, None => True
  | _, _ => False
  end.
Proof.
  induction 1 as [|x y a b Hxy Hab IH]; intros slot i; cbn [pool_get]; [exact I|].
  destruct (i <=? slot).
  - destruct (slot =? i); [exact Hxy|exact I].
  - unfold slots1. destruct Hxy as [Hw _]. rewrite Hw. apply IH.
Qed.

Lemma pool_has_utf8_rel S D pS pD i s : pool_rel S D pS pD -> pool_has_utf8 S pS i s = pool_has_utf8 D pD i s.
Proof.
  intros Hp. rewrite !pool_has_utf8_alt. destruct pS as [a|], pD as [b|]; cbn [pool_rel] in Hp; try contradiction; [|reflexivity].
  pose proof (pool_get_rel _ _ _ _ Hp 1 i) as H.
  destruct (pool_get (is_wide S cpn) a 1 i) as [x|], (pool_get (is_wide D cpn) b 1 i) as [y|]; try contradiction; [|reflexivity].
  destruct H as [_ ->]. reflexivity.
Qed.

Lemma slots_of_rel S D a b : Forall2 (obs_eq S D) a b -> slots_of (is_wide S cpn) a = slots_of (is_wide D cpn) b.
Proof.
  induction 1 as [|x y a b [Hw _] _ IH]; [reflexivity|]. cbn [slots_of]. unfold slots1. rewrite Hw, IH. reflexivity.
Qed.

(* ================================================================= simulation: element readers *)
(* what is known of the two values read at the same place: numbers are equal, pool entries look the
   same to [pool_has_utf8] / [pool_slots] *)
Definition vrel (S D : denv) (t : sty) (a b : val) : Prop :=
  match t with
  | Prim _ => a = b
  | Named n => if id_eqb n cpn then obs_eq S D a b else True
  end.
Definition trel (S D : denv) (t : ty) (a b : val) : Prop :=
  match t with
  | One s => vrel S D s a b
  | Vec s _ => exists l m, a = VL l /\ b = VL m /\ Forall2 (vrel S D s) l m
  end.

(* inputs: bytes, fewer than 2^32 of them (`_len()` is u32 arithmetic) *)
Definition okb (bs : list N) : Prop := bytes_ok bs /\ N.of_nat (length bs) < 4294967296.
Lemma okb_app_r a b : okb (a ++ b) -> okb b.
Proof. intros [H1 H2]. split; [eapply bytes_ok_app_r; eauto|]. rewrite app_length in H2. lia. Qed.

Definition sim_spec (S D : denv) (rdS rdD : pool -> sty -> list N -> res (val * list N)) : Prop :=
  forall pS pD s bs vS rest, okb bs -> pool_rel S D pS pD -> rdS pS s bs = Ok (vS, rest) ->
    exists vD, rdD pD s bs = Ok (vD, rest) /\ vrel S D s vS vD.

Lemma rl_sfx rd ln p s bs v rest : rl_spec rd ln -> okb bs -> rd p s bs = Ok (v, rest) -> okb rest.
Proof. intros Hs Hb H. destruct (Hs _ _ _ _ _ (proj1 Hb) H) as (pre & -> & _). eapply okb_app_r; eauto. Qed.
Lemma dec_okb w bs n rest : okb bs -> dec w bs = Ok (n, rest) -> okb rest /\ n < wmod w.
Proof. intros Hb H. destruct (enc_dec _ _ _ _ (proj1 Hb) H) as (E & Hn & _). rewrite E in Hb. split; [eapply okb_app_r; eauto|exact Hn]. Qed.

Lemma sim_read_n S D rdS rdD lnS pS pD s : sim_spec S D rdS rdD -> rl_spec rdS lnS -> pool_rel S D pS pD ->
  forall k bs vsS rest, okb bs -> read_n (rdS pS s) k bs = Ok (vsS, rest) ->
  exists vsD, read_n (rdD pD s) k bs = Ok (vsD, rest) /\ Forall2 (vrel S D s) vsS vsD.
Proof.
  intros Hs Hrl Hp k; induction k as [|k IH]; intros bs vsS rest Hb H; cbn [read_n] in *.
  - injection H as <- <-. exists []. auto.
  - bind_inv H. destruct a as [v bs1]. bind_inv H. destruct a as [vs' bs2]. injection H as <- <-.
    destruct (Hs _ _ _ _ _ _ Hb Hp Ha) as (vD & HD & Hv).
    destruct (IH _ _ _ (rl_sfx _ _ _ _ _ _ _ Hrl Hb Ha) Ha0) as (vsD & HDs & Hvs).
    exists (vD :: vsD). rewrite HD. cbn [bind]. rewrite HDs. cbn [bind]. auto.
Qed.

Lemma sim_read_vec S D rdS rdD lnS pS pD s n bs vS rest : sim_spec S D rdS rdD -> rl_spec rdS lnS -> pool_rel S D pS pD ->
  okb bs -> read_vec (rdS pS s) n bs = Ok (vS, rest) ->
  exists l m, vS = VL l /\ read_vec (rdD pD s) n bs = Ok (VL m, rest) /\ Forall2 (vrel S D s) l m.
Proof.
  intros Hs Hrl Hp Hb H. unfold read_vec in *. destruct (n <=? N.of_nat (length bs)); [|discriminate].
  bind_inv H. destruct a as [vs bs']. injection H as <- <-.
  destruct (sim_read_n _ _ _ _ _ _ _ _ Hs Hrl Hp _ _ _ _ Hb Ha) as (vsD & HD & Hv).
  exists vs, vsD. rewrite HD. auto.
Qed.

Lemma sim_read_slots S D rdS rdD lnS pS pD s wS wD : sim_spec S D rdS rdD -> rl_spec rdS lnS -> pool_rel S D pS pD ->
  (forall a b, vrel S D s a b -> wS a = wD b) ->
  forall k bs vsS rest, okb bs -> read_slots (rdS pS s) wS k bs = Ok (vsS, rest) ->
  exists vsD, read_slots (rdD pD s) wD k bs = Ok (vsD, rest) /\ Forall2 (vrel S D s) vsS vsD.
Proof.
  intros Hs Hrl Hp Hw k; induction k as [k IH] using (well_founded_induction lt_wf); intros bs vsS rest Hb H.
  destruct k as [|k']; cbn [read_slots] in *.
  - injection H as <- <-. exists []. auto.
  - bind_inv H. destruct a as [v bs1].
    destruct (Hs _ _ _ _ _ _ Hb Hp Ha) as (vD & HD & Hv).
    pose proof (rl_sfx _ _ _ _ _ _ _ Hrl Hb Ha) as Hb1.
    rewrite HD. cbn [bind]. rewrite <- (Hw _ _ Hv).
    destruct (wS v).
    + destruct k' as [|k'']; [discriminate|].
      bind_inv H. destruct a as [vs' bs2]. injection H as <- <-.
      destruct (IH k'' ltac:(lia) _ _ _ Hb1 Ha0) as (vsD & HDs & Hvs).
      exists (vD :: vsD). rewrite HDs. cbn [bind]. auto.
    + bind_inv H. destruct a as [vs' bs2]. injection H as <- <-.
      destruct (IH k' ltac:(lia) _ _ _ Hb1 Ha0) as (vsD & HDs & Hvs).
      exists (vD :: vsD). rewrite HDs. cbn [bind]. auto.
Qed.

Lemma wide_sty_rel S D s a b : slots_sty_ok s = true -> vrel S D s a b -> wide_sty S s a = wide_sty D s b.
Proof.
  destruct s as [w|n]; cbn [slots_sty_ok wide_sty vrel]; [reflexivity|].
  intros Hn. rewrite Hn. apply id_eqb_eq in Hn. subst n. intros [Hw _]. exact Hw.
Qed.

Lemma sim_ty S D rdS rdD lnS r pS pD envS envD tS tD bs vS rest :
  sim_spec S D rdS rdD -> rl_spec rdS lnS -> pool_rel S D pS pD -> linked r envS envD ->
  ty_compat r tS tD = true -> okb bs ->
  read_ty S rdS pS envS tS bs = Ok (vS, rest) ->
  exists vD, read_ty D rdD pD envD tD bs = Ok (vD, rest) /\ trel S D tS vS vD.
Proof.
  intros Hs Hrl Hp Hl Hc Hb H.
  destruct tS as [s|s [w|e|e]], tD as [s'|s' [w'|e'|e']]; cbn [ty_compat] in Hc; try discriminate; cbn [read_ty trel] in *.
  - apply st_eqb_eq in Hc. subst s'. eapply Hs; eauto.
  - apply andb_true_iff in Hc as [Hc Hw]. apply st_eqb_eq in Hc. apply wd_eqb_eq in Hw. subst s' w'.
    bind_inv H. destruct a as [n bs1]. rewrite Ha. cbn [bind].
    destruct (dec_okb _ _ _ _ Hb Ha) as (Hb1 & _).
    destruct (sim_read_vec _ _ _ _ _ _ _ _ _ _ _ _ Hs Hrl Hp Hb1 H) as (l & m & -> & HD & Hv).
    exists (VL m). split; [exact HD|]. exists l, m. auto.
  - apply andb_true_iff in Hc as [Hc He]. apply st_eqb_eq in Hc. subst s'.
    bind_inv H. rewrite <- (cexpr_compat_eval S D _ _ _ Err Err _ _ Hl He), Ha. cbn [bind].
    destruct (sim_read_vec _ _ _ _ _ _ _ _ _ _ _ _ Hs Hrl Hp Hb H) as (l & m & -> & HD & Hv).
    exists (VL m). split; [exact HD|]. exists l, m. auto.
  - apply andb_true_iff in Hc as [Hc Hok]. apply andb_true_iff in Hc as [Hc He]. apply st_eqb_eq in Hc. subst s'.
    bind_inv H. rewrite <- (cexpr_compat_eval S D _ _ _ Err Err _ _ Hl He), Ha. cbn [bind].
    bind_inv H. destruct a0 as [vs bs']. injection H as <- <-.
    destruct (sim_read_slots _ _ _ _ _ _ _ _ _ _ Hs Hrl Hp (fun x y => wide_sty_rel S D s x y Hok) _ _ _ _ Hb Ha0) as (vsD & HD & Hv).
    exists (VL vsD). rewrite HD. cbn [bind]. split; [reflexivity|]. exists vs, vsD. auto.
Qed.

Lemma Forall2_eq {A} (l m : list A) : Forall2 eq l m -> l = m.
Proof. induction 1; congruence. Qed.

Lemma trel_plain S D t a b : plain_ty t = true -> trel S D t a b -> a = b.
Proof.
  destruct t as [[w|n]|[w|n] k]; cbn [plain_ty trel vrel]; try discriminate; [auto|].
  intros _ (l & m & -> & -> & H). f_equal. apply Forall2_eq. exact H.
Qed.

Lemma Forall2_imp {A B} (P Q : A -> B -> Prop) l m : (forall x y, P x y -> Q x y) -> Forall2 P l m -> Forall2 Q l m.
Proof. intros H. induction 1; constructor; auto. Qed.

Lemma trel_cp_vec S D t a b : is_cp_vec t = true -> trel S D t a b ->
  exists l m, a = VL l /\ b = VL m /\ Forall2 (obs_eq S D) l m.
Proof.
  destruct t as [s|[w|n] k]; cbn [is_cp_vec trel vrel]; try discriminate.
  intros Hn (l & m & -> & -> & H). exists l, m. repeat split.
  eapply Forall2_imp; [|exact H]. intros x y Hxy. cbn [vrel] in Hxy. rewrite Hn in Hxy. exact Hxy.
Qed.

(* ================================================================= simulation: the items of a record *)
Fixpoint cs_rel (ks : list ckind) (csS csD : cobs) : Prop :=
  match ks, csS, csD with
  | [], [], [] => True
  | k :: ks', (wS, eS, nS) :: cS', (wD, eD, nD) :: cD' =>
      wS = wD /\ nS = nD /\ const_kind eS eD = k /\ cs_rel ks' cS' cD'
  | _, _, _ => False
  end.

(* the slot-counted table of pool entries named [x] is an item of both records, read at the same place *)
Definition wl_ok (S D : denv) (fsS fsD : list field) (vsS vsD : list val) (x : id) : Prop :=
  exists lS lD, lookup (bind_fields fsS vsS) x = Some (VL lS) /\ lookup (bind_fields fsD vsD) x = Some (VL lD)
                /\ Forall2 (obs_eq S D) lS lD.

Lemma bind_intro {A B} (r : res A) (f : A -> res B) a b : r = Ok a -> f a = Ok b -> bind r f = Ok b.
Proof. intros -> H. exact H. Qed.

Lemma nw_pair_inv r eS fsD xD rD : nw_pair r eS fsD = Some (xD, rD) ->
  exists tD eD sp, fsD = FMut xD tD (Some eD) sp :: rD /\ cexpr_compat r eS eD = true.
Proof.
  unfold nw_pair. destruct fsD as [|[x w e|x t [e|] sp] fsD]; try discriminate.
  destruct (cexpr_compat r eS e) eqn:E; [|discriminate]. intros [= <- <-]. eauto.
Qed.

Lemma rm_In x y l : In x (rm y l) -> In x l /\ id_eqb x y = false.
Proof. unfold rm. intros H. apply filter_In in H as [H1 H2]. apply negb_true_iff in H2. auto. Qed.

Lemma rl_ty_sfx D rd ln p env t bs v rest : rl_spec rd ln -> okb bs ->
  read_ty D rd p env t bs = Ok (v, rest) -> okb rest.
Proof. intros Hs Hb H. destruct (rl_ty _ _ _ _ _ _ _ _ _ Hs (proj1 Hb) H) as (pre & -> & _). eapply okb_app_r; eauto. Qed.

(* D variables that surely hold a number *)
Definition bound_ok (bd : list id) (env : venv) : Prop := forall y, In y bd -> exists n, lookup env y = Some (VN n).

Lemma bound_cons bd env x n : bound_ok bd env -> bound_ok (x :: bd) ((x, VN n) :: env).
Proof.
  intros H y [<-|Hy]; [exists n; apply lookup_hd|].
  destruct (id_eqb y x) eqn:E; [apply id_eqb_eq in E; subst; exists n; apply lookup_hd|].
  rewrite (lookup_tl _ _ _ _ E). auto.
Qed.
Lemma bound_rm bd env x v : bound_ok bd env -> bound_ok (rm x bd) ((x, v) :: env).
Proof. intros H y Hy. apply rm_In in Hy as [Hy E]. rewrite (lookup_tl _ _ _ _ E). auto. Qed.

Lemma linked_r D r eS eD y e n : linked r eS eD -> ceval D eD Err e = Ok n ->
  linked (link_r y e r) eS ((y, VN n) :: eD).
Proof.
  intros Hl He a b Hin. unfold link_r in Hin. apply in_app_or in Hin as [Hin|Hin].
  - destruct (evar_of e) as [z|] eqn:Ez; [|destruct Hin].
    apply in_map_iff in Hin as ([a' z'] & Heq & Hin). cbn [fst] in Heq. injection Heq as <- <-.
    apply filter_In in Hin as [Hin Hz]. cbn [snd] in Hz. apply id_eqb_eq in Hz. subst z'.
    destruct (Hl _ _ Hin) as (v & H1 & H2).
    unfold evar_of in Ez. unfold ceval in He. destruct (ce_e e); try discriminate. injection Ez as ->.
    cbn [eval] in He. rewrite H2 in He. destruct v; try discriminate. injection He as ->.
    exists (VN n). rewrite lookup_hd. auto.
  - unfold drop_r in Hin. apply filter_In in Hin as [Hin Hb]. cbn [snd] in Hb. apply negb_true_iff in Hb.
    destruct (Hl _ _ Hin) as (v & H1 & H2). exists v. rewrite (lookup_tl _ _ _ _ Hb). auto.
Qed.

(* the skipped D items: what the D reader does with them, whatever follows *)
Lemma dskip_sound D rd hS : forall fsD r bd r1 bd1 sk fsD1 eS envD,
  dskip hS r bd fsD = (r1, bd1, sk, fsD1) -> linked r eS envD -> bound_ok bd envD ->
  exists svs envD1, linked r1 eS envD1 /\ bound_ok bd1 envD1 /\ length svs = length sk /\
    (forall p bs vs cs rest, read_fields D rd p envD1 fsD1 bs = Ok (vs, cs, rest) ->
                             read_fields D rd p envD fsD bs = Ok (svs ++ vs, cs, rest)) /\
    (forall vs x, existsb (id_eqb x) sk = false -> lookup (bind_fields fsD (svs ++ vs)) x = lookup (bind_fields fsD1 vs) x) /\
    (forall ln vs, len_fields ln fsD (svs ++ vs) = len_fields ln fsD1 vs).
Proof.
  induction fsD as [|fD fsD IH]; intros r bd r1 bd1 sk fsD1 eS envD Hd Hl Hbd.
  - cbn [dskip] in Hd. injection Hd as <- <- <- <-. exists [], envD. cbn. repeat split; auto.
  - assert (Hstop : (r1, bd1, sk, fsD1) = (r, bd, [], fD :: fsD) ->
            exists svs envD1, linked r1 eS envD1 /\ bound_ok bd1 envD1 /\ length svs = length sk /\
              (forall p bs vs cs rest, read_fields D rd p envD1 fsD1 bs = Ok (vs, cs, rest) ->
                                       read_fields D rd p envD (fD :: fsD) bs = Ok (svs ++ vs, cs, rest)) /\
              (forall vs x, existsb (id_eqb x) sk = false -> lookup (bind_fields (fD :: fsD) (svs ++ vs)) x = lookup (bind_fields fsD1 vs) x) /\
              (forall ln vs, len_fields ln (fD :: fsD) (svs ++ vs) = len_fields ln fsD1 vs)).
    { intros [= -> -> -> ->]. exists [], envD. cbn [app length]. repeat split; auto. }
    destruct fD as [x w e|xD tD [eD|] sp]; cbn [dskip] in Hd; try (apply Hstop; symmetry; exact Hd).
    destruct (match hS with Some eS0 => cexpr_compat r eS0 eD | None => false end); [apply Hstop; symmetry; exact Hd|].
    destruct (evar_of eD) as [z|] eqn:Ez; [|apply Hstop; symmetry; exact Hd].
    destruct (existsb (id_eqb z) bd) eqn:Ebd; [|apply Hstop; symmetry; exact Hd].
    clear Hstop.
    destruct (dskip hS (link_r xD eD r) (xD :: bd) fsD) as [[[r' bd'] sk'] f'] eqn:Erec. injection Hd as <- <- <- <-.
    apply existsb_exists in Ebd as (z' & Hin & Hz). apply id_eqb_eq in Hz. subst z'.
    destruct (Hbd _ Hin) as (n & Hn).
    assert (He : ceval D envD Err eD = Ok n).
    { unfold evar_of in Ez. unfold ceval. destruct (ce_e eD); try discriminate. injection Ez as ->. cbn [eval]. rewrite Hn. reflexivity. }
    destruct (IH _ _ _ _ _ _ eS ((xD, VN n) :: envD) Erec (linked_r D _ _ _ xD _ _ Hl He) (bound_cons _ _ xD n Hbd))
      as (svs & envD1 & Hl1 & Hbd1 & Hlen & Hrd & Hlk & Hln).
    exists (VN n :: svs), envD1. repeat split; auto.
    + cbn [length]. lia.
    + intros p bs vs cs rest H. cbn [read_fields]. rewrite He. cbn [bind]. rewrite (Hrd _ _ _ _ _ H). reflexivity.
    + intros vs x Hx. cbn [existsb] in Hx. apply orb_false_iff in Hx as [Hx1 Hx2].
      cbn [app bind_fields]. rewrite (lookup_tl _ _ _ _ Hx1). apply Hlk. exact Hx2.
    + intros ln vs. cbn [app len_fields bind]. rewrite Hln. destruct (len_fields ln f' vs); cbn [bind]; [rewrite N.add_0_l|]; reflexivity.
Qed.

Lemma fold_rm_In x sk l : In x (fold_right rm l sk) -> In x l /\ existsb (id_eqb x) sk = false.
Proof.
  induction sk as [|y sk IH]; cbn [fold_right existsb]; [auto|].
  intros H. apply rm_In in H as [H E]. apply IH in H as [H1 H2]. rewrite E, H2. auto.
Qed.

Lemma sim_fields S D rdS rdD lnS : sim_spec S D rdS rdD -> rl_spec rdS lnS ->
  forall fsS fsD r bd c pS pD envS envD bs vsS csS rest,
  fields_compat r bd fsS fsD = Some c -> okb bs -> pool_rel S D pS pD -> linked r envS envD -> bound_ok bd envD ->
  read_fields S rdS pS envS fsS bs = Ok (vsS, csS, rest) ->
  exists vsD csD, read_fields D rdD pD envD fsD bs = Ok (vsD, csD, rest) /\
    (fc_plain c = true -> vsS = vsD) /\
    (forall x, In x (fc_wl c) -> wl_ok S D fsS fsD vsS vsD x) /\
    cs_rel (fc_kinds c) csS csD.
Proof.
  intros Hs Hrl fsS; induction fsS as [|fS fsS IH]; intros fsD r bd c pS pD envS envD bs vsS csS rest Hc Hb Hp Hl Hbd H.
  - cbn [fields_compat] in Hc.
    destruct (dskip None r bd fsD) as [[[r1 bd1] sk] fsD1] eqn:Ed. destruct fsD1; [|discriminate]. injection Hc as <-.
    destruct (dskip_sound D rdD _ _ _ _ _ _ _ _ envS envD Ed Hl Hbd) as (svs & envD1 & _ & _ & Hlen & Hrd & _ & _).
    cbn [read_fields] in H. injection H as <- <- <-.
    exists (svs ++ []), []. split; [apply Hrd; reflexivity|]. cbn [adjust fc_plain fc_wl fc_kinds andb].
    repeat split.
    + intros Hn. destruct sk; [|discriminate]. destruct svs; [reflexivity|discriminate].
    + intros x Hx. apply fold_rm_In in Hx as [[] _].
  - cbn [fields_compat] in Hc.
    destruct (dskip (nw_head fS) r bd fsD) as [[[r1 bd1] sk] fsD1] eqn:Ed.
    destruct (dskip_sound D rdD _ _ _ _ _ _ _ _ envS envD Ed Hl Hbd) as (svs & envD1 & Hl1 & Hbd1 & Hlen & Hrd & Hlk & _).
    match type of Hc with option_map (adjust sk) ?X = Some c => destruct X as [c0|] eqn:Hc0; [|discriminate] end.
    injection Hc as <-.
    (* it suffices to simulate from the D items left after the skipped ones *)
    enough (Hmain : exists vsD csD, read_fields D rdD pD envD1 fsD1 bs = Ok (vsD, csD, rest) /\
              (fc_plain c0 = true -> vsS = vsD) /\
              (forall x, In x (fc_wl c0) -> wl_ok S D (fS :: fsS) fsD1 vsS vsD x) /\
              cs_rel (fc_kinds c0) csS csD).
    { destruct Hmain as (vsD & csD & HD & Hpl & Hwl & Hcs).
      exists (svs ++ vsD), csD. split; [apply Hrd; exact HD|]. cbn [adjust fc_plain fc_wl fc_kinds]. repeat split; auto.
      - intros Hpp. apply andb_true_iff in Hpp as [Hp1 Hp2]. destruct sk; [|discriminate]. destruct svs; [|discriminate].
        cbn [app]. auto.
      - intros x Hx. apply fold_rm_In in Hx as [Hx Hsk]. destruct (Hwl _ Hx) as (lS & lD & H1 & H2 & H3).
        exists lS, lD. rewrite (Hlk _ _ Hsk). auto. }
    clear Hrd Hlk Hlen svs Ed. clear Hl Hbd. rename Hl1 into Hl, Hbd1 into Hbd.
    destruct fS as [xS wS eS|xS tS [eS|] spS].
    + (* an item with a prescribed / computed value *)
      destruct fsD1 as [|[xD wD eD|xD tD nwD spD] fsD']; try discriminate.
      destruct (wd_eqb wS wD) eqn:Ew; [|discriminate]. apply wd_eqb_eq in Ew. subst wD.
      cbn [read_fields] in *. bind_inv H. destruct a as [n bs1]. rewrite Ha. cbn [bind].
      destruct (dec_okb _ _ _ _ Hb Ha) as (Hb1 & _).
      pose proof (linked_both _ _ _ xS xD (VN n) Hl) as Hl'.
      pose proof (bound_cons _ _ xD n Hbd) as Hbd'.
      destruct (lit_of eS) as [m|] eqn:ElS, (lit_of eD) as [m'|] eqn:ElD; try discriminate.
      * destruct (N.eqb m m') eqn:Em; [|discriminate]. apply N.eqb_eq in Em. subst m'.
        destruct (n =? m); [|discriminate].
        destruct (IH _ _ _ _ _ _ _ _ _ _ _ _ Hc0 Hb1 Hp Hl' Hbd' H) as (vsD & csD & HD & Hpl & Hwl & Hcs).
        exists vsD, csD. repeat split; auto.
      * destruct (fields_compat (link_both xS xD r1) (xD :: bd1) fsS fsD') as [c'|] eqn:Ec; [|discriminate]. injection Hc0 as <-.
        bind_inv H. destruct a as [[vs' cs'] bs2]. injection H as <- <- <-.
        destruct (IH _ _ _ _ _ _ _ _ _ _ _ _ Ec Hb1 Hp Hl' Hbd' Ha0) as (vsD & csD & HD & Hpl & Hwl & Hcs).
        exists vsD, ((wS, eD, n) :: csD). rewrite HD. cbn [bind]. repeat split; auto.
    + (* an S item that occupies no byte *)
      cbn [read_fields] in H. bind_inv H. bind_inv H. destruct a0 as [[vs' cs'] bs2]. injection H as <- <- <-.
      destruct (nw_pair r1 eS fsD1) as [[xD rD]|] eqn:Enw.
      * apply nw_pair_inv in Enw as (tD & eD & sp & -> & Hce).
        destruct (fields_compat (link_both xS xD r1) (xD :: bd1) fsS rD) as [c'|] eqn:Ec; [|discriminate]. injection Hc0 as <-.
        pose proof (linked_both _ _ _ xS xD (VN a) Hl) as Hl'.
        destruct (IH _ _ _ _ _ _ _ _ _ _ _ _ Ec Hb Hp Hl' (bound_cons _ _ xD a Hbd) Ha0) as (vsD & csD & HD & Hpl & Hwl & Hcs).
        exists (VN a :: vsD), csD. cbn [read_fields].
        rewrite <- (cexpr_compat_eval S D _ _ _ Err Err _ _ Hl Hce), Ha. cbn [bind]. rewrite HD. cbn [bind].
        repeat split; auto; cbn [fc_plain fc_wl fc_kinds]; [discriminate|].
        intros x Hx. apply rm_In in Hx as [Hx HxS]. apply rm_In in Hx as [Hx HxD].
        destruct (Hwl _ Hx) as (lS & lD & H1 & H2 & H3). exists lS, lD. cbn [bind_fields].
        rewrite (lookup_tl _ _ _ _ HxS), (lookup_tl _ _ _ _ HxD). auto.
      * destruct (fields_compat (link_l xS eS r1) bd1 fsS fsD1) as [c'|] eqn:Ec; [|discriminate]. injection Hc0 as <-.
        pose proof (linked_l S _ _ _ xS _ _ Hl Ha) as Hl'.
        destruct (IH _ _ _ _ _ _ _ _ _ _ _ _ Ec Hb Hp Hl' Hbd Ha0) as (vsD & csD & HD & Hpl & Hwl & Hcs).
        exists vsD, csD. repeat split; auto; cbn [fc_plain fc_wl fc_kinds]; [discriminate|].
        intros x Hx. apply rm_In in Hx as [Hx HxS].
        destruct (Hwl _ Hx) as (lS & lD & H1 & H2 & H3). exists lS, lD. cbn [bind_fields].
        rewrite (lookup_tl _ _ _ _ HxS). auto.
    + (* an item that occupies bytes *)
      destruct fsD1 as [|[xD wD eD|xD tD [eD|] spD] fsD']; try discriminate.
      destruct (ty_compat r1 tS tD && Bool.eqb spS spD && (negb spS || is_cp_vec tS)) eqn:Econd; [|discriminate].
      apply andb_true_iff in Econd as [Econd Hsp]. apply andb_true_iff in Econd as [Hty Hsp2].
      apply eqb_prop in Hsp2. subst spD.
      cbn [read_fields] in *. bind_inv H. destruct a as [v bs1]. bind_inv H. destruct a as [[vs' cs'] bs2]. injection H as <- <- <-.
      destruct (sim_ty _ _ _ _ _ _ _ _ _ _ _ _ _ _ _ Hs Hrl Hp Hl Hty Hb Ha) as (vD & HD & Hv).
      pose proof (rl_ty_sfx _ _ _ _ _ _ _ _ _ Hrl Hb Ha) as Hb1.
      match type of Hc0 with option_map _ (fields_compat ?r' _ _ _) = _ => set (r2 := r') in * end.
      destruct (fields_compat r2 (rm xD bd1) fsS fsD') as [c'|] eqn:Ec; [|discriminate]. injection Hc0 as <-.
      assert (Hl' : linked r2 ((xS, v) :: envS) ((xD, vD) :: envD1)).
      { subst r2. destruct tS as [[w|n]|s k].
        - cbn [trel vrel] in Hv. subst vD. apply linked_both. exact Hl.
        - apply linked_unrel. exact Hl.
        - apply linked_unrel. exact Hl. }
      assert (Hp' : pool_rel S D (if spS then match v with VL l => Some l | _ => None end else pS)
                                 (if spS then match vD with VL l => Some l | _ => None end else pD)).
      { destruct spS; [|exact Hp]. cbn [negb orb] in Hsp.
        destruct (trel_cp_vec _ _ _ _ _ Hsp Hv) as (l & m & -> & -> & Hlm). exact Hlm. }
      destruct (IH _ _ _ _ _ _ _ _ _ _ _ _ Ec Hb1 Hp' Hl' (bound_rm _ _ xD vD Hbd) Ha0) as (vsD & csD & HD2 & Hpl & Hwl & Hcs).
      exists (vD :: vsD), csD. rewrite HD. cbn [bind]. cbv zeta.
      split; [eapply bind_intro; [exact HD2|reflexivity]|].
      repeat split; auto; cbn [fc_plain fc_wl fc_kinds].
      * intros Hpp. apply andb_true_iff in Hpp as [Hp1 Hp2].
        rewrite (Hpl Hp1), (trel_plain _ _ _ _ _ Hp2 Hv). reflexivity.
      * intros x Hx. apply in_app_or in Hx as [Hx|Hx].
        -- destruct (id_eqb xS xD && is_cp_vec tS) eqn:E; [|destruct Hx].
           destruct Hx as [<-|[]]. apply andb_true_iff in E as [E1 E2]. apply id_eqb_eq in E1. subst xD.
           destruct (trel_cp_vec _ _ _ _ _ E2 Hv) as (l & m & -> & -> & Hlm).
           exists l, m. cbn [bind_fields]. rewrite !lookup_hd. auto.
        -- apply rm_In in Hx as [Hx HxS]. apply rm_In in Hx as [Hx HxD].
           destruct (Hwl _ Hx) as (lS & lD & H1 & H2 & H3). exists lS, lD. cbn [bind_fields].
           rewrite (lookup_tl _ _ _ _ HxS), (lookup_tl _ _ _ _ HxD). auto.
Qed.

(* ================================================================= the D side writes the tag it read *)
Definition refines (a v : val) : Prop :=
  match a with
  | VN n => v = VN n
  | VL l => exists m, v = VL m /\ length m = length l
  | _ => True
  end.
Definition env_ref (ea ev : venv) : Prop :=
  Forall2 (fun xa yv => fst xa = fst yv /\ refines (snd xa) (snd yv)) ea ev.

Lemma env_ref_lookup ea ev x a : env_ref ea ev -> lookup ea x = Some a -> exists v, lookup ev x = Some v /\ refines a v.
Proof.
  induction 1 as [|[y a'] [y' v'] ea ev [Hn Hr] _ IH]; cbn [lookup]; [discriminate|].
  cbn [fst snd] in Hn, Hr. subst y'. destruct (id_eqb x y).
  - intros [= <-]. eauto.
  - exact IH.
Qed.

Lemma eval_ref D aw ea ev sl : env_ref ea ev -> forall e m, no_slots e = true ->
  eval D aw ea Err e = Ok m -> eval D aw ev sl e = Ok m.
Proof.
  intros Hr. induction e as [n|x|x|x elt| |a IHa b IHb|a IHa b IHb|a IHa b IHb]; intros m Hn H; cbn [eval no_slots] in *.
  - exact H.
  - destruct (lookup ea x) as [a|] eqn:El; [|discriminate]. destruct a; try discriminate.
    destruct (env_ref_lookup _ _ _ _ Hr El) as (v & -> & Hv). cbn [refines] in Hv. subst v. exact H.
  - destruct (lookup ea x) as [a|] eqn:El; [|discriminate]. destruct a; try discriminate.
    destruct (env_ref_lookup _ _ _ _ Hr El) as (v & -> & Hv). cbn [refines] in Hv. destruct Hv as (m' & -> & Hlen).
    rewrite Hlen. exact H.
  - discriminate.
  - discriminate.
  - apply andb_true_iff in Hn as [Hn1 Hn2]. bind_inv H. bind_inv H.
    rewrite (IHa _ Hn1 Ha), (IHb _ Hn2 Ha0). exact H.
  - apply andb_true_iff in Hn as [Hn1 Hn2]. bind_inv H. bind_inv H.
    rewrite (IHa _ Hn1 Ha), (IHb _ Hn2 Ha0). exact H.
  - apply andb_true_iff in Hn as [Hn1 Hn2]. bind_inv H. bind_inv H.
    rewrite (IHa _ Hn1 Ha), (IHb _ Hn2 Ha0). exact H.
Qed.

Lemma ceval_ns_ref D ea ev sl e m : env_ref ea ev -> ceval_ns D ea e = Ok m -> ceval D ev sl e = Ok m.
Proof.
  intros Hr H. unfold ceval_ns in H. destruct (no_slots (ce_e e)) eqn:En; [|discriminate].
  unfold ceval in *. eapply eval_ref; eauto.
Qed.

Lemma read_n_length rd : forall k bs vs rest, read_n rd k bs = Ok (vs, rest) -> length vs = k.
Proof.
  induction k as [|k IH]; intros bs vs rest H; cbn [read_n] in H.
  - injection H as <- _. reflexivity.
  - bind_inv H. destruct a as [v bs1]. bind_inv H. destruct a as [vs' bs2]. injection H as <- _.
    cbn [length]. f_equal. eapply IH; eauto.
Qed.

Lemma read_vec_length rd n bs v rest : read_vec rd n bs = Ok (v, rest) -> exists l, v = VL l /\ length l = N.to_nat n.
Proof.
  unfold read_vec. destruct (n <=? N.of_nat (length bs)); [|discriminate]. intros H.
  bind_inv H. destruct a as [vs bs']. injection H as <- _. exists vs. split; [reflexivity|]. eapply read_n_length; eauto.
Qed.

Lemma env_ref_cons ea ev x a v : refines a v -> env_ref ea ev -> env_ref ((x, a) :: ea) ((x, v) :: ev).
Proof. intros H1 H2. constructor; [cbn; auto|exact H2]. Qed.

Lemma abs_fields_ref D rd : forall fs ea ev p bs vs cs rest avs,
  env_ref ea ev -> abs_fields D ea fs = Some avs -> read_fields D rd p ev fs bs = Ok (vs, cs, rest) ->
  Forall2 refines avs vs.
Proof.
  induction fs as [|f fs IH]; intros ea ev p bs vs cs rest avs Hr Ha H; cbn [abs_fields read_fields] in *.
  - injection Ha as <-. injection H as <- _ _. constructor.
  - destruct f as [x w e|x t [e|] sp].
    + bind_inv H. destruct a as [n bs1].
      assert (Hrec : exists cs', read_fields D rd p ((x, VN n) :: ev) fs bs1 = Ok (vs, cs', rest)).
      { destruct (lit_of e) as [m|].
        - destruct (n =? m); [|discriminate]. eauto.
        - bind_inv H. destruct a as [[vs' cs'] bs2]. injection H as <- _ <-. eauto. }
      destruct Hrec as (cs' & Hrec).
      eapply IH; [|exact Ha|exact Hrec]. apply env_ref_cons; [exact I|exact Hr].
    + assert (Ha' : match ceval_ns D ea e with
                    | Ok n => option_map (cons (VN n)) (abs_fields D ((x, VN n) :: ea) fs)
                    | Err => None
                    end = Some avs) by (destruct t as [s|s [w|e'|e']]; exact Ha).
      clear Ha. rename Ha' into Ha.
      destruct (ceval_ns D ea e) as [n|] eqn:En; [|discriminate].
      destruct (abs_fields D ((x, VN n) :: ea) fs) as [avs'|] eqn:Ea; [|discriminate]. injection Ha as <-.
      apply bind_ok in H as (n' & Hn' & H). apply bind_ok in H as ([[vs' cs'] bs2] & Hrd & H). injection H as <- _ _.
      rewrite (ceval_ns_ref _ _ _ Err _ _ Hr En) in Hn'. injection Hn' as <-.
      constructor; [reflexivity|].
      eapply IH; [|exact Ea|exact Hrd]. apply env_ref_cons; [reflexivity|exact Hr].
    + apply bind_ok in H as ([v bs1] & Hty & H). apply bind_ok in H as ([[vs' cs'] bs2] & Hrd & H). injection H as <- _ _.
      assert (Hgen : forall avs', abs_fields D ((x, unknown) :: ea) fs = Some avs' -> Forall2 refines avs' vs').
      { intros avs' Ea. eapply IH; [|exact Ea|exact Hrd]. apply env_ref_cons; [exact I|exact Hr]. }
      destruct t as [s|s [w|e|e]].
      * destruct (abs_fields D ((x, unknown) :: ea) fs) as [avs'|] eqn:Ea; [|discriminate]. injection Ha as <-.
        constructor; [exact I|auto].
      * destruct (abs_fields D ((x, unknown) :: ea) fs) as [avs'|] eqn:Ea; [|discriminate]. injection Ha as <-.
        constructor; [exact I|auto].
      * destruct (ceval_ns D ea e) as [n|] eqn:En; [|discriminate].
        destruct (abs_fields D ((x, unknown) :: ea) fs) as [avs'|] eqn:Ea; [|discriminate]. injection Ha as <-.
        cbn [read_ty] in Hty. apply bind_ok in Hty as (n' & Hn' & Hty).
        rewrite (ceval_ns_ref _ _ _ Err _ _ Hr En) in Hn'. injection Hn' as <-.
        apply read_vec_length in Hty as (l & -> & Hlen).
        constructor; [|auto]. cbn [refines]. exists l. split; [reflexivity|]. rewrite repeat_length. exact Hlen.
      * destruct (abs_fields D ((x, unknown) :: ea) fs) as [avs'|] eqn:Ea; [|discriminate]. injection Ha as <-.
        constructor; [exact I|auto].
Qed.

Lemma bind_fields_ref : forall fs avs vs, Forall2 refines avs vs -> env_ref (bind_fields fs avs) (bind_fields fs vs).
Proof.
  induction fs as [|f fs IH]; intros avs vs H; cbn [bind_fields]; [constructor|].
  destruct f as [x w e|x t nw sp]; [apply IH; exact H|].
  destruct H as [|a v avs vs Hav H]; [constructor|]. apply env_ref_cons; [exact Hav|apply IH; exact H].
Qed.

Lemma env_ref_refl env : env_ref env env.
Proof.
  induction env as [|[x v] env IH]; constructor; [|exact IH]. cbn [fst snd]. split; [reflexivity|].
  destruct v; cbn [refines]; eauto.
Qed.

Lemma pat_match_values p tg b : pat_match p tg = Some b -> forall tgs, tag_values p = Some tgs -> In tg tgs.
Proof.
  destruct p as [n|x lo hi|x]; cbn [pat_match tag_values]; intros H tgs Ht; [| |discriminate].
  - destruct (N.eqb_spec tg n) as [->|]; [|discriminate]. injection Ht as <-. left. reflexivity.
  - destruct ((lo <=? tg) && (tg <=? hi)) eqn:E; [|discriminate]. apply andb_true_iff in E as [E1 E2].
    apply N.leb_le in E1, E2.
    destruct ((lo <=? hi) && (hi - lo <? 1024)); [|discriminate]. injection Ht as <-.
    apply in_map_iff. exists (N.to_nat (tg - lo)). split; [lia|]. apply in_seq. lia.
Qed.

(* a literal / range alternative that passes the sweep: whatever is read, the tag expression gives the tag back *)
Lemma tag_sweep_sound D tv tw va tg b rd p bs vs cs rest sl :
  tag_sweep D tv tw va = true -> pat_match (v_pat va) tg = Some b ->
  read_fields D rd p (b ++ [(tv, VN tg)]) (v_fields va) bs = Ok (vs, cs, rest) ->
  exists m, ceval D (bind_fields (v_fields va) vs) sl (v_tagw va) = Ok m /\ trunc tw m = tg.
Proof.
  unfold tag_sweep. intros Hsw Hpm H.
  destruct (tag_values (v_pat va)) as [tgs|] eqn:Et; [|discriminate].
  rewrite forallb_forall in Hsw. specialize (Hsw tg (pat_match_values _ _ _ Hpm _ Et)).
  unfold tag_back in Hsw. rewrite Hpm in Hsw.
  destruct (abs_fields D (b ++ [(tv, VN tg)]) (v_fields va)) as [avs|] eqn:Ea; [|discriminate].
  destruct (ceval_ns D (bind_fields (v_fields va) avs) (v_tagw va)) as [m|] eqn:Em; [|discriminate].
  apply N.eqb_eq in Hsw. exists m. split; [|exact Hsw].
  eapply ceval_ns_ref; [|exact Em]. apply bind_fields_ref.
  eapply abs_fields_ref; [apply env_ref_refl|exact Ea|exact H].
Qed.

(* `x => …` written back as `*y` with `mut y nowrite = x` as the first item *)
Lemma tag_static_sound D va tg b env0 rd p bs vs cs rest sl :
  tag_static va = true -> pat_match (v_pat va) tg = Some b ->
  read_fields D rd p (b ++ env0) (v_fields va) bs = Ok (vs, cs, rest) ->
  ceval D (bind_fields (v_fields va) vs) sl (v_tagw va) = Ok tg.
Proof.
  unfold tag_static. intros Hst Hpm H.
  destruct (v_pat va) as [n|x lo hi|x]; try discriminate.
  destruct (v_tagw va) as [aw te]. cbn [ce_e] in Hst. destruct te as [n|y|y|y elt| |a1 a2|a1 a2|a1 a2]; try discriminate.
  destruct (v_fields va) as [|[x0 w0 e0|z t nw sp] fs]; try discriminate.
  destruct t as [[w|n]|s k]; try discriminate. destruct nw as [e|]; try discriminate.
  apply andb_true_iff in Hst as [Hy Hx]. apply id_eqb_eq in Hy. subst z.
  destruct e as [aw' ex]. cbn [ce_e] in Hx. destruct ex as [n|x'|x'|x' elt| |a1 a2|a1 a2|a1 a2]; try discriminate.
  apply id_eqb_eq in Hx. subst x'.
  cbn [pat_match] in Hpm. injection Hpm as <-.
  cbn [read_fields] in H. bind_inv H. bind_inv H. destruct a0 as [[vs' cs'] bs2]. injection H as <- _ _.
  unfold ceval in Ha. cbn [ce_aw ce_e eval app] in Ha. rewrite lookup_hd in Ha. injection Ha as <-.
  unfold ceval. cbn [ce_aw ce_e eval bind_fields]. rewrite lookup_hd. reflexivity.
Qed.

(* ================================================================= computed items on the D side *)
Fixpoint cexprs (fs : list field) : list (width * cexpr) :=
  match fs with
  | [] => []
  | FConst _ w e :: r => match lit_of e with Some _ => cexprs r | None => (w, e) :: cexprs r end
  | FMut _ _ _ _ :: r => cexprs r
  end.

Lemma read_fields_cexprs D rd : forall fs p env bs vs cs rest,
  read_fields D rd p env fs bs = Ok (vs, cs, rest) -> map (fun c => fst c) cs = cexprs fs.
Proof.
  induction fs as [|f fs IH]; intros p env bs vs cs rest H; cbn [read_fields cexprs] in *.
  - injection H as _ <- _. reflexivity.
  - destruct f as [x w e|x t [e|] sp].
    + apply bind_ok in H as ([n bs1] & Hd & H). destruct (lit_of e) as [m|].
      * destruct (n =? m); [|discriminate]. eapply IH; eauto.
      * apply bind_ok in H as ([[vs' cs'] bs2] & Hr & H). injection H as _ <- _. cbn [map fst]. f_equal. eapply IH; eauto.
    + apply bind_ok in H as (n & Hn & H). apply bind_ok in H as ([[vs' cs'] bs2] & Hr & H). injection H as _ <- _. eapply IH; eauto.
    + apply bind_ok in H as ([v bs1] & Hv & H). apply bind_ok in H as ([[vs' cs'] bs2] & Hr & H). injection H as _ <- _. eapply IH; eauto.
Qed.

Lemma cexprs_skip : forall fs, cexprs fs = cexprs (snd (skip_nowrite fs)).
Proof.
  induction fs as [|f fs IH]; [reflexivity|]. destruct f as [x w e|x t [e|] sp]; try reflexivity.
  cbn [skip_nowrite cexprs]. destruct (skip_nowrite fs) as [ns r]. cbn [snd] in *. exact IH.
Qed.

Lemma const_kind_slots eS eD x : const_kind eS eD = CSlots x ->
  exists a c, eS = CE a (EAdd (ESlots x cpn) (ELit c)) /\ eD = CE a (EAdd (ESlots x cpn) (ELit c)).
Proof.
  destruct eS as [aS xS], eD as [aD xD]. unfold const_kind. cbn [ce_e ce_aw]. intros H.
  destruct xS as [n|y|y|y elt| |s1 s2|s1 s2|s1 s2]; try discriminate.
  destruct s1 as [n|y|y|y elt| |t1 t2|t1 t2|t1 t2]; try discriminate.
  destruct s2 as [c|y'|y'|y' elt'| |t1 t2|t1 t2|t1 t2]; try discriminate.
  destruct xD as [n|z|z|z elt'| |d1 d2|d1 d2|d1 d2]; try discriminate.
  destruct d1 as [n|z|z|z elt'| |t1 t2|t1 t2|t1 t2]; try discriminate.
  destruct d2 as [c'|z'|z'|z' elt''| |t1 t2|t1 t2|t1 t2]; try discriminate.
  match type of H with (if ?b then _ else _) = _ => destruct b eqn:E; [|discriminate] end.
  injection H as <-.
  repeat (apply andb_true_iff in E as [E ?]).
  repeat match goal with
         | H : id_eqb _ _ = true |- _ => apply id_eqb_eq in H
         | H : N.eqb _ _ = true |- _ => apply N.eqb_eq in H
         end.
  subst. eauto.
Qed.

Lemma consts_slots S D fsS fsD vsS vsD slS slD c :
  (forall x, In x (fc_wl c) -> wl_ok S D fsS fsD vsS vsD x) ->
  forall ks csS csD, cs_rel ks csS csD -> forallb (slots_kind_ok c) ks = true ->
  consts_agree (ceval S (bind_fields fsS vsS) slS) csS = true ->
  consts_agree (ceval D (bind_fields fsD vsD) slD) csD = true.
Proof.
  intros Hwl. induction ks as [|k ks IH]; intros csS csD Hr Hk Hc.
  - destruct csS, csD; try contradiction. reflexivity.
  - destruct csS as [|[[wS eS] nS] csS], csD as [|[[wD eD] nD] csD]; try contradiction.
    cbn [cs_rel] in Hr. destruct Hr as (-> & -> & Hck & Hr).
    cbn [forallb] in Hk. apply andb_true_iff in Hk as [Hk1 Hk].
    cbn [consts_agree] in *. apply andb_true_iff in Hc as [Hc1 Hc].
    rewrite (IH _ _ Hr Hk Hc), andb_true_r.
    destruct k as [|x]; [discriminate|]. cbn [slots_kind_ok] in Hk1.
    apply existsb_exists in Hk1 as (x' & Hin & Hx). apply id_eqb_eq in Hx. subst x'.
    destruct (Hwl _ Hin) as (lS & lD & HlS & HlD & Hrel).
    apply const_kind_slots in Hck as (a & cc & -> & ->).
    unfold ceval in *. cbn [ce_aw ce_e eval] in *. rewrite HlS in Hc1. rewrite HlD.
    rewrite <- (slots_of_rel _ _ _ _ Hrel). exact Hc1.
Qed.

(* --- attribute_length --- *)
Lemma len_skip ln : forall fs names rest vs n, skip_nowrite fs = (names, rest) ->
  len_fields ln fs vs = Ok n ->
  exists vs', len_fields ln rest vs' = Ok n /\
    forall x, existsb (id_eqb x) names = false -> lookup (bind_fields fs vs) x = lookup (bind_fields rest vs') x.
Proof.
  induction fs as [|fd fs IH]; intros names rest vs n Hs H.
  - injection Hs as <- <-. exists vs. auto.
  - destruct fd as [x w e|y t [e|] sp].
    + injection Hs as <- <-. exists vs. auto.
    + cbn [skip_nowrite] in Hs. destruct (skip_nowrite fs) as [ns r] eqn:E. injection Hs as <- <-.
      cbn [len_fields] in H. destruct vs as [|v vs]; [discriminate|].
      cbn [bind] in H. apply bind_ok in H as (m & Hm & H). injection H as <-.
      destruct (IH _ _ _ _ eq_refl Hm) as (vs' & Hw & Hl). exists vs'. rewrite N.add_0_l. split; [exact Hw|].
      intros x Hx. cbn [existsb] in Hx. apply orb_false_iff in Hx as [Hxy Hx].
      cbn [bind_fields lookup]. rewrite Hxy. apply Hl. exact Hx.
    + injection Hs as <- <-. exists vs. auto.
Qed.

Lemma sum_prim D f w : forall l s, sum_map (len_sty D f (Prim w)) l = Ok s ->
  s = N.of_nat (wbytes w) * N.of_nat (length l).
Proof.
  induction l as [|v l IH]; intros s H; cbn [sum_map] in H.
  - injection H as <-. cbn [length]. lia.
  - apply bind_ok in H as (a & Ha & H). apply bind_ok in H as (b & Hb & H). injection H as <-.
    rewrite (IH _ Hb). assert (a = N.of_nat (wbytes w)).
    { destruct f; cbn [len_sty] in Ha; destruct v; try discriminate; injection Ha as <-; reflexivity. }
    subst a. cbn [length]. lia.
Qed.

Lemma attr_len_eval D f fs vs n : attr_len_ok W16 fs = true -> head_const_computed fs = true ->
  len_fields (len_sty D f) fs vs = Ok n -> 2 + n < 4294967296 ->
  exists x e rest', snd (skip_nowrite fs) = FConst x W32 e :: rest' /\ lit_of e = None /\
    ceval D (bind_fields fs vs) (Ok (2 + n)) e = Ok (n - 4) /\ 4 <= n.
Proof.
  intros Hok Hh Hlen Hn. unfold attr_len_ok in Hok. unfold head_const_computed in Hh.
  destruct (skip_nowrite fs) as [names rest] eqn:Es. cbn [snd] in Hh.
  destruct (len_skip _ _ _ _ _ _ Es Hlen) as (vs' & Hl' & Hlk).
  destruct rest as [|[x0 w0 e|y t nw sp] rest']; try discriminate.
  destruct w0; try discriminate.
  destruct (lit_of e) eqn:El; [discriminate|]. apply N.leb_le in Hh.
  exists x0, e, rest'. split; [reflexivity|]. split; [exact El|].
  cbn [len_fields] in Hl'. apply bind_ok in Hl' as (n' & Hn' & Hl'). injection Hl' as <-. cbn [wbytes] in *. change (N.of_nat 4) with 4 in *.
  destruct e as [aw ex]. cbn [ce_aw] in Hh. unfold lit_of in El. cbn [ce_e] in El.
  destruct ex as [m| | | | |e1 e2|e1 e2|]; try discriminate.
  - (* c + k * x.len() *)
    destruct e1 as [c| | | | | | |]; try discriminate.
    destruct e2 as [| | | | | | |e3 e4]; try discriminate.
    destruct e3 as [k| | | | | | |]; try discriminate.
    destruct e4 as [| |x| | | | |]; try discriminate.
    destruct rest' as [|[|y t nw2 sp] rest2]; try discriminate;
      destruct t as [|[w|] [cw| |]]; try discriminate;
      destruct nw2; try discriminate; destruct rest2; try discriminate.
    repeat (apply andb_true_iff in Hok as [Hok ?]).
    match goal with H : negb _ = true |- _ => apply negb_true_iff in H; rename H into Hnn end.
    match goal with H : (k =? _) = true |- _ => apply N.eqb_eq in H; rename H into Hk end.
    match goal with H : (c =? _) = true |- _ => apply N.eqb_eq in H; rename H into Hc end.
    apply id_eqb_eq in Hok. subst y.
    cbn [len_fields] in Hn'. destruct vs' as [|v vs']; [discriminate|].
    apply bind_ok in Hn' as (a & Ha & Hn'). apply bind_ok in Hn' as (b & Hb & Hn'). injection Hn' as <-.
    destruct vs'; [|discriminate]. injection Hb as <-.
    cbn [len_ty] in Ha. destruct v as [|l| |]; try discriminate.
    apply bind_ok in Ha as (s & Hs & Ha). injection Ha as <-.
    pose proof (sum_prim _ _ _ _ _ Hs) as Hsum.
    assert (Hx : lookup (bind_fields fs vs) x = Some (VL l)).
    { rewrite (Hlk _ Hnn). cbn [bind_fields lookup]. rewrite id_eqb_refl'. reflexivity. }
    assert (Hpow : 4294967296 <= 2 ^ aw).
    { change 4294967296 with (2 ^ 32). apply N.pow_le_mono_r; lia. }
    split; [|lia].
    unfold ceval. cbn [ce_aw ce_e eval]. rewrite Hx. cbn [bind].
    subst c k s.
    destruct (N.ltb_spec (N.of_nat (wbytes w) * N.of_nat (length l)) (2 ^ aw)) as [_|Hbad]; [|lia]. cbn [bind].
    destruct (N.ltb_spec (N.of_nat (wbytes cw) + N.of_nat (wbytes w) * N.of_nat (length l)) (2 ^ aw)) as [_|Hbad]; [|lia].
    f_equal. lia.
  - (* this._len() - 6 *)
    destruct e1; try discriminate. destruct e2 as [six| | | | | | |]; try discriminate.
    apply andb_true_iff in Hok as [Hsix Hok]. apply N.eqb_eq in Hsix. subst six.
    split; [|lia].
    unfold ceval. cbn [ce_aw ce_e eval bind].
    destruct (N.ltb_spec (2 + (4 + n')) 4294967296) as [_|Hbad]; [|lia]. cbn [bind].
    destruct (N.leb_spec 6 (2 + (4 + n'))) as [_|Hbad]; [|lia].
    f_equal. lia.
Qed.

(* ================================================================= simulation: selecting the alternative *)
Lemma pat_compat_match pS pD tg : pat_compat pS pD = true ->
  match pat_match pS tg, pat_match pD tg with
  | Some _, Some _ => True
  | None, None => True
  | _, _ => False
  end.
Proof.
  unfold pat_compat.
  destruct pS as [n|x lo hi|x], pD as [m|y lo' hi'|y]; cbn [pat_bounds pat_match]; try discriminate; try (intros _; exact I).
  - intros H. apply andb_true_iff in H as [H _]. apply N.eqb_eq in H. subst m. destruct (tg =? n); exact I.
  - intros H. apply andb_true_iff in H as [H1 H2]. apply N.eqb_eq in H1, H2. subst lo' hi'.
    destruct (N.eqb_spec tg n) as [->|Hne].
    + rewrite N.leb_refl. exact I.
    + destruct (N.leb_spec n tg), (N.leb_spec tg n); cbn [andb]; try exact I. lia.
  - intros H. apply andb_true_iff in H as [H1 H2]. apply N.eqb_eq in H1, H2. subst lo hi.
    destruct (N.eqb_spec tg m) as [->|Hne].
    + rewrite N.leb_refl. exact I.
    + destruct (N.leb_spec m tg), (N.leb_spec tg m); cbn [andb]; try exact I. lia.
  - intros H. apply andb_true_iff in H as [H1 H2]. apply N.eqb_eq in H1, H2. subst lo' hi'.
    destruct ((lo <=? tg) && (tg <=? hi)); exact I.
Qed.

Lemma pat_env_lookup p tg b tv a : pat_match p tg = Some b -> In a (pat_names p ++ [tv]) ->
  lookup (b ++ [(tv, VN tg)]) a = Some (VN tg).
Proof.
  intros Hm Hin. apply in_app_or in Hin as [Hin|[<-|[]]].
  - destruct p as [n|[x|] lo hi|x]; cbn [pat_names pat_match] in *.
    + destruct Hin.
    + destruct Hin as [<-|[]].
      destruct ((lo <=? tg) && (tg <=? hi)); [|discriminate]. injection Hm as <-. cbn [app]. apply lookup_hd.
    + destruct Hin.
    + destruct Hin as [<-|[]]. injection Hm as <-. cbn [app]. apply lookup_hd.
  - destruct p as [n|[x|] lo hi|x]; cbn [pat_match] in Hm.
    + destruct (tg =? n); [|discriminate]. injection Hm as <-. cbn [app]. apply lookup_hd.
    + destruct ((lo <=? tg) && (tg <=? hi)); [|discriminate]. injection Hm as <-. cbn [app lookup].
      destruct (id_eqb tv x); [reflexivity|]. rewrite id_eqb_refl'. reflexivity.
    + destruct ((lo <=? tg) && (tg <=? hi)); [|discriminate]. injection Hm as <-. cbn [app]. apply lookup_hd.
    + injection Hm as <-. cbn [app lookup]. destruct (id_eqb tv x); [reflexivity|]. rewrite id_eqb_refl'. reflexivity.
Qed.

Lemma rho0_linked tvS tvD pS pD tg bS bD : pat_match pS tg = Some bS -> pat_match pD tg = Some bD ->
  linked (rho0 tvS tvD pS pD) (bS ++ [(tvS, VN tg)]) (bD ++ [(tvD, VN tg)]).
Proof.
  intros HS HD a b Hin. unfold rho0 in Hin. apply in_prod_iff in Hin as [Ha Hb].
  exists (VN tg). split; eapply pat_env_lookup; eauto.
Qed.

Lemma guard_sim S D r gS gD pS pD eS eD : guard_compat r gS gD = true -> linked r eS eD -> pool_rel S D pS pD ->
  guard_eval S pS eS gS = guard_eval D pD eD gD.
Proof.
  intros Hg Hl Hp. destruct gS as [|iS sS], gD as [|iD sD]; cbn [guard_compat] in Hg; try discriminate; [reflexivity|].
  apply andb_true_iff in Hg as [Hi Hs]. apply leqbN_eq in Hs. subst sD.
  cbn [guard_eval]. rewrite (cexpr_compat_eval S D _ _ _ Err Err _ _ Hl Hi).
  destruct (ceval D eD Err iD); [|reflexivity]. cbn [bind]. apply pool_has_utf8_rel. exact Hp.
Qed.

Lemma variant_compat_parts D n tvS tvD tw vaS vaD : variant_compat D n tvS tvD tw vaS vaD = true ->
  pat_compat (v_pat vaS) (v_pat vaD) = true /\
  guard_compat (rho0 tvS tvD (v_pat vaS) (v_pat vaD)) (v_guard vaS) (v_guard vaD) = true /\
  v_wide vaS = v_wide vaD /\
  (exists c, fields_compat (rho0 tvS tvD (v_pat vaS) (v_pat vaD)) (pat_names (v_pat vaD) ++ [tvD]) (v_fields vaS) (v_fields vaD) = Some c /\
             kinds_ok_variant tw (v_fields vaS) (v_fields vaD) c = true /\ (id_eqb n cpn = true -> fc_plain c = true)) /\
  tag_ok D tvD tw vaD = true.
Proof.
  unfold variant_compat. intros H. cbv zeta in H.
  apply andb_true_iff in H as [H Htag]. apply andb_true_iff in H as [H Hf].
  apply andb_true_iff in H as [H Hw]. apply andb_true_iff in H as [Hpat Hg].
  apply eqb_prop in Hw. repeat split; auto.
  destruct (fields_compat _ _ (v_fields vaS) (v_fields vaD)) as [c|]; [|discriminate].
  apply andb_true_iff in Hf as [Hk Hpl]. exists c. repeat split; auto.
  intros Hn. rewrite Hn in Hpl. exact Hpl.
Qed.

Lemma sim_select S D n tvS tvD tw pS pD tg : pool_rel S D pS pD -> forall varsS varsD k0 k vaS envS,
  all2 (variant_compat D n tvS tvD tw) varsS varsD = true ->
  select S pS [(tvS, VN tg)] tg varsS k0 = Ok (k, vaS, envS) ->
  exists vaD bS bD, select D pD [(tvD, VN tg)] tg varsD k0 = Ok (k, vaD, bD ++ [(tvD, VN tg)]) /\
    envS = bS ++ [(tvS, VN tg)] /\ pat_match (v_pat vaS) tg = Some bS /\ pat_match (v_pat vaD) tg = Some bD /\
    variant_compat D n tvS tvD tw vaS vaD = true.
Proof.
  intros Hp. induction varsS as [|vS varsS IH]; intros varsD k0 k vaS envS Hall H; cbn [select] in H; [discriminate|].
  destruct varsD as [|vD varsD]; cbn [all2] in Hall; [discriminate|].
  apply andb_true_iff in Hall as [Hv Hall].
  destruct (variant_compat_parts _ _ _ _ _ _ _ Hv) as (Hpat & Hg & _ & _ & _).
  pose proof (pat_compat_match _ _ tg Hpat) as Hpm. cbn [select].
  destruct (pat_match (v_pat vS) tg) as [bS|] eqn:EmS, (pat_match (v_pat vD) tg) as [bD|] eqn:EmD; try contradiction.
  - rewrite <- (guard_sim S D _ _ _ pS pD _ _ Hg (rho0_linked tvS tvD _ _ _ _ _ EmS EmD) Hp).
    destruct (guard_eval S pS (bS ++ [(tvS, VN tg)]) (v_guard vS)) as [g|]; [|discriminate]. cbn [bind] in *.
    destruct g.
    + injection H as <- <- <-. exists vD, bS, bD. auto.
    + eapply IH; eauto.
  - eapply IH; eauto.
Qed.

(* --- alternatives compared tag by tag --- *)
Lemma select_pure D p env0 tg : forall vars k0, unguarded vars = true ->
  select D p env0 tg vars k0 =
    match sel_pure vars tg k0 with Some (k, va, b) => Ok (k, va, b ++ env0) | None => Err end.
Proof.
  induction vars as [|va vars IH]; intros k0 Hu; cbn [select sel_pure]; [reflexivity|].
  cbn [unguarded forallb] in Hu. apply andb_true_iff in Hu as [Hg Hu].
  destruct (pat_match (v_pat va) tg) as [b|].
  - destruct (v_guard va); [|discriminate]. reflexivity.
  - apply IH. exact Hu.
Qed.

Lemma sel_pure_match tg : forall vars k0 k va b, sel_pure vars tg k0 = Some (k, va, b) -> pat_match (v_pat va) tg = Some b.
Proof.
  induction vars as [|v vars IH]; intros k0 k va b H; cbn [sel_pure] in H; [discriminate|].
  destruct (pat_match (v_pat v) tg) as [b'|] eqn:E.
  - injection H as <- <- <-. exact E.
  - eapply IH; eauto.
Qed.

Lemma in_all_tags8 tg : tg < 256 -> In tg all_tags8.
Proof.
  intros H. unfold all_tags8. apply in_map_iff. exists (N.to_nat tg). split; [apply N2Nat.id|]. apply in_seq. lia.
Qed.

Lemma sim_select_gen S D n tvS tvD tw pS pD tg varsS varsD k vaS envS : pool_rel S D pS pD -> tg < wmod tw ->
  (all2 (variant_compat D n tvS tvD tw) varsS varsD || enum_sweep D n tvS tvD tw varsS varsD) = true ->
  select S pS [(tvS, VN tg)] tg varsS O = Ok (k, vaS, envS) ->
  exists kD vaD bS bD, select D pD [(tvD, VN tg)] tg varsD O = Ok (kD, vaD, bD ++ [(tvD, VN tg)]) /\
    envS = bS ++ [(tvS, VN tg)] /\ pat_match (v_pat vaS) tg = Some bS /\ pat_match (v_pat vaD) tg = Some bD /\
    variant_compat D n tvS tvD tw vaS vaD = true /\ (id_eqb n cpn = true -> kD = k).
Proof.
  intros Hp Htg Hor Hsel. apply orb_true_iff in Hor as [Hall|Hsw].
  - destruct (sim_select _ _ _ _ _ _ _ _ _ Hp _ _ _ _ _ _ Hall Hsel) as (vaD & bS & bD & H1 & H2 & H3 & H4 & H5).
    exists k, vaD, bS, bD. repeat split; auto.
  - unfold enum_sweep in Hsw. repeat (apply andb_true_iff in Hsw as [Hsw ?]).
    apply wd_eqb_eq in Hsw. subst tw. cbn [wmod] in Htg.
    match goal with H : forallb _ all_tags8 = true |- _ => rewrite forallb_forall in H; specialize (H tg (in_all_tags8 _ Htg)); rename H into Hchk end.
    match goal with H : unguarded varsS = true |- _ => rename H into HuS end.
    match goal with H : unguarded varsD = true |- _ => rename H into HuD end.
    match goal with H : negb (id_eqb n cpn) = true |- _ => apply negb_true_iff in H; rename H into Hn end.
    rewrite (select_pure _ _ _ _ _ _ HuS) in Hsel.
    destruct (sel_pure varsS tg 0) as [[[k1 va1] bS]|] eqn:ES; [|discriminate]. injection Hsel as <- <- <-.
    destruct (sel_pure varsD tg 0) as [[[kD vaD] bD]|] eqn:ED; [|discriminate].
    exists kD, vaD, bS, bD. rewrite (select_pure _ _ _ _ _ _ HuD), ED.
    repeat split; auto; try (eapply sel_pure_match; eauto).
    intros Hc. congruence.
Qed.

(* ================================================================= the theorem *)
Lemma lookup_In_key {A} (l : list (id * A)) x a : lookup l x = Some a -> In (x, a) l.
Proof.
  induction l as [|[y b] l IH]; cbn [lookup]; [discriminate|].
  destruct (id_eqb x y) eqn:E.
  - apply id_eqb_eq in E. subst y. intros [= <-]. left. reflexivity.
  - intros H. right. apply IH. exact H.
Qed.

Lemma env_compat_lookup S D n dS : env_compat S D = true -> lookup S n = Some dS ->
  exists dD, lookup D n = Some dD /\ decl_compat S D n dS dD = true.
Proof.
  unfold env_compat. intros H Hl. rewrite forallb_forall in H. specialize (H _ (lookup_In_key _ _ _ Hl)).
  cbn [fst snd] in H. destruct (lookup D n) as [dD|]; [|discriminate]. eauto.
Qed.

Lemma sim_prim S D f pS pD w bs vS rest : read_sty S true f pS (Prim w) bs = Ok (vS, rest) ->
  read_sty D true f pD (Prim w) bs = Ok (vS, rest).
Proof. destruct f; cbn [read_sty]; auto. Qed.

Lemma bound_nil env : bound_ok [] env.
Proof. intros y []. Qed.

Lemma pat_bound p tg b tv : pat_match p tg = Some b -> bound_ok (pat_names p ++ [tv]) (b ++ [(tv, VN tg)]).
Proof. intros Hm y Hy. exists tg. eapply pat_env_lookup; eauto. Qed.

Theorem sim_read S D : env_compat S D = true -> forall fuel pS pD t bs vS rest, okb bs -> pool_rel S D pS pD ->
  read_sty S true fuel pS t bs = Ok (vS, rest) ->
  exists vD, read_sty D true fuel pD t bs = Ok (vD, rest) /\ vrel S D t vS vD.
Proof.
  intros Hc. induction fuel as [|f IH]; intros pS pD t bs vS rest Hb Hp H.
  - destruct t as [w|n]; [|discriminate]. exists vS. split; [eapply sim_prim; eauto|reflexivity].
  - destruct t as [w|n]; [exists vS; split; [eapply sim_prim; eauto|reflexivity]|].
    assert (Hs : sim_spec S D (read_sty S true f) (read_sty D true f)).
    { intros pS' pD' s bs' vS' rest' Hb' Hp' H'. eapply IH; eauto. }
    assert (HrlS : rl_spec (read_sty S true f) (len_sty S f)).
    { intros p' s bs' v' rest' Hb' H'. eapply read_len; eauto. }
    assert (HrlD : rl_spec (read_sty D true f) (len_sty D f)).
    { intros p' s bs' v' rest' Hb' H'. eapply read_len; eauto. }
    cbn [read_sty] in H. destruct (lookup S n) as [dS|] eqn:ElS; [|discriminate].
    destruct (env_compat_lookup _ _ _ _ Hc ElS) as (dD & ElD & Hdc).
    destruct dS as [fsS|tvS twS varsS ftS], dD as [fsD|tvD twD varsD ftD]; cbn [decl_compat] in Hdc; try discriminate.
    + (* record *)
      apply andb_true_iff in Hdc as [Hncp Hdc].
      destruct (fields_compat [] [] fsS fsD) as [c|] eqn:Efc; [|discriminate].
      apply bind_ok in H as ([[vsS csS] bs'] & HrS & H). cbn [negb orb] in H.
      match type of H with (if ?b then _ else _) = _ => destruct b eqn:HcS; [|discriminate] end.
      injection H as <- <-.
      destruct (sim_fields _ _ _ _ _ Hs HrlS _ _ _ _ _ _ _ _ _ _ _ _ _ Efc Hb Hp (linked_nil [] []) (bound_nil []) HrS)
        as (vsD & csD & HrD & Hpl & Hwl & Hcs).
      exists (VS vsD). split.
      * cbn [read_sty]. rewrite ElD, HrD. cbn [bind negb orb].
        rewrite (consts_slots _ _ _ _ _ _ _ _ _ Hwl _ _ _ Hcs Hdc HcS). reflexivity.
      * cbn [vrel]. apply negb_true_iff in Hncp. rewrite Hncp. exact I.
    + (* union *)
      apply andb_true_iff in Hdc as [Hdc Hutf]. apply andb_true_iff in Hdc as [Htw Hall].
      apply wd_eqb_eq in Htw. subst twD.
      apply bind_ok in H as ([tg bs1] & Hdec & H).
      destruct (enc_dec _ _ _ _ (proj1 Hb) Hdec) as (Ebs & Htg & _).
      destruct (dec_okb _ _ _ _ Hb Hdec) as (Hb1 & _).
      apply bind_ok in H as ([[k vaS] envS] & Hsel & H).
      apply bind_ok in H as ([[vsS csS] bs'] & HrS & H). cbn [negb orb] in H.
      match type of H with (if ?b then _ else _) = _ => destruct b eqn:HchkS; [|discriminate] end.
      injection H as <- <-. apply andb_true_iff in HchkS as [_ HcS].
      destruct (sim_select_gen _ _ _ _ _ _ _ _ _ _ _ _ _ _ Hp Htg Hall Hsel) as (kD & vaD & bS & bD & HselD & -> & HmS & HmD & Hv & Hk).
      destruct (variant_compat_parts _ _ _ _ _ _ _ Hv) as (_ & _ & Hwide & (c & Efc & Hkinds & Hplain) & Htag).
      pose proof (rho0_linked tvS tvD _ _ _ _ _ HmS HmD) as Hl.
      destruct (sim_fields _ _ _ _ _ Hs HrlS _ _ _ _ _ _ _ _ _ _ _ _ _ Efc Hb1 Hp Hl (pat_bound _ _ _ tvD HmD) HrS)
        as (vsD & csD & HrD & Hpl & Hwl & Hcs).
      pose proof (select_nth0 _ _ _ _ _ _ _ _ Hsel) as HnS.
      pose proof (select_nth0 _ _ _ _ _ _ _ _ HselD) as HnD.
      destruct (rl_fields _ _ _ HrlS _ _ _ _ _ _ _ (proj1 Hb1) HrS) as (preS & EpS & HlenS).
      destruct (rl_fields _ _ _ HrlD _ _ _ _ _ _ _ (proj1 Hb1) HrD) as (preD & EpD & HlenD).
      assert (preD = preS) by (rewrite EpS in EpD; apply app_inv_tail in EpD; congruence). subst preD.
      exists (VV kD vsD). split.
      * cbn [read_sty]. rewrite ElD, Hdec. cbn [bind]. rewrite HselD. cbn [bind]. rewrite HrD. cbn [bind negb orb].
        cbn [len_sty]. rewrite ElD, HnD, HlenD. cbn [bind].
        cbn [len_sty] in HcS. rewrite ElS, HnS, HlenS in HcS. cbn [bind] in HcS.
        set (sl := Ok (N.of_nat (wbytes twS) + N.of_nat (length preS))) in *.
        (* the tag *)
        assert (Ht : match ceval D (bind_fields (v_fields vaD) vsD) sl (v_tagw vaD) with
                     | Ok m => trunc twS m =? tg
                     | Err => false
                     end = true).
        { unfold tag_ok in Htag. apply orb_true_iff in Htag as [Hst|Hsw].
          - rewrite (tag_static_sound _ _ _ _ _ _ _ _ _ _ _ sl Hst HmD HrD).
            rewrite trunc_small by exact Htg. apply N.eqb_refl.
          - destruct (tag_sweep_sound _ _ _ _ _ _ _ _ _ _ _ _ sl Hsw HmD HrD) as (m & -> & Hm).
            rewrite Hm. apply N.eqb_refl. }
        rewrite Ht. cbn [andb].
        (* the computed items *)
        assert (Hcd : consts_agree (ceval D (bind_fields (v_fields vaD) vsD) sl) csD = true).
        { unfold kinds_ok_variant in Hkinds.
          destruct (fc_kinds c) as [|[|x] [|k2 ks]] eqn:Eks;
            try (eapply consts_slots; [exact Hwl|exact Hcs|exact Hkinds|exact HcS]).
          (* attribute_length: on either side the expression is the number of bytes that follow *)
          repeat (apply andb_true_iff in Hkinds as [Hkinds ?]).
          apply wd_eqb_eq in Hkinds. subst twS.
          destruct csS as [|[[wS eS] nS] [|? ?]], csD as [|[[wD eD] nD] [|? ?]]; cbn [cs_rel] in Hcs; try contradiction;
            try (destruct Hcs as (_ & _ & _ & []); fail).
          destruct Hcs as (-> & -> & _ & _).
          subst sl. cbn [wbytes] in *. change (N.of_nat 2) with 2 in *.
          assert (Hlt : 2 + N.of_nat (length preS) < 4294967296).
          { destruct Hb as [_ Hsm]. rewrite Ebs, EpS, !app_length, length_enc in Hsm. cbn [wbytes] in Hsm. lia. }
          match goal with HaS : attr_len_ok W16 (v_fields vaS) = true, HhS : head_const_computed (v_fields vaS) = true,
                          HaD : attr_len_ok W16 (v_fields vaD) = true, HhD : head_const_computed (v_fields vaD) = true |- _ =>
            destruct (attr_len_eval _ _ _ _ _ HaS HhS HlenS Hlt) as (xs & es & rs & HskS & HlitS & HevS & _);
            destruct (attr_len_eval _ _ _ _ _ HaD HhD HlenD Hlt) as (xd & ed & rd & HskD & HlitD & HevD & _)
          end.
          pose proof (read_fields_cexprs _ _ _ _ _ _ _ _ _ HrS) as HcxS. rewrite cexprs_skip, HskS in HcxS.
          cbn [cexprs map fst] in HcxS. rewrite HlitS in HcxS. injection HcxS as -> -> _.
          pose proof (read_fields_cexprs _ _ _ _ _ _ _ _ _ HrD) as HcxD. rewrite cexprs_skip, HskD in HcxD.
          cbn [cexprs map fst] in HcxD. rewrite HlitD in HcxD. injection HcxD as -> _.
          cbn [consts_agree] in *. rewrite HevS in HcS. rewrite HevD. exact HcS. }
        rewrite Hcd. reflexivity.
      * cbn [vrel]. destruct (id_eqb n cpn) eqn:En; [|exact I].
        specialize (Hk eq_refl). subst kD.
        apply id_eqb_eq in En. subst n. cbn [negb orb] in Hutf.
        specialize (Hpl (Hplain eq_refl)). subst vsD.
        split.
        -- unfold is_wide. rewrite ElS, ElD, HnS, HnD. exact Hwide.
        -- unfold utf8_of.
           destruct (utf8_variant S) as [a|], (utf8_variant D) as [b|]; cbn [onat_eqb] in Hutf; try discriminate.
           ++ apply Nat.eqb_eq in Hutf. subst b. reflexivity.
           ++ destruct vsS as [|[] []]; reflexivity.
Qed.
