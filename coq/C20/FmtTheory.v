(* C20 — generic theorems about the three interpreters of Fmt.v.  Nothing here mentions a
   particular declaration: every statement is for an arbitrary environment [D : denv], so a
   regenerated RawGen.v never touches these proofs. *)
From FB Require Import C20.Fmt.
From Coq Require Import Lia PeanoNat Wf_nat.
Open Scope N_scope.

Arguments N.add : simpl never.
Arguments N.mul : simpl never.
Arguments N.pow : simpl never.
Arguments N.modulo : simpl never.
Arguments N.div : simpl never.

(* ================================================================= bytes *)
Definition byte_ok (b : N) : Prop := b < 256.
Definition bytes_ok (bs : list N) : Prop := Forall byte_ok bs.

Definition step (a b : N) : N := a * 256 + b.
Lemma step_eq a b : step a b = a * 256 + b.
Proof. reflexivity. Qed.

Lemma length_be k n : length (be k n) = k.
Proof.
  revert n; induction k as [|k IH]; intros n; cbn [be]; [reflexivity|].
  rewrite app_length, IH. cbn [length]. lia.
Qed.

Lemma length_enc w n : length (enc w n) = wbytes w.
Proof. unfold enc. apply length_be. Qed.

Lemma wbytes_pos w : (1 <= wbytes w)%nat.
Proof. destruct w; cbn; lia. Qed.

Lemma wmod_pow w : wmod w = 256 ^ N.of_nat (wbytes w).
Proof. destruct w; reflexivity. Qed.

Lemma wmod_pos w : 0 < wmod w.
Proof. destruct w; cbn; lia. Qed.

Lemma trunc_lt w n : trunc w n < wmod w.
Proof. unfold trunc. apply N.mod_lt. pose proof (wmod_pos w). lia. Qed.

Lemma trunc_small w n : n < wmod w -> trunc w n = n.
Proof. intros H. unfold trunc. apply N.mod_small. exact H. Qed.

Lemma trunc_idem w n : trunc w (trunc w n) = trunc w n.
Proof. apply trunc_small, trunc_lt. Qed.

(* unbe reads exactly k bytes, most significant first *)
Lemma unbe_spec k : forall acc bs n rest,
  unbe acc k bs = Ok (n, rest) <->
  exists pre, bs = pre ++ rest /\ length pre = k /\ n = fold_left step pre acc.
Proof.
  induction k as [|k IH]; intros acc bs n rest; cbn [unbe].
  - split.
    + intros [= <- <-]. exists []. auto.
    + intros (pre & -> & Hl & ->). destruct pre; [reflexivity|discriminate].
  - destruct bs as [|b bs].
    + split; [discriminate|]. intros (pre & Hb & Hl & _). destruct pre; discriminate.
    + rewrite IH. split.
      * intros (pre & -> & Hl & ->). exists (b :: pre). cbn [app length fold_left]. auto.
      * intros (pre & Hb & Hl & ->). destruct pre as [|b' pre]; [discriminate|].
        cbn [app] in Hb. injection Hb as <- ->. exists pre. cbn in Hl. split; [reflexivity|].
        split; [lia|reflexivity].
Qed.

Lemma fold_step_be k : forall m acc, m < 256 ^ N.of_nat k ->
  fold_left step (be k m) acc = acc * 256 ^ N.of_nat k + m.
Proof.
  induction k as [|k IH]; intros m acc Hm.
  - cbn [be fold_left]. change (N.of_nat 0) with 0 in *. rewrite N.pow_0_r in *. lia.
  - cbn [be]. rewrite fold_left_app. cbn [fold_left]. rewrite step_eq.
    rewrite Nat2N.inj_succ, N.pow_succ_r' in *.
    rewrite IH.
    + pose proof (N.div_mod m 256 ltac:(lia)) as E. lia.
    + apply N.div_lt_upper_bound; lia.
Qed.

Lemma be_fold pre : bytes_ok pre ->
  be (length pre) (fold_left step pre 0) = pre /\ fold_left step pre 0 < 256 ^ N.of_nat (length pre).
Proof.
  induction pre as [|b pre IH] using rev_ind; intros Hb.
  - cbn. split; [reflexivity|]. change (N.of_nat 0) with 0. rewrite N.pow_0_r. lia.
  - apply Forall_app in Hb as [Hpre Hb]. inversion Hb as [|? ? Hb' _]; subst. unfold byte_ok in Hb'.
    destruct (IH Hpre) as [IH1 IH2].
    rewrite fold_left_app. cbn [fold_left]. rewrite !step_eq.
    rewrite app_length. cbn [length]. replace (length pre + 1)%nat with (S (length pre)) by lia.
    cbn [be]. rewrite Nat2N.inj_succ, N.pow_succ_r'. split.
    + replace ((fold_left step pre 0 * 256 + b) / 256) with (fold_left step pre 0).
      2:{ apply N.div_unique with b; lia. }
      replace ((fold_left step pre 0 * 256 + b) mod 256) with b.
      2:{ apply N.mod_unique with (fold_left step pre 0); lia. }
      rewrite IH1. reflexivity.
    + lia.
Qed.

(* reading what was written *)
Lemma dec_enc w n rest : dec w (enc w n ++ rest) = Ok (trunc w n, rest).
Proof.
  unfold dec, enc. apply unbe_spec. exists (be (wbytes w) (trunc w n)).
  split; [reflexivity|]. split; [apply length_be|].
  rewrite fold_step_be.
  - lia.
  - rewrite <- wmod_pow. apply trunc_lt.
Qed.

(* writing what was read *)
Lemma enc_dec w bs n rest : bytes_ok bs -> dec w bs = Ok (n, rest) ->
  bs = enc w n ++ rest /\ n < wmod w /\ bytes_ok rest.
Proof.
  intros Hb H. unfold dec in H. apply unbe_spec in H as (pre & -> & Hl & ->).
  apply Forall_app in Hb as [Hpre Hrest].
  destruct (be_fold pre Hpre) as [E1 E2]. rewrite Hl in E1, E2. rewrite <- wmod_pow in E2.
  unfold enc. rewrite trunc_small by exact E2. rewrite E1. auto.
Qed.

Lemma enc_trunc w n : enc w (trunc w n) = enc w n.
Proof. unfold enc. rewrite trunc_idem. reflexivity. Qed.

Lemma bytes_ok_be k : forall n, bytes_ok (be k n).
Proof.
  induction k as [|k IH]; intros n; cbn [be]; [constructor|].
  apply Forall_app. split; [apply IH|]. constructor; [|constructor].
  unfold byte_ok. apply N.mod_lt. lia.
Qed.

(* ================================================================= small facts *)
Lemma bind_ok {A B} (r : res A) (f : A -> res B) b :
  bind r f = Ok b -> exists a, r = Ok a /\ f a = Ok b.
Proof. destruct r as [a|]; cbn; [eauto|discriminate]. Qed.

Ltac bind_inv H :=
  let a := fresh "a" in let Ha := fresh "Ha" in
  apply bind_ok in H as (a & Ha & H).

Lemma of_nat_app {A} (a b : list A) : N.of_nat (length (a ++ b)) = N.of_nat (length a) + N.of_nat (length b).
Proof. rewrite app_length. lia. Qed.

(* ================================================================= len_write *)
Definition lw_spec (wr : sty -> val -> res (list N)) (ln : sty -> val -> res N) : Prop :=
  forall s v bs, wr s v = Ok bs -> ln s v = Ok (N.of_nat (length bs)).

Lemma lw_concat wr ln s : lw_spec wr ln -> forall l bs,
  concat_map (wr s) l = Ok bs -> sum_map (ln s) l = Ok (N.of_nat (length bs)).
Proof.
  intros Hs l; induction l as [|v l IH]; intros bs H; cbn [concat_map sum_map] in *.
  - injection H as <-. reflexivity.
  - bind_inv H. bind_inv H. injection H as <-.
    rewrite (Hs _ _ _ Ha). cbn [bind]. rewrite (IH _ Ha0). cbn [bind].
    rewrite of_nat_app. reflexivity.
Qed.

Lemma lw_ty wr ln t v bs : lw_spec wr ln ->
  write_ty wr t v = Ok bs -> len_ty ln t v = Ok (N.of_nat (length bs)).
Proof.
  intros Hs H. destruct t as [s|s k]; cbn [write_ty len_ty] in *.
  - apply Hs. exact H.
  - destruct v as [|l| |]; try discriminate.
    bind_inv H. injection H as <-. rewrite (lw_concat _ _ _ Hs _ _ Ha). cbn [bind].
    rewrite of_nat_app. destruct k as [w|e|e].
    + rewrite length_enc. reflexivity.
    + reflexivity.
    + reflexivity.
Qed.

Lemma lw_fields wr ln ev : lw_spec wr ln -> forall fs vs bs,
  write_fields wr ev fs vs = Ok bs -> len_fields ln fs vs = Ok (N.of_nat (length bs)).
Proof.
  intros Hs fs; induction fs as [|f fs IH]; intros vs bs H; cbn [write_fields len_fields] in *.
  - destruct vs; [|discriminate]. injection H as <-. reflexivity.
  - destruct f as [x w e|x t nw sp].
    + bind_inv H. bind_inv H. injection H as <-. rewrite (IH _ _ Ha0). cbn [bind].
      rewrite of_nat_app, length_enc. reflexivity.
    + destruct vs as [|v vs]; [discriminate|].
      bind_inv H. bind_inv H. injection H as <-. rewrite (IH _ _ Ha0).
      destruct nw as [e|].
      * injection Ha as <-. cbn [bind app length]. reflexivity.
      * rewrite (lw_ty _ _ _ _ _ Hs Ha). cbn [bind]. rewrite of_nat_app. reflexivity.
Qed.

Theorem len_write D : forall fuel t v bs,
  write_sty D fuel t v = Ok bs -> len_sty D fuel t v = Ok (N.of_nat (length bs)).
Proof.
  induction fuel as [|f IH]; intros t v bs H.
  - destruct t as [w|n]; cbn [write_sty len_sty] in *; [|discriminate].
    destruct v; try discriminate. injection H as <-. rewrite length_enc. reflexivity.
  - destruct t as [w|n]; cbn [write_sty len_sty] in *.
    + destruct v; try discriminate. injection H as <-. rewrite length_enc. reflexivity.
    + destruct (lookup D n) as [[fs|tv tw vars ft]|]; [| |discriminate].
      * destruct v as [| |vs|]; try discriminate.
        eapply lw_fields; [|exact H]. intros s v' bs'. apply IH.
      * destruct v as [| | |k vs]; try discriminate.
        destruct (nth_error vars k) as [va|]; [|discriminate].
        bind_inv H. bind_inv H. injection H as <-.
        erewrite lw_fields; [| |exact Ha0]. 2:{ intros s v' bs'. apply IH. }
        cbn [bind]. rewrite of_nat_app, length_enc. reflexivity.
Qed.

(* ================================================================= select *)
Lemma select_nth D p env0 tg : forall vars k0 k va env,
  select D p env0 tg vars k0 = Ok (k, va, env) ->
  exists j, k = (k0 + j)%nat /\ nth_error vars j = Some va.
Proof.
  induction vars as [|va0 vars IH]; intros k0 k va env H; cbn [select] in H; [discriminate|].
  destruct (pat_match (v_pat va0) tg) as [b|].
  - bind_inv H. destruct a.
    + injection H as <- <- <-. exists O. split; [lia|reflexivity].
    + apply IH in H as (j & -> & Hj). exists (S j). split; [lia|exact Hj].
  - apply IH in H as (j & -> & Hj). exists (S j). split; [lia|exact Hj].
Qed.

Lemma select_nth0 D p env0 tg vars k va env :
  select D p env0 tg vars O = Ok (k, va, env) -> nth_error vars k = Some va.
Proof. intros H. apply select_nth in H as (j & -> & Hj). exact Hj. Qed.

Lemma lit_eval D e m env sl : lit_of e = Some m -> ceval D env sl e = Ok m.
Proof.
  destruct e as [aw ex]. unfold lit_of, ceval. cbn [ce_e ce_aw].
  destruct ex; try discriminate. intros [= ->]. reflexivity.
Qed.

(* ================================================================= write_read *)
Definition wrd_spec (rd : pool -> sty -> list N -> res (val * list N)) (wr : sty -> val -> res (list N)) : Prop :=
  forall p s bs v rest, bytes_ok bs -> rd p s bs = Ok (v, rest) ->
    exists pre, bs = pre ++ rest /\ wr s v = Ok pre.

Lemma bytes_ok_app_r a b : bytes_ok (a ++ b) -> bytes_ok b.
Proof. intros H. apply Forall_app in H. tauto. Qed.

Lemma wrd_read_n rd wr p s : wrd_spec rd wr -> forall k bs vs rest, bytes_ok bs ->
  read_n (rd p s) k bs = Ok (vs, rest) ->
  exists pre, bs = pre ++ rest /\ concat_map (wr s) vs = Ok pre /\ length vs = k.
Proof.
  intros Hs k; induction k as [|k IH]; intros bs vs rest Hb H; cbn [read_n] in H.
  - injection H as <- <-. exists []. auto.
  - bind_inv H. destruct a as [v bs1]. bind_inv H. destruct a as [vs' bs2]. injection H as <- <-.
    destruct (Hs _ _ _ _ _ Hb Ha) as (pre1 & -> & Hw).
    destruct (IH _ _ _ (bytes_ok_app_r _ _ Hb) Ha0) as (pre2 & -> & Hc & Hl).
    exists (pre1 ++ pre2). rewrite app_assoc. split; [reflexivity|]. split.
    + cbn [concat_map]. rewrite Hw. cbn [bind]. rewrite Hc. reflexivity.
    + cbn [length]. lia.
Qed.

Lemma wrd_read_vec rd wr p s n bs v rest : wrd_spec rd wr -> bytes_ok bs ->
  read_vec (rd p s) n bs = Ok (v, rest) ->
  exists l pre, v = VL l /\ bs = pre ++ rest /\ concat_map (wr s) l = Ok pre /\ N.of_nat (length l) = n.
Proof.
  intros Hs Hb H. unfold read_vec in H.
  destruct (n <=? N.of_nat (length bs)); [|discriminate].
  bind_inv H. destruct a as [vs bs']. injection H as <- <-.
  destruct (wrd_read_n _ _ _ _ Hs _ _ _ _ Hb Ha) as (pre & -> & Hc & Hl).
  exists vs, pre. repeat split; auto. rewrite Hl. apply N2Nat.id.
Qed.

(* the slot-counted loop: whatever it returns was read element by element *)
Lemma wrd_read_slots rd wr p s wide : wrd_spec rd wr -> forall k bs vs rest, bytes_ok bs ->
  read_slots (rd p s) wide k bs = Ok (vs, rest) ->
  exists pre, bs = pre ++ rest /\ concat_map (wr s) vs = Ok pre /\ N.of_nat k = slots_of wide vs.
Proof.
  intros Hs k; induction k as [k IH] using (well_founded_induction lt_wf); intros bs vs rest Hb H.
  destruct k as [|k']; cbn [read_slots] in H.
  - injection H as <- <-. exists []. auto.
  - bind_inv H. destruct a as [v bs1].
    destruct (Hs _ _ _ _ _ Hb Ha) as (pre1 & -> & Hw).
    pose proof (bytes_ok_app_r _ _ Hb) as Hb1.
    destruct (wide v) eqn:Ew.
    + destruct k' as [|k'']; [discriminate|].
      bind_inv H. destruct a as [vs' bs2]. injection H as <- <-.
      destruct (IH k'' ltac:(lia) _ _ _ Hb1 Ha0) as (pre2 & -> & Hc & Hk).
      exists (pre1 ++ pre2). rewrite app_assoc. split; [reflexivity|]. split.
      * cbn [concat_map]. rewrite Hw. cbn [bind]. rewrite Hc. reflexivity.
      * cbn [slots_of]. unfold slots1. rewrite Ew, <- Hk. lia.
    + bind_inv H. destruct a as [vs' bs2]. injection H as <- <-.
      destruct (IH k' ltac:(lia) _ _ _ Hb1 Ha0) as (pre2 & -> & Hc & Hk).
      exists (pre1 ++ pre2). rewrite app_assoc. split; [reflexivity|]. split.
      * cbn [concat_map]. rewrite Hw. cbn [bind]. rewrite Hc. reflexivity.
      * cbn [slots_of]. unfold slots1. rewrite Ew, <- Hk. lia.
Qed.

Lemma wrd_ty D rd wr p env t bs v rest : wrd_spec rd wr -> bytes_ok bs ->
  read_ty D rd p env t bs = Ok (v, rest) -> exists pre, bs = pre ++ rest /\ write_ty wr t v = Ok pre.
Proof.
  intros Hs Hb H. destruct t as [s|s [w|e|e]]; cbn [read_ty write_ty] in *.
  - eapply Hs; eauto.
  - bind_inv H. destruct a as [n bs1].
    destruct (enc_dec _ _ _ _ Hb Ha) as (-> & Hn & Hb1).
    destruct (wrd_read_vec _ _ _ _ _ _ _ _ Hs Hb1 H) as (l & pre & -> & -> & Hc & Hl).
    exists (enc w n ++ pre). rewrite app_assoc. split; [reflexivity|].
    rewrite Hc. cbn [bind]. rewrite Hl. reflexivity.
  - bind_inv H.
    destruct (wrd_read_vec _ _ _ _ _ _ _ _ Hs Hb H) as (l & pre & -> & -> & Hc & Hl).
    exists pre. split; [reflexivity|]. rewrite Hc. reflexivity.
  - bind_inv H. bind_inv H. destruct a0 as [vs bs']. injection H as <- <-.
    destruct (wrd_read_slots _ _ _ _ _ Hs _ _ _ _ Hb Ha0) as (pre & -> & Hc & _).
    exists pre. split; [reflexivity|]. rewrite Hc. reflexivity.
Qed.

Lemma wrd_fields D rd wr wenv sl : wrd_spec rd wr -> forall fs p env bs vs cs rest, bytes_ok bs ->
  read_fields D rd p env fs bs = Ok (vs, cs, rest) ->
  consts_agree (ceval D wenv sl) cs = true ->
  exists pre, bs = pre ++ rest /\ write_fields wr (ceval D wenv sl) fs vs = Ok pre.
Proof.
  intros Hs fs; induction fs as [|f fs IH]; intros p env bs vs cs rest Hb H Hc; cbn [read_fields] in H.
  - injection H as <- <- <-. exists []. auto.
  - destruct f as [x w e|x t [e|] sp].
    + bind_inv H. destruct a as [n bs1].
      destruct (enc_dec _ _ _ _ Hb Ha) as (-> & Hn & Hb1).
      destruct (lit_of e) as [m|] eqn:El.
      * destruct (N.eqb_spec n m) as [->|]; [|discriminate].
        destruct (IH _ _ _ _ _ _ Hb1 H Hc) as (pre & -> & Hw).
        exists (enc w m ++ pre). rewrite app_assoc. split; [reflexivity|].
        cbn [write_fields]. rewrite (lit_eval _ _ _ _ _ El). cbn [bind]. rewrite Hw. reflexivity.
      * bind_inv H. destruct a as [[vs' cs'] bs2]. injection H as <- <- <-.
        cbn [consts_agree] in Hc. apply andb_true_iff in Hc as [Hc1 Hc2].
        destruct (ceval D wenv sl e) as [m0|] eqn:Ee; [|discriminate]. apply N.eqb_eq in Hc1.
        destruct (IH _ _ _ _ _ _ Hb1 Ha0 Hc2) as (pre & -> & Hw).
        exists (enc w n ++ pre). rewrite app_assoc. split; [reflexivity|].
        cbn [write_fields]. rewrite Ee. cbn [bind]. rewrite Hw. cbn [bind].
        rewrite <- Hc1, enc_trunc. reflexivity.
    + bind_inv H. bind_inv H. destruct a0 as [[vs' cs'] bs2]. injection H as <- <- <-.
      destruct (IH _ _ _ _ _ _ Hb Ha0 Hc) as (pre & -> & Hw).
      exists pre. split; [reflexivity|]. cbn [write_fields]. rewrite Hw. reflexivity.
    + bind_inv H. destruct a as [v bs1]. bind_inv H. destruct a as [[vs' cs'] bs2]. injection H as <- <- <-.
      destruct (wrd_ty _ _ _ _ _ _ _ _ _ Hs Hb Ha) as (pre1 & -> & Hw1).
      destruct (IH _ _ _ _ _ _ (bytes_ok_app_r _ _ Hb) Ha0 Hc) as (pre2 & -> & Hw2).
      exists (pre1 ++ pre2). rewrite app_assoc. split; [reflexivity|].
      cbn [write_fields]. rewrite Hw1. cbn [bind]. rewrite Hw2. reflexivity.
Qed.

Lemma wr_prim D fuel p strict w bs v rest : bytes_ok bs ->
  read_sty D strict fuel p (Prim w) bs = Ok (v, rest) ->
  exists pre, bs = pre ++ rest /\ write_sty D fuel (Prim w) v = Ok pre.
Proof.
  intros Hb H. destruct fuel; cbn [read_sty write_sty] in *.
  all: bind_inv H; destruct a as [n bs']; injection H as <- <-;
    destruct (enc_dec _ _ _ _ Hb Ha) as (-> & _ & _); exists (enc w n); auto.
Qed.

(* byte-exactness: what the strict reader accepts, the writer reproduces *)
Theorem write_read D : forall fuel p t bs v rest, bytes_ok bs ->
  read_sty D true fuel p t bs = Ok (v, rest) ->
  exists pre, bs = pre ++ rest /\ write_sty D fuel t v = Ok pre.
Proof.
  induction fuel as [|f IH]; intros p t bs v rest Hb H.
  - destruct t as [w|n]; [eapply wr_prim; eauto|]. cbn [read_sty] in H. discriminate.
  - destruct t as [w|n]; [eapply wr_prim; eauto|].
    assert (Hs : wrd_spec (read_sty D true f) (write_sty D f)).
    { intros p' s bs' v' rest' Hb' H'. eapply IH; eauto. }
    cbn [read_sty write_sty] in *.
    destruct (lookup D n) as [[fs|tv tw vars ft]|]; [| |discriminate].
    + bind_inv H. destruct a as [[vs cs] bs']. cbn [negb orb] in H.
      match type of H with (if ?c then _ else _) = _ => destruct c eqn:Hc; [|discriminate] end.
      injection H as <- <-.
      destruct (wrd_fields _ _ _ _ _ Hs _ _ _ _ _ _ _ Hb Ha Hc) as (pre & -> & Hw).
      exists pre. auto.
    + bind_inv H. destruct a as [tg bs1].
      destruct (enc_dec _ _ _ _ Hb Ha) as (-> & Htg & Hb1).
      bind_inv H. destruct a as [[k va] env].
      bind_inv H. destruct a as [[vs cs] bs']. cbn [negb orb] in H.
      match type of H with (if ?c then _ else _) = _ => destruct c eqn:Hc; [|discriminate] end.
      injection H as <- <-.
      apply andb_true_iff in Hc as [Ht Hc].
      rewrite (select_nth0 _ _ _ _ _ _ _ _ Ha0).
      destruct (wrd_fields _ _ _ _ _ Hs _ _ _ _ _ _ _ Hb1 Ha1 Hc) as (pre & -> & Hw).
      match type of Ht with context [ceval D ?e ?s (v_tagw va)] => destruct (ceval D e s (v_tagw va)) as [m|] eqn:Em; [|discriminate] end.
      apply N.eqb_eq in Ht.
      exists (enc tw tg ++ pre). rewrite app_assoc. split; [reflexivity|].
      cbn [bind]. rewrite Hw. cbn [bind]. rewrite <- Ht, enc_trunc. reflexivity.
Qed.

(* ================================================================= every element occupies a byte *)
Lemma wr_prim_len D fuel w v bs : write_sty D fuel (Prim w) v = Ok bs -> (1 <= length bs)%nat.
Proof.
  intros H. destruct fuel; cbn [write_sty] in H; destruct v; try discriminate;
    injection H as <-; rewrite length_enc; apply wbytes_pos.
Qed.

Lemma fields_nonempty D f ev : forall fs vs bs,
  existsb field_nonempty fs = true -> write_fields (write_sty D f) ev fs vs = Ok bs -> (1 <= length bs)%nat.
Proof.
  induction fs as [|fd fs IH]; intros vs bs He H; cbn [existsb] in He; [discriminate|].
  cbn [write_fields] in H. destruct fd as [x w e|x t nw sp].
  - bind_inv H. bind_inv H. injection H as <-. rewrite app_length, length_enc. pose proof (wbytes_pos w). lia.
  - destruct vs as [|v vs]; [discriminate|]. bind_inv H. bind_inv H. injection H as <-.
    rewrite app_length. apply orb_true_iff in He as [He|He].
    + destruct t as [[w|n]|s [w|e|e]]; destruct nw; cbn [field_nonempty] in He; try discriminate.
      * cbn [write_ty] in Ha. apply wr_prim_len in Ha. lia.
      * cbn [write_ty] in Ha. destruct v; try discriminate. bind_inv Ha. injection Ha as <-.
        rewrite app_length, length_enc. pose proof (wbytes_pos w). lia.
    + specialize (IH _ _ He Ha0). lia.
Qed.

Lemma write_nonempty D fuel s v bs :
  sty_nonempty D s = true -> write_sty D fuel s v = Ok bs -> (1 <= length bs)%nat.
Proof.
  intros Hn H. destruct s as [w|n]; [eapply wr_prim_len; eauto|].
  destruct fuel as [|f]; cbn [write_sty] in H; [discriminate|].
  cbn [sty_nonempty] in Hn. unfold named_nonempty in Hn.
  destruct (lookup D n) as [[fs|tv tw vars ft]|]; [| |discriminate].
  - destruct v; try discriminate. eapply fields_nonempty; eauto.
  - destruct v as [| | |k vs]; try discriminate. destruct (nth_error vars k); [|discriminate].
    bind_inv H. bind_inv H. injection H as <-. rewrite app_length, length_enc. pose proof (wbytes_pos tw). lia.
Qed.

Lemma lookup_In {A} (l : list (id * A)) x a : lookup l x = Some a -> exists y, In (y, a) l.
Proof.
  induction l as [|[y b] l IH]; cbn [lookup]; [discriminate|].
  destruct (id_eqb x y).
  - intros [= ->]. exists y. left. reflexivity.
  - intros H. destruct (IH H) as (z & Hz). exists z. right. exact Hz.
Qed.

Lemma lookup_wf D n d : denv_wf D = true -> lookup D n = Some d -> decl_wf D d = true.
Proof.
  intros Hwf Hl. destruct (lookup_In _ _ _ Hl) as (y & Hy).
  unfold denv_wf in Hwf. rewrite forallb_forall in Hwf. apply (Hwf _ Hy).
Qed.

(* ================================================================= read_write *)
Definition rw_spec (wr : sty -> val -> res (list N)) (rs : pool -> sty -> val -> bool)
           (rd : pool -> sty -> list N -> res (val * list N)) : Prop :=
  forall p s v bs rest, wr s v = Ok bs -> rs p s v = true -> rd p s (bs ++ rest) = Ok (v, rest).

Lemma rw_read_n wr rs rd p s : rw_spec wr rs rd -> forall l bs rest,
  concat_map (wr s) l = Ok bs -> all_map (rs p s) l = true ->
  read_n (rd p s) (length l) (bs ++ rest) = Ok (l, rest).
Proof.
  intros Hs l; induction l as [|v l IH]; intros bs rest Hc Ha; cbn [concat_map all_map length read_n] in *.
  - injection Hc as <-. reflexivity.
  - bind_inv Hc. bind_inv Hc. injection Hc as <-. apply andb_true_iff in Ha as [Hv Hl].
    rewrite <- app_assoc. rewrite (Hs _ _ _ _ _ Ha0 Hv). cbn [bind].
    rewrite (IH _ _ Ha1 Hl). reflexivity.
Qed.

Lemma concat_len (wr : sty -> val -> res (list N)) (s : sty) : (forall v b, wr s v = Ok b -> (1 <= length b)%nat) -> forall l bs,
  concat_map (wr s) l = Ok bs -> (length l <= length bs)%nat.
Proof.
  intros Hn l; induction l as [|v l IH]; intros bs Hc; cbn [concat_map length] in *; [lia|].
  bind_inv Hc. bind_inv Hc. injection Hc as <-. rewrite app_length.
  specialize (Hn _ _ Ha). specialize (IH _ Ha0). lia.
Qed.

Lemma rw_read_vec wr rs rd p s l bs rest : rw_spec wr rs rd ->
  (forall v b, wr s v = Ok b -> (1 <= length b)%nat) ->
  concat_map (wr s) l = Ok bs -> all_map (rs p s) l = true ->
  read_vec (rd p s) (N.of_nat (length l)) (bs ++ rest) = Ok (VL l, rest).
Proof.
  intros Hs Hn Hc Ha. unfold read_vec.
  pose proof (concat_len _ _ Hn _ _ Hc) as Hl.
  replace (N.of_nat (length l) <=? N.of_nat (length (bs ++ rest))) with true.
  2:{ symmetry. apply N.leb_le. rewrite app_length. lia. }
  rewrite Nat2N.id. rewrite (rw_read_n _ _ _ _ _ Hs _ _ _ Hc Ha). reflexivity.
Qed.

Lemma slots_of_nat wide l : exists k, slots_of wide l = N.of_nat k.
Proof. exists (N.to_nat (slots_of wide l)). rewrite N2Nat.id. reflexivity. Qed.

(* the slot-counted loop retraces the writer: given the number of indices the elements take up it
   returns exactly these elements *)
Lemma rw_read_slots wr rs rd p s wide : rw_spec wr rs rd -> forall l bs rest,
  concat_map (wr s) l = Ok bs -> all_map (rs p s) l = true ->
  read_slots (rd p s) wide (N.to_nat (slots_of wide l)) (bs ++ rest) = Ok (l, rest).
Proof.
  intros Hs l; induction l as [|v l IH]; intros bs rest Hc Ha; cbn [concat_map all_map slots_of] in *.
  - injection Hc as <-. reflexivity.
  - bind_inv Hc. bind_inv Hc. injection Hc as <-. apply andb_true_iff in Ha as [Hv Hl].
    specialize (IH _ rest Ha1 Hl).
    rewrite <- app_assoc. unfold slots1. destruct (wide v) eqn:Ew.
    + replace (N.to_nat (2 + slots_of wide l)) with (S (S (N.to_nat (slots_of wide l)))) by lia.
      cbn [read_slots]. rewrite (Hs _ _ _ _ _ Ha0 Hv). cbn [bind]. rewrite Ew, IH. reflexivity.
    + replace (N.to_nat (1 + slots_of wide l)) with (S (N.to_nat (slots_of wide l))) by lia.
      cbn [read_slots]. rewrite (Hs _ _ _ _ _ Ha0 Hv). cbn [bind]. rewrite Ew, IH. reflexivity.
Qed.

Lemma rw_ty D wr rs rd p renv t v bs rest : rw_spec wr rs rd ->
  (forall s v b, sty_nonempty D s = true -> wr s v = Ok b -> (1 <= length b)%nat) ->
  (forall s k, t = Vec s k -> sty_nonempty D s = true) ->
  write_ty wr t v = Ok bs -> res_ty D rs p renv t v = true ->
  read_ty D rd p renv t (bs ++ rest) = Ok (v, rest).
Proof.
  intros Hs Hn Hwf Hw Hr. destruct t as [s|s k]; cbn [write_ty res_ty read_ty] in *.
  - apply Hs; assumption.
  - destruct v as [|l| |]; try discriminate. bind_inv Hw. injection Hw as <-.
    apply andb_true_iff in Hr as [Hk Hall].
    assert (Hne : forall v b, wr s v = Ok b -> (1 <= length b)%nat).
    { intros v b. apply Hn. eapply Hwf. reflexivity. }
    destruct k as [w|e|e].
    + rewrite <- app_assoc, dec_enc. cbn [bind].
      apply N.ltb_lt in Hk. rewrite trunc_small by exact Hk.
      eapply rw_read_vec; eassumption.
    + destruct (ceval D renv Err e) as [n|]; [|discriminate]. apply N.eqb_eq in Hk. subst n.
      cbn [bind app]. eapply rw_read_vec; eassumption.
    + destruct (ceval D renv Err e) as [n|]; [|discriminate]. apply N.eqb_eq in Hk. subst n.
      cbn [bind app]. erewrite rw_read_slots; [reflexivity|exact Hs|exact Ha|exact Hall].
Qed.

Lemma rw_fields D wr rs rd wenv sl : rw_spec wr rs rd ->
  (forall s v b, sty_nonempty D s = true -> wr s v = Ok b -> (1 <= length b)%nat) ->
  forall fs vs p renv bs rest, forallb (field_wf D) fs = true ->
  write_fields wr (ceval D wenv sl) fs vs = Ok bs ->
  res_fields D rs (ceval D wenv sl) p renv fs vs = true ->
  exists cs, read_fields D rd p renv fs (bs ++ rest) = Ok (vs, cs, rest)
             /\ consts_agree (ceval D wenv sl) cs = true.
Proof.
  intros Hs Hn fs; induction fs as [|f fs IH]; intros vs p renv bs rest Hwf Hw Hr;
    cbn [write_fields res_fields read_fields forallb] in *.
  - destruct vs; [|discriminate]. injection Hw as <-. exists []. auto.
  - apply andb_true_iff in Hwf as [Hwf1 Hwf]. destruct f as [x w e|x t [e|] sp].
    + bind_inv Hw. bind_inv Hw. injection Hw as <-. rewrite Ha in Hr.
      apply andb_true_iff in Hr as [Hlit Hr].
      rewrite <- app_assoc, dec_enc. cbn [bind].
      destruct (IH _ _ _ _ rest Hwf Ha0 Hr) as (cs & Hrd & Hcs).
      destruct (lit_of e) as [m|] eqn:El.
      * rewrite (lit_eval D _ _ wenv sl El) in Ha. injection Ha as <-.
        apply N.ltb_lt in Hlit. rewrite trunc_small in * by exact Hlit.
        rewrite N.eqb_refl. exists cs. auto.
      * rewrite Hrd. cbn [bind]. eexists. split; [reflexivity|].
        cbn [consts_agree]. rewrite Ha, N.eqb_refl, Hcs. reflexivity.
    + destruct vs as [|[n| | |] vs]; try discriminate.
      bind_inv Hw. bind_inv Hw. injection Hw as <-. injection Ha as <-.
      apply andb_true_iff in Hr as [He Hr].
      destruct (ceval D renv Err e) as [m|]; [|discriminate]. apply N.eqb_eq in He. subst m.
      cbn [bind app].
      destruct (IH _ _ _ _ rest Hwf Ha0 Hr) as (cs & Hrd & Hcs).
      rewrite Hrd. cbn [bind]. exists cs. auto.
    + destruct vs as [|v vs]; try discriminate.
      bind_inv Hw. bind_inv Hw. injection Hw as <-.
      apply andb_true_iff in Hr as [Ht Hr].
      rewrite <- app_assoc.
      erewrite rw_ty; eauto.
      2:{ intros s k ->. cbn [field_wf] in Hwf1. exact Hwf1. }
      cbn [bind]. cbv zeta.
      destruct (IH _ _ _ _ rest Hwf Ha0 Hr) as (cs & Hrd & Hcs).
      exists cs. split; [|exact Hcs].
      match goal with |- bind ?r _ = _ => replace r with (Ok (vs, cs, rest)) by (symmetry; exact Hrd) end.
      reflexivity.
Qed.

Lemma rw_prim D fuel p strict w v bs rest :
  write_sty D fuel (Prim w) v = Ok bs -> resolves D fuel p (Prim w) v = true ->
  read_sty D strict fuel p (Prim w) (bs ++ rest) = Ok (v, rest).
Proof.
  intros Hw Hr. destruct fuel; cbn [write_sty resolves read_sty] in *;
    (destruct v as [n| | |]; try discriminate; injection Hw as <-;
     apply N.ltb_lt in Hr; rewrite dec_enc; cbn [bind]; rewrite trunc_small by exact Hr; reflexivity).
Qed.

(* write then read (strict or not) returns the value and leaves what followed *)
Theorem read_write D : denv_wf D = true -> forall fuel p t v bs rest strict,
  write_sty D fuel t v = Ok bs -> resolves D fuel p t v = true ->
  read_sty D strict fuel p t (bs ++ rest) = Ok (v, rest).
Proof.
  intros HD. induction fuel as [|f IH]; intros p t v bs rest strict Hw Hr.
  - destruct t as [w|n]; [eapply rw_prim; eauto|]. cbn [write_sty] in Hw. discriminate.
  - destruct t as [w|n]; [eapply rw_prim; eauto|].
    assert (Hs : rw_spec (write_sty D f) (resolves D f) (read_sty D strict f)).
    { intros p' s v' bs' rest' Hw' Hr'. eapply IH; eauto. }
    assert (Hn : forall s v b, sty_nonempty D s = true -> write_sty D f s v = Ok b -> (1 <= length b)%nat).
    { intros s v' b. apply write_nonempty. }
    cbn [write_sty resolves read_sty] in *.
    destruct (lookup D n) as [[fs|tv tw vars ft]|] eqn:El; [| |discriminate].
    + destruct v as [| |vs|]; try discriminate.
      pose proof (lookup_wf _ _ _ HD El) as Hwf. cbn [decl_wf] in Hwf.
      destruct (rw_fields D _ _ _ _ _ Hs Hn _ _ _ _ _ rest Hwf Hw Hr) as (cs & Hrd & Hcs).
      rewrite Hrd. cbn [bind]. rewrite Hcs, orb_true_r. reflexivity.
    + destruct v as [| | |k vs]; try discriminate.
      destruct (nth_error vars k) as [va|] eqn:Ek; [|discriminate].
      bind_inv Hw. bind_inv Hw. injection Hw as <-. rewrite Ha in Hr.
      match type of Hr with context [select ?a ?b ?c ?d ?e ?g] => destruct (select a b c d e g) as [[[k' va'] env]|] eqn:Es; [|discriminate] end.
      apply andb_true_iff in Hr as [Hk Hr]. apply Nat.eqb_eq in Hk. subst k'.
      pose proof (select_nth0 _ _ _ _ _ _ _ _ Es) as Ek'. rewrite Ek in Ek'. injection Ek' as <-.
      rewrite <- app_assoc, dec_enc. cbn [bind]. rewrite Es. cbn [bind].
      pose proof (lookup_wf _ _ _ HD El) as Hwf. cbn [decl_wf] in Hwf.
      rewrite forallb_forall in Hwf. specialize (Hwf _ (nth_error_In _ _ Ek)).
      destruct (rw_fields D _ _ _ _ _ Hs Hn _ _ _ _ _ rest Hwf Ha0 Hr) as (cs & Hrd & Hcs).
      rewrite Hrd. cbn [bind]. rewrite Ha, N.eqb_refl, Hcs. cbn [andb]. rewrite orb_true_r. reflexivity.
Qed.

(* ================================================================= fuel: Ok results do not depend on it *)
Definition sl_le (a b : res N) : Prop := forall n, a = Ok n -> b = Ok n.

Lemma eval_mono D aw env sl sl' : sl_le sl sl' -> forall e m,
  eval D aw env sl e = Ok m -> eval D aw env sl' e = Ok m.
Proof.
  intros Hsl e; induction e as [n|x|x|x elt| |a IHa b IHb|a IHa b IHb|a IHa b IHb]; intros m H; cbn [eval] in *;
    try exact H.
  - bind_inv H. rewrite (Hsl _ Ha). exact H.
  - bind_inv H. bind_inv H. rewrite (IHa _ Ha), (IHb _ Ha0). exact H.
  - bind_inv H. bind_inv H. rewrite (IHa _ Ha), (IHb _ Ha0). exact H.
  - bind_inv H. bind_inv H. rewrite (IHa _ Ha), (IHb _ Ha0). exact H.
Qed.

Lemma ceval_mono D env sl sl' e m : sl_le sl sl' -> ceval D env sl e = Ok m -> ceval D env sl' e = Ok m.
Proof. unfold ceval. intros Hs. apply eval_mono. exact Hs. Qed.

Definition ext2 {A B C} (f g : A -> B -> res C) : Prop := forall a b c, f a b = Ok c -> g a b = Ok c.
Definition ext3 {A B C E} (f g : A -> B -> C -> res E) : Prop := forall a b c e, f a b c = Ok e -> g a b c = Ok e.

Lemma sum_map_ext (f g : val -> res N) : (forall v n, f v = Ok n -> g v = Ok n) -> forall l n,
  sum_map f l = Ok n -> sum_map g l = Ok n.
Proof.
  intros He l; induction l as [|v l IH]; intros n H; cbn [sum_map] in *; [exact H|].
  bind_inv H. bind_inv H. rewrite (He _ _ Ha), (IH _ Ha0). exact H.
Qed.

Lemma len_fields_ext ln ln' : ext2 ln ln' -> forall fs vs n,
  len_fields ln fs vs = Ok n -> len_fields ln' fs vs = Ok n.
Proof.
  intros He fs; induction fs as [|f fs IH]; intros vs n H; cbn [len_fields] in *; [exact H|].
  destruct f as [x w e|x t nw sp].
  - bind_inv H. rewrite (IH _ _ Ha). exact H.
  - destruct vs as [|v vs]; [discriminate|]. bind_inv H. bind_inv H. rewrite (IH _ _ Ha0).
    destruct nw.
    + rewrite Ha. exact H.
    + destruct t as [s|s k]; cbn [len_ty] in *.
      * rewrite (He _ _ _ Ha). exact H.
      * destruct v; try discriminate. bind_inv Ha. injection Ha as <-.
        rewrite (sum_map_ext _ _ (He s) _ _ Ha1). cbn [bind] in *. exact H.
Qed.

Lemma len_mono1 D : forall f t v n, len_sty D f t v = Ok n -> len_sty D (S f) t v = Ok n.
Proof.
  induction f as [|f IH]; intros t v n H.
  - destruct t; cbn [len_sty] in *; [exact H|discriminate].
  - destruct t as [w|nm]; [exact H|].
    cbn [len_sty] in H. change (len_sty D (S (S f)) (Named nm) v) with
      (match lookup D nm, v with
       | Some (DStruct fs), VS vs => len_fields (len_sty D (S f)) fs vs
       | Some (DEnum _ tw vars _), VV k vs =>
           match nth_error vars k with
           | None => Err
           | Some va => do n <- len_fields (len_sty D (S f)) (v_fields va) vs; Ok (N.of_nat (wbytes tw) + n)
           end
       | _, _ => Err
       end).
    destruct (lookup D nm) as [[fs|tv tw vars ft]|]; [| |discriminate].
    + destruct v; try discriminate. eapply len_fields_ext; [|exact H]. exact IH.
    + destruct v as [| | |k vs]; try discriminate. destruct (nth_error vars k); [|discriminate].
      bind_inv H. erewrite len_fields_ext; [exact H|exact IH|exact Ha].
Qed.

Theorem len_mono D f f' t v n : (f <= f')%nat -> len_sty D f t v = Ok n -> len_sty D f' t v = Ok n.
Proof. intros Hle; induction Hle; [auto|]. intros H0. apply len_mono1. auto. Qed.

Lemma concat_map_ext (f g : val -> res (list N)) : (forall v b, f v = Ok b -> g v = Ok b) -> forall l b,
  concat_map f l = Ok b -> concat_map g l = Ok b.
Proof.
  intros He l; induction l as [|v l IH]; intros b H; cbn [concat_map] in *; [exact H|].
  bind_inv H. bind_inv H. rewrite (He _ _ Ha), (IH _ Ha0). exact H.
Qed.

Lemma write_fields_ext wr wr' (ev ev' : cexpr -> res N) : ext2 wr wr' -> (forall e m, ev e = Ok m -> ev' e = Ok m) ->
  forall fs vs b, write_fields wr ev fs vs = Ok b -> write_fields wr' ev' fs vs = Ok b.
Proof.
  intros He Hev fs; induction fs as [|f fs IH]; intros vs b H; cbn [write_fields] in *; [exact H|].
  destruct f as [x w e|x t nw sp].
  - bind_inv H. bind_inv H. rewrite (Hev _ _ Ha), (IH _ _ Ha0). exact H.
  - destruct vs as [|v vs]; [discriminate|]. bind_inv H. bind_inv H. rewrite (IH _ _ Ha0).
    destruct nw.
    + rewrite Ha. exact H.
    + destruct t as [s|s k]; cbn [write_ty] in *.
      * rewrite (He _ _ _ Ha). exact H.
      * destruct v; try discriminate. bind_inv Ha. injection Ha as <-.
        rewrite (concat_map_ext _ _ (He s) _ _ Ha1). cbn [bind] in *. exact H.
Qed.

Lemma write_mono1 D : forall f t v b, write_sty D f t v = Ok b -> write_sty D (S f) t v = Ok b.
Proof.
  induction f as [|f IH]; intros t v b H.
  - destruct t; cbn [write_sty] in *; [exact H|discriminate].
  - destruct t as [w|nm]; [exact H|].
    assert (Hsl : sl_le (len_sty D (S f) (Named nm) v) (len_sty D (S (S f)) (Named nm) v)).
    { intros n. apply len_mono1. }
    cbn [write_sty] in H.
    change (write_sty D (S (S f)) (Named nm) v) with
      (match lookup D nm, v with
       | Some (DStruct fs), VS vs =>
           write_fields (write_sty D (S f)) (ceval D (bind_fields fs vs) (len_sty D (S (S f)) (Named nm) v)) fs vs
       | Some (DEnum _ tw vars _), VV k vs =>
           match nth_error vars k with
           | None => Err
           | Some va =>
               let ev := ceval D (bind_fields (v_fields va) vs) (len_sty D (S (S f)) (Named nm) v) in
               do tg <- ev (v_tagw va);
               do body <- write_fields (write_sty D (S f)) ev (v_fields va) vs;
               Ok (enc tw tg ++ body)
           end
       | _, _ => Err
       end).
    destruct (lookup D nm) as [[fs|tv tw vars ft]|]; [| |discriminate].
    + destruct v; try discriminate. eapply write_fields_ext; [exact IH| |exact H].
      intros e m. apply ceval_mono. exact Hsl.
    + destruct v as [| | |k vs]; try discriminate. destruct (nth_error vars k); [|discriminate].
      cbv zeta in *. bind_inv H. bind_inv H.
      rewrite (ceval_mono _ _ _ _ _ _ Hsl Ha). cbn [bind].
      erewrite write_fields_ext; [exact H|exact IH| |exact Ha0].
      intros e m. apply ceval_mono. exact Hsl.
Qed.

Theorem write_mono D f f' t v b : (f <= f')%nat -> write_sty D f t v = Ok b -> write_sty D f' t v = Ok b.
Proof. intros Hle; induction Hle; [auto|]. intros H0. apply write_mono1. auto. Qed.

Lemma read_n_ext (f g : list N -> res (val * list N)) : (forall b r, f b = Ok r -> g b = Ok r) -> forall k b r,
  read_n f k b = Ok r -> read_n g k b = Ok r.
Proof.
  intros He k; induction k as [|k IH]; intros b r H; cbn [read_n] in *; [exact H|].
  bind_inv H. destruct a as [v b1]. bind_inv H. destruct a as [vs b2].
  rewrite (He _ _ Ha). cbn [bind]. rewrite (IH _ _ Ha0). exact H.
Qed.

Lemma read_slots_ext (f g : list N -> res (val * list N)) wide : (forall b r, f b = Ok r -> g b = Ok r) -> forall k b r,
  read_slots f wide k b = Ok r -> read_slots g wide k b = Ok r.
Proof.
  intros He k; induction k as [k IH] using (well_founded_induction lt_wf); intros b r H.
  destruct k as [|k']; cbn [read_slots] in *; [exact H|].
  bind_inv H. destruct a as [v b1]. rewrite (He _ _ Ha). cbn [bind].
  destruct (wide v).
  - destruct k' as [|k'']; [discriminate|].
    bind_inv H. destruct a as [vs b2]. rewrite (IH k'' ltac:(lia) _ _ Ha0). exact H.
  - bind_inv H. destruct a as [vs b2]. rewrite (IH k' ltac:(lia) _ _ Ha0). exact H.
Qed.

Lemma read_ty_ext D rd rd' : ext3 rd rd' -> forall p env t b r,
  read_ty D rd p env t b = Ok r -> read_ty D rd' p env t b = Ok r.
Proof.
  intros He p env t b r H. destruct t as [s|s [w|e|e]]; cbn [read_ty] in *.
  - apply He. exact H.
  - bind_inv H. destruct a as [n b1]. rewrite Ha. cbn [bind]. unfold read_vec in *.
    destruct (n <=? N.of_nat (length b1)); [|discriminate].
    bind_inv H. destruct a as [vs b2]. rewrite (read_n_ext _ _ (He p s) _ _ _ Ha0). exact H.
  - bind_inv H. rewrite Ha. cbn [bind]. unfold read_vec in *.
    destruct (a <=? N.of_nat (length b)); [|discriminate].
    bind_inv H. destruct a0 as [vs b2]. rewrite (read_n_ext _ _ (He p s) _ _ _ Ha0). exact H.
  - bind_inv H. rewrite Ha. cbn [bind]. bind_inv H. destruct a0 as [vs b2].
    rewrite (read_slots_ext _ _ _ (He p s) _ _ _ Ha0). exact H.
Qed.

Lemma read_fields_ext D rd rd' : ext3 rd rd' -> forall fs p env b r,
  read_fields D rd p env fs b = Ok r -> read_fields D rd' p env fs b = Ok r.
Proof.
  intros He fs; induction fs as [|f fs IH]; intros p env b r H; cbn [read_fields] in *; [exact H|].
  destruct f as [x w e|x t [e|] sp].
  - bind_inv H. destruct a as [n b1]. rewrite Ha. cbn [bind]. destruct (lit_of e) as [m|].
    + destruct (n =? m); [|discriminate]. apply IH. exact H.
    + bind_inv H. destruct a as [[vs cs] b2]. rewrite (IH _ _ _ _ Ha0). exact H.
  - bind_inv H. rewrite Ha. cbn [bind]. bind_inv H. destruct a0 as [[vs cs] b2]. rewrite (IH _ _ _ _ Ha0). exact H.
  - bind_inv H. destruct a as [v b1]. rewrite (read_ty_ext _ _ _ He _ _ _ _ _ Ha). cbn [bind]. cbv zeta in *.
    bind_inv H. destruct a as [[vs cs] b2].
    match goal with |- bind ?r _ = _ => replace r with (Ok (vs, cs, b2)) by (symmetry; apply IH; exact Ha0) end.
    exact H.
Qed.

Lemma consts_agree_ext (ev ev' : cexpr -> res N) : (forall e m, ev e = Ok m -> ev' e = Ok m) -> forall cs,
  consts_agree ev cs = true -> consts_agree ev' cs = true.
Proof.
  intros He cs; induction cs as [|[[w e] n] cs IH]; intros H; cbn [consts_agree] in *; [reflexivity|].
  apply andb_true_iff in H as [H1 H2]. destruct (ev e) as [m|] eqn:E; [|discriminate].
  rewrite (He _ _ E), H1, (IH H2). reflexivity.
Qed.

Lemma read_mono1 D strict : forall f p t b r, read_sty D strict f p t b = Ok r -> read_sty D strict (S f) p t b = Ok r.
Proof.
  induction f as [|f IH]; intros p t b r H.
  - destruct t; cbn [read_sty] in *; [exact H|discriminate].
  - destruct t as [w|nm]; [exact H|].
    assert (He : ext3 (read_sty D strict f) (read_sty D strict (S f))) by exact IH.
    cbn [read_sty] in H.
    change (read_sty D strict (S (S f)) p (Named nm) b) with
      (match lookup D nm with
       | Some (DStruct fs) =>
           do (vs, cs, bs') <- read_fields D (read_sty D strict (S f)) p [] fs b;
           let v := VS vs in
           if negb strict || consts_agree (ceval D (bind_fields fs vs) (len_sty D (S (S f)) (Named nm) v)) cs
           then Ok (v, bs') else Err
       | Some (DEnum tv tw vars _) =>
           do (tg, bs1) <- dec tw b;
           do (k, va, env) <- select D p [(tv, VN tg)] tg vars O;
           do (vs, cs, bs') <- read_fields D (read_sty D strict (S f)) p env (v_fields va) bs1;
           let v := VV k vs in
           let ev := ceval D (bind_fields (v_fields va) vs) (len_sty D (S (S f)) (Named nm) v) in
           if negb strict ||
              (match ev (v_tagw va) with Ok m => N.eqb (trunc tw m) tg | Err => false end
               && consts_agree ev cs)
           then Ok (v, bs') else Err
       | None => Err
       end).
    destruct (lookup D nm) as [[fs|tv tw vars ft]|]; [| |discriminate].
    + bind_inv H. destruct a as [[vs cs] b']. rewrite (read_fields_ext _ _ _ He _ _ _ _ _ Ha). cbn [bind]. cbv zeta in *.
      destruct strict; cbn [negb orb] in *; [|exact H].
      match type of H with (if ?c then _ else _) = _ => destruct c eqn:Hc; [|discriminate] end.
      erewrite consts_agree_ext; [exact H| |exact Hc].
      intros e m. apply ceval_mono. intros n. apply len_mono1.
    + bind_inv H. destruct a as [tg b1]. rewrite Ha. cbn [bind]. bind_inv H. destruct a as [[k va] env]. rewrite Ha0. cbn [bind].
      bind_inv H. destruct a as [[vs cs] b']. rewrite (read_fields_ext _ _ _ He _ _ _ _ _ Ha1). cbn [bind]. cbv zeta in *.
      destruct strict; cbn [negb orb] in *; [|exact H].
      match type of H with (if ?c then _ else _) = _ => destruct c eqn:Hc; [|discriminate] end.
      apply andb_true_iff in Hc as [Hc1 Hc2].
      assert (Hm : forall e m, ceval D (bind_fields (v_fields va) vs) (len_sty D (S f) (Named nm) (VV k vs)) e = Ok m ->
                               ceval D (bind_fields (v_fields va) vs) (len_sty D (S (S f)) (Named nm) (VV k vs)) e = Ok m).
      { intros e m. apply ceval_mono. intros n. apply len_mono1. }
      rewrite (consts_agree_ext _ _ Hm _ Hc2).
      match type of Hc1 with context [match ?c with _ => _ end] => destruct c as [m|] eqn:Em; [|discriminate] end.
      rewrite (Hm _ _ Em), Hc1. exact H.
Qed.

Theorem read_mono D strict f f' p t b r : (f <= f')%nat ->
  read_sty D strict f p t b = Ok r -> read_sty D strict f' p t b = Ok r.
Proof. intros Hle; induction Hle; [auto|]. intros H0. apply read_mono1. auto. Qed.

(* the strict reader only refuses more *)
Lemma strict_lax_fields D rd rd' : ext3 rd rd' -> forall fs p env b r,
  read_fields D rd p env fs b = Ok r -> read_fields D rd' p env fs b = Ok r.
Proof. exact (read_fields_ext D rd rd'). Qed.

Theorem strict_implies_lax D : forall f p t b r,
  read_sty D true f p t b = Ok r -> read_sty D false f p t b = Ok r.
Proof.
  induction f as [|f IH]; intros p t b r H.
  - destruct t; cbn [read_sty] in *; [exact H|discriminate].
  - destruct t as [w|nm]; [exact H|].
    assert (He : ext3 (read_sty D true f) (read_sty D false f)) by exact IH.
    cbn [read_sty] in *.
    destruct (lookup D nm) as [[fs|tv tw vars ft]|]; [| |discriminate].
    + bind_inv H. destruct a as [[vs cs] b']. rewrite (read_fields_ext _ _ _ He _ _ _ _ _ Ha). cbn [bind negb orb] in *.
      match type of H with (if ?c then _ else _) = _ => destruct c; [exact H|discriminate] end.
    + bind_inv H. destruct a as [tg b1]. rewrite Ha. cbn [bind]. bind_inv H. destruct a as [[k va] env]. rewrite Ha0. cbn [bind].
      bind_inv H. destruct a as [[vs cs] b']. rewrite (read_fields_ext _ _ _ He _ _ _ _ _ Ha1). cbn [bind negb orb] in *.
      match type of H with (if ?c then _ else _) = _ => destruct c; [exact H|discriminate] end.
Qed.

(* ================================================================= attribute_length, symbolically *)
Lemma wr_prim_eq D f w v b : write_sty D f (Prim w) v = Ok b -> length b = wbytes w.
Proof. intros H. destruct f; cbn [write_sty] in H; destruct v; try discriminate; injection H as <-; apply length_enc. Qed.

Lemma concat_prim_len D f w : forall l b,
  concat_map (write_sty D f (Prim w)) l = Ok b -> length b = (wbytes w * length l)%nat.
Proof.
  induction l as [|v l IH]; intros b H; cbn [concat_map] in H.
  - injection H as <-. cbn. lia.
  - bind_inv H. bind_inv H. injection H as <-. rewrite app_length, (wr_prim_eq _ _ _ _ _ Ha), (IH _ Ha0).
    cbn [length]. lia.
Qed.

Lemma fixed_size_len D f ev : forall fs vs r m,
  fixed_size fs = Some m -> write_fields (write_sty D f) ev fs vs = Ok r -> N.of_nat (length r) = m.
Proof.
  induction fs as [|fd fs IH]; intros vs r m Hf H; cbn [fixed_size write_fields] in *.
  - destruct vs; [|discriminate]. injection H as <-. injection Hf as <-. reflexivity.
  - destruct fd as [x w e|x t [e|] sp].
    + destruct (fixed_size fs) as [m'|] eqn:E; [|discriminate]. injection Hf as <-.
      bind_inv H. bind_inv H. injection H as <-. rewrite of_nat_app, length_enc, (IH _ _ _ eq_refl Ha0). reflexivity.
    + destruct vs as [|v vs]; [discriminate|]. bind_inv H. bind_inv H. injection H as <-. injection Ha as <-.
      cbn [app]. destruct t as [[w|nm]|]; eapply IH; eauto.
    + destruct t as [[w|nm]|]; try discriminate.
      destruct (fixed_size fs) as [m'|] eqn:E; [|discriminate]. injection Hf as <-.
      destruct vs as [|v vs]; [discriminate|]. bind_inv H. bind_inv H. injection H as <-.
      cbn [write_ty] in Ha. rewrite of_nat_app, (wr_prim_eq _ _ _ _ _ Ha), (IH _ _ _ eq_refl Ha0). reflexivity.
Qed.

Lemma skip_spec wr ev : forall fs names rest vs fb, skip_nowrite fs = (names, rest) ->
  write_fields wr ev fs vs = Ok fb ->
  exists vs', write_fields wr ev rest vs' = Ok fb /\
    forall x, existsb (id_eqb x) names = false -> lookup (bind_fields fs vs) x = lookup (bind_fields rest vs') x.
Proof.
  induction fs as [|fd fs IH]; intros names rest vs fb Hs H.
  - injection Hs as <- <-. exists vs. auto.
  - destruct fd as [x w e|y t [e|] sp].
    + injection Hs as <- <-. exists vs. auto.
    + cbn [skip_nowrite] in Hs. destruct (skip_nowrite fs) as [ns r] eqn:E. injection Hs as <- <-.
      cbn [write_fields] in H. destruct vs as [|v vs]; [discriminate|].
      bind_inv H. bind_inv H. injection H as <-. injection Ha as <-. cbn [app].
      destruct (IH _ _ _ _ eq_refl Ha0) as (vs' & Hw & Hl). exists vs'. split; [exact Hw|].
      intros x Hx. cbn [existsb] in Hx. apply orb_false_iff in Hx as [Hxy Hx].
      cbn [bind_fields lookup]. rewrite Hxy. apply Hl. exact Hx.
    + injection Hs as <- <-. exists vs. auto.
Qed.

Lemma Ok_inj {A} (a b : A) : Ok a = Ok b -> a = b.
Proof. congruence. Qed.

Lemma al_selflen D env aw a (a0 : list N) :
  ceval D env (Ok (N.of_nat (wbytes W16) + N.of_nat (length (enc W32 a ++ a0)))) (CE aw (ESub ESelfLen (ELit 6))) = Ok a ->
  a = N.of_nat (length a0).
Proof.
  rewrite of_nat_app, length_enc. generalize (N.of_nat (length a0)). intros n.
  unfold ceval. cbn [ce_aw ce_e eval bind wbytes].
  destruct (N.of_nat 2 + (N.of_nat 4 + n) <? 4294967296); cbn [bind]; [|discriminate].
  destruct (6 <=? N.of_nat 2 + (N.of_nat 4 + n)); [|discriminate].
  intros H. apply Ok_inj in H. lia.
Qed.

Lemma al_lin D env aw c k x (l : list val) a :
  lookup env x = Some (VL l) ->
  ceval D env Err (CE aw (EAdd (ELit c) (EMul (ELit k) (ELen x)))) = Ok a \/
  (exists sl, ceval D env sl (CE aw (EAdd (ELit c) (EMul (ELit k) (ELen x)))) = Ok a) ->
  a = c + k * N.of_nat (length l).
Proof.
  intros Hl [H|(sl & H)]; unfold ceval in H; cbn [ce_aw ce_e eval] in H; rewrite Hl in H; cbn [bind] in H;
    (destruct (k * N.of_nat (length l) <? 2 ^ aw); [|discriminate]); cbn [bind] in H;
    (destruct (c + k * N.of_nat (length l) <? 2 ^ aw); [|discriminate]); apply Ok_inj in H; auto.
Qed.

Lemma al_vec D f ev y w cw sp vs' r :
  write_fields (write_sty D f) ev [FMut y (Vec (Prim w) (VCount cw)) None sp] vs' = Ok r ->
  exists l, vs' = [VL l] /\ N.of_nat (length r) = N.of_nat (wbytes cw) + N.of_nat (wbytes w) * N.of_nat (length l)
            /\ exists body, r = enc cw (N.of_nat (length l)) ++ body /\ length body = (wbytes w * length l)%nat.
Proof.
  intros H. cbn [write_fields] in H. destruct vs' as [|v vs']; [discriminate|].
  apply bind_ok in H as (b1 & Hb1 & H). apply bind_ok in H as (b2 & Hb2 & H).
  apply Ok_inj in H. subst r. destruct vs'; [|discriminate]. apply Ok_inj in Hb2. subst b2.
  rewrite app_nil_r. cbn [write_ty] in Hb1. destruct v as [|l| |]; try discriminate.
  apply bind_ok in Hb1 as (b3 & Hb3 & Hb1). apply Ok_inj in Hb1. subst b1.
  pose proof (concat_prim_len _ _ _ _ _ Hb3) as E.
  exists l. split; [reflexivity|]. split.
  - rewrite of_nat_app, length_enc, E. lia.
  - exists b3. auto.
Qed.

Lemma attr_len_fields D f tw fs vs sl fb : attr_len_ok tw fs = true ->
  write_fields (write_sty D f) (ceval D (bind_fields fs vs) sl) fs vs = Ok fb ->
  sl = Ok (N.of_nat (wbytes tw) + N.of_nat (length fb)) ->
  exists body, fb = enc W32 (N.of_nat (length body)) ++ body.
Proof.
  intros Hok Hw Hsl. unfold attr_len_ok in Hok.
  destruct (skip_nowrite fs) as [names rest] eqn:Es.
  destruct (skip_spec _ _ _ _ _ _ _ Es Hw) as (vs' & Hw' & Hlk). clear Hw Es.
  destruct rest as [|[x0 w0 [aw e]|y t nw sp] rest']; try discriminate.
  - (* a const *)
    destruct w0; try discriminate.
    cbn [write_fields] in Hw'. apply bind_ok in Hw' as (a & Ha & Hw'). apply bind_ok in Hw' as (a0 & Ha0 & Hw').
    apply Ok_inj in Hw'. subst fb.
    exists a0. enough (E : a = N.of_nat (length a0)) by (rewrite E; reflexivity).
    destruct e as [m| | | | |e1 e2|e1 e2|]; try discriminate.
    + (* literal *)
      destruct (fixed_size rest') as [n|] eqn:Ef; [|discriminate]. apply N.eqb_eq in Hok. subst n.
      rewrite (lit_eval D (CE aw (ELit m)) m _ _ eq_refl) in Ha. apply Ok_inj in Ha. subst a.
      symmetry. eapply fixed_size_len; eauto.
    + (* c + k * x.len() *)
      destruct e1 as [c| | | | | | |]; try discriminate.
      destruct e2 as [| | | | | | |e3 e4]; try discriminate.
      destruct e3 as [k| | | | | | |]; try discriminate.
      destruct e4 as [| |x| | | | |]; try discriminate.
      destruct rest' as [|[|y t nw2 sp] rest2]; try discriminate;
        destruct t as [|[w|] [cw| |]]; try discriminate;
        destruct nw2; try discriminate; destruct rest2; try discriminate.
      repeat (apply andb_true_iff in Hok as [Hok ?]).
      match goal with H : negb _ = true |- _ => apply negb_true_iff in H; rename H into Hn end.
      match goal with H : (k =? _) = true |- _ => apply N.eqb_eq in H; rename H into Hk end.
      match goal with H : (c =? _) = true |- _ => apply N.eqb_eq in H; rename H into Hc end.
      destruct (al_vec _ _ _ _ _ _ _ _ _ Ha0) as (l & -> & Hlen & _).
      assert (Hx : lookup (bind_fields fs vs) x = Some (VL l)).
      { rewrite (Hlk _ Hn). cbn [bind_fields lookup]. rewrite Hok. reflexivity. }
      rewrite (al_lin _ _ _ _ _ _ _ _ Hx (or_intror (ex_intro _ sl Ha))). rewrite Hlen. subst c k. reflexivity.
    + (* this._len() - 6 *)
      destruct e1; try discriminate. destruct e2 as [six| | | | | | |]; try discriminate.
      apply andb_true_iff in Hok as [Hsix Hok]. apply N.eqb_eq in Hsix. subst six.
      destruct tw; try discriminate.
      rewrite Hsl in Ha. eapply al_selflen. exact Ha.
  - (* no const: a u32-counted vector of bytes is the whole rest *)
    destruct t as [|[[| |]|] [[| |]| |]]; try discriminate.
    destruct nw; try discriminate. destruct rest'; try discriminate.
    destruct (al_vec _ _ _ _ _ _ _ _ _ Hw') as (l & _ & _ & body & -> & Hb).
    exists body. replace (N.of_nat (length body)) with (N.of_nat (length l)); [reflexivity|].
    rewrite Hb. cbn [wbytes]. lia.
Qed.

(* for an enum all of whose variants pass the symbolic check: whatever value is written, the four
   bytes after the tag hold the number of bytes that follow them (mod 2^32, which is exact for
   any output shorter than 4 GiB) *)
Theorem attr_len_exact_gen D n tv tw vars ft :
  lookup D n = Some (DEnum tv tw vars ft) ->
  forallb (fun va => attr_len_ok tw (v_fields va)) vars = true ->
  forall fuel k vs bs, write_sty D fuel (Named n) (VV k vs) = Ok bs ->
  exists tg body, bs = enc tw tg ++ enc W32 (N.of_nat (length body)) ++ body.
Proof.
  intros Hl Hall fuel k vs bs Hw. pose proof (len_write _ _ _ _ _ Hw) as Hlen.
  destruct fuel as [|f]; [discriminate|]. cbn [write_sty] in Hw. rewrite Hl in Hw.
  destruct (nth_error vars k) as [va|] eqn:Ek; [|discriminate]. cbv zeta in Hw.
  bind_inv Hw. bind_inv Hw. injection Hw as <-.
  rewrite forallb_forall in Hall. specialize (Hall _ (nth_error_In _ _ Ek)).
  destruct (attr_len_fields _ _ _ _ _ _ _ Hall Ha0) as (body & ->).
  - rewrite Hlen, of_nat_app, length_enc. reflexivity.
  - exists a, body. reflexivity.
Qed.
