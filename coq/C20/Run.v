(* C20 correspondence cases: what raw_class_file answered, to be compared with the generic
   interpreters of Fmt.v run over the GENERATED table RawGen.raw_env. *)
From FB Require Export C20.Fmt C20.RawGen Base.Run.
From FB Require Import C20.Jvms.
Open Scope N_scope.

(* values as the harness prints them (parsed from the crate's own #[derive(Debug)] output):
   records carry the name of the struct / enum variant, fields are positional *)
Inductive nval :=
| NN (n : N)
| NB (l : list N)              (* a vector of plain numbers (Vec<u8>, Vec<u16>) *)
| NL (l : list nval)
| NR (name : string) (fs : list nval).

Fixpoint mut_tys (fs : list field) : list ty :=
  match fs with
  | [] => []
  | FConst _ _ _ :: fs' => mut_tys fs'
  | FMut _ t _ _ :: fs' => t :: mut_tys fs'
  end.

Fixpoint find_variant (vars : list variant) (name : string) (k : nat) : option (nat * variant) :=
  match vars with
  | [] => None
  | va :: vars' => if id_eqb (v_name va) name then Some (k, va) else find_variant vars' name (S k)
  end.

Fixpoint opt_map {A B} (f : A -> option B) (l : list A) : option (list B) :=
  match l with
  | [] => Some []
  | x :: l' => match f x, opt_map f l' with Some y, Some r => Some (y :: r) | _, _ => None end
  end.

Fixpoint opt_zip {A B C} (f : A -> B -> option C) (l : list A) (m : list B) : option (list C) :=
  match l, m with
  | [], [] => Some []
  | x :: l', y :: m' => match f x y, opt_zip f l' m' with Some z, Some r => Some (z :: r) | _, _ => None end
  | _, _ => None
  end.

Definition to_val_ty (rec : sty -> nval -> option val) (t : ty) (nv : nval) : option val :=
  match t, nv with
  | One s, _ => rec s nv
  | Vec (Prim _) _, NB l => Some (VL (map VN l))
  | Vec (Named _) _, NB [] => Some (VL [])
  | Vec s _, NL l => option_map VL (opt_map (rec s) l)
  | _, _ => None
  end.

Fixpoint to_val (D : denv) (fuel : nat) (t : sty) (nv : nval) {struct fuel} : option val :=
  match fuel with
  | O => None
  | S f =>
      match t, nv with
      | Prim _, NN n => Some (VN n)
      | Named tn, NR name fs =>
          match lookup D tn with
          | Some (DStruct fields) =>
              if id_eqb name tn
              then option_map VS (opt_zip (to_val_ty (to_val D f)) (mut_tys fields) fs) else None
          | Some (DEnum _ _ vars _) =>
              match find_variant vars name O with
              | Some (k, va) => option_map (VV k) (opt_zip (to_val_ty (to_val D f)) (mut_tys (v_fields va)) fs)
              | None => None
              end
          | None => None
          end
      | _, _ => None
      end
  end.

Fixpoint val_eqb (a b : val) {struct a} : bool :=
  match a, b with
  | VN x, VN y => N.eqb x y
  | VL l, VL m => (fix go (l m : list val) : bool :=
                     match l, m with [], [] => true | x :: l', y :: m' => val_eqb x y && go l' m' | _, _ => false end) l m
  | VS l, VS m => (fix go (l m : list val) : bool :=
                     match l, m with [], [] => true | x :: l', y :: m' => val_eqb x y && go l' m' | _, _ => false end) l m
  | VV j l, VV k m => Nat.eqb j k &&
                   (fix go (l m : list val) : bool :=
                     match l, m with [], [] => true | x :: l', y :: m' => val_eqb x y && go l' m' | _, _ => false end) l m
  | _, _ => false
  end.

Definition bytes_eqb' (a b : list N) : bool := list_eqb N.eqb a b.

Inductive rdres :=
| RSame                          (* read(to_bytes(v)) returned a value equal to v, at end of input *)
| RVal (v : nval) (rest : N)     (* … another value, with [rest] bytes left *)
| RErr.

Inductive case :=
(* a raw value: to_bytes (Err = panic), length(), read of the written bytes; [hyp]: whether the
   generator built it inside (Some true) / outside (Some false) the hypotheses of read_write *)
| CVal (hyp : option bool) (v : nval) (wr : res (list N)) (len : res N) (rd : rdres)
(* a byte string: read (Err = error or panic); on success the value, the number of bytes left, and
   whether to_bytes of the value reproduces the consumed prefix exactly.  [wf]: the verdict of the
   harness' independent strict JVMS walker (written in Rust) on the same bytes — compared with the
   verdict of the strict reader generated from the hand-written JVMS table of Jvms.v, the notion of
   "well-formed class file" the theorem C20_reads_every_wellformed_class is about *)
| CBytes (bs : list N) (wf : bool) (r : res (nval * N * bool)).

Definition conv (nv : nval) : option val := to_val raw_env 40 class_ty nv.

Fixpoint firstn_N (k : nat) (l : list N) : list N :=
  match k, l with
  | S k', x :: l' => x :: firstn_N k' l'
  | _, _ => []
  end.

Definition check (c : case) : bool :=
  match c with
  | CVal hyp nv wr len rd =>
      match conv nv with
      | None => false
      | Some v =>
          let mw := class_write raw_env v in
          res_eqb bytes_eqb' mw wr
          && res_eqb N.eqb (class_length raw_env v) len
          && match hyp with
             | Some b => Bool.eqb (resolves raw_env (S (depth v)) None class_ty v) b
             | None => true
             end
          && match wr with
             | Err => match rd with RErr => true | _ => false end
             | Ok bs =>
                 match class_read raw_env bs, rd with
                 | Err, RErr => true
                 | Ok (v', rest), RSame => val_eqb v' v && match rest with [] => true | _ => false end
                 | Ok (v', rest), RVal nv' n =>
                     match conv nv' with
                     | Some v'' => val_eqb v' v'' && N.eqb (N.of_nat (length rest)) n
                     | None => false
                     end
                 | _, _ => false
                 end
             end
      end
  | CBytes bs wf r =>
      Bool.eqb (match class_read_strict jvms_env bs with Ok (_, []) => true | _ => false end) wf &&
      match class_read raw_env bs, r with
      | Err, Err => true
      | Ok (v, rest), Ok (nv, n, same) =>
          match conv nv with
          | Some v' =>
              val_eqb v v' && N.eqb (N.of_nat (length rest)) n
              && Bool.eqb same
                   (match class_write raw_env v with
                    | Ok out => bytes_eqb' out (firstn_N (length bs - length rest) bs)
                    | Err => false
                    end)
          | None => false
          end
      | _, _ => false
      end
  end.
