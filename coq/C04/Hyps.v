(* C04: the decidable predicates used as hypotheses of the theorems (definitions only), so that
   the correspondence run can evaluate them on the generated inputs as well. *)
From FB Require Export C04.Model C04.Text.

Definition wf_mdiff (m : mdiff) : bool := nodupb N.eqb (map pd_index (md_params m)).
Definition wf_cdiff (c : cdiff) : bool :=
  nodupb key2_eqb (map fdkey (cd_fields c)) && nodupb key2_eqb (map mdkey (cd_methods c))
  && forallb wf_mdiff (cd_methods c).
Definition wf_diff (d : mdiffs) : bool :=
  nodupb str_eqb (map cd_name (d_classes d)) && forallb wf_cdiff (d_classes d).
Definition pfind k (l : list param) := find_key N.eqb pkey k l.
Definition pdfind k (l : list pdiff) := find_key N.eqb pd_index k l.
Definition ffind k (l : list field) := find_key key2_eqb fkey k l.
Definition fdfind k (l : list fdiff) := find_key key2_eqb fdkey k l.
Definition mfind k (l : list meth) := find_key key2_eqb mkey k l.
Definition mdfind k (l : list mdiff) := find_key key2_eqb mdkey k l.
Definition cfind k (l : list class) := find_key str_eqb ckey k l.
Definition cdfind k (l : list cdiff) := find_key str_eqb cd_name k l.
Definition tname (l : names) : option str := nth diff_ns l None.
Definition sname (l : names) : option str := nth 0 l None.
Definition named_param (p : param) : bool := is_some (tname (p_names p)).
Definition named_field (f : field) : bool := is_some (tname (f_names f)).
Definition named_meth (m : meth) : bool := is_some (tname (m_names m)) && forallb named_param (m_params m).
Definition named_class (c : class) : bool :=
  is_some (tname (c_names c)) && forallb named_field (c_fields c) && forallb named_meth (c_methods c).
Definition named (M : mappings) : bool := forallb named_class (ms_classes M).
Definition p_agree (oa : option param) (pb : param) : bool :=
  opt_eqb str_eqb (sname (p_names pb)) (match oa with Some pa => sname (p_names pa) | None => None end).
Definition params_agree (A B : list param) : bool :=
  forallb (fun pb => p_agree (pfind (pkey pb) A) pb) B.
Definition m_agree (oa : option meth) (mb : meth) : bool :=
  params_agree (match oa with Some ma => m_params ma | None => [] end) (m_params mb).
Definition meths_agree (A B : list meth) : bool :=
  forallb (fun mb => m_agree (mfind (mkey mb) A) mb) B.
Definition c_agree (oa : option class) (cb : class) : bool :=
  meths_agree (match oa with Some ca => c_methods ca | None => [] end) (c_methods cb).
Definition param_src_agree (A B : mappings) : bool :=
  forallb (fun cb => c_agree (cfind (ckey cb) (ms_classes A)) cb) (ms_classes B).
Definition two_ns (M : mappings) : bool :=
  match ms_ns M with [n0; n1] => negb (str_eqb n0 n1) | _ => false end.
Definition f3_class (A B : mappings) : bool := negb (param_src_agree A B).
Definition clean_char (c : N) : bool := negb (N.eqb c cTAB || N.eqb c cLF || N.eqb c cCR).
Definition clean (s : str) : bool := forallb clean_char s.
Definition okname (valid : str -> bool) (s : str) : bool := clean s && valid s.
Definition act_all (p : str -> bool) (a : action str) : bool :=
  match a with ANone => true | AAdd b => p b | ARem x => p x | AEdit x y => p x && p y end.
Definition textual_param (p : pdiff) : bool :=
  N.leb (pd_index p) usize_max && act_all (okname is_valid_unqualified_name) (pd_info p).
Definition textual_field (f : fdiff) : bool :=
  clean (fd_desc f) && okname is_valid_unqualified_name (fd_name f)
  && act_all (okname is_valid_unqualified_name) (fd_info f).
Definition textual_meth (m : mdiff) : bool :=
  clean (md_desc m) && okname is_valid_method_name (md_name m)
  && act_all (okname is_valid_method_name) (md_info m) && forallb textual_param (md_params m).
Definition textual_class (c : cdiff) : bool :=
  okname is_valid_obj_class_name (cd_name c) && act_all (okname is_valid_obj_class_name) (cd_info c)
  && forallb textual_field (cd_fields c) && forallb textual_meth (cd_methods c).
Definition is_anone (a : action str) : bool := match a with ANone => true | _ => false end.
Definition textual_diff (d : mdiffs) : bool :=
  wf_diff d && forallb textual_class (d_classes d) && is_anone (d_info d) && is_anone (norm_action (d_doc d)).
Definition nonnil (s : str) : bool := negb (is_nil s).
Definition nonempty_param (p : pdiff) : bool := act_all nonnil (pd_info p) && act_all nonnil (pd_doc p).
Definition nonempty_field (f : fdiff) : bool := act_all nonnil (fd_info f) && act_all nonnil (fd_doc f).
Definition nonempty_meth (m : mdiff) : bool :=
  act_all nonnil (md_info m) && act_all nonnil (md_doc m) && forallb nonempty_param (md_params m).
Definition nonempty_class (c : cdiff) : bool :=
  act_all nonnil (cd_info c) && act_all nonnil (cd_doc c) && forallb nonempty_field (cd_fields c)
  && forallb nonempty_meth (cd_methods c).
Definition nonempty_diff (d : mdiffs) : bool := act_all nonnil (d_doc d) && forallb nonempty_class (d_classes d).
Definition doc_ne (o : option str) : bool := match o with Some [] => false | _ => true end.
Definition name1_ok (valid : str -> bool) (l : names) : bool :=
  match tname l with Some s => okname valid s | None => true end.
Definition tx_param (p : param) : bool :=
  N.leb (p_index p) usize_max && name1_ok is_valid_unqualified_name (p_names p).
Definition tx_field (f : field) : bool :=
  clean (f_desc f) && okname is_valid_unqualified_name (fname (f_names f))
  && name1_ok is_valid_unqualified_name (f_names f).
Definition tx_meth (m : meth) : bool :=
  clean (m_desc m) && okname is_valid_method_name (fname (m_names m))
  && name1_ok is_valid_method_name (m_names m) && forallb tx_param (m_params m).
Definition tx_class (c : class) : bool :=
  okname is_valid_obj_class_name (fname (c_names c)) && name1_ok is_valid_obj_class_name (c_names c)
  && forallb tx_field (c_fields c) && forallb tx_meth (c_methods c).
Definition textual_mappings (M : mappings) : bool := forallb tx_class (ms_classes M).
Definition ne_param (p : param) : bool := doc_ne (p_doc p).
Definition ne_field (f : field) : bool := doc_ne (f_doc f).
Definition ne_meth (m : meth) : bool := doc_ne (m_doc m) && forallb ne_param (m_params m).
Definition ne_class (c : class) : bool :=
  doc_ne (c_doc c) && forallb ne_field (c_fields c) && forallb ne_meth (c_methods c).
Definition has_empty_comment (M : mappings) : bool :=
  negb (doc_ne (ms_doc M) && forallb ne_class (ms_classes M)).
Definition f4_class (A B : mappings) : bool := has_empty_comment A || has_empty_comment B.

(* hypotheses of the inverse law, as one boolean *)
Definition inverse_hyps_b (A B : mappings) : bool :=
  wf A && wf B && two_ns A && list_eqb str_eqb (ms_ns A) (ms_ns B) && named A && named B.
Definition text_hyps_b (A B : mappings) : bool :=
  inverse_hyps_b A B && textual_mappings A && textual_mappings B && opt_eqb str_eqb (ms_doc A) (ms_doc B).
