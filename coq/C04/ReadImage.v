(* C04: the image of tiny_v2_diff::read - for EVERY text, a diff that was read has valid and
   pairwise distinct keys at every level and only expressible, validated name actions. *)
From FB Require Import C04.Model3 C04.LineTheory C04.Hyps.

Lemma decode_info_ok valid fs a : decode_action valid fs = Ok a -> info_ok valid a = true.
Proof.
  intros H. apply decode_action_image in H. destruct H as (N & V & _).
  unfold info_ok. rewrite N, V. reflexivity.
Qed.

Ltac crack H :=
  repeat (cbn [bind negb] in H;
    match type of H with
    | Err = Ok _ => discriminate H
    | (if ?b then _ else _) = Ok _ => let E := fresh "E" in destruct b eqn:E
    | bind ?x _ = Ok _ => let E := fresh "E" in destruct x eqn:E
    | match ?x with _ => _ end = Ok _ => let E := fresh "E" in destruct x eqn:E
    end).

Lemma mi_params_param p r : mi_params (MIParam p :: r) = p :: mi_params r.
Proof. reflexivity. Qed.
Lemma mi_params_doc a r : mi_params (MIDoc a :: r) = mi_params r.
Proof. reflexivity. Qed.
Lemma ci_fields_field f r : ci_fields (CIField f :: r) = f :: ci_fields r.
Proof. reflexivity. Qed.
Lemma ci_fields_meth m r : ci_fields (CIMeth m :: r) = ci_fields r.
Proof. reflexivity. Qed.
Lemma ci_fields_doc a r : ci_fields (CIDoc a :: r) = ci_fields r.
Proof. reflexivity. Qed.
Lemma ci_meths_field f r : ci_meths (CIField f :: r) = ci_meths r.
Proof. reflexivity. Qed.
Lemma ci_meths_meth m r : ci_meths (CIMeth m :: r) = m :: ci_meths r.
Proof. reflexivity. Qed.
Lemma ci_meths_doc a r : ci_meths (CIDoc a :: r) = ci_meths r.
Proof. reflexivity. Qed.

Lemma interp_mchildren_image d ch : forall items,
  interp_mchildren d ch = Ok items -> forallb img_param (mi_params items) = true.
Proof.
  induction ch as [|[l sub] ch IH]; intros items H.
  - cbn [interp_mchildren] in H. injection H as <-. reflexivity.
  - cbn [interp_mchildren] in H. crack H; try (injection H as <-);
      rewrite ?mi_params_param, ?mi_params_doc; cbn [forallb];
      try rewrite (IH _ eq_refl);
      try (apply IH; assumption); try reflexivity; try (split; reflexivity).
    unfold img_param. cbn [pd_info].
    match goal with E : decode_action _ _ = Ok _ |- _ => rewrite (decode_info_ok _ _ _ E) end. reflexivity.
Qed.

Lemma interp_cchildren_image d ch : forall items,
  interp_cchildren d ch = Ok items ->
  forallb img_field (ci_fields items) = true /\ forallb img_meth (ci_meths items) = true.
Proof.
  induction ch as [|[l sub] ch IH]; intros items H.
  - cbn [interp_cchildren] in H. injection H as <-. split; reflexivity.
  - cbn [interp_cchildren] in H. crack H; try (injection H as <-);
      rewrite ?ci_fields_field, ?ci_fields_meth, ?ci_fields_doc, ?ci_meths_field, ?ci_meths_meth, ?ci_meths_doc;
      cbn [forallb];
      try (destruct (IH _ eq_refl) as [IHf IHm]; rewrite ?IHf, ?IHm);
      try (apply IH; assumption); try reflexivity; try (split; reflexivity).
    + (* field *)
      split; [|reflexivity]. unfold img_field. cbn [fd_name fd_info].
      match goal with E : decode_action _ _ = Ok _ |- _ => rewrite (decode_info_ok _ _ _ E) end.
      match goal with E : negb (is_valid_unqualified_name ?n) = false |- _ => apply negb_false_iff in E; rewrite E end.
      reflexivity.
    + (* method *)
      split; [reflexivity|]. unfold img_meth. cbn [md_name md_info md_params].
      match goal with E : decode_action _ _ = Ok _ |- _ => rewrite (decode_info_ok _ _ _ E) end.
      match goal with E : negb (is_valid_method_name ?n) = false |- _ => apply negb_false_iff in E; rewrite E end.
      match goal with E : negb (nodupb N.eqb _) = false |- _ => apply negb_false_iff in E; rewrite E end.
      match goal with E : interp_mchildren _ _ = Ok _ |- _ => rewrite (interp_mchildren_image _ _ _ E) end.
      reflexivity.
Qed.

Lemma interp_top_image ch : forall cs, interp_top ch = Ok cs -> forallb img_class cs = true.
Proof.
  induction ch as [|[l sub] ch IH]; intros cs H.
  - cbn [interp_top] in H. injection H as <-. reflexivity.
  - cbn [interp_top] in H. crack H; try (injection H as <-); cbn [forallb];
      try rewrite (IH _ eq_refl);
      try (apply IH; assumption); try reflexivity; try (split; reflexivity).
    unfold img_class. cbn [cd_name cd_info cd_fields cd_methods].
    match goal with E : decode_action _ _ = Ok _ |- _ => rewrite (decode_info_ok _ _ _ E) end.
    match goal with E : negb (is_valid_obj_class_name ?n) = false |- _ => apply negb_false_iff in E; rewrite E end.
    repeat match goal with E : negb (nodupb key2_eqb _) = false |- _ => apply negb_false_iff in E; rewrite E end.
    match goal with E : interp_cchildren _ _ = Ok _ |- _ => destruct (interp_cchildren_image _ _ _ E) as [Hf Hm]; rewrite Hf, Hm end.
    reflexivity.
Qed.

Theorem read_image t d : read t = Ok d -> read_image_b d = true.
Proof.
  unfold read. intros H. crack H. injection H as <-.
  unfold read_image_b. cbn [d_info d_doc d_classes is_anone andb].
  match goal with E : nodupb str_eqb _ = true |- _ => rewrite E end.
  match goal with E : interp_top _ = Ok _ |- _ => rewrite (interp_top_image _ _ E) end.
  reflexivity.
Qed.

(* the image implies the hypotheses the other theorems ask of a diff: pairwise distinct keys *)
Lemma read_image_wf d : read_image_b d = true -> wf_diff d = true.
Proof.
  unfold read_image_b, wf_diff. rewrite !andb_true_iff. intros [[_ Hn] Hc]. split; [exact Hn|].
  rewrite forallb_forall in *. intros c Hin. specialize (Hc c Hin).
  unfold img_class in Hc. rewrite !andb_true_iff in Hc. destruct Hc as [[[[_ Hf] Hm] _] Hms].
  unfold wf_cdiff. rewrite Hf, Hm. cbn [andb].
  rewrite forallb_forall in *. intros m Hinm. specialize (Hms m Hinm).
  unfold img_meth in Hms. rewrite !andb_true_iff in Hms. destruct Hms as [[_ Hp] _]. exact Hp.
Qed.
