(* C04 theory, part 1: apply_diff_option laws, the one-map-level specification of apply_diff_map
   (generic in the level), and its four instances plus the mappings level. *)
From FB Require Export C04.Model C04.Text C04.Hyps.
From Coq Require Import Permutation Arith PeanoNat.

(* ------------------------------------------------------------------ *)
(* basics *)

Lemma bind_ok {A B} (r : res A) (f : A -> res B) b :
  bind r f = Ok b <-> exists a, r = Ok a /\ f a = Ok b.
Proof.
  destruct r as [a|]; cbn [bind].
  - split; [intros H; exists a; auto|intros (a' & [= <-] & H); exact H].
  - split; [discriminate|intros (a' & H & _); discriminate].
Qed.

Lemma bind_err {A B} (r : res A) (f : A -> res B) :
  bind r f = Err <-> r = Err \/ exists a, r = Ok a /\ f a = Err.
Proof.
  destruct r as [a|]; cbn [bind].
  - split; [intros H; right; exists a; auto|intros [H|(a' & [= <-] & H)]; [discriminate|exact H]].
  - split; [auto|reflexivity].
Qed.

Lemma opt_str_eqb_eq (a b : option str) : opt_eqb str_eqb a b = true <-> a = b.
Proof.
  destruct a as [x|], b as [y|]; cbn [opt_eqb]; try (split; congruence).
  rewrite str_eqb_eq. split; congruence.
Qed.

Lemma key2_eqb_eq (a b : str * str) : key2_eqb a b = true <-> a = b.
Proof.
  destruct a as [a1 a2], b as [b1 b2]. unfold key2_eqb. cbn [fst snd].
  rewrite andb_true_iff, !str_eqb_eq. split; [intros [-> ->]; reflexivity|intros [= -> ->]; auto].
Qed.

(* ------------------------------------------------------------------ *)
(* apply_diff_option: the whole table *)

Lemma apply_option_ok_iff (d : action str) (t r : option str) :
  apply_option str_eqb d t = Ok r <->
    (d = ANone /\ r = t)
    \/ (exists b, d = AAdd b /\ t = None /\ r = Some b)
    \/ (exists a, d = ARem a /\ t = Some a /\ r = None)
    \/ (exists a b, d = AEdit a b /\ t = Some a /\ r = Some b).
Proof.
  destruct d as [|b|a|a b], t as [x|]; cbn [apply_option].
  all: try (destruct (str_eqb_spec x a) as [->|Hne]).
  all: split; intros H.
  all: try (injection H as <-).
  all: try discriminate.
  all: try (left; split; reflexivity).
  all: try (right; left; eexists; repeat split; reflexivity).
  all: try (right; right; left; eexists; repeat split; reflexivity).
  all: try (right; right; right; eexists; eexists; repeat split; reflexivity).
  all: destruct H as [(H1 & H2)|[(b' & H1 & H2 & H3)|[(a' & H1 & H2 & H3)|(a' & b' & H1 & H2 & H3)]]];
    try discriminate; try congruence.
Qed.

Lemma apply_option_err_iff (d : action str) (t : option str) :
  apply_option str_eqb d t = Err <->
    (exists b x, d = AAdd b /\ t = Some x)
    \/ (exists a, d = ARem a /\ t <> Some a)
    \/ (exists a b, d = AEdit a b /\ t <> Some a).
Proof.
  destruct d as [|b|a|a b], t as [x|]; cbn [apply_option].
  all: try (destruct (str_eqb_spec x a) as [->|Hne]).
  all: split; intros H; try discriminate.
  all: try (left; eexists; eexists; split; reflexivity).
  all: try (right; left; eexists; split; [reflexivity|congruence]).
  all: try (right; right; eexists; eexists; split; [reflexivity|congruence]).
  all: try reflexivity.
  all: destruct H as [(b' & x' & H1 & H2)|[(a' & H1 & H2)|(a' & b' & H1 & H2)]];
    try discriminate; try (injection H1 as <-); try (injection H1 as <- <-); try congruence.
Qed.

(* adding then removing, removing then adding, editing back: inverse laws *)
Lemma apply_option_add_rem b : apply_option str_eqb (ARem b) (Some b) = Ok None
                               /\ apply_option str_eqb (AAdd b) None = Ok (Some b).
Proof. cbn [apply_option]. rewrite str_eqb_refl. auto. Qed.

Lemma apply_option_from_tuple (a b : option str) : apply_option str_eqb (from_tuple a b) a = Ok b.
Proof. destruct a, b; cbn [from_tuple apply_option]; rewrite ?str_eqb_refl; reflexivity. Qed.

(* ------------------------------------------------------------------ *)
(* finite maps as lists with pairwise distinct keys *)

Definition keqb_ok {K} (keqb : K -> K -> bool) : Prop := forall a b, keqb a b = true <-> a = b.

Lemma keqb_refl {K} (keqb : K -> K -> bool) (H : keqb_ok keqb) k : keqb k k = true.
Proof. apply H. reflexivity. Qed.

Lemma keqb_neq {K} (keqb : K -> K -> bool) (H : keqb_ok keqb) a b : a <> b -> keqb a b = false.
Proof. intros Hne. destruct (keqb a b) eqn:E; [apply H in E; contradiction|reflexivity]. Qed.

Lemma keqb_dec {K} (keqb : K -> K -> bool) (H : keqb_ok keqb) (a b : K) : a = b \/ a <> b.
Proof. destruct (keqb a b) eqn:E; [left; apply H; exact E|right; intros ->; rewrite keqb_refl in E by exact H; discriminate]. Qed.

Lemma find_key_none {K T} keqb (H : keqb_ok keqb) (key : T -> K) k l :
  find_key keqb key k l = None <-> ~ In k (map key l).
Proof.
  induction l as [|x l IH]; cbn [find_key map In].
  - tauto.
  - destruct (keqb k (key x)) eqn:E.
    + apply H in E. split; [discriminate|intros Hn; exfalso; apply Hn; left; auto].
    + rewrite IH. split.
      * intros Hn [Hx|Hx]; [subst; rewrite keqb_refl in E by exact H; discriminate|contradiction].
      * intros Hn Hx. apply Hn. right. exact Hx.
Qed.

Lemma find_key_some {K T} keqb (H : keqb_ok keqb) (key : T -> K) k l x :
  find_key keqb key k l = Some x -> In x l /\ key x = k.
Proof.
  induction l as [|y l IH]; cbn [find_key In]; [discriminate|].
  destruct (keqb k (key y)) eqn:E.
  - intros [= <-]. apply H in E. auto.
  - intros Hx. destruct (IH Hx). auto.
Qed.

Lemma find_key_in {K T} keqb (H : keqb_ok keqb) (key : T -> K) l x :
  NoDup (map key l) -> In x l -> find_key keqb key (key x) l = Some x.
Proof.
  induction l as [|y l IH]; cbn [find_key In map]; [contradiction|].
  intros Hnd [->|Hin].
  - rewrite keqb_refl by exact H. reflexivity.
  - inversion Hnd as [|? ? Hny Hnd']; subst.
    destruct (keqb (key x) (key y)) eqn:E.
    + apply H in E. exfalso. apply Hny. rewrite <- E. apply in_map. exact Hin.
    + apply IH; assumption.
Qed.

Lemma find_key_in_keys {K T} keqb (H : keqb_ok keqb) (key : T -> K) k l :
  In k (map key l) -> exists x, find_key keqb key k l = Some x.
Proof.
  intros Hin. destruct (find_key keqb key k l) eqn:E; [eauto|].
  apply find_key_none in E; [contradiction|exact H].
Qed.

Lemma find_key_app {K T} keqb (key : T -> K) k l1 l2 :
  find_key keqb key k (l1 ++ l2) =
    match find_key keqb key k l1 with Some x => Some x | None => find_key keqb key k l2 end.
Proof.
  induction l1 as [|x l1 IH]; cbn [find_key app]; [reflexivity|].
  destruct (keqb k (key x)); [reflexivity|exact IH].
Qed.

(* ------------------------------------------------------------------ *)
(* swap_remove *)

Lemma last_removelast_perm {A} (l : list A) (x : A) :
  l <> [] -> Permutation (last l x :: removelast l) l.
Proof.
  intros Hl. rewrite (app_removelast_last x Hl) at 3.
  rewrite Permutation_app_comm. reflexivity.
Qed.

Lemma swap_remove_none {K D} keqb (H : keqb_ok keqb) (key : D -> K) k l :
  swap_remove keqb key k l = None <-> find_key keqb key k l = None.
Proof.
  induction l as [|d l IH]; cbn [swap_remove find_key]; [tauto|].
  destruct (keqb k (key d)); [split; discriminate|].
  destruct (swap_remove keqb key k l) as [[d' r]|]; [|tauto].
  split; [discriminate|]. intros Hn. apply IH in Hn. discriminate.
Qed.

Lemma swap_remove_some {K D} keqb (key : D -> K) k l d r :
  swap_remove keqb key k l = Some (d, r) ->
  find_key keqb key k l = Some d /\ Permutation l (d :: r).
Proof.
  revert r. induction l as [|x l IH]; intros r; cbn [swap_remove find_key]; [discriminate|].
  destruct (keqb k (key x)) eqn:E.
  - intros [= <- <-]. split; [reflexivity|]. constructor.
    destruct l as [|y l']; [constructor|].
    symmetry. apply last_removelast_perm. discriminate.
  - destruct (swap_remove keqb key k l) as [[d' r']|] eqn:Es; [|discriminate].
    intros [= <- <-]. destruct (IH r' eq_refl) as [Hf Hp]. split; [exact Hf|].
    rewrite Hp. apply perm_swap.
Qed.

(* with distinct keys, lookups after a removal *)
Lemma find_key_perm {K T} keqb (H : keqb_ok keqb) (key : T -> K) l l' k :
  NoDup (map key l) -> Permutation l l' -> find_key keqb key k l = find_key keqb key k l'.
Proof.
  intros Hnd Hp.
  assert (Hnd' : NoDup (map key l')) by (eapply Permutation_NoDup; [apply Permutation_map; exact Hp|exact Hnd]).
  destruct (find_key keqb key k l) as [x|] eqn:E.
  - destruct (find_key_some keqb H key k l x E) as [Hin Hk].
    symmetry. rewrite <- Hk. apply find_key_in; [exact H|exact Hnd'|].
    eapply Permutation_in; [exact Hp|exact Hin].
  - symmetry. apply find_key_none; [exact H|]. apply find_key_none in E; [|exact H].
    intros Hin. apply E. eapply Permutation_in; [apply Permutation_map; symmetry; exact Hp|exact Hin].
Qed.

Lemma swap_remove_spec {K D} keqb (H : keqb_ok keqb) (key : D -> K) k l d r :
  NoDup (map key l) -> swap_remove keqb key k l = Some (d, r) ->
  key d = k /\ find_key keqb key k l = Some d /\ NoDup (map key r)
  /\ ~ In k (map key r)
  /\ forall k', k' <> k -> find_key keqb key k' r = find_key keqb key k' l.
Proof.
  intros Hnd Hs. destruct (swap_remove_some keqb key k l d r Hs) as [Hf Hp].
  destruct (find_key_some keqb H key k l d Hf) as [_ Hk].
  assert (Hnd2 : NoDup (map key (d :: r))) by (eapply Permutation_NoDup; [apply Permutation_map; exact Hp|exact Hnd]).
  cbn [map] in Hnd2. inversion Hnd2 as [|? ? Hni Hndr]; subst.
  repeat split; auto.
  intros k' Hne. rewrite (find_key_perm keqb H key l (d :: r) k' Hnd Hp).
  cbn [find_key]. rewrite keqb_neq; [reflexivity|exact H|exact Hne].
Qed.

(* ------------------------------------------------------------------ *)
(* one map level, generic *)

Record level (K D T : Type) := mkLevel {
  l_keqb : K -> K -> bool;
  l_dkey : D -> K;
  l_tkey : T -> K;
  l_info : D -> action str;
  l_chg : T -> option str -> option str -> res T;
  l_mk : K -> str -> res T;
  l_child : D -> T -> res T }.
Arguments l_keqb {K D T}. Arguments l_dkey {K D T}. Arguments l_tkey {K D T}.
Arguments l_info {K D T}. Arguments l_chg {K D T}. Arguments l_mk {K D T}. Arguments l_child {K D T}.

Record level_ok {K D T} (L : level K D T) : Prop := mkLevelOk {
  lo_keqb : keqb_ok (l_keqb L);
  lo_chg : forall t f to t', l_chg L t f to = Ok t' -> l_tkey L t' = l_tkey L t;
  lo_child : forall d t t', l_child L d t = Ok t' -> l_tkey L t' = l_tkey L t;
  lo_mk : forall k b t, l_mk L k b = Ok t -> l_tkey L t = k }.

Definition apply_map_L {K D T} (L : level K D T) : list D -> list T -> res (list T) :=
  apply_map (l_keqb L) (l_dkey L) (l_tkey L) (l_info L) (l_chg L) (l_mk L) (l_child L).
Definition dfind {K D T} (L : level K D T) (k : K) (ds : list D) : option D := find_key (l_keqb L) (l_dkey L) k ds.
Definition tfind {K D T} (L : level K D T) (k : K) (ts : list T) : option T := find_key (l_keqb L) (l_tkey L) k ts.

(* The declarative table of one key: what the diff entry (if any) says about the target entry
   (if any).  Ok None = the key is absent afterwards; Err = the application is refused. *)
Definition entry_apply {K D T} (L : level K D T) (k : K) (od : option D) (ot : option T) : res (option T) :=
  match od, ot with
  | None, _ => Ok ot                                        (* not mentioned: untouched *)
  | Some d, Some t =>
      match l_info L d with
      | ANone => do t' <- l_child L d t; Ok (Some t')
      | AAdd b => do t1 <- l_chg L t None (Some b); do t' <- l_child L d t1; Ok (Some t')
      | ARem a => do _ <- l_chg L t (Some a) None; Ok None   (* the subtree goes with it, unchecked *)
      | AEdit a b => do t1 <- l_chg L t (Some a) (Some b); do t' <- l_child L d t1; Ok (Some t')
      end
  | Some d, None =>
      match l_info L d with
      | AAdd b => do t0 <- l_mk L k b; do t' <- l_child L d t0; Ok (Some t')
      | _ => Err                                            (* nothing to remove / edit / descend into *)
      end
  end.

Definition targets_inv {K D T} (L : level K D T) (pending : list D) (ts : list T) (out : res (list T * list D)) : Prop :=
  match out with
  | Ok (r, p') =>
      NoDup (map (l_dkey L) p')
      /\ (forall k, In k (map (l_tkey L) ts) -> dfind L k p' = None)
      /\ (forall k, ~ In k (map (l_tkey L) ts) -> dfind L k p' = dfind L k pending)
      /\ NoDup (map (l_tkey L) r)
      /\ (forall k, In k (map (l_tkey L) r) -> In k (map (l_tkey L) ts))
      /\ (forall k, In k (map (l_tkey L) ts) ->
            entry_apply L k (dfind L k pending) (tfind L k ts) = Ok (tfind L k r))
  | Err =>
      exists k, In k (map (l_tkey L) ts) /\ In k (map (l_dkey L) pending)
                /\ entry_apply L k (dfind L k pending) (tfind L k ts) = Err
  end.

Lemma dfind_in_keys {K D T} (L : level K D T) (HL : level_ok L) k ds d :
  dfind L k ds = Some d -> In k (map (l_dkey L) ds).
Proof.
  intros Hf. destruct (find_key_some _ (lo_keqb L HL) _ _ _ _ Hf) as [Hin Hk].
  rewrite <- Hk. apply in_map. exact Hin.
Qed.

Lemma apply_targets_spec {K D T} (L : level K D T) (HL : level_ok L) ts :
  forall pending, NoDup (map (l_dkey L) pending) -> NoDup (map (l_tkey L) ts) ->
  targets_inv L pending ts
    (apply_targets (l_keqb L) (l_dkey L) (l_tkey L) (l_info L) (l_chg L) (l_child L) pending ts).
Proof.
  pose proof (lo_keqb L HL) as HK.
  induction ts as [|t ts IH]; intros pending Hndp Hndt.
  - cbn [apply_targets targets_inv map In]. repeat split; auto; try constructor; intros; contradiction.
  - cbn [map] in Hndt. inversion Hndt as [|? ? Hnt Hndt']; subst.
    cbn [apply_targets].
    set (kt := l_tkey L t) in *.
    (* facts used in all branches *)
    assert (Htf : forall k, k <> kt -> tfind L k (t :: ts) = tfind L k ts).
    { intros k Hne. unfold tfind. cbn [find_key]. fold kt. rewrite keqb_neq; [reflexivity|exact HK|exact Hne]. }
    assert (Htt : tfind L kt (t :: ts) = Some t).
    { unfold tfind. cbn [find_key]. fold kt. rewrite keqb_refl by exact HK. reflexivity. }
    destruct (swap_remove (l_keqb L) (l_dkey L) kt pending) as [[d p1]|] eqn:Es.
    + (* case 1: key in both *)
      destruct (swap_remove_spec _ HK _ _ _ _ _ Hndp Es) as (Hdk & Hfd & Hnd1 & Hni1 & Hrest).
      change (forall k', k' <> kt -> dfind L k' p1 = dfind L k' pending) in Hrest.
      change (dfind L kt pending = Some d) in Hfd.
      assert (Hkin : In kt (map (l_dkey L) pending)) by (eapply dfind_in_keys; [exact HL|exact Hfd]).
      specialize (IH p1 Hnd1 Hndt').
      (* the common continuation for the three "keep" branches *)
      assert (Hkeep : forall t2, l_tkey L t2 = kt ->
                entry_apply L kt (dfind L kt pending) (Some t) = Ok (Some t2) ->
                targets_inv L pending (t :: ts)
                  (do rp <- apply_targets (l_keqb L) (l_dkey L) (l_tkey L) (l_info L) (l_chg L) (l_child L) p1 ts;
                   Ok (t2 :: fst rp, snd rp))).
      { intros t2 Hk2 He.
        destruct (apply_targets (l_keqb L) (l_dkey L) (l_tkey L) (l_info L) (l_chg L) (l_child L) p1 ts) as [[r0 p2]|];
          cbn [bind fst snd targets_inv] in *.
        - destruct IH as (I1 & I2 & I3 & I4 & I5 & I6).
          split; [exact I1|]. split; [|split; [|split; [|split]]].
          + intros k [Hk|Hk].
            * subst k. fold kt. rewrite I3 by exact Hnt. apply find_key_none; [exact HK|exact Hni1].
            * apply I2. exact Hk.
          + intros k Hk. cbn [map In] in Hk.
            rewrite I3 by tauto. apply Hrest. intros ->. apply Hk. left. reflexivity.
          + cbn [map]. constructor; [|exact I4]. rewrite Hk2. intros Hin. apply Hnt. apply I5. exact Hin.
          + intros k [Hk|Hk]; [left; rewrite <- Hk; symmetry; exact Hk2|right; apply I5; exact Hk].
          + intros k [Hk|Hk].
            * subst k. fold kt. rewrite Htt. rewrite He. f_equal.
              unfold tfind. cbn [find_key]. rewrite Hk2, keqb_refl by exact HK. reflexivity.
            * assert (Hne : k <> kt) by (intros ->; contradiction).
              rewrite Htf by exact Hne. rewrite <- (Hrest k Hne). rewrite I6 by exact Hk.
              f_equal. unfold tfind. cbn [find_key]. rewrite Hk2, keqb_neq; [reflexivity|exact HK|exact Hne].
        - destruct IH as (k & Hk1 & Hk2' & Hk3).
          assert (Hne : k <> kt) by (intros ->; contradiction).
          exists k. split; [right; exact Hk1|]. split.
          + destruct (find_key_in_keys _ HK _ _ _ Hk2') as [x Hx].
            fold (dfind L k p1) in Hx. rewrite (Hrest k Hne) in Hx. eapply dfind_in_keys; [exact HL|exact Hx].
          + rewrite Htf by exact Hne. rewrite <- (Hrest k Hne). exact Hk3. }
      assert (Herr : entry_apply L kt (dfind L kt pending) (Some t) = Err ->
                     targets_inv L pending (t :: ts) Err).
      { intros He. exists kt. split; [left; reflexivity|]. split; [exact Hkin|]. rewrite Htt. exact He. }
      rewrite Hfd in Hkeep, Herr. cbn [entry_apply] in Hkeep, Herr.
      destruct (l_info L d) as [|b|a|a b] eqn:Ei.
      * destruct (l_child L d t) as [t2|] eqn:Ec; cbn [bind] in *.
        -- apply Hkeep; [|reflexivity]. rewrite (lo_child L HL _ _ _ Ec). reflexivity.
        -- apply Herr. reflexivity.
      * destruct (l_chg L t None (Some b)) as [t1|] eqn:Eg; cbn [bind] in *; [|apply Herr; reflexivity].
        destruct (l_child L d t1) as [t2|] eqn:Ec; cbn [bind] in *; [|apply Herr; reflexivity].
        apply Hkeep; [|reflexivity].
        rewrite (lo_child L HL _ _ _ Ec), (lo_chg L HL _ _ _ _ Eg). reflexivity.
      * destruct (l_chg L t (Some a) None) as [t1|] eqn:Eg; cbn [bind] in *; [|apply Herr; reflexivity].
        (* removal: continue with the rest *)
        destruct (apply_targets (l_keqb L) (l_dkey L) (l_tkey L) (l_info L) (l_chg L) (l_child L) p1 ts) as [[r0 p2]|];
          cbn [targets_inv] in *.
        -- destruct IH as (I1 & I2 & I3 & I4 & I5 & I6).
           split; [exact I1|]. split; [|split; [|split; [|split]]].
           ++ intros k [Hk|Hk].
              ** subst k. fold kt. rewrite I3 by exact Hnt. apply find_key_none; [exact HK|exact Hni1].
              ** apply I2. exact Hk.
           ++ intros k Hk. cbn [map In] in Hk.
              rewrite I3 by tauto. apply Hrest. intros ->. apply Hk. left. reflexivity.
           ++ exact I4.
           ++ intros k Hk. right. apply I5. exact Hk.
           ++ intros k [Hk|Hk].
              ** subst k. fold kt. rewrite Htt. rewrite Hfd. cbn [entry_apply]. rewrite Ei, Eg. cbn [bind].
                 f_equal. symmetry. apply find_key_none; [exact HK|]. intros Hin. apply Hnt. apply I5. exact Hin.
              ** assert (Hne : k <> kt) by (intros ->; contradiction).
                 rewrite Htf by exact Hne. rewrite <- (Hrest k Hne). apply I6. exact Hk.
        -- destruct IH as (k & Hk1 & Hk2' & Hk3).
           assert (Hne : k <> kt) by (intros ->; contradiction).
           exists k. split; [right; exact Hk1|]. split.
           ++ destruct (find_key_in_keys _ HK _ _ _ Hk2') as [x Hx].
              fold (dfind L k p1) in Hx. rewrite (Hrest k Hne) in Hx. eapply dfind_in_keys; [exact HL|exact Hx].
           ++ rewrite Htf by exact Hne. rewrite <- (Hrest k Hne). exact Hk3.
      * destruct (l_chg L t (Some a) (Some b)) as [t1|] eqn:Eg; cbn [bind] in *; [|apply Herr; reflexivity].
        destruct (l_child L d t1) as [t2|] eqn:Ec; cbn [bind] in *; [|apply Herr; reflexivity].
        apply Hkeep; [|reflexivity].
        rewrite (lo_child L HL _ _ _ Ec), (lo_chg L HL _ _ _ _ Eg). reflexivity.
    + (* case 2: key only in targets *)
      apply swap_remove_none in Es; [|exact HK].
      specialize (IH pending Hndp Hndt').
      destruct (apply_targets (l_keqb L) (l_dkey L) (l_tkey L) (l_info L) (l_chg L) (l_child L) pending ts) as [[r0 p2]|];
        cbn [bind fst snd targets_inv] in *.
      * destruct IH as (I1 & I2 & I3 & I4 & I5 & I6).
        split; [exact I1|]. split; [|split; [|split; [|split]]].
        -- intros k [Hk|Hk]; [|apply I2; exact Hk].
           subst k. fold kt. rewrite I3 by exact Hnt. exact Es.
        -- intros k Hk. cbn [map In] in Hk. apply I3. tauto.
        -- cbn [map]. constructor; [|exact I4]. intros Hin. apply Hnt. apply I5. exact Hin.
        -- intros k [Hk|Hk]; [left; exact Hk|right; apply I5; exact Hk].
        -- intros k [Hk|Hk].
           ++ subst k. fold kt. rewrite Htt. unfold dfind. rewrite Es. cbn [entry_apply]. f_equal.
              unfold tfind. cbn [find_key]. fold kt. rewrite keqb_refl by exact HK. reflexivity.
           ++ assert (Hne : k <> kt) by (intros ->; contradiction).
              rewrite Htf by exact Hne. rewrite I6 by exact Hk. f_equal.
              unfold tfind. cbn [find_key]. fold kt. rewrite keqb_neq; [reflexivity|exact HK|exact Hne].
      * destruct IH as (k & Hk1 & Hk2' & Hk3).
        assert (Hne : k <> kt) by (intros ->; contradiction).
        exists k. split; [right; exact Hk1|]. split; [exact Hk2'|].
        rewrite Htf by exact Hne. exact Hk3.
Qed.

Lemma NoDup_app_iff' {A} (l1 l2 : list A) :
  NoDup (l1 ++ l2) <-> NoDup l1 /\ NoDup l2 /\ forall x, In x l1 -> In x l2 -> False.
Proof.
  induction l1 as [|a l1 IH]; cbn [app].
  - split; [intros H; repeat split; [constructor|exact H|intros x []]|intros (_ & H & _); exact H].
  - split.
    + intros H. inversion H as [|? ? Hni Hnd]; subst. apply IH in Hnd. destruct Hnd as (H1 & H2 & H3).
      split; [constructor; [intros Hin; apply Hni; apply in_or_app; left; exact Hin|exact H1]|].
      split; [exact H2|]. intros x [->|Hx] Hx2; [apply Hni; apply in_or_app; right; exact Hx2|exact (H3 x Hx Hx2)].
    + intros (H1 & H2 & H3). inversion H1 as [|? ? Hni Hnd]; subst. constructor.
      * intros Hin. apply in_app_or in Hin. destruct Hin as [Hin|Hin]; [contradiction|exact (H3 a (or_introl eq_refl) Hin)].
      * apply IH. split; [exact Hnd|]. split; [exact H2|]. intros x Hx Hx2. exact (H3 x (or_intror Hx) Hx2).
Qed.

Lemma in_dec_keys {K} (keqb : K -> K -> bool) (H : keqb_ok keqb) (k : K) (l : list K) : In k l \/ ~ In k l.
Proof.
  induction l as [|x l IH]; [right; intros []|].
  destruct (keqb_dec keqb H x k) as [->|Hne]; [left; left; reflexivity|].
  destruct IH as [Hin|Hnin]; [left; right; exact Hin|right; intros [Hx|Hx]; contradiction].
Qed.

(* case 3 of apply_diff_map *)
Lemma apply_pending_spec {K D T} (L : level K D T) (HL : level_ok L) p :
  NoDup (map (l_dkey L) p) ->
  match apply_pending (l_dkey L) (l_info L) (l_mk L) (l_child L) p with
  | Ok r => map (l_tkey L) r = map (l_dkey L) p
            /\ forall k, entry_apply L k (dfind L k p) None = Ok (tfind L k r)
  | Err => exists k, In k (map (l_dkey L) p) /\ entry_apply L k (dfind L k p) None = Err
  end.
Proof.
  pose proof (lo_keqb L HL) as HK.
  induction p as [|d p IH]; intros Hnd.
  - cbn [apply_pending map]. split; [reflexivity|]. intros k. reflexivity.
  - cbn [map] in Hnd. inversion Hnd as [|? ? Hni Hnd']; subst. specialize (IH Hnd').
    cbn [apply_pending].
    set (kd := l_dkey L d) in *.
    assert (Hdd : dfind L kd (d :: p) = Some d).
    { unfold dfind. cbn [find_key]. fold kd. rewrite keqb_refl by exact HK. reflexivity. }
    assert (Hdo : forall k, k <> kd -> dfind L k (d :: p) = dfind L k p).
    { intros k Hne. unfold dfind. cbn [find_key]. fold kd. rewrite keqb_neq; [reflexivity|exact HK|exact Hne]. }
    assert (Herr : entry_apply L kd (Some d) None = Err ->
                   exists k, In k (map (l_dkey L) (d :: p)) /\ entry_apply L k (dfind L k (d :: p)) None = Err).
    { intros He. exists kd. split; [left; reflexivity|]. rewrite Hdd. exact He. }
    cbn [entry_apply] in Herr.
    destruct (l_info L d) as [|b|a|a b] eqn:Ei; try (apply Herr; reflexivity).
    destruct (l_mk L kd b) as [t0|] eqn:Em; cbn [bind] in *; [|apply Herr; reflexivity].
    destruct (l_child L d t0) as [t|] eqn:Ec; cbn [bind] in *; [|apply Herr; reflexivity].
    assert (Hkt : l_tkey L t = kd) by (rewrite (lo_child L HL _ _ _ Ec); apply (lo_mk L HL _ _ _ Em)).
    destruct (apply_pending (l_dkey L) (l_info L) (l_mk L) (l_child L) p) as [r|]; cbn [bind].
    + destruct IH as [I1 I2]. split; [cbn [map]; rewrite Hkt, I1; reflexivity|].
      intros k. destruct (keqb_dec _ HK k kd) as [->|Hne].
      * rewrite Hdd. cbn [entry_apply]. rewrite Ei, Em. cbn [bind]. rewrite Ec. cbn [bind]. f_equal.
        unfold tfind. cbn [find_key]. rewrite Hkt, keqb_refl by exact HK. reflexivity.
      * rewrite Hdo by exact Hne. rewrite I2. f_equal.
        unfold tfind. cbn [find_key]. rewrite Hkt, keqb_neq; [reflexivity|exact HK|exact Hne].
    + destruct IH as (k & Hk1 & Hk2). exists k.
      assert (Hne : k <> kd) by (intros ->; contradiction).
      split; [right; exact Hk1|]. rewrite Hdo by exact Hne. exact Hk2.
Qed.

(* The specification of one map level: the result has distinct keys and, key by key, is what the
   table says; the application is refused exactly when the table refuses some key of the diff. *)
Theorem apply_map_spec {K D T} (L : level K D T) (HL : level_ok L) ds ts :
  NoDup (map (l_dkey L) ds) -> NoDup (map (l_tkey L) ts) ->
  match apply_map_L L ds ts with
  | Ok r => NoDup (map (l_tkey L) r)
            /\ forall k, entry_apply L k (dfind L k ds) (tfind L k ts) = Ok (tfind L k r)
  | Err => exists k, In k (map (l_dkey L) ds)
                     /\ entry_apply L k (dfind L k ds) (tfind L k ts) = Err
  end.
Proof.
  intros Hndd Hndt. pose proof (lo_keqb L HL) as HK.
  unfold apply_map_L, apply_map.
  pose proof (apply_targets_spec L HL ts ds Hndd Hndt) as H1.
  destruct (apply_targets (l_keqb L) (l_dkey L) (l_tkey L) (l_info L) (l_chg L) (l_child L) ds ts) as [[r1 p]|];
    cbn [bind fst snd targets_inv] in *.
  - destruct H1 as (I1 & I2 & I3 & I4 & I5 & I6).
    pose proof (apply_pending_spec L HL p I1) as H2.
    destruct (apply_pending (l_dkey L) (l_info L) (l_mk L) (l_child L) p) as [r2|]; cbn [bind].
    + destruct H2 as [J1 J2].
      assert (Hdisj : forall k, In k (map (l_tkey L) r2) -> ~ In k (map (l_tkey L) ts)).
      { intros k Hk Hts. rewrite J1 in Hk. specialize (I2 k Hts).
        apply find_key_none in I2; [contradiction|exact HK]. }
      split.
      * rewrite map_app. apply NoDup_app_iff'. split; [exact I4|]. split.
        -- rewrite J1. exact I1.
        -- intros k Hk1 Hk2. apply (Hdisj k Hk2). apply I5. exact Hk1.
      * intros k. unfold tfind at 2. rewrite find_key_app. fold (tfind L k r1) (tfind L k r2).
        destruct (in_dec_keys (l_keqb L) HK k (map (l_tkey L) ts)) as [Hin|Hnin].
        -- rewrite (I6 k Hin). f_equal. destruct (tfind L k r1) as [x|] eqn:E1; [reflexivity|].
           symmetry. apply find_key_none; [exact HK|]. intros Hk2. exact (Hdisj k Hk2 Hin).
        -- assert (Ht : tfind L k ts = None) by (apply find_key_none; [exact HK|exact Hnin]).
           rewrite Ht. rewrite <- (I3 k Hnin). rewrite J2.
           assert (E1 : tfind L k r1 = None).
           { apply find_key_none; [exact HK|]. intros Hk1. apply Hnin. apply I5. exact Hk1. }
           rewrite E1. reflexivity.
    + destruct H2 as (k & Hk1 & Hk2).
      assert (Hnin : ~ In k (map (l_tkey L) ts)).
      { intros Hts. specialize (I2 k Hts). apply find_key_none in I2; [contradiction|exact HK]. }
      exists k.
      assert (Ht : tfind L k ts = None) by (apply find_key_none; [exact HK|exact Hnin]).
      rewrite Ht. split; [|rewrite <- (I3 k Hnin); exact Hk2].
      destruct (find_key_in_keys _ HK _ _ _ Hk1) as [x Hx]. fold (dfind L k p) in Hx.
      rewrite (I3 k Hnin) in Hx. eapply dfind_in_keys; [exact HL|exact Hx].
  - destruct H1 as (k & Hk1 & Hk2 & Hk3). exists k. split; [exact Hk2|exact Hk3].
Qed.

(* ------------------------------------------------------------------ *)
(* the four levels *)

Definition Lparam (n tns : nat) : level N pdiff param :=
  mkLevel _ _ _ N.eqb pd_index pkey pd_info (chg_param tns) (new_param n tns) apply_param.
Definition Lfield (n tns : nat) : level (str * str) fdiff field :=
  mkLevel _ _ _ key2_eqb fdkey fkey fd_info (chg_field tns) (new_field n tns) apply_field.
Definition Lmeth (n tns : nat) : level (str * str) mdiff meth :=
  mkLevel _ _ _ key2_eqb mdkey mkey md_info (chg_meth tns) (new_meth n tns) (apply_meth n tns).
Definition Lclass (n tns : nat) : level str cdiff class :=
  mkLevel _ _ _ str_eqb cd_name ckey cd_info (chg_class tns) (new_class n tns) (apply_class n tns).

Lemma N_eqb_ok : keqb_ok N.eqb.
Proof. intros a b. apply N.eqb_eq. Qed.
Lemma key2_eqb_ok : keqb_ok key2_eqb.
Proof. intros a b. apply key2_eqb_eq. Qed.
Lemma str_eqb_ok : keqb_ok str_eqb.
Proof. intros a b. apply str_eqb_eq. Qed.

Lemma set_nth_S_fname (i : nat) (l : names) x : fname (set_nth (S i) l x) = fname l.
Proof. destruct l as [|[y|] l]; reflexivity. Qed.

Lemma change_name_ok tns l from to l' :
  change_name tns l from to = Ok l' <-> tns <> O /\ nth tns l None = from /\ l' = set_nth tns l to.
Proof.
  unfold change_name. destruct tns as [|i]; cbn [Nat.eqb].
  - split; [discriminate|intros (H & _); contradiction].
  - destruct (opt_eqb str_eqb (nth (S i) l None) from) eqn:E.
    + apply opt_str_eqb_eq in E. split; [intros [= <-]; auto|intros (_ & _ & ->); reflexivity].
    + split; [discriminate|]. intros (_ & H & _). apply opt_str_eqb_eq in H. congruence.
Qed.

Lemma change_name_fname tns l from to l' : change_name tns l from to = Ok l' -> fname l' = fname l.
Proof.
  intros H. apply change_name_ok in H. destruct H as (Hn & _ & ->).
  destruct tns as [|i]; [contradiction|]. apply set_nth_S_fname.
Qed.

Lemma fresh_names_fname n tns k b l : n <> O -> fresh_names n tns (Some k) b = Ok l -> fname l = k.
Proof.
  intros Hn H. unfold fresh_names in H. rewrite (change_name_fname _ _ _ _ _ H).
  destruct n as [|n']; [contradiction|]. reflexivity.
Qed.

Lemma Lparam_ok n tns : level_ok (Lparam n tns).
Proof.
  constructor; cbn.
  - exact N_eqb_ok.
  - intros t f to t' H. unfold chg_param in H. apply bind_ok in H. destruct H as (x & _ & [= <-]). reflexivity.
  - intros d t t' H. unfold apply_param in H. apply bind_ok in H. destruct H as (x & _ & [= <-]). reflexivity.
  - intros k b t H. unfold new_param in H. apply bind_ok in H. destruct H as (x & _ & [= <-]). reflexivity.
Qed.

Lemma Lfield_ok n tns : n <> O -> level_ok (Lfield n tns).
Proof.
  intros Hn. constructor; cbn.
  - exact key2_eqb_ok.
  - intros t f to t' H. unfold chg_field in H. apply bind_ok in H. destruct H as (x & Hx & [= <-]).
    unfold fkey. cbn. rewrite (change_name_fname _ _ _ _ _ Hx). reflexivity.
  - intros d t t' H. unfold apply_field in H. apply bind_ok in H. destruct H as (x & _ & [= <-]). reflexivity.
  - intros [k1 k2] b t H. unfold new_field in H. apply bind_ok in H. destruct H as (x & Hx & [= <-]).
    unfold fkey. cbn. cbn [fst] in Hx. rewrite (fresh_names_fname _ _ _ _ _ Hn Hx). reflexivity.
Qed.

Lemma Lmeth_ok n tns : n <> O -> level_ok (Lmeth n tns).
Proof.
  intros Hn. constructor; cbn.
  - exact key2_eqb_ok.
  - intros t f to t' H. unfold chg_meth in H. apply bind_ok in H. destruct H as (x & Hx & [= <-]).
    unfold mkey. cbn. rewrite (change_name_fname _ _ _ _ _ Hx). reflexivity.
  - intros d t t' H. unfold apply_meth in H. apply bind_ok in H. destruct H as (x & _ & H).
    apply bind_ok in H. destruct H as (y & _ & [= <-]). reflexivity.
  - intros [k1 k2] b t H. unfold new_meth in H. apply bind_ok in H. destruct H as (x & Hx & [= <-]).
    unfold mkey. cbn. cbn [fst] in Hx. rewrite (fresh_names_fname _ _ _ _ _ Hn Hx). reflexivity.
Qed.

Lemma Lclass_ok n tns : n <> O -> level_ok (Lclass n tns).
Proof.
  intros Hn. constructor; cbn.
  - exact str_eqb_ok.
  - intros t f to t' H. unfold chg_class in H. apply bind_ok in H. destruct H as (x & Hx & [= <-]).
    unfold ckey. cbn. apply (change_name_fname _ _ _ _ _ Hx).
  - intros d t t' H. unfold apply_class in H. apply bind_ok in H. destruct H as (x & _ & H).
    apply bind_ok in H. destruct H as (y & _ & H). apply bind_ok in H. destruct H as (z & _ & [= <-]). reflexivity.
  - intros k b t H. unfold new_class in H. apply bind_ok in H. destruct H as (x & Hx & [= <-]).
    unfold ckey. cbn. apply (fresh_names_fname _ _ _ _ _ Hn Hx).
Qed.

(* well-formed diff trees: pairwise distinct keys per map (the IndexMap invariant) *)

Lemma nodupb_NoDup {K} (eqb : K -> K -> bool) (H : keqb_ok eqb) (l : list K) :
  nodupb eqb l = true <-> NoDup l.
Proof.
  induction l as [|x l IH]; cbn [nodupb].
  - split; [constructor|reflexivity].
  - rewrite andb_true_iff, negb_true_iff, IH. split.
    + intros [Hx Hl]. constructor; [|exact Hl]. intros Hin.
      assert (E : existsb (eqb x) l = true) by (apply existsb_exists; exists x; split; [exact Hin|apply H; reflexivity]).
      congruence.
    + intros Hnd. inversion Hnd as [|? ? Hni Hl]; subst. split; [|exact Hl].
      destruct (existsb (eqb x) l) eqn:E; [|reflexivity].
      apply existsb_exists in E. destruct E as (y & Hy & Exy). apply H in Exy. subst. contradiction.
Qed.

(* target side: the shared [wf] gives distinct derived keys *)
Lemma first_name_fname l : is_some (first_name l) = true -> first_name l = Some (fname l).
Proof. destruct l as [|[x|] l]; cbn; try discriminate; reflexivity. Qed.

Lemma nodup_okeys {K T} (eqb : K -> K -> bool) (H : keqb_ok eqb) (okey : T -> option K) (key : T -> K) l :
  (forall x, In x l -> okey x = Some (key x)) ->
  nodupb (okey_eqb eqb) (map okey l) = true -> NoDup (map key l).
Proof.
  intros Hk Hnd.
  assert (Hok : keqb_ok (okey_eqb eqb)).
  { intros [a|] [b|]; unfold okey_eqb; cbn [opt_eqb]; try (split; congruence).
    split; [intros E; apply H in E; congruence|intros [= ->]; apply H; reflexivity]. }
  apply (nodupb_NoDup _ Hok) in Hnd.
  assert (Hm : map okey l = map Some (map key l)).
  { rewrite map_map. apply map_ext_in. exact Hk. }
  rewrite Hm in Hnd. eapply NoDup_map_inv. exact Hnd.
Qed.

Lemma wf_meth_nodup n m : wf_meth n m = true -> NoDup (map pkey (m_params m)).
Proof.
  unfold wf_meth. rewrite !andb_true_iff. intros (_ & H). apply (nodupb_NoDup _ N_eqb_ok). exact H.
Qed.

Lemma wf_class_nodup n c : wf_class n c = true ->
  NoDup (map fkey (c_fields c)) /\ NoDup (map mkey (c_methods c))
  /\ Forall (fun m => wf_meth n m = true) (c_methods c) /\ Forall (fun f => wf_field n f = true) (c_fields c).
Proof.
  unfold wf_class. rewrite !andb_true_iff. intros (((((_ & _) & Hf) & Hfn) & Hm) & Hmn).
  rewrite forallb_forall in Hf, Hm. repeat split.
  - apply (nodup_okeys key2_eqb key2_eqb_ok field_key fkey); [|exact Hfn].
    intros x Hx. specialize (Hf x Hx). unfold wf_field in Hf. rewrite andb_true_iff in Hf. destruct Hf as [_ Hs].
    unfold field_key, fkey in *. destruct (first_name (f_names x)) eqn:E; [|discriminate].
    rewrite (first_name_fname (f_names x)) in E by (rewrite E; reflexivity). congruence.
  - apply (nodup_okeys key2_eqb key2_eqb_ok meth_key mkey); [|exact Hmn].
    intros x Hx. specialize (Hm x Hx). unfold wf_meth in Hm. rewrite !andb_true_iff in Hm. destruct Hm as (((_ & Hs) & _) & _).
    unfold meth_key, mkey in *. destruct (first_name (m_names x)) eqn:E; [|discriminate].
    rewrite (first_name_fname (m_names x)) in E by (rewrite E; reflexivity). congruence.
  - apply Forall_forall. exact Hm.
  - apply Forall_forall. exact Hf.
Qed.

Lemma wf_nodup M : wf M = true ->
  NoDup (map ckey (ms_classes M)) /\ Forall (fun c => wf_class (length (ms_ns M)) c = true) (ms_classes M)
  /\ (2 <= length (ms_ns M))%nat.
Proof.
  unfold wf. cbv zeta. rewrite !andb_true_iff. intros (((Hn & _) & Hc) & Hcn).
  rewrite forallb_forall in Hc. repeat split.
  - apply (nodup_okeys str_eqb str_eqb_ok class_key ckey); [|exact Hcn].
    intros x Hx. specialize (Hc x Hx). unfold wf_class in Hc. rewrite !andb_true_iff in Hc.
    destruct Hc as (((((_ & Hs) & _) & _) & _) & _). unfold class_key, ckey in *. apply first_name_fname. exact Hs.
  - apply Forall_forall. exact Hc.
  - apply Nat.leb_le. exact Hn.
Qed.

(* ------------------------------------------------------------------ *)
(* the level-by-level specification of apply_to *)

Definition param_entry n tns := entry_apply (Lparam n tns).
Definition field_entry n tns := entry_apply (Lfield n tns).
Definition meth_entry n tns := entry_apply (Lmeth n tns).
Definition class_entry n tns := entry_apply (Lclass n tns).


Lemma apply_param_spec d p :
  match apply_param d p with
  | Ok p' => p_index p' = p_index p /\ p_names p' = p_names p /\ doc_apply (pd_doc d) (p_doc p) = Ok (p_doc p')
  | Err => doc_apply (pd_doc d) (p_doc p) = Err
  end.
Proof. unfold apply_param. destruct (doc_apply (pd_doc d) (p_doc p)); cbn [bind]; auto. Qed.

Lemma apply_field_spec d f :
  match apply_field d f with
  | Ok f' => f_desc f' = f_desc f /\ f_names f' = f_names f /\ doc_apply (fd_doc d) (f_doc f) = Ok (f_doc f')
  | Err => doc_apply (fd_doc d) (f_doc f) = Err
  end.
Proof. unfold apply_field. destruct (doc_apply (fd_doc d) (f_doc f)); cbn [bind]; auto. Qed.

Theorem apply_meth_spec n tns d m :
  wf_mdiff d = true -> NoDup (map pkey (m_params m)) ->
  match apply_meth n tns d m with
  | Ok m' => m_desc m' = m_desc m /\ m_names m' = m_names m
             /\ doc_apply (md_doc d) (m_doc m) = Ok (m_doc m')
             /\ NoDup (map pkey (m_params m'))
             /\ forall k, param_entry n tns k (pdfind k (md_params d)) (pfind k (m_params m)) = Ok (pfind k (m_params m'))
  | Err => doc_apply (md_doc d) (m_doc m) = Err
           \/ exists k, In k (map pd_index (md_params d))
                        /\ param_entry n tns k (pdfind k (md_params d)) (pfind k (m_params m)) = Err
  end.
Proof.
  intros Hd Hm. apply (nodupb_NoDup _ N_eqb_ok) in Hd.
  unfold apply_meth. destruct (doc_apply (md_doc d) (m_doc m)) as [doc|]; cbn [bind]; [|left; reflexivity].
  pose proof (apply_map_spec (Lparam n tns) (Lparam_ok n tns) (md_params d) (m_params m) Hd Hm) as H.
  change (apply_map_L (Lparam n tns)) with (apply_params n tns) in H.
  destruct (apply_params n tns (md_params d) (m_params m)) as [ps|]; cbn [bind].
  - destruct H as [H1 H2]. cbn. repeat split; auto.
  - right. exact H.
Qed.

Theorem apply_class_spec n tns d c :
  n <> O -> wf_cdiff d = true ->
  NoDup (map fkey (c_fields c)) -> NoDup (map mkey (c_methods c)) ->
  match apply_class n tns d c with
  | Ok c' => c_names c' = c_names c
             /\ doc_apply (cd_doc d) (c_doc c) = Ok (c_doc c')
             /\ NoDup (map fkey (c_fields c')) /\ NoDup (map mkey (c_methods c'))
             /\ (forall k, field_entry n tns k (fdfind k (cd_fields d)) (ffind k (c_fields c)) = Ok (ffind k (c_fields c')))
             /\ (forall k, meth_entry n tns k (mdfind k (cd_methods d)) (mfind k (c_methods c)) = Ok (mfind k (c_methods c')))
  | Err => doc_apply (cd_doc d) (c_doc c) = Err
           \/ (exists k, In k (map fdkey (cd_fields d))
                         /\ field_entry n tns k (fdfind k (cd_fields d)) (ffind k (c_fields c)) = Err)
           \/ (exists k, In k (map mdkey (cd_methods d))
                         /\ meth_entry n tns k (mdfind k (cd_methods d)) (mfind k (c_methods c)) = Err)
  end.
Proof.
  intros Hn Hd Hf Hm. unfold wf_cdiff in Hd. rewrite !andb_true_iff in Hd. destruct Hd as ((Hdf & Hdm) & _).
  apply (nodupb_NoDup _ key2_eqb_ok) in Hdf, Hdm.
  unfold apply_class. destruct (doc_apply (cd_doc d) (c_doc c)) as [doc|]; cbn [bind]; [|left; reflexivity].
  pose proof (apply_map_spec (Lfield n tns) (Lfield_ok n tns Hn) (cd_fields d) (c_fields c) Hdf Hf) as H1.
  change (apply_map_L (Lfield n tns)) with (apply_fields n tns) in H1.
  destruct (apply_fields n tns (cd_fields d) (c_fields c)) as [fs|]; cbn [bind]; [|right; left; exact H1].
  pose proof (apply_map_spec (Lmeth n tns) (Lmeth_ok n tns Hn) (cd_methods d) (c_methods c) Hdm Hm) as H2.
  change (apply_map_L (Lmeth n tns)) with (apply_meths n tns) in H2.
  destruct (apply_meths n tns (cd_methods d) (c_methods c)) as [ms|]; cbn [bind]; [|right; right; exact H2].
  destruct H1 as [H1a H1b], H2 as [H2a H2b]. cbn. repeat split; auto.
Qed.

(* Theorem 1 (apply_spec), mappings level.  [apply_at tns] is apply_to after the namespace lookup. *)
Theorem apply_at_spec tns d t :
  ms_ns t <> [] -> wf_diff d = true -> NoDup (map ckey (ms_classes t)) ->
  match apply_at tns d t with
  | Ok r => apply_ns tns (d_info d) (ms_ns t) = Ok (ms_ns r)
            /\ doc_apply (d_doc d) (ms_doc t) = Ok (ms_doc r)
            /\ NoDup (map ckey (ms_classes r))
            /\ forall k, class_entry (length (ms_ns t)) tns k (cdfind k (d_classes d)) (cfind k (ms_classes t))
                         = Ok (cfind k (ms_classes r))
  | Err => apply_ns tns (d_info d) (ms_ns t) = Err
           \/ doc_apply (d_doc d) (ms_doc t) = Err
           \/ exists k, In k (map cd_name (d_classes d))
                        /\ class_entry (length (ms_ns t)) tns k (cdfind k (d_classes d)) (cfind k (ms_classes t)) = Err
  end.
Proof.
  intros Hns Hd Hc. unfold wf_diff in Hd. rewrite andb_true_iff in Hd. destruct Hd as [Hdc _].
  apply (nodupb_NoDup _ str_eqb_ok) in Hdc.
  assert (Hn : length (ms_ns t) <> O) by (destruct (ms_ns t); [contradiction|discriminate]).
  unfold apply_at. cbv zeta.
  destruct (apply_ns tns (d_info d) (ms_ns t)) as [ns'|]; cbn [bind]; [|left; reflexivity].
  destruct (doc_apply (d_doc d) (ms_doc t)) as [doc|]; cbn [bind]; [|right; left; reflexivity].
  pose proof (apply_map_spec (Lclass (length (ms_ns t)) tns) (Lclass_ok _ tns Hn) (d_classes d) (ms_classes t) Hdc Hc) as H.
  change (apply_map_L (Lclass (length (ms_ns t)) tns)) with (apply_classes (length (ms_ns t)) tns) in H.
  destruct (apply_classes (length (ms_ns t)) tns (d_classes d) (ms_classes t)) as [cs|]; cbn [bind].
  - destruct H as [H1 H2]. cbn. repeat split; auto.
  - right. right. exact H.
Qed.

(* untouched entries: a key the diff does not mention keeps its whole node *)
Corollary apply_untouched_class tns d t r k :
  ms_ns t <> [] -> wf_diff d = true -> NoDup (map ckey (ms_classes t)) ->
  apply_at tns d t = Ok r -> cdfind k (d_classes d) = None ->
  cfind k (ms_classes r) = cfind k (ms_classes t).
Proof.
  intros Hns Hd Hc Hr Hk. pose proof (apply_at_spec tns d t Hns Hd Hc) as H. rewrite Hr in H.
  destruct H as (_ & _ & _ & H). specialize (H k). rewrite Hk in H. cbn in H. congruence.
Qed.

Corollary apply_untouched_member n tns d c c' :
  n <> O -> wf_cdiff d = true ->
  NoDup (map fkey (c_fields c)) -> NoDup (map mkey (c_methods c)) ->
  apply_class n tns d c = Ok c' ->
  (forall k, fdfind k (cd_fields d) = None -> ffind k (c_fields c') = ffind k (c_fields c))
  /\ (forall k, mdfind k (cd_methods d) = None -> mfind k (c_methods c') = mfind k (c_methods c)).
Proof.
  intros Hn Hd Hf Hm Hr. pose proof (apply_class_spec n tns d c Hn Hd Hf Hm) as H. rewrite Hr in H.
  destruct H as (_ & _ & _ & _ & H1 & H2). split; intros k Hk.
  - specialize (H1 k). rewrite Hk in H1. cbn in H1. congruence.
  - specialize (H2 k). rewrite Hk in H2. cbn in H2. congruence.
Qed.

Corollary apply_untouched_param n tns d m m' :
  wf_mdiff d = true -> NoDup (map pkey (m_params m)) ->
  apply_meth n tns d m = Ok m' ->
  forall k, pdfind k (md_params d) = None -> pfind k (m_params m') = pfind k (m_params m).
Proof.
  intros Hd Hm Hr k Hk. pose proof (apply_meth_spec n tns d m Hd Hm) as H. rewrite Hr in H.
  destruct H as (_ & _ & _ & _ & H). specialize (H k). rewrite Hk in H. cbn in H. congruence.
Qed.

(* refusal: Err exactly when the table refuses some key (never a partial result: the functions
   are pure, the only outcomes are Ok of the specified tree or Err) *)
Corollary apply_at_err_iff tns d t :
  ms_ns t <> [] -> wf_diff d = true -> NoDup (map ckey (ms_classes t)) ->
  apply_at tns d t = Err <->
    apply_ns tns (d_info d) (ms_ns t) = Err
    \/ doc_apply (d_doc d) (ms_doc t) = Err
    \/ exists k, class_entry (length (ms_ns t)) tns k (cdfind k (d_classes d)) (cfind k (ms_classes t)) = Err.
Proof.
  intros Hns Hd Hc. pose proof (apply_at_spec tns d t Hns Hd Hc) as H.
  destruct (apply_at tns d t) as [r|].
  - split; [discriminate|]. destruct H as (H1 & H2 & _ & H3).
    intros [E|[E|(k & E)]]; [congruence|congruence|]. rewrite H3 in E. discriminate.
  - split; [|reflexivity]. intros _. destruct H as [H|[H|(k & _ & H)]]; eauto.
Qed.

(* the table of one key, unfolded: when is an entry accepted and what comes out *)
Lemma entry_apply_ok_iff {K D T} (L : level K D T) k od ot o :
  entry_apply L k od ot = Ok o <->
    (od = None /\ o = ot)
    \/ (exists d t t', od = Some d /\ ot = Some t /\ l_info L d = ANone /\ l_child L d t = Ok t' /\ o = Some t')
    \/ (exists d t b t1 t', od = Some d /\ ot = Some t /\ l_info L d = AAdd b
                            /\ l_chg L t None (Some b) = Ok t1 /\ l_child L d t1 = Ok t' /\ o = Some t')
    \/ (exists d t a t1, od = Some d /\ ot = Some t /\ l_info L d = ARem a
                         /\ l_chg L t (Some a) None = Ok t1 /\ o = None)
    \/ (exists d t a b t1 t', od = Some d /\ ot = Some t /\ l_info L d = AEdit a b
                              /\ l_chg L t (Some a) (Some b) = Ok t1 /\ l_child L d t1 = Ok t' /\ o = Some t')
    \/ (exists d b t0 t', od = Some d /\ ot = None /\ l_info L d = AAdd b
                          /\ l_mk L k b = Ok t0 /\ l_child L d t0 = Ok t' /\ o = Some t').
Proof.
  split.
  - destruct od as [d|]; [|intros [= <-]; left; auto].
    destruct ot as [t|]; cbn [entry_apply]; destruct (l_info L d) as [|b|a|a b] eqn:Ei; try discriminate.
    + intros H. apply bind_ok in H. destruct H as (t' & Hc & [= <-]).
      right; left. exists d, t, t'. auto.
    + intros H. apply bind_ok in H. destruct H as (t1 & Hg & H). apply bind_ok in H. destruct H as (t' & Hc & [= <-]).
      right; right; left. exists d, t, b, t1, t'. repeat split; auto.
    + intros H. apply bind_ok in H. destruct H as (t1 & Hg & [= <-]).
      right; right; right; left. exists d, t, a, t1. repeat split; auto.
    + intros H. apply bind_ok in H. destruct H as (t1 & Hg & H). apply bind_ok in H. destruct H as (t' & Hc & [= <-]).
      right; right; right; right; left. exists d, t, a, b, t1, t'. repeat split; auto.
    + intros H. apply bind_ok in H. destruct H as (t0 & Hm & H). apply bind_ok in H. destruct H as (t' & Hc & [= <-]).
      right; right; right; right; right. exists d, b, t0, t'. repeat split; auto.
  - intros [(-> & ->)|[(d & t & t' & -> & -> & Hi & Hc & ->)|[(d & t & b & t1 & t' & -> & -> & Hi & Hg & Hc & ->)|
            [(d & t & a & t1 & -> & -> & Hi & Hg & ->)|[(d & t & a & b & t1 & t' & -> & -> & Hi & Hg & Hc & ->)|
            (d & b & t0 & t' & -> & -> & Hi & Hg & Hc & ->)]]]]]; cbn [entry_apply]; try rewrite Hi; try rewrite Hg; cbn [bind];
      try rewrite Hc; reflexivity.
Qed.
