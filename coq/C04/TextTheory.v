(* C04 theory, part 3: the .tinydiff text form.  read (print d) = Ok (norm d) for every textual
   diff d, in four layers: lines, cells, indentation forest, interpretation. *)
From FB Require Export C04.Text C04.Theory2.
From Coq Require Import DecimalN Permutation Arith PeanoNat.

(* ------------------------------------------------------------------ *)
(* strings *)


Lemma clean_not_in s c : clean s = true -> (c = cTAB \/ c = cLF \/ c = cCR) -> ~ In c s.
Proof.
  unfold clean. rewrite forallb_forall. intros H Hc Hin. specialize (H c Hin).
  unfold clean_char in H. apply negb_true_iff in H. rewrite !orb_false_iff in H. destruct H as ((H1 & H2) & H3).
  destruct Hc as [-> | [-> | ->]]; [rewrite N.eqb_refl in H1|rewrite N.eqb_refl in H2|rewrite N.eqb_refl in H3]; discriminate.
Qed.

Lemma unescape_escape s : unescape (escape s) = s.
Proof.
  induction s as [|c s IH]; [reflexivity|].
  cbn [escape]. unfold esc_char.
  destruct (N.eqb_spec c cBSLASH) as [->|H1]; [cbn; rewrite IH; reflexivity|].
  destruct (N.eqb_spec c cLF) as [->|H2]; [cbn; rewrite IH; reflexivity|].
  destruct (N.eqb_spec c cCR) as [->|H3]; [cbn; rewrite IH; reflexivity|].
  destruct (N.eqb_spec c cTAB) as [->|H4]; [cbn; rewrite IH; reflexivity|].
  cbn [unescape]. destruct (N.eqb_spec c cBSLASH) as [E|_]; [contradiction|]. rewrite IH. reflexivity.
Qed.

Lemma escape_inj a b : escape a = escape b -> a = b.
Proof. intros H. rewrite <- (unescape_escape a), <- (unescape_escape b), H. reflexivity. Qed.

Lemma escape_nil s : escape s = [] <-> s = [].
Proof.
  split; [|intros ->; reflexivity]. destruct s as [|c s]; [reflexivity|].
  cbn [escape]. destruct (esc_char c); discriminate.
Qed.

Lemma escape_clean s : clean (escape s) = true.
Proof.
  induction s as [|c s IH]; [reflexivity|].
  cbn [escape]. unfold esc_char.
  destruct (N.eqb_spec c cBSLASH) as [->|H1]; [cbn; exact IH|].
  destruct (N.eqb_spec c cLF) as [->|H2]; [cbn; exact IH|].
  destruct (N.eqb_spec c cCR) as [->|H3]; [cbn; exact IH|].
  destruct (N.eqb_spec c cTAB) as [->|H4]; [cbn; exact IH|].
  cbn [clean forallb]. fold (clean (escape s)). rewrite IH, andb_true_r.
  unfold clean_char. apply negb_true_iff. rewrite !orb_false_iff. repeat split; apply N.eqb_neq; assumption.
Qed.

(* decimal indices *)
Lemma uint_digits_roundtrip u : uint_of_digits (digits_of_uint u) = Some u.
Proof. induction u; cbn [digits_of_uint uint_of_digits]; try rewrite IHu; reflexivity. Qed.

Lemma digits_head u : match digits_of_uint u with [] => u = Decimal.Nil | c :: _ => c <> 43 end.
Proof. destruct u; cbn; try reflexivity; discriminate. Qed.

Lemma to_uint_not_nil n : N.to_uint n <> Decimal.Nil.
Proof.
  intros E. pose proof (DecimalN.Unsigned.of_to n) as H. rewrite E in H. cbn in H. subst n. discriminate.
Qed.

Lemma plus_strip (s : str) :
  match s with c :: _ => c <> 43 | [] => True end -> (match s with 43 :: r => r | _ => s end) = s.
Proof.
  destruct s as [|c r]; [reflexivity|]. intros Hc. destruct c as [|p]; [reflexivity|].
  do 6 (destruct p as [p|p|]; try reflexivity). contradiction.
Qed.

Lemma parse_print_N n : N.leb n usize_max = true -> parse_usize (print_N n) = Ok n.
Proof.
  intros Hn. unfold parse_usize.
  assert (Hh : match print_N n with c :: _ => c <> 43 | [] => True end).
  { unfold print_N. pose proof (digits_head (N.to_uint n)) as Hh. destruct (digits_of_uint (N.to_uint n)); [exact I|exact Hh]. }
  rewrite (plus_strip _ Hh). unfold print_N.
  pose proof (digits_head (N.to_uint n)) as Hd. pose proof (to_uint_not_nil n) as Hnn.
  destruct (digits_of_uint (N.to_uint n)) as [|c r] eqn:E; [contradiction|].
  cbn [is_nil]. rewrite <- E, uint_digits_roundtrip, DecimalN.Unsigned.of_to, Hn. reflexivity.
Qed.

Lemma print_N_clean n : clean (print_N n) = true.
Proof.
  unfold print_N. induction (N.to_uint n); cbn [digits_of_uint]; try reflexivity; cbn [clean forallb]; exact IHu.
Qed.

(* ------------------------------------------------------------------ *)
(* layer 1 and 2: lines and cells *)

Lemma split_on_app c l rest : ~ In c l -> split_on c (l ++ c :: rest) = l :: split_on c rest.
Proof.
  induction l as [|x l IH]; intros Hn; cbn [app split_on].
  - rewrite N.eqb_refl. reflexivity.
  - destruct (N.eqb_spec x c) as [->|Hne]; [exfalso; apply Hn; left; reflexivity|].
    rewrite IH by (intros H; apply Hn; right; exact H). reflexivity.
Qed.

Lemma split_on_none c l : ~ In c l -> split_on c l = [l].
Proof.
  induction l as [|x l IH]; intros Hn; cbn [split_on]; [reflexivity|].
  destruct (N.eqb_spec x c) as [->|Hne]; [exfalso; apply Hn; left; reflexivity|].
  rewrite IH by (intros H; apply Hn; right; exact H). reflexivity.
Qed.

Lemma in_join_tab x cells : In x (join_tab cells) -> x = cTAB \/ exists c, In c cells /\ In x c.
Proof.
  induction cells as [|c cs IH]; cbn [join_tab]; [intros []|].
  destruct cs as [|c2 cs].
  - intros H. right. exists c. split; [left; reflexivity|exact H].
  - intros H. apply in_app_or in H. destruct H as [H|[H|H]].
    + right. exists c. split; [left; reflexivity|exact H].
    + left. symmetry. exact H.
    + destruct (IH H) as [E|(c' & Hc' & Hx)]; [left; exact E|]. right. exists c'. split; [right; exact Hc'|exact Hx].
Qed.

Lemma split_join_tab cells :
  cells <> [] -> Forall (fun c => clean c = true) cells -> split_on cTAB (join_tab cells) = cells.
Proof.
  induction cells as [|c cs IH]; [contradiction|]. intros _ Hc.
  inversion Hc as [|? ? Hc1 Hc2]; subst. destruct cs as [|c2 cs].
  - cbn [join_tab]. apply split_on_none. apply clean_not_in; auto.
  - change (join_tab (c :: c2 :: cs)) with (c ++ cTAB :: join_tab (c2 :: cs)).
    rewrite split_on_app by (apply clean_not_in; auto). rewrite IH; [reflexivity|discriminate|exact Hc2].
Qed.

Lemma strip_tabs_repeat n s :
  match s with c :: _ => c <> cTAB | [] => True end -> strip_tabs (repeat cTAB n ++ s) = (n, s).
Proof.
  intros Hs. induction n as [|n IH]; cbn [repeat app strip_tabs].
  - destruct s as [|c s]; [reflexivity|]. cbn [strip_tabs]. destruct (N.eqb_spec c cTAB); [contradiction|reflexivity].
  - rewrite N.eqb_refl, IH. reflexivity.
Qed.

(* a line of the printer: indent and cells *)
Definition pl := (nat * list str)%type.
Definition content (l : pl) : str := repeat cTAB (fst l) ++ join_tab (snd l).
Definition render (ls : list pl) : text := concat (map (fun l => pline (fst l) (snd l)) ls).
Definition tl_of (l : pl) : tline := mkLine (fst l) (hd [] (snd l)) (tl (snd l)).
Definition clean_line (l : pl) : Prop :=
  Forall (fun c => clean c = true) (snd l) /\ match snd l with (_ :: _) :: _ => True | _ => False end.

Lemma join_tab_head (f : str) (fs : list str) : f <> [] -> exists x r, join_tab (f :: fs) = x :: r /\ In x f.
Proof.
  intros Hf. destruct f as [|x f]; [contradiction|]. destruct fs; cbn [join_tab app]; eexists; eexists; split; try reflexivity; left; reflexivity.
Qed.

Lemma tiny_line_content l : clean_line l -> tiny_line (content l) = tl_of l.
Proof.
  destruct l as [n cells]. unfold clean_line, content, tl_of. cbn [fst snd]. intros [Hc Hf].
  destruct cells as [|f fs]; [contradiction|].
  assert (Hf' : f <> []) by (destruct f; [contradiction|discriminate]).
  destruct (join_tab_head f fs Hf') as (y & r & E & Hy).
  assert (Hs : match join_tab (f :: fs) with c :: _ => c <> cTAB | [] => True end).
  { rewrite E. inversion Hc as [|? ? Hc1 _]; subst. intros ->. revert Hy. apply clean_not_in; auto. }
  unfold tiny_line. rewrite (strip_tabs_repeat n _ Hs).
  rewrite split_join_tab; [reflexivity|discriminate|exact Hc].
Qed.

Lemma content_clean l c : clean_line l -> (c = cLF \/ c = cCR) -> ~ In c (content l).
Proof.
  intros [Hc _] Hcc Hin. unfold content in Hin. apply in_app_or in Hin. destruct Hin as [Hin|Hin].
  - apply repeat_spec in Hin. destruct Hcc as [-> | ->]; discriminate.
  - apply in_join_tab in Hin. destruct Hin as [E|(c' & Hc' & Hx)]; [destruct Hcc as [-> | ->]; discriminate|].
    rewrite Forall_forall in Hc. revert Hx. apply clean_not_in; [apply Hc; exact Hc'|tauto].
Qed.

Lemma strip_cr_clean s : ~ In cCR s -> strip_cr s = s.
Proof.
  intros Hn. unfold strip_cr. destruct (rev s) as [|c r] eqn:E; [reflexivity|].
  destruct (N.eqb_spec c cCR) as [->|Hne]; [|reflexivity].
  exfalso. apply Hn. apply in_rev. rewrite E. left. reflexivity.
Qed.

Lemma split_render ls :
  Forall clean_line ls -> split_on cLF (render ls) = map content ls ++ [[]].
Proof.
  induction ls as [|l ls IH]; intros Hc; [reflexivity|].
  inversion Hc as [|? ? Hc1 Hc2]; subst. unfold render. cbn [map concat]. fold (render ls).
  unfold pline. rewrite <- !List.app_assoc. cbn [app].
  change (repeat cTAB (fst l) ++ join_tab (snd l) ++ cLF :: render ls) with (repeat cTAB (fst l) ++ (join_tab (snd l) ++ cLF :: render ls)).
  rewrite List.app_assoc. fold (content l).
  rewrite split_on_app by (apply content_clean; auto). rewrite IH by exact Hc2. reflexivity.
Qed.

Lemma lines_of_parts_clean (ps : list str) :
  Forall (fun p => ~ In cCR p) ps -> lines_of_parts (ps ++ [[]]) = ps.
Proof.
  induction ps as [|p ps IH]; intros Hc; [reflexivity|].
  inversion Hc as [|? ? Hc1 Hc2]; subst. change ((p :: ps) ++ [[]]) with (p :: (ps ++ [[]])).
  specialize (IH Hc2).
  destruct (ps ++ [[]]) as [|q qs] eqn:E; [destruct ps; discriminate|].
  change (lines_of_parts (p :: q :: qs)) with (strip_cr p :: lines_of_parts (q :: qs)).
  rewrite IH. rewrite strip_cr_clean by exact Hc1. reflexivity.
Qed.

Theorem lines_of_render ls :
  Forall clean_line ls -> map tiny_line (split_lines (render ls)) = map tl_of ls.
Proof.
  intros Hc. unfold split_lines. rewrite split_render by exact Hc.
  rewrite lines_of_parts_clean.
  - rewrite map_map. apply map_ext_in. intros l Hl. apply tiny_line_content.
    rewrite Forall_forall in Hc. apply Hc. exact Hl.
  - apply Forall_forall. intros p Hp. apply in_map_iff in Hp. destruct Hp as (l & <- & Hl).
    apply content_clean; [|right; reflexivity]. rewrite Forall_forall in Hc. apply Hc. exact Hl.
Qed.

(* ------------------------------------------------------------------ *)
(* the printed lines of a diff *)

Definition doc_pl (i : nat) (a : action str) : list pl :=
  match a with ANone => [] | _ => [(i, s_c :: map escape (action_cells a))] end.
Definition param_pl (p : pdiff) : list pl :=
  (2%nat, s_p :: print_N (pd_index p) :: [] :: action_cells (pd_info p)) :: doc_pl 3 (pd_doc p).
Definition field_pl (f : fdiff) : list pl :=
  (1%nat, s_f :: fd_desc f :: fd_name f :: action_cells (fd_info f)) :: doc_pl 2 (fd_doc f).
Definition meth_pl (m : mdiff) : list pl :=
  (1%nat, s_m :: md_desc m :: md_name m :: action_cells (md_info m)) :: doc_pl 2 (md_doc m)
  ++ concat (map param_pl (md_params m)).
Definition class_pl (c : cdiff) : list pl :=
  (0%nat, s_c :: cd_name c :: action_cells (cd_info c)) :: doc_pl 1 (cd_doc c)
  ++ concat (map field_pl (cd_fields c)) ++ concat (map meth_pl (cd_methods c)).
Definition diff_pl (d : mdiffs) : list pl :=
  (0%nat, [s_tiny; s_2; s_0]) :: concat (map class_pl (d_classes d)).

Lemma render_app a b : render (a ++ b) = render a ++ render b.
Proof. unfold render. rewrite map_app, concat_app. reflexivity. Qed.

Lemma render_cons l ls : render (l :: ls) = pline (fst l) (snd l) ++ render ls.
Proof. reflexivity. Qed.

Lemma render_concat {X} (f : X -> list pl) (g : X -> text) xs :
  (forall x, g x = render (f x)) -> concat (map g xs) = render (concat (map f xs)).
Proof.
  intros H. induction xs as [|x xs IH]; [reflexivity|].
  cbn [map concat]. rewrite render_app, IH, H. reflexivity.
Qed.

Lemma doc_lines_render i a : doc_lines i a = render (doc_pl i a).
Proof. destruct a; cbn [doc_lines doc_pl]; unfold render; cbn [map concat fst snd]; try reflexivity; symmetry; apply List.app_nil_r. Qed.

Lemma print_param_render p : print_param p = render (param_pl p).
Proof. unfold print_param, param_pl. rewrite render_cons, doc_lines_render. reflexivity. Qed.
Lemma print_field_render f : print_field f = render (field_pl f).
Proof. unfold print_field, field_pl. rewrite render_cons, doc_lines_render. reflexivity. Qed.
Lemma print_meth_render m : print_meth m = render (meth_pl m).
Proof.
  unfold print_meth, meth_pl. rewrite render_cons, render_app, doc_lines_render.
  rewrite (render_concat param_pl print_param _ print_param_render). reflexivity.
Qed.
Lemma print_class_render c : print_class c = render (class_pl c).
Proof.
  unfold print_class, class_pl. rewrite render_cons, !render_app, doc_lines_render.
  rewrite (render_concat field_pl print_field _ print_field_render).
  rewrite (render_concat meth_pl print_meth _ print_meth_render). reflexivity.
Qed.
Lemma print_render d : print d = render (diff_pl d).
Proof.
  unfold print, diff_pl. rewrite render_cons.
  rewrite (render_concat class_pl print_class _ print_class_render). reflexivity.
Qed.

(* ------------------------------------------------------------------ *)
(* layer 3: the indentation forest of the printed lines *)

Definition leaf (l : pl) : tree := Node (tl_of l) [].
Definition doc_trees (i : nat) (a : action str) : list tree := map leaf (doc_pl i a).
Definition param_tree (p : pdiff) : tree :=
  Node (tl_of (2%nat, s_p :: print_N (pd_index p) :: [] :: action_cells (pd_info p))) (doc_trees 3 (pd_doc p)).
Definition field_tree (f : fdiff) : tree :=
  Node (tl_of (1%nat, s_f :: fd_desc f :: fd_name f :: action_cells (fd_info f))) (doc_trees 2 (fd_doc f)).
Definition meth_tree (m : mdiff) : tree :=
  Node (tl_of (1%nat, s_m :: md_desc m :: md_name m :: action_cells (md_info m)))
       (doc_trees 2 (md_doc m) ++ map param_tree (md_params m)).
Definition class_tree (c : cdiff) : tree :=
  Node (tl_of (0%nat, s_c :: cd_name c :: action_cells (cd_info c)))
       (doc_trees 1 (cd_doc c) ++ map field_tree (cd_fields c) ++ map meth_tree (cd_methods c)).

Definition head_le (i : nat) (F : list tree) : Prop :=
  match F with [] => True | t :: _ => (root_indent t <= i)%nat end.

Lemma head_le_mono i j F : (i <= j)%nat -> head_le i F -> head_le j F.
Proof. destruct F; cbn; [auto|]. intros. lia. Qed.

Lemma span_deeper_split i C F :
  Forall (fun t => (i < root_indent t)%nat) C -> head_le i F -> span_deeper i (C ++ F) = (C, F).
Proof.
  intros HC HF. induction C as [|t C IH]; cbn [app span_deeper].
  - destruct F as [|t F]; [reflexivity|]. cbn [span_deeper]. cbn in HF.
    destruct (Nat.ltb_spec i (root_indent t)); [lia|reflexivity].
  - inversion HC as [|? ? Ht HC']; subst. destruct (Nat.ltb_spec i (root_indent t)); [|lia].
    rewrite (IH HC'). reflexivity.
Qed.

Lemma attach_children l C F :
  Forall (fun t => (tl_indent l < root_indent t)%nat) C -> head_le (tl_indent l) F ->
  attach l (C ++ F) = Node l C :: F.
Proof. intros HC HF. unfold attach. rewrite (span_deeper_split _ C F HC HF). reflexivity. Qed.

Lemma build_cons l ls : build (l :: ls) = attach l (build ls).
Proof. reflexivity. Qed.

Lemma build_doc i a rest :
  head_le i (build rest) -> build (map tl_of (doc_pl i a) ++ rest) = doc_trees i a ++ build rest.
Proof.
  intros H. unfold doc_trees. destruct a; cbn [doc_pl map app]; try reflexivity;
    rewrite build_cons; apply (attach_children _ [] _ (Forall_nil _)); exact H.
Qed.

Lemma doc_trees_deep i j a : (j < i)%nat -> Forall (fun t => (j < root_indent t)%nat) (doc_trees i a).
Proof. intros H. unfold doc_trees. destruct a; cbn [doc_pl map]; constructor; cbn; auto. Qed.

Lemma head_le_app_same i (T : list tree) F :
  Forall (fun t => root_indent t = i) T -> head_le i F -> head_le i (T ++ F).
Proof. intros HT HF. destruct T as [|t T]; [exact HF|]. inversion HT; subst. cbn. lia. Qed.

Lemma build_params ps rest :
  head_le 2 (build rest) ->
  build (map tl_of (concat (map param_pl ps)) ++ rest) = map param_tree ps ++ build rest.
Proof.
  intros H. induction ps as [|p ps IH]; [reflexivity|].
  cbn [map concat]. rewrite map_app, <- app_assoc. unfold param_pl at 1. cbn [map app].
  rewrite build_cons. rewrite build_doc.
  - rewrite IH. rewrite attach_children; [reflexivity| |].
    + apply doc_trees_deep. cbn. lia.
    + cbn [tl_of fst tl_indent]. apply head_le_app_same; [|exact H].
      apply Forall_forall. intros t Ht. apply in_map_iff in Ht. destruct Ht as (q & <- & _). reflexivity.
  - rewrite IH. apply (head_le_mono 2); [lia|]. apply head_le_app_same; [|exact H].
    apply Forall_forall. intros t Ht. apply in_map_iff in Ht. destruct Ht as (q & <- & _). reflexivity.
Qed.

Lemma build_fields fs rest :
  head_le 1 (build rest) ->
  build (map tl_of (concat (map field_pl fs)) ++ rest) = map field_tree fs ++ build rest.
Proof.
  intros H. induction fs as [|f fs IH]; [reflexivity|].
  cbn [map concat]. rewrite map_app, <- app_assoc. unfold field_pl at 1. cbn [map app].
  rewrite build_cons. rewrite build_doc.
  - rewrite IH. rewrite attach_children; [reflexivity| |].
    + apply doc_trees_deep. cbn. lia.
    + cbn [tl_of fst tl_indent]. apply head_le_app_same; [|exact H].
      apply Forall_forall. intros t Ht. apply in_map_iff in Ht. destruct Ht as (q & <- & _). reflexivity.
  - rewrite IH. apply (head_le_mono 1); [lia|]. apply head_le_app_same; [|exact H].
    apply Forall_forall. intros t Ht. apply in_map_iff in Ht. destruct Ht as (q & <- & _). reflexivity.
Qed.

Lemma build_meths ms rest :
  head_le 1 (build rest) ->
  build (map tl_of (concat (map meth_pl ms)) ++ rest) = map meth_tree ms ++ build rest.
Proof.
  intros H. induction ms as [|m ms IH]; [reflexivity|].
  cbn [map concat]. rewrite map_app, <- app_assoc. unfold meth_pl at 1. cbn [map app].
  rewrite build_cons. rewrite map_app, <- app_assoc.
  assert (Hrest : head_le 1 (build (map tl_of (concat (map meth_pl ms)) ++ rest))).
  { rewrite IH. apply head_le_app_same; [|exact H].
    apply Forall_forall. intros t Ht. apply in_map_iff in Ht. destruct Ht as (q & <- & _). reflexivity. }
  assert (Hp : build (map tl_of (concat (map param_pl (md_params m))) ++ map tl_of (concat (map meth_pl ms)) ++ rest)
               = map param_tree (md_params m) ++ build (map tl_of (concat (map meth_pl ms)) ++ rest)).
  { apply build_params. apply (head_le_mono 1); [lia|exact Hrest]. }
  rewrite build_doc.
  - rewrite Hp. rewrite List.app_assoc. rewrite attach_children.
    + rewrite IH. reflexivity.
    + apply Forall_app. split; [apply doc_trees_deep; cbn; lia|].
      apply Forall_forall. intros t Ht. apply in_map_iff in Ht. destruct Ht as (q & <- & _). cbn. lia.
    + exact Hrest.
  - rewrite Hp. apply head_le_app_same.
    + apply Forall_forall. intros t Ht. apply in_map_iff in Ht. destruct Ht as (q & <- & _). reflexivity.
    + apply (head_le_mono 1); [lia|exact Hrest].
Qed.

Lemma build_classes cs :
  build (map tl_of (concat (map class_pl cs))) = map class_tree cs.
Proof.
  induction cs as [|c cs IH]; [reflexivity|].
  cbn [map concat]. rewrite map_app. unfold class_pl at 1. cbn [map app].
  rewrite build_cons. rewrite !map_app, <- !app_assoc.
  set (rest := map tl_of (concat (map class_pl cs))) in *.
  assert (Hrest : head_le 0 (build rest)).
  { rewrite IH. destruct cs; cbn; auto. }
  assert (Hm : build (map tl_of (concat (map meth_pl (cd_methods c))) ++ rest)
               = map meth_tree (cd_methods c) ++ build rest).
  { apply build_meths. apply (head_le_mono 0); [lia|exact Hrest]. }
  assert (Hmh : head_le 1 (build (map tl_of (concat (map meth_pl (cd_methods c))) ++ rest))).
  { rewrite Hm. apply head_le_app_same; [|apply (head_le_mono 0); [lia|exact Hrest]].
    apply Forall_forall. intros t Ht. apply in_map_iff in Ht. destruct Ht as (q & <- & _). reflexivity. }
  assert (Hf : build (map tl_of (concat (map field_pl (cd_fields c))) ++ map tl_of (concat (map meth_pl (cd_methods c))) ++ rest)
               = map field_tree (cd_fields c) ++ map meth_tree (cd_methods c) ++ build rest).
  { rewrite build_fields; [rewrite Hm; reflexivity|exact Hmh]. }
  rewrite build_doc.
  - rewrite Hf. rewrite (List.app_assoc (map field_tree (cd_fields c))). rewrite (List.app_assoc (doc_trees 1 (cd_doc c))).
    rewrite attach_children.
    + rewrite IH. reflexivity.
    + apply Forall_app. split; [apply doc_trees_deep; cbn; lia|]. apply Forall_app. split.
      * apply Forall_forall. intros t Ht. apply in_map_iff in Ht. destruct Ht as (q & <- & _). cbn. lia.
      * apply Forall_forall. intros t Ht. apply in_map_iff in Ht. destruct Ht as (q & <- & _). cbn. lia.
    + exact Hrest.
  - rewrite Hf. apply head_le_app_same.
    + apply Forall_forall. intros t Ht. apply in_map_iff in Ht. destruct Ht as (q & <- & _). reflexivity.
    + apply head_le_app_same; [|apply (head_le_mono 0); [lia|exact Hrest]].
      apply Forall_forall. intros t Ht. apply in_map_iff in Ht. destruct Ht as (q & <- & _). reflexivity.
Qed.

(* ------------------------------------------------------------------ *)
(* layer 4: interpretation of the forest *)

(* what a .tinydiff can carry *)

Definition nonempty_valid (valid : str -> bool) : Prop := forall s, valid s = true -> s <> [].

Lemma unq_nonempty : nonempty_valid is_valid_unqualified_name.
Proof. intros s H ->. discriminate. Qed.
Lemma meth_nonempty : nonempty_valid is_valid_method_name.
Proof. intros s H ->. discriminate. Qed.
Lemma class_nonempty : nonempty_valid is_valid_obj_class_name.
Proof. intros s H ->. discriminate. Qed.

Lemma cell_some valid (s : str) : s <> [] -> valid s = true -> cell valid (Some s) = Ok (Some s).
Proof. intros Hs Hv. destruct s; [contradiction|]. cbn [cell]. rewrite Hv. reflexivity. Qed.

Lemma decode_action_cells valid a :
  nonempty_valid valid -> act_all (okname valid) a = true ->
  decode_action valid (action_cells a) = Ok (norm_action a).
Proof.
  intros Hne Ha. unfold okname in Ha.
  destruct a as [|b|x|x y]; cbn [action_cells act_all] in *.
  - reflexivity.
  - apply andb_true_iff in Ha. destruct Ha as [_ Hv]. pose proof (Hne b Hv) as Hb.
    unfold decode_action. cbn [nth_error]. rewrite (cell_some valid b Hb Hv). cbn [cell bind].
    unfold norm_action. destruct b; [contradiction|reflexivity].
  - apply andb_true_iff in Ha. destruct Ha as [_ Hv]. pose proof (Hne x Hv) as Hx.
    unfold decode_action. cbn [nth_error]. rewrite (cell_some valid x Hx Hv). cbn [cell bind].
    unfold norm_action. destruct x; [contradiction|reflexivity].
  - rewrite !andb_true_iff in Ha. destruct Ha as [[_ Hvx] [_ Hvy]].
    pose proof (Hne x Hvx) as Hx. pose proof (Hne y Hvy) as Hy.
    unfold decode_action. cbn [nth_error]. rewrite (cell_some valid x Hx Hvx), (cell_some valid y Hy Hvy). cbn [bind].
    unfold norm_action. destruct (str_eqb x y); [reflexivity|].
    destruct x; [contradiction|]. destruct y; [contradiction|]. reflexivity.
Qed.

Lemma cell_true (s : str) : cell (fun _ => true) (Some s) = Ok (nonempty s).
Proof. destruct s; reflexivity. Qed.

Lemma nonempty_escape s : nonempty (escape s) = match nonempty s with Some _ => Some (escape s) | None => None end.
Proof. destruct s as [|c s]; [reflexivity|]. cbn [escape]. destruct (esc_char c); reflexivity. Qed.

Lemma str_eqb_escape x y : str_eqb (escape x) (escape y) = str_eqb x y.
Proof.
  destruct (str_eqb_spec x y) as [->|Hne]; [apply str_eqb_refl|].
  apply str_eqb_neq. intros E. apply Hne. apply escape_inj. exact E.
Qed.

Lemma comment_action_cells a : comment_action (map escape (action_cells a)) = Ok (norm_action a).
Proof.
  unfold comment_action. destruct a as [|b|x|x y]; cbn [action_cells map escape].
  - reflexivity.
  - unfold decode_action. cbn [nth_error]. rewrite !cell_true. cbn [nonempty bind].
    rewrite nonempty_escape. unfold norm_action. destruct (nonempty b) eqn:E; cbn [from_tuple map_action bind].
    + rewrite unescape_escape. destruct b; [discriminate|]. injection E as <-. reflexivity.
    + reflexivity.
  - unfold decode_action. cbn [nth_error]. rewrite !cell_true. cbn [cell bind].
    rewrite nonempty_escape. unfold norm_action. destruct (nonempty x) eqn:E; cbn [from_tuple map_action bind].
    + rewrite unescape_escape. destruct x; [discriminate|]. injection E as <-. reflexivity.
    + reflexivity.
  - unfold decode_action. cbn [nth_error]. rewrite !cell_true. cbn [bind].
    rewrite !nonempty_escape. unfold norm_action.
    destruct x as [|cx x], y as [|cy y]; cbn [nonempty from_tuple map_action bind str_eqb].
    + reflexivity.
    + rewrite unescape_escape. reflexivity.
    + rewrite unescape_escape. reflexivity.
    + rewrite str_eqb_escape. destruct (str_eqb (cx :: x) (cy :: y)) eqn:E.
      * cbn [str_eqb] in E. rewrite E. reflexivity.
      * cbn [str_eqb] in E. rewrite E. cbn [map_action]. rewrite !unescape_escape. reflexivity.
Qed.

(* unfolding equations *)
Lemma interp_leaf_eq d l sub ch' :
  interp_leaf d (Node l sub :: ch') =
    if Nat.eqb (tl_indent l) d && is_nil sub then
      if str_eqb (tl_first l) s_c then
        do a <- comment_action (tl_fields l); do r <- interp_leaf d ch'; Ok (a :: r)
      else interp_leaf d ch'
    else Err.
Proof. reflexivity. Qed.

Lemma leaf_doc i a : (do docs <- interp_leaf i (doc_trees i a); one_doc docs) = Ok (norm_action a).
Proof.
  unfold doc_trees. destruct a as [|b|x|x y]; cbn [doc_pl map]; [reflexivity| | |];
    unfold leaf; rewrite interp_leaf_eq; unfold tl_of; cbn [tl_indent tl_first tl_fields fst snd hd tl is_nil];
    rewrite Nat.eqb_refl, str_eqb_refl; cbn [andb]; rewrite comment_action_cells; reflexivity.
Qed.

Definition doc_mitems (a : action str) : list mitem := match a with ANone => [] | _ => [MIDoc (norm_action a)] end.
Definition doc_citems (a : action str) : list citem := match a with ANone => [] | _ => [CIDoc (norm_action a)] end.

Lemma interp_mchildren_eq d l sub ch' :
  interp_mchildren d (Node l sub :: ch') =
      if negb (Nat.eqb (tl_indent l) d) then Err
      else if str_eqb (tl_first l) s_p then
        match tl_fields l with
        | idx :: src :: rest =>
            do i <- parse_usize idx;
            if negb (is_nil src) then Err else
            do a <- decode_action is_valid_unqualified_name rest;
            do docs <- interp_leaf (S d) sub;
            do doc <- one_doc docs;
            do r <- interp_mchildren d ch';
            Ok (MIParam (mkPD i a doc) :: r)
        | _ => Err
        end
      else if negb (is_nil sub) then Err
      else if str_eqb (tl_first l) s_c then
        do a <- comment_action (tl_fields l);
        do r <- interp_mchildren d ch';
        Ok (MIDoc a :: r)
      else interp_mchildren d ch'.
Proof. reflexivity. Qed.

Lemma bind_assoc_doc i a {B} (k : action str -> res B) :
  (do docs <- interp_leaf i (doc_trees i a); do doc <- one_doc docs; k doc) = k (norm_action a).
Proof.
  pose proof (leaf_doc i a) as H. destruct (interp_leaf i (doc_trees i a)) as [docs|]; cbn [bind] in *; [|discriminate].
  rewrite H. reflexivity.
Qed.

Lemma interp_params ps :
  forallb textual_param ps = true ->
  interp_mchildren 2 (map param_tree ps) = Ok (map (fun p => MIParam (norm_param p)) ps).
Proof.
  induction ps as [|p ps IH]; [reflexivity|]. cbn [forallb map]. rewrite andb_true_iff. intros [Hp Hps].
  unfold textual_param in Hp. rewrite andb_true_iff in Hp. destruct Hp as [Hi Ha].
  unfold param_tree at 1. rewrite interp_mchildren_eq. unfold tl_of.
  cbn [tl_indent tl_first tl_fields fst snd hd tl is_nil negb]. rewrite Nat.eqb_refl, str_eqb_refl. cbn [negb].
  rewrite (parse_print_N _ Hi). cbn [bind].
  rewrite (decode_action_cells _ _ unq_nonempty Ha). cbn [bind].
  rewrite (bind_assoc_doc 3). rewrite (IH Hps). reflexivity.
Qed.

Lemma interp_meth_children a ps :
  forallb textual_param ps = true ->
  interp_mchildren 2 (doc_trees 2 a ++ map param_tree ps)
    = Ok (doc_mitems a ++ map (fun p => MIParam (norm_param p)) ps).
Proof.
  intros Hps. unfold doc_trees, doc_mitems.
  destruct a as [|b|x|x y]; cbn [doc_pl map app]; [apply interp_params; exact Hps| | |];
    unfold leaf; rewrite interp_mchildren_eq; unfold tl_of; cbn [tl_indent tl_first tl_fields fst snd hd tl is_nil negb];
    rewrite Nat.eqb_refl; cbn [negb];
    change (str_eqb s_c s_p) with false; cbn iota; rewrite str_eqb_refl;
    rewrite comment_action_cells; cbn [bind]; rewrite (interp_params ps Hps); reflexivity.
Qed.

Lemma mi_params_items a ps :
  mi_params (doc_mitems a ++ map (fun p => MIParam (norm_param p)) ps) = map norm_param ps.
Proof.
  unfold mi_params. rewrite flat_map_app.
  assert (H1 : flat_map (fun i => match i with MIParam p => [p] | MIDoc _ => [] end) (doc_mitems a) = []) by (destruct a; reflexivity).
  rewrite H1. cbn [app]. induction ps as [|p ps IH]; [reflexivity|]. cbn [map flat_map app]. rewrite IH. reflexivity.
Qed.

Lemma mi_docs_items a ps :
  one_doc (mi_docs (doc_mitems a ++ map (fun p => MIParam (norm_param p)) ps)) = Ok (norm_action a).
Proof.
  unfold mi_docs. rewrite flat_map_app.
  assert (H2 : flat_map (fun i => match i with MIDoc a => [a] | MIParam _ => [] end) (map (fun p => MIParam (norm_param p)) ps) = []).
  { induction ps as [|p ps IH]; [reflexivity|]. cbn [map flat_map app]. exact IH. }
  rewrite H2, List.app_nil_r. destruct a; reflexivity.
Qed.

Lemma interp_cchildren_eq d l sub ch' :
  interp_cchildren d (Node l sub :: ch') =
      if negb (Nat.eqb (tl_indent l) d) then Err
      else if str_eqb (tl_first l) s_f then
        match tl_fields l with
        | desc :: name :: rest =>
            if negb (is_valid_unqualified_name name) then Err else
            do a <- decode_action is_valid_unqualified_name rest;
            do docs <- interp_leaf (S d) sub;
            do doc <- one_doc docs;
            do r <- interp_cchildren d ch';
            Ok (CIField (mkFD name desc a doc) :: r)
        | _ => Err
        end
      else if str_eqb (tl_first l) s_m then
        match tl_fields l with
        | desc :: name :: rest =>
            if negb (is_valid_method_name name) then Err else
            do a <- decode_action is_valid_method_name rest;
            do items <- interp_mchildren (S d) sub;
            do doc <- one_doc (mi_docs items);
            if negb (nodupb N.eqb (map pd_index (mi_params items))) then Err else
            do r <- interp_cchildren d ch';
            Ok (CIMeth (mkMD name desc a doc (mi_params items)) :: r)
        | _ => Err
        end
      else if negb (is_nil sub) then Err
      else if str_eqb (tl_first l) s_c then
        do a <- comment_action (tl_fields l);
        do r <- interp_cchildren d ch';
        Ok (CIDoc a :: r)
      else interp_cchildren d ch'.
Proof. reflexivity. Qed.

Lemma okname_valid valid s : okname valid s = true -> valid s = true.
Proof. unfold okname. rewrite andb_true_iff. tauto. Qed.

Lemma interp_meths ms :
  forallb textual_meth ms = true -> forallb wf_mdiff ms = true ->
  interp_cchildren 1 (map meth_tree ms) = Ok (map (fun m => CIMeth (norm_meth m)) ms).
Proof.
  induction ms as [|m ms IH]; [reflexivity|]. cbn [forallb map]. rewrite !andb_true_iff. intros [Hm Hms] [Hw Hws].
  unfold textual_meth in Hm. rewrite !andb_true_iff in Hm. destruct Hm as (((Hd & Hn) & Ha) & Hps).
  unfold meth_tree at 1. rewrite interp_cchildren_eq. unfold tl_of.
  cbn [tl_indent tl_first tl_fields fst snd hd tl is_nil negb]. rewrite Nat.eqb_refl. cbn [negb].
  change (str_eqb s_m s_f) with false. cbn iota. rewrite str_eqb_refl.
  rewrite (okname_valid _ _ Hn). cbn [negb].
  rewrite (decode_action_cells _ _ meth_nonempty Ha). cbn [bind].
  rewrite (interp_meth_children _ _ Hps). cbn [bind].
  rewrite mi_docs_items. cbn [bind]. rewrite mi_params_items.
  assert (Hnd : nodupb N.eqb (map pd_index (map norm_param (md_params m))) = true).
  { rewrite map_map. cbn [norm_param pd_index]. exact Hw. }
  rewrite Hnd. cbn [negb]. rewrite (IH Hms Hws). reflexivity.
Qed.

Lemma interp_fields_meths fs ms :
  forallb textual_field fs = true -> forallb textual_meth ms = true -> forallb wf_mdiff ms = true ->
  interp_cchildren 1 (map field_tree fs ++ map meth_tree ms)
    = Ok (map (fun f => CIField (norm_field f)) fs ++ map (fun m => CIMeth (norm_meth m)) ms).
Proof.
  intros Hfs Hms Hws. induction fs as [|f fs IH]; [apply interp_meths; assumption|].
  cbn [forallb] in Hfs. rewrite andb_true_iff in Hfs. destruct Hfs as [Hf Hfs].
  unfold textual_field in Hf. rewrite !andb_true_iff in Hf. destruct Hf as ((Hd & Hn) & Ha).
  cbn [map app]. unfold field_tree at 1. rewrite interp_cchildren_eq. unfold tl_of.
  cbn [tl_indent tl_first tl_fields fst snd hd tl is_nil negb]. rewrite Nat.eqb_refl, str_eqb_refl. cbn [negb].
  rewrite (okname_valid _ _ Hn). cbn [negb].
  rewrite (decode_action_cells _ _ unq_nonempty Ha). cbn [bind].
  rewrite (bind_assoc_doc 2). rewrite (IH Hfs). reflexivity.
Qed.

Lemma interp_class_children a fs ms :
  forallb textual_field fs = true -> forallb textual_meth ms = true -> forallb wf_mdiff ms = true ->
  interp_cchildren 1 (doc_trees 1 a ++ map field_tree fs ++ map meth_tree ms)
    = Ok (doc_citems a ++ map (fun f => CIField (norm_field f)) fs ++ map (fun m => CIMeth (norm_meth m)) ms).
Proof.
  intros Hfs Hms Hws. unfold doc_trees, doc_citems.
  destruct a as [|b|x|x y]; cbn [doc_pl map app]; [apply interp_fields_meths; assumption| | |];
    unfold leaf; rewrite interp_cchildren_eq; unfold tl_of; cbn [tl_indent tl_first tl_fields fst snd hd tl is_nil negb];
    rewrite Nat.eqb_refl; cbn [negb];
    change (str_eqb s_c s_f) with false; change (str_eqb s_c s_m) with false; cbn iota; rewrite str_eqb_refl;
    rewrite comment_action_cells; cbn [bind]; rewrite (interp_fields_meths fs ms Hfs Hms Hws); reflexivity.
Qed.

Lemma ci_items a fs ms :
  let items := doc_citems a ++ map (fun f => CIField (norm_field f)) fs ++ map (fun m => CIMeth (norm_meth m)) ms in
  ci_fields items = map norm_field fs /\ ci_meths items = map norm_meth ms /\ one_doc (ci_docs items) = Ok (norm_action a).
Proof.
  cbv zeta. unfold ci_fields, ci_meths, ci_docs. rewrite !flat_map_app.
  assert (F1 : forall (g : citem -> list fdiff), (forall a, g (CIDoc a) = []) -> flat_map g (doc_citems a) = []).
  { intros g Hg. destruct a; cbn; rewrite ?Hg; reflexivity. }
  assert (F2 : forall (g : citem -> list mdiff), (forall a, g (CIDoc a) = []) -> flat_map g (doc_citems a) = []).
  { intros g Hg. destruct a; cbn; rewrite ?Hg; reflexivity. }
  repeat split.
  - rewrite F1 by reflexivity. cbn [app].
    assert (E2 : flat_map (fun i => match i with CIField f => [f] | _ => [] end) (map (fun m => CIMeth (norm_meth m)) ms) = []).
    { induction ms as [|m ms IH]; [reflexivity|]. cbn [map flat_map app]. exact IH. }
    rewrite E2, List.app_nil_r. induction fs as [|f fs IH]; [reflexivity|]. cbn [map flat_map app]. rewrite IH. reflexivity.
  - rewrite F2 by reflexivity. cbn [app].
    assert (E1 : flat_map (fun i => match i with CIMeth m => [m] | _ => [] end) (map (fun f => CIField (norm_field f)) fs) = []).
    { induction fs as [|f fs IH]; [reflexivity|]. cbn [map flat_map app]. exact IH. }
    rewrite E1. cbn [app]. induction ms as [|m ms IH]; [reflexivity|]. cbn [map flat_map app]. rewrite IH. reflexivity.
  - assert (E1 : flat_map (fun i => match i with CIDoc a => [a] | _ => [] end) (map (fun f => CIField (norm_field f)) fs) = []).
    { induction fs as [|f fs IH]; [reflexivity|]. cbn [map flat_map app]. exact IH. }
    assert (E2 : flat_map (fun i => match i with CIDoc a => [a] | _ => [] end) (map (fun m => CIMeth (norm_meth m)) ms) = []).
    { induction ms as [|m ms IH]; [reflexivity|]. cbn [map flat_map app]. exact IH. }
    rewrite E1, E2, List.app_nil_r. destruct a; reflexivity.
Qed.

Lemma interp_top_eq l sub ch' :
  interp_top (Node l sub :: ch') =
      if negb (Nat.eqb (tl_indent l) 0) then Err
      else if str_eqb (tl_first l) s_c then
        match tl_fields l with
        | key :: rest =>
            if negb (is_valid_obj_class_name key) then Err else
            do a <- decode_action is_valid_obj_class_name rest;
            do items <- interp_cchildren 1 sub;
            do doc <- one_doc (ci_docs items);
            if negb (nodupb key2_eqb (map fdkey (ci_fields items))) then Err else
            if negb (nodupb key2_eqb (map mdkey (ci_meths items))) then Err else
            do r <- interp_top ch';
            Ok (mkCD key a doc (ci_fields items) (ci_meths items) :: r)
        | [] => Err
        end
      else if negb (is_nil sub) then Err
      else interp_top ch'.
Proof. reflexivity. Qed.

Lemma interp_classes cs :
  forallb textual_class cs = true -> forallb wf_cdiff cs = true ->
  interp_top (map class_tree cs) = Ok (map norm_class cs).
Proof.
  induction cs as [|c cs IH]; [reflexivity|]. cbn [forallb map]. rewrite !andb_true_iff. intros [Hc Hcs] [Hw Hws].
  unfold textual_class in Hc. rewrite !andb_true_iff in Hc. destruct Hc as (((Hn & Ha) & Hfs) & Hms).
  unfold wf_cdiff in Hw. rewrite !andb_true_iff in Hw. destruct Hw as ((Hwf & Hwm) & Hwp).
  unfold class_tree at 1. rewrite interp_top_eq. unfold tl_of.
  cbn [tl_indent tl_first tl_fields fst snd hd tl is_nil negb]. rewrite Nat.eqb_refl, str_eqb_refl. cbn [negb].
  rewrite (okname_valid _ _ Hn). cbn [negb].
  rewrite (decode_action_cells _ _ class_nonempty Ha). cbn [bind].
  rewrite (interp_class_children _ _ _ Hfs Hms Hwp). cbn [bind].
  destruct (ci_items (cd_doc c) (cd_fields c) (cd_methods c)) as (E1 & E2 & E3).
  rewrite E3. cbn [bind]. rewrite E1, E2.
  assert (Hnf : nodupb key2_eqb (map fdkey (map norm_field (cd_fields c))) = true).
  { rewrite map_map. exact Hwf. }
  assert (Hnm : nodupb key2_eqb (map mdkey (map norm_meth (cd_methods c))) = true).
  { rewrite map_map. exact Hwm. }
  rewrite Hnf, Hnm. cbn [negb]. rewrite (IH Hcs Hws). reflexivity.
Qed.

(* ------------------------------------------------------------------ *)
(* every printed line is clean *)

Lemma act_cells_clean valid a : act_all (okname valid) a = true -> Forall (fun c => clean c = true) (action_cells a).
Proof.
  unfold okname. destruct a as [|b|x|x y]; cbn [act_all action_cells]; rewrite ?andb_true_iff; intros H;
    repeat constructor; tauto.
Qed.

Lemma doc_pl_clean i a : Forall clean_line (doc_pl i a).
Proof.
  destruct a as [|b|x|x y]; cbn [doc_pl]; [constructor| | |];
    (constructor; [|constructor]); unfold clean_line; cbn [snd action_cells map];
    (split; [|exact I]); repeat constructor; apply escape_clean.
Qed.

Lemma param_pl_clean p : textual_param p = true -> Forall clean_line (param_pl p).
Proof.
  unfold textual_param. rewrite andb_true_iff. intros [_ Ha]. unfold param_pl. constructor; [|apply doc_pl_clean].
  unfold clean_line. cbn [snd]. split; [|exact I].
  constructor; [reflexivity|]. constructor; [apply print_N_clean|]. constructor; [reflexivity|].
  apply (act_cells_clean _ _ Ha).
Qed.

Lemma okname_clean valid s : okname valid s = true -> clean s = true.
Proof. unfold okname. rewrite andb_true_iff. tauto. Qed.

Lemma field_pl_clean f : textual_field f = true -> Forall clean_line (field_pl f).
Proof.
  unfold textual_field. rewrite !andb_true_iff. intros ((Hd & Hn) & Ha). unfold field_pl. constructor; [|apply doc_pl_clean].
  unfold clean_line. cbn [snd]. split; [|exact I].
  constructor; [reflexivity|]. constructor; [exact Hd|]. constructor; [apply (okname_clean _ _ Hn)|].
  apply (act_cells_clean _ _ Ha).
Qed.

Lemma Forall_concat {A} (P : A -> Prop) (ls : list (list A)) : Forall (Forall P) ls -> Forall P (concat ls).
Proof. induction 1; cbn [concat]; [constructor|apply Forall_app; split; assumption]. Qed.

Lemma Forall_concat_map {X A} (P : A -> Prop) (f : X -> list A) (q : X -> bool) xs :
  (forall x, q x = true -> Forall P (f x)) -> forallb q xs = true -> Forall P (concat (map f xs)).
Proof.
  intros H Hq. apply Forall_concat. apply Forall_forall. intros l Hl. apply in_map_iff in Hl.
  destruct Hl as (x & <- & Hx). apply H. rewrite forallb_forall in Hq. apply Hq. exact Hx.
Qed.

Lemma meth_pl_clean m : textual_meth m = true -> Forall clean_line (meth_pl m).
Proof.
  unfold textual_meth. rewrite !andb_true_iff. intros (((Hd & Hn) & Ha) & Hps). unfold meth_pl. constructor.
  - unfold clean_line. cbn [snd]. split; [|exact I].
    constructor; [reflexivity|]. constructor; [exact Hd|]. constructor; [apply (okname_clean _ _ Hn)|].
    apply (act_cells_clean _ _ Ha).
  - apply Forall_app. split; [apply doc_pl_clean|].
    apply (Forall_concat_map _ _ textual_param); [exact param_pl_clean|exact Hps].
Qed.

Lemma class_pl_clean c : textual_class c = true -> Forall clean_line (class_pl c).
Proof.
  unfold textual_class. rewrite !andb_true_iff. intros (((Hn & Ha) & Hfs) & Hms). unfold class_pl. constructor.
  - unfold clean_line. cbn [snd]. split; [|exact I].
    constructor; [reflexivity|]. constructor; [apply (okname_clean _ _ Hn)|].
    apply (act_cells_clean _ _ Ha).
  - apply Forall_app. split; [apply doc_pl_clean|]. apply Forall_app. split.
    + apply (Forall_concat_map _ _ textual_field); [exact field_pl_clean|exact Hfs].
    + apply (Forall_concat_map _ _ textual_meth); [exact meth_pl_clean|exact Hms].
Qed.

(* ------------------------------------------------------------------ *)
(* Theorem 4: text transport *)

Theorem read_print d : textual_diff d = true -> read (print d) = Ok (norm d).
Proof.
  unfold textual_diff. rewrite !andb_true_iff. intros (((Hw & Hcs) & Hi) & Hd).
  unfold wf_diff in Hw. rewrite andb_true_iff in Hw. destruct Hw as [Hnd Hws].
  rewrite print_render. unfold read.
  assert (Hclean : Forall clean_line (diff_pl d)).
  { unfold diff_pl. constructor.
    - unfold clean_line. cbn [snd]. split; [repeat constructor|exact I].
    - apply (Forall_concat_map _ _ textual_class); [exact class_pl_clean|exact Hcs]. }
  rewrite (lines_of_render _ Hclean). unfold diff_pl. cbn [map].
  change (tl_first (tl_of (0%nat, [s_tiny; s_2; s_0]))) with s_tiny.
  change (tl_fields (tl_of (0%nat, [s_tiny; s_2; s_0]))) with [s_2; s_0].
  rewrite str_eqb_refl. change (list_eqb str_eqb [s_2; s_0] [s_2; s_0]) with true. cbn [andb].
  rewrite build_classes. rewrite (interp_classes _ Hcs Hws). cbn [bind].
  assert (Hn : nodupb str_eqb (map cd_name (map norm_class (d_classes d))) = true).
  { rewrite map_map. exact Hnd. }
  rewrite Hn. unfold norm. destruct (d_info d); try discriminate. destruct (norm_action (d_doc d)); try discriminate. reflexivity.
Qed.
