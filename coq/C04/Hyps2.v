(* C04: one more decidable hypothesis (definition only; kept apart from Hyps.v, which C05 imports).
   The text hypotheses without the equality of the mappings-level comments: the text form has no line
   for that comment (C04_text_inverse_modulo_top, C04_text_inverse_needs_same_top). *)
From FB Require Export C04.Hyps.

Definition text_hyps_top_b (A B : mappings) : bool :=
  inverse_hyps_b A B && textual_mappings A && textual_mappings B.
