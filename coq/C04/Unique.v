(* C04 round 5 — a diff is determined by its effect, up to no-ops.

   If two diffs both apply to the same target and lead to the same mapping set (up to the order of the
   maps), they are the same diff up to: None versus Edit(x,x); an entry that is absent versus an entry
   without any effective action below it; and whatever hangs below a removal (apply_diff_map never looks
   at it).  With diff A B as one of the two: every diff that leads from A to B is diff A B up to no-ops. *)
From FB Require Export C04.Noop.
From FB Require Import C04.TextTheory3.
From Coq Require Import Lia Arith PeanoNat.

(* the effective action: Edit(x,x) does nothing (Action::is_diff) *)
Definition eff (a : action str) : action str :=
  match a with AEdit x y => if str_eqb x y then ANone else a | _ => a end.
Definition is_rem (a : action str) : bool := match a with ARem _ => true | _ => false end.

Lemma eff_noop a : eff a = ANone <-> is_diff str_eqb a = false.
Proof.
  destruct a as [|b|x|x y]; cbn [eff is_diff]; try (split; [reflexivity|reflexivity]); try (split; discriminate).
  destruct (str_eqb x y); cbn [negb]; split; try reflexivity; discriminate.
Qed.

Lemma eff_from_tuple_same (x : option str) : eff (from_tuple x x) = ANone.
Proof. destruct x as [s|]; cbn [from_tuple eff]; [rewrite str_eqb_refl|]; reflexivity. Qed.

(* value level: two actions that lead from the same old value to the same new value *)
Lemma apply_option_same_effect (a1 a2 : action str) (t r : option str) :
  apply_option str_eqb a1 t = Ok r -> apply_option str_eqb a2 t = Ok r -> eff a1 = eff a2.
Proof.
  intros H1 H2.
  assert (E : forall a, apply_option str_eqb a t = Ok r -> eff a = eff (from_tuple t r)).
  { intros a H. apply apply_option_ok_iff in H.
    destruct H as [(-> & ->)|[(b & -> & -> & ->)|[(x & -> & -> & ->)|(x & b & -> & -> & ->)]]]; cbn [from_tuple].
    - rewrite eff_from_tuple_same. reflexivity.
    - reflexivity.
    - reflexivity.
    - reflexivity. }
  rewrite (E a1 H1), (E a2 H2). reflexivity.
Qed.

Lemma apply_option_id_noop (a : action str) (t : option str) :
  apply_option str_eqb a t = Ok t -> eff a = ANone.
Proof.
  intros H. rewrite (apply_option_same_effect a ANone t t H eq_refl). reflexivity.
Qed.

(* ------------------------------------------------------------------ *)
(* one map level, generic *)

(* what the generic argument needs to know about a level:
   tn     the name of a target node in the target namespace (what l_chg checks and replaces)
   tgood  well-formedness of a target node (distinct keys below it, a cell for the target namespace)
   dgood  the same for a diff entry
   teq    equality of target nodes up to the order of the maps below them
   csame  "the same up to no-ops" for what is below two diff entries (comment action, child maps)
   cnoop  "no effective action" for what is below a diff entry *)
Record level_u {K D T} (L : level K D T) (tn : T -> option str) (tgood : T -> Prop) (dgood : D -> Prop)
    (teq : T -> T -> Prop) (csame : D -> D -> Prop) (cnoop : D -> Prop) : Prop := mkLevelU {
  lu_teq_tn : forall t1 t2, teq t1 t2 -> tn t1 = tn t2;
  lu_chg : forall t f to t', tgood t -> l_chg L t f to = Ok t' -> tn t = f /\ tn t' = to /\ tgood t';
  lu_chg_det : forall t f f' to t1 t2, l_chg L t f to = Ok t1 -> l_chg L t f' to = Ok t2 -> t1 = t2;
  lu_chg_id : forall t x t', l_chg L t (Some x) (Some x) = Ok t' -> t' = t;
  lu_mk : forall k b t, l_mk L k b = Ok t -> tn t = Some b /\ tgood t;
  lu_child_tn : forall d t t', l_child L d t = Ok t' -> tn t' = tn t;
  lu_unique : forall d1 d2 t t1 t2, tgood t -> dgood d1 -> dgood d2 ->
     l_child L d1 t = Ok t1 -> l_child L d2 t = Ok t2 -> teq t1 t2 -> csame d1 d2;
  lu_noop : forall d t t', tgood t -> dgood d -> l_child L d t = Ok t' -> teq t' t -> cnoop d }.

(* two entries (or an entry and none) of two diffs for the same key say the same up to no-ops *)
Definition ent_same {D} (info : D -> action str) (csame : D -> D -> Prop) (cnoop : D -> Prop) (o1 o2 : option D) : Prop :=
  match o1, o2 with
  | None, None => True
  | Some d, None => eff (info d) = ANone /\ cnoop d
  | None, Some d => eff (info d) = ANone /\ cnoop d
  | Some d1, Some d2 => eff (info d1) = eff (info d2) /\ (is_rem (info d1) = true \/ csame d1 d2)
  end.

(* the node the children of a non-removing entry are applied to *)
Definition base {K D T} (L : level K D T) (k : K) (i : action str) (ot : option T) (t1 : T) : Prop :=
  match i, ot with
  | ANone, Some t => t1 = t
  | AAdd b, Some t => l_chg L t None (Some b) = Ok t1
  | AAdd b, None => l_mk L k b = Ok t1
  | AEdit a b, Some t => l_chg L t (Some a) (Some b) = Ok t1
  | _, _ => False
  end.

Definition otn {T} (tn : T -> option str) (ot : option T) : option str :=
  match ot with Some t => tn t | None => None end.

Lemma base_facts {K D T} (L : level K D T) tn tgood dgood teq csame cnoop
    (HU : level_u L tn tgood dgood teq csame cnoop) k i ot t1 :
  (forall t, ot = Some t -> tgood t) -> base L k i ot t1 ->
  tgood t1 /\ eff i = eff (from_tuple (otn tn ot) (tn t1)).
Proof.
  intros Hg Hb. destruct i as [|b|a|a b], ot as [t|]; cbn [base] in Hb; try contradiction; cbn [otn].
  - subst t1. split; [apply Hg; reflexivity|]. rewrite eff_from_tuple_same. reflexivity.
  - destruct (lu_chg _ _ _ _ _ _ _ HU t None (Some b) t1 (Hg t eq_refl) Hb) as (E1 & E2 & G). rewrite E1, E2. split; [exact G|reflexivity].
  - destruct (lu_mk _ _ _ _ _ _ _ HU k b t1 Hb) as (E & G). rewrite E. split; [exact G|reflexivity].
  - destruct (lu_chg _ _ _ _ _ _ _ HU t (Some a) (Some b) t1 (Hg t eq_refl) Hb) as (E1 & E2 & G). rewrite E1, E2. split; [exact G|reflexivity].
Qed.

(* the base node is determined by the target entry and the name it ends up with *)
Lemma base_det {K D T} (L : level K D T) tn tgood dgood teq csame cnoop
    (HU : level_u L tn tgood dgood teq csame cnoop) k i1 i2 ot t1 t2 :
  (forall t, ot = Some t -> tgood t) -> base L k i1 ot t1 -> base L k i2 ot t2 -> tn t1 = tn t2 -> t1 = t2.
Proof.
  intros Hg H1 H2 E.
  pose proof (lu_chg _ _ _ _ _ _ _ HU) as CH. pose proof (lu_mk _ _ _ _ _ _ _ HU) as MK.
  destruct ot as [t|].
  - specialize (Hg t eq_refl).
    destruct i1 as [|b1|a1|a1 b1], i2 as [|b2|a2|a2 b2]; cbn [base] in H1, H2; try contradiction.
    + congruence.
    + subst t1. destruct (CH _ _ _ _ Hg H2) as (F & G & _). congruence.
    + subst t1. destruct (CH _ _ _ _ Hg H2) as (F & G & _).
      assert (a2 = b2) by congruence. subst b2. symmetry. eapply lu_chg_id; [exact HU|exact H2].
    + subst t2. destruct (CH _ _ _ _ Hg H1) as (F & G & _). congruence.
    + destruct (CH _ _ _ _ Hg H1) as (_ & G1 & _). destruct (CH _ _ _ _ Hg H2) as (_ & G2 & _).
      assert (b1 = b2) by congruence. subst b2. eapply lu_chg_det; [exact HU|exact H1|exact H2].
    + destruct (CH _ _ _ _ Hg H1) as (F1 & _ & _). destruct (CH _ _ _ _ Hg H2) as (F2 & _ & _). congruence.
    + subst t2. destruct (CH _ _ _ _ Hg H1) as (F & G & _).
      assert (a1 = b1) by congruence. subst b1. eapply lu_chg_id; [exact HU|exact H1].
    + destruct (CH _ _ _ _ Hg H1) as (F1 & _ & _). destruct (CH _ _ _ _ Hg H2) as (F2 & _ & _). congruence.
    + destruct (CH _ _ _ _ Hg H1) as (_ & G1 & _). destruct (CH _ _ _ _ Hg H2) as (_ & G2 & _).
      assert (b1 = b2) by congruence. subst b2. eapply lu_chg_det; [exact HU|exact H1|exact H2].
  - destruct i1 as [|b1|a1|a1 b1], i2 as [|b2|a2|a2 b2]; cbn [base] in H1, H2; try contradiction.
    destruct (MK _ _ _ H1) as (G1 & _). destruct (MK _ _ _ H2) as (G2 & _).
    assert (b1 = b2) by congruence. subst b2. congruence.
Qed.

(* what an entry that applies does *)
Lemma entry_some_shape {K D T} (L : level K D T) k d ot o :
  entry_apply L k (Some d) ot = Ok o ->
  (exists a t t1, l_info L d = ARem a /\ ot = Some t /\ l_chg L t (Some a) None = Ok t1 /\ o = None)
  \/ (is_rem (l_info L d) = false /\ exists t1 t', base L k (l_info L d) ot t1 /\ l_child L d t1 = Ok t' /\ o = Some t').
Proof.
  intros H. apply entry_apply_ok_iff in H.
  destruct H as [(H & _)|[(d' & t & t' & [= <-] & -> & Hi & Hc & ->)|[(d' & t & b & t1 & t' & [= <-] & -> & Hi & Hg & Hc & ->)|
            [(d' & t & a & t1 & [= <-] & -> & Hi & Hg & ->)|[(d' & t & a & b & t1 & t' & [= <-] & -> & Hi & Hg & Hc & ->)|
            (d' & b & t0 & t' & [= <-] & -> & Hi & Hg & Hc & ->)]]]]]; [discriminate| | | | |].
  - right. rewrite Hi. split; [reflexivity|]. exists t, t'. cbn [base]. auto.
  - right. rewrite Hi. split; [reflexivity|]. exists t1, t'. cbn [base]. auto.
  - left. exists a, t, t1. auto.
  - right. rewrite Hi. split; [reflexivity|]. exists t1, t'. cbn [base]. auto.
  - right. rewrite Hi. split; [reflexivity|]. exists t0, t'. cbn [base]. auto.
Qed.

(* one key *)
Lemma entry_unique {K D T} (L : level K D T) tn tgood dgood teq csame cnoop
    (HU : level_u L tn tgood dgood teq csame cnoop) (Hsym : forall x y, teq x y -> teq y x) k od1 od2 ot o1 o2 :
  (forall t, ot = Some t -> tgood t) -> (forall d, od1 = Some d -> dgood d) -> (forall d, od2 = Some d -> dgood d) ->
  entry_apply L k od1 ot = Ok o1 -> entry_apply L k od2 ot = Ok o2 -> opt_rel teq o1 o2 ->
  ent_same (l_info L) csame cnoop od1 od2.
Proof.
  intros Hg Hd1 Hd2 E1 E2 R.
  assert (ONE : forall d o o', dgood d -> entry_apply L k (Some d) ot = Ok o -> entry_apply L k None ot = Ok o' ->
                 opt_rel teq o o' -> eff (l_info L d) = ANone /\ cnoop d).
  { intros d o o' Gd A B R'. cbn [entry_apply] in B. injection B as <-.
    destruct (entry_some_shape L k d ot o A) as [(a & t & t1 & Hi & -> & Hc & ->)|(Hr & t1 & t' & Hb & Hc & ->)].
    - cbn [opt_rel] in R'. contradiction.
    - destruct ot as [t|]; cbn [opt_rel] in R'; [|contradiction].
      destruct (base_facts L tn tgood dgood teq csame cnoop HU k _ _ _ Hg Hb) as (G1 & Ef).
      assert (Etn : tn t1 = tn t).
      { rewrite <- (lu_child_tn _ _ _ _ _ _ _ HU d t1 t' Hc). apply (lu_teq_tn _ _ _ _ _ _ _ HU). exact R'. }
      assert (t1 = t).
      { apply (base_det L tn tgood dgood teq csame cnoop HU k (l_info L d) ANone (Some t) t1 t Hg Hb); [reflexivity|exact Etn]. }
      subst t1. split.
      + rewrite Ef. cbn [otn]. apply eff_from_tuple_same.
      + apply (lu_noop _ _ _ _ _ _ _ HU d t t' (Hg t eq_refl) Gd Hc R'). }
  destruct od1 as [d1|], od2 as [d2|]; cbn [ent_same].
  - destruct (entry_some_shape L k d1 ot o1 E1) as [(a1 & t & u1 & Hi1 & Eo & Hc1 & ->)|(Hr1 & t1 & t1' & Hb1 & Hc1 & ->)];
    destruct (entry_some_shape L k d2 ot o2 E2) as [(a2 & t' & u2 & Hi2 & Eo' & Hc2 & ->)|(Hr2 & t2 & t2' & Hb2 & Hc2 & ->)];
      cbn [opt_rel] in R; try contradiction.
    + subst ot. injection Eo' as <-. rewrite Hi1, Hi2. cbn [eff is_rem]. split; [|left; reflexivity].
      destruct (lu_chg _ _ _ _ _ _ _ HU t _ _ _ (Hg t eq_refl) Hc1) as (F1 & _).
      destruct (lu_chg _ _ _ _ _ _ _ HU t _ _ _ (Hg t eq_refl) Hc2) as (F2 & _). congruence.
    + destruct (base_facts L tn tgood dgood teq csame cnoop HU k _ _ _ Hg Hb1) as (G1 & Ef1).
      destruct (base_facts L tn tgood dgood teq csame cnoop HU k _ _ _ Hg Hb2) as (G2 & Ef2).
      assert (Etn : tn t1 = tn t2).
      { rewrite <- (lu_child_tn _ _ _ _ _ _ _ HU d1 t1 t1' Hc1), <- (lu_child_tn _ _ _ _ _ _ _ HU d2 t2 t2' Hc2).
        apply (lu_teq_tn _ _ _ _ _ _ _ HU). exact R. }
      assert (t1 = t2) by (apply (base_det L tn tgood dgood teq csame cnoop HU k _ _ ot t1 t2 Hg Hb1 Hb2 Etn)). subst t2.
      split; [rewrite Ef1, Ef2; reflexivity|]. right.
      apply (lu_unique _ _ _ _ _ _ _ HU d1 d2 t1 t1' t2' G1 (Hd1 d1 eq_refl) (Hd2 d2 eq_refl) Hc1 Hc2 R).
  - apply (ONE d1 o1 o2 (Hd1 d1 eq_refl) E1 E2 R).
  - apply (ONE d2 o2 o1 (Hd2 d2 eq_refl) E2 E1).
    destruct o1, o2; cbn [opt_rel] in *; try contradiction; auto.
  - exact I.
Qed.

(* one map *)
Theorem map_unique {K D T} (L : level K D T) (HL : level_ok L) tn tgood dgood teq csame cnoop
    (HU : level_u L tn tgood dgood teq csame cnoop) (Hsym : forall x y, teq x y -> teq y x) ds1 ds2 ts r1 r2 :
  NoDup (map (l_dkey L) ds1) -> NoDup (map (l_dkey L) ds2) -> NoDup (map (l_tkey L) ts) ->
  (forall t, In t ts -> tgood t) -> (forall d, In d ds1 -> dgood d) -> (forall d, In d ds2 -> dgood d) ->
  apply_map_L L ds1 ts = Ok r1 -> apply_map_L L ds2 ts = Ok r2 ->
  (forall k, opt_rel teq (tfind L k r1) (tfind L k r2)) ->
  forall k, ent_same (l_info L) csame cnoop (dfind L k ds1) (dfind L k ds2).
Proof.
  intros N1 N2 Nt Gt G1 G2 A1 A2 R k. pose proof (lo_keqb L HL) as HK.
  pose proof (apply_map_spec L HL ds1 ts N1 Nt) as S1. rewrite A1 in S1. destruct S1 as [_ S1].
  pose proof (apply_map_spec L HL ds2 ts N2 Nt) as S2. rewrite A2 in S2. destruct S2 as [_ S2].
  apply (entry_unique L tn tgood dgood teq csame cnoop HU Hsym k (dfind L k ds1) (dfind L k ds2) (tfind L k ts) (tfind L k r1) (tfind L k r2));
    [| | |exact (S1 k)|exact (S2 k)|exact (R k)].
  - intros t Ht. apply Gt. apply (find_key_some _ HK _ _ _ _ Ht).
  - intros d Hd. apply G1. apply (find_key_some _ HK _ _ _ _ Hd).
  - intros d Hd. apply G2. apply (find_key_some _ HK _ _ _ _ Hd).
Qed.

Lemma apply_map_nil {K D T} (L : level K D T) ts : apply_map_L L [] ts = Ok ts.
Proof.
  unfold apply_map_L, apply_map.
  assert (E : apply_targets (l_keqb L) (l_dkey L) (l_tkey L) (l_info L) (l_chg L) (l_child L) [] ts = Ok (ts, [])).
  { induction ts as [|t ts IH]; [reflexivity|]. cbn [apply_targets swap_remove]. rewrite IH. reflexivity. }
  rewrite E. cbn [bind snd fst apply_pending]. rewrite app_nil_r. reflexivity.
Qed.

(* a map diff that leaves the map as it is (up to the order below) has no effective action *)
Theorem map_noop_conv {K D T} (L : level K D T) (HL : level_ok L) tn tgood dgood teq csame cnoop
    (HU : level_u L tn tgood dgood teq csame cnoop) (Hsym : forall x y, teq x y -> teq y x) ds ts r :
  NoDup (map (l_dkey L) ds) -> NoDup (map (l_tkey L) ts) ->
  (forall t, In t ts -> tgood t) -> (forall d, In d ds -> dgood d) ->
  apply_map_L L ds ts = Ok r -> (forall k, opt_rel teq (tfind L k r) (tfind L k ts)) ->
  forall d, In d ds -> eff (l_info L d) = ANone /\ cnoop d.
Proof.
  intros N1 Nt Gt G1 A R d Hd. pose proof (lo_keqb L HL) as HK.
  pose proof (map_unique L HL tn tgood dgood teq csame cnoop HU Hsym ds [] ts r ts N1 (NoDup_nil _) Nt Gt G1
                (fun d H => match H with end) A (apply_map_nil L ts) R (l_dkey L d)) as H.
  unfold dfind in H. rewrite (find_key_in _ HK _ _ _ N1 Hd) in H. cbn [find_key ent_same] in H. exact H.
Qed.

(* ------------------------------------------------------------------ *)
(* the four levels *)

Lemma nth_set_nth {A} (i : nat) (l : list A) (x d : A) : (i < length l)%nat -> nth i (set_nth i l x) d = x.
Proof.
  revert l. induction i as [|i IH]; intros [|y l] H; cbn [length] in H; try lia; cbn [set_nth nth]; [reflexivity|].
  apply IH. lia.
Qed.

Lemma set_nth_length {A} (i : nat) (l : list A) (x : A) : length (set_nth i l x) = length l.
Proof. revert l. induction i as [|i IH]; intros [|y l]; cbn [set_nth length]; auto. Qed.

Definition ntn (tns : nat) (l : names) : option str := nth tns l None.

Lemma change_name_u tns l f to l' : (tns < length l)%nat -> change_name tns l f to = Ok l' ->
  ntn tns l = f /\ ntn tns l' = to /\ length l' = length l.
Proof.
  intros Hl H. apply change_name_ok in H. destruct H as (_ & E & ->). unfold ntn.
  rewrite nth_set_nth by exact Hl. rewrite set_nth_length. auto.
Qed.

Lemma change_name_det tns l f f' to l1 l2 : change_name tns l f to = Ok l1 -> change_name tns l f' to = Ok l2 -> l1 = l2.
Proof. intros H1 H2. apply change_name_ok in H1, H2. destruct H1 as (_ & _ & ->), H2 as (_ & _ & ->). reflexivity. Qed.

Lemma fresh_names_u n tns key b l : (tns < n)%nat -> fresh_names n tns key b = Ok l -> ntn tns l = Some b /\ length l = n.
Proof.
  intros Hn H. unfold fresh_names in H. destruct n as [|n']; [lia|].
  assert (Hl : (tns < length (key :: repeat None n'))%nat) by (cbn [length]; rewrite repeat_length; exact Hn).
  destruct (change_name_u _ _ _ _ _ Hl H) as (_ & E & L). split; [exact E|]. rewrite L. cbn [length]. rewrite repeat_length. reflexivity.
Qed.

(* ---- parameters ---- *)
Definition p_good (tns : nat) (p : param) : Prop := (tns < length (p_names p))%nat.
Definition pd_same (d1 d2 : pdiff) : Prop := eff (pd_doc d1) = eff (pd_doc d2).
Definition pd_noop (d : pdiff) : Prop := eff (pd_doc d) = ANone.

Lemma Lparam_u n tns : (tns < n)%nat ->
  level_u (Lparam n tns) (fun p => ntn tns (p_names p)) (p_good tns) (fun _ => True) eq pd_same pd_noop.
Proof.
  intros Hn. constructor; cbn [Lparam l_chg l_mk l_child].
  - intros t1 t2 ->. reflexivity.
  - intros t f to t' G H. unfold chg_param in H. apply bind_ok in H. destruct H as (l & Hc & [= <-]). cbn [p_names].
    destruct (change_name_u _ _ _ _ _ G Hc) as (A & B & C). unfold p_good. cbn [p_names]. rewrite C. auto.
  - intros t f f' to t1 t2 H1 H2. unfold chg_param in *. apply bind_ok in H1, H2.
    destruct H1 as (l1 & C1 & [= <-]), H2 as (l2 & C2 & [= <-]). rewrite (change_name_det _ _ _ _ _ _ _ C1 C2). reflexivity.
  - intros t x t' H. exact (chg_param_same tns t x t' H).
  - intros k b t H. unfold new_param in H. apply bind_ok in H. destruct H as (l & Hc & [= <-]). cbn [p_names].
    destruct (fresh_names_u _ _ _ _ _ Hn Hc) as (A & B). unfold p_good. cbn [p_names]. rewrite B. auto.
  - intros d t t' H. unfold apply_param in H. apply bind_ok in H. destruct H as (doc & _ & [= <-]). reflexivity.
  - intros d1 d2 t t1 t2 _ _ _ H1 H2 E. unfold apply_param in *. apply bind_ok in H1, H2.
    destruct H1 as (x1 & A1 & [= <-]), H2 as (x2 & A2 & [= <-]). injection E as E. subst x2.
    exact (apply_option_same_effect _ _ _ _ A1 A2).
  - intros d t t' _ _ H E. unfold apply_param in H. apply bind_ok in H. destruct H as (x & A & [= <-]).
    assert (x = p_doc t) by (rewrite <- E; reflexivity). subst x. exact (apply_option_id_noop _ _ A).
Qed.

(* ---- fields ---- *)
Definition f_good (tns : nat) (f : field) : Prop := (tns < length (f_names f))%nat.
Definition fd_same (d1 d2 : fdiff) : Prop := eff (fd_doc d1) = eff (fd_doc d2).
Definition fd_noop (d : fdiff) : Prop := eff (fd_doc d) = ANone.

Lemma Lfield_u n tns : (tns < n)%nat ->
  level_u (Lfield n tns) (fun f => ntn tns (f_names f)) (f_good tns) (fun _ => True) eq fd_same fd_noop.
Proof.
  intros Hn. constructor; cbn [Lfield l_chg l_mk l_child].
  - intros t1 t2 ->. reflexivity.
  - intros t f to t' G H. unfold chg_field in H. apply bind_ok in H. destruct H as (l & Hc & [= <-]). cbn [f_names].
    destruct (change_name_u _ _ _ _ _ G Hc) as (A & B & C). unfold f_good. cbn [f_names]. rewrite C. auto.
  - intros t f f' to t1 t2 H1 H2. unfold chg_field in *. apply bind_ok in H1, H2.
    destruct H1 as (l1 & C1 & [= <-]), H2 as (l2 & C2 & [= <-]). rewrite (change_name_det _ _ _ _ _ _ _ C1 C2). reflexivity.
  - intros t x t' H. exact (chg_field_same tns t x t' H).
  - intros k b t H. unfold new_field in H. apply bind_ok in H. destruct H as (l & Hc & [= <-]). cbn [f_names].
    destruct (fresh_names_u _ _ _ _ _ Hn Hc) as (A & B). unfold f_good. cbn [f_names]. rewrite B. auto.
  - intros d t t' H. unfold apply_field in H. apply bind_ok in H. destruct H as (doc & _ & [= <-]). reflexivity.
  - intros d1 d2 t t1 t2 _ _ _ H1 H2 E. unfold apply_field in *. apply bind_ok in H1, H2.
    destruct H1 as (x1 & A1 & [= <-]), H2 as (x2 & A2 & [= <-]). injection E as E. subst x2.
    exact (apply_option_same_effect _ _ _ _ A1 A2).
  - intros d t t' _ _ H E. unfold apply_field in H. apply bind_ok in H. destruct H as (x & A & [= <-]).
    assert (x = f_doc t) by (rewrite <- E; reflexivity). subst x. exact (apply_option_id_noop _ _ A).
Qed.

(* ---- methods ---- *)
Definition m_good (tns : nat) (m : meth) : Prop :=
  (tns < length (m_names m))%nat /\ NoDup (map pkey (m_params m)) /\ forall p, In p (m_params m) -> p_good tns p.
Definition md_good (d : mdiff) : Prop := NoDup (map pd_index (md_params d)).
Definition md_same (d1 d2 : mdiff) : Prop :=
  eff (md_doc d1) = eff (md_doc d2)
  /\ forall k, ent_same pd_info pd_same pd_noop (pdfind k (md_params d1)) (pdfind k (md_params d2)).
Definition md_noop (d : mdiff) : Prop :=
  eff (md_doc d) = ANone /\ forall p, In p (md_params d) -> eff (pd_info p) = ANone /\ pd_noop p.

Lemma Lmeth_u n tns : (tns < n)%nat ->
  level_u (Lmeth n tns) (fun m => ntn tns (m_names m)) (m_good tns) md_good meth_eqv md_same md_noop.
Proof.
  intros Hn. constructor; cbn [Lmeth l_chg l_mk l_child].
  - intros t1 t2 (_ & E & _). rewrite E. reflexivity.
  - intros t f to t' (G & G2 & G3) H. unfold chg_meth in H. apply bind_ok in H. destruct H as (l & Hc & [= <-]). cbn [m_names].
    destruct (change_name_u _ _ _ _ _ G Hc) as (A & B & C). unfold m_good. cbn [m_names m_params]. rewrite C. auto.
  - intros t f f' to t1 t2 H1 H2. unfold chg_meth in *. apply bind_ok in H1, H2.
    destruct H1 as (l1 & C1 & [= <-]), H2 as (l2 & C2 & [= <-]). rewrite (change_name_det _ _ _ _ _ _ _ C1 C2). reflexivity.
  - intros t x t' H. exact (chg_meth_same tns t x t' H).
  - intros k b t H. unfold new_meth in H. apply bind_ok in H. destruct H as (l & Hc & [= <-]). cbn [m_names].
    destruct (fresh_names_u _ _ _ _ _ Hn Hc) as (A & B). unfold m_good. cbn [m_names m_params map]. rewrite B.
    split; [exact A|]. split; [exact Hn|]. split; [constructor|]. intros p [].
  - intros d t t' H. unfold apply_meth in H. apply bind_ok in H. destruct H as (doc & _ & H).
    apply bind_ok in H. destruct H as (ps & _ & [= <-]). reflexivity.
  - intros d1 d2 t t1 t2 (G & G2 & G3) D1 D2 H1 H2 E. unfold apply_meth in *.
    apply bind_ok in H1. destruct H1 as (x1 & A1 & H1). apply bind_ok in H1. destruct H1 as (ps1 & P1 & [= <-]).
    apply bind_ok in H2. destruct H2 as (x2 & A2 & H2). apply bind_ok in H2. destruct H2 as (ps2 & P2 & [= <-]).
    destruct E as (_ & _ & Edoc & (_ & _ & Eps)). cbn [m_doc m_params] in *. subst x2. split.
    + exact (apply_option_same_effect _ _ _ _ A1 A2).
    + apply (map_unique (Lparam n tns) (Lparam_ok n tns) _ _ _ _ _ _ (Lparam_u n tns Hn) (fun x y H => eq_sym H)
               (md_params d1) (md_params d2) (m_params t) ps1 ps2 D1 D2 G2 G3 (fun _ _ => I) (fun _ _ => I) P1 P2).
      intros k. apply opt_rel_eq. apply Eps.
  - intros d t t' (G & G2 & G3) D1 H E. unfold apply_meth in H.
    apply bind_ok in H. destruct H as (x & A & H). apply bind_ok in H. destruct H as (ps & P & [= <-]).
    destruct E as (_ & _ & Edoc & (_ & _ & Eps)). cbn [m_doc m_params] in *. subst x. split.
    + exact (apply_option_id_noop _ _ A).
    + apply (map_noop_conv (Lparam n tns) (Lparam_ok n tns) _ _ _ _ _ _ (Lparam_u n tns Hn) (fun x y H => eq_sym H)
               (md_params d) (m_params t) ps D1 G2 G3 (fun _ _ => I) P).
      intros k. apply opt_rel_eq. apply Eps.
Qed.

(* ---- classes ---- *)
Definition c_good (tns : nat) (c : class) : Prop :=
  (tns < length (c_names c))%nat
  /\ NoDup (map fkey (c_fields c)) /\ (forall f, In f (c_fields c) -> f_good tns f)
  /\ NoDup (map mkey (c_methods c)) /\ (forall m, In m (c_methods c) -> m_good tns m).
Definition cd_good (d : cdiff) : Prop :=
  NoDup (map fdkey (cd_fields d)) /\ NoDup (map mdkey (cd_methods d)) /\ forall md, In md (cd_methods d) -> md_good md.
Definition cd_same (d1 d2 : cdiff) : Prop :=
  eff (cd_doc d1) = eff (cd_doc d2)
  /\ (forall k, ent_same fd_info fd_same fd_noop (fdfind k (cd_fields d1)) (fdfind k (cd_fields d2)))
  /\ (forall k, ent_same md_info md_same md_noop (mdfind k (cd_methods d1)) (mdfind k (cd_methods d2))).
Definition cd_noop (d : cdiff) : Prop :=
  eff (cd_doc d) = ANone
  /\ (forall f, In f (cd_fields d) -> eff (fd_info f) = ANone /\ fd_noop f)
  /\ (forall m, In m (cd_methods d) -> eff (md_info m) = ANone /\ md_noop m).

Lemma Lclass_u n tns : (tns < n)%nat ->
  level_u (Lclass n tns) (fun c => ntn tns (c_names c)) (c_good tns) cd_good class_eqv cd_same cd_noop.
Proof.
  intros Hn. assert (Hn0 : n <> O) by lia. constructor; cbn [Lclass l_chg l_mk l_child].
  - intros t1 t2 (E & _). rewrite E. reflexivity.
  - intros t f to t' (G & G2) H. unfold chg_class in H. apply bind_ok in H. destruct H as (l & Hc & [= <-]). cbn [c_names].
    destruct (change_name_u _ _ _ _ _ G Hc) as (A & B & C). unfold c_good. cbn [c_names c_fields c_methods]. rewrite C. auto.
  - intros t f f' to t1 t2 H1 H2. unfold chg_class in *. apply bind_ok in H1, H2.
    destruct H1 as (l1 & C1 & [= <-]), H2 as (l2 & C2 & [= <-]). rewrite (change_name_det _ _ _ _ _ _ _ C1 C2). reflexivity.
  - intros t x t' H. exact (chg_class_same tns t x t' H).
  - intros k b t H. unfold new_class in H. apply bind_ok in H. destruct H as (l & Hc & [= <-]). cbn [c_names].
    destruct (fresh_names_u _ _ _ _ _ Hn Hc) as (A & B). unfold c_good. cbn [c_names c_fields c_methods map]. rewrite B.
    split; [exact A|]. split; [exact Hn|]. split; [constructor|]. split; [intros ? []|]. split; [constructor|intros ? []].
  - intros d t t' H. unfold apply_class in H. apply bind_ok in H. destruct H as (doc & _ & H).
    apply bind_ok in H. destruct H as (fs & _ & H). apply bind_ok in H. destruct H as (ms & _ & [= <-]). reflexivity.
  - intros d1 d2 t t1 t2 (G & Gf & Gf2 & Gm & Gm2) (D1f & D1m & D1g) (D2f & D2m & D2g) H1 H2 E. unfold apply_class in *.
    apply bind_ok in H1. destruct H1 as (x1 & A1 & H1). apply bind_ok in H1. destruct H1 as (fs1 & F1 & H1).
    apply bind_ok in H1. destruct H1 as (ms1 & M1 & [= <-]).
    apply bind_ok in H2. destruct H2 as (x2 & A2 & H2). apply bind_ok in H2. destruct H2 as (fs2 & F2 & H2).
    apply bind_ok in H2. destruct H2 as (ms2 & M2 & [= <-]).
    destruct E as (_ & Edoc & (_ & _ & Efs) & (_ & _ & Ems)). cbn [c_doc c_fields c_methods] in *. subst x2. split; [|split].
    + exact (apply_option_same_effect _ _ _ _ A1 A2).
    + apply (map_unique (Lfield n tns) (Lfield_ok n tns Hn0) _ _ _ _ _ _ (Lfield_u n tns Hn) (fun x y H => eq_sym H)
               (cd_fields d1) (cd_fields d2) (c_fields t) fs1 fs2 D1f D2f Gf Gf2 (fun _ _ => I) (fun _ _ => I) F1 F2).
      intros k. apply opt_rel_eq. apply Efs.
    + apply (map_unique (Lmeth n tns) (Lmeth_ok n tns Hn0) _ _ _ _ _ _ (Lmeth_u n tns Hn) meth_eqv_sym
               (cd_methods d1) (cd_methods d2) (c_methods t) ms1 ms2 D1m D2m Gm Gm2 D1g D2g M1 M2). exact Ems.
  - intros d t t' (G & Gf & Gf2 & Gm & Gm2) (D1f & D1m & D1g) H E. unfold apply_class in H.
    apply bind_ok in H. destruct H as (x & A & H). apply bind_ok in H. destruct H as (fs & F & H).
    apply bind_ok in H. destruct H as (ms & M & [= <-]).
    destruct E as (_ & Edoc & (_ & _ & Efs) & (_ & _ & Ems)). cbn [c_doc c_fields c_methods] in *. subst x. split; [|split].
    + exact (apply_option_id_noop _ _ A).
    + apply (map_noop_conv (Lfield n tns) (Lfield_ok n tns Hn0) _ _ _ _ _ _ (Lfield_u n tns Hn) (fun x y H => eq_sym H)
               (cd_fields d) (c_fields t) fs D1f Gf Gf2 (fun _ _ => I) F).
      intros k. apply opt_rel_eq. apply Efs.
    + apply (map_noop_conv (Lmeth n tns) (Lmeth_ok n tns Hn0) _ _ _ _ _ _ (Lmeth_u n tns Hn) meth_eqv_sym
               (cd_methods d) (c_methods t) ms D1m Gm Gm2 D1g M). exact Ems.
Qed.

(* ---- the mapping set ---- *)
Definition d_good (d : mdiffs) : Prop :=
  NoDup (map cd_name (d_classes d)) /\ forall cd, In cd (d_classes d) -> cd_good cd.

(* "the same diff up to no-ops" *)
Definition same_diff (d1 d2 : mdiffs) : Prop :=
  eff (d_info d1) = eff (d_info d2) /\ eff (d_doc d1) = eff (d_doc d2)
  /\ forall k, ent_same cd_info cd_same cd_noop (cdfind k (d_classes d1)) (cdfind k (d_classes d2)).

Lemma wf_diff_good d : wf_diff d = true -> d_good d.
Proof.
  intros H. destruct (wf_diff_parts d H) as [H1 H2]. split; [exact H1|].
  intros cd Hcd. destruct (wf_cdiff_parts cd (H2 cd Hcd)) as (A & B & C). split; [exact A|]. split; [exact B|].
  intros md Hmd. specialize (C md Hmd). unfold wf_mdiff in C. apply (nodupb_NoDup _ N_eqb_ok). exact C.
Qed.

Lemma names_ok_length n l : names_ok n l = true -> length l = n.
Proof. unfold names_ok. rewrite andb_true_iff. intros [H _]. apply Nat.eqb_eq. exact H. Qed.

Lemma wf_meth_good n tns m : (tns < n)%nat -> wf_meth n m = true -> m_good tns m.
Proof.
  intros Hn H. pose proof (wf_meth_nodup n m H) as Hnd. unfold wf_meth in H. rewrite !andb_true_iff in H.
  destruct H as (((Hl & _) & Hp) & _). split; [rewrite (names_ok_length _ _ Hl); exact Hn|]. split; [exact Hnd|].
  rewrite forallb_forall in Hp. intros p Hin. unfold p_good. specialize (Hp p Hin). unfold wf_param in Hp.
  rewrite (names_ok_length _ _ Hp). exact Hn.
Qed.

Lemma wf_class_good n tns c : (tns < n)%nat -> wf_class n c = true -> c_good tns c.
Proof.
  intros Hn H. destruct (wf_class_nodup n c H) as (Nf & Nm & Fm & Ff).
  unfold wf_class in H. rewrite !andb_true_iff in H. destruct H as (((((Hl & _) & _) & _) & _) & _).
  rewrite Forall_forall in Fm, Ff. split; [rewrite (names_ok_length _ _ Hl); exact Hn|]. split; [exact Nf|]. split.
  - intros f Hf. specialize (Ff f Hf). unfold wf_field in Ff. rewrite andb_true_iff in Ff. destruct Ff as [Ff _].
    unfold f_good. rewrite (names_ok_length _ _ Ff). exact Hn.
  - split; [exact Nm|]. intros m Hm. apply (wf_meth_good n); [exact Hn|exact (Fm m Hm)].
Qed.

Lemma apply_ns_same tns i1 i2 ns r : (tns < length ns)%nat ->
  apply_ns tns i1 ns = Ok r -> apply_ns tns i2 ns = Ok r -> eff i1 = eff i2.
Proof.
  intros Hl H1 H2.
  assert (E : forall i, apply_ns tns i ns = Ok r -> eff i = eff (from_tuple (Some (nth tns ns [])) (Some (nth tns r [])))).
  { intros i H. destruct i as [|b|a|a b]; cbn [apply_ns] in H; try discriminate.
    - injection H as <-. cbn [from_tuple eff]. rewrite str_eqb_refl. reflexivity.
    - destruct (str_eqb (nth tns ns []) a) eqn:E; [|discriminate]. apply str_eqb_eq in E. injection H as <-.
      rewrite nth_set_nth by exact Hl. rewrite E. reflexivity. }
  rewrite (E i1 H1), (E i2 H2). reflexivity.
Qed.

(* Theorem: two diffs that lead from the same mapping set to the same mapping set are the same up to no-ops *)
Theorem diff_unique tns d1 d2 t r1 r2 :
  wf t = true -> (tns < length (ms_ns t))%nat -> d_good d1 -> d_good d2 ->
  apply_at tns d1 t = Ok r1 -> apply_at tns d2 t = Ok r2 -> mequiv r1 r2 -> same_diff d1 d2.
Proof.
  intros Hwf Hn (N1 & G1) (N2 & G2) A1 A2 (Ens & Edoc & (_ & _ & Ecs)).
  destruct (wf_nodup t Hwf) as (Nt & Ft & _). rewrite Forall_forall in Ft.
  assert (Hn0 : length (ms_ns t) <> O) by lia.
  unfold apply_at in A1, A2.
  apply bind_ok in A1. destruct A1 as (ns1 & I1 & A1). apply bind_ok in A1. destruct A1 as (x1 & X1 & A1).
  apply bind_ok in A1. destruct A1 as (cs1 & C1 & [= <-]).
  apply bind_ok in A2. destruct A2 as (ns2 & I2 & A2). apply bind_ok in A2. destruct A2 as (x2 & X2 & A2).
  apply bind_ok in A2. destruct A2 as (cs2 & C2 & [= <-]).
  cbn [ms_ns ms_doc ms_classes] in *. subst ns2 x2. split; [|split].
  - exact (apply_ns_same tns _ _ _ _ Hn I1 I2).
  - exact (apply_option_same_effect _ _ _ _ X1 X2).
  - apply (map_unique (Lclass (length (ms_ns t)) tns) (Lclass_ok _ tns Hn0) _ _ _ _ _ _ (Lclass_u _ tns Hn) class_eqv_sym
             (d_classes d1) (d_classes d2) (ms_classes t) cs1 cs2 N1 N2 Nt); [|exact G1|exact G2|exact C1|exact C2|exact Ecs].
    intros c Hc. apply (wf_class_good (length (ms_ns t))); [exact Hn|exact (Ft c Hc)].
Qed.

(* a diff that leaves the mapping set as it is has no effective action *)
Theorem apply_identity_noop tns d t r :
  wf t = true -> (tns < length (ms_ns t))%nat -> d_good d ->
  apply_at tns d t = Ok r -> mequiv r t ->
  eff (d_info d) = ANone /\ eff (d_doc d) = ANone /\ forall cd, In cd (d_classes d) -> eff (cd_info cd) = ANone /\ cd_noop cd.
Proof.
  intros Hwf Hn (N1 & G1) A (Ens & Edoc & (_ & _ & Ecs)).
  destruct (wf_nodup t Hwf) as (Nt & Ft & _). rewrite Forall_forall in Ft.
  assert (Hn0 : length (ms_ns t) <> O) by lia.
  unfold apply_at in A.
  apply bind_ok in A. destruct A as (ns1 & I1 & A). apply bind_ok in A. destruct A as (x1 & X1 & A).
  apply bind_ok in A. destruct A as (cs1 & C1 & [= <-]).
  cbn [ms_ns ms_doc ms_classes] in *. subst ns1 x1. split; [|split].
  - rewrite (apply_ns_same tns (d_info d) ANone (ms_ns t) (ms_ns t) Hn I1 eq_refl). reflexivity.
  - exact (apply_option_id_noop _ _ X1).
  - apply (map_noop_conv (Lclass (length (ms_ns t)) tns) (Lclass_ok _ tns Hn0) _ _ _ _ _ _ (Lclass_u _ tns Hn) class_eqv_sym
             (d_classes d) (ms_classes t) cs1 N1 Nt); [|exact G1|exact C1|exact Ecs].
    intros c Hc. apply (wf_class_good (length (ms_ns t))); [exact Hn|exact (Ft c Hc)].
Qed.

(* ---- with MappingsDiff::diff as one of the two ---- *)
Lemma level_spec_some {K T W} (espec : K -> comb T -> W -> Prop) k oa ob w :
  level_spec espec k oa ob (Some w) -> exists c, espec k c w.
Proof. unfold level_spec. destruct (comb_of oa ob) as [c|]; [eauto|contradiction]. Qed.

Lemma diff_good A B d : wf A = true -> wf B = true -> diff A B = Ok d -> d_good d.
Proof.
  intros HA HB H. destruct (diff_exact A B d HA HB H) as (_ & _ & Nc & Hc). split; [exact Nc|].
  intros cd Hcd. specialize (Hc (cd_name cd)). unfold cdfind in Hc. rewrite (find_key_in _ str_eqb_ok _ _ _ Nc Hcd) in Hc.
  destruct (level_spec_some _ _ _ _ _ Hc) as (c & _ & _ & _ & Nf & _ & Nm & Hm). split; [exact Nf|]. split; [exact Nm|].
  intros md Hmd. specialize (Hm (mdkey md)). unfold mdfind in Hm. rewrite (find_key_in _ key2_eqb_ok _ _ _ Nm Hmd) in Hm.
  destruct (level_spec_some _ _ _ _ _ Hm) as (c' & _ & _ & _ & Np & _). exact Np.
Qed.

Lemma index_of_lt s l i : index_of s l = Some i -> (i < length l)%nat.
Proof. intros H. apply index_of_spec in H. tauto. Qed.

(* every diff that leads from A to B is diff A B up to no-ops *)
Theorem diff_unique_AB A B d r :
  inverse_hyps A B -> f3_class A B = false -> d_good d ->
  apply_to d A (nth 1 (ms_ns A) []) = Ok r -> mequiv r B ->
  exists d0, diff A B = Ok d0 /\ same_diff d d0.
Proof.
  intros Hh H3 Gd Ha Hr. destruct (diff_apply_partial A B Hh H3) as (d0 & r0 & Hd & Ha0 & Hr0).
  destruct Hh as (HwA & HwB & _). exists d0. split; [exact Hd|].
  apply apply_to_lookup in Ha. destruct Ha as (tns & Hi & Ha).
  apply apply_to_lookup in Ha0. destruct Ha0 as (tns0 & Hi0 & Ha0). rewrite Hi in Hi0. injection Hi0 as <-.
  apply (diff_unique tns d d0 A r r0 HwA (index_of_lt _ _ _ Hi) Gd (diff_good A B d0 HwA HwB Hd) Ha Ha0).
  apply (mequiv_trans r B r0 Hr). apply mequiv_sym. exact Hr0.
Qed.

(* ---- the vocabulary, unfolded ---- *)
Theorem same_diff_vocabulary :
  (forall a, eff a = match a with AEdit x y => if str_eqb x y then ANone else a | _ => a end)
  /\ (forall a, eff a = ANone <-> is_diff str_eqb a = false)
  /\ (forall {D} (info : D -> action str) csame cnoop o1 o2, ent_same info csame cnoop o1 o2 <->
        match o1, o2 with
        | None, None => True
        | Some d, None | None, Some d => eff (info d) = ANone /\ cnoop d
        | Some d1, Some d2 => eff (info d1) = eff (info d2) /\ (is_rem (info d1) = true \/ csame d1 d2)
        end)
  /\ (forall d1 d2, same_diff d1 d2 <->
        eff (d_info d1) = eff (d_info d2) /\ eff (d_doc d1) = eff (d_doc d2)
        /\ forall k, ent_same cd_info cd_same cd_noop (cdfind k (d_classes d1)) (cdfind k (d_classes d2)))
  /\ (forall d1 d2, cd_same d1 d2 <->
        eff (cd_doc d1) = eff (cd_doc d2)
        /\ (forall k, ent_same fd_info fd_same fd_noop (fdfind k (cd_fields d1)) (fdfind k (cd_fields d2)))
        /\ (forall k, ent_same md_info md_same md_noop (mdfind k (cd_methods d1)) (mdfind k (cd_methods d2))))
  /\ (forall d, cd_noop d <->
        eff (cd_doc d) = ANone /\ (forall f, In f (cd_fields d) -> eff (fd_info f) = ANone /\ fd_noop f)
        /\ (forall m, In m (cd_methods d) -> eff (md_info m) = ANone /\ md_noop m))
  /\ (forall d1 d2, md_same d1 d2 <->
        eff (md_doc d1) = eff (md_doc d2)
        /\ forall k, ent_same pd_info pd_same pd_noop (pdfind k (md_params d1)) (pdfind k (md_params d2)))
  /\ (forall d, md_noop d <->
        eff (md_doc d) = ANone /\ forall p, In p (md_params d) -> eff (pd_info p) = ANone /\ pd_noop p)
  /\ (forall d1 d2, fd_same d1 d2 <-> eff (fd_doc d1) = eff (fd_doc d2)) /\ (forall d, fd_noop d <-> eff (fd_doc d) = ANone)
  /\ (forall d1 d2, pd_same d1 d2 <-> eff (pd_doc d1) = eff (pd_doc d2)) /\ (forall d, pd_noop d <-> eff (pd_doc d) = ANone)
  /\ (forall d, d_good d <-> NoDup (map cd_name (d_classes d)) /\ forall cd, In cd (d_classes d) ->
        NoDup (map fdkey (cd_fields cd)) /\ NoDup (map mdkey (cd_methods cd))
        /\ forall md, In md (cd_methods cd) -> NoDup (map pd_index (md_params md)))
  /\ (forall d, wf_diff d = true -> d_good d).
Proof.
  split; [reflexivity|]. split; [exact eff_noop|]. split; [intros D info csame cnoop [d1|] [d2|]; reflexivity|].
  repeat (split; [reflexivity|]). exact wf_diff_good.
Qed.

(* [same_diff] relates a diff to itself, is symmetric, and tells apart what differs in effect *)
Lemma ent_same_refl {D} (info : D -> action str) (csame : D -> D -> Prop) cnoop o :
  (forall d, o = Some d -> csame d d) -> ent_same info csame cnoop o o.
Proof. intros H. destruct o as [d|]; cbn [ent_same]; [|exact I]. split; [reflexivity|]. right. apply H. reflexivity. Qed.

Theorem same_diff_refl d : same_diff d d.
Proof.
  split; [reflexivity|]. split; [reflexivity|]. intros k. apply ent_same_refl. intros cd _.
  split; [reflexivity|]. split; intros k'; apply ent_same_refl.
  - intros fd _. reflexivity.
  - intros md _. split; [reflexivity|]. intros kp. apply ent_same_refl. intros pd _. reflexivity.
Qed.

(* a diff without effective action is the same as the empty diff *)
Lemma noop_same_empty d : noop_diff d = true -> same_diff d (mkDiff ANone ANone []).
Proof.
  unfold noop_diff. rewrite !andb_true_iff. intros [[H1 H2] H3]. rewrite forallb_forall in H3.
  apply negb_true_false in H1, H2. split; [apply eff_noop; exact H1|]. split; [apply eff_noop; exact H2|].
  intros k. cbn [d_classes cdfind find_key]. change (cdfind k []) with (@None cdiff).
  destruct (cdfind k (d_classes d)) as [cd|] eqn:E; cbn [ent_same]; [|exact I].
  destruct (find_key_some _ str_eqb_ok _ _ _ _ E) as [Hin _].
  destruct (noop_class_parts cd (H3 cd Hin)) as (I1 & I2 & I3 & I4).
  split; [apply eff_noop; exact I1|]. split; [apply eff_noop; exact I2|]. split.
  - intros f Hf. specialize (I3 f Hf). unfold noop_field in I3. rewrite andb_true_iff in I3. destruct I3 as [A B].
    apply negb_true_false in A, B. split; apply eff_noop; assumption.
  - intros m Hm. destruct (noop_meth_parts m (I4 m Hm)) as (J1 & J2 & J3).
    split; [apply eff_noop; exact J1|]. split; [apply eff_noop; exact J2|].
    intros p Hp. specialize (J3 p Hp). unfold noop_param in J3. rewrite andb_true_iff in J3. destruct J3 as [A B].
    apply negb_true_false in A, B. split; apply eff_noop; assumption.
Qed.

(* non-vacuity.  (1) the self-diff of ex_A is not the empty diff but the same up to no-ops; (2) the diff from ex_A
   to ex_B is not; (3) two edits to different values are told apart; (4) a hand-written diff that leads from uq_A
   to uq_B - None where diff writes Edit(x,x), and rubbish below a removal - is not diff uq_A uq_B, satisfies the
   hypotheses of diff_unique_AB, hence is the same up to no-ops *)
Definition uq_A : mappings :=
  mkMappings ns2 None
    [ mkClass [Some [97]; Some [65]] None [mkField [73] [Some [102]; Some [70]] None] [];
      mkClass [Some [99]; Some [67]] None [mkField [73] [Some [103]; Some [71]] None] [] ].
Definition uq_B : mappings :=
  mkMappings ns2 None [ mkClass [Some [97]; Some [65]] None [mkField [73] [Some [102]; Some [70; 70]] None] [] ].
Definition uq_d : mdiffs :=
  mkDiff ANone ANone
    [ mkCD [99] (ARem [67]) (AAdd [63]) [mkFD [103] [73] (AEdit [120] [121]) ANone; mkFD [104] [73] (AAdd [122]) ANone] [];
      mkCD [97] ANone ANone [mkFD [102] [73] (AEdit [70] [70; 70]) ANone] [] ].

Definition unique_examples : Prop :=
  (exists d, diff ex_A ex_A = Ok d /\ d <> mkDiff ANone ANone [] /\ same_diff d (mkDiff ANone ANone []))
  /\ (exists d, diff ex_A ex_B = Ok d /\ ~ same_diff d (mkDiff ANone ANone []))
  /\ (forall a b c : str, b <> c -> ~ same_diff (mkDiff ANone (AEdit a b) []) (mkDiff ANone (AEdit a c) []))
  /\ (inverse_hyps uq_A uq_B /\ f3_class uq_A uq_B = false /\ wf_diff uq_d = true
      /\ (exists r, apply_to uq_d uq_A [110] = Ok r /\ mequiv r uq_B)
      /\ exists d0, diff uq_A uq_B = Ok d0 /\ d0 <> uq_d /\ same_diff uq_d d0).

Lemma unique_examples_hold : unique_examples.
Proof.
  split; [|split; [|split]].
  - destruct (diff_self ex_A) as (d & r & Hd & Hn & _); try (vm_compute; reflexivity).
    exists d. split; [exact Hd|]. split; [|exact (noop_same_empty d Hn)].
    intros ->. vm_compute in Hd. discriminate.
  - destruct (diff ex_A ex_B) as [d|] eqn:Hd; [|vm_compute in Hd; discriminate]. exists d. split; [reflexivity|].
    intros (_ & _ & H). specialize (H [100]). vm_compute in Hd. injection Hd as <-. vm_compute in H. destruct H as [H _]. discriminate.
  - intros a b c Hbc (_ & H & _). cbn [d_doc eff] in H.
    destruct (str_eqb a b) eqn:Eab, (str_eqb a c) eqn:Eac; try discriminate.
    + apply str_eqb_eq in Eab, Eac. congruence.
    + injection H as H. congruence.
  - assert (Hh : inverse_hyps uq_A uq_B) by (repeat split; vm_compute; reflexivity).
    assert (H3 : f3_class uq_A uq_B = false) by (vm_compute; reflexivity).
    assert (Hw : wf_diff uq_d = true) by (vm_compute; reflexivity).
    assert (Ha : apply_to uq_d uq_A [110] = Ok uq_B) by (vm_compute; reflexivity).
    assert (Hm : mequiv uq_B uq_B) by (apply mequiv_refl; vm_compute; reflexivity).
    split; [exact Hh|]. split; [exact H3|]. split; [exact Hw|]. split; [exists uq_B; split; assumption|].
    destruct (diff_unique_AB uq_A uq_B uq_d uq_B Hh H3 (wf_diff_good _ Hw) Ha Hm) as (d0 & Hd & Hs).
    exists d0. split; [exact Hd|]. split; [|exact Hs]. intros ->. vm_compute in Hd. discriminate.
Qed.
