(* C04: the two-column action decoding (TinyLine::action / action_string) specified for ALL cell
   lists: what it returns, exactly when it refuses, what the decoded action does to a target, and
   that printing a decoded action gives a line that decodes to the same action. *)
From FB Require Import C04.Model3.
From Coq Require Import Lia PeanoNat Arith NArith.

Lemma fold_noop_edit x y : fold_noop (AEdit x y) = if str_eqb x y then ANone else AEdit x y.
Proof. unfold fold_noop. cbn [is_diff]. destruct (str_eqb x y); reflexivity. Qed.

Lemma cell_spec valid (x : str) :
  cell valid (Some x) = if is_nil x || valid x then Ok (nonempty x) else Err.
Proof. destruct x as [|c x]; [reflexivity|]. cbn [cell is_nil orb nonempty]. destruct (valid (c :: x)); reflexivity. Qed.

(* 1. the code's decoding is the declarative reading *)
Lemma decode_action_is_spec valid fs : decode_action valid fs = decode_spec valid fs.
Proof.
  unfold decode_spec, column, cells_ok.
  destruct fs as [|x [|y [|z r]]].
  - reflexivity.
  - unfold decode_action. cbn [nth_error length Nat.ltb Nat.leb forallb nth]. rewrite cell_spec. rewrite andb_true_r.
    destruct (is_nil x || valid x); [|reflexivity]. cbn [bind cell nonempty].
    destruct (nonempty x); reflexivity.
  - unfold decode_action. cbn [nth_error length Nat.ltb Nat.leb forallb nth]. rewrite !cell_spec. rewrite andb_true_r.
    destruct (is_nil x || valid x); [|reflexivity]. cbn [bind andb].
    destruct (is_nil y || valid y); [|reflexivity]. cbn [bind].
    destruct (nonempty x) as [x'|], (nonempty y) as [y'|]; cbn [from_tuple]; try reflexivity.
    rewrite fold_noop_edit. reflexivity.
  - reflexivity.
Qed.

(* 2. exactly when a line is refused *)
Lemma cells_ok_false valid fs :
  cells_ok valid fs = false <-> exists x, In x fs /\ x <> [] /\ valid x = false.
Proof.
  unfold cells_ok. induction fs as [|c fs IH]; cbn [forallb In].
  - split; [discriminate|intros (x & [] & _)].
  - rewrite andb_false_iff, IH. split.
    + intros [H|(x & Hin & H)].
      * exists c. apply orb_false_iff in H. destruct H as [Hn Hv]. split; [left; reflexivity|].
        split; [|exact Hv]. intros ->. discriminate.
      * exists x. split; [right; exact Hin|exact H].
    + intros (x & [->|Hin] & Hne & Hv).
      * left. apply orb_false_iff. split; [|exact Hv]. destruct x; [contradiction|reflexivity].
      * right. exists x. split; [exact Hin|]. split; assumption.
Qed.

Lemma decode_action_err_iff valid fs :
  decode_action valid fs = Err <->
  ((2 < length fs)%nat \/ exists x, In x fs /\ x <> [] /\ valid x = false).
Proof.
  rewrite decode_action_is_spec. unfold decode_spec.
  destruct (Nat.ltb 2 (length fs)) eqn:L.
  - apply Nat.ltb_lt in L. split; [intros _; left; exact L|reflexivity].
  - apply Nat.ltb_ge in L. destruct (cells_ok valid fs) eqn:C.
    + split; [discriminate|]. intros [H|H]; [lia|]. apply cells_ok_false in H. congruence.
    + split; [intros _; right; apply cells_ok_false; exact C|reflexivity].
Qed.

(* 3. what the decoded action does: with equal columns nothing is checked and nothing changes;
   otherwise the target must be the old column and becomes the new column *)
Lemma fold_from_tuple_apply (o n t r : option str) :
  apply_option str_eqb (fold_noop (from_tuple o n)) t = Ok r <->
  ((o = n /\ r = t) \/ (o <> n /\ t = o /\ r = n)).
Proof.
  destruct o as [x|], n as [y|]; cbn [from_tuple].
  - rewrite fold_noop_edit. destruct (str_eqb_spec x y) as [->|Hxy].
    + cbn [apply_option]. split.
      * intros [= <-]. left. split; reflexivity.
      * intros [[_ ->]|[H _]]; [reflexivity|contradiction H; reflexivity].
    + assert (Hne : Some x <> Some y) by (intros [= E]; exact (Hxy E)).
      destruct t as [z|]; cbn [apply_option].
      * destruct (str_eqb_spec z x) as [->|Hzx].
        -- split.
           ++ intros [= <-]. right. repeat split; [exact Hne].
           ++ intros [[E _]|(_ & _ & ->)]; [contradiction (Hne E)|reflexivity].
        -- split; [discriminate|]. intros [[E _]|(_ & [= E] & _)]; [contradiction (Hne E)|contradiction (Hzx E)].
      * split; [discriminate|]. intros [[E _]|(_ & E & _)]; [contradiction (Hne E)|discriminate].
  - unfold fold_noop. cbn [is_diff]. destruct t as [z|]; cbn [apply_option].
    + destruct (str_eqb_spec z x) as [->|Hzx].
      * split.
        -- intros [= <-]. right. repeat split. discriminate.
        -- intros [[E _]|(_ & _ & ->)]; [discriminate|reflexivity].
      * split; [discriminate|]. intros [[E _]|(_ & [= E] & _)]; [discriminate|contradiction (Hzx E)].
    + split; [discriminate|]. intros [[E _]|(_ & E & _)]; discriminate.
  - unfold fold_noop. cbn [is_diff]. destruct t as [z|]; cbn [apply_option].
    + split; [discriminate|]. intros [[E _]|(_ & E & _)]; discriminate.
    + split.
      * intros [= <-]. right. repeat split. discriminate.
      * intros [[E _]|(_ & _ & ->)]; [discriminate|reflexivity].
  - unfold fold_noop. cbn [is_diff apply_option]. split.
    + intros [= <-]. left. split; reflexivity.
    + intros [[_ ->]|[H _]]; [reflexivity|contradiction H; reflexivity].
Qed.

Lemma decode_action_ok valid fs a :
  decode_action valid fs = Ok a ->
  (length fs <= 2)%nat /\ cells_ok valid fs = true /\ a = fold_noop (from_tuple (column fs 0) (column fs 1)).
Proof.
  rewrite decode_action_is_spec. unfold decode_spec.
  destruct (Nat.ltb 2 (length fs)) eqn:L; [discriminate|]. apply Nat.ltb_ge in L.
  destruct (cells_ok valid fs); [|discriminate]. intros [= <-]. repeat split. exact L.
Qed.

Lemma decode_action_apply valid fs a :
  decode_action valid fs = Ok a -> forall t r,
  apply_option str_eqb a t = Ok r <->
  ((column fs 0 = column fs 1 /\ r = t) \/
   (column fs 0 <> column fs 1 /\ t = column fs 0 /\ r = column fs 1)).
Proof. intros H t r. apply decode_action_ok in H. destruct H as (_ & _ & ->). apply fold_from_tuple_apply. Qed.

(* 4. the image: every decoded action is expressible (no empty value, never Edit(x,x)), its values
   passed the checked constructor, and writing it with our printer's cells gives a line that
   decodes to the same action; conversely every such action is the decoding of its printed cells *)
Lemma nonempty_some (x s : str) : nonempty x = Some s -> s = x /\ s <> [].
Proof. destruct x; [discriminate|]. intros [= <-]. split; [reflexivity|discriminate]. Qed.

Lemma cells_ok_nth valid fs i s : cells_ok valid fs = true -> column fs i = Some s -> valid s = true.
Proof.
  unfold cells_ok, column. intros H E. apply nonempty_some in E. destruct E as [-> Hne].
  rewrite forallb_forall in H.
  destruct (nth_in_or_default i fs []) as [Hin|Hd]; [|contradiction (Hne Hd)].
  specialize (H _ Hin). destruct (nth i fs []) eqn:En; [contradiction Hne; reflexivity|exact H].
Qed.

Lemma decode_action_image valid fs a :
  decode_action valid fs = Ok a ->
  line_normal a = true /\ action_all valid a = true /\ decode_action valid (action_cells a) = Ok a.
Proof.
  intros H. apply decode_action_ok in H. destruct H as (_ & C & ->).
  pose proof (fun s => cells_ok_nth valid fs 0 s C) as V0. pose proof (fun s => cells_ok_nth valid fs 1 s C) as V1.
  destruct (column fs 0) as [x|] eqn:E0, (column fs 1) as [y|] eqn:E1; cbn [from_tuple].
  - pose proof (V0 x eq_refl) as Vx. pose proof (V1 y eq_refl) as Vy.
    unfold column in E0, E1. apply nonempty_some in E0, E1. destruct E0 as [_ Nx], E1 as [_ Ny].
    rewrite fold_noop_edit. destruct (str_eqb x y) eqn:Exy.
    + repeat split.
    + destruct x as [|cx x]; [contradiction Nx; reflexivity|]. destruct y as [|cy y]; [contradiction Ny; reflexivity|].
      cbn [line_normal is_nil negb andb action_all action_cells]. rewrite Exy, Vx, Vy. repeat split.
      unfold decode_action. cbn [nth_error cell]. rewrite Vx, Vy. cbn [bind]. rewrite Exy. reflexivity.
  - pose proof (V0 x eq_refl) as Vx. unfold column in E0. apply nonempty_some in E0. destruct E0 as [_ Nx].
    unfold fold_noop. cbn [is_diff]. destruct x as [|cx x]; [contradiction Nx; reflexivity|].
    cbn [line_normal is_nil negb action_all action_cells]. rewrite Vx. repeat split.
    unfold decode_action. cbn [nth_error cell]. rewrite Vx. reflexivity.
  - pose proof (V1 y eq_refl) as Vy. unfold column in E1. apply nonempty_some in E1. destruct E1 as [_ Ny].
    unfold fold_noop. cbn [is_diff]. destruct y as [|cy y]; [contradiction Ny; reflexivity|].
    cbn [line_normal is_nil negb action_all action_cells]. rewrite Vy. repeat split.
    unfold decode_action. cbn [nth_error cell]. rewrite Vy. reflexivity.
  - repeat split.
Qed.

Lemma decode_action_onto valid a :
  line_normal a = true -> action_all valid a = true -> decode_action valid (action_cells a) = Ok a.
Proof.
  destruct a as [|b|x|x y]; cbn [line_normal action_all action_cells]; intros N V.
  - reflexivity.
  - destruct b; [discriminate|]. unfold decode_action. cbn [nth_error cell]. rewrite V. reflexivity.
  - destruct x; [discriminate|]. unfold decode_action. cbn [nth_error cell]. rewrite V. reflexivity.
  - rewrite !andb_true_iff in N. destruct N as [[Nx Ny] Nxy]. apply andb_true_iff in V. destruct V as [Vx Vy].
    destruct x; [discriminate|]. destruct y; [discriminate|].
    unfold decode_action. cbn [nth_error cell]. rewrite Vx, Vy. cbn [bind].
    apply negb_true_iff in Nxy. rewrite Nxy. reflexivity.
Qed.

(* comment lines: the same decoding on the raw cells without any validity check, then unescape *)
Lemma comment_action_is_spec fs : comment_action fs = comment_spec fs.
Proof.
  unfold comment_action, comment_spec. rewrite decode_action_is_spec. unfold decode_spec.
  destruct (Nat.ltb 2 (length fs)); [reflexivity|].
  assert (C : cells_ok (fun _ => true) fs = true).
  { unfold cells_ok. apply forallb_forall. intros x _. apply orb_true_r. }
  rewrite C. reflexivity.
Qed.

Lemma line_action_is_spec k fs : line_action k fs = line_spec k fs.
Proof.
  unfold line_spec. destruct (N.ltb k 4) eqn:L.
  - apply N.ltb_lt in L. assert (H : (k = 0 \/ k = 1 \/ k = 2 \/ k = 3)%N) by lia.
    destruct H as [ -> | [ -> | [ -> | -> ] ] ]; apply decode_action_is_spec.
  - destruct k as [|[[q|q|]|[q|q|]|]]; try (vm_compute in L; discriminate L); apply comment_action_is_spec.
Qed.

(* non-vacuity: the four outcomes, a refusal of each kind, and the quirk of comment lines (two
   different raw cells that unescape to the same text give Edit(x,x)) *)
Definition line_examples : Prop :=
  decode_action is_valid_unqualified_name [] = Ok ANone
  /\ decode_action is_valid_unqualified_name [[97]; []] = Ok (ARem [97])
  /\ decode_action is_valid_unqualified_name [[]; [98]] = Ok (AAdd [98])
  /\ decode_action is_valid_unqualified_name [[97]; [98]] = Ok (AEdit [97] [98])
  /\ decode_action is_valid_unqualified_name [[97]; [97]] = Ok ANone
  /\ decode_action is_valid_unqualified_name [[]; []; []] = Err
  /\ decode_action is_valid_unqualified_name [[97; 47; 98]] = Err
  /\ decode_action is_valid_obj_class_name [[97; 47; 98]] = Ok (ARem [97; 47; 98])
  /\ line_action 4 [[92; 120]; [92; 92; 120]] = Ok (AEdit [92; 120] [92; 120])
  /\ line_action 4 [[92; 110]; [10]] = Ok (AEdit [10] [10])
  /\ line_action 4 [[32]] = Ok (ARem [32]).
Lemma line_examples_hold : line_examples.
Proof. unfold line_examples. repeat split; vm_compute; reflexivity. Qed.
