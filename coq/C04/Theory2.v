(* C04 theory, part 2: MappingsDiff::diff — when it fails, and apply (diff A B) A ≡ B. *)
From FB Require Export C04.Theory.
From Coq Require Import Permutation Arith PeanoNat.

(* ------------------------------------------------------------------ *)
(* map_res and the key zip *)

Lemma map_res_keyed {X K W} (keqb : K -> K -> bool) (HK : keqb_ok keqb) (kx : X -> K) (dkey : W -> K)
    (h : X -> res W) (l : list X) :
  (forall x w, In x l -> h x = Ok w -> dkey w = kx x) -> NoDup (map kx l) ->
  match map_res h l with
  | Ok ds => map dkey ds = map kx l
             /\ forall x, In x l -> exists w, h x = Ok w /\ find_key keqb dkey (kx x) ds = Some w
  | Err => exists x, In x l /\ h x = Err
  end.
Proof.
  induction l as [|x l IH]; intros Hk Hnd; cbn [map_res].
  - split; [reflexivity|intros x []].
  - cbn [map] in Hnd. inversion Hnd as [|? ? Hni Hnd']; subst.
    destruct (h x) as [w|] eqn:Ex; cbn [bind]; [|exists x; split; [left; reflexivity|exact Ex]].
    assert (IH' := IH (fun y v Hy => Hk y v (or_intror Hy)) Hnd'). clear IH.
    destruct (map_res h l) as [ds|]; cbn [bind].
    + destruct IH' as [I1 I2]. assert (Hw : dkey w = kx x) by (apply Hk; [left; reflexivity|exact Ex]).
      split; [cbn [map]; rewrite Hw, I1; reflexivity|].
      intros y [<-|Hy].
      * exists w. split; [exact Ex|]. cbn [find_key]. rewrite Hw, keqb_refl by exact HK. reflexivity.
      * destruct (I2 y Hy) as (v & Hv1 & Hv2). exists v. split; [exact Hv1|].
        cbn [find_key]. rewrite Hw. rewrite keqb_neq; [exact Hv2|exact HK|].
        intros E. apply Hni. rewrite <- E. apply in_map. exact Hy.
    + destruct IH' as (y & Hy & Ey). exists y. split; [right; exact Hy|exact Ey].
Qed.

Definition sideA {T} (ab : comb (list T)) : list T := match ab with CA a => a | CB _ => [] | CAB a _ => a end.
Definition sideB {T} (ab : comb (list T)) : list T := match ab with CA _ => [] | CB b => b | CAB _ b => b end.

(* what diff computes for one key *)
Definition zip_entry {K T W} (f : K -> comb T -> res W) (k : K) (oa ob : option T) : res (option W) :=
  match oa, ob with
  | None, None => Ok None
  | Some x, None => do w <- f k (CA x); Ok (Some w)
  | None, Some y => do w <- f k (CB y); Ok (Some w)
  | Some x, Some y => do w <- f k (CAB x y); Ok (Some w)
  end.

Lemma zip_keys_nodup {K T} (keqb : K -> K -> bool) (HK : keqb_ok keqb) (key : T -> K) a b :
  NoDup (map key a) -> NoDup (map key b) -> NoDup (zip_keys keqb key a b).
Proof.
  intros Ha Hb. unfold zip_keys. apply NoDup_app_iff'. split; [exact Ha|]. split.
  - apply NoDup_filter. exact Hb.
  - intros k Hk1 Hk2. apply filter_In in Hk2. destruct Hk2 as [_ Hk2].
    apply negb_true_iff in Hk2.
    assert (E : existsb (keqb k) (map key a) = true) by (apply existsb_exists; exists k; split; [exact Hk1|apply HK; reflexivity]).
    congruence.
Qed.

Lemma zip_keys_in {K T} (keqb : K -> K -> bool) (HK : keqb_ok keqb) (key : T -> K) a b k :
  In k (zip_keys keqb key a b) <-> In k (map key a) \/ In k (map key b).
Proof.
  unfold zip_keys. rewrite in_app_iff, filter_In. split.
  - intros [H|[H _]]; auto.
  - intros [H|H]; [left; exact H|].
    destruct (in_dec_keys keqb HK k (map key a)) as [Hin|Hnin]; [left; exact Hin|right].
    split; [exact H|]. apply negb_true_iff. destruct (existsb (keqb k) (map key a)) eqn:E; [|reflexivity].
    apply existsb_exists in E. destruct E as (y & Hy & Ey). apply HK in Ey. subst. contradiction.
Qed.

Theorem zip_comb_spec {K T W} (keqb : K -> K -> bool) (HK : keqb_ok keqb) (key : T -> K) (dkey : W -> K)
    (ab : comb (list T)) (f : K -> comb T -> res W) :
  (forall k c w, f k c = Ok w -> dkey w = k) ->
  NoDup (map key (sideA ab)) -> NoDup (map key (sideB ab)) ->
  match zip_comb keqb key ab f with
  | Ok ds => NoDup (map dkey ds)
             /\ forall k, zip_entry f k (find_key keqb key k (sideA ab)) (find_key keqb key k (sideB ab))
                          = Ok (find_key keqb dkey k ds)
  | Err => exists k, zip_entry f k (find_key keqb key k (sideA ab)) (find_key keqb key k (sideB ab)) = Err
  end.
Proof.
  intros Hf Ha Hb. destruct ab as [a|b|a b]; cbn [zip_comb sideA sideB] in *.
  - pose proof (map_res_keyed keqb HK key dkey (fun x => f (key x) (CA x)) a (fun x w _ H => Hf _ _ _ H) Ha) as H.
    destruct (map_res (fun x => f (key x) (CA x)) a) as [ds|].
    + destruct H as [H1 H2]. split; [rewrite H1; exact Ha|].
      intros k. cbn [find_key]. destruct (find_key keqb key k a) as [x|] eqn:E.
      * destruct (find_key_some keqb HK key k a x E) as [Hin Hk]. destruct (H2 x Hin) as (w & Hw1 & Hw2).
        cbn [zip_entry]. rewrite <- Hk at 1. rewrite Hw1. cbn [bind]. rewrite <- Hk. rewrite Hw2. reflexivity.
      * cbn [zip_entry]. f_equal. symmetry. apply find_key_none; [exact HK|]. rewrite H1.
        apply find_key_none in E; [exact E|exact HK].
    + destruct H as (x & Hin & Ex). exists (key x). cbn [find_key].
      rewrite (find_key_in keqb HK key a x Ha Hin). cbn [zip_entry]. rewrite Ex. reflexivity.
  - pose proof (map_res_keyed keqb HK key dkey (fun y => f (key y) (CB y)) b (fun x w _ H => Hf _ _ _ H) Hb) as H.
    destruct (map_res (fun y => f (key y) (CB y)) b) as [ds|].
    + destruct H as [H1 H2]. split; [rewrite H1; exact Hb|].
      intros k. cbn [find_key]. destruct (find_key keqb key k b) as [x|] eqn:E.
      * destruct (find_key_some keqb HK key k b x E) as [Hin Hk]. destruct (H2 x Hin) as (w & Hw1 & Hw2).
        cbn [zip_entry]. rewrite <- Hk at 1. rewrite Hw1. cbn [bind]. rewrite <- Hk. rewrite Hw2. reflexivity.
      * cbn [zip_entry]. f_equal. symmetry. apply find_key_none; [exact HK|]. rewrite H1.
        apply find_key_none in E; [exact E|exact HK].
    + destruct H as (x & Hin & Ex). exists (key x). cbn [find_key].
      rewrite (find_key_in keqb HK key b x Hb Hin). cbn [zip_entry]. rewrite Ex. reflexivity.
  - unfold zip_map.
    set (h := fun k => match find_key keqb key k a, find_key keqb key k b with
                       | Some x, None => f k (CA x) | None, Some y => f k (CB y)
                       | Some x, Some y => f k (CAB x y) | None, None => Err end).
    pose proof (map_res_keyed keqb HK (fun k => k) dkey h (zip_keys keqb key a b)) as H.
    rewrite map_id in H.
    assert (Hh : forall k w, h k = Ok w -> dkey w = k).
    { intros k w. unfold h. destruct (find_key keqb key k a), (find_key keqb key k b); try discriminate; apply Hf. }
    specialize (H (fun k w _ E => Hh k w E) (zip_keys_nodup keqb HK key a b Ha Hb)).
    assert (Hze : forall k, In k (zip_keys keqb key a b) ->
              zip_entry f k (find_key keqb key k a) (find_key keqb key k b) = do w <- h k; Ok (Some w)).
    { intros k Hk. unfold h. destruct (find_key keqb key k a) eqn:Ea, (find_key keqb key k b) eqn:Eb; try reflexivity.
      exfalso. apply zip_keys_in in Hk; [|exact HK]. apply find_key_none in Ea, Eb; try exact HK. tauto. }
    destruct (map_res h (zip_keys keqb key a b)) as [ds|].
    + destruct H as [H1 H2]. split; [rewrite H1; apply zip_keys_nodup; assumption|].
      intros k. destruct (in_dec_keys keqb HK k (zip_keys keqb key a b)) as [Hin|Hnin].
      * rewrite (Hze k Hin). destruct (H2 k Hin) as (w & Hw1 & Hw2). rewrite Hw1, Hw2. reflexivity.
      * assert (Ea : find_key keqb key k a = None).
        { apply find_key_none; [exact HK|]. intros Hk. apply Hnin. apply zip_keys_in; [exact HK|left; exact Hk]. }
        assert (Eb : find_key keqb key k b = None).
        { apply find_key_none; [exact HK|]. intros Hk. apply Hnin. apply zip_keys_in; [exact HK|right; exact Hk]. }
        rewrite Ea, Eb. cbn [zip_entry]. f_equal. symmetry. apply find_key_none; [exact HK|]. rewrite H1. exact Hnin.
    + destruct H as (k & Hin & Ek). exists k. rewrite (Hze k Hin), Ek. reflexivity.
Qed.

(* ------------------------------------------------------------------ *)
(* diff followed by apply, one map level, generic *)

Definition opt_rel {A} (R : A -> A -> Prop) (a b : option A) : Prop :=
  match a, b with Some x, Some y => R x y | None, None => True | _, _ => False end.

Lemma opt_rel_eq {A} (a b : option A) : opt_rel eq a b <-> a = b.
Proof. destruct a, b; cbn; split; try congruence; try tauto. Qed.

Theorem diff_apply_level {K D T} (L : level K D T) (HL : level_ok L) (f : K -> comb T -> res D)
    (eqv : T -> T -> Prop) (ab : comb (list T)) :
  (forall k c w, f k c = Ok w -> l_dkey L w = k) ->
  NoDup (map (l_tkey L) (sideA ab)) -> NoDup (map (l_tkey L) (sideB ab)) ->
  (forall k, exists od, zip_entry f k (tfind L k (sideA ab)) (tfind L k (sideB ab)) = Ok od
                        /\ exists o', entry_apply L k od (tfind L k (sideA ab)) = Ok o'
                                      /\ opt_rel eqv o' (tfind L k (sideB ab))) ->
  exists ds r, zip_comb (l_keqb L) (l_tkey L) ab f = Ok ds /\ NoDup (map (l_dkey L) ds)
               /\ apply_map_L L ds (sideA ab) = Ok r /\ NoDup (map (l_tkey L) r)
               /\ forall k, opt_rel eqv (tfind L k r) (tfind L k (sideB ab)).
Proof.
  intros Hf Ha Hb HP. pose proof (lo_keqb L HL) as HK.
  pose proof (zip_comb_spec (l_keqb L) HK (l_tkey L) (l_dkey L) ab f Hf Ha Hb) as HZ.
  destruct (zip_comb (l_keqb L) (l_tkey L) ab f) as [ds|].
  - destruct HZ as [Z1 Z2]. exists ds.
    pose proof (apply_map_spec L HL ds (sideA ab) Z1 Ha) as HG.
    destruct (apply_map_L L ds (sideA ab)) as [r|].
    + destruct HG as [G1 G2]. exists r. repeat split; auto.
      intros k. destruct (HP k) as (od & P1 & o' & P2 & P3).
      specialize (Z2 k). unfold tfind in P1. rewrite Z2 in P1. injection P1 as <-.
      specialize (G2 k). unfold dfind in G2. rewrite P2 in G2. injection G2 as <-. exact P3.
    + exfalso. destruct HG as (k & _ & Ek). destruct (HP k) as (od & P1 & o' & P2 & _).
      specialize (Z2 k). unfold tfind in P1. rewrite Z2 in P1. injection P1 as <-.
      unfold dfind in Ek. rewrite P2 in Ek. discriminate.
  - exfalso. destruct HZ as (k & Ek). destruct (HP k) as (od & P1 & _). unfold tfind in P1. rewrite P1 in Ek. discriminate.
Qed.

(* ------------------------------------------------------------------ *)
(* names rows of two-namespace trees *)


Lemma names2 (l : names) : names_ok 2 l = true -> exists s t, l = [s; t].
Proof.
  unfold names_ok. rewrite andb_true_iff. intros [H _]. apply Nat.eqb_eq in H.
  destruct l as [|s [|t [|u l]]]; try discriminate. eauto.
Qed.

(* ------------------------------------------------------------------ *)
(* hypotheses of the inverse theorem (all decidable) *)

(* every entry has a name in the second namespace: exactly what diff needs (Theorem diff_ok_iff) *)

(* a parameter's first-namespace name is not part of a diff: B's must be A's at the same path, or absent *)

(* ------------------------------------------------------------------ *)
(* equality of mapping trees up to the order of every map *)

Definition params_eqv (r b : list param) : Prop :=
  NoDup (map pkey r) /\ NoDup (map pkey b) /\ forall k, pfind k r = pfind k b.
Definition fields_eqv (r b : list field) : Prop :=
  NoDup (map fkey r) /\ NoDup (map fkey b) /\ forall k, ffind k r = ffind k b.
Definition meth_eqv (m m' : meth) : Prop :=
  m_desc m = m_desc m' /\ m_names m = m_names m' /\ m_doc m = m_doc m' /\ params_eqv (m_params m) (m_params m').
Definition meths_eqv (r b : list meth) : Prop :=
  NoDup (map mkey r) /\ NoDup (map mkey b) /\ forall k, opt_rel meth_eqv (mfind k r) (mfind k b).
Definition class_eqv (c c' : class) : Prop :=
  c_names c = c_names c' /\ c_doc c = c_doc c' /\ fields_eqv (c_fields c) (c_fields c')
  /\ meths_eqv (c_methods c) (c_methods c').
Definition classes_eqv (r b : list class) : Prop :=
  NoDup (map ckey r) /\ NoDup (map ckey b) /\ forall k, opt_rel class_eqv (cfind k r) (cfind k b).
Definition mequiv (r b : mappings) : Prop :=
  ms_ns r = ms_ns b /\ ms_doc r = ms_doc b /\ classes_eqv (ms_classes r) (ms_classes b).

(* ------------------------------------------------------------------ *)
(* parameters *)

Definition good_param (p : param) : Prop := wf_param 2 p = true /\ named_param p = true.

Lemma good_param_shape p : good_param p -> exists s b, p_names p = [s; Some b].
Proof.
  intros [Hw Hn]. unfold wf_param in Hw. destruct (names2 _ Hw) as (s & t & E).
  unfold named_param, tname in Hn. rewrite E in Hn. cbn in Hn. destruct t as [b|]; [|discriminate]. eauto.
Qed.

Lemma diff_param_key k c w : diff_param k c = Ok w -> pd_index w = k.
Proof. unfold diff_param. intros H. apply bind_ok in H. destruct H as (i & _ & [= <-]). reflexivity. Qed.

Lemma change_name_1 s a from to :
  from = a -> change_name 1 [s; a] from to = Ok [s; to].
Proof.
  intros ->. unfold change_name. cbn [Nat.eqb nth].
  assert (E : opt_eqb str_eqb a a = true) by (apply opt_str_eqb_eq; reflexivity).
  rewrite E. reflexivity.
Qed.

Lemma param_entry_CAB k ia sa a da ib sb b db :
  zip_entry diff_param k (Some (mkParam ia [sa; Some a] da)) (Some (mkParam ib [sb; Some b] db))
    = Ok (Some (mkPD k (AEdit a b) (from_tuple da db)))
  /\ param_entry 2 1 k (Some (mkPD k (AEdit a b) (from_tuple da db))) (Some (mkParam ia [sa; Some a] da))
    = Ok (Some (mkParam ia [sa; Some b] db)).
Proof.
  split; [reflexivity|].
  unfold param_entry. cbn [entry_apply Lparam l_info l_chg l_child pd_info].
  unfold chg_param. cbn [p_names p_index p_doc]. rewrite change_name_1 by reflexivity. cbn [bind].
  unfold apply_param, doc_apply. cbn [pd_doc p_doc p_index p_names]. rewrite apply_option_from_tuple. reflexivity.
Qed.

Lemma param_entry_CA k ia sa a da :
  zip_entry diff_param k (Some (mkParam ia [sa; Some a] da)) None
    = Ok (Some (mkPD k (ARem a) (gen_doc (CA da))))
  /\ param_entry 2 1 k (Some (mkPD k (ARem a) (gen_doc (CA da)))) (Some (mkParam ia [sa; Some a] da)) = Ok None.
Proof.
  split; [reflexivity|].
  unfold param_entry. cbn [entry_apply Lparam l_info l_chg l_child pd_info].
  unfold chg_param. cbn [p_names p_index p_doc]. rewrite change_name_1 by reflexivity. reflexivity.
Qed.

Lemma gen_doc_CB_apply (db : option str) : apply_option str_eqb (gen_doc (CB db)) None = Ok db.
Proof. destruct db; reflexivity. Qed.

Lemma param_entry_CB k ib b db :
  zip_entry diff_param k None (Some (mkParam ib [None; Some b] db))
    = Ok (Some (mkPD k (AAdd b) (gen_doc (CB db))))
  /\ param_entry 2 1 k (Some (mkPD k (AAdd b) (gen_doc (CB db)))) None = Ok (Some (mkParam k [None; Some b] db)).
Proof.
  split; [reflexivity|].
  unfold param_entry. cbn [entry_apply Lparam l_info l_mk l_child pd_info].
  unfold new_param, fresh_names. cbn [repeat]. rewrite change_name_1 by reflexivity. cbn [bind].
  unfold apply_param, doc_apply. cbn [pd_doc p_doc p_index p_names].
  rewrite gen_doc_CB_apply. reflexivity.
Qed.

Theorem params_level (ab : comb (list param)) :
  Forall good_param (sideA ab) -> Forall good_param (sideB ab) ->
  NoDup (map pkey (sideA ab)) -> NoDup (map pkey (sideB ab)) ->
  params_agree (sideA ab) (sideB ab) = true ->
  exists ds r, zip_comb N.eqb pkey ab diff_param = Ok ds /\ NoDup (map pd_index ds)
               /\ apply_params 2 1 ds (sideA ab) = Ok r /\ params_eqv r (sideB ab).
Proof.
  intros HA HB Ha Hb Hag.
  destruct (diff_apply_level (Lparam 2 1) (Lparam_ok 2 1) diff_param eq ab diff_param_key Ha Hb) as (ds & r & H1 & H2 & H3 & H4 & H5).
  - intros k. cbn [Lparam l_tkey l_keqb tfind]. unfold tfind. cbn [Lparam l_tkey l_keqb].
    fold (pfind k (sideA ab)) (pfind k (sideB ab)).
    destruct (pfind k (sideA ab)) as [pa|] eqn:Ea; destruct (pfind k (sideB ab)) as [pb|] eqn:Eb.
    + destruct (find_key_some _ N_eqb_ok _ _ _ _ Ea) as [Hina Hka].
      destruct (find_key_some _ N_eqb_ok _ _ _ _ Eb) as [Hinb Hkb].
      rewrite Forall_forall in HA, HB.
      destruct (good_param_shape pa (HA pa Hina)) as (sa & a & Ena).
      destruct (good_param_shape pb (HB pb Hinb)) as (sb & b & Enb).
      unfold params_agree in Hag. rewrite forallb_forall in Hag. specialize (Hag pb Hinb).
      rewrite Hkb, Ea in Hag. unfold p_agree, sname in Hag. rewrite Ena, Enb in Hag. cbn [nth] in Hag.
      apply opt_str_eqb_eq in Hag. subst sb.
      destruct pa as [ia na da], pb as [ib nb db]. cbn [p_names pkey p_index] in *. subst na nb ia ib.
      destruct (param_entry_CAB k k sa a da k sa b db) as [E1 E2].
      eexists. split; [exact E1|]. eexists. split; [exact E2|]. reflexivity.
    + destruct (find_key_some _ N_eqb_ok _ _ _ _ Ea) as [Hina Hka].
      rewrite Forall_forall in HA.
      destruct (good_param_shape pa (HA pa Hina)) as (sa & a & Ena).
      destruct pa as [ia na da]. cbn [p_names] in Ena. subst na.
      destruct (param_entry_CA k ia sa a da) as [E1 E2].
      eexists. split; [exact E1|]. eexists. split; [exact E2|]. exact I.
    + destruct (find_key_some _ N_eqb_ok _ _ _ _ Eb) as [Hinb Hkb].
      rewrite Forall_forall in HB.
      destruct (good_param_shape pb (HB pb Hinb)) as (sb & b & Enb).
      unfold params_agree in Hag. rewrite forallb_forall in Hag. specialize (Hag pb Hinb).
      rewrite Hkb, Ea in Hag. unfold p_agree, sname in Hag. rewrite Enb in Hag. cbn [nth] in Hag.
      apply opt_str_eqb_eq in Hag. subst sb.
      destruct pb as [ib nb db]. cbn [p_names pkey p_index] in *. subst nb ib.
      destruct (param_entry_CB k k b db) as [E1 E2].
      eexists. split; [exact E1|]. eexists. split; [exact E2|]. reflexivity.
    + exists None. split; [reflexivity|]. exists None. split; [reflexivity|exact I].
  - exists ds, r. repeat split; auto.
    intros k. apply opt_rel_eq. exact (H5 k).
Qed.

(* ------------------------------------------------------------------ *)
(* fields *)

Definition good_field (f : field) : Prop := wf_field 2 f = true /\ named_field f = true.

Lemma good_field_shape f : good_field f -> exists n b, f_names f = [Some n; Some b].
Proof.
  intros [Hw Hn]. unfold wf_field in Hw. rewrite andb_true_iff in Hw. destruct Hw as [Hw Hk].
  destruct (names2 _ Hw) as (s & t & E).
  unfold named_field, tname in Hn. rewrite E in Hn. cbn in Hn. destruct t as [b|]; [|discriminate].
  unfold field_key in Hk. rewrite E in Hk. cbn in Hk. destruct s as [n|]; [|discriminate]. eauto.
Qed.

Lemma diff_field_key k c w : diff_field k c = Ok w -> fdkey w = k.
Proof.
  unfold diff_field. intros H. apply bind_ok in H. destruct H as (i & _ & [= <-]).
  unfold fdkey. cbn. destruct k; reflexivity.
Qed.

Lemma field_entry_CAB k1 k2 a da b db d' n' :
  zip_entry diff_field (k1, k2) (Some (mkField k2 [Some k1; Some a] da)) (Some (mkField d' [Some n'; Some b] db))
    = Ok (Some (mkFD k1 k2 (AEdit a b) (from_tuple da db)))
  /\ field_entry 2 1 (k1, k2) (Some (mkFD k1 k2 (AEdit a b) (from_tuple da db))) (Some (mkField k2 [Some k1; Some a] da))
    = Ok (Some (mkField k2 [Some k1; Some b] db)).
Proof.
  split; [reflexivity|].
  unfold field_entry. cbn [entry_apply Lfield l_info l_chg l_child fd_info].
  unfold chg_field. cbn [f_names f_desc f_doc]. rewrite change_name_1 by reflexivity. cbn [bind].
  unfold apply_field, doc_apply. cbn [fd_doc f_doc f_desc f_names]. rewrite apply_option_from_tuple. reflexivity.
Qed.

Lemma field_entry_CA k1 k2 a da :
  zip_entry diff_field (k1, k2) (Some (mkField k2 [Some k1; Some a] da)) None
    = Ok (Some (mkFD k1 k2 (ARem a) (gen_doc (CA da))))
  /\ field_entry 2 1 (k1, k2) (Some (mkFD k1 k2 (ARem a) (gen_doc (CA da)))) (Some (mkField k2 [Some k1; Some a] da)) = Ok None.
Proof.
  split; [reflexivity|].
  unfold field_entry. cbn [entry_apply Lfield l_info l_chg l_child fd_info].
  unfold chg_field. cbn [f_names f_desc f_doc]. rewrite change_name_1 by reflexivity. reflexivity.
Qed.

Lemma field_entry_CB k1 k2 b db :
  zip_entry diff_field (k1, k2) None (Some (mkField k2 [Some k1; Some b] db))
    = Ok (Some (mkFD k1 k2 (AAdd b) (gen_doc (CB db))))
  /\ field_entry 2 1 (k1, k2) (Some (mkFD k1 k2 (AAdd b) (gen_doc (CB db)))) None
    = Ok (Some (mkField k2 [Some k1; Some b] db)).
Proof.
  split; [reflexivity|].
  unfold field_entry. cbn [entry_apply Lfield l_info l_mk l_child fd_info].
  unfold new_field, fresh_names. cbn [repeat fst snd]. rewrite change_name_1 by reflexivity. cbn [bind].
  unfold apply_field, doc_apply. cbn [fd_doc f_doc f_desc f_names].
  rewrite gen_doc_CB_apply. reflexivity.
Qed.

Theorem fields_level (ab : comb (list field)) :
  Forall good_field (sideA ab) -> Forall good_field (sideB ab) ->
  NoDup (map fkey (sideA ab)) -> NoDup (map fkey (sideB ab)) ->
  exists ds r, zip_comb key2_eqb fkey ab diff_field = Ok ds /\ NoDup (map fdkey ds)
               /\ apply_fields 2 1 ds (sideA ab) = Ok r /\ fields_eqv r (sideB ab).
Proof.
  intros HA HB Ha Hb.
  assert (H21 : 2%nat <> O /\ 1%nat <> O) by (split; discriminate). destruct H21 as [H2 H1'].
  destruct (diff_apply_level (Lfield 2 1) (Lfield_ok 2 1 H2) diff_field eq ab diff_field_key Ha Hb) as (ds & r & H1 & H2' & H3 & H4 & H5).
  - intros k. unfold tfind. cbn [Lfield l_tkey l_keqb].
    fold (ffind k (sideA ab)) (ffind k (sideB ab)).
    destruct (ffind k (sideA ab)) as [fa|] eqn:Ea; destruct (ffind k (sideB ab)) as [fb|] eqn:Eb.
    + destruct (find_key_some _ key2_eqb_ok _ _ _ _ Ea) as [Hina Hka].
      destruct (find_key_some _ key2_eqb_ok _ _ _ _ Eb) as [Hinb Hkb].
      rewrite Forall_forall in HA, HB.
      destruct (good_field_shape fa (HA fa Hina)) as (na & a & Ena).
      destruct (good_field_shape fb (HB fb Hinb)) as (nb & b & Enb).
      destruct fa as [da na' doca], fb as [db nb' docb]. cbn [f_names] in Ena, Enb. subst na' nb'.
      unfold fkey in Hka, Hkb. cbn [f_names f_desc fname] in Hka, Hkb. subst k. injection Hkb as -> ->.
      destruct (field_entry_CAB na da a doca b docb da na) as [E1 E2].
      eexists. split; [exact E1|]. eexists. split; [exact E2|]. reflexivity.
    + destruct (find_key_some _ key2_eqb_ok _ _ _ _ Ea) as [Hina Hka].
      rewrite Forall_forall in HA.
      destruct (good_field_shape fa (HA fa Hina)) as (na & a & Ena).
      destruct fa as [da na' doca]. cbn [f_names] in Ena. subst na'.
      unfold fkey in Hka. cbn [f_names f_desc fname] in Hka. subst k.
      destruct (field_entry_CA na da a doca) as [E1 E2].
      eexists. split; [exact E1|]. eexists. split; [exact E2|]. exact I.
    + destruct (find_key_some _ key2_eqb_ok _ _ _ _ Eb) as [Hinb Hkb].
      rewrite Forall_forall in HB.
      destruct (good_field_shape fb (HB fb Hinb)) as (nb & b & Enb).
      destruct fb as [db nb' docb]. cbn [f_names] in Enb. subst nb'.
      unfold fkey in Hkb. cbn [f_names f_desc fname] in Hkb. subst k.
      destruct (field_entry_CB nb db b docb) as [E1 E2].
      eexists. split; [exact E1|]. eexists. split; [exact E2|]. reflexivity.
    + exists None. split; [reflexivity|]. exists None. split; [reflexivity|exact I].
  - exists ds, r. repeat split; auto.
    intros k. apply opt_rel_eq. exact (H5 k).
Qed.

(* ------------------------------------------------------------------ *)
(* methods *)

Definition good_meth (m : meth) : Prop := wf_meth 2 m = true /\ named_meth m = true.

Lemma good_meth_shape m : good_meth m ->
  (exists n b, m_names m = [Some n; Some b])
  /\ Forall good_param (m_params m) /\ NoDup (map pkey (m_params m)).
Proof.
  intros [Hw Hn]. pose proof (wf_meth_nodup 2 m Hw) as Hnd.
  unfold wf_meth in Hw. rewrite !andb_true_iff in Hw. destruct Hw as (((Hw & Hk) & Hp) & _).
  unfold named_meth in Hn. rewrite andb_true_iff in Hn. destruct Hn as [Hn Hnp].
  destruct (names2 _ Hw) as (s & t & E). split; [|split; [|exact Hnd]].
  - unfold tname in Hn. rewrite E in Hn. cbn in Hn. destruct t as [b|]; [|discriminate].
    unfold meth_key in Hk. rewrite E in Hk. cbn in Hk. destruct s as [n|]; [|discriminate]. eauto.
  - rewrite forallb_forall in Hp, Hnp. apply Forall_forall. intros p Hin. split; [apply Hp|apply Hnp]; exact Hin.
Qed.

Lemma diff_meth_key k c w : diff_meth k c = Ok w -> mdkey w = k.
Proof.
  unfold diff_meth. intros H. apply bind_ok in H. destruct H as (i & _ & H).
  apply bind_ok in H. destruct H as (ps & _ & [= <-]). unfold mdkey. cbn. destruct k; reflexivity.
Qed.

Lemma params_agree_nil B : params_agree B [] = true.
Proof. reflexivity. Qed.

Theorem meths_level (ab : comb (list meth)) :
  Forall good_meth (sideA ab) -> Forall good_meth (sideB ab) ->
  NoDup (map mkey (sideA ab)) -> NoDup (map mkey (sideB ab)) ->
  meths_agree (sideA ab) (sideB ab) = true ->
  exists ds r, zip_comb key2_eqb mkey ab diff_meth = Ok ds /\ NoDup (map mdkey ds)
               /\ apply_meths 2 1 ds (sideA ab) = Ok r /\ meths_eqv r (sideB ab).
Proof.
  intros HA HB Ha Hb Hag.
  assert (H21 : 2%nat <> O /\ 1%nat <> O) by (split; discriminate). destruct H21 as [H2 H1'].
  destruct (diff_apply_level (Lmeth 2 1) (Lmeth_ok 2 1 H2) diff_meth meth_eqv ab diff_meth_key Ha Hb) as (ds & r & H1 & H2' & H3 & H4 & H5).
  - intros k. unfold tfind. cbn [Lmeth l_tkey l_keqb].
    fold (mfind k (sideA ab)) (mfind k (sideB ab)).
    rewrite Forall_forall in HA, HB.
    destruct (mfind k (sideA ab)) as [ma|] eqn:Ea; destruct (mfind k (sideB ab)) as [mb|] eqn:Eb.
    + destruct (find_key_some _ key2_eqb_ok _ _ _ _ Ea) as [Hina Hka].
      destruct (find_key_some _ key2_eqb_ok _ _ _ _ Eb) as [Hinb Hkb].
      destruct (good_meth_shape ma (HA ma Hina)) as ((na & a & Ena) & Hpa & Hnda).
      destruct (good_meth_shape mb (HB mb Hinb)) as ((nb & b & Enb) & Hpb & Hndb).
      unfold meths_agree in Hag. rewrite forallb_forall in Hag. specialize (Hag mb Hinb).
      rewrite Hkb, Ea in Hag. unfold m_agree in Hag.
      destruct (params_level (CAB (m_params ma) (m_params mb)) Hpa Hpb Hnda Hndb Hag) as (pds & pr & P1 & P2 & P3 & P4).
      cbn [sideA sideB] in P1, P3, P4.
      destruct ma as [da na' doca pa], mb as [db nb' docb pb]. cbn [m_names m_params] in *. subst na' nb'.
      unfold mkey in Hka, Hkb. cbn [m_names m_desc fname] in Hka, Hkb. subst k. injection Hkb as -> ->.
      exists (Some (mkMD na da (AEdit a b) (from_tuple doca docb) pds)). split.
      { cbn [zip_entry]. unfold diff_meth. cbn [comb_map m_names m_params m_doc gen_names nth diff_ns bind fst snd].
        rewrite P1. reflexivity. }
      exists (Some (mkMeth da [Some na; Some b] docb pr)). split.
      { unfold meth_entry. cbn [entry_apply Lmeth l_info l_chg l_child md_info].
        unfold chg_meth. cbn [m_names m_desc m_doc m_params]. rewrite change_name_1 by reflexivity. cbn [bind].
        unfold apply_meth, doc_apply. cbn [md_doc md_params m_doc m_desc m_names m_params].
        rewrite apply_option_from_tuple. cbn [bind]. rewrite P3. reflexivity. }
      cbn [opt_rel]. unfold meth_eqv. cbn [m_desc m_names m_doc m_params].
      split; [reflexivity|split; [reflexivity|split; [reflexivity|exact P4]]].
    + destruct (find_key_some _ key2_eqb_ok _ _ _ _ Ea) as [Hina Hka].
      destruct (good_meth_shape ma (HA ma Hina)) as ((na & a & Ena) & Hpa & Hnda).
      destruct (params_level (CA (m_params ma)) Hpa (Forall_nil _) Hnda (NoDup_nil _) eq_refl) as (pds & pr & P1 & P2 & P3 & P4).
      cbn [sideA sideB] in P1, P3, P4.
      destruct ma as [da na' doca pa]. cbn [m_names m_params] in *. subst na'.
      unfold mkey in Hka. cbn [m_names m_desc fname] in Hka. subst k.
      exists (Some (mkMD na da (ARem a) (gen_doc (CA doca)) pds)). split.
      { cbn [zip_entry]. unfold diff_meth. cbn [comb_map m_names m_params m_doc gen_names nth diff_ns bind fst snd].
        rewrite P1. reflexivity. }
      exists None. split; [|exact I].
      unfold meth_entry. cbn [entry_apply Lmeth l_info l_chg l_child md_info].
      unfold chg_meth. cbn [m_names m_desc m_doc m_params]. rewrite change_name_1 by reflexivity. reflexivity.
    + destruct (find_key_some _ key2_eqb_ok _ _ _ _ Eb) as [Hinb Hkb].
      destruct (good_meth_shape mb (HB mb Hinb)) as ((nb & b & Enb) & Hpb & Hndb).
      unfold meths_agree in Hag. rewrite forallb_forall in Hag. specialize (Hag mb Hinb).
      rewrite Hkb, Ea in Hag. unfold m_agree in Hag.
      destruct (params_level (CB (m_params mb)) (Forall_nil _) Hpb (NoDup_nil _) Hndb Hag) as (pds & pr & P1 & P2 & P3 & P4).
      cbn [sideA sideB] in P1, P3, P4.
      destruct mb as [db nb' docb pb]. cbn [m_names m_params] in *. subst nb'.
      unfold mkey in Hkb. cbn [m_names m_desc fname] in Hkb. subst k.
      exists (Some (mkMD nb db (AAdd b) (gen_doc (CB docb)) pds)). split.
      { cbn [zip_entry]. unfold diff_meth. cbn [comb_map m_names m_params m_doc gen_names nth diff_ns bind fst snd].
        rewrite P1. reflexivity. }
      exists (Some (mkMeth db [Some nb; Some b] docb pr)). split.
      { unfold meth_entry. cbn [entry_apply Lmeth l_info l_mk l_child md_info].
        unfold new_meth, fresh_names. cbn [repeat fst snd]. rewrite change_name_1 by reflexivity. cbn [bind].
        unfold apply_meth, doc_apply.
        cbn [md_doc md_params m_doc m_desc m_names m_params].
        rewrite gen_doc_CB_apply. cbn [bind]. rewrite P3. reflexivity. }
      cbn [opt_rel]. unfold meth_eqv. cbn [m_desc m_names m_doc m_params].
      split; [reflexivity|split; [reflexivity|split; [reflexivity|exact P4]]].
    + exists None. split; [reflexivity|]. exists None. split; [reflexivity|exact I].
  - exists ds, r. repeat split; auto.
Qed.

(* ------------------------------------------------------------------ *)
(* classes *)

Definition good_class (c : class) : Prop := wf_class 2 c = true /\ named_class c = true.

Lemma good_class_shape c : good_class c ->
  (exists n b, c_names c = [Some n; Some b])
  /\ Forall good_field (c_fields c) /\ NoDup (map fkey (c_fields c))
  /\ Forall good_meth (c_methods c) /\ NoDup (map mkey (c_methods c)).
Proof.
  intros [Hw Hn]. destruct (wf_class_nodup 2 c Hw) as (Hndf & Hndm & Hwm & Hwf).
  unfold wf_class in Hw. rewrite !andb_true_iff in Hw. destruct Hw as (((((Hw & Hk) & _) & _) & _) & _).
  unfold named_class in Hn. rewrite !andb_true_iff in Hn. destruct Hn as ((Hn & Hnf) & Hnm).
  destruct (names2 _ Hw) as (s & t & E). split; [|repeat split; auto].
  - unfold tname in Hn. rewrite E in Hn. cbn in Hn. destruct t as [b|]; [|discriminate].
    unfold class_key in Hk. rewrite E in Hk. cbn in Hk. destruct s as [n|]; [|discriminate]. eauto.
  - rewrite forallb_forall in Hnf. rewrite Forall_forall in Hwf. apply Forall_forall. intros f Hin.
    split; [apply Hwf|apply Hnf]; exact Hin.
  - rewrite forallb_forall in Hnm. rewrite Forall_forall in Hwm. apply Forall_forall. intros m Hin.
    split; [apply Hwm|apply Hnm]; exact Hin.
Qed.

Lemma diff_class_key k c w : diff_class k c = Ok w -> cd_name w = k.
Proof.
  unfold diff_class. intros H. apply bind_ok in H. destruct H as (i & _ & H).
  apply bind_ok in H. destruct H as (fs & _ & H). apply bind_ok in H. destruct H as (ms & _ & [= <-]). reflexivity.
Qed.

Definition classes_agree (A B : list class) : bool :=
  forallb (fun cb => c_agree (cfind (ckey cb) A) cb) B.

Theorem classes_level (ab : comb (list class)) :
  Forall good_class (sideA ab) -> Forall good_class (sideB ab) ->
  NoDup (map ckey (sideA ab)) -> NoDup (map ckey (sideB ab)) ->
  classes_agree (sideA ab) (sideB ab) = true ->
  exists ds r, zip_comb str_eqb ckey ab diff_class = Ok ds /\ NoDup (map cd_name ds)
               /\ apply_classes 2 1 ds (sideA ab) = Ok r /\ classes_eqv r (sideB ab).
Proof.
  intros HA HB Ha Hb Hag.
  assert (H21 : 2%nat <> O /\ 1%nat <> O) by (split; discriminate). destruct H21 as [H2 H1'].
  destruct (diff_apply_level (Lclass 2 1) (Lclass_ok 2 1 H2) diff_class class_eqv ab diff_class_key Ha Hb) as (ds & r & H1 & H2' & H3 & H4 & H5).
  - intros k. unfold tfind. cbn [Lclass l_tkey l_keqb].
    fold (cfind k (sideA ab)) (cfind k (sideB ab)).
    rewrite Forall_forall in HA, HB.
    destruct (cfind k (sideA ab)) as [ca|] eqn:Ea; destruct (cfind k (sideB ab)) as [cb|] eqn:Eb.
    + destruct (find_key_some _ str_eqb_ok _ _ _ _ Ea) as [Hina Hka].
      destruct (find_key_some _ str_eqb_ok _ _ _ _ Eb) as [Hinb Hkb].
      destruct (good_class_shape ca (HA ca Hina)) as ((na & a & Ena) & Hfa & Hndfa & Hma & Hndma).
      destruct (good_class_shape cb (HB cb Hinb)) as ((nb & b & Enb) & Hfb & Hndfb & Hmb & Hndmb).
      unfold classes_agree in Hag. rewrite forallb_forall in Hag. specialize (Hag cb Hinb).
      rewrite Hkb, Ea in Hag. unfold c_agree in Hag.
      destruct (fields_level (CAB (c_fields ca) (c_fields cb)) Hfa Hfb Hndfa Hndfb) as (fds & fr & F1 & F2 & F3 & F4).
      destruct (meths_level (CAB (c_methods ca) (c_methods cb)) Hma Hmb Hndma Hndmb Hag) as (mds & mr & M1 & M2 & M3 & M4).
      cbn [sideA sideB] in F1, F3, F4, M1, M3, M4.
      destruct ca as [na' doca fa ma], cb as [nb' docb fb mb]. cbn [c_names c_fields c_methods] in *. subst na' nb'.
      unfold ckey in Hka, Hkb. cbn [c_names fname] in Hka, Hkb. subst k. subst nb.
      exists (Some (mkCD na (AEdit a b) (from_tuple doca docb) fds mds)). split.
      { cbn [zip_entry]. unfold diff_class. cbn [comb_map c_names c_fields c_methods c_doc gen_names nth diff_ns bind].
        rewrite F1. cbn [bind]. rewrite M1. reflexivity. }
      exists (Some (mkClass [Some na; Some b] docb fr mr)). split.
      { unfold class_entry. cbn [entry_apply Lclass l_info l_chg l_child cd_info].
        unfold chg_class. cbn [c_names c_doc c_fields c_methods]. rewrite change_name_1 by reflexivity. cbn [bind].
        unfold apply_class, doc_apply. cbn [cd_doc cd_fields cd_methods c_doc c_names c_fields c_methods].
        rewrite apply_option_from_tuple. cbn [bind]. rewrite F3. cbn [bind]. rewrite M3. reflexivity. }
      cbn [opt_rel]. unfold class_eqv. cbn [c_names c_doc c_fields c_methods].
      split; [reflexivity|split; [reflexivity|split; [exact F4|exact M4]]].
    + destruct (find_key_some _ str_eqb_ok _ _ _ _ Ea) as [Hina Hka].
      destruct (good_class_shape ca (HA ca Hina)) as ((na & a & Ena) & Hfa & Hndfa & Hma & Hndma).
      destruct (fields_level (CA (c_fields ca)) Hfa (Forall_nil _) Hndfa (NoDup_nil _)) as (fds & fr & F1 & F2 & F3 & F4).
      destruct (meths_level (CA (c_methods ca)) Hma (Forall_nil _) Hndma (NoDup_nil _) eq_refl) as (mds & mr & M1 & M2 & M3 & M4).
      destruct ca as [na' doca fa ma]. cbn [c_names c_fields c_methods] in *. subst na'.
      unfold ckey in Hka. cbn [c_names fname] in Hka. subst k.
      exists (Some (mkCD na (ARem a) (gen_doc (CA doca)) fds mds)). split.
      { cbn [zip_entry]. unfold diff_class. cbn [comb_map c_names c_fields c_methods c_doc gen_names nth diff_ns bind].
        rewrite F1. cbn [bind]. rewrite M1. reflexivity. }
      exists None. split; [|exact I].
      unfold class_entry. cbn [entry_apply Lclass l_info l_chg l_child cd_info].
      unfold chg_class. cbn [c_names c_doc c_fields c_methods]. rewrite change_name_1 by reflexivity. reflexivity.
    + destruct (find_key_some _ str_eqb_ok _ _ _ _ Eb) as [Hinb Hkb].
      destruct (good_class_shape cb (HB cb Hinb)) as ((nb & b & Enb) & Hfb & Hndfb & Hmb & Hndmb).
      unfold classes_agree in Hag. rewrite forallb_forall in Hag. specialize (Hag cb Hinb).
      rewrite Hkb, Ea in Hag. unfold c_agree in Hag.
      destruct (fields_level (CB (c_fields cb)) (Forall_nil _) Hfb (NoDup_nil _) Hndfb) as (fds & fr & F1 & F2 & F3 & F4).
      destruct (meths_level (CB (c_methods cb)) (Forall_nil _) Hmb (NoDup_nil _) Hndmb Hag) as (mds & mr & M1 & M2 & M3 & M4).
      cbn [sideA sideB] in F1, F3, F4, M1, M3, M4.
      destruct cb as [nb' docb fb mb]. cbn [c_names c_fields c_methods] in *. subst nb'.
      unfold ckey in Hkb. cbn [c_names fname] in Hkb. subst k.
      exists (Some (mkCD nb (AAdd b) (gen_doc (CB docb)) fds mds)). split.
      { cbn [zip_entry]. unfold diff_class. cbn [comb_map c_names c_fields c_methods c_doc gen_names nth diff_ns bind].
        rewrite F1. cbn [bind]. rewrite M1. reflexivity. }
      exists (Some (mkClass [Some nb; Some b] docb fr mr)). split.
      { unfold class_entry. cbn [entry_apply Lclass l_info l_mk l_child cd_info].
        unfold new_class, fresh_names. cbn [repeat]. rewrite change_name_1 by reflexivity. cbn [bind].
        unfold apply_class, doc_apply.
        cbn [cd_doc cd_fields cd_methods c_doc c_names c_fields c_methods].
        rewrite gen_doc_CB_apply. cbn [bind]. rewrite F3. cbn [bind]. rewrite M3. reflexivity. }
      cbn [opt_rel]. unfold class_eqv. cbn [c_names c_doc c_fields c_methods].
      split; [reflexivity|split; [reflexivity|split; [exact F4|exact M4]]].
    + exists None. split; [reflexivity|]. exists None. split; [reflexivity|exact I].
  - exists ds, r. repeat split; auto.
Qed.

(* ------------------------------------------------------------------ *)
(* Theorem 2: diff and apply are inverse *)

(* two namespaces with different names (apply_to looks the target namespace up by name) *)

Lemma list_str_eqb_refl (l : list str) : list_eqb str_eqb l l = true.
Proof. induction l as [|x l IH]; [reflexivity|]. cbn [list_eqb]. rewrite str_eqb_refl, IH. reflexivity. Qed.

Lemma list_str_eqb_eq (l l' : list str) : list_eqb str_eqb l l' = true <-> l = l'.
Proof.
  revert l'. induction l as [|x l IH]; intros [|y l']; cbn [list_eqb]; try (split; congruence).
  rewrite andb_true_iff, str_eqb_eq, IH. split; [intros [-> ->]; reflexivity|intros [= -> ->]; auto].
Qed.

Lemma wf_good_classes M : wf M = true -> length (ms_ns M) = 2%nat -> named M = true ->
  Forall good_class (ms_classes M) /\ NoDup (map ckey (ms_classes M)).
Proof.
  intros Hw Hl Hn. destruct (wf_nodup M Hw) as (Hnd & Hc & _). rewrite Hl in Hc. split; [|exact Hnd].
  unfold named in Hn. rewrite forallb_forall in Hn. rewrite Forall_forall in Hc.
  apply Forall_forall. intros c Hin. split; [apply Hc|apply Hn]; exact Hin.
Qed.

Theorem diff_apply A B :
  wf A = true -> wf B = true -> two_ns A = true -> ms_ns A = ms_ns B ->
  named A = true -> named B = true -> param_src_agree A B = true ->
  exists d r, diff A B = Ok d /\ apply_to d A (nth 1 (ms_ns A) []) = Ok r /\ mequiv r B.
Proof.
  intros HwA HwB H2 Hns HnA HnB Hag.
  unfold two_ns in H2. destruct (ms_ns A) as [|n0 [|n1 [|n2 l]]] eqn:EnsA; try discriminate.
  apply negb_true_iff in H2.
  assert (HlA : length (ms_ns A) = 2%nat) by (rewrite EnsA; reflexivity).
  assert (HlB : length (ms_ns B) = 2%nat) by (rewrite <- Hns; reflexivity).
  destruct (wf_good_classes A HwA HlA HnA) as [HgA HndA].
  destruct (wf_good_classes B HwB HlB HnB) as [HgB HndB].
  destruct (classes_level (CAB (ms_classes A) (ms_classes B)) HgA HgB HndA HndB Hag) as (ds & r & C1 & C2 & C3 & C4).
  cbn [sideA sideB] in C1, C3, C4.
  exists (mkDiff ANone (gen_doc (CAB (ms_doc A) (ms_doc B))) ds).
  exists (mkMappings (ms_ns A) (ms_doc B) r).
  split; [|split].
  - unfold diff. rewrite <- Hns, EnsA. rewrite list_str_eqb_refl. rewrite C1. reflexivity.
  - unfold apply_to. rewrite EnsA. cbn [nth index_of]. rewrite H2, str_eqb_refl.
    unfold apply_at. cbn [d_info d_doc d_classes apply_ns bind]. rewrite EnsA. cbn [length apply_ns bind].
    unfold doc_apply. cbn [gen_doc]. rewrite apply_option_from_tuple. cbn [bind]. rewrite C3. reflexivity.
  - unfold mequiv. cbn [ms_ns ms_doc ms_classes]. rewrite EnsA. split; [congruence|]. split; [reflexivity|exact C4].
Qed.

(* ------------------------------------------------------------------ *)
(* Theorem 3: diff fails exactly when the namespaces differ or a needed name is absent *)

Lemma zip_entry_ok_all {K T W} (f : K -> comb T -> res W) (P : T -> Prop) :
  (forall k c, (match c with CA x => P x | CB y => P y | CAB x y => P x /\ P y end) -> f k c <> Err) ->
  forall k oa ob, (forall x, oa = Some x -> P x) -> (forall y, ob = Some y -> P y) ->
  zip_entry f k oa ob <> Err.
Proof.
  intros Hf k oa ob Ha Hb. destruct oa as [x|], ob as [y|]; cbn [zip_entry]; try discriminate.
  - specialize (Hf k (CAB x y) (conj (Ha x eq_refl) (Hb y eq_refl))). destruct (f k (CAB x y)); [discriminate|contradiction].
  - specialize (Hf k (CA x) (Ha x eq_refl)). destruct (f k (CA x)); [discriminate|contradiction].
  - specialize (Hf k (CB y) (Hb y eq_refl)). destruct (f k (CB y)); [discriminate|contradiction].
Qed.

(* one level: zip succeeds iff f succeeds on every entry of both sides (Q: what is known of every entry) *)
Definition comb_all {T} (P : T -> Prop) (c : comb T) : Prop :=
  match c with CA x => P x | CB y => P y | CAB x y => P x /\ P y end.

Lemma zip_comb_ok_iff {K T W} (keqb : K -> K -> bool) (HK : keqb_ok keqb) (key : T -> K) (dkey : W -> K)
    (ab : comb (list T)) (f : K -> comb T -> res W) (P Q : T -> Prop) :
  (forall k c w, f k c = Ok w -> dkey w = k) ->
  NoDup (map key (sideA ab)) -> NoDup (map key (sideB ab)) ->
  Forall Q (sideA ab) -> Forall Q (sideB ab) ->
  (forall k c, comb_all Q c -> (f k c <> Err <-> comb_all P c)) ->
  (exists ds, zip_comb keqb key ab f = Ok ds) <-> Forall P (sideA ab) /\ Forall P (sideB ab).
Proof.
  intros Hf Ha Hb HQA HQB HP. pose proof (zip_comb_spec keqb HK key dkey ab f Hf Ha Hb) as HZ.
  rewrite Forall_forall in HQA, HQB. split.
  - intros (ds & E). rewrite E in HZ. destruct HZ as [_ Z].
    split; apply Forall_forall; intros x Hin.
    + specialize (Z (key x)). rewrite (find_key_in keqb HK key _ x Ha Hin) in Z.
      destruct (find_key keqb key (key x) (sideB ab)) as [y|] eqn:Ey; cbn [zip_entry] in Z.
      * assert (Hne : f (key x) (CAB x y) <> Err) by (destruct (f (key x) (CAB x y)); [discriminate|discriminate]).
        apply find_key_some in Ey; [|exact HK].
        apply HP in Hne; [|split; [apply HQA; exact Hin|apply HQB; tauto]]. cbn in Hne. tauto.
      * assert (Hne : f (key x) (CA x) <> Err) by (destruct (f (key x) (CA x)); [discriminate|discriminate]).
        apply HP in Hne; [exact Hne|apply HQA; exact Hin].
    + specialize (Z (key x)). rewrite (find_key_in keqb HK key _ x Hb Hin) in Z.
      destruct (find_key keqb key (key x) (sideA ab)) as [y|] eqn:Ey; cbn [zip_entry] in Z.
      * assert (Hne : f (key x) (CAB y x) <> Err) by (destruct (f (key x) (CAB y x)); [discriminate|discriminate]).
        apply find_key_some in Ey; [|exact HK].
        apply HP in Hne; [|split; [apply HQA; tauto|apply HQB; exact Hin]]. cbn in Hne. tauto.
      * assert (Hne : f (key x) (CB x) <> Err) by (destruct (f (key x) (CB x)); [discriminate|discriminate]).
        apply HP in Hne; [exact Hne|apply HQB; exact Hin].
  - intros [HA HB]. destruct (zip_comb keqb key ab f) as [ds|]; [eauto|]. exfalso.
    rewrite Forall_forall in HA, HB.
    destruct HZ as (k & Ek).
    destruct (find_key keqb key k (sideA ab)) as [x|] eqn:Ex; destruct (find_key keqb key k (sideB ab)) as [y|] eqn:Ey;
      cbn [zip_entry] in Ek; try discriminate;
      try (apply find_key_some in Ex; [|exact HK]); try (apply find_key_some in Ey; [|exact HK]).
    + assert (Hne : f k (CAB x y) <> Err).
      { apply HP; cbn; (split; [first [apply HQA|apply HA]|first [apply HQB|apply HB]]); tauto. }
      destruct (f k (CAB x y)); [discriminate|contradiction].
    + assert (Hne : f k (CA x) <> Err).
      { apply HP; cbn; first [apply HQA|apply HA]; tauto. }
      destruct (f k (CA x)); [discriminate|contradiction].
    + assert (Hne : f k (CB y) <> Err).
      { apply HP; cbn; first [apply HQB|apply HB]; tauto. }
      destruct (f k (CB y)); [discriminate|contradiction].
Qed.

Lemma gen_names_ok_iff (c : comb names) :
  gen_names c <> Err <-> comb_all (fun l => is_some (tname l) = true) c.
Proof.
  unfold gen_names, tname. destruct c as [a|b|a b]; cbn [comb_map comb_all].
  - destruct (nth diff_ns a None); cbn; split; try discriminate; try congruence.
  - destruct (nth diff_ns b None); cbn; split; try discriminate; try congruence.
  - destruct (nth diff_ns a None), (nth diff_ns b None); cbn; split; try discriminate; try congruence; try tauto;
      intros [? ?]; discriminate.
Qed.

Lemma bind_ne_err {A B} (r : res A) (f : A -> res B) :
  bind r f <> Err <-> exists a, r = Ok a /\ f a <> Err.
Proof.
  destruct r as [a|]; cbn [bind].
  - split; [intros H; exists a; auto|intros (a' & [= <-] & H); exact H].
  - split; [congruence|intros (a' & H & _); discriminate].
Qed.

Lemma ne_err_ex {A} (r : res A) : r <> Err <-> exists a, r = Ok a.
Proof. destruct r; split; try congruence; eauto. intros (a & H). discriminate. Qed.

Definition q_meth (m : meth) : Prop := NoDup (map pkey (m_params m)).
Definition q_class (c : class) : Prop :=
  NoDup (map fkey (c_fields c)) /\ NoDup (map mkey (c_methods c)) /\ Forall q_meth (c_methods c).

Lemma diff_param_ok_iff k (c : comb param) :
  diff_param k c <> Err <-> comb_all (fun p => named_param p = true) c.
Proof.
  unfold diff_param. rewrite bind_ne_err. split.
  - intros (i & Hi & _). assert (H : gen_names (comb_map p_names c) <> Err) by congruence.
    apply gen_names_ok_iff in H. destruct c; exact H.
  - intros H. assert (H' : gen_names (comb_map p_names c) <> Err) by (apply gen_names_ok_iff; destruct c; exact H).
    apply ne_err_ex in H'. destruct H' as (i & Hi). exists i. split; [exact Hi|discriminate].
Qed.

Lemma diff_field_ok_iff k (c : comb field) :
  diff_field k c <> Err <-> comb_all (fun p => named_field p = true) c.
Proof.
  unfold diff_field. rewrite bind_ne_err. split.
  - intros (i & Hi & _). assert (H : gen_names (comb_map f_names c) <> Err) by congruence.
    apply gen_names_ok_iff in H. destruct c; exact H.
  - intros H. assert (H' : gen_names (comb_map f_names c) <> Err) by (apply gen_names_ok_iff; destruct c; exact H).
    apply ne_err_ex in H'. destruct H' as (i & Hi). exists i. split; [exact Hi|discriminate].
Qed.

Lemma comb_sides {T U} (g : T -> list U) (c : comb T) :
  sideA (comb_map g c) = match c with CA x => g x | CB _ => [] | CAB x _ => g x end
  /\ sideB (comb_map g c) = match c with CA _ => [] | CB y => g y | CAB _ y => g y end.
Proof. destruct c; split; reflexivity. Qed.

Lemma forallb_Forall {A} (p : A -> bool) (l : list A) : forallb p l = true <-> Forall (fun x => p x = true) l.
Proof. rewrite forallb_forall, Forall_forall. tauto. Qed.

Lemma diff_meth_ok_iff k (c : comb meth) :
  comb_all q_meth c -> (diff_meth k c <> Err <-> comb_all (fun m => named_meth m = true) c).
Proof.
  intros HQ. unfold diff_meth.
  assert (Hz : (exists ds, zip_comb N.eqb pkey (comb_map m_params c) diff_param = Ok ds)
               <-> Forall (fun p => named_param p = true) (sideA (comb_map m_params c))
                   /\ Forall (fun p => named_param p = true) (sideB (comb_map m_params c))).
  { apply (zip_comb_ok_iff N.eqb N_eqb_ok pkey pd_index _ diff_param _ (fun _ => True)).
    - exact diff_param_key.
    - destruct c; cbn in *; try constructor; tauto.
    - destruct c; cbn in *; try constructor; tauto.
    - apply Forall_forall. auto.
    - apply Forall_forall. auto.
    - intros k' c' _. apply diff_param_ok_iff. }
  rewrite bind_ne_err. split.
  - intros (i & Hi & H). rewrite bind_ne_err in H. destruct H as (ps & Hps & _).
    assert (Hg : gen_names (comb_map m_names c) <> Err) by congruence. apply gen_names_ok_iff in Hg.
    destruct (proj1 Hz (ex_intro _ ps Hps)) as [HA HB].
    unfold named_meth. destruct c as [a|b|a b]; cbn in *; rewrite ?andb_true_iff, ?forallb_Forall; tauto.
  - intros H.
    assert (Hg : gen_names (comb_map m_names c) <> Err).
    { apply gen_names_ok_iff. unfold named_meth in H. destruct c as [a|b|a b]; cbn in *; rewrite ?andb_true_iff in H; tauto. }
    apply ne_err_ex in Hg. destruct Hg as (i & Hi). exists i. split; [exact Hi|].
    assert (Hps : exists ds, zip_comb N.eqb pkey (comb_map m_params c) diff_param = Ok ds).
    { apply Hz. unfold named_meth in H.
      destruct c as [a|b|a b]; cbn in *; rewrite ?andb_true_iff, ?forallb_Forall in H; split; try constructor; tauto. }
    destruct Hps as (ps & Hps). rewrite Hps. cbn [bind]. discriminate.
Qed.

Lemma diff_class_ok_iff k (c : comb class) :
  comb_all q_class c -> (diff_class k c <> Err <-> comb_all (fun m => named_class m = true) c).
Proof.
  intros HQ. unfold diff_class.
  assert (Hzf : (exists ds, zip_comb key2_eqb fkey (comb_map c_fields c) diff_field = Ok ds)
               <-> Forall (fun p => named_field p = true) (sideA (comb_map c_fields c))
                   /\ Forall (fun p => named_field p = true) (sideB (comb_map c_fields c))).
  { apply (zip_comb_ok_iff key2_eqb key2_eqb_ok fkey fdkey _ diff_field _ (fun _ => True)).
    - exact diff_field_key.
    - destruct c; cbn in *; try constructor; unfold q_class in *; tauto.
    - destruct c; cbn in *; try constructor; unfold q_class in *; tauto.
    - apply Forall_forall. auto.
    - apply Forall_forall. auto.
    - intros k' c' _. apply diff_field_ok_iff. }
  assert (Hzm : (exists ds, zip_comb key2_eqb mkey (comb_map c_methods c) diff_meth = Ok ds)
               <-> Forall (fun p => named_meth p = true) (sideA (comb_map c_methods c))
                   /\ Forall (fun p => named_meth p = true) (sideB (comb_map c_methods c))).
  { apply (zip_comb_ok_iff key2_eqb key2_eqb_ok mkey mdkey _ diff_meth _ q_meth).
    - exact diff_meth_key.
    - destruct c; cbn in *; try constructor; unfold q_class in *; tauto.
    - destruct c; cbn in *; try constructor; unfold q_class in *; tauto.
    - destruct c; cbn in *; try constructor; unfold q_class in *; tauto.
    - destruct c; cbn in *; try constructor; unfold q_class in *; tauto.
    - intros k' c' Hq. apply diff_meth_ok_iff. exact Hq. }
  rewrite bind_ne_err. split.
  - intros (i & Hi & H). rewrite bind_ne_err in H. destruct H as (fs & Hfs & H).
    rewrite bind_ne_err in H. destruct H as (ms & Hms & _).
    assert (Hg : gen_names (comb_map c_names c) <> Err) by congruence. apply gen_names_ok_iff in Hg.
    destruct (proj1 Hzf (ex_intro _ fs Hfs)) as [HFA HFB].
    destruct (proj1 Hzm (ex_intro _ ms Hms)) as [HMA HMB].
    unfold named_class. destruct c as [a|b|a b]; cbn in *; rewrite ?andb_true_iff, ?forallb_Forall; tauto.
  - intros H.
    assert (Hg : gen_names (comb_map c_names c) <> Err).
    { apply gen_names_ok_iff. unfold named_class in H. destruct c as [a|b|a b]; cbn in *; rewrite ?andb_true_iff in H; tauto. }
    apply ne_err_ex in Hg. destruct Hg as (i & Hi). exists i. split; [exact Hi|].
    assert (Hfs : exists ds, zip_comb key2_eqb fkey (comb_map c_fields c) diff_field = Ok ds).
    { apply Hzf. unfold named_class in H.
      destruct c as [a|b|a b]; cbn in *; rewrite ?andb_true_iff, ?forallb_Forall in H; split; try constructor; tauto. }
    assert (Hms : exists ds, zip_comb key2_eqb mkey (comb_map c_methods c) diff_meth = Ok ds).
    { apply Hzm. unfold named_class in H.
      destruct c as [a|b|a b]; cbn in *; rewrite ?andb_true_iff, ?forallb_Forall in H; split; try constructor; tauto. }
    destruct Hfs as (fs & Hfs), Hms as (ms & Hms). rewrite Hfs. cbn [bind]. rewrite Hms. cbn [bind]. discriminate.
Qed.

Lemma wf_q_classes M : wf M = true -> Forall q_class (ms_classes M) /\ NoDup (map ckey (ms_classes M)).
Proof.
  intros Hw. destruct (wf_nodup M Hw) as (Hnd & Hc & _). split; [|exact Hnd].
  rewrite Forall_forall in Hc. apply Forall_forall. intros c Hin.
  destruct (wf_class_nodup _ c (Hc c Hin)) as (H1 & H2 & H3 & _). unfold q_class. repeat split; auto.
  rewrite Forall_forall in H3. apply Forall_forall. intros m Hm. exact (wf_meth_nodup _ m (H3 m Hm)).
Qed.

(* diff is defined exactly when the namespaces agree and every entry of A and of B (at every
   level, also below entries present on one side only) has a name in the second namespace *)
Theorem diff_ok_iff A B :
  wf A = true -> wf B = true ->
  (exists d, diff A B = Ok d) <-> ms_ns A = ms_ns B /\ named A = true /\ named B = true.
Proof.
  intros HwA HwB. destruct (wf_q_classes A HwA) as [HqA HndA]. destruct (wf_q_classes B HwB) as [HqB HndB].
  pose proof (zip_comb_ok_iff str_eqb str_eqb_ok ckey cd_name (CAB (ms_classes A) (ms_classes B)) diff_class
                (fun c => named_class c = true) q_class diff_class_key HndA HndB HqA HqB
                (fun k c Hq => diff_class_ok_iff k c Hq)) as HZ.
  cbn [sideA sideB] in HZ. unfold named. rewrite !forallb_Forall. rewrite <- HZ. clear HZ.
  unfold diff. destruct (list_eqb str_eqb (ms_ns A) (ms_ns B)) eqn:En.
  - apply list_str_eqb_eq in En. split.
    + intros (d & H). apply bind_ok in H. destruct H as (cs & Hcs & _). eauto.
    + intros (_ & cs & Hcs). rewrite Hcs. cbn [bind]. eauto.
  - split; [intros (d & H); discriminate|]. intros (E & _). apply list_str_eqb_eq in E. congruence.
Qed.

Corollary diff_fails_iff A B :
  wf A = true -> wf B = true ->
  diff A B = Err <-> ~ (ms_ns A = ms_ns B /\ named A = true /\ named B = true).
Proof.
  intros HwA HwB. rewrite <- (diff_ok_iff A B HwA HwB). destruct (diff A B) as [d|].
  - split; [discriminate|]. intros H. exfalso. apply H. eauto.
  - split; [|reflexivity]. intros _ (d & H). discriminate.
Qed.

(* ------------------------------------------------------------------ *)
(* known finding F3 and non-vacuity *)


Definition inverse_law (A B : mappings) : Prop :=
  exists d r, diff A B = Ok d /\ apply_to d A (nth 1 (ms_ns A) []) = Ok r /\ mequiv r B.

Definition inverse_hyps (A B : mappings) : Prop :=
  wf A = true /\ wf B = true /\ two_ns A = true /\ ms_ns A = ms_ns B /\ named A = true /\ named B = true.

Theorem diff_apply_partial A B : inverse_hyps A B -> f3_class A B = false -> inverse_law A B.
Proof.
  intros (H1 & H2 & H3 & H4 & H5 & H6) H7. apply diff_apply; auto.
  unfold f3_class in H7. apply negb_false_iff in H7. exact H7.
Qed.

(* the unrestricted statement: NOT proved (refuted below) *)
Definition diff_apply_full : Prop := forall A B, inverse_hyps A B -> inverse_law A B.

Definition s_ (l : list N) : str := l.
Definition ns2 : list str := [s_ [111]; s_ [110]].   (* "o", "n" *)
(* witness of F3: B = A plus parameter 0 with a first-namespace name *)
Definition f3_A : mappings :=
  mkMappings ns2 None [mkClass [Some [97]; Some [65]] None [] [mkMeth [40;41;86] [Some [109]; Some [77]] None []]].
Definition f3_B : mappings :=
  mkMappings ns2 None [mkClass [Some [97]; Some [65]] None []
    [mkMeth [40;41;86] [Some [109]; Some [77]] None [mkParam 0 [Some [112]; Some [120]] None]]].

Theorem diff_apply_refuted :
  exists A B, inverse_hyps A B /\ f3_class A B = true /\ ~ inverse_law A B.
Proof.
  exists f3_A, f3_B. split; [repeat split; vm_compute; reflexivity|]. split; [vm_compute; reflexivity|].
  intros (d & r & Hd & Hr & He).
  vm_compute in Hd. injection Hd as <-. vm_compute in Hr. injection Hr as <-.
  destruct He as (_ & _ & _ & _ & Hc). specialize (Hc [97]). vm_compute in Hc.
  destruct Hc as (_ & _ & _ & _ & _ & Hm). specialize (Hm ([109], [40;41;86])). vm_compute in Hm.
  destruct Hm as (_ & _ & _ & _ & _ & Hp). specialize (Hp 0). vm_compute in Hp. discriminate.
Qed.

(* non-vacuity: a pair with only-A, only-B, both-equal and both-different entries at class, field,
   method, parameter and comment level satisfies every hypothesis *)
Definition ex_A : mappings :=
  mkMappings ns2 None
    [ mkClass [Some [97]; Some [65]] (Some [100;49]) 
        [mkField [73] [Some [102]; Some [70]] None; mkField [74] [Some [103]; Some [71]] (Some [120])]
        [mkMeth [40;41;86] [Some [109]; Some [77]] (Some [121]) [mkParam 0 [None; Some [112]] None; mkParam 1 [None; Some [113]] (Some [122])];
         mkMeth [40;73;41;86] [Some [107]; Some [75]] None []];
      mkClass [Some [98]; Some [66]] None [] [];
      mkClass [Some [99]; Some [67]] None [] [] ].
Definition ex_B : mappings :=
  mkMappings ns2 None
    [ mkClass [Some [100]; Some [68]] (Some [110;101;119]) [mkField [73] [Some [104]; Some [72]] (Some [119])] 
        [mkMeth [40;41;86] [Some [105]; Some [73]] None [mkParam 2 [None; Some [114]] (Some [118])]];
      mkClass [Some [99]; Some [67]] None [] [];
      mkClass [Some [97]; Some [65;65]] (Some [100;50])
        [mkField [74] [Some [103]; Some [71;71]] None; mkField [90] [Some [101]; Some [69]] None]
        [mkMeth [40;41;86] [Some [109]; Some [77]] None [mkParam 1 [None; Some [113;113]] None; mkParam 3 [None; Some [115]] None]] ].

Theorem inverse_nonvacuous :
  inverse_hyps ex_A ex_B /\ f3_class ex_A ex_B = false
  /\ exists d, diff ex_A ex_B = Ok d /\ wf_diff d = true /\ length (d_classes d) = 4%nat.
Proof.
  split; [repeat split; vm_compute; reflexivity|]. split; [vm_compute; reflexivity|].
  eexists. split; [vm_compute; reflexivity|]. split; vm_compute; reflexivity.
Qed.
