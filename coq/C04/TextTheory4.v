(* C04 theory, part 6: the comment of the mapping set itself and the text form.
   The .tinydiff format has no line for the mappings-level comment (and none for the namespace
   action): every diff read from text has [d_info = d_doc = ANone].  Hence through the text form
   everything EXCEPT that one comment travels, and equality of the two top-level comments is not
   only sufficient (text_inverse_partial) but necessary for the literal inverse law. *)
From FB Require Export C04.TextTheory3 C04.Hyps2.

(* a diff read from text says nothing about the namespaces and nothing about the top-level comment *)
Theorem read_no_top t d : read t = Ok d -> d_info d = ANone /\ d_doc d = ANone.
Proof.
  unfold read. destruct (map tiny_line (split_lines t)) as [|h ls]; [discriminate|].
  destruct (str_eqb (tl_first h) s_tiny && list_eqb str_eqb (tl_fields h) [s_2; s_0]); [|discriminate].
  destruct (interp_top (build ls)) as [cs|]; cbn [bind]; [|discriminate].
  destruct (nodupb str_eqb (map cd_name cs)); [|discriminate].
  intros [= <-]. split; reflexivity.
Qed.

(* the printer writes the classes only *)
Lemma print_classes_only d1 d2 : d_classes d1 = d_classes d2 -> print d1 = print d2.
Proof. unfold print. intros ->. reflexivity. Qed.

(* applying a diff without top-level comment action keeps the target's top-level comment *)
Lemma apply_to_keeps_top d t nsname r :
  d_doc d = ANone -> apply_to d t nsname = Ok r -> ms_doc r = ms_doc t.
Proof.
  intros Hd. unfold apply_to. destruct (index_of nsname (ms_ns t)) as [tns|]; [|discriminate].
  unfold apply_at. rewrite Hd.
  destruct (apply_ns tns (d_info d) (ms_ns t)) as [ns'|]; cbn [bind]; [|discriminate].
  unfold doc_apply. cbn [apply_option bind].
  destruct (apply_classes (length (ms_ns t)) tns (d_classes d) (ms_classes t)) as [cs|]; cbn [bind]; [|discriminate].
  intros [= <-]. reflexivity.
Qed.

(* NECESSITY: the literal inverse law through the text form forces equal top-level comments *)
Theorem text_inverse_needs_same_top A B : text_inverse_law A B -> ms_doc A = ms_doc B.
Proof.
  intros (d & d' & r & _ & Hread & Happ & (_ & Hdoc & _)).
  destruct (read_no_top _ _ Hread) as [_ Hd'].
  rewrite <- Hdoc. symmetry. exact (apply_to_keeps_top d' A _ r Hd' Happ).
Qed.

(* B with another top-level comment *)
Definition set_doc (M : mappings) (o : option str) : mappings := mkMappings (ms_ns M) o (ms_classes M).

(* the hypotheses of the text law without the equality of the top-level comments *)
Definition text_hyps_top (A B : mappings) : Prop :=
  inverse_hyps A B /\ textual_mappings A = true /\ textual_mappings B = true.

(* through the text form B arrives except for its top-level comment, which stays A's *)
Definition text_inverse_law_top (A B : mappings) : Prop :=
  exists d d' r, diff A B = Ok d /\ read (print d) = Ok d'
                 /\ apply_to d' A (nth 1 (ms_ns A) []) = Ok r /\ mequiv r (set_doc B (ms_doc A)).

Lemma has_empty_set_doc A B :
  has_empty_comment A = false -> has_empty_comment B = false -> has_empty_comment (set_doc B (ms_doc A)) = false.
Proof.
  unfold has_empty_comment, set_doc. cbn [ms_doc ms_classes].
  rewrite !negb_false_iff, !andb_true_iff. intros [HA _] [_ HB]. split; assumption.
Qed.

Theorem text_inverse_modulo_top A B :
  text_hyps_top A B -> f3_class A B = false -> f4_class A B = false -> text_inverse_law_top A B.
Proof.
  intros (Hh & HtA & HtB) H3 H4.
  set (B' := set_doc B (ms_doc A)).
  assert (Hh' : text_hyps A B').
  { destruct Hh as (H1 & H2 & H3' & H4' & H5 & H6). repeat split; try assumption; reflexivity. }
  assert (H3' : f3_class A B' = false) by exact H3.
  assert (H4' : f4_class A B' = false).
  { unfold f4_class in *. apply orb_false_iff in H4. destruct H4 as [HA HB].
    apply orb_false_iff. split; [exact HA|]. apply has_empty_set_doc; assumption. }
  destruct (text_inverse_partial A B' Hh' H3' H4') as (d0 & d' & r & Hd0 & Hread & Happ & He).
  unfold diff in Hd0. unfold B', set_doc in Hd0. cbn [ms_ns ms_classes ms_doc] in Hd0.
  destruct (list_eqb str_eqb (ms_ns A) (ms_ns B)) eqn:Ens; [|discriminate].
  apply bind_ok in Hd0. destruct Hd0 as (cs & Hcs & [= <-]).
  exists (mkDiff ANone (gen_doc (CAB (ms_doc A) (ms_doc B))) cs), d', r.
  split; [unfold diff; rewrite Ens, Hcs; reflexivity|].
  split; [|split; [exact Happ|exact He]].
  rewrite <- Hread. reflexivity.
Qed.

(* with equal top-level comments this is the literal law *)
Lemma set_doc_same B : set_doc B (ms_doc B) = B.
Proof. destruct B; reflexivity. Qed.

(* the unrestricted statement (no hypothesis on the top-level comments): NOT provable — refuted below,
   and by text_inverse_needs_same_top for every pair with different top-level comments *)
Definition text_inverse_any_top : Prop :=
  forall A B, text_hyps_top A B -> f3_class A B = false -> f4_class A B = false -> text_inverse_law A B.

(* witness: B = A with a comment on the mapping set itself *)
Definition top_A : mappings := f4_A.
Definition top_B : mappings := set_doc f4_A (Some [120]).

Theorem text_top_comment_refuted :
  exists A B, text_hyps_top A B /\ f3_class A B = false /\ f4_class A B = false
              /\ ms_doc A <> ms_doc B /\ inverse_law A B /\ ~ text_inverse_law A B.
Proof.
  exists top_A, top_B.
  assert (Hh : inverse_hyps top_A top_B) by (repeat split; vm_compute; reflexivity).
  split; [split; [exact Hh|split; vm_compute; reflexivity]|].
  split; [vm_compute; reflexivity|]. split; [vm_compute; reflexivity|].
  split; [vm_compute; discriminate|].
  split; [apply diff_apply_partial; [exact Hh|vm_compute; reflexivity]|].
  intros H. apply text_inverse_needs_same_top in H. vm_compute in H. discriminate.
Qed.

Lemma text_hyps_top_b_iff A B : text_hyps_top_b A B = true <-> text_hyps_top A B.
Proof.
  unfold text_hyps_top_b, text_hyps_top. rewrite !andb_true_iff, inverse_hyps_b_iff. tauto.
Qed.
