(* C04 model: quill/src/tree/mappings_diff{.rs,/action.rs} (the diff tree and Action),
   quill/src/action/apply_diff.rs (apply_diff_option, apply_diff_map, MappingsDiff::apply_to),
   quill/src/action/diff_mappings.rs (zip_map_combination, gen_diff_names, gen_diff_javadoc,
   MappingsDiff::diff), quill/src/tree/mod.rs (Names::change_name, Namespaces::change_name /
   get_namespace, from_first_name / none) and quill/src/tree/mappings.rs (the four FromKey impls).
   Definitions only; proofs are in Theory*.v.  The .tinydiff reader is in Text.v.

   An IndexMap<K, V> is the list of its values in insertion order; the key of a target node is
   derived from its info (first name [+ descriptor] / parameter index); a diff node carries its key
   explicitly because its info is only an Action. *)
From FB Require Export Quill.Mappings.

(* ---- Action<T> (mappings_diff/action.rs) ---- *)
Inductive action (A : Type) : Type := ANone | AAdd (b : A) | ARem (a : A) | AEdit (a b : A).
Arguments ANone {A}.
Arguments AAdd {A} b.
Arguments ARem {A} a.
Arguments AEdit {A} a b.

Definition from_tuple {A} (a b : option A) : action A :=
  match a, b with
  | None, None => ANone
  | None, Some y => AAdd y
  | Some x, None => ARem x
  | Some x, Some y => AEdit x y
  end.

(* ---- the diff tree (mappings_diff.rs) ---- *)
Record pdiff := mkPD { pd_index : N; pd_info : action str; pd_doc : action str }.
Record fdiff := mkFD { fd_name : str; fd_desc : str; fd_info : action str; fd_doc : action str }.
Record mdiff := mkMD { md_name : str; md_desc : str; md_info : action str; md_doc : action str;
                       md_params : list pdiff }.
Record cdiff := mkCD { cd_name : str; cd_info : action str; cd_doc : action str;
                       cd_fields : list fdiff; cd_methods : list mdiff }.
Record mdiffs := mkDiff { d_info : action str; d_doc : action str; d_classes : list cdiff }.

(* keys *)
Definition fname (l : names) : str := match l with Some x :: _ => x | _ => [] end.
Definition ckey (c : class) : str := fname (c_names c).
Definition fkey (f : field) : str * str := (fname (f_names f), f_desc f).
Definition mkey (m : meth) : str * str := (fname (m_names m), m_desc m).
Definition pkey (p : param) : N := p_index p.
Definition fdkey (d : fdiff) : str * str := (fd_name d, fd_desc d).
Definition mdkey (d : mdiff) : str * str := (md_name d, md_desc d).

(* ---- apply_diff_option ---- *)
Definition apply_option {A} (eqb : A -> A -> bool) (d : action A) (t : option A) : res (option A) :=
  match d, t with
  | ANone, _ => Ok t
  | AAdd b, None => Ok (Some b)
  | AAdd _, Some _ => Err
  | ARem a, Some x => if eqb x a then Ok None else Err
  | ARem _, None => Err
  | AEdit a b, Some x => if eqb x a then Ok (Some b) else Err
  | AEdit _ _, None => Err
  end.

(* ---- Names ---- *)
Fixpoint set_nth {A} (i : nat) (l : list A) (x : A) : list A :=
  match l, i with
  | [], _ => []
  | _ :: l', O => x :: l'
  | y :: l', S i' => y :: set_nth i' l' x
  end.

(* Names::change_name: refuses the first namespace, checks the old value, replaces *)
Definition change_name (tns : nat) (l : names) (from to : option str) : res names :=
  if Nat.eqb tns 0 then Err
  else if opt_eqb str_eqb (nth tns l None) from then Ok (set_nth tns l to) else Err.

(* Names::from_first_name(key) / Names::none() followed by change_name(target_namespace, None, Some(b))
   (the same check as for existing entries: the first namespace is refused) *)
Definition fresh_names (n tns : nat) (key : option str) (b : str) : res names :=
  change_name tns (match n with O => [] | S n' => key :: repeat None n' end) None (Some b).

(* ---- IndexMap::swap_remove on the pending-diff map ---- *)
Fixpoint swap_remove {K D} (keqb : K -> K -> bool) (key : D -> K) (k : K) (l : list D) : option (D * list D) :=
  match l with
  | [] => None
  | d :: l' =>
      if keqb k (key d) then Some (d, match l' with [] => [] | x :: _ => last l' x :: removelast l' end)
      else match swap_remove keqb key k l' with
           | Some (d', r) => Some (d', d :: r)
           | None => None
           end
  end.

(* ---- apply_diff_map ----
   info : the node action of a diff entry;  chg : change_name on the target's names at the target
   namespace;  mk : FromKey + set name + Target::new;  child : the apply_child closure. *)
Fixpoint apply_targets {K D T} (keqb : K -> K -> bool) (dkey : D -> K) (tkey : T -> K)
    (info : D -> action str) (chg : T -> option str -> option str -> res T)
    (child : D -> T -> res T) (pending : list D) (targets : list T) : res (list T * list D) :=
  match targets with
  | [] => Ok ([], pending)
  | t :: ts =>
      match swap_remove keqb dkey (tkey t) pending with
      | None =>     (* case 2: key only in targets *)
          do rp <- apply_targets keqb dkey tkey info chg child pending ts;
          Ok (t :: fst rp, snd rp)
      | Some (d, pending') =>    (* case 1: key in both *)
          match info d with
          | AAdd b =>
              do t1 <- chg t None (Some b);
              do t2 <- child d t1;
              do rp <- apply_targets keqb dkey tkey info chg child pending' ts;
              Ok (t2 :: fst rp, snd rp)
          | ARem a =>
              do _ <- chg t (Some a) None;
              apply_targets keqb dkey tkey info chg child pending' ts
          | AEdit a b =>
              do t1 <- chg t (Some a) (Some b);
              do t2 <- child d t1;
              do rp <- apply_targets keqb dkey tkey info chg child pending' ts;
              Ok (t2 :: fst rp, snd rp)
          | ANone =>
              do t2 <- child d t;
              do rp <- apply_targets keqb dkey tkey info chg child pending' ts;
              Ok (t2 :: fst rp, snd rp)
          end
      end
  end.

(* case 3: keys only in diffs *)
Fixpoint apply_pending {K D T} (dkey : D -> K) (info : D -> action str) (mk : K -> str -> res T)
    (child : D -> T -> res T) (pending : list D) : res (list T) :=
  match pending with
  | [] => Ok []
  | d :: ds =>
      match info d with
      | AAdd b =>
          do t0 <- mk (dkey d) b;
          do t <- child d t0;
          do r <- apply_pending dkey info mk child ds;
          Ok (t :: r)
      | _ => Err
      end
  end.

Definition apply_map {K D T} (keqb : K -> K -> bool) (dkey : D -> K) (tkey : T -> K)
    (info : D -> action str) (chg : T -> option str -> option str -> res T) (mk : K -> str -> res T)
    (child : D -> T -> res T) (diffs : list D) (targets : list T) : res (list T) :=
  do rp <- apply_targets keqb dkey tkey info chg child diffs targets;
  do r2 <- apply_pending dkey info mk child (snd rp);
  Ok (fst rp ++ r2).

(* ---- the four levels (the closures of MappingsDiff::apply_to) ---- *)
Definition doc_apply := apply_option str_eqb.

Definition chg_param (tns : nat) (p : param) (from to : option str) : res param :=
  do n <- change_name tns (p_names p) from to; Ok (mkParam (p_index p) n (p_doc p)).
Definition new_param (n tns : nat) (k : N) (b : str) : res param :=
  do l <- fresh_names n tns None b; Ok (mkParam k l None).   (* ParameterMapping::from_key: Names::none() *)
Definition apply_param (d : pdiff) (p : param) : res param :=
  do doc <- doc_apply (pd_doc d) (p_doc p); Ok (mkParam (p_index p) (p_names p) doc).
Definition apply_params (n tns : nat) : list pdiff -> list param -> res (list param) :=
  apply_map N.eqb pd_index pkey pd_info (chg_param tns) (new_param n tns) apply_param.

Definition chg_field (tns : nat) (f : field) (from to : option str) : res field :=
  do n <- change_name tns (f_names f) from to; Ok (mkField (f_desc f) n (f_doc f)).
Definition new_field (n tns : nat) (k : str * str) (b : str) : res field :=
  do l <- fresh_names n tns (Some (fst k)) b; Ok (mkField (snd k) l None).
Definition apply_field (d : fdiff) (f : field) : res field :=
  do doc <- doc_apply (fd_doc d) (f_doc f); Ok (mkField (f_desc f) (f_names f) doc).
Definition apply_fields (n tns : nat) : list fdiff -> list field -> res (list field) :=
  apply_map key2_eqb fdkey fkey fd_info (chg_field tns) (new_field n tns) apply_field.

Definition chg_meth (tns : nat) (m : meth) (from to : option str) : res meth :=
  do n <- change_name tns (m_names m) from to; Ok (mkMeth (m_desc m) n (m_doc m) (m_params m)).
Definition new_meth (n tns : nat) (k : str * str) (b : str) : res meth :=
  do l <- fresh_names n tns (Some (fst k)) b; Ok (mkMeth (snd k) l None []).
Definition apply_meth (n tns : nat) (d : mdiff) (m : meth) : res meth :=
  do doc <- doc_apply (md_doc d) (m_doc m);
  do ps <- apply_params n tns (md_params d) (m_params m);
  Ok (mkMeth (m_desc m) (m_names m) doc ps).
Definition apply_meths (n tns : nat) : list mdiff -> list meth -> res (list meth) :=
  apply_map key2_eqb mdkey mkey md_info (chg_meth tns) (new_meth n tns) (apply_meth n tns).

Definition chg_class (tns : nat) (c : class) (from to : option str) : res class :=
  do n <- change_name tns (c_names c) from to; Ok (mkClass n (c_doc c) (c_fields c) (c_methods c)).
Definition new_class (n tns : nat) (k : str) (b : str) : res class :=
  do l <- fresh_names n tns (Some k) b; Ok (mkClass l None [] []).
Definition apply_class (n tns : nat) (d : cdiff) (c : class) : res class :=
  do doc <- doc_apply (cd_doc d) (c_doc c);
  do fs <- apply_fields n tns (cd_fields d) (c_fields c);
  do ms <- apply_meths n tns (cd_methods d) (c_methods c);
  Ok (mkClass (c_names c) doc fs ms).
Definition apply_classes (n tns : nat) : list cdiff -> list class -> res (list class) :=
  apply_map str_eqb cd_name ckey cd_info (chg_class tns) (new_class n tns) (apply_class n tns).

(* Namespaces::get_namespace: the first namespace with that name *)
Fixpoint index_of (s : str) (l : list str) : option nat :=
  match l with
  | [] => None
  | x :: l' => if str_eqb x s then Some O
               else match index_of s l' with Some i => Some (S i) | None => None end
  end.

(* the `info` match of apply_to: only a rename of the target namespace (old name checked) or nothing *)
Definition apply_ns (tns : nat) (d : action str) (ns : list str) : res (list str) :=
  match d with
  | AAdd _ => Err
  | ARem _ => Err
  | AEdit a b => if str_eqb (nth tns ns []) a then Ok (set_nth tns ns b) else Err
  | ANone => Ok ns
  end.

Definition apply_at (tns : nat) (d : mdiffs) (t : mappings) : res mappings :=
  let n := length (ms_ns t) in
  do ns' <- apply_ns tns (d_info d) (ms_ns t);
  do doc <- doc_apply (d_doc d) (ms_doc t);
  do cs <- apply_classes n tns (d_classes d) (ms_classes t);
  Ok (mkMappings ns' doc cs).

(* MappingsDiff::apply_to(target, namespace) *)
Definition apply_to (d : mdiffs) (t : mappings) (nsname : str) : res mappings :=
  match index_of nsname (ms_ns t) with
  | None => Err
  | Some tns => apply_at tns d t
  end.

(* ---- diff (diff_mappings.rs) ---- *)
Inductive comb (T : Type) : Type := CA (a : T) | CB (b : T) | CAB (a b : T).
Arguments CA {T} a.
Arguments CB {T} b.
Arguments CAB {T} a b.
Definition comb_map {T U} (f : T -> U) (c : comb T) : comb U :=
  match c with CA a => CA (f a) | CB b => CB (f b) | CAB a b => CAB (f a) (f b) end.

Fixpoint find_key {K T} (keqb : K -> K -> bool) (key : T -> K) (k : K) (l : list T) : option T :=
  match l with
  | [] => None
  | x :: l' => if keqb k (key x) then Some x else find_key keqb key k l'
  end.

Fixpoint map_res {A B} (f : A -> res B) (l : list A) : res (list B) :=
  match l with
  | [] => Ok []
  | x :: l' => do y <- f x; do ys <- map_res f l'; Ok (y :: ys)
  end.

(* `a.keys().chain(b.keys()).collect::<IndexSet>()`: keys of a, then the keys of b not in a
   (the keys of one IndexMap are pairwise distinct) *)
Definition zip_keys {K T} (keqb : K -> K -> bool) (key : T -> K) (a b : list T) : list K :=
  map key a ++ filter (fun k => negb (existsb (keqb k) (map key a))) (map key b).

Definition zip_map {K T W} (keqb : K -> K -> bool) (key : T -> K) (a b : list T)
    (f : K -> comb T -> res W) : res (list W) :=
  map_res (fun k => match find_key keqb key k a, find_key keqb key k b with
                    | Some x, None => f k (CA x)
                    | None, Some y => f k (CB y)
                    | Some x, Some y => f k (CAB x y)
                    | None, None => Err     (* unreachable!() *)
                    end) (zip_keys keqb key a b).

Definition zip_comb {K T W} (keqb : K -> K -> bool) (key : T -> K) (ab : comb (list T))
    (f : K -> comb T -> res W) : res (list W) :=
  match ab with
  | CA a => map_res (fun x => f (key x) (CA x)) a       (* map_combine_one_side *)
  | CB b => map_res (fun y => f (key y) (CB y)) b
  | CAB a b => zip_map keqb key a b f
  end.

(* gen_diff_names: Namespace::new(1) *)
Definition diff_ns : nat := 1.
Definition gen_names (ab : comb names) : res (action str) :=
  match comb_map (fun l => nth diff_ns l None) ab with
  | CA (Some a) => Ok (ARem a)
  | CB (Some b) => Ok (AAdd b)
  | CAB (Some a) (Some b) => Ok (AEdit a b)
  | _ => Err
  end.

Definition gen_doc (ab : comb (option str)) : action str :=
  match ab with
  | CA (Some a) => ARem a
  | CA None => ANone
  | CB (Some b) => AAdd b
  | CB None => ANone
  | CAB a b => from_tuple a b
  end.

Definition diff_param (k : N) (ab : comb param) : res pdiff :=
  do i <- gen_names (comb_map p_names ab);
  Ok (mkPD k i (gen_doc (comb_map p_doc ab))).
Definition diff_field (k : str * str) (ab : comb field) : res fdiff :=
  do i <- gen_names (comb_map f_names ab);
  Ok (mkFD (fst k) (snd k) i (gen_doc (comb_map f_doc ab))).
Definition diff_meth (k : str * str) (ab : comb meth) : res mdiff :=
  do i <- gen_names (comb_map m_names ab);
  do ps <- zip_comb N.eqb pkey (comb_map m_params ab) diff_param;
  Ok (mkMD (fst k) (snd k) i (gen_doc (comb_map m_doc ab)) ps).
Definition diff_class (k : str) (ab : comb class) : res cdiff :=
  do i <- gen_names (comb_map c_names ab);
  do fs <- zip_comb key2_eqb fkey (comb_map c_fields ab) diff_field;
  do ms <- zip_comb key2_eqb mkey (comb_map c_methods ab) diff_meth;
  Ok (mkCD k i (gen_doc (comb_map c_doc ab)) fs ms).

(* MappingsDiff::diff *)
Definition diff (a b : mappings) : res mdiffs :=
  if list_eqb str_eqb (ms_ns a) (ms_ns b) then
    do cs <- zip_comb str_eqb ckey (CAB (ms_classes a) (ms_classes b)) diff_class;
    Ok (mkDiff ANone (gen_doc (CAB (ms_doc a) (ms_doc b))) cs)
  else Err.

(* ---- boolean equalities on diff trees (for the correspondence run) ---- *)
Definition action_eqb (a b : action str) : bool :=
  match a, b with
  | ANone, ANone => true
  | AAdd x, AAdd y => str_eqb x y
  | ARem x, ARem y => str_eqb x y
  | AEdit x1 x2, AEdit y1 y2 => str_eqb x1 y1 && str_eqb x2 y2
  | _, _ => false
  end.
Definition pdiff_eqb (a b : pdiff) : bool :=
  N.eqb (pd_index a) (pd_index b) && action_eqb (pd_info a) (pd_info b) && action_eqb (pd_doc a) (pd_doc b).
Definition fdiff_eqb (a b : fdiff) : bool :=
  str_eqb (fd_name a) (fd_name b) && str_eqb (fd_desc a) (fd_desc b)
  && action_eqb (fd_info a) (fd_info b) && action_eqb (fd_doc a) (fd_doc b).
Definition mdiff_eqb (a b : mdiff) : bool :=
  str_eqb (md_name a) (md_name b) && str_eqb (md_desc a) (md_desc b)
  && action_eqb (md_info a) (md_info b) && action_eqb (md_doc a) (md_doc b)
  && list_eqb pdiff_eqb (md_params a) (md_params b).
Definition cdiff_eqb (a b : cdiff) : bool :=
  str_eqb (cd_name a) (cd_name b) && action_eqb (cd_info a) (cd_info b) && action_eqb (cd_doc a) (cd_doc b)
  && list_eqb fdiff_eqb (cd_fields a) (cd_fields b) && list_eqb mdiff_eqb (cd_methods a) (cd_methods b).
Definition mdiffs_eqb (a b : mdiffs) : bool :=
  action_eqb (d_info a) (d_info b) && action_eqb (d_doc a) (d_doc b)
  && list_eqb cdiff_eqb (d_classes a) (d_classes b).
