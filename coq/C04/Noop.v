(* C04 theory: a diff without any effective action (every action None or Edit(x,x): what Action::is_diff
   calls "no diff") is the identity wherever it applies - the result is the target itself, in the same
   order; together with diff_self_noop: apply (diff A A) A = Ok A, literally. *)
From FB Require Export C04.Spec.
From Coq Require Import Permutation.

Lemma set_nth_same {A} (i : nat) (l : list A) (d x : A) : nth i l d = x -> (i < length l)%nat -> set_nth i l x = l.
Proof.
  revert i. induction l as [|y l IH]; intros [|i]; cbn [nth set_nth length]; intros H Hl; try reflexivity.
  - subst. reflexivity.
  - f_equal. apply IH; [exact H|]. apply PeanoNat.Nat.succ_lt_mono. exact Hl.
Qed.

Lemma set_nth_beyond {A} (i : nat) (l : list A) (x : A) : (length l <= i)%nat -> set_nth i l x = l.
Proof.
  revert i. induction l as [|y l IH]; intros [|i]; cbn [set_nth length]; intros Hl; try reflexivity.
  - inversion Hl.
  - f_equal. apply IH. apply le_S_n. exact Hl.
Qed.

Lemma nth_some_lt {A} (i : nat) (l : list (option A)) x : nth i l None = Some x -> (i < length l)%nat.
Proof.
  intros H. destruct (PeanoNat.Nat.lt_ge_cases i (length l)) as [Hl|Hl]; [exact Hl|].
  rewrite nth_overflow in H by exact Hl. discriminate.
Qed.

Lemma change_name_same tns l x l' : change_name tns l (Some x) (Some x) = Ok l' -> l' = l.
Proof.
  intros H. apply change_name_ok in H. destruct H as (_ & Hn & ->).
  apply (set_nth_same tns l None (Some x) Hn). exact (nth_some_lt _ _ _ Hn).
Qed.

(* ------------------------------------------------------------------ *)
(* one map level *)

Definition noop_info (a : action str) : Prop := is_diff str_eqb a = false.

Lemma apply_targets_noop {K D T} (L : level K D T) ts : forall pending r p',
  (forall d, In d pending -> noop_info (l_info L d)) ->
  (forall d t t', In d pending -> l_child L d t = Ok t' -> t' = t) ->
  (forall t x t1, l_chg L t (Some x) (Some x) = Ok t1 -> t1 = t) ->
  apply_targets (l_keqb L) (l_dkey L) (l_tkey L) (l_info L) (l_chg L) (l_child L) pending ts = Ok (r, p') ->
  r = ts /\ forall d, In d p' -> In d pending.
Proof.
  induction ts as [|t ts IH]; intros pending r p' Hn Hc Hg; cbn [apply_targets].
  - intros [= <- <-]. auto.
  - destruct (swap_remove (l_keqb L) (l_dkey L) (l_tkey L t) pending) as [[d pending']|] eqn:Es.
    + destruct (swap_remove_some _ _ _ _ _ _ Es) as [_ Hp].
      assert (Hin : In d pending) by (eapply Permutation_in; [symmetry; exact Hp|left; reflexivity]).
      assert (Hsub : forall e, In e pending' -> In e pending)
        by (intros e He; eapply Permutation_in; [symmetry; exact Hp|right; exact He]).
      pose proof (Hn d Hin) as Hd. unfold noop_info in Hd. apply is_diff_false_iff in Hd.
      destruct Hd as [Ed|(x & Ed)]; rewrite Ed.
      * intros H. apply bind_ok in H. destruct H as (t2 & H2 & H). apply bind_ok in H. destruct H as ([r1 p1] & H1 & [= <- <-]).
        destruct (IH pending' r1 p1 (fun e He => Hn e (Hsub e He)) (fun e u u' He => Hc e u u' (Hsub e He)) Hg H1) as [-> Hs].
        cbn [fst snd]. rewrite (Hc d t t2 Hin H2). split; [reflexivity|]. intros e He. apply Hsub, Hs, He.
      * intros H. apply bind_ok in H. destruct H as (t1 & Ht1 & H). apply bind_ok in H. destruct H as (t2 & H2 & H).
        apply bind_ok in H. destruct H as ([r1 p1] & H1 & [= <- <-]).
        destruct (IH pending' r1 p1 (fun e He => Hn e (Hsub e He)) (fun e u u' He => Hc e u u' (Hsub e He)) Hg H1) as [-> Hs].
        cbn [fst snd]. rewrite (Hg t x t1 Ht1) in H2. rewrite (Hc d t t2 Hin H2).
        split; [reflexivity|]. intros e He. apply Hsub, Hs, He.
    + intros H. apply bind_ok in H. destruct H as ([r1 p1] & H1 & [= <- <-]).
      destruct (IH pending r1 p1 Hn Hc Hg H1) as [-> Hs]. cbn [fst snd]. auto.
Qed.

Lemma apply_pending_noop {K D T} (L : level K D T) p r :
  (forall d, In d p -> noop_info (l_info L d)) ->
  apply_pending (l_dkey L) (l_info L) (l_mk L) (l_child L) p = Ok r -> p = [] /\ r = [].
Proof.
  intros Hn. destruct p as [|d p]; cbn [apply_pending]; [intros [= <-]; auto|].
  pose proof (Hn d (or_introl eq_refl)) as Hd. unfold noop_info in Hd. apply is_diff_false_iff in Hd.
  destruct Hd as [Ed|(x & Ed)]; rewrite Ed; discriminate.
Qed.

Theorem apply_map_noop {K D T} (L : level K D T) ds ts r :
  (forall d, In d ds -> noop_info (l_info L d)) ->
  (forall d t t', In d ds -> l_child L d t = Ok t' -> t' = t) ->
  (forall t x t1, l_chg L t (Some x) (Some x) = Ok t1 -> t1 = t) ->
  apply_map_L L ds ts = Ok r -> r = ts.
Proof.
  intros Hn Hc Hg. unfold apply_map_L, apply_map. intros H.
  apply bind_ok in H. destruct H as ([r1 p1] & H1 & H). apply bind_ok in H. destruct H as (r2 & H2 & [= <-]).
  destruct (apply_targets_noop L ts ds r1 p1 Hn Hc Hg H1) as [-> Hs]. cbn [fst snd] in *.
  destruct (apply_pending_noop L p1 r2 (fun d Hd => Hn d (Hs d Hd)) H2) as [_ ->].
  apply app_nil_r.
Qed.

(* ------------------------------------------------------------------ *)
(* the four levels *)

Lemma doc_apply_noop a t r : is_diff str_eqb a = false -> doc_apply a t = Ok r -> r = t.
Proof. intros Hn H. exact (apply_option_noop a t r Hn H). Qed.

Lemma negb_true_false b : negb b = true -> b = false.
Proof. destruct b; [discriminate|reflexivity]. Qed.

Lemma apply_param_noop d p p' : noop_param d = true -> apply_param d p = Ok p' -> p' = p.
Proof.
  unfold noop_param. rewrite andb_true_iff. intros [_ Hd]. apply negb_true_false in Hd.
  unfold apply_param. intros H. apply bind_ok in H. destruct H as (doc & Hdoc & [= <-]).
  rewrite (doc_apply_noop _ _ _ Hd Hdoc). destruct p; reflexivity.
Qed.

Lemma apply_field_noop d f f' : noop_field d = true -> apply_field d f = Ok f' -> f' = f.
Proof.
  unfold noop_field. rewrite andb_true_iff. intros [_ Hd]. apply negb_true_false in Hd.
  unfold apply_field. intros H. apply bind_ok in H. destruct H as (doc & Hdoc & [= <-]).
  rewrite (doc_apply_noop _ _ _ Hd Hdoc). destruct f; reflexivity.
Qed.

Lemma chg_param_same tns p x p1 : chg_param tns p (Some x) (Some x) = Ok p1 -> p1 = p.
Proof.
  unfold chg_param. intros H. apply bind_ok in H. destruct H as (n & Hn & [= <-]).
  rewrite (change_name_same _ _ _ _ Hn). destruct p; reflexivity.
Qed.
Lemma chg_field_same tns f x f1 : chg_field tns f (Some x) (Some x) = Ok f1 -> f1 = f.
Proof.
  unfold chg_field. intros H. apply bind_ok in H. destruct H as (n & Hn & [= <-]).
  rewrite (change_name_same _ _ _ _ Hn). destruct f; reflexivity.
Qed.
Lemma chg_meth_same tns m x m1 : chg_meth tns m (Some x) (Some x) = Ok m1 -> m1 = m.
Proof.
  unfold chg_meth. intros H. apply bind_ok in H. destruct H as (n & Hn & [= <-]).
  rewrite (change_name_same _ _ _ _ Hn). destruct m; reflexivity.
Qed.
Lemma chg_class_same tns c x c1 : chg_class tns c (Some x) (Some x) = Ok c1 -> c1 = c.
Proof.
  unfold chg_class. intros H. apply bind_ok in H. destruct H as (n & Hn & [= <-]).
  rewrite (change_name_same _ _ _ _ Hn). destruct c; reflexivity.
Qed.

Lemma noop_param_info d : noop_param d = true -> noop_info (pd_info d).
Proof. unfold noop_param. rewrite andb_true_iff. intros [H _]. exact (negb_true_false _ H). Qed.
Lemma noop_field_info d : noop_field d = true -> noop_info (fd_info d).
Proof. unfold noop_field. rewrite andb_true_iff. intros [H _]. exact (negb_true_false _ H). Qed.
Lemma noop_meth_parts d : noop_meth d = true ->
  noop_info (md_info d) /\ is_diff str_eqb (md_doc d) = false /\ forall p, In p (md_params d) -> noop_param p = true.
Proof.
  unfold noop_meth. rewrite !andb_true_iff. intros [[H1 H2] H3]. rewrite forallb_forall in H3.
  split; [exact (negb_true_false _ H1)|]. split; [exact (negb_true_false _ H2)|exact H3].
Qed.
Lemma noop_class_parts d : noop_class d = true ->
  noop_info (cd_info d) /\ is_diff str_eqb (cd_doc d) = false
  /\ (forall f, In f (cd_fields d) -> noop_field f = true) /\ (forall m, In m (cd_methods d) -> noop_meth m = true).
Proof.
  unfold noop_class. rewrite !andb_true_iff. intros [[[H1 H2] H3] H4]. rewrite forallb_forall in H3, H4.
  split; [exact (negb_true_false _ H1)|]. split; [exact (negb_true_false _ H2)|]. split; [exact H3|exact H4].
Qed.

Lemma apply_meth_noop n tns d m m' : noop_meth d = true -> apply_meth n tns d m = Ok m' -> m' = m.
Proof.
  intros Hn. destruct (noop_meth_parts d Hn) as (_ & Hd & Hp).
  unfold apply_meth. intros H. apply bind_ok in H. destruct H as (doc & Hdoc & H).
  apply bind_ok in H. destruct H as (ps & Hps & [= <-]).
  rewrite (doc_apply_noop _ _ _ Hd Hdoc).
  assert (E : ps = m_params m).
  { apply (apply_map_noop (Lparam n tns) (md_params d) (m_params m) ps).
    - intros p Hin. exact (noop_param_info p (Hp p Hin)).
    - intros p t t' Hin Ht. exact (apply_param_noop p t t' (Hp p Hin) Ht).
    - intros t x t1 Ht. exact (chg_param_same tns t x t1 Ht).
    - exact Hps. }
  rewrite E. destruct m; reflexivity.
Qed.

Lemma apply_class_noop n tns d c c' : noop_class d = true -> apply_class n tns d c = Ok c' -> c' = c.
Proof.
  intros Hn. destruct (noop_class_parts d Hn) as (_ & Hd & Hf & Hm).
  unfold apply_class. intros H. apply bind_ok in H. destruct H as (doc & Hdoc & H).
  apply bind_ok in H. destruct H as (fs & Hfs & H). apply bind_ok in H. destruct H as (ms & Hms & [= <-]).
  rewrite (doc_apply_noop _ _ _ Hd Hdoc).
  assert (Ef : fs = c_fields c).
  { apply (apply_map_noop (Lfield n tns) (cd_fields d) (c_fields c) fs).
    - intros f Hin. exact (noop_field_info f (Hf f Hin)).
    - intros f t t' Hin Ht. exact (apply_field_noop f t t' (Hf f Hin) Ht).
    - intros t x t1 Ht. exact (chg_field_same tns t x t1 Ht).
    - exact Hfs. }
  assert (Em : ms = c_methods c).
  { apply (apply_map_noop (Lmeth n tns) (cd_methods d) (c_methods c) ms).
    - intros m Hin. exact (proj1 (noop_meth_parts m (Hm m Hin))).
    - intros m t t' Hin Ht. exact (apply_meth_noop n tns m t t' (Hm m Hin) Ht).
    - intros t x t1 Ht. exact (chg_meth_same tns t x t1 Ht).
    - exact Hms. }
  rewrite Ef, Em. destruct c; reflexivity.
Qed.

Lemma apply_ns_noop tns a ns ns' : is_diff str_eqb a = false -> apply_ns tns a ns = Ok ns' -> ns' = ns.
Proof.
  intros Hn. apply is_diff_false_iff in Hn. destruct Hn as [->|(x & ->)]; cbn [apply_ns].
  - intros [= <-]. reflexivity.
  - destruct (str_eqb (nth tns ns []) x) eqn:E; [|discriminate]. intros [= <-].
    apply str_eqb_eq in E.
    destruct (PeanoNat.Nat.lt_ge_cases tns (length ns)) as [Hl|Hl].
    + exact (set_nth_same tns ns [] x E Hl).
    + exact (set_nth_beyond tns ns x Hl).
Qed.

(* a no-op diff is the identity wherever it applies (no well-formedness needed) *)
Theorem apply_noop_identity tns d t r : noop_diff d = true -> apply_at tns d t = Ok r -> r = t.
Proof.
  unfold noop_diff. rewrite !andb_true_iff. intros [[Hi Hd] Hc]. rewrite forallb_forall in Hc.
  apply negb_true_false in Hi. apply negb_true_false in Hd.
  unfold apply_at. intros H. apply bind_ok in H. destruct H as (ns' & Hns & H).
  apply bind_ok in H. destruct H as (doc & Hdoc & H). apply bind_ok in H. destruct H as (cs & Hcs & [= <-]).
  rewrite (apply_ns_noop _ _ _ _ Hi Hns), (doc_apply_noop _ _ _ Hd Hdoc).
  assert (E : cs = ms_classes t).
  { apply (apply_map_noop (Lclass (length (ms_ns t)) tns) (d_classes d) (ms_classes t) cs).
    - intros c Hin. exact (proj1 (noop_class_parts c (Hc c Hin))).
    - intros c u u' Hin Hu. exact (apply_class_noop _ tns c u u' (Hc c Hin) Hu).
    - intros u x u1 Hu. exact (chg_class_same tns u x u1 Hu).
    - exact Hcs. }
  rewrite E. destruct t; reflexivity.
Qed.

Corollary apply_to_noop_identity d t nsname r : noop_diff d = true -> apply_to d t nsname = Ok r -> r = t.
Proof.
  intros Hn H. unfold apply_to in H. destruct (index_of nsname (ms_ns t)) as [tns|]; [|discriminate].
  exact (apply_noop_identity tns d t r Hn H).
Qed.

(* diff A A applied to A gives A itself, entry for entry and in the same order *)
Theorem diff_self_exact A :
  wf A = true -> two_ns A = true -> named A = true ->
  exists d, diff A A = Ok d /\ noop_diff d = true /\ apply_to d A (nth 1 (ms_ns A) []) = Ok A.
Proof.
  intros HA H2 Hn. destruct (diff_self A HA H2 Hn) as (d & r & Hd & Hno & Hr & _).
  exists d. split; [exact Hd|]. split; [exact Hno|].
  rewrite Hr. f_equal. exact (apply_to_noop_identity d A _ r Hno Hr).
Qed.

(* ------------------------------------------------------------------ *)
(* non-vacuity of the round-4 hypotheses *)
Definition holder_d : mdiffs :=
  mkDiff ANone ANone [mkCD [120] ANone ANone [] [mkMD [109] [40;41;86] (AAdd [77]) (AAdd [100]) [mkPD 0 (AAdd [112]) ANone]]].

Theorem round4_nonvacuous :
  (wf ex_A = true /\ two_ns ex_A = true /\ named ex_A = true)
  /\ (exists d, diff ex_A ex_A = Ok d /\ length (d_classes d) = 3%nat /\ d <> mkDiff ANone ANone [])
  /\ (canon ex_B <> ex_B /\ wf (canon ex_B) = true /\ equivb (canon ex_B) ex_B = true /\ mequiv (canon ex_B) ex_B)
  /\ (wf_diff holder_d = true /\ NoDup (map ckey (ms_classes f3_A))
      /\ (exists cd, cdfind [120] (d_classes holder_d) = Some cd /\ cd_info cd = ANone /\ cd_methods cd <> [])
      /\ cfind [120] (ms_classes f3_A) = None /\ apply_to holder_d f3_A [110] = Err)
  /\ (exists A B, inverse_hyps_b A B = true /\ f3_class A B = false /\ inverse_law_b A B = true
                  /\ text_hyps_top_b A B = true /\ f4_class A B = false /\ text_inverse_law_b A B = true).
Proof.
  split; [repeat split; vm_compute; reflexivity|].
  split; [eexists; split; [vm_compute; reflexivity|split; [reflexivity|discriminate]]|].
  split.
  { split; [vm_compute; discriminate|]. split; [vm_compute; reflexivity|]. split; [vm_compute; reflexivity|].
    apply equivb_mequiv; vm_compute; reflexivity. }
  split.
  { split; [vm_compute; reflexivity|]. split; [repeat constructor; intros []|].
    split; [eexists; split; [vm_compute; reflexivity|split; [reflexivity|discriminate]]|].
    split; vm_compute; reflexivity. }
  exists ex_A, ex_B. repeat split; vm_compute; reflexivity.
Qed.
