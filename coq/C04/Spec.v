(* C04 theory: (1) the Action helpers of mappings_diff/action.rs; (2) apply_diff_option is invertible by
   Action::flip and determines its action up to no-ops; (3) a diff entry that is not an addition and whose
   key is absent from the target refuses the whole application, whatever is below it ("holder" nodes);
   (4) the declarative specification of MappingsDiff::diff at all five levels: the diff mentions exactly
   the union of the keys of both sides (nothing is pruned, nothing invented), keys on both sides carry
   Edit, keys on one side Remove / Add, comments from_tuple; (5) diff A A is a no-op diff and applying it
   gives A back. *)
From FB Require Export C04.Theory2 C04.Model2 C04.Equiv.

(* ------------------------------------------------------------------ *)
(* (1) Action helpers *)

Lemma from_to_tuple {A} (a : action A) : from_tuple (fst (to_tuple a)) (snd (to_tuple a)) = a.
Proof. destruct a; reflexivity. Qed.

Lemma to_from_tuple {A} (x y : option A) : to_tuple (from_tuple x y) = (x, y).
Proof. destruct x, y; reflexivity. Qed.

Lemma flip_tuple {A} (a : action A) : flip a = from_tuple (snd (to_tuple a)) (fst (to_tuple a)).
Proof. destruct a; reflexivity. Qed.

Lemma flip_flip {A} (a : action A) : flip (flip a) = a.
Proof. destruct a; reflexivity. Qed.

Lemma is_diff_false_iff (a : action str) :
  is_diff str_eqb a = false <-> a = ANone \/ exists x, a = AEdit x x.
Proof.
  destruct a as [|b|x|x y]; cbn [is_diff].
  - split; auto.
  - split; [discriminate|intros [H|(x & H)]; discriminate].
  - split; [discriminate|intros [H|(z & H)]; discriminate].
  - rewrite negb_false_iff, str_eqb_eq. split.
    + intros ->. right. eauto.
    + intros [H|(z & H)]; [discriminate|]. injection H as -> ->. reflexivity.
Qed.

Lemma is_diff_flip (a : action str) : is_diff str_eqb (flip a) = is_diff str_eqb a.
Proof.
  destruct a as [|b|x|x y]; cbn [flip is_diff]; try reflexivity. f_equal.
  destruct (str_eqb_spec x y) as [->|Hn]; [apply str_eqb_refl|].
  apply str_eqb_neq. congruence.
Qed.

Lemma is_diff_from_tuple_same (o : option str) : is_diff str_eqb (from_tuple o o) = false.
Proof. destruct o as [x|]; cbn [from_tuple is_diff]; [rewrite str_eqb_refl|]; reflexivity. Qed.

(* the text form's normalisation maps exactly the no-ops (and nothing else that mentions a non-empty value) to None *)
Lemma is_diff_false_norm (a : action str) : is_diff str_eqb a = false -> norm_action a = ANone.
Proof.
  intros H. apply is_diff_false_iff in H. destruct H as [->|(x & ->)]; [reflexivity|].
  unfold norm_action. rewrite str_eqb_refl. reflexivity.
Qed.

(* ------------------------------------------------------------------ *)
(* (2) apply_diff_option: inverse by flip, no-ops, uniqueness of the action *)

Theorem apply_option_flip (d : action str) (t r : option str) :
  apply_option str_eqb d t = Ok r -> apply_option str_eqb (flip d) r = Ok t.
Proof.
  intros H. apply apply_option_ok_iff in H.
  destruct H as [[-> ->]|[(b & -> & -> & ->)|[(a & -> & -> & ->)|(a & b & -> & -> & ->)]]]; cbn [flip apply_option];
    rewrite ?str_eqb_refl; reflexivity.
Qed.

Theorem apply_option_noop (d : action str) (t r : option str) :
  is_diff str_eqb d = false -> apply_option str_eqb d t = Ok r -> r = t.
Proof.
  intros Hn H. apply is_diff_false_iff in Hn. apply apply_option_ok_iff in H.
  destruct Hn as [->|(x & ->)];
    destruct H as [[E ->]|[(b & E & _)|[(a & E & _)|(a & b & E & -> & ->)]]]; try discriminate; try reflexivity.
  injection E as -> ->. reflexivity.
Qed.

(* an action that applies and is not a no-op is THE action between old and new value *)
Theorem apply_option_unique (d : action str) (t r : option str) :
  apply_option str_eqb d t = Ok r -> is_diff str_eqb d = true -> d = from_tuple t r.
Proof.
  intros H Hd. apply apply_option_ok_iff in H.
  destruct H as [[-> ->]|[(b & -> & -> & ->)|[(a & -> & -> & ->)|(a & b & -> & -> & ->)]]]; cbn in *;
    try discriminate; reflexivity.
Qed.

(* and conversely the action between two values always applies *)
Theorem apply_option_between (t r : option str) : apply_option str_eqb (from_tuple t r) t = Ok r.
Proof. apply apply_option_from_tuple. Qed.

(* ------------------------------------------------------------------ *)
(* (3) holder nodes: an entry that is not an addition needs its target *)

Theorem absent_non_add_refused {K D T} (L : level K D T) (HL : level_ok L) ds ts k d :
  NoDup (map (l_dkey L) ds) -> NoDup (map (l_tkey L) ts) ->
  dfind L k ds = Some d -> (forall b, l_info L d <> AAdd b) -> tfind L k ts = None ->
  apply_map_L L ds ts = Err.
Proof.
  intros Hd Ht Ed Hna Et. pose proof (apply_map_spec L HL ds ts Hd Ht) as H.
  destruct (apply_map_L L ds ts) as [r|]; [|reflexivity]. exfalso.
  destruct H as [_ H]. specialize (H k). rewrite Ed, Et in H. cbn [entry_apply] in H.
  destruct (l_info L d) as [|b|a|a b] eqn:E; try discriminate. exact (Hna b eq_refl).
Qed.

Lemma wf_diff_parts d : wf_diff d = true ->
  NoDup (map cd_name (d_classes d)) /\ forall cd, In cd (d_classes d) -> wf_cdiff cd = true.
Proof.
  unfold wf_diff. rewrite andb_true_iff. intros [H1 H2]. split.
  - apply (nodupb_NoDup _ str_eqb_ok). exact H1.
  - rewrite forallb_forall in H2. exact H2.
Qed.

Lemma wf_cdiff_parts cd : wf_cdiff cd = true ->
  NoDup (map fdkey (cd_fields cd)) /\ NoDup (map mdkey (cd_methods cd))
  /\ forall md, In md (cd_methods cd) -> wf_mdiff md = true.
Proof.
  unfold wf_cdiff. rewrite !andb_true_iff. intros [[H1 H2] H3]. repeat split.
  - apply (nodupb_NoDup _ key2_eqb_ok). exact H1.
  - apply (nodupb_NoDup _ key2_eqb_ok). exact H2.
  - rewrite forallb_forall in H3. exact H3.
Qed.

(* class level: a class entry with None / Remove / Edit whose class the target lacks *)
Theorem holder_class_absent tns d t k cd :
  ms_ns t <> [] -> wf_diff d = true -> NoDup (map ckey (ms_classes t)) ->
  cdfind k (d_classes d) = Some cd -> (forall b, cd_info cd <> AAdd b) -> cfind k (ms_classes t) = None ->
  apply_at tns d t = Err.
Proof.
  intros Hns Hwd Hnd Ed Hna Et. apply (apply_at_err_iff tns d t Hns Hwd Hnd). right. right. exists k.
  rewrite Ed, Et. unfold class_entry. cbn [entry_apply Lclass l_info].
  destruct (cd_info cd) as [|b|a|a b] eqn:E; try reflexivity. exfalso. exact (Hna b eq_refl).
Qed.

(* member levels, inside a class the diff only holds (or adds a name to / edits): method, field *)
Theorem holder_member_absent n tns cd c :
  n <> O -> wf_cdiff cd = true -> NoDup (map fkey (c_fields c)) -> NoDup (map mkey (c_methods c)) ->
  (exists k md, mdfind k (cd_methods cd) = Some md /\ (forall b, md_info md <> AAdd b) /\ mfind k (c_methods c) = None)
  \/ (exists k fd, fdfind k (cd_fields cd) = Some fd /\ (forall b, fd_info fd <> AAdd b) /\ ffind k (c_fields c) = None) ->
  apply_class n tns cd c = Err.
Proof.
  intros Hn Hw Hf Hm H. pose proof (apply_class_spec n tns cd c Hn Hw Hf Hm) as S.
  destruct (apply_class n tns cd c) as [c'|]; [|reflexivity]. exfalso.
  destruct S as (_ & _ & _ & _ & Sf & Sm).
  destruct H as [(k & md & Ed & Hna & Et)|(k & fd & Ed & Hna & Et)].
  - specialize (Sm k). rewrite Ed, Et in Sm. unfold meth_entry in Sm. cbn [entry_apply Lmeth l_info] in Sm.
    destruct (md_info md) as [|b|a|a b] eqn:E; try discriminate. exact (Hna b eq_refl).
  - specialize (Sf k). rewrite Ed, Et in Sf. unfold field_entry in Sf. cbn [entry_apply Lfield l_info] in Sf.
    destruct (fd_info fd) as [|b|a|a b] eqn:E; try discriminate. exact (Hna b eq_refl).
Qed.

Theorem holder_param_absent n tns md m :
  wf_mdiff md = true -> NoDup (map pkey (m_params m)) ->
  (exists k pd, pdfind k (md_params md) = Some pd /\ (forall b, pd_info pd <> AAdd b) /\ pfind k (m_params m) = None) ->
  apply_meth n tns md m = Err.
Proof.
  intros Hw Hp (k & pd & Ed & Hna & Et). pose proof (apply_meth_spec n tns md m Hw Hp) as S.
  destruct (apply_meth n tns md m) as [m'|]; [|reflexivity]. exfalso.
  destruct S as (_ & _ & _ & _ & Sp). specialize (Sp k). rewrite Ed, Et in Sp.
  unfold param_entry in Sp. cbn [entry_apply Lparam l_info] in Sp.
  destruct (pd_info pd) as [|b|a|a b] eqn:E; try discriminate. exact (Hna b eq_refl).
Qed.

(* the whole way up: a method holder (no addition) whose method is missing below a class the diff keeps *)
Theorem holder_method_absent_top tns d t kc cd c km md :
  ms_ns t <> [] -> wf_diff d = true -> NoDup (map ckey (ms_classes t)) ->
  cdfind kc (d_classes d) = Some cd -> cfind kc (ms_classes t) = Some c -> cd_info cd = ANone ->
  NoDup (map fkey (c_fields c)) -> NoDup (map mkey (c_methods c)) ->
  mdfind km (cd_methods cd) = Some md -> (forall b, md_info md <> AAdd b) -> mfind km (c_methods c) = None ->
  apply_at tns d t = Err.
Proof.
  intros Hns Hwd Hnd Ed Et Hi Hf Hm Emd Hna Emt.
  apply (apply_at_err_iff tns d t Hns Hwd Hnd). right. right. exists kc.
  rewrite Ed, Et. unfold class_entry. cbn [entry_apply Lclass l_info l_child]. rewrite Hi.
  assert (Hw : wf_cdiff cd = true).
  { destruct (wf_diff_parts d Hwd) as [_ H]. apply H.
    exact (proj1 (find_key_some str_eqb str_eqb_ok cd_name _ _ _ Ed)). }
  assert (Hn : length (ms_ns t) <> O) by (destruct (ms_ns t); [contradiction|discriminate]).
  rewrite (holder_member_absent _ tns cd c Hn Hw Hf Hm); [reflexivity|].
  left. exists km, md. auto.
Qed.

(* ------------------------------------------------------------------ *)
(* (4) the declarative specification of diff *)

Definition comb_of {T} (oa ob : option T) : option (comb T) :=
  match oa, ob with
  | Some x, Some y => Some (CAB x y)
  | Some x, None => Some (CA x)
  | None, Some y => Some (CB y)
  | None, None => None
  end.

(* one key of one map level: the diff has an entry exactly when the key is on either side, and the
   entry is what [espec] says for that combination *)
Definition level_spec {K T W} (espec : K -> comb T -> W -> Prop) (k : K) (oa ob : option T) (ow : option W) : Prop :=
  match comb_of oa ob, ow with
  | None, None => True
  | Some c, Some w => espec k c w
  | _, _ => False
  end.

Lemma zip_entry_comb {K T W} (f : K -> comb T -> res W) k oa ob :
  zip_entry f k oa ob = match comb_of oa ob with None => Ok None | Some c => do w <- f k c; Ok (Some w) end.
Proof. destruct oa, ob; reflexivity. Qed.

Lemma comb_of_all {K T} keqb (HK : keqb_ok keqb) (key : T -> K) (Q : T -> Prop) a b k c :
  Forall Q a -> Forall Q b -> comb_of (find_key keqb key k a) (find_key keqb key k b) = Some c -> comb_all Q c.
Proof.
  intros Ha Hb. rewrite Forall_forall in Ha, Hb.
  destruct (find_key keqb key k a) as [x|] eqn:Ex; destruct (find_key keqb key k b) as [y|] eqn:Ey;
    cbn [comb_of]; intros [= <-]; cbn [comb_all];
    try (apply find_key_some in Ex; [|exact HK]); try (apply find_key_some in Ey; [|exact HK]).
  - split; [apply Ha|apply Hb]; tauto.
  - apply Ha. tauto.
  - apply Hb. tauto.
Qed.

Theorem zip_level {K T W} keqb (HK : keqb_ok keqb) (key : T -> K) (dkey : W -> K) (ab : comb (list T))
    (f : K -> comb T -> res W) (Q : T -> Prop) (espec : K -> comb T -> W -> Prop) ds :
  (forall k c w, f k c = Ok w -> dkey w = k) ->
  NoDup (map key (sideA ab)) -> NoDup (map key (sideB ab)) ->
  Forall Q (sideA ab) -> Forall Q (sideB ab) ->
  (forall k c w, comb_all Q c -> f k c = Ok w -> espec k c w) ->
  zip_comb keqb key ab f = Ok ds ->
  NoDup (map dkey ds)
  /\ forall k, level_spec espec k (find_key keqb key k (sideA ab)) (find_key keqb key k (sideB ab)) (find_key keqb dkey k ds).
Proof.
  intros Hf Ha Hb HQa HQb Hs E. pose proof (zip_comb_spec keqb HK key dkey ab f Hf Ha Hb) as Z.
  rewrite E in Z. destruct Z as [Z1 Z2]. split; [exact Z1|].
  intros k. specialize (Z2 k). rewrite zip_entry_comb in Z2. unfold level_spec.
  destruct (comb_of (find_key keqb key k (sideA ab)) (find_key keqb key k (sideB ab))) as [c|] eqn:Ec.
  - destruct (f k c) as [w|] eqn:Ef; cbn [bind] in Z2; [|discriminate]. injection Z2 as <-.
    apply Hs; [|exact Ef]. exact (comb_of_all keqb HK key Q _ _ k c HQa HQb Ec).
  - injection Z2 as <-. exact I.
Qed.

(* the name action of an entry: Remove on A's side only, Add on B's side only, Edit on both *)
Definition info_spec (c : comb names) (i : action str) : Prop :=
  match c with
  | CA la => exists a, tname la = Some a /\ i = ARem a
  | CB lb => exists b, tname lb = Some b /\ i = AAdd b
  | CAB la lb => exists a b, tname la = Some a /\ tname lb = Some b /\ i = AEdit a b
  end.
Definition cdocA (c : comb (option str)) : option str := match c with CA a => a | CB _ => None | CAB a _ => a end.
Definition cdocB (c : comb (option str)) : option str := match c with CA _ => None | CB b => b | CAB _ b => b end.
Definition doc_spec (c : comb (option str)) (a : action str) : Prop := a = from_tuple (cdocA c) (cdocB c).

Lemma gen_names_spec c i : gen_names c = Ok i -> info_spec c i.
Proof.
  unfold gen_names, info_spec, tname. destruct c as [a|b|a b]; cbn [comb_map].
  - destruct (nth diff_ns a None); intros [= <-]. eauto.
  - destruct (nth diff_ns b None); intros [= <-]. eauto.
  - destruct (nth diff_ns a None), (nth diff_ns b None); intros [= <-]. eauto.
Qed.

Lemma gen_doc_spec c : doc_spec c (gen_doc c).
Proof. unfold doc_spec. destruct c as [[a|]|[b|]|a b]; reflexivity. Qed.

Definition pspec (k : N) (c : comb param) (w : pdiff) : Prop :=
  pd_index w = k /\ info_spec (comb_map p_names c) (pd_info w) /\ doc_spec (comb_map p_doc c) (pd_doc w).
Definition fspec (k : str * str) (c : comb field) (w : fdiff) : Prop :=
  fdkey w = k /\ info_spec (comb_map f_names c) (fd_info w) /\ doc_spec (comb_map f_doc c) (fd_doc w).
Definition mspec (k : str * str) (c : comb meth) (w : mdiff) : Prop :=
  mdkey w = k /\ info_spec (comb_map m_names c) (md_info w) /\ doc_spec (comb_map m_doc c) (md_doc w)
  /\ NoDup (map pd_index (md_params w))
  /\ forall kp, level_spec pspec kp (pfind kp (sideA (comb_map m_params c))) (pfind kp (sideB (comb_map m_params c)))
                           (pdfind kp (md_params w)).
Definition cspec (k : str) (c : comb class) (w : cdiff) : Prop :=
  cd_name w = k /\ info_spec (comb_map c_names c) (cd_info w) /\ doc_spec (comb_map c_doc c) (cd_doc w)
  /\ NoDup (map fdkey (cd_fields w))
  /\ (forall kf, level_spec fspec kf (ffind kf (sideA (comb_map c_fields c))) (ffind kf (sideB (comb_map c_fields c)))
                            (fdfind kf (cd_fields w)))
  /\ NoDup (map mdkey (cd_methods w))
  /\ (forall km, level_spec mspec km (mfind km (sideA (comb_map c_methods c))) (mfind km (sideB (comb_map c_methods c)))
                            (mdfind km (cd_methods w))).
Definition diff_spec (A B : mappings) (d : mdiffs) : Prop :=
  d_info d = ANone /\ d_doc d = from_tuple (ms_doc A) (ms_doc B)
  /\ NoDup (map cd_name (d_classes d))
  /\ forall k, level_spec cspec k (cfind k (ms_classes A)) (cfind k (ms_classes B)) (cdfind k (d_classes d)).

Lemma diff_param_spec k c w : diff_param k c = Ok w -> pspec k c w.
Proof.
  unfold diff_param. intros H. apply bind_ok in H. destruct H as (i & Hi & [= <-]).
  unfold pspec. cbn [pd_index pd_info pd_doc]. split; [reflexivity|]. split; [exact (gen_names_spec _ _ Hi)|apply gen_doc_spec].
Qed.

Lemma diff_field_spec k c w : diff_field k c = Ok w -> fspec k c w.
Proof.
  unfold diff_field. intros H. apply bind_ok in H. destruct H as (i & Hi & [= <-]).
  unfold fspec, fdkey. cbn [fd_name fd_desc fd_info fd_doc]. split; [destruct k; reflexivity|].
  split; [exact (gen_names_spec _ _ Hi)|apply gen_doc_spec].
Qed.

Lemma comb_all_sides {T U} (g : T -> list U) (P : list U -> Prop) (c : comb T) :
  P [] -> comb_all (fun x => P (g x)) c -> P (sideA (comb_map g c)) /\ P (sideB (comb_map g c)).
Proof. intros Hnil H. destruct c; cbn in *; tauto. Qed.

Lemma diff_meth_spec k c w : comb_all q_meth c -> diff_meth k c = Ok w -> mspec k c w.
Proof.
  intros HQ. unfold diff_meth. intros H. apply bind_ok in H. destruct H as (i & Hi & H).
  apply bind_ok in H. destruct H as (ps & Hps & [= <-]).
  unfold mspec, mdkey. cbn [md_name md_desc md_info md_doc md_params].
  split; [destruct k; reflexivity|]. split; [exact (gen_names_spec _ _ Hi)|]. split; [apply gen_doc_spec|].
  destruct (comb_all_sides m_params (fun l => NoDup (map pkey l)) c (NoDup_nil _) HQ) as [Ha Hb].
  apply (zip_level N.eqb N_eqb_ok pkey pd_index (comb_map m_params c) diff_param (fun _ => True) pspec ps
           diff_param_key Ha Hb).
  - apply Forall_forall. auto.
  - apply Forall_forall. auto.
  - intros kp cp wp _ Hp. exact (diff_param_spec kp cp wp Hp).
  - exact Hps.
Qed.

Lemma diff_class_spec k c w : comb_all q_class c -> diff_class k c = Ok w -> cspec k c w.
Proof.
  intros HQ. unfold diff_class. intros H. apply bind_ok in H. destruct H as (i & Hi & H).
  apply bind_ok in H. destruct H as (fs & Hfs & H). apply bind_ok in H. destruct H as (ms & Hms & [= <-]).
  unfold cspec. cbn [cd_name cd_info cd_doc cd_fields cd_methods].
  split; [reflexivity|]. split; [exact (gen_names_spec _ _ Hi)|]. split; [apply gen_doc_spec|].
  assert (HQf : comb_all (fun x => NoDup (map fkey (c_fields x))) c) by (destruct c; cbn [comb_all] in *; unfold q_class in *; tauto).
  assert (HQm : comb_all (fun x => NoDup (map mkey (c_methods x))) c) by (destruct c; cbn [comb_all] in *; unfold q_class in *; tauto).
  assert (HQq : comb_all (fun x => Forall q_meth (c_methods x)) c) by (destruct c; cbn [comb_all] in *; unfold q_class in *; tauto).
  destruct (comb_all_sides c_fields (fun l => NoDup (map fkey l)) c (NoDup_nil _) HQf) as [Hfa Hfb].
  destruct (comb_all_sides c_methods (fun l => NoDup (map mkey l)) c (NoDup_nil _) HQm) as [Hma Hmb].
  destruct (comb_all_sides c_methods (fun l => Forall q_meth l) c (Forall_nil _) HQq) as [Hqa Hqb].
  pose proof (zip_level key2_eqb key2_eqb_ok fkey fdkey (comb_map c_fields c) diff_field (fun _ => True) fspec fs
                diff_field_key Hfa Hfb) as ZF.
  destruct ZF as [ZF1 ZF2]; [apply Forall_forall; auto|apply Forall_forall; auto| |exact Hfs|].
  { intros kf cf wf _ Hf. exact (diff_field_spec kf cf wf Hf). }
  pose proof (zip_level key2_eqb key2_eqb_ok mkey mdkey (comb_map c_methods c) diff_meth q_meth mspec ms
                diff_meth_key Hma Hmb Hqa Hqb) as ZM.
  destruct ZM as [ZM1 ZM2]; [|exact Hms|].
  { intros km cm wm Hq Hm. exact (diff_meth_spec km cm wm Hq Hm). }
  auto.
Qed.

(* diff is exact: whenever it succeeds, the result is the declarative difference, at all five levels *)
Theorem diff_exact A B d : wf A = true -> wf B = true -> diff A B = Ok d -> diff_spec A B d.
Proof.
  intros HA HB. unfold diff. destruct (list_eqb str_eqb (ms_ns A) (ms_ns B)); [|discriminate].
  intros H. apply bind_ok in H. destruct H as (cs & Hcs & [= <-]).
  unfold diff_spec. cbn [d_info d_doc d_classes gen_doc]. split; [reflexivity|]. split; [reflexivity|].
  destruct (wf_q_classes A HA) as [HqA HnA]. destruct (wf_q_classes B HB) as [HqB HnB].
  apply (zip_level str_eqb str_eqb_ok ckey cd_name (CAB (ms_classes A) (ms_classes B)) diff_class q_class cspec cs
           diff_class_key HnA HnB HqA HqB).
  - intros k c w Hq Hc. exact (diff_class_spec k c w Hq Hc).
  - exact Hcs.
Qed.

(* consequences that name the seeded classes of change directly *)

(* nothing is pruned: a class on either side has an entry, whatever its name / comment actions are *)
Corollary diff_mentions_every_class A B d k :
  wf A = true -> wf B = true -> diff A B = Ok d ->
  (cdfind k (d_classes d) = None <-> cfind k (ms_classes A) = None /\ cfind k (ms_classes B) = None).
Proof.
  intros HA HB Hd. destruct (diff_exact A B d HA HB Hd) as (_ & _ & _ & H). specialize (H k).
  unfold level_spec in H.
  destruct (cfind k (ms_classes A)), (cfind k (ms_classes B)), (cdfind k (d_classes d)); cbn [comb_of] in H;
    try contradiction; split; try tauto; try discriminate; intros [? ?]; discriminate.
Qed.

(* the same one map level further down, for any entry [w] the diff made from a combination [c]:
   every member of either side has an entry in w (fields, methods; parameters from mspec likewise) *)
Corollary level_spec_mentions {K T W} (espec : K -> comb T -> W -> Prop) k oa ob ow :
  level_spec espec k oa ob ow -> (ow = None <-> oa = None /\ ob = None).
Proof.
  unfold level_spec. destruct oa, ob, ow; cbn [comb_of]; try contradiction; intros _; split; try tauto;
    try discriminate; intros [? ?]; discriminate.
Qed.

(* keys on both sides never carry Add / Remove *)
Corollary info_spec_both la lb i : info_spec (CAB la lb) i -> exists a b, i = AEdit a b.
Proof. intros (a & b & _ & _ & ->). eauto. Qed.

(* ------------------------------------------------------------------ *)
(* (5) diff A A *)

Lemma level_all_same {K T W} keqb (HK : keqb_ok keqb) (key : T -> K) (dkey : W -> K)
    (espec : K -> comb T -> W -> Prop) (P : W -> bool) l ds :
  NoDup (map dkey ds) ->
  (forall k, level_spec espec k (find_key keqb key k l) (find_key keqb key k l) (find_key keqb dkey k ds)) ->
  (forall k x w, espec k (CAB x x) w -> P w = true) ->
  forallb P ds = true.
Proof.
  intros Hnd Hs HP. apply forallb_forall. intros w Hin.
  specialize (Hs (dkey w)). rewrite (find_key_in keqb HK dkey ds w Hnd Hin) in Hs.
  unfold level_spec in Hs. destruct (find_key keqb key (dkey w) l) as [x|]; cbn [comb_of] in Hs; [|contradiction].
  exact (HP _ x w Hs).
Qed.

Lemma info_spec_same_noop l i : info_spec (CAB l l) i -> is_diff str_eqb i = false.
Proof.
  intros (a & b & Ha & Hb & ->). rewrite Ha in Hb. injection Hb as <-. cbn [is_diff]. rewrite str_eqb_refl. reflexivity.
Qed.

Lemma doc_spec_same_noop o a : doc_spec (CAB o o) a -> is_diff str_eqb a = false.
Proof. unfold doc_spec. cbn [cdocA cdocB]. intros ->. apply is_diff_from_tuple_same. Qed.

Lemma pspec_same_noop k x w : pspec k (CAB x x) w -> noop_param w = true.
Proof.
  intros (_ & Hi & Hd). cbn [comb_map] in *. unfold noop_param.
  rewrite (info_spec_same_noop _ _ Hi), (doc_spec_same_noop _ _ Hd). reflexivity.
Qed.

Lemma fspec_same_noop k x w : fspec k (CAB x x) w -> noop_field w = true.
Proof.
  intros (_ & Hi & Hd). cbn [comb_map] in *. unfold noop_field.
  rewrite (info_spec_same_noop _ _ Hi), (doc_spec_same_noop _ _ Hd). reflexivity.
Qed.

Lemma mspec_same_noop k x w : mspec k (CAB x x) w -> noop_meth w = true.
Proof.
  intros (_ & Hi & Hd & Hnd & Hp). cbn [comb_map sideA sideB] in *. unfold noop_meth.
  rewrite (info_spec_same_noop _ _ Hi), (doc_spec_same_noop _ _ Hd). cbn [negb andb].
  exact (level_all_same N.eqb N_eqb_ok pkey pd_index pspec noop_param (m_params x) _ Hnd Hp pspec_same_noop).
Qed.

Lemma cspec_same_noop k x w : cspec k (CAB x x) w -> noop_class w = true.
Proof.
  intros (_ & Hi & Hd & Hnf & Hf & Hnm & Hm). cbn [comb_map sideA sideB] in *. unfold noop_class.
  rewrite (info_spec_same_noop _ _ Hi), (doc_spec_same_noop _ _ Hd). cbn [negb andb].
  rewrite (level_all_same key2_eqb key2_eqb_ok fkey fdkey fspec noop_field (c_fields x) _ Hnf Hf fspec_same_noop).
  exact (level_all_same key2_eqb key2_eqb_ok mkey mdkey mspec noop_meth (c_methods x) _ Hnm Hm mspec_same_noop).
Qed.

Theorem diff_self_noop A d : wf A = true -> diff A A = Ok d -> noop_diff d = true.
Proof.
  intros HA Hd. destruct (diff_exact A A d HA HA Hd) as (Hi & Hdoc & Hnd & Hc).
  unfold noop_diff. rewrite Hi, Hdoc, is_diff_from_tuple_same. cbn [is_diff negb andb].
  exact (level_all_same str_eqb str_eqb_ok ckey cd_name cspec noop_class (ms_classes A) _ Hnd Hc cspec_same_noop).
Qed.

(* a tree agrees with itself on the parameters' first-namespace names: F3 never concerns diff A A *)
Lemma params_agree_self l : NoDup (map pkey l) -> params_agree l l = true.
Proof.
  intros Hnd. unfold params_agree. apply forallb_forall. intros p Hin.
  unfold pfind. rewrite (find_key_in N.eqb N_eqb_ok pkey l p Hnd Hin). unfold p_agree.
  apply opt_str_eqb_eq. reflexivity.
Qed.

Lemma meths_agree_self l : NoDup (map mkey l) -> Forall q_meth l -> meths_agree l l = true.
Proof.
  intros Hnd Hq. unfold meths_agree. apply forallb_forall. intros m Hin.
  unfold mfind. rewrite (find_key_in key2_eqb key2_eqb_ok mkey l m Hnd Hin). unfold m_agree.
  apply params_agree_self. rewrite Forall_forall in Hq. exact (Hq m Hin).
Qed.

Lemma param_src_agree_self A : wf A = true -> param_src_agree A A = true.
Proof.
  intros HA. destruct (wf_q_classes A HA) as [Hq Hnd]. unfold param_src_agree. apply forallb_forall. intros c Hin.
  unfold cfind. rewrite (find_key_in str_eqb str_eqb_ok ckey _ c Hnd Hin). unfold c_agree.
  rewrite Forall_forall in Hq. destruct (Hq c Hin) as (_ & Hm & Hqm). exact (meths_agree_self _ Hm Hqm).
Qed.

Theorem diff_self A :
  wf A = true -> two_ns A = true -> named A = true ->
  exists d r, diff A A = Ok d /\ noop_diff d = true
              /\ apply_to d A (nth 1 (ms_ns A) []) = Ok r /\ mequiv r A /\ equivb r A = true.
Proof.
  intros HA H2 Hn.
  destruct (diff_apply A A HA HA H2 eq_refl Hn Hn (param_src_agree_self A HA)) as (d & r & Hd & Hr & He).
  exists d, r. split; [exact Hd|]. split; [exact (diff_self_noop A d HA Hd)|]. split; [exact Hr|].
  split; [exact He|]. apply mequiv_equivb; [right; exact HA|exact He].
Qed.

(* ------------------------------------------------------------------ *)
(* the vocabulary of diff_exact, unfolded *)
Lemma level_spec_unfold {K T W} (espec : K -> comb T -> W -> Prop) k oa ob ow :
  level_spec espec k oa ob ow <->
  match oa, ob, ow with
  | None, None, None => True
  | Some x, None, Some w => espec k (CA x) w
  | None, Some y, Some w => espec k (CB y) w
  | Some x, Some y, Some w => espec k (CAB x y) w
  | _, _, _ => False
  end.
Proof. unfold level_spec. destruct oa, ob, ow; cbn [comb_of]; tauto. Qed.

Theorem diff_spec_vocabulary :
  (forall {K T W} (espec : K -> comb T -> W -> Prop) k oa ob ow, level_spec espec k oa ob ow <->
     match oa, ob, ow with
     | None, None, None => True
     | Some x, None, Some w => espec k (CA x) w
     | None, Some y, Some w => espec k (CB y) w
     | Some x, Some y, Some w => espec k (CAB x y) w
     | _, _, _ => False
     end)
  /\ (forall c i, info_spec c i <->
        match c with
        | CA la => exists a, nth 1 la None = Some a /\ i = ARem a
        | CB lb => exists b, nth 1 lb None = Some b /\ i = AAdd b
        | CAB la lb => exists a b, nth 1 la None = Some a /\ nth 1 lb None = Some b /\ i = AEdit a b
        end)
  /\ (forall c a, doc_spec c a <->
        a = from_tuple (match c with CA x => x | CB _ => None | CAB x _ => x end)
                       (match c with CA _ => None | CB y => y | CAB _ y => y end))
  /\ (forall k c w, cspec k c w <->
        cd_name w = k /\ info_spec (comb_map c_names c) (cd_info w) /\ doc_spec (comb_map c_doc c) (cd_doc w)
        /\ NoDup (map fdkey (cd_fields w))
        /\ (forall kf, level_spec fspec kf (ffind kf (sideA (comb_map c_fields c))) (ffind kf (sideB (comb_map c_fields c)))
                                  (fdfind kf (cd_fields w)))
        /\ NoDup (map mdkey (cd_methods w))
        /\ (forall km, level_spec mspec km (mfind km (sideA (comb_map c_methods c))) (mfind km (sideB (comb_map c_methods c)))
                                  (mdfind km (cd_methods w))))
  /\ (forall k c w, mspec k c w <->
        mdkey w = k /\ info_spec (comb_map m_names c) (md_info w) /\ doc_spec (comb_map m_doc c) (md_doc w)
        /\ NoDup (map pd_index (md_params w))
        /\ forall kp, level_spec pspec kp (pfind kp (sideA (comb_map m_params c))) (pfind kp (sideB (comb_map m_params c)))
                                 (pdfind kp (md_params w)))
  /\ (forall k c w, fspec k c w <->
        fdkey w = k /\ info_spec (comb_map f_names c) (fd_info w) /\ doc_spec (comb_map f_doc c) (fd_doc w))
  /\ (forall k c w, pspec k c w <->
        pd_index w = k /\ info_spec (comb_map p_names c) (pd_info w) /\ doc_spec (comb_map p_doc c) (pd_doc w)).
Proof.
  split; [intros K T W espec k oa ob ow; apply level_spec_unfold|].
  split; [intros c i; destruct c; reflexivity|].
  split; [intros c a; destruct c; reflexivity|].
  split; [intros k c w; exact (iff_refl _)|].
  split; [intros k c w; exact (iff_refl _)|].
  split; [intros k c w; exact (iff_refl _)|].
  intros k c w; exact (iff_refl _).
Qed.
