(* C04 correspondence cases: the input together with what the implementation answered; [check]
   evaluates the model on the same input and compares.  Results of apply are compared in the
   IndexMap's iteration order (so the swap_remove model is exercised too). *)
From FB Require Export C04.Model C04.Text C04.Hyps C04.Hyps2 Base.Run.

Inductive case :=
| COpt (d : action str) (t : option str) (r : res (option str))   (* quill::apply_diff_option *)
| CApply (d : mdiffs) (t : mappings) (ns : str) (r : res mappings) (* MappingsDiff::apply_to *)
| CPair (a b : mappings) (rd : res mdiffs) (ns : str) (rr : option (res mappings)) (hy : list bool)
    (* rd = MappingsDiff::diff a b;  rr = apply_to(read_file(print(diff a b)), a, ns) when it was run;
       hy = the harness' evaluation of [inverse_hyps_b; f3_class; text_hyps_b; f4_class; text_hyps_top_b] on (a, b) *)
| CRead (t : text) (r : res mdiffs)                                (* tiny_v2_diff::read_file *)
| CPrint (d : mdiffs) (t : text).                                  (* the harness' printer = [print] *)

Definition check (c : case) : bool :=
  match c with
  | COpt d t r => res_eqb (opt_eqb str_eqb) (apply_option str_eqb d t) r
  | CApply d t ns r => res_eqb mappings_eqb (apply_to d t ns) r
  | CPair a b rd ns rr hy =>
      let d := diff a b in
      res_eqb mdiffs_eqb d rd
      && list_eqb Bool.eqb [inverse_hyps_b a b; f3_class a b; text_hyps_b a b; f4_class a b; text_hyps_top_b a b] hy
      && match rr with
         | None => true
         | Some r => res_eqb mappings_eqb (do d0 <- d; do d' <- read (print d0); apply_to d' a ns) r
         end
  | CRead t r => res_eqb mdiffs_eqb (read t) r
  | CPrint d t => str_eqb (print d) t
  end.
