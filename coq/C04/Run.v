(* C04 correspondence cases: the input together with what the implementation answered; [check]
   evaluates the model on the same input and compares.  Results of apply are compared in the
   IndexMap's iteration order (so the swap_remove model is exercised too). *)
From FB Require Export C04.Model C04.Text C04.Hyps C04.Hyps2 C04.Model2 C04.Model3 Base.Run.

Inductive case :=
| COpt (d : action str) (t : option str) (r : res (option str))   (* quill::apply_diff_option *)
| CApply (d : mdiffs) (t : mappings) (ns : str) (r : res mappings) (* MappingsDiff::apply_to *)
| CPair (a b : mappings) (rd : res mdiffs) (ns : str) (rm rr : option (res mappings)) (hy : list bool)
    (* rd = MappingsDiff::diff a b;  rm = apply_to(diff a b, a, ns) when it was run;
       rr = apply_to(read_file(print(diff a b)), a, ns) when it was run;
       hy = the harness' evaluation of [inverse_hyps_b; f3_class; text_hyps_b; f4_class; text_hyps_top_b] on (a, b) *)
| CAct (a : action str) (isd isd_ref : bool) (tup : option str * option str) (fl ft : action str)
    (* Action::is_diff, as_ref().is_diff(), to_tuple, flip, from_tuple(to_tuple) of the implementation *)
| CRead (t : text) (r : res mdiffs)                                (* tiny_v2_diff::read_file *)
| CPrint (d : mdiffs) (t : text)                                   (* the harness' printer = [print] *)
| CLine (k : N) (fs : list str) (r : res (action str)).
    (* TinyLine::action / action_string through tiny_v2_diff::read_file on a one-entry file: the cells after the key of a
       class (0) / field (1) / method (2) / parameter (3) line, or of a comment line (4); r = the entry's action, Err if refused *)

Definition check (c : case) : bool :=
  match c with
  | COpt d t r => res_eqb (opt_eqb str_eqb) (apply_option str_eqb d t) r
  | CApply d t ns r => res_eqb mappings_eqb (apply_to d t ns) r
  | CPair a b rd ns rm rr hy =>
      let d := diff a b in
      res_eqb mdiffs_eqb d rd
      && list_eqb Bool.eqb [inverse_hyps_b a b; f3_class a b; text_hyps_b a b; f4_class a b; text_hyps_top_b a b] hy
      && match rm with
         | None => true
         | Some r =>
             res_eqb mappings_eqb (do d0 <- d; apply_to d0 a ns) r
             (* inside the hypotheses of C04_diff_apply_partial the implementation's answer must be
                a well-formed tree equal to b up to order, judged by Quill.Mappings.equivb (C04_result_is) *)
             && (if inverse_hyps_b a b && negb (f3_class a b) then result_is r b else true)
         end
      && match rr with
         | None => true
         | Some r =>
             res_eqb mappings_eqb (do d0 <- d; do d' <- read (print d0); apply_to d' a ns) r
             (* C04_text_inverse_modulo_top: b with a's top-level comment (= b when they are equal) *)
             && (if text_hyps_top_b a b && negb (f3_class a b) && negb (f4_class a b)
                 then result_is r (mkMappings (ms_ns b) (ms_doc a) (ms_classes b)) else true)
         end
  | CAct a isd isd_ref tup fl ft =>
      Bool.eqb (is_diff str_eqb a) isd && Bool.eqb isd_ref isd
      && pair_eqb (opt_eqb str_eqb) (opt_eqb str_eqb) (to_tuple a) tup
      && action_eqb (flip a) fl && action_eqb (from_tuple (fst tup) (snd tup)) ft && action_eqb ft a
  | CRead t r => res_eqb mdiffs_eqb (read t) r
      (* C04_read_image, judged on what the implementation returned *)
      && match r with Ok d => read_image_b d | Err => true end
  | CPrint d t => str_eqb (print d) t
  | CLine k fs r => res_eqb action_eqb (line_action k fs) r && res_eqb action_eqb (line_spec k fs) r
  end.
