(* C04 correspondence cases: the input together with what the implementation answered; [check]
   evaluates the model on the same input and compares.  Results of apply are compared in the
   IndexMap's iteration order (so the swap_remove model is exercised too). *)
From FB Require Export C04.Model C04.Text Base.Run.

Inductive case :=
| COpt (d : action str) (t : option str) (r : res (option str))   (* quill::apply_diff_option *)
| CApply (d : mdiffs) (t : mappings) (ns : str) (r : res mappings) (* MappingsDiff::apply_to *)
| CDiff (a b : mappings) (r : res mdiffs)                          (* MappingsDiff::diff *)
| CRead (t : text) (r : res mdiffs)                                (* tiny_v2_diff::read_file *)
| CPrint (d : mdiffs) (t : text)                                   (* the harness' printer = [print] *)
| CRoundtrip (a b : mappings) (ns : str) (r : res mappings).       (* apply(read(print(diff a b)), a) *)

Definition check (c : case) : bool :=
  match c with
  | COpt d t r => res_eqb (opt_eqb str_eqb) (apply_option str_eqb d t) r
  | CApply d t ns r => res_eqb mappings_eqb (apply_to d t ns) r
  | CDiff a b r => res_eqb mdiffs_eqb (diff a b) r
  | CRead t r => res_eqb mdiffs_eqb (read t) r
  | CPrint d t => str_eqb (print d) t
  | CRoundtrip a b ns r =>
      res_eqb mappings_eqb
        (do d <- diff a b; do d' <- read (print d); apply_to d' a ns) r
  end.
