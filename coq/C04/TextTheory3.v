(* C04 theory, part 5: the diff of two textual mapping sets is a textual diff, hence the inverse law
   holds through the text form; known finding F4 (empty comments). *)
From FB Require Export C04.TextTheory2.
From Coq Require Import Permutation Arith PeanoNat.

(* ------------------------------------------------------------------ *)
(* where the entries of a diff come from *)

Lemma map_res_in {A B} (h : A -> res B) l ds :
  map_res h l = Ok ds -> forall w, In w ds -> exists x, In x l /\ h x = Ok w.
Proof.
  revert ds. induction l as [|x l IH]; intros ds H w Hw; cbn [map_res] in H.
  - injection H as <-. contradiction.
  - apply bind_ok in H. destruct H as (y & Hy & H). apply bind_ok in H. destruct H as (ys & Hys & [= <-]).
    destruct Hw as [<-|Hw]; [exists x; split; [left; reflexivity|exact Hy]|].
    destruct (IH ys Hys w Hw) as (x' & Hx' & E). exists x'. split; [right; exact Hx'|exact E].
Qed.

Definition comb_in {T} (ab : comb (list T)) (c : comb T) : Prop :=
  match c with
  | CA x => In x (sideA ab)
  | CB y => In y (sideB ab)
  | CAB x y => In x (sideA ab) /\ In y (sideB ab)
  end.

Lemma zip_comb_in {K T W} (keqb : K -> K -> bool) (HK : keqb_ok keqb) (key : T -> K) (ab : comb (list T))
    (f : K -> comb T -> res W) ds :
  zip_comb keqb key ab f = Ok ds ->
  forall w, In w ds -> exists k c, f k c = Ok w /\ comb_in ab c /\ comb_all (fun x => key x = k) c.
Proof.
  intros H w Hw. destruct ab as [a|b|a b]; cbn [zip_comb] in H.
  - destruct (map_res_in _ _ _ H w Hw) as (x & Hx & E). exists (key x), (CA x). cbn. auto.
  - destruct (map_res_in _ _ _ H w Hw) as (x & Hx & E). exists (key x), (CB x). cbn. auto.
  - unfold zip_map in H. destruct (map_res_in _ _ _ H w Hw) as (k & _ & E).
    destruct (find_key keqb key k a) as [x|] eqn:Ea; destruct (find_key keqb key k b) as [y|] eqn:Eb; try discriminate;
      try (apply find_key_some in Ea; [|exact HK]); try (apply find_key_some in Eb; [|exact HK]).
    + exists k, (CAB x y). cbn. tauto.
    + exists k, (CA x). cbn. tauto.
    + exists k, (CB y). cbn. tauto.
Qed.

Lemma comb_in_all {T} (P : T -> Prop) (ab : comb (list T)) c :
  Forall P (sideA ab) -> Forall P (sideB ab) -> comb_in ab c -> comb_all P c.
Proof.
  rewrite !Forall_forall. intros HA HB Hc. destruct c as [x|y|x y]; cbn in *;
    [apply HA; exact Hc|apply HB; exact Hc|split; [apply HA|apply HB]; tauto].
Qed.

(* ------------------------------------------------------------------ *)
(* textual mapping sets: names a .tinydiff line can carry *)



(* known finding F4: an empty comment anywhere *)

Lemma act_all_impl (p q : str -> bool) a :
  (forall s, p s = true -> q s = true) -> act_all p a = true -> act_all q a = true.
Proof.
  intros H. destruct a as [|b|x|x y]; cbn [act_all]; auto. rewrite !andb_true_iff. intros [? ?]. auto.
Qed.

Lemma okname_nonnil valid : nonempty_valid valid -> forall s, okname valid s = true -> nonnil s = true.
Proof.
  intros Hv s H. apply okname_valid in H. apply Hv in H. unfold nonnil. destruct s; [contradiction|reflexivity].
Qed.

Lemma gen_names_textual valid (c : comb names) i :
  gen_names c = Ok i -> comb_all (fun l => name1_ok valid l = true) c -> act_all (okname valid) i = true.
Proof.
  unfold gen_names, name1_ok, tname. destruct c as [a|b|a b]; cbn [comb_map comb_all].
  - destruct (nth diff_ns a None); [|discriminate]. intros [= <-] H. exact H.
  - destruct (nth diff_ns b None); [|discriminate]. intros [= <-] H. exact H.
  - destruct (nth diff_ns a None); [|discriminate]. destruct (nth diff_ns b None); [|discriminate].
    intros [= <-] [H1 H2]. cbn [act_all]. rewrite H1, H2. reflexivity.
Qed.

Lemma gen_doc_nonnil (c : comb (option str)) :
  comb_all (fun o => doc_ne o = true) c -> act_all nonnil (gen_doc c) = true.
Proof.
  unfold doc_ne, nonnil. destruct c as [[a|]|[b|]|[a|] [b|]]; cbn [comb_all gen_doc from_tuple act_all]; try reflexivity.
  - destruct a; [discriminate|reflexivity].
  - destruct b; [discriminate|reflexivity].
  - intros [Ha Hb]. destruct a; [discriminate|]. destruct b; [discriminate|]. reflexivity.
  - intros [Ha _]. destruct a; [discriminate|reflexivity].
  - intros [_ Hb]. destruct b; [discriminate|reflexivity].
Qed.

Lemma comb_all_map {T U} (g : T -> U) (P : U -> Prop) (c : comb T) :
  comb_all P (comb_map g c) <-> comb_all (fun x => P (g x)) c.
Proof. destruct c; cbn; tauto. Qed.

Lemma comb_all_impl {T} (P Q : T -> Prop) (c : comb T) : (forall x, P x -> Q x) -> comb_all P c -> comb_all Q c.
Proof. intros H. destruct c; cbn; intuition. Qed.

(* ------------------------------------------------------------------ *)
(* parameters *)

Definition gp (p : param) : Prop := tx_param p = true /\ ne_param p = true.

Lemma diff_param_tx k c w :
  diff_param k c = Ok w -> comb_all gp c -> comb_all (fun p => pkey p = k) c ->
  textual_param w = true /\ nonempty_param w = true.
Proof.
  unfold diff_param. intros H Hg Hk. apply bind_ok in H. destruct H as (i & Hi & [= <-]).
  assert (Ha : act_all (okname is_valid_unqualified_name) i = true).
  { apply (gen_names_textual _ _ _ Hi). apply comb_all_map. eapply comb_all_impl; [|exact Hg].
    intros p [Ht _]. unfold tx_param in Ht. rewrite andb_true_iff in Ht. tauto. }
  assert (Hidx : N.leb k usize_max = true).
  { destruct c as [a|b|a b]; cbn in Hg, Hk;
      [destruct Hg as [Ht _]; subst k|destruct Hg as [Ht _]; subst k|destruct Hg as [[Ht _] _]; destruct Hk as [<- _]];
      unfold tx_param in Ht; rewrite andb_true_iff in Ht; tauto. }
  unfold textual_param, nonempty_param. cbn [pd_index pd_info pd_doc]. rewrite Hidx, Ha. split; [reflexivity|].
  rewrite (act_all_impl _ _ _ (okname_nonnil _ unq_nonempty) Ha). cbn [andb].
  apply gen_doc_nonnil. apply comb_all_map. eapply comb_all_impl; [|exact Hg]. intros p [_ Hn]. exact Hn.
Qed.

Lemma params_tx (ab : comb (list param)) ds :
  zip_comb N.eqb pkey ab diff_param = Ok ds -> Forall gp (sideA ab) -> Forall gp (sideB ab) ->
  forallb textual_param ds = true /\ forallb nonempty_param ds = true.
Proof.
  intros H HA HB. split; apply forallb_forall; intros w Hw;
    destruct (zip_comb_in N.eqb N_eqb_ok pkey ab diff_param ds H w Hw) as (k & c & E & Hin & Hk);
    destruct (diff_param_tx k c w E (comb_in_all gp ab c HA HB Hin) Hk); assumption.
Qed.

(* ------------------------------------------------------------------ *)
(* fields *)

Definition gf (f : field) : Prop := tx_field f = true /\ ne_field f = true.

Lemma diff_field_tx k c w :
  diff_field k c = Ok w -> comb_all gf c -> comb_all (fun f => fkey f = k) c ->
  textual_field w = true /\ nonempty_field w = true.
Proof.
  unfold diff_field. intros H Hg Hk. apply bind_ok in H. destruct H as (i & Hi & [= <-]).
  assert (Ha : act_all (okname is_valid_unqualified_name) i = true).
  { apply (gen_names_textual _ _ _ Hi). apply comb_all_map. eapply comb_all_impl; [|exact Hg].
    intros p [Ht _]. unfold tx_field in Ht. rewrite !andb_true_iff in Ht. tauto. }
  assert (Hkey : clean (snd k) = true /\ okname is_valid_unqualified_name (fst k) = true).
  { destruct c as [a|b|a b]; cbn in Hg, Hk;
      [destruct Hg as [Ht _]; subst k|destruct Hg as [Ht _]; subst k|destruct Hg as [[Ht _] _]; destruct Hk as [<- _]];
      unfold tx_field in Ht; rewrite !andb_true_iff in Ht; unfold fkey; cbn [fst snd]; tauto. }
  destruct Hkey as [Hd Hn].
  unfold textual_field, nonempty_field. cbn [fd_desc fd_name fd_info fd_doc]. rewrite Hd, Hn, Ha. split; [reflexivity|].
  rewrite (act_all_impl _ _ _ (okname_nonnil _ unq_nonempty) Ha). cbn [andb].
  apply gen_doc_nonnil. apply comb_all_map. eapply comb_all_impl; [|exact Hg]. intros p [_ Hne]. exact Hne.
Qed.

Lemma fields_tx (ab : comb (list field)) ds :
  zip_comb key2_eqb fkey ab diff_field = Ok ds -> Forall gf (sideA ab) -> Forall gf (sideB ab) ->
  forallb textual_field ds = true /\ forallb nonempty_field ds = true.
Proof.
  intros H HA HB. split; apply forallb_forall; intros w Hw;
    destruct (zip_comb_in key2_eqb key2_eqb_ok fkey ab diff_field ds H w Hw) as (k & c & E & Hin & Hk);
    destruct (diff_field_tx k c w E (comb_in_all gf ab c HA HB Hin) Hk); assumption.
Qed.

(* ------------------------------------------------------------------ *)
(* methods *)

Definition gm (m : meth) : Prop := tx_meth m = true /\ ne_meth m = true /\ q_meth m.

Lemma gm_params m : gm m -> Forall gp (m_params m) /\ NoDup (map pkey (m_params m)).
Proof.
  intros (Ht & Hn & Hq). split; [|exact Hq].
  unfold tx_meth in Ht. rewrite !andb_true_iff in Ht. destruct Ht as (_ & Hps).
  unfold ne_meth in Hn. rewrite andb_true_iff in Hn. destruct Hn as [_ Hns].
  rewrite forallb_forall in Hps, Hns. apply Forall_forall. intros p Hp. split; [apply Hps|apply Hns]; exact Hp.
Qed.

Lemma sides_map {T U} (g : T -> list U) (P : U -> Prop) (Q : list U -> Prop) (c : comb T) :
  comb_all (fun x => Forall P (g x) /\ Q (g x)) c -> Q [] ->
  Forall P (sideA (comb_map g c)) /\ Forall P (sideB (comb_map g c))
  /\ Q (sideA (comb_map g c)) /\ Q (sideB (comb_map g c)).
Proof. destruct c; cbn; intuition. Qed.

Lemma diff_meth_tx k c w :
  diff_meth k c = Ok w -> comb_all gm c -> comb_all (fun m => mkey m = k) c ->
  textual_meth w = true /\ nonempty_meth w = true /\ wf_mdiff w = true.
Proof.
  unfold diff_meth. intros H Hg Hk. apply bind_ok in H. destruct H as (i & Hi & H).
  apply bind_ok in H. destruct H as (ps & Hps & [= <-]).
  assert (Ha : act_all (okname is_valid_method_name) i = true).
  { apply (gen_names_textual _ _ _ Hi). apply comb_all_map. eapply comb_all_impl; [|exact Hg].
    intros p (Ht & _). unfold tx_meth in Ht. rewrite !andb_true_iff in Ht. tauto. }
  assert (Hkey : clean (snd k) = true /\ okname is_valid_method_name (fst k) = true).
  { destruct c as [a|b|a b]; cbn in Hg, Hk;
      [destruct Hg as (Ht & _); subst k|destruct Hg as (Ht & _); subst k|destruct Hg as [(Ht & _) _]; destruct Hk as [<- _]];
      unfold tx_meth in Ht; rewrite !andb_true_iff in Ht; unfold mkey; cbn [fst snd]; tauto. }
  destruct Hkey as [Hd Hn].
  destruct (sides_map m_params gp (fun l => NoDup (map pkey l)) c) as (SA & SB & NA & NB).
  { eapply comb_all_impl; [|exact Hg]. intros m Hm. apply gm_params. exact Hm. }
  { constructor. }
  destruct (params_tx _ _ Hps SA SB) as [Htx Hne].
  pose proof (zip_comb_spec N.eqb N_eqb_ok pkey pd_index _ diff_param diff_param_key NA NB) as HZ.
  rewrite Hps in HZ. destruct HZ as [Hnd _].
  unfold textual_meth, nonempty_meth, wf_mdiff. cbn [md_desc md_name md_info md_doc md_params].
  rewrite Hd, Hn, Ha, Htx, Hne. split; [reflexivity|].
  rewrite (act_all_impl _ _ _ (okname_nonnil _ meth_nonempty) Ha). cbn [andb]. split.
  - rewrite andb_true_r. apply gen_doc_nonnil. apply comb_all_map. eapply comb_all_impl; [|exact Hg].
    intros p (_ & Hne' & _). unfold ne_meth in Hne'. rewrite andb_true_iff in Hne'. tauto.
  - apply (nodupb_NoDup _ N_eqb_ok). exact Hnd.
Qed.

Lemma meths_tx (ab : comb (list meth)) ds :
  zip_comb key2_eqb mkey ab diff_meth = Ok ds -> Forall gm (sideA ab) -> Forall gm (sideB ab) ->
  forallb textual_meth ds = true /\ forallb nonempty_meth ds = true /\ forallb wf_mdiff ds = true.
Proof.
  intros H HA HB. repeat split; apply forallb_forall; intros w Hw;
    destruct (zip_comb_in key2_eqb key2_eqb_ok mkey ab diff_meth ds H w Hw) as (k & c & E & Hin & Hk);
    destruct (diff_meth_tx k c w E (comb_in_all gm ab c HA HB Hin) Hk) as (? & ? & ?); assumption.
Qed.

(* ------------------------------------------------------------------ *)
(* classes *)

Definition gc (c : class) : Prop := tx_class c = true /\ ne_class c = true /\ q_class c.

Lemma gc_members c : gc c ->
  (Forall gf (c_fields c) /\ NoDup (map fkey (c_fields c)))
  /\ (Forall gm (c_methods c) /\ NoDup (map mkey (c_methods c))).
Proof.
  intros (Ht & Hn & Hq1 & Hq2 & Hq3).
  unfold tx_class in Ht. rewrite !andb_true_iff in Ht. destruct Ht as ((_ & Hfs) & Hms).
  unfold ne_class in Hn. rewrite !andb_true_iff in Hn. destruct Hn as ((_ & Hnf) & Hnm).
  rewrite forallb_forall in Hfs, Hms, Hnf, Hnm. rewrite Forall_forall in Hq3. repeat split; auto.
  - apply Forall_forall. intros f Hf. split; [apply Hfs|apply Hnf]; exact Hf.
  - apply Forall_forall. intros m Hm. repeat split; [apply Hms|apply Hnm|apply Hq3]; exact Hm.
Qed.

Lemma diff_class_tx k c w :
  diff_class k c = Ok w -> comb_all gc c -> comb_all (fun x => ckey x = k) c ->
  textual_class w = true /\ nonempty_class w = true /\ wf_cdiff w = true.
Proof.
  unfold diff_class. intros H Hg Hk. apply bind_ok in H. destruct H as (i & Hi & H).
  apply bind_ok in H. destruct H as (fs & Hfs & H). apply bind_ok in H. destruct H as (ms & Hms & [= <-]).
  assert (Ha : act_all (okname is_valid_obj_class_name) i = true).
  { apply (gen_names_textual _ _ _ Hi). apply comb_all_map. eapply comb_all_impl; [|exact Hg].
    intros p (Ht & _). unfold tx_class in Ht. rewrite !andb_true_iff in Ht. tauto. }
  assert (Hn : okname is_valid_obj_class_name k = true).
  { destruct c as [a|b|a b]; cbn in Hg, Hk;
      [destruct Hg as (Ht & _); subst k|destruct Hg as (Ht & _); subst k|destruct Hg as [(Ht & _) _]; destruct Hk as [<- _]];
      unfold tx_class in Ht; rewrite !andb_true_iff in Ht; unfold ckey; tauto. }
  destruct (sides_map c_fields gf (fun l => NoDup (map fkey l)) c) as (FA & FB & NFA & NFB).
  { eapply comb_all_impl; [|exact Hg]. intros x Hx. apply (gc_members x Hx). }
  { constructor. }
  destruct (sides_map c_methods gm (fun l => NoDup (map mkey l)) c) as (MA & MB & NMA & NMB).
  { eapply comb_all_impl; [|exact Hg]. intros x Hx. apply (gc_members x Hx). }
  { constructor. }
  destruct (fields_tx _ _ Hfs FA FB) as [Hftx Hfne].
  destruct (meths_tx _ _ Hms MA MB) as (Hmtx & Hmne & Hmwf).
  pose proof (zip_comb_spec key2_eqb key2_eqb_ok fkey fdkey _ diff_field diff_field_key NFA NFB) as HZf.
  rewrite Hfs in HZf. destruct HZf as [Hndf _].
  pose proof (zip_comb_spec key2_eqb key2_eqb_ok mkey mdkey _ diff_meth diff_meth_key NMA NMB) as HZm.
  rewrite Hms in HZm. destruct HZm as [Hndm _].
  unfold textual_class, nonempty_class, wf_cdiff. cbn [cd_name cd_info cd_doc cd_fields cd_methods].
  rewrite Hn, Ha, Hftx, Hmtx, Hfne, Hmne, Hmwf. split; [reflexivity|].
  rewrite (act_all_impl _ _ _ (okname_nonnil _ class_nonempty) Ha). cbn [andb]. split.
  - rewrite !andb_true_r. apply gen_doc_nonnil. apply comb_all_map. eapply comb_all_impl; [|exact Hg].
    intros p (_ & Hne' & _). unfold ne_class in Hne'. rewrite !andb_true_iff in Hne'. tauto.
  - rewrite andb_true_r. apply andb_true_iff. split; apply (nodupb_NoDup _ key2_eqb_ok); assumption.
Qed.

Lemma classes_tx (ab : comb (list class)) ds :
  zip_comb str_eqb ckey ab diff_class = Ok ds -> Forall gc (sideA ab) -> Forall gc (sideB ab) ->
  forallb textual_class ds = true /\ forallb nonempty_class ds = true /\ forallb wf_cdiff ds = true.
Proof.
  intros H HA HB. repeat split; apply forallb_forall; intros w Hw;
    destruct (zip_comb_in str_eqb str_eqb_ok ckey ab diff_class ds H w Hw) as (k & c & E & Hin & Hk);
    destruct (diff_class_tx k c w E (comb_in_all gc ab c HA HB Hin) Hk) as (? & ? & ?); assumption.
Qed.

(* ------------------------------------------------------------------ *)
(* the diff of two textual mapping sets without empty comments is textual and mentions no empty string *)

Lemma good_classes M : wf M = true -> textual_mappings M = true -> has_empty_comment M = false ->
  Forall gc (ms_classes M) /\ NoDup (map ckey (ms_classes M)) /\ doc_ne (ms_doc M) = true.
Proof.
  intros Hw Ht Hn. destruct (wf_q_classes M Hw) as [Hq Hnd].
  unfold has_empty_comment in Hn. apply negb_false_iff in Hn. rewrite andb_true_iff in Hn. destruct Hn as [Hd Hne].
  split; [|split; assumption].
  unfold textual_mappings in Ht. rewrite forallb_forall in Ht, Hne. rewrite Forall_forall in Hq.
  apply Forall_forall. intros c Hc. repeat split; [apply Ht|apply Hne|apply Hq|apply Hq|apply Hq]; exact Hc.
Qed.

Theorem diff_textual A B d :
  wf A = true -> wf B = true -> textual_mappings A = true -> textual_mappings B = true ->
  f4_class A B = false -> ms_doc A = ms_doc B ->
  diff A B = Ok d -> textual_diff d = true /\ nonempty_diff d = true.
Proof.
  intros HwA HwB HtA HtB H4 Hdoc Hd. unfold f4_class in H4. apply orb_false_iff in H4. destruct H4 as [HeA HeB].
  destruct (good_classes A HwA HtA HeA) as (GA & NA & DA). destruct (good_classes B HwB HtB HeB) as (GB & NB & DB).
  unfold diff in Hd. destruct (list_eqb str_eqb (ms_ns A) (ms_ns B)); [|discriminate].
  apply bind_ok in Hd. destruct Hd as (cs & Hcs & [= <-]).
  destruct (classes_tx (CAB (ms_classes A) (ms_classes B)) cs Hcs GA GB) as (Htx & Hne & Hwf).
  pose proof (zip_comb_spec str_eqb str_eqb_ok ckey cd_name (CAB (ms_classes A) (ms_classes B)) diff_class diff_class_key NA NB) as HZ.
  rewrite Hcs in HZ. destruct HZ as [Hnd _]. apply (nodupb_NoDup _ str_eqb_ok) in Hnd.
  unfold textual_diff, nonempty_diff, wf_diff. cbn [d_info d_doc d_classes gen_doc]. rewrite Hnd, Hwf, Htx, Hne. cbn [andb is_anone].
  rewrite Hdoc. split.
  - destruct (ms_doc B) as [s|]; cbn [from_tuple norm_action]; [rewrite str_eqb_refl|]; reflexivity.
  - rewrite andb_true_r. apply (gen_doc_nonnil (CAB (ms_doc B) (ms_doc B))). cbn. auto.
Qed.

(* Theorem 4, corollary: the inverse law through the text form (known findings F3, F4) *)
Definition text_hyps (A B : mappings) : Prop :=
  inverse_hyps A B /\ textual_mappings A = true /\ textual_mappings B = true /\ ms_doc A = ms_doc B.

Theorem text_inverse_partial A B :
  text_hyps A B -> f3_class A B = false -> f4_class A B = false -> text_inverse_law A B.
Proof.
  intros (Hh & HtA & HtB & Hdoc) H3 H4.
  destruct (diff_apply_partial A B Hh H3) as (d & r & Hd & _ & _).
  destruct Hh as (HwA & HwB & Hh').
  destruct (diff_textual A B d HwA HwB HtA HtB H4 Hdoc Hd) as [Htx Hne].
  apply (text_inverse_of_diff A B d); auto. repeat split; tauto.
Qed.

(* the unrestricted statement: NOT proved (refuted below) *)
Definition text_inverse_full : Prop := forall A B, text_hyps A B -> f3_class A B = false -> text_inverse_law A B.

(* witness of F4: B = A with an empty comment on the class *)
Definition f4_A : mappings := mkMappings ns2 None [mkClass [Some [97]; Some [65]] None [] []].
Definition f4_B : mappings := mkMappings ns2 None [mkClass [Some [97]; Some [65]] (Some []) [] []].

Theorem text_inverse_refuted :
  exists A B, text_hyps A B /\ f3_class A B = false /\ f4_class A B = true /\ ~ text_inverse_law A B.
Proof.
  exists f4_A, f4_B. split; [repeat split; vm_compute; reflexivity|]. split; [vm_compute; reflexivity|].
  split; [vm_compute; reflexivity|].
  intros (d & d' & r & Hd & Hd' & Hr & He).
  vm_compute in Hd. injection Hd as <-. vm_compute in Hd'. injection Hd' as <-. vm_compute in Hr. injection Hr as <-.
  destruct He as (_ & _ & _ & _ & Hc). specialize (Hc [97]). vm_compute in Hc.
  destruct Hc as (_ & Hdoc & _). discriminate.
Qed.

(* non-vacuity of the text hypotheses *)
Theorem text_nonvacuous :
  text_hyps ex_A ex_B /\ f3_class ex_A ex_B = false /\ f4_class ex_A ex_B = false
  /\ exists d, diff ex_A ex_B = Ok d /\ read (print d) = Ok (norm d) /\ norm d <> d.
Proof.
  split; [repeat split; vm_compute; reflexivity|]. split; [vm_compute; reflexivity|]. split; [vm_compute; reflexivity|].
  eexists. split; [vm_compute; reflexivity|]. split; [vm_compute; reflexivity|]. vm_compute. discriminate.
Qed.

(* the hypotheses as single booleans (evaluated on every generated pair by the correspondence run) *)
Lemma inverse_hyps_b_iff A B : inverse_hyps_b A B = true <-> inverse_hyps A B.
Proof.
  unfold inverse_hyps_b, inverse_hyps. rewrite !andb_true_iff, list_str_eqb_eq. tauto.
Qed.

Lemma text_hyps_b_iff A B : text_hyps_b A B = true <-> text_hyps A B.
Proof.
  unfold text_hyps_b, text_hyps. rewrite !andb_true_iff, inverse_hyps_b_iff, opt_str_eqb_eq. tauto.
Qed.

(* the namespace lookup of apply_to: the first namespace with that name *)
Lemma index_of_spec s l i : index_of s l = Some i ->
  nth i l [] = s /\ (i < length l)%nat /\ forall j, (j < i)%nat -> nth j l [] <> s.
Proof.
  revert i. induction l as [|x l IH]; intros i; cbn [index_of]; [discriminate|].
  destruct (str_eqb_spec x s) as [->|Hne].
  - intros [= <-]. cbn. repeat split; [lia|]. intros j Hj. lia.
  - destruct (index_of s l) as [i'|]; [|discriminate]. intros [= <-].
    destruct (IH i' eq_refl) as (H1 & H2 & H3). cbn [nth length]. repeat split; [exact H1|lia|].
    intros [|j] Hj; cbn [nth]; [exact Hne|apply H3; lia].
Qed.

Lemma apply_to_lookup d t nsname r :
  apply_to d t nsname = Ok r <->
  exists tns, index_of nsname (ms_ns t) = Some tns /\ apply_at tns d t = Ok r.
Proof.
  unfold apply_to. destruct (index_of nsname (ms_ns t)) as [tns|].
  - split; [intros H; exists tns; auto|intros (tns' & [= <-] & H); exact H].
  - split; [discriminate|intros (tns' & H & _); discriminate].
Qed.
