(* C04 theory: well-formedness is transported along mequiv, and the inverse laws (Prop, stated with
   mequiv) coincide with the booleans of Model2.v (stated with Quill.Mappings.equivb). *)
From FB Require Export C04.Equiv C04.Model2 C04.TextTheory2 C04.TextTheory3 C04.TextTheory4.

Lemma okey_eqb_ok {K} (eqb : K -> K -> bool) (H : keqb_ok eqb) : keqb_ok (okey_eqb eqb).
Proof.
  intros [a|] [b|]; unfold okey_eqb; cbn [opt_eqb]; try (split; congruence).
  split; [intros E; apply H in E; congruence|intros [= ->]; apply H; reflexivity].
Qed.

Lemma NoDup_map_Some {K} (l : list K) : NoDup l -> NoDup (map Some l).
Proof.
  induction 1 as [|x l Hx _ IH]; cbn [map]; constructor; [|exact IH].
  intros Hin. apply in_map_iff in Hin. destruct Hin as (y & [= ->] & Hy). contradiction.
Qed.

Lemma NoDup_nodupb_okeys {K T} (eqb : K -> K -> bool) (H : keqb_ok eqb) (okey : T -> option K) (key : T -> K) l :
  (forall x, In x l -> okey x = Some (key x)) -> NoDup (map key l) ->
  nodupb (okey_eqb eqb) (map okey l) = true.
Proof.
  intros Hk Hnd. apply (nodupb_NoDup _ (okey_eqb_ok eqb H)).
  assert (Hm : map okey l = map Some (map key l)) by (rewrite map_map; apply map_ext_in; exact Hk).
  rewrite Hm. apply NoDup_map_Some. exact Hnd.
Qed.

Lemma wf_field_key n f : wf_field n f = true -> field_key f = Some (fkey f).
Proof.
  unfold wf_field. rewrite andb_true_iff. intros [_ Hs]. unfold field_key, fkey in *.
  destruct (first_name (f_names f)) eqn:E; [|discriminate].
  rewrite (first_name_fname (f_names f)) in E by (rewrite E; reflexivity). congruence.
Qed.

Lemma wf_meth_key n m : wf_meth n m = true -> meth_key m = Some (mkey m).
Proof.
  unfold wf_meth. rewrite !andb_true_iff. intros (((_ & Hs) & _) & _). unfold meth_key, mkey in *.
  destruct (first_name (m_names m)) eqn:E; [|discriminate].
  rewrite (first_name_fname (m_names m)) in E by (rewrite E; reflexivity). congruence.
Qed.

Lemma wf_class_key n c : wf_class n c = true -> class_key c = Some (ckey c).
Proof.
  unfold wf_class. rewrite !andb_true_iff. intros (((((_ & Hs) & _) & _) & _) & _).
  unfold class_key, ckey. apply first_name_fname. exact Hs.
Qed.

Lemma wf_meth_eqv n m m' : meth_eqv m m' -> wf_meth n m' = true -> wf_meth n m = true.
Proof.
  intros (Hd & Hn & _ & (Hnd & Hnd' & Hl)) Hwf. unfold wf_meth in *. rewrite !andb_true_iff in *.
  destruct Hwf as (((W1 & W2) & W3) & _). repeat split.
  - rewrite Hn. exact W1.
  - unfold meth_key in *. rewrite Hn, Hd. exact W2.
  - rewrite forallb_forall in *. intros p Hp. apply W3.
    pose proof (find_key_in N.eqb N_eqb_ok pkey _ p Hnd Hp) as E. unfold pfind in Hl. rewrite Hl in E.
    exact (proj1 (find_key_some N.eqb N_eqb_ok pkey _ _ _ E)).
  - apply (nodupb_NoDup _ N_eqb_ok). exact Hnd.
Qed.

Lemma wf_class_eqv n c c' : class_eqv c c' -> wf_class n c' = true -> wf_class n c = true.
Proof.
  intros (Hn & _ & (Hf1 & Hf2 & Hf3) & (Hm1 & Hm2 & Hm3)) Hwf. unfold wf_class in *. rewrite !andb_true_iff in *.
  destruct Hwf as (((((W1 & W2) & W3) & _) & W5) & _).
  assert (Wf : forall f, In f (c_fields c) -> wf_field n f = true).
  { rewrite forallb_forall in W3. intros f Hin. apply W3.
    pose proof (find_key_in key2_eqb key2_eqb_ok fkey _ f Hf1 Hin) as E. unfold ffind in Hf3. rewrite Hf3 in E.
    exact (proj1 (find_key_some key2_eqb key2_eqb_ok fkey _ _ _ E)). }
  assert (Wm : forall m, In m (c_methods c) -> wf_meth n m = true).
  { rewrite forallb_forall in W5. intros m Hin.
    pose proof (find_key_in key2_eqb key2_eqb_ok mkey _ m Hm1 Hin) as E. specialize (Hm3 (mkey m)).
    unfold mfind in Hm3. rewrite E in Hm3. destruct (find_key key2_eqb mkey (mkey m) (c_methods c')) as [m'|] eqn:E'; [|contradiction].
    cbn [opt_rel] in Hm3. apply (wf_meth_eqv n m m' Hm3). apply W5.
    exact (proj1 (find_key_some key2_eqb key2_eqb_ok mkey _ _ _ E')). }
  repeat split.
  - rewrite Hn. exact W1.
  - unfold class_key in *. rewrite Hn. exact W2.
  - apply forallb_forall. exact Wf.
  - apply (NoDup_nodupb_okeys key2_eqb key2_eqb_ok field_key fkey); [|exact Hf1].
    intros f Hin. exact (wf_field_key n f (Wf f Hin)).
  - apply forallb_forall. exact Wm.
  - apply (NoDup_nodupb_okeys key2_eqb key2_eqb_ok meth_key mkey); [|exact Hm1].
    intros m Hin. exact (wf_meth_key n m (Wm m Hin)).
Qed.

(* a tree that equals a well-formed tree up to order is well-formed *)
Theorem wf_mequiv r B : mequiv r B -> wf B = true -> wf r = true.
Proof.
  intros (Hns & _ & (H1 & H2 & H3)) Hwf. unfold wf in *. cbv zeta in *. rewrite !andb_true_iff in *.
  destruct Hwf as (((W1 & W2) & W3) & _). rewrite Hns.
  assert (Wc : forall c, In c (ms_classes r) -> wf_class (length (ms_ns B)) c = true).
  { rewrite forallb_forall in W3. intros c Hin.
    pose proof (find_key_in str_eqb str_eqb_ok ckey _ c H1 Hin) as E. specialize (H3 (ckey c)).
    unfold cfind in H3. rewrite E in H3. destruct (find_key str_eqb ckey (ckey c) (ms_classes B)) as [c'|] eqn:E'; [|contradiction].
    cbn [opt_rel] in H3. apply (wf_class_eqv _ c c' H3). apply W3.
    exact (proj1 (find_key_some str_eqb str_eqb_ok ckey _ _ _ E')). }
  repeat split.
  - exact W1.
  - exact W2.
  - apply forallb_forall. exact Wc.
  - apply (NoDup_nodupb_okeys str_eqb str_eqb_ok class_key ckey); [|exact H1].
    intros c Hin. exact (wf_class_key _ c (Wc c Hin)).
Qed.

(* the judgement on a result: the boolean is the Prop *)
Theorem result_is_iff r B : wf B = true ->
  (result_is r B = true <-> exists m, r = Ok m /\ mequiv m B).
Proof.
  intros HB. unfold result_is. destruct r as [m|].
  - rewrite andb_true_iff. split.
    + intros [Hw He]. exists m. split; [reflexivity|apply equivb_mequiv; assumption].
    + intros (m' & [= <-] & He). split; [exact (wf_mequiv m B He HB)|apply mequiv_equivb; [right; exact HB|exact He]].
  - split; [discriminate|intros (m & Hm & _); discriminate].
Qed.

Theorem inverse_law_b_iff A B : wf B = true -> (inverse_law_b A B = true <-> inverse_law A B).
Proof.
  intros HB. unfold inverse_law_b, inverse_law. destruct (diff A B) as [d|].
  - fold (result_is (apply_to d A (nth 1 (ms_ns A) [])) B). rewrite (result_is_iff _ B HB). split.
    + intros (m & Hm & He). exists d, m. auto.
    + intros (d' & m & [= <-] & Hm & He). exists m. auto.
  - split; [discriminate|intros (d & r & Hd & _); discriminate].
Qed.

Theorem text_inverse_law_b_iff A B : wf B = true -> (text_inverse_law_b A B = true <-> text_inverse_law A B).
Proof.
  intros HB. unfold text_inverse_law_b, text_inverse_law. destruct (diff A B) as [d|].
  - destruct (read (print d)) as [d'|] eqn:Er.
    + fold (result_is (apply_to d' A (nth 1 (ms_ns A) [])) B). rewrite (result_is_iff _ B HB). split.
      * intros (m & Hm & He). exists d, d', m. auto.
      * intros (d0 & d1 & m & [= <-] & Hd1 & Hm & He). rewrite Er in Hd1. injection Hd1 as <-. exists m. auto.
    + split; [discriminate|intros (d0 & d1 & m & [= <-] & Hd1 & _); rewrite Er in Hd1; discriminate].
  - split; [discriminate|intros (d & d' & r & Hd & _); discriminate].
Qed.

(* the inverse theorem as a computed fact *)
Theorem inverse_b A B : inverse_hyps_b A B = true -> f3_class A B = false -> inverse_law_b A B = true.
Proof.
  intros Hh H3. apply inverse_hyps_b_iff in Hh. pose proof Hh as (_ & HB & _).
  apply (inverse_law_b_iff A B HB). exact (diff_apply_partial A B Hh H3).
Qed.

(* the text theorem (modulo the top-level comment, which has no line in the format) as a computed fact:
   this is what Run.v evaluates on the implementation's answer for every pair inside the hypotheses *)
Lemma wf_set_doc B o : wf (set_doc B o) = wf B.
Proof. reflexivity. Qed.

Theorem text_modulo_top_computed A B :
  text_hyps_top_b A B = true -> f3_class A B = false -> f4_class A B = false ->
  exists d d', diff A B = Ok d /\ read (print d) = Ok d'
               /\ result_is (apply_to d' A (nth 1 (ms_ns A) [])) (set_doc B (ms_doc A)) = true.
Proof.
  intros Hh H3 H4. apply text_hyps_top_b_iff in Hh.
  destruct (text_inverse_modulo_top A B Hh H3 H4) as (d & d' & r & Hd & Hr & Ha & He).
  exists d, d'. split; [exact Hd|]. split; [exact Hr|].
  apply result_is_iff.
  - rewrite wf_set_doc. destruct Hh as ((_ & HB & _) & _). exact HB.
  - exists r. auto.
Qed.
