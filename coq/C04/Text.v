(* C04 model, text part: quill/src/tiny_v2_diff.rs `read`, quill/src/lines.rs (TinyLine::new,
   TinyLine::action / action_string, WithMoreIdentIter), quill/src/tiny_v2.rs `unescape`, and
   BufRead::lines.  Definitions only.  The repository has no .tinydiff writer: [print] below is
   ours and is the specification of the text form (it writes what the repository's fixtures
   under tests/version-graph look like: trailing absent cells are omitted).

   The nested `on_every_line` iterators are modelled in two steps: [build] groups the lines into a
   forest by indentation (a line's children are the following lines that are deeper, up to the
   first line that is not), [interp_*] walks that forest with the reader's rules: a line met at
   depth d must have exactly d tabs; a line whose handler does not descend (comment, unknown tag)
   must not be followed by deeper lines. *)
From FB Require Export C04.Model.
From FB Require Export C18.Model.
From Coq Require Import DecimalN.

Definition text := list N.

(* ---- BufRead::lines ---- *)
Definition strip_cr (s : str) : str :=
  match rev s with
  | c :: r => if N.eqb c cCR then rev r else s
  | [] => s
  end.
(* the parts of split('\n'): every part but the last was terminated by LF (one trailing CR is
   stripped); the last part is a line only if it is non-empty (no CR stripping: no LF followed) *)
Fixpoint lines_of_parts (ps : list str) : list str :=
  match ps with
  | [] => []
  | [p] => if is_nil p then [] else [p]
  | p :: ps' => strip_cr p :: lines_of_parts ps'
  end.
Definition split_lines (t : text) : list str := lines_of_parts (split_on cLF t).

(* ---- TinyLine::new ---- *)
Record tline := mkLine { tl_indent : nat; tl_first : str; tl_fields : list str }.
Fixpoint strip_tabs (s : str) : nat * str :=
  match s with
  | c :: s' => if N.eqb c cTAB then let (n, r) := strip_tabs s' in (S n, r) else (O, s)
  | [] => (O, [])
  end.
Definition tiny_line (s : str) : tline :=
  let (n, r) := strip_tabs s in
  match split_on cTAB r with
  | f :: fs => mkLine n f fs
  | [] => mkLine n [] []      (* unreachable: split always yields one part *)
  end.

(* ---- indentation forest ---- *)
Inductive tree := Node (l : tline) (ch : list tree).
Definition root_indent (t : tree) : nat := match t with Node l _ => tl_indent l end.
Fixpoint span_deeper (i : nat) (f : list tree) : list tree * list tree :=
  match f with
  | t :: f' => if Nat.ltb i (root_indent t)
               then let (c, r) := span_deeper i f' in (t :: c, r)
               else ([], f)
  | [] => ([], [])
  end.
Definition attach (l : tline) (f : list tree) : list tree :=
  let (c, r) := span_deeper (tl_indent l) f in Node l c :: r.
Definition build (ls : list tline) : list tree := fold_right attach [] ls.

(* ---- cells ---- *)
Definition s_tiny : str := [116; 105; 110; 121].
Definition s_2 : str := [50].
Definition s_0 : str := [48].
Definition s_c : str := [99].
Definition s_f : str := [102].
Definition s_m : str := [109].
Definition s_p : str := [112].

(* `fields.next().filter(|x| !x.is_empty()).map(T::try_from).transpose()?` *)
Definition cell (valid : str -> bool) (s : option str) : res (option str) :=
  match s with
  | None => Ok None
  | Some [] => Ok None
  | Some x => if valid x then Ok (Some x) else Err
  end.

(* TinyLine::action / action_string on the remaining fields *)
Definition decode_action (valid : str -> bool) (fs : list str) : res (action str) :=
  match fs with
  | _ :: _ :: _ :: _ => Err
  | _ =>
      do a <- cell valid (nth_error fs 0);
      do b <- cell valid (nth_error fs 1);
      Ok (match a, b with
          | None, None => ANone
          | None, Some y => AAdd y
          | Some x, None => ARem x
          | Some x, Some y => if str_eqb x y then ANone else AEdit x y
          end)
  end.

(* tiny_v2::unescape (after fix 1ac2bb2): table ESCAPES = [(\\,\\), (LF,n), (CR,r), (TAB,t)]; a
   backslash followed by one of the four letters yields the raw character, any other backslash
   is kept *)
Definition unesc_char (e : N) : option N :=
  if N.eqb e cBSLASH then Some cBSLASH
  else if N.eqb e 110 then Some cLF
  else if N.eqb e 114 then Some cCR
  else if N.eqb e 116 then Some cTAB
  else None.
Fixpoint unescape (s : str) : str :=
  match s with
  | [] => []
  | c :: s' =>
      if N.eqb c cBSLASH then
        match s' with
        | e :: s'' => match unesc_char e with
                      | Some x => x :: unescape s''
                      | None => c :: unescape s'
                      end
        | [] => [c]
        end
      else c :: unescape s'
  end.

Definition map_action {A B} (f : A -> B) (a : action A) : action B :=
  match a with ANone => ANone | AAdd b => AAdd (f b) | ARem x => ARem (f x) | AEdit x y => AEdit (f x) (f y) end.

(* add_comment: the action is decoded on the raw cells (equal cells = no action), then unescaped *)
Definition comment_action (fs : list str) : res (action str) :=
  do a <- decode_action (fun _ => true) fs; Ok (map_action unescape a).

(* had_comment: at most one comment line per node *)
Definition one_doc (l : list (action str)) : res (action str) :=
  match l with [] => Ok ANone | [a] => Ok a | _ => Err end.

(* `str::parse::<usize>()`: optional '+', at least one ASCII digit, value below 2^64 *)
Fixpoint uint_of_digits (s : str) : option Decimal.uint :=
  match s with
  | [] => Some Decimal.Nil
  | c :: s' =>
      match uint_of_digits s' with
      | None => None
      | Some u =>
          match c with
          | 48 => Some (Decimal.D0 u) | 49 => Some (Decimal.D1 u) | 50 => Some (Decimal.D2 u)
          | 51 => Some (Decimal.D3 u) | 52 => Some (Decimal.D4 u) | 53 => Some (Decimal.D5 u)
          | 54 => Some (Decimal.D6 u) | 55 => Some (Decimal.D7 u) | 56 => Some (Decimal.D8 u)
          | 57 => Some (Decimal.D9 u) | _ => None
          end
      end
  end.
Definition usize_max : N := 18446744073709551615.
Definition parse_usize (s : str) : res N :=
  let digits := match s with 43 :: r => r | _ => s end in
  if is_nil digits then Err else
  match uint_of_digits digits with
  | None => Err
  | Some u => let v := N.of_uint u in if N.leb v usize_max then Ok v else Err
  end.

(* ---- the reader, level by level ---- *)

(* children of a field or parameter line: comments; anything else is ignored *)
Fixpoint interp_leaf (d : nat) (ch : list tree) : res (list (action str)) :=
  match ch with
  | [] => Ok []
  | Node l sub :: ch' =>
      if Nat.eqb (tl_indent l) d && is_nil sub then
        if str_eqb (tl_first l) s_c then
          do a <- comment_action (tl_fields l);
          do r <- interp_leaf d ch';
          Ok (a :: r)
        else interp_leaf d ch'
      else Err
  end.

Inductive mitem := MIParam (p : pdiff) | MIDoc (a : action str).
Fixpoint interp_mchildren (d : nat) (ch : list tree) : res (list mitem) :=
  match ch with
  | [] => Ok []
  | Node l sub :: ch' =>
      if negb (Nat.eqb (tl_indent l) d) then Err
      else if str_eqb (tl_first l) s_p then
        match tl_fields l with
        | idx :: src :: rest =>
            do i <- parse_usize idx;
            if negb (is_nil src) then Err else
            do a <- decode_action is_valid_unqualified_name rest;
            do docs <- interp_leaf (S d) sub;
            do doc <- one_doc docs;
            do r <- interp_mchildren d ch';
            Ok (MIParam (mkPD i a doc) :: r)
        | _ => Err
        end
      else if negb (is_nil sub) then Err
      else if str_eqb (tl_first l) s_c then
        do a <- comment_action (tl_fields l);
        do r <- interp_mchildren d ch';
        Ok (MIDoc a :: r)
      else interp_mchildren d ch'
  end.
Definition mi_params (l : list mitem) : list pdiff :=
  flat_map (fun i => match i with MIParam p => [p] | _ => [] end) l.
Definition mi_docs (l : list mitem) : list (action str) :=
  flat_map (fun i => match i with MIDoc a => [a] | _ => [] end) l.

Inductive citem := CIField (f : fdiff) | CIMeth (m : mdiff) | CIDoc (a : action str).
Fixpoint interp_cchildren (d : nat) (ch : list tree) : res (list citem) :=
  match ch with
  | [] => Ok []
  | Node l sub :: ch' =>
      if negb (Nat.eqb (tl_indent l) d) then Err
      else if str_eqb (tl_first l) s_f then
        match tl_fields l with
        | desc :: name :: rest =>
            if negb (is_valid_unqualified_name name) then Err else
            do a <- decode_action is_valid_unqualified_name rest;
            do docs <- interp_leaf (S d) sub;
            do doc <- one_doc docs;
            do r <- interp_cchildren d ch';
            Ok (CIField (mkFD name desc a doc) :: r)
        | _ => Err
        end
      else if str_eqb (tl_first l) s_m then
        match tl_fields l with
        | desc :: name :: rest =>
            if negb (is_valid_method_name name) then Err else
            do a <- decode_action is_valid_method_name rest;
            do items <- interp_mchildren (S d) sub;
            do doc <- one_doc (mi_docs items);
            if negb (nodupb N.eqb (map pd_index (mi_params items))) then Err else
            do r <- interp_cchildren d ch';
            Ok (CIMeth (mkMD name desc a doc (mi_params items)) :: r)
        | _ => Err
        end
      else if negb (is_nil sub) then Err
      else if str_eqb (tl_first l) s_c then
        do a <- comment_action (tl_fields l);
        do r <- interp_cchildren d ch';
        Ok (CIDoc a :: r)
      else interp_cchildren d ch'
  end.
Definition ci_fields (l : list citem) : list fdiff :=
  flat_map (fun i => match i with CIField f => [f] | _ => [] end) l.
Definition ci_meths (l : list citem) : list mdiff :=
  flat_map (fun i => match i with CIMeth m => [m] | _ => [] end) l.
Definition ci_docs (l : list citem) : list (action str) :=
  flat_map (fun i => match i with CIDoc a => [a] | _ => [] end) l.

Fixpoint interp_top (ch : list tree) : res (list cdiff) :=
  match ch with
  | [] => Ok []
  | Node l sub :: ch' =>
      if negb (Nat.eqb (tl_indent l) 0) then Err
      else if str_eqb (tl_first l) s_c then
        match tl_fields l with
        | key :: rest =>
            if negb (is_valid_obj_class_name key) then Err else
            do a <- decode_action is_valid_obj_class_name rest;
            do items <- interp_cchildren 1 sub;
            do doc <- one_doc (ci_docs items);
            if negb (nodupb key2_eqb (map fdkey (ci_fields items))) then Err else
            if negb (nodupb key2_eqb (map mdkey (ci_meths items))) then Err else
            do r <- interp_top ch';
            Ok (mkCD key a doc (ci_fields items) (ci_meths items) :: r)
        | [] => Err
        end
      else if negb (is_nil sub) then Err
      else interp_top ch'
  end.

(* tiny_v2_diff::read *)
Definition read (t : text) : res mdiffs :=
  match map tiny_line (split_lines t) with
  | [] => Err
  | h :: ls =>
      if str_eqb (tl_first h) s_tiny && list_eqb str_eqb (tl_fields h) [s_2; s_0] then
        do cs <- interp_top (build ls);
        if nodupb str_eqb (map cd_name cs) then Ok (mkDiff ANone ANone cs) else Err
      else Err
  end.

(* ---- our printer: the specification of the text form ---- *)
(* tiny_v2::escape (the repository's own function; our printer uses it for comment cells) *)
Definition esc_char (c : N) : option N :=
  if N.eqb c cBSLASH then Some cBSLASH
  else if N.eqb c cLF then Some 110
  else if N.eqb c cCR then Some 114
  else if N.eqb c cTAB then Some 116
  else None.
Fixpoint escape (s : str) : str :=
  match s with
  | [] => []
  | c :: s' => match esc_char c with
               | Some e => cBSLASH :: e :: escape s'
               | None => c :: escape s'
               end
  end.

Fixpoint join_tab (cells : list str) : str :=
  match cells with
  | [] => []
  | [c] => c
  | c :: cs => c ++ cTAB :: join_tab cs
  end.
Definition pline (indent : nat) (cells : list str) : text :=
  repeat cTAB indent ++ join_tab cells ++ [cLF].

Definition action_cells (a : action str) : list str :=
  match a with
  | ANone => []
  | AAdd b => [[]; b]
  | ARem x => [x]
  | AEdit x y => [x; y]
  end.
Definition doc_lines (indent : nat) (a : action str) : text :=
  match a with
  | ANone => []
  | _ => pline indent (s_c :: map escape (action_cells a))
  end.

Fixpoint digits_of_uint (u : Decimal.uint) : str :=
  match u with
  | Decimal.Nil => []
  | Decimal.D0 u => 48 :: digits_of_uint u | Decimal.D1 u => 49 :: digits_of_uint u
  | Decimal.D2 u => 50 :: digits_of_uint u | Decimal.D3 u => 51 :: digits_of_uint u
  | Decimal.D4 u => 52 :: digits_of_uint u | Decimal.D5 u => 53 :: digits_of_uint u
  | Decimal.D6 u => 54 :: digits_of_uint u | Decimal.D7 u => 55 :: digits_of_uint u
  | Decimal.D8 u => 56 :: digits_of_uint u | Decimal.D9 u => 57 :: digits_of_uint u
  end.
Definition print_N (n : N) : str := digits_of_uint (N.to_uint n).

Definition print_param (p : pdiff) : text :=
  pline 2 (s_p :: print_N (pd_index p) :: [] :: action_cells (pd_info p)) ++ doc_lines 3 (pd_doc p).
Definition print_field (f : fdiff) : text :=
  pline 1 (s_f :: fd_desc f :: fd_name f :: action_cells (fd_info f)) ++ doc_lines 2 (fd_doc f).
Definition print_meth (m : mdiff) : text :=
  pline 1 (s_m :: md_desc m :: md_name m :: action_cells (md_info m)) ++ doc_lines 2 (md_doc m)
  ++ concat (map print_param (md_params m)).
Definition print_class (c : cdiff) : text :=
  pline 0 (s_c :: cd_name c :: action_cells (cd_info c)) ++ doc_lines 1 (cd_doc c)
  ++ concat (map print_field (cd_fields c)) ++ concat (map print_meth (cd_methods c)).
Definition print (d : mdiffs) : text :=
  pline 0 [s_tiny; s_2; s_0] ++ concat (map print_class (d_classes d)).

(* what the reader returns for a printed diff: Edit(a,a) is no action; an empty string is an
   absent cell (for names this cannot occur: names are non-empty) *)
Definition nonempty (s : str) : option str := match s with [] => None | _ => Some s end.
Definition norm_action (a : action str) : action str :=
  match a with
  | ANone => ANone
  | AAdd b => from_tuple None (nonempty b)
  | ARem x => from_tuple (nonempty x) None
  | AEdit x y => if str_eqb x y then ANone else from_tuple (nonempty x) (nonempty y)
  end.
Definition norm_param (p : pdiff) : pdiff := mkPD (pd_index p) (norm_action (pd_info p)) (norm_action (pd_doc p)).
Definition norm_field (f : fdiff) : fdiff := mkFD (fd_name f) (fd_desc f) (norm_action (fd_info f)) (norm_action (fd_doc f)).
Definition norm_meth (m : mdiff) : mdiff :=
  mkMD (md_name m) (md_desc m) (norm_action (md_info m)) (norm_action (md_doc m)) (map norm_param (md_params m)).
Definition norm_class (c : cdiff) : cdiff :=
  mkCD (cd_name c) (norm_action (cd_info c)) (norm_action (cd_doc c))
       (map norm_field (cd_fields c)) (map norm_meth (cd_methods c)).
Definition norm (d : mdiffs) : mdiffs :=
  mkDiff (d_info d) (norm_action (d_doc d)) (map norm_class (d_classes d)).
