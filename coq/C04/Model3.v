(* C04 model, part 3 (definitions only): the two-column action decoding of quill/src/lines.rs
   (TinyLine::action / TinyLine::action_string, modelled by [decode_action] in Text.v) stated on its
   own: the declarative reading of an action line, and the per-line-kind entry point the
   correspondence stream `line-action` evaluates against tiny_v2_diff::read_file on one-line files. *)
From FB Require Export C04.Model C04.Text C04.Model2.

(* a column of an action line: a missing cell and an empty cell are the same ("empty = absent") *)
Definition column (fs : list str) (i : nat) : option str := nonempty (nth i fs []).

(* every cell is empty or accepted by the checked constructor T::try_from *)
Definition cells_ok (valid : str -> bool) (fs : list str) : bool :=
  forallb (fun x => is_nil x || valid x) fs.

(* "equal = none": an action that Action::is_diff calls no diff is Action::None *)
Definition fold_noop (a : action str) : action str := if is_diff str_eqb a then a else ANone.

(* the declarative reading of the cells after the key of a class / field / method / parameter line *)
Definition decode_spec (valid : str -> bool) (fs : list str) : res (action str) :=
  if Nat.ltb 2 (length fs) then Err
  else if cells_ok valid fs then Ok (fold_noop (from_tuple (column fs 0) (column fs 1)))
  else Err.

(* the action of a line, per line kind: 0 class (`c key ..`), 1 field (`f desc key ..`),
   2 method (`m desc key ..`), 3 parameter (`p index <empty> ..`), otherwise comment (`c ..`,
   tiny_v2_diff::add_comment: decoded on the raw cells, then unescaped) *)
Definition line_action (k : N) (fs : list str) : res (action str) :=
  match k with
  | 0%N => decode_action is_valid_obj_class_name fs
  | 1%N => decode_action is_valid_unqualified_name fs
  | 2%N => decode_action is_valid_method_name fs
  | 3%N => decode_action is_valid_unqualified_name fs
  | _ => comment_action fs
  end.

(* the same per line kind through the declarative reading (what the correspondence also evaluates) *)
Definition line_valid (k : N) : str -> bool :=
  match k with 0%N => is_valid_obj_class_name | 2%N => is_valid_method_name | _ => is_valid_unqualified_name end.
Definition comment_spec (fs : list str) : res (action str) :=
  if Nat.ltb 2 (length fs) then Err
  else Ok (map_action unescape (fold_noop (from_tuple (column fs 0) (column fs 1)))).
Definition line_spec (k : N) (fs : list str) : res (action str) :=
  if N.ltb k 4 then decode_spec (line_valid k) fs else comment_spec fs.

(* no value of the action is the empty string, and it is not Edit(x,x): what a line can express *)
Definition line_normal (a : action str) : bool :=
  match a with
  | ANone => true
  | AAdd b => negb (is_nil b)
  | ARem x => negb (is_nil x)
  | AEdit x y => negb (is_nil x) && negb (is_nil y) && negb (str_eqb x y)
  end.
Definition action_all (f : str -> bool) (a : action str) : bool :=
  match a with ANone => true | AAdd b => f b | ARem x => f x | AEdit x y => f x && f y end.

(* ---- what tiny_v2_diff::read can return, as one boolean on the diff tree: valid keys, pairwise
   distinct keys per map (add_child refuses a second entry for a key), and every name action
   expressible by a line (no empty value, never Edit(x,x)) with values the checked constructor accepted ---- *)
Definition info_ok (valid : str -> bool) (a : action str) : bool := line_normal a && action_all valid a.
Definition img_param (p : pdiff) : bool := info_ok is_valid_unqualified_name (pd_info p).
Definition img_field (f : fdiff) : bool :=
  is_valid_unqualified_name (fd_name f) && info_ok is_valid_unqualified_name (fd_info f).
Definition img_meth (m : mdiff) : bool :=
  is_valid_method_name (md_name m) && info_ok is_valid_method_name (md_info m)
  && nodupb N.eqb (map pd_index (md_params m)) && forallb img_param (md_params m).
Definition img_class (c : cdiff) : bool :=
  is_valid_obj_class_name (cd_name c) && info_ok is_valid_obj_class_name (cd_info c)
  && nodupb key2_eqb (map fdkey (cd_fields c)) && nodupb key2_eqb (map mdkey (cd_methods c))
  && forallb img_field (cd_fields c) && forallb img_meth (cd_methods c).
Definition read_image_b (d : mdiffs) : bool :=
  is_anone (d_info d) && is_anone (d_doc d)
  && nodupb str_eqb (map cd_name (d_classes d)) && forallb img_class (d_classes d).
