(* C04 model, part 2 (definitions only; kept apart from Model.v / Hyps.v, which C05 imports):
   the remaining helpers of quill/src/tree/mappings_diff/action.rs (Action::is_diff, to_tuple, flip;
   as_ref borrows and is the identity here), the diff tree built through the NodeInfo API, and the
   inverse laws as single booleans, so that the correspondence run can evaluate them on what the
   implementation answered. *)
From FB Require Export C04.Model C04.Text C04.Hyps C04.Hyps2.

(* Action::is_diff (T: PartialEq) *)
Definition is_diff {A} (eqb : A -> A -> bool) (a : action A) : bool :=
  match a with
  | ANone => false
  | AAdd _ => true
  | ARem _ => true
  | AEdit x y => negb (eqb x y)
  end.

(* Action::to_tuple, the inverse of from_tuple *)
Definition to_tuple {A} (a : action A) : option A * option A :=
  match a with
  | ANone => (None, None)
  | AAdd b => (None, Some b)
  | ARem x => (Some x, None)
  | AEdit x y => (Some x, Some y)
  end.

(* Action::flip *)
Definition flip {A} (a : action A) : action A :=
  match a with
  | ANone => ANone
  | AAdd b => ARem b
  | ARem x => AAdd x
  | AEdit x y => AEdit y x
  end.

(* a diff tree without any effective action (what Action::is_diff calls "no diff"), at every level *)
Definition noop_param (p : pdiff) : bool := negb (is_diff str_eqb (pd_info p)) && negb (is_diff str_eqb (pd_doc p)).
Definition noop_field (f : fdiff) : bool := negb (is_diff str_eqb (fd_info f)) && negb (is_diff str_eqb (fd_doc f)).
Definition noop_meth (m : mdiff) : bool :=
  negb (is_diff str_eqb (md_info m)) && negb (is_diff str_eqb (md_doc m)) && forallb noop_param (md_params m).
Definition noop_class (c : cdiff) : bool :=
  negb (is_diff str_eqb (cd_info c)) && negb (is_diff str_eqb (cd_doc c))
  && forallb noop_field (cd_fields c) && forallb noop_meth (cd_methods c).
Definition noop_diff (d : mdiffs) : bool :=
  negb (is_diff str_eqb (d_info d)) && negb (is_diff str_eqb (d_doc d)) && forallb noop_class (d_classes d).

(* the inverse law, in memory, as one boolean: diff succeeds, apply succeeds, the result is a
   well-formed tree and equals B up to the order of every map (Quill.Mappings.equivb) *)
Definition inverse_law_b (A B : mappings) : bool :=
  match diff A B with
  | Ok d => match apply_to d A (nth 1 (ms_ns A) []) with
            | Ok r => wf r && equivb r B
            | Err => false
            end
  | Err => false
  end.

(* the same through print / read *)
Definition text_inverse_law_b (A B : mappings) : bool :=
  match diff A B with
  | Ok d => match read (print d) with
            | Ok d' => match apply_to d' A (nth 1 (ms_ns A) []) with
                       | Ok r => wf r && equivb r B
                       | Err => false
                       end
            | Err => false
            end
  | Err => false
  end.

(* what the implementation answered for apply(diff(A,B),A), judged by the same boolean *)
Definition result_is (r : res mappings) (B : mappings) : bool :=
  match r with Ok m => wf m && equivb m B | Err => false end.
