(* C04 theory, part 4: what the text form loses is harmless — applying norm d gives what applying d
   gives (no empty strings) — and the inverse law through the text form; known finding F4. *)
From FB Require Export C04.TextTheory.
From Coq Require Import Permutation Arith PeanoNat.


Lemma norm_action_nonnil a :
  act_all nonnil a = true ->
  norm_action a = match a with AEdit x y => if str_eqb x y then ANone else a | _ => a end.
Proof.
  unfold nonnil. destruct a as [|b|x|x y]; cbn [act_all norm_action]; try reflexivity.
  - destruct b; [discriminate|reflexivity].
  - destruct x; [discriminate|reflexivity].
  - rewrite andb_true_iff. intros [Hx Hy]. destruct (str_eqb x y); [reflexivity|].
    destruct x; [discriminate|]. destruct y; [discriminate|]. reflexivity.
Qed.

Lemma doc_apply_norm a t r :
  act_all nonnil a = true -> doc_apply a t = Ok r -> doc_apply (norm_action a) t = Ok r.
Proof.
  intros Hn H. rewrite (norm_action_nonnil a Hn). destruct a as [|b|x|x y]; try exact H.
  destruct (str_eqb_spec x y) as [->|Hne]; [|exact H].
  unfold doc_apply in *. cbn [apply_option] in *. destruct t as [z|]; [|discriminate].
  destruct (str_eqb_spec z y) as [->|]; [exact H|discriminate].
Qed.

(* ------------------------------------------------------------------ *)
(* swap_remove commutes with a key-preserving map *)

Lemma last_map {A B} (f : A -> B) l x : last (map f l) (f x) = f (last l x).
Proof. induction l as [|a l IH]; [reflexivity|]. destruct l; [reflexivity|]. exact IH. Qed.

Lemma removelast_map {A B} (f : A -> B) l : removelast (map f l) = map f (removelast l).
Proof. induction l as [|a l IH]; [reflexivity|]. destruct l; [reflexivity|]. cbn [map removelast] in *. rewrite IH. reflexivity. Qed.

Lemma tail_swap_map {A B} (f : A -> B) (l : list A) :
  match map f l with [] => [] | x :: _ => last (map f l) x :: removelast (map f l) end
  = map f (match l with [] => [] | x :: _ => last l x :: removelast l end).
Proof.
  destruct l as [|x l']; [reflexivity|].
  change (map f (x :: l')) with (f x :: map f l') at 1. cbv iota.
  rewrite last_map, removelast_map. reflexivity.
Qed.

Lemma swap_remove_map {K D} keqb (key : D -> K) (nf : D -> D) k l :
  (forall d, key (nf d) = key d) ->
  swap_remove keqb key k (map nf l) =
    match swap_remove keqb key k l with Some (d, r) => Some (nf d, map nf r) | None => None end.
Proof.
  intros Hk. induction l as [|d l IH]; [reflexivity|].
  change (map nf (d :: l)) with (nf d :: map nf l).
  change (swap_remove keqb key k (nf d :: map nf l)) with
    (if keqb k (key (nf d)) then Some (nf d, match map nf l with [] => [] | x :: _ => last (map nf l) x :: removelast (map nf l) end)
     else match swap_remove keqb key k (map nf l) with Some (d', r) => Some (d', nf d :: r) | None => None end).
  change (swap_remove keqb key k (d :: l)) with
    (if keqb k (key d) then Some (d, match l with [] => [] | x :: _ => last l x :: removelast l end)
     else match swap_remove keqb key k l with Some (d', r) => Some (d', d :: r) | None => None end).
  rewrite Hk. destruct (keqb k (key d)).
  - rewrite tail_swap_map. reflexivity.
  - rewrite IH. destruct (swap_remove keqb key k l) as [[d' r]|]; reflexivity.
Qed.

(* ------------------------------------------------------------------ *)
(* one map level: a normalised diff list gives the same result *)

Definition norm_ok {K D T} (L : level K D T) (nf : D -> D) (d : D) : Prop :=
  act_all nonnil (l_info L d) = true
  /\ forall t r, l_child L d t = Ok r -> l_child L (nf d) t = Ok r.

Definition chg_same {K D T} (L : level K D T) : Prop :=
  forall t x t1, l_chg L t (Some x) (Some x) = Ok t1 -> t1 = t.

Lemma Forall_perm {A} (P : A -> Prop) l l' : Permutation l l' -> Forall P l -> Forall P l'.
Proof.
  intros Hp H. apply Forall_forall. intros x Hx. rewrite Forall_forall in H. apply H.
  eapply Permutation_in; [symmetry; exact Hp|exact Hx].
Qed.

Lemma apply_targets_norm {K D T} (L : level K D T) (nf : D -> D)
    (Hk : forall d, l_dkey L (nf d) = l_dkey L d)
    (Hi : forall d, l_info L (nf d) = norm_action (l_info L d))
    (Hc : chg_same L) ts :
  forall pending r p',
  Forall (norm_ok L nf) pending ->
  apply_targets (l_keqb L) (l_dkey L) (l_tkey L) (l_info L) (l_chg L) (l_child L) pending ts = Ok (r, p') ->
  apply_targets (l_keqb L) (l_dkey L) (l_tkey L) (l_info L) (l_chg L) (l_child L) (map nf pending) ts = Ok (r, map nf p')
  /\ Forall (norm_ok L nf) p'.
Proof.
  induction ts as [|t ts IH]; intros pending r p' HP H; cbn [apply_targets] in *.
  - injection H as <- <-. auto.
  - rewrite (swap_remove_map (l_keqb L) (l_dkey L) nf (l_tkey L t) pending Hk).
    destruct (swap_remove (l_keqb L) (l_dkey L) (l_tkey L t) pending) as [[d p1]|] eqn:Es.
    + destruct (swap_remove_some _ _ _ _ _ _ Es) as [_ Hperm].
      pose proof (Forall_perm _ _ _ Hperm HP) as HP'. inversion HP' as [|? ? [Hnn Hch] HP1]; subst.
      rewrite Hi. rewrite (norm_action_nonnil _ Hnn).
      destruct (l_info L d) as [|b|a|a b] eqn:Ei.
      * apply bind_ok in H. destruct H as (t2 & Et2 & H). apply bind_ok in H. destruct H as ([r0 p0] & Erp & [= <- <-]).
        destruct (IH p1 r0 p0 HP1 Erp) as [I1 I2]. rewrite (Hch _ _ Et2). cbn [bind]. rewrite I1. cbn [bind fst snd]. auto.
      * apply bind_ok in H. destruct H as (t1 & Et1 & H). apply bind_ok in H. destruct H as (t2 & Et2 & H).
        apply bind_ok in H. destruct H as ([r0 p0] & Erp & [= <- <-]).
        destruct (IH p1 r0 p0 HP1 Erp) as [I1 I2]. rewrite Et1. cbn [bind]. rewrite (Hch _ _ Et2). cbn [bind]. rewrite I1. cbn [bind fst snd]. auto.
      * apply bind_ok in H. destruct H as (t1 & Et1 & H).
        destruct (IH p1 r p' HP1 H) as [I1 I2]. rewrite Et1. cbn [bind]. auto.
      * apply bind_ok in H. destruct H as (t1 & Et1 & H). apply bind_ok in H. destruct H as (t2 & Et2 & H).
        apply bind_ok in H. destruct H as ([r0 p0] & Erp & [= <- <-]).
        destruct (IH p1 r0 p0 HP1 Erp) as [I1 I2].
        destruct (str_eqb_spec a b) as [->|Hne].
        -- pose proof (Hc _ _ _ Et1) as ->. rewrite (Hch _ _ Et2). cbn [bind]. rewrite I1. cbn [bind fst snd]. auto.
        -- rewrite Et1. cbn [bind]. rewrite (Hch _ _ Et2). cbn [bind]. rewrite I1. cbn [bind fst snd]. auto.
    + apply bind_ok in H. destruct H as ([r0 p0] & Erp & [= <- <-]).
      destruct (IH pending r0 p0 HP Erp) as [I1 I2]. rewrite I1. cbn [bind fst snd]. auto.
Qed.

Lemma apply_pending_norm {K D T} (L : level K D T) (nf : D -> D)
    (Hk : forall d, l_dkey L (nf d) = l_dkey L d)
    (Hi : forall d, l_info L (nf d) = norm_action (l_info L d)) p :
  forall r, Forall (norm_ok L nf) p ->
  apply_pending (l_dkey L) (l_info L) (l_mk L) (l_child L) p = Ok r ->
  apply_pending (l_dkey L) (l_info L) (l_mk L) (l_child L) (map nf p) = Ok r.
Proof.
  induction p as [|d p IH]; intros r HP H; cbn [map apply_pending] in *; [exact H|].
  inversion HP as [|? ? [Hnn Hch] HP1]; subst. rewrite Hi, (norm_action_nonnil _ Hnn), Hk.
  destruct (l_info L d) as [|b|a|a b]; try discriminate.
  apply bind_ok in H. destruct H as (t0 & Et0 & H). apply bind_ok in H. destruct H as (t & Et & H).
  apply bind_ok in H. destruct H as (r0 & Er & [= <-]).
  rewrite Et0. cbn [bind]. rewrite (Hch _ _ Et). cbn [bind]. rewrite (IH r0 HP1 Er). reflexivity.
Qed.

Theorem apply_map_norm {K D T} (L : level K D T) (nf : D -> D)
    (Hk : forall d, l_dkey L (nf d) = l_dkey L d)
    (Hi : forall d, l_info L (nf d) = norm_action (l_info L d))
    (Hc : chg_same L) ds ts r :
  Forall (norm_ok L nf) ds ->
  apply_map_L L ds ts = Ok r -> apply_map_L L (map nf ds) ts = Ok r.
Proof.
  intros HP H. unfold apply_map_L, apply_map in *.
  apply bind_ok in H. destruct H as ([r1 p1] & E1 & H). apply bind_ok in H. destruct H as (r2 & E2 & [= <-]).
  destruct (apply_targets_norm L nf Hk Hi Hc ts ds r1 p1 HP E1) as [I1 I2].
  rewrite I1. cbn [bind fst snd] in *. rewrite (apply_pending_norm L nf Hk Hi p1 r2 I2 E2). reflexivity.
Qed.

(* ------------------------------------------------------------------ *)
(* the four levels *)

Lemma set_nth_same {A} (i : nat) (l : list A) (x d : A) : nth i l d = x -> (i < length l)%nat -> set_nth i l x = l.
Proof.
  revert i. induction l as [|y l IH]; intros i Hn Hl; [destruct i; reflexivity|]. destruct i as [|i]; cbn [nth set_nth length] in *.
  - congruence.
  - rewrite (IH i Hn); [reflexivity|lia].
Qed.

Lemma change_name_same tns l x l' : change_name tns l (Some x) (Some x) = Ok l' -> l' = l.
Proof.
  intros H. apply change_name_ok in H. destruct H as (_ & Hn & ->).
  apply (set_nth_same tns l (Some x) None Hn).
  destruct (Nat.lt_ge_cases tns (length l)) as [Hlt|Hge]; [exact Hlt|]. rewrite nth_overflow in Hn by exact Hge. discriminate.
Qed.

(* no action of the diff mentions an empty string (names never are; comments may be: F4) *)

Lemma chg_same_param n tns : chg_same (Lparam n tns).
Proof.
  intros t x t1 H. cbn in H. unfold chg_param in H. apply bind_ok in H. destruct H as (l' & Hl & [= <-]).
  rewrite (change_name_same _ _ _ _ Hl). destruct t; reflexivity.
Qed.
Lemma chg_same_field n tns : chg_same (Lfield n tns).
Proof.
  intros t x t1 H. cbn in H. unfold chg_field in H. apply bind_ok in H. destruct H as (l' & Hl & [= <-]).
  rewrite (change_name_same _ _ _ _ Hl). destruct t; reflexivity.
Qed.
Lemma chg_same_meth n tns : chg_same (Lmeth n tns).
Proof.
  intros t x t1 H. cbn in H. unfold chg_meth in H. apply bind_ok in H. destruct H as (l' & Hl & [= <-]).
  rewrite (change_name_same _ _ _ _ Hl). destruct t; reflexivity.
Qed.
Lemma chg_same_class n tns : chg_same (Lclass n tns).
Proof.
  intros t x t1 H. cbn in H. unfold chg_class in H. apply bind_ok in H. destruct H as (l' & Hl & [= <-]).
  rewrite (change_name_same _ _ _ _ Hl). destruct t; reflexivity.
Qed.

Lemma norm_ok_param n tns p : nonempty_param p = true -> norm_ok (Lparam n tns) norm_param p.
Proof.
  unfold nonempty_param. rewrite andb_true_iff. intros [Hi Hd]. split; [exact Hi|].
  intros t r H. cbn in *. unfold apply_param in *. cbn [norm_param pd_doc].
  apply bind_ok in H. destruct H as (doc & Edoc & [= <-]). rewrite (doc_apply_norm _ _ _ Hd Edoc). reflexivity.
Qed.

Lemma norm_ok_field n tns f : nonempty_field f = true -> norm_ok (Lfield n tns) norm_field f.
Proof.
  unfold nonempty_field. rewrite andb_true_iff. intros [Hi Hd]. split; [exact Hi|].
  intros t r H. cbn in *. unfold apply_field in *. cbn [norm_field fd_doc].
  apply bind_ok in H. destruct H as (doc & Edoc & [= <-]). rewrite (doc_apply_norm _ _ _ Hd Edoc). reflexivity.
Qed.

Lemma forallb_Forall' {A} (p : A -> bool) (P : A -> Prop) l :
  (forall x, p x = true -> P x) -> forallb p l = true -> Forall P l.
Proof. intros H Hl. rewrite forallb_forall in Hl. apply Forall_forall. intros x Hx. apply H. apply Hl. exact Hx. Qed.

Lemma norm_ok_meth n tns m : nonempty_meth m = true -> norm_ok (Lmeth n tns) norm_meth m.
Proof.
  unfold nonempty_meth. rewrite !andb_true_iff. intros [[Hi Hd] Hps]. split; [exact Hi|].
  intros t r H. cbn in *. unfold apply_meth in *. cbn [norm_meth md_doc md_params].
  apply bind_ok in H. destruct H as (doc & Edoc & H). apply bind_ok in H. destruct H as (ps & Eps & [= <-]).
  rewrite (doc_apply_norm _ _ _ Hd Edoc). cbn [bind].
  change (apply_params n tns) with (apply_map_L (Lparam n tns)) in *.
  rewrite (apply_map_norm (Lparam n tns) norm_param (fun _ => eq_refl) (fun _ => eq_refl) (chg_same_param n tns) _ _ _
             (forallb_Forall' _ _ _ (norm_ok_param n tns) Hps) Eps).
  reflexivity.
Qed.

Lemma norm_ok_class n tns c : nonempty_class c = true -> norm_ok (Lclass n tns) norm_class c.
Proof.
  unfold nonempty_class. rewrite !andb_true_iff. intros [[[Hi Hd] Hfs] Hms]. split; [exact Hi|].
  intros t r H. cbn in *. unfold apply_class in *. cbn [norm_class cd_doc cd_fields cd_methods].
  apply bind_ok in H. destruct H as (doc & Edoc & H). apply bind_ok in H. destruct H as (fs & Efs & H).
  apply bind_ok in H. destruct H as (ms & Ems & [= <-]).
  rewrite (doc_apply_norm _ _ _ Hd Edoc). cbn [bind].
  change (apply_fields n tns) with (apply_map_L (Lfield n tns)) in *.
  change (apply_meths n tns) with (apply_map_L (Lmeth n tns)) in *.
  rewrite (apply_map_norm (Lfield n tns) norm_field (fun _ => eq_refl) (fun _ => eq_refl) (chg_same_field n tns) _ _ _
             (forallb_Forall' _ _ _ (norm_ok_field n tns) Hfs) Efs). cbn [bind].
  rewrite (apply_map_norm (Lmeth n tns) norm_meth (fun _ => eq_refl) (fun _ => eq_refl) (chg_same_meth n tns) _ _ _
             (forallb_Forall' _ _ _ (norm_ok_meth n tns) Hms) Ems).
  reflexivity.
Qed.

(* whenever applying d succeeds, applying what the text form carries of d gives the same result *)
Theorem apply_norm d t nsname r :
  nonempty_diff d = true -> apply_to d t nsname = Ok r -> apply_to (norm d) t nsname = Ok r.
Proof.
  unfold nonempty_diff. rewrite andb_true_iff. intros [Hnd Hn] H.
  unfold apply_to in *. destruct (index_of nsname (ms_ns t)) as [tns|]; [|discriminate].
  unfold apply_at in *. cbv zeta in *. cbn [norm d_info d_doc d_classes].
  apply bind_ok in H. destruct H as (ns' & Ens & H). apply bind_ok in H. destruct H as (doc & Edoc & H).
  apply bind_ok in H. destruct H as (cs & Ecs & [= <-]).
  rewrite Ens. cbn [bind]. rewrite (doc_apply_norm _ _ _ Hnd Edoc). cbn [bind].
  change (apply_classes (length (ms_ns t)) tns) with (apply_map_L (Lclass (length (ms_ns t)) tns)) in *.
  rewrite (apply_map_norm (Lclass (length (ms_ns t)) tns) norm_class (fun _ => eq_refl) (fun _ => eq_refl) (chg_same_class _ tns) _ _ _
             (forallb_Forall' _ _ _ (norm_ok_class _ tns) Hn) Ecs).
  reflexivity.
Qed.

(* ------------------------------------------------------------------ *)
(* the inverse law through the text form *)

Definition text_inverse_law (A B : mappings) : Prop :=
  exists d d' r, diff A B = Ok d /\ read (print d) = Ok d'
                 /\ apply_to d' A (nth 1 (ms_ns A) []) = Ok r /\ mequiv r B.

Theorem text_inverse_of_diff A B d :
  inverse_hyps A B -> f3_class A B = false ->
  diff A B = Ok d -> textual_diff d = true -> nonempty_diff d = true ->
  text_inverse_law A B.
Proof.
  intros Hh Hf Hd Ht Hn. destruct (diff_apply_partial A B Hh Hf) as (d0 & r & Hd0 & Hr & He).
  rewrite Hd in Hd0. injection Hd0 as <-.
  exists d, (norm d), r. split; [exact Hd|]. split; [apply read_print; exact Ht|]. split; [|exact He].
  apply apply_norm; assumption.
Qed.
