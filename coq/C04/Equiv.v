(* C04 theory: the Prop-level equality of mapping trees up to the order of every map ([mequiv],
   lookup-based, Theory2.v) is DECIDED by the boolean Quill.Mappings.equivb (equal sorted canonical
   forms) on well-formed trees.  The bridge goes through C03's permutation-based [mappings_equiv]
   and its theorems canon_equiv / canon_is_equiv (coq/C03/Theory6.v). *)
From FB Require Export C04.Theory2.
From FB Require C03.Theory6.
From Coq Require Import Permutation.

Module T6 := FB.C03.Theory6.

(* ------------------------------------------------------------------ *)
(* the boolean equalities of Quill.Mappings are equalities *)

Lemma list_eqb_eq {A} (eqb : A -> A -> bool) (H : forall a b, eqb a b = true <-> a = b) (l l' : list A) :
  list_eqb eqb l l' = true <-> l = l'.
Proof.
  revert l'. induction l as [|x l IH]; intros [|y l']; cbn [list_eqb]; try (split; congruence).
  rewrite andb_true_iff, H, IH. split; [intros [-> ->]; reflexivity|intros [= -> ->]; auto].
Qed.

Lemma names_eqb_eq (a b : names) : names_eqb a b = true <-> a = b.
Proof. apply list_eqb_eq. exact opt_str_eqb_eq. Qed.

Lemma doc_eqb_eq (a b : option str) : doc_eqb a b = true <-> a = b.
Proof. apply opt_str_eqb_eq. Qed.

Lemma param_eqb_eq (a b : param) : param_eqb a b = true <-> a = b.
Proof.
  destruct a as [i n d], b as [i' n' d']. unfold param_eqb. cbn [p_index p_names p_doc].
  rewrite !andb_true_iff, N.eqb_eq, names_eqb_eq, doc_eqb_eq.
  split; [intros [[-> ->] ->]; reflexivity|intros [= -> -> ->]; auto].
Qed.

Lemma field_eqb_eq (a b : field) : field_eqb a b = true <-> a = b.
Proof.
  destruct a as [i n d], b as [i' n' d']. unfold field_eqb. cbn [f_desc f_names f_doc].
  rewrite !andb_true_iff, str_eqb_eq, names_eqb_eq, doc_eqb_eq.
  split; [intros [[-> ->] ->]; reflexivity|intros [= -> -> ->]; auto].
Qed.

Lemma meth_eqb_eq (a b : meth) : meth_eqb a b = true <-> a = b.
Proof.
  destruct a as [i n d p], b as [i' n' d' p']. unfold meth_eqb. cbn [m_desc m_names m_doc m_params].
  rewrite !andb_true_iff, str_eqb_eq, names_eqb_eq, doc_eqb_eq, (list_eqb_eq _ param_eqb_eq).
  split; [intros [[[-> ->] ->] ->]; reflexivity|intros [= -> -> -> ->]; auto].
Qed.

Lemma class_eqb_eq (a b : class) : class_eqb a b = true <-> a = b.
Proof.
  destruct a as [n d f m], b as [n' d' f' m']. unfold class_eqb. cbn [c_names c_doc c_fields c_methods].
  rewrite !andb_true_iff, names_eqb_eq, doc_eqb_eq, (list_eqb_eq _ field_eqb_eq), (list_eqb_eq _ meth_eqb_eq).
  split; [intros [[[-> ->] ->] ->]; reflexivity|intros [= -> -> -> ->]; auto].
Qed.

Lemma mappings_eqb_eq (a b : mappings) : mappings_eqb a b = true <-> a = b.
Proof.
  destruct a as [n d c], b as [n' d' c']. unfold mappings_eqb. cbn [ms_ns ms_doc ms_classes].
  rewrite !andb_true_iff, list_str_eqb_eq, doc_eqb_eq, (list_eqb_eq _ class_eqb_eq).
  split; [intros [[-> ->] ->]; reflexivity|intros [= -> -> ->]; auto].
Qed.

Theorem equivb_canon (A B : mappings) : equivb A B = true <-> canon A = canon B.
Proof. apply mappings_eqb_eq. Qed.

(* ------------------------------------------------------------------ *)
(* opt_rel *)

Lemma opt_rel_impl {A} (R R' : A -> A -> Prop) (a b : option A) :
  (forall x y, R x y -> R' x y) -> opt_rel R a b -> opt_rel R' a b.
Proof. intros H. destruct a, b; cbn [opt_rel]; auto. Qed.

Lemma opt_rel_sym {A} (R : A -> A -> Prop) (a b : option A) :
  (forall x y, R x y -> R y x) -> opt_rel R a b -> opt_rel R b a.
Proof. intros H. destruct a, b; cbn [opt_rel]; auto. Qed.

Lemma opt_rel_trans {A} (R : A -> A -> Prop) (a b c : option A) :
  (forall x y z, R x y -> R y z -> R x z) -> opt_rel R a b -> opt_rel R b c -> opt_rel R a c.
Proof. intros H. destruct a, b, c; cbn [opt_rel]; try tauto. apply H. Qed.

(* ------------------------------------------------------------------ *)
(* permutation-based equivalence  ->  lookup-based equivalence *)

Lemma Forall2_lookup {K T} keqb (key : T -> K) (R : T -> T -> Prop) l l' :
  (forall x y, R x y -> key x = key y) -> Forall2 R l l' ->
  map key l = map key l' /\ forall k, opt_rel R (find_key keqb key k l) (find_key keqb key k l').
Proof.
  intros HR HF. induction HF as [|x y l l' Hxy _ [IH1 IH2]].
  - split; [reflexivity|intros k; exact I].
  - split; [cbn [map]; rewrite (HR x y Hxy), IH1; reflexivity|].
    intros k. cbn [find_key]. rewrite <- (HR x y Hxy).
    destruct (keqb k (key x)); [exact Hxy|apply IH2].
Qed.

Lemma perm_upto_lookup {K T} keqb (HK : keqb_ok keqb) (key : T -> K) (R : T -> T -> Prop) l l' :
  (forall x y, R x y -> key x = key y) -> NoDup (map key l) -> T6.perm_upto R l l' ->
  NoDup (map key l') /\ forall k, opt_rel R (find_key keqb key k l) (find_key keqb key k l').
Proof.
  intros HR Hnd (l2 & Hp & HF).
  destruct (Forall2_lookup keqb key R l2 l' HR HF) as [E1 E2].
  assert (Hnd2 : NoDup (map key l2)) by (eapply Permutation_NoDup; [apply Permutation_map; exact Hp|exact Hnd]).
  split; [rewrite <- E1; exact Hnd2|].
  intros k. rewrite (find_key_perm keqb HK key l l2 k Hnd Hp). apply E2.
Qed.

Lemma perm_lookup {K T} keqb (HK : keqb_ok keqb) (key : T -> K) l l' :
  NoDup (map key l) -> Permutation l l' ->
  NoDup (map key l') /\ forall k, find_key keqb key k l = find_key keqb key k l'.
Proof.
  intros Hnd Hp. split.
  - eapply Permutation_NoDup; [apply Permutation_map; exact Hp|exact Hnd].
  - intros k. apply find_key_perm; assumption.
Qed.

Lemma perm_upto_strengthen {A} (P : A -> Prop) (R : A -> A -> Prop) l l' :
  Forall P l -> T6.perm_upto R l l' -> T6.perm_upto (fun x y => P x /\ R x y) l l'.
Proof.
  intros HP (l2 & Hp & HF). exists l2. split; [exact Hp|].
  assert (HP2 : Forall P l2).
  { rewrite Forall_forall in *. intros x Hx. apply HP. eapply Permutation_in; [symmetry; exact Hp|exact Hx]. }
  clear Hp HP. induction HF as [|x y l2 l' Hxy _ IH]; [constructor|].
  inversion HP2 as [|? ? Px HP2']; subst. constructor; [split; assumption|apply IH; exact HP2'].
Qed.

Lemma perm_upto_impl {A} (R R' : A -> A -> Prop) l l' :
  (forall x y, R x y -> R' x y) -> T6.perm_upto R l l' -> T6.perm_upto R' l l'.
Proof.
  intros H (l2 & Hp & HF). exists l2. split; [exact Hp|]. clear Hp.
  induction HF as [|x y l2 l' Hxy _ IH]; [constructor|]. constructor; [apply H; exact Hxy|exact IH].
Qed.

Lemma meth_perm_eqv (m m' : meth) :
  NoDup (map pkey (m_params m)) -> T6.meth_equiv m m' -> meth_eqv m m'.
Proof.
  intros Hnd (Hd & Hn & Hdoc & Hp). unfold meth_eqv, params_eqv.
  destruct (perm_lookup N.eqb N_eqb_ok pkey _ _ Hnd Hp) as [Hnd' Hl]. auto 10.
Qed.

Lemma meth_equiv_key (x y : meth) : T6.meth_equiv x y -> mkey x = mkey y.
Proof. intros (Hd & Hn & _). unfold mkey. rewrite Hd, Hn. reflexivity. Qed.

Lemma class_perm_eqv n (c c' : class) :
  wf_class n c = true -> T6.class_equiv c c' -> class_eqv c c'.
Proof.
  intros Hwf (Hn & Hdoc & Hpf & Hpm).
  destruct (wf_class_nodup n c Hwf) as (Hndf & Hndm & Hwm & _).
  unfold class_eqv. split; [exact Hn|]. split; [exact Hdoc|]. split.
  - unfold fields_eqv. destruct (perm_lookup key2_eqb key2_eqb_ok fkey _ _ Hndf Hpf) as [Hnd' Hl]. auto.
  - unfold meths_eqv.
    pose proof (perm_upto_strengthen (fun m => wf_meth n m = true) _ _ _ Hwm Hpm) as Hpm'.
    destruct (perm_upto_lookup key2_eqb key2_eqb_ok mkey _ _ _
                (fun x y (H : wf_meth n x = true /\ T6.meth_equiv x y) => meth_equiv_key x y (proj2 H)) Hndm Hpm') as [Hnd' Hl].
    split; [exact Hndm|]. split; [exact Hnd'|].
    intros k. unfold mfind. eapply opt_rel_impl; [|apply Hl].
    intros x y [Hw He]. apply meth_perm_eqv; [|exact He]. exact (wf_meth_nodup n x Hw).
Qed.

Lemma class_equiv_key (x y : class) : T6.class_equiv x y -> ckey x = ckey y.
Proof. intros (Hn & _). unfold ckey. rewrite Hn. reflexivity. Qed.

Theorem perm_mequiv (M M' : mappings) : wf M = true -> T6.mappings_equiv M M' -> mequiv M M'.
Proof.
  intros Hwf (Hns & Hdoc & Hp). destruct (wf_nodup M Hwf) as (Hnd & Hwc & _).
  unfold mequiv. split; [exact Hns|]. split; [exact Hdoc|]. unfold classes_eqv.
  pose proof (perm_upto_strengthen (fun c => wf_class (length (ms_ns M)) c = true) _ _ _ Hwc Hp) as Hp'.
  destruct (perm_upto_lookup str_eqb str_eqb_ok ckey _ _ _
              (fun x y (H : wf_class (length (ms_ns M)) x = true /\ T6.class_equiv x y) => class_equiv_key x y (proj2 H)) Hnd Hp') as [Hnd' Hl].
  split; [exact Hnd|]. split; [exact Hnd'|].
  intros k. unfold cfind. eapply opt_rel_impl; [|apply Hl].
  intros x y [Hw He]. exact (class_perm_eqv _ x y Hw He).
Qed.

(* ------------------------------------------------------------------ *)
(* lookup-based equivalence  ->  permutation-based equivalence *)

Lemma lookup_perm_upto {K T} keqb (HK : keqb_ok keqb) (key : T -> K) (R : T -> T -> Prop) l' : forall l,
  NoDup (map key l) -> NoDup (map key l') ->
  (forall k, opt_rel R (find_key keqb key k l) (find_key keqb key k l')) ->
  T6.perm_upto R l l'.
Proof.
  induction l' as [|y l' IH]; intros l Hnd Hnd' H.
  - destruct l as [|x l]; [exists []; split; constructor|].
    specialize (H (key x)). cbn [find_key] in H. rewrite keqb_refl in H by exact HK. cbn [opt_rel] in H. contradiction.
  - cbn [map] in Hnd'. inversion Hnd' as [|? ? Hny Hnd'']; subst.
    pose proof (H (key y)) as Hy. cbn [find_key] in Hy. rewrite keqb_refl in Hy by exact HK.
    destruct (find_key keqb key (key y) l) as [x|] eqn:Ex; cbn [opt_rel] in Hy; [|contradiction].
    destruct (find_key_some keqb HK key _ _ _ Ex) as [Hin Hk].
    destruct (in_split x l Hin) as (l1 & l3 & El).
    assert (Hp : Permutation l (x :: l1 ++ l3)) by (rewrite El; symmetry; apply Permutation_middle).
    assert (Hnd2 : NoDup (map key (x :: l1 ++ l3))) by (eapply Permutation_NoDup; [apply Permutation_map; exact Hp|exact Hnd]).
    cbn [map] in Hnd2. inversion Hnd2 as [|? ? Hnx Hnd0]; subst.
    destruct (IH (l1 ++ l3) Hnd0 Hnd'') as (l2 & Hp2 & HF2).
    + intros k. destruct (keqb_dec keqb HK k (key y)) as [->|Hne].
      * assert (E1 : find_key keqb key (key y) (l1 ++ l3) = None) by (apply find_key_none; [exact HK|rewrite <- Hk; exact Hnx]).
        assert (E2 : find_key keqb key (key y) l' = None) by (apply find_key_none; [exact HK|exact Hny]).
        rewrite E1, E2. exact I.
      * specialize (H k). rewrite (find_key_perm keqb HK key _ _ k Hnd Hp) in H.
        cbn [find_key] in H. rewrite Hk in H. rewrite (keqb_neq keqb HK k (key y) Hne) in H. exact H.
    + exists (x :: l2). split; [rewrite Hp; constructor; exact Hp2|constructor; assumption].
Qed.

Lemma Forall2_eq {A} (l l' : list A) : Forall2 eq l l' -> l = l'.
Proof. induction 1; [reflexivity|subst; reflexivity]. Qed.

Lemma lookup_perm {K T} keqb (HK : keqb_ok keqb) (key : T -> K) l l' :
  NoDup (map key l) -> NoDup (map key l') ->
  (forall k, find_key keqb key k l = find_key keqb key k l') -> Permutation l l'.
Proof.
  intros Hnd Hnd' H.
  destruct (lookup_perm_upto keqb HK key eq l' l Hnd Hnd') as (l2 & Hp & HF).
  - intros k. apply opt_rel_eq. apply H.
  - apply Forall2_eq in HF. subst. exact Hp.
Qed.

Lemma meth_eqv_perm (m m' : meth) : meth_eqv m m' -> T6.meth_equiv m m'.
Proof.
  intros (Hd & Hn & Hdoc & Hnd & Hnd' & Hl). unfold T6.meth_equiv. repeat split; auto.
  exact (lookup_perm N.eqb N_eqb_ok pkey _ _ Hnd Hnd' Hl).
Qed.

Lemma class_eqv_perm (c c' : class) : class_eqv c c' -> T6.class_equiv c c'.
Proof.
  intros (Hn & Hdoc & (Hf1 & Hf2 & Hf3) & (Hm1 & Hm2 & Hm3)). unfold T6.class_equiv.
  split; [exact Hn|]. split; [exact Hdoc|]. split.
  - exact (lookup_perm key2_eqb key2_eqb_ok fkey _ _ Hf1 Hf2 Hf3).
  - eapply perm_upto_impl; [exact meth_eqv_perm|].
    exact (lookup_perm_upto key2_eqb key2_eqb_ok mkey meth_eqv _ _ Hm1 Hm2 Hm3).
Qed.

Theorem mequiv_perm (M M' : mappings) : mequiv M M' -> T6.mappings_equiv M M'.
Proof.
  intros (Hns & Hdoc & (H1 & H2 & H3)). unfold T6.mappings_equiv.
  split; [exact Hns|]. split; [exact Hdoc|].
  eapply perm_upto_impl; [exact class_eqv_perm|].
  exact (lookup_perm_upto str_eqb str_eqb_ok ckey class_eqv _ _ H1 H2 H3).
Qed.

(* ------------------------------------------------------------------ *)
(* mequiv is an equivalence relation (on trees with distinct keys; NoDup is part of it) *)

Lemma params_eqv_sym a b : params_eqv a b -> params_eqv b a.
Proof. intros (H1 & H2 & H3). repeat split; auto. Qed.
Lemma params_eqv_trans a b c : params_eqv a b -> params_eqv b c -> params_eqv a c.
Proof. intros (H1 & H2 & H3) (G1 & G2 & G3). repeat split; auto. intros k. rewrite H3. apply G3. Qed.
Lemma fields_eqv_sym a b : fields_eqv a b -> fields_eqv b a.
Proof. intros (H1 & H2 & H3). repeat split; auto. Qed.
Lemma fields_eqv_trans a b c : fields_eqv a b -> fields_eqv b c -> fields_eqv a c.
Proof. intros (H1 & H2 & H3) (G1 & G2 & G3). repeat split; auto. intros k. rewrite H3. apply G3. Qed.

Lemma meth_eqv_sym a b : meth_eqv a b -> meth_eqv b a.
Proof. intros (H1 & H2 & H3 & H4). repeat split; auto; apply params_eqv_sym in H4; apply H4. Qed.
Lemma meth_eqv_trans a b c : meth_eqv a b -> meth_eqv b c -> meth_eqv a c.
Proof.
  intros (H1 & H2 & H3 & H4) (G1 & G2 & G3 & G4).
  split; [congruence|]. split; [congruence|]. split; [congruence|]. exact (params_eqv_trans _ _ _ H4 G4).
Qed.

Lemma meths_eqv_sym a b : meths_eqv a b -> meths_eqv b a.
Proof.
  intros (H1 & H2 & H3). split; [exact H2|]. split; [exact H1|].
  intros k. apply opt_rel_sym; [exact meth_eqv_sym|apply H3].
Qed.
Lemma meths_eqv_trans a b c : meths_eqv a b -> meths_eqv b c -> meths_eqv a c.
Proof.
  intros (H1 & H2 & H3) (G1 & G2 & G3). split; [exact H1|]. split; [exact G2|].
  intros k. eapply opt_rel_trans; [exact meth_eqv_trans|apply H3|apply G3].
Qed.

Lemma class_eqv_sym a b : class_eqv a b -> class_eqv b a.
Proof.
  intros (H1 & H2 & H3 & H4). split; [congruence|]. split; [congruence|].
  split; [apply fields_eqv_sym; exact H3|apply meths_eqv_sym; exact H4].
Qed.
Lemma class_eqv_trans a b c : class_eqv a b -> class_eqv b c -> class_eqv a c.
Proof.
  intros (H1 & H2 & H3 & H4) (G1 & G2 & G3 & G4). split; [congruence|]. split; [congruence|].
  split; [exact (fields_eqv_trans _ _ _ H3 G3)|exact (meths_eqv_trans _ _ _ H4 G4)].
Qed.

Theorem mequiv_sym A B : mequiv A B -> mequiv B A.
Proof.
  intros (H1 & H2 & (H3 & H4 & H5)). split; [congruence|]. split; [congruence|].
  split; [exact H4|]. split; [exact H3|].
  intros k. apply opt_rel_sym; [exact class_eqv_sym|apply H5].
Qed.

Theorem mequiv_trans A B C : mequiv A B -> mequiv B C -> mequiv A C.
Proof.
  intros (H1 & H2 & (H3 & H4 & H5)) (G1 & G2 & (G3 & G4 & G5)). split; [congruence|]. split; [congruence|].
  split; [exact H3|]. split; [exact G4|].
  intros k. eapply opt_rel_trans; [exact class_eqv_trans|apply H5|apply G5].
Qed.

Theorem mequiv_refl A : wf A = true -> mequiv A A.
Proof.
  intros Hwf. apply perm_mequiv; [exact Hwf|].
  unfold T6.mappings_equiv. split; [reflexivity|]. split; [reflexivity|].
  exists (ms_classes A). split; [reflexivity|].
  induction (ms_classes A) as [|c l IH]; constructor; [|exact IH].
  unfold T6.class_equiv. repeat split; try reflexivity.
  exists (c_methods c). split; [reflexivity|].
  induction (c_methods c) as [|m l' IH']; constructor; [|exact IH'].
  unfold T6.meth_equiv. repeat split; reflexivity.
Qed.

(* ------------------------------------------------------------------ *)
(* equivb decides mequiv *)

(* one well-formed side suffices for this direction *)
Theorem mequiv_equivb A B : wf A = true \/ wf B = true -> mequiv A B -> equivb A B = true.
Proof.
  intros [Hwf|Hwf] He; apply equivb_canon.
  - exact (T6.canon_equiv A B Hwf (mequiv_perm A B He)).
  - symmetry. exact (T6.canon_equiv B A Hwf (mequiv_perm B A (mequiv_sym A B He))).
Qed.

Theorem canon_mequiv A : wf A = true -> mequiv A (canon A).
Proof. intros Hwf. exact (perm_mequiv A (canon A) Hwf (T6.canon_is_equiv A)). Qed.

Theorem equivb_mequiv A B : wf A = true -> wf B = true -> equivb A B = true -> mequiv A B.
Proof.
  intros HA HB E. apply equivb_canon in E.
  pose proof (canon_mequiv A HA) as H1. pose proof (canon_mequiv B HB) as H2.
  rewrite <- E in H2. exact (mequiv_trans _ _ _ H1 (mequiv_sym _ _ H2)).
Qed.

Theorem equivb_iff_mequiv A B : wf A = true -> wf B = true -> (equivb A B = true <-> mequiv A B).
Proof.
  intros HA HB. split; [apply equivb_mequiv; assumption|apply mequiv_equivb; left; exact HA].
Qed.
