(* C09 — round 7: the row / header API of tree/mod.rs (ModelNames.v): specification of the editing API
   (Namespace::new + Names::change_name, Namespaces::change_names), of the constructors, and the tie to
   merge: the edit keeps the key, so an empty name put in through it is always refused by merge. *)
From Coq Require Import PeanoNat Arith.
From FB Require Import C09.Model C09.ModelNames C09.Theory C09.Theory11.

Lemma ostr_eqb_eq (a b : option str) : opt_eqb str_eqb a b = true <-> a = b.
Proof. exact (opt_eqb_ok str_eqb str_eqb_ok a b). Qed.

Lemma set_nth_length {A} (i : nat) (v : A) l : length (set_nth i v l) = length l.
Proof. revert i; induction l as [|x l IH]; intros [|i]; cbn [set_nth length]; try reflexivity. now rewrite IH. Qed.

Lemma nth_set_nth_same {A} (i : nat) (v d : A) l : (i < length l)%nat -> nth i (set_nth i v l) d = v.
Proof.
  revert i; induction l as [|x l IH]; intros [|i] H; cbn [length] in H; try lia; cbn [set_nth nth]; [reflexivity|].
  apply IH. lia.
Qed.

Lemma nth_set_nth_other {A} (i j : nat) (v d : A) l : j <> i -> nth j (set_nth i v l) d = nth j l d.
Proof.
  revert i j; induction l as [|x l IH]; intros [|i] [|j] H; cbn [set_nth nth]; try reflexivity; try congruence.
  apply IH. congruence.
Qed.

(* the row afterwards is determined by its cells *)
Lemma set_nth_unique {A} (i : nat) (v d : A) l l' :
  (i < length l)%nat -> length l' = length l -> nth i l' d = v -> (forall j, j <> i -> nth j l' d = nth j l d) ->
  l' = set_nth i v l.
Proof.
  intros Hi Hlen Hv Ho. apply nth_ext with (d := d) (d' := d).
  - now rewrite set_nth_length.
  - intros n _. destruct (Nat.eq_dec n i) as [->|Hn].
    + now rewrite nth_set_nth_same.
    + rewrite nth_set_nth_other by exact Hn. now apply Ho.
Qed.

Theorem change_name_spec l id from to old l' :
  change_name_at l id from to = Ok (old, l') <->
  (0 < id < length l)%nat /\ nth_name l id = from /\ old = from /\ length l' = length l
  /\ nth_name l' id = to /\ (forall j, j <> id -> nth_name l' j = nth_name l j).
Proof.
  unfold change_name_at, namespace_new. destruct (Nat.ltb_spec id (length l)) as [Hlt|Hge]; cbn [bind].
  - destruct id as [|id]; cbn [change_name].
    + split; [discriminate|]. intros [[H _] _]. lia.
    + destruct (opt_eqb str_eqb (nth_name l (S id)) from) eqn:E.
      * apply ostr_eqb_eq in E. split.
        -- intros H. injection H as <- <-. unfold nth_name. repeat split; try lia; try assumption.
           ++ exact (set_nth_length (S id) to l).
           ++ exact (nth_set_nth_same (S id) to None l Hlt).
           ++ intros j Hj. exact (nth_set_nth_other (S id) j to None l Hj).
        -- intros (_ & _ & -> & Hlen & Hto & Ho). unfold nth_name in *.
           rewrite E. f_equal. f_equal. symmetry. exact (set_nth_unique (S id) to None l l' Hlt Hlen Hto Ho).
      * split; [discriminate|]. intros (_ & Hf & _). apply ostr_eqb_eq in Hf. congruence.
  - split; [discriminate|]. intros [[_ H] _]. lia.
Qed.

(* an edit never touches the first cell: the key of the node stays the key under which it is stored *)
Lemma change_name_first l id from to old l' :
  change_name_at l id from to = Ok (old, l') -> first_name l' = first_name l.
Proof.
  intros H. apply change_name_spec in H. destruct H as ([H0 Hl] & _ & _ & Hlen & _ & Ho).
  specialize (Ho 0%nat ltac:(lia)). unfold nth_name in Ho.
  destruct l as [|x l]; [cbn in Hl; lia|]. destruct l' as [|y l']; [cbn in Hlen; lia|].
  cbn [nth] in Ho. subst y. reflexivity.
Qed.

(* ---------- the tie to merge ---------- *)
Lemma existsb_app_mid {A} (f : A -> bool) l1 x l2 : f x = true -> existsb f (l1 ++ x :: l2) = true.
Proof. intros H. rewrite existsb_app. cbn [existsb]. rewrite H. now rewrite orb_true_r. Qed.

Lemma merge_err_comm_raw A B : keys_unique A = true -> keys_unique B = true ->
  has_empty_name A = true -> merge A B = Err /\ merge B A = Err.
Proof.
  intros HA HB He. split; apply merge_rejects_empty_name; try assumption; rewrite He; [reflexivity|apply orb_true_r].
Qed.

Theorem change_name_empty_refused A B cs1 c cs2 from old l' :
  ms_classes A = cs1 ++ c :: cs2 -> keys_unique A = true -> keys_unique B = true ->
  change_name_at (c_names c) 1 from (Some []) = Ok (old, l') ->
  let A' := with_class_row A cs1 c cs2 l' in
  map class_key (ms_classes A') = map class_key (ms_classes A)
  /\ keys_unique A' = true
  /\ merge A' B = Err /\ merge B A' = Err.
Proof.
  intros Hcs HA HB Hch. cbv zeta.
  pose proof (change_name_first _ _ _ _ _ _ Hch) as Hfirst.
  assert (Hkeys : map class_key (ms_classes (with_class_row A cs1 c cs2 l')) = map class_key (ms_classes A)).
  { unfold with_class_row. cbn [ms_classes]. rewrite Hcs, !map_app. cbn [map]. unfold class_key at 2 4. cbn [c_names].
    now rewrite Hfirst. }
  assert (Hu : keys_unique (with_class_row A cs1 c cs2 l') = true).
  { unfold keys_unique in *. rewrite Hkeys. rewrite andb_true_iff in HA |- *. destruct HA as [Hd Hall]. split; [exact Hd|].
    unfold with_class_row. cbn [ms_classes]. rewrite Hcs in Hall. rewrite forallb_app in Hall |- *.
    rewrite andb_true_iff in Hall |- *. destruct Hall as [H1 H2]. split; [exact H1|].
    cbn [forallb] in H2 |- *. exact H2. }
  split; [exact Hkeys|]. split; [exact Hu|].
  apply merge_err_comm_raw; try assumption.
  unfold has_empty_name, with_class_row. cbn [ms_classes]. apply existsb_app_mid.
  unfold bad_class. cbn [c_names]. apply change_name_spec in Hch. destruct Hch as (_ & _ & _ & _ & Hto & _).
  unfold bad_row. now rewrite Hto.
Qed.

(* ---------- constructors and header edit ---------- *)
Lemma names_of_strs_ok l : forallb (fun o : option str => match o with Some [] => false | _ => true end) (names_of_strs l) = true.
Proof. induction l as [|[|x s] l IH]; cbn [names_of_strs map forallb]; [reflexivity|exact IH|exact IH]. Qed.

Lemma forallb_nonempty_iff (l : list str) : forallb nonempty l = true <-> ~ In [] l.
Proof.
  induction l as [|[|x s] l IH]; cbn [forallb nonempty In andb].
  - tauto.
  - split; [discriminate|]. intros H. exfalso. apply H. now left.
  - rewrite IH. split; [intros H [H'|H']; [discriminate|tauto]|tauto].
Qed.

Theorem constructors_spec :
  (forall l, names_from (names_of_strs l) = Ok (names_of_strs l)
             /\ length (names_of_strs l) = length l
             /\ (forall i, nth_name (names_of_strs l) i = match nth i l [] with [] => None | s => Some s end))
  /\ (forall l l', names_from l = Ok l' <-> l' = l /\ names_ok (length l) l = true)
  /\ (forall l l', namespaces_from l = Ok l' <-> l' = l /\ ~ In [] l)
  /\ (forall ns from to r, change_names ns from to = Ok r <-> ns = from /\ r = to).
Proof.
  split; [|split; [|split]].
  - intros l. split; [|split].
    + unfold names_from. now rewrite names_of_strs_ok.
    + apply map_length.
    + intros i. unfold nth_name, names_of_strs. revert i. induction l as [|s l IH]; intros [|i]; cbn [map nth]; try reflexivity.
      * now destruct s.
      * apply IH.
  - intros l l'. unfold names_from, names_ok. rewrite Nat.eqb_refl. cbn [andb].
    match goal with |- context [forallb ?f l] => destruct (forallb f l) end; split.
    + intros H. injection H as <-. now split.
    + intros [-> _]. reflexivity.
    + discriminate.
    + intros [_ H]. discriminate.
  - intros l l'. unfold namespaces_from. rewrite <- forallb_nonempty_iff.
    destruct (forallb nonempty l); split.
    + intros H. injection H as <-. now split.
    + intros [-> _]. reflexivity.
    + discriminate.
    + intros [_ H]. discriminate.
  - intros ns from to r. unfold change_names.
    destruct (list_eqb str_eqb ns from) eqn:E.
    + assert (ns = from) as ->.
      { revert from E. induction ns as [|x ns IH]; intros [|y from] E; cbn [list_eqb] in E; try discriminate; [reflexivity|].
        apply andb_true_iff in E. destruct E as [E1 E2]. apply str_eqb_eq in E1. subst y. f_equal. now apply IH. }
      split; [intros H; injection H as <-; now split|intros [_ ->]; reflexivity].
    + split; [discriminate|]. intros [-> _].
      assert (list_eqb str_eqb from from = true) as E'.
      { clear. induction from as [|x l IH]; cbn [list_eqb]; [reflexivity|]. now rewrite str_eqb_refl, IH. }
      congruence.
Qed.

(* ---------- non-vacuity ---------- *)
Definition names_api_example : Prop :=
  let row := [Some [97]; Some [98]] in
  change_name_at row 1 (Some [98]) (Some []) = Ok (Some [98], [Some [97]; Some []])
  /\ change_name_at row 0 (Some [97]) (Some [99]) = Err
  /\ change_name_at row 2 None (Some [99]) = Err
  /\ change_name_at row 1 (Some [99]) None = Err
  /\ change_name_at [Some [97]; None; Some [98]] 2 (Some [98]) None = Ok (Some [98], [Some [97]; None; None])
  /\ names_from [Some [97]; Some []] = Err
  /\ names_of_strs [[97]; []] = [Some [97]; None]
  /\ namespaces_from [[97]; []] = Err /\ namespaces_from [[97]; [98]] = Ok [[97]; [98]]
  /\ change_names [[97]; [98]] [[97]; [98]] [[97]; []] = Ok [[97]; []]
  /\ change_names [[97]; [98]] [[98]; [97]] [[97]; [99]] = Err
  /\ (let A := mkMappings [[115]; [97]] None [mkClass [Some [67]; Some [68]] None [] []] in
      let B := mkMappings [[115]; [98]] None [mkClass [Some [67]; Some [69]] None [] []] in
      keys_unique A = true /\ keys_unique B = true
      /\ merge A B = Ok (mkMappings [[115]; [97]; [98]] None [mkClass [Some [67]; Some [68]; Some [69]] None [] []])
      /\ merge (with_class_row A [] (mkClass [Some [67]; Some [68]] None [] []) [] [Some [67]; Some []]) B = Err).
Lemma names_api_example_holds : names_api_example.
Proof. unfold names_api_example. cbv zeta. repeat split; vm_compute; reflexivity. Qed.
