(* C09 — the whole set: structure of a successful merge, lookups along key paths,
   and the theorems merge_keys / merge_columns / merge_wf. *)
From FB Require Import C09.Model C09.Theory C09.Theory2.
From Coq Require Import Lia PeanoNat.

Lemma wf2_shape M : wf2 M = true ->
  exists s a, ms_ns M = [s; a] /\ nonempty s = true /\ nonempty a = true
              /\ Forall Pclass (ms_classes M) /\ NoDup (map class_key (ms_classes M)).
Proof.
  unfold wf2, wf. rewrite !andb_true_iff. intros [[[[_ Hns] Hc] Hd] Hl]. apply Nat.eqb_eq in Hl.
  destruct (ms_ns M) as [|s [|a [|? ?]]] eqn:E; try discriminate.
  cbn [forallb] in Hns. rewrite !andb_true_iff, !negb_true_iff in Hns. destruct Hns as (Hs & Ha & _).
  exists s, a. split; [reflexivity|].
  split; [destruct s; [discriminate|reflexivity]|]. split; [destruct a; [discriminate|reflexivity]|].
  split.
  - apply Forall_forall. apply forallb_forall. exact Hc.
  - apply (nodupb_NoDup ckeqb ckeqb_ok). exact Hd.
Qed.

Lemma comb_of_none {V} (x y : option V) : comb_of x y = None -> x = None /\ y = None.
Proof. destruct x, y; cbn [comb_of]; intros H; try discriminate; auto. Qed.

(* ---------- structure of a successful merge ---------- *)
Lemma merge_ok A B M : wf2 A = true -> wf2 B = true -> merge A B = Ok M ->
  nth 0 (ms_ns A) [] = nth 0 (ms_ns B) []
  /\ ms_ns M = [nth 0 (ms_ns A) []; nth 1 (ms_ns A) []; nth 1 (ms_ns B) []]
  /\ ms_doc M = first_some (ms_doc A) (ms_doc B)
  /\ ~ doc_conflict (ms_doc A) (ms_doc B)
  /\ zip_spec ckeqb class_key merge_class (ms_classes A) (ms_classes B) (ms_classes M)
  /\ wf M = true.
Proof.
  intros HA HB. destruct (wf2_shape A HA) as (s & a & EnA & Hs & Ha & HcA & HdA).
  destruct (wf2_shape B HB) as (s' & b & EnB & Hs' & Hb & HcB & HdB).
  unfold merge. rewrite EnA, EnB. cbn [merge_namespaces nth].
  destruct (str_eqb_spec s s') as [<-|Hn]; [|discriminate].
  cbn [forallb]. rewrite Hs, Ha, Hb. cbn [andb bind].
  destruct (zip_comb ckeqb class_key (CAB (ms_classes A) (ms_classes B)) merge_class) as [cs|] eqn:Ez; cbn [bind]; [|discriminate].
  destruct (merge_doc2 (ms_doc A) (ms_doc B)) as [d|] eqn:Ed; cbn [bind]; [|discriminate].
  intros [= <-]. cbn [ms_ns ms_doc ms_classes]. apply merge_doc2_ok in Ed. destruct Ed as [-> Hnc].
  assert (Hck : forall k c w,
             comb_of (find_by ckeqb class_key k (ms_classes A)) (find_by ckeqb class_key k (ms_classes B)) = Some c ->
             merge_class c = Ok w -> class_key w = k /\ wf_class 3 w = true).
  { intros k c w Hc Hf.
    destruct (arises_ok ckeqb ckeqb_ok class_key Pclass _ _ k c HcA HcB Hc) as (Hk & Hco & Hcw).
    destruct (merge_class_ok c w Hco Hcw Hf) as (Hkey & _ & _ & _ & _ & Hwf). split; [congruence|exact Hwf]. }
  assert (Hzs : zip_spec ckeqb class_key merge_class (ms_classes A) (ms_classes B) cs).
  { apply (zip_comb_ok ckeqb ckeqb_ok class_key (CAB (ms_classes A) (ms_classes B)) merge_class cs HdA HdB); [|exact Ez].
    intros k c w Hc Hf. apply (Hck k c w Hc Hf). }
  split; [reflexivity|]. split; [reflexivity|]. split; [reflexivity|]. split; [exact Hnc|]. split; [exact Hzs|].
  unfold wf. cbn [ms_ns ms_classes length Nat.leb forallb]. rewrite !andb_true_iff. repeat split.
  - destruct s; [discriminate|reflexivity].
  - destruct a; [discriminate|reflexivity].
  - destruct b; [discriminate|reflexivity].
  - apply forallb_forall. apply Forall_forall.
    apply (zip_spec_Forall ckeqb ckeqb_ok class_key merge_class _ _ cs _ HdA HdB Hzs).
    intros k c w Hc Hf. apply (Hck k c w Hc Hf).
  - apply (nodupb_NoDup ckeqb ckeqb_ok).
    apply (zip_spec_NoDup ckeqb ckeqb_ok class_key merge_class _ _ cs HdA HdB Hzs).
Qed.

(* ---------- lookups along key paths ---------- *)
Definition at_key {V} (f : comb V -> res V) (P : V -> Prop) (a b m : option V) : Prop :=
  match comb_of a b with
  | None => m = None
  | Some c => exists w, f c = Ok w /\ m = Some w /\ cl c = a /\ cr c = b
  end.

Lemma zip_spec_at {K V} (eqb : K -> K -> bool) (key : V -> K) f la lb r (P : V -> Prop) k :
  zip_spec eqb key f la lb r ->
  at_key f P (find_by eqb key k la) (find_by eqb key k lb) (find_by eqb key k r).
Proof.
  intros (_ & _ & H). specialize (H k). unfold at_key.
  destruct (comb_of (find_by eqb key k la) (find_by eqb key k lb)) as [c|] eqn:Ec; [|exact H].
  destruct H as (w & Hf & Hr). exists w. destruct (comb_of_sides _ _ _ Ec). auto.
Qed.


Lemma path_class A B M ck : wf2 A = true -> wf2 B = true -> merge A B = Ok M ->
  at_key merge_class Pclass (cls A ck) (cls B ck) (cls M ck)
  /\ (forall x, cls A ck = Some x -> Pclass x) /\ (forall y, cls B ck = Some y -> Pclass y).
Proof.
  intros HA HB HM. destruct (merge_ok A B M HA HB HM) as (_ & _ & _ & _ & Hz & _).
  destruct (wf2_shape A HA) as (_ & _ & _ & _ & _ & HcA & _).
  destruct (wf2_shape B HB) as (_ & _ & _ & _ & _ & HcB & _).
  split; [apply (zip_spec_at ckeqb class_key merge_class _ _ _ Pclass ck Hz)|].
  rewrite Forall_forall in HcA, HcB. split; intros z Hz'; apply (find_by_Some ckeqb ckeqb_ok) in Hz'; [apply HcA|apply HcB]; apply Hz'.
Qed.

(* a combination looked up under one key is coherent *)
Lemma comb_coh {K V} (eqb : K -> K -> bool) (Hok : eqb_ok eqb) (key : V -> K) (P : V -> Prop) la lb k c :
  (forall x, find_by eqb key k la = Some x -> P x) -> (forall y, find_by eqb key k lb = Some y -> P y) ->
  comb_of (find_by eqb key k la) (find_by eqb key k lb) = Some c ->
  ckey key c = k /\ cohk key c /\ cwf P c.
Proof.
  intros Ha Hb Hc. destruct (comb_of_find eqb Hok key la lb k c Hc) as (Hk & Hl & Hr).
  destruct (comb_of_sides _ _ _ Hc) as [El Er].
  split; [exact Hk|]. destruct c as [x|y|x y]; cbn [cohk cwf cl cr] in *.
  - split; [exact I|]. apply Ha. symmetry. exact El.
  - split; [exact I|]. apply Hb. symmetry. exact Er.
  - destruct (Hl x eq_refl) as [_ Hkx]. destruct (Hr y eq_refl) as [_ Hky].
    split; [congruence|]. split; [apply Ha; symmetry; exact El|apply Hb; symmetry; exact Er].
Qed.

(* what holds for the merged class found under ck *)
Lemma class_at A B M ck c : wf2 A = true -> wf2 B = true -> merge A B = Ok M ->
  comb_of (cls A ck) (cls B ck) = Some c ->
  exists w, merge_class c = Ok w /\ cls M ck = Some w /\ cl c = cls A ck /\ cr c = cls B ck
            /\ cohk class_key c /\ cwf Pclass c /\ ckey class_key c = ck.
Proof.
  intros HA HB HM Hc. destruct (path_class A B M ck HA HB HM) as (Hat & HPa & HPb).
  unfold at_key in Hat. rewrite Hc in Hat. destruct Hat as (w & Hf & Hm & El & Er).
  destruct (comb_coh ckeqb ckeqb_ok class_key Pclass _ _ ck c HPa HPb Hc) as (Hk & Hco & Hcw).
  exists w. auto 10.
Qed.

Lemma class_absent A B M ck : wf2 A = true -> wf2 B = true -> merge A B = Ok M ->
  comb_of (cls A ck) (cls B ck) = None -> cls A ck = None /\ cls B ck = None /\ cls M ck = None.
Proof.
  intros HA HB HM Hc. destruct (path_class A B M ck HA HB HM) as (Hat & _).
  unfold at_key in Hat. rewrite Hc in Hat. destruct (comb_of_none _ _ Hc). auto.
Qed.

Lemma field_at A B M ck fk : wf2 A = true -> wf2 B = true -> merge A B = Ok M ->
  at_key merge_field Pfield (fld A ck fk) (fld B ck fk) (fld M ck fk)
  /\ (forall x, fld A ck fk = Some x -> Pfield x) /\ (forall y, fld B ck fk = Some y -> Pfield y).
Proof.
  intros HA HB HM. unfold fld.
  destruct (comb_of (cls A ck) (cls B ck)) as [c|] eqn:Ec.
  - destruct (class_at A B M ck c HA HB HM Ec) as (w & Hf & Hm & El & Er & Hco & Hcw & _).
    destruct (merge_class_ok c w Hco Hcw Hf) as (_ & _ & _ & Hzf & _).
    rewrite <- El, <- Er, Hm. change (flds (Some w)) with (c_fields w).
    split; [apply (zip_spec_at mkeqb field_key merge_field _ _ _ Pfield fk Hzf)|].
    destruct (cwf_side _ _ Hcw) as [Hl Hr].
    destruct (flds_wf 2 (cl c) Hl) as [Hfa _]. destruct (flds_wf 2 (cr c) Hr) as [Hfb _].
    rewrite Forall_forall in Hfa, Hfb.
    split; intros z Hz; apply (find_by_Some mkeqb mkeqb_ok) in Hz; [apply Hfa|apply Hfb]; apply Hz.
  - destruct (class_absent A B M ck HA HB HM Ec) as (-> & -> & ->). cbn [flds find_by].
    unfold at_key. cbn [comb_of]. split; [reflexivity|]. split; discriminate.
Qed.

Lemma meth_at A B M ck mk : wf2 A = true -> wf2 B = true -> merge A B = Ok M ->
  at_key merge_meth Pmeth (mth A ck mk) (mth B ck mk) (mth M ck mk)
  /\ (forall x, mth A ck mk = Some x -> Pmeth x) /\ (forall y, mth B ck mk = Some y -> Pmeth y).
Proof.
  intros HA HB HM. unfold mth.
  destruct (comb_of (cls A ck) (cls B ck)) as [c|] eqn:Ec.
  - destruct (class_at A B M ck c HA HB HM Ec) as (w & Hf & Hm & El & Er & Hco & Hcw & _).
    destruct (merge_class_ok c w Hco Hcw Hf) as (_ & _ & _ & _ & Hzm & _).
    rewrite <- El, <- Er, Hm. change (mths (Some w)) with (c_methods w).
    split; [apply (zip_spec_at mkeqb meth_key merge_meth _ _ _ Pmeth mk Hzm)|].
    destruct (cwf_side _ _ Hcw) as [Hl Hr].
    destruct (mths_wf 2 (cl c) Hl) as [Hfa _]. destruct (mths_wf 2 (cr c) Hr) as [Hfb _].
    rewrite Forall_forall in Hfa, Hfb.
    split; intros z Hz; apply (find_by_Some mkeqb mkeqb_ok) in Hz; [apply Hfa|apply Hfb]; apply Hz.
  - destruct (class_absent A B M ck HA HB HM Ec) as (-> & -> & ->). cbn [mths find_by].
    unfold at_key. cbn [comb_of]. split; [reflexivity|]. split; discriminate.
Qed.

(* the merged method found under (ck, mk) *)
Lemma meth_at_some A B M ck mk c : wf2 A = true -> wf2 B = true -> merge A B = Ok M ->
  comb_of (mth A ck mk) (mth B ck mk) = Some c ->
  exists w, merge_meth c = Ok w /\ mth M ck mk = Some w /\ cl c = mth A ck mk /\ cr c = mth B ck mk
            /\ cohk meth_key c /\ cwf Pmeth c.
Proof.
  intros HA HB HM Hc. destruct (meth_at A B M ck mk HA HB HM) as (Hat & HPa & HPb).
  unfold at_key in Hat. rewrite Hc in Hat. destruct Hat as (w & Hf & Hm & El & Er).
  unfold mth in Hc, HPa, HPb.
  destruct (comb_coh mkeqb mkeqb_ok meth_key Pmeth _ _ mk c HPa HPb Hc) as (Hk & Hco & Hcw).
  exists w. auto 10.
Qed.

Lemma param_at A B M ck mk i : wf2 A = true -> wf2 B = true -> merge A B = Ok M ->
  at_key merge_param Pparam (prm A ck mk i) (prm B ck mk i) (prm M ck mk i)
  /\ (forall x, prm A ck mk i = Some x -> Pparam x) /\ (forall y, prm B ck mk i = Some y -> Pparam y).
Proof.
  intros HA HB HM. unfold prm.
  destruct (comb_of (mth A ck mk) (mth B ck mk)) as [c|] eqn:Ec.
  - destruct (meth_at_some A B M ck mk c HA HB HM Ec) as (w & Hf & Hm & El & Er & Hco & Hcw).
    destruct (merge_meth_ok c w Hco Hcw Hf) as (_ & _ & _ & Hzp & _).
    rewrite <- El, <- Er, Hm. change (prms (Some w)) with (m_params w).
    split; [apply (zip_spec_at N.eqb param_key merge_param _ _ _ Pparam i Hzp)|].
    destruct (cwf_side _ _ Hcw) as [Hl Hr].
    destruct (prms_wf 2 (cl c) Hl) as [Hfa _]. destruct (prms_wf 2 (cr c) Hr) as [Hfb _].
    rewrite Forall_forall in Hfa, Hfb.
    split; intros z Hz; apply (find_by_Some N.eqb N_eqb_ok) in Hz; [apply Hfa|apply Hfb]; apply Hz.
  - destruct (meth_at A B M ck mk HA HB HM) as (Hat & _). unfold at_key in Hat. rewrite Ec in Hat.
    destruct (comb_of_none _ _ Ec) as [-> ->]. rewrite Hat. cbn [prms find_by].
    unfold at_key. cbn [comb_of]. split; [reflexivity|]. split; discriminate.
Qed.

(* ---------- Theorem 1: the key set at every level is the union, in the code's order ---------- *)
Theorem merge_keys A B M : wf2 A = true -> wf2 B = true -> merge A B = Ok M ->
  map class_key (ms_classes M) = union ckeqb (map class_key (ms_classes A)) (map class_key (ms_classes B))
  /\ (forall ck, map field_key (flds (cls M ck))
                 = union mkeqb (map field_key (flds (cls A ck))) (map field_key (flds (cls B ck))))
  /\ (forall ck, map meth_key (mths (cls M ck))
                 = union mkeqb (map meth_key (mths (cls A ck))) (map meth_key (mths (cls B ck))))
  /\ (forall ck mk, map param_key (prms (mth M ck mk))
                    = union N.eqb (map param_key (prms (mth A ck mk))) (map param_key (prms (mth B ck mk)))).
Proof.
  intros HA HB HM. destruct (merge_ok A B M HA HB HM) as (_ & _ & _ & _ & (_ & Hk & _) & _).
  split; [exact Hk|].
  assert (Hcls : forall ck,
    map field_key (flds (cls M ck)) = union mkeqb (map field_key (flds (cls A ck))) (map field_key (flds (cls B ck)))
    /\ map meth_key (mths (cls M ck)) = union mkeqb (map meth_key (mths (cls A ck))) (map meth_key (mths (cls B ck)))).
  { intros ck. destruct (comb_of (cls A ck) (cls B ck)) as [c|] eqn:Ec.
    - destruct (class_at A B M ck c HA HB HM Ec) as (w & Hf & Hm & El & Er & Hco & Hcw & _).
      destruct (merge_class_ok c w Hco Hcw Hf) as (_ & _ & _ & (_ & Hkf & _) & (_ & Hkm & _) & _).
      rewrite <- El, <- Er, Hm. cbn [flds mths]. auto.
    - destruct (class_absent A B M ck HA HB HM Ec) as (-> & -> & ->). cbn [flds mths map]. auto. }
  split; [intros ck; apply Hcls|]. split; [intros ck; apply Hcls|].
  intros ck mk. destruct (comb_of (mth A ck mk) (mth B ck mk)) as [c|] eqn:Ec.
  - destruct (meth_at_some A B M ck mk c HA HB HM Ec) as (w & Hf & Hm & El & Er & Hco & Hcw).
    destruct (merge_meth_ok c w Hco Hcw Hf) as (_ & _ & _ & (_ & Hkp & _) & _).
    rewrite <- El, <- Er, Hm. cbn [prms]. exact Hkp.
  - destruct (meth_at A B M ck mk HA HB HM) as (Hat & _). unfold at_key in Hat. rewrite Ec in Hat.
    destruct (comb_of_none _ _ Ec) as [-> ->]. rewrite Hat. reflexivity.
Qed.

(* the union as a set, without duplicates *)
Lemma union_spec {K} (eqb : K -> K -> bool) (Hok : eqb_ok eqb) ka kb :
  NoDup ka -> NoDup kb ->
  NoDup (union eqb ka kb) /\ forall k, In k (union eqb ka kb) <-> In k ka \/ In k kb.
Proof. intros Ha Hb. split; [apply (union_NoDup eqb Hok); assumption|apply (union_In eqb Hok)]. Qed.

(* the result is again a well-formed set, over three namespaces *)
Theorem merge_wf A B M : wf2 A = true -> wf2 B = true -> merge A B = Ok M ->
  wf M = true /\ length (ms_ns M) = 3%nat.
Proof.
  intros HA HB HM. destruct (merge_ok A B M HA HB HM) as (_ & Hns & _ & _ & _ & Hwf).
  split; [exact Hwf|]. rewrite Hns. reflexivity.
Qed.

(* ---------- Theorem 2: columns and comments ---------- *)
Lemma at_key_some {V} (f : comb V -> res V) (P : V -> Prop) a b m w :
  at_key f P a b m -> m = Some w -> exists c, comb_of a b = Some c /\ f c = Ok w /\ cl c = a /\ cr c = b.
Proof.
  unfold at_key. destruct (comb_of a b) as [c|]; [|intros -> H; discriminate].
  intros (w' & Hf & -> & El & Er) [= <-]. exists c. auto.
Qed.

Theorem merge_columns A B M : wf2 A = true -> wf2 B = true -> merge A B = Ok M ->
  ms_ns M = [nth 0 (ms_ns A) []; nth 1 (ms_ns A) []; nth 1 (ms_ns B) []]
  /\ ms_doc M = first_some (ms_doc A) (ms_doc B)
  /\ (forall ck c, cls M ck = Some c ->
        class_key c = ck
        /\ c_names c = row3 (option_map c_names (cls A ck)) (option_map c_names (cls B ck))
        /\ c_doc c = first_some (odoc c_doc (cls A ck)) (odoc c_doc (cls B ck)))
  /\ (forall ck fk f, fld M ck fk = Some f ->
        field_key f = fk
        /\ f_names f = row3 (option_map f_names (fld A ck fk)) (option_map f_names (fld B ck fk))
        /\ f_doc f = first_some (odoc f_doc (fld A ck fk)) (odoc f_doc (fld B ck fk)))
  /\ (forall ck mk m, mth M ck mk = Some m ->
        meth_key m = mk
        /\ m_names m = row3 (option_map m_names (mth A ck mk)) (option_map m_names (mth B ck mk))
        /\ m_doc m = first_some (odoc m_doc (mth A ck mk)) (odoc m_doc (mth B ck mk)))
  /\ (forall ck mk i p, prm M ck mk i = Some p ->
        param_key p = i
        /\ p_names p = row3 (option_map p_names (prm A ck mk i)) (option_map p_names (prm B ck mk i))
        /\ p_doc p = first_some (odoc p_doc (prm A ck mk i)) (odoc p_doc (prm B ck mk i))).
Proof.
  intros HA HB HM. destruct (merge_ok A B M HA HB HM) as (_ & Hns & Hdoc & _ & _ & _).
  split; [exact Hns|]. split; [exact Hdoc|]. split; [|split; [|split]].
  - intros ck w Hw. destruct (path_class A B M ck HA HB HM) as (Hat & HPa & HPb).
    destruct (at_key_some _ _ _ _ _ _ Hat Hw) as (c & Hc & Hf & El & Er).
    destruct (comb_coh ckeqb ckeqb_ok class_key Pclass _ _ ck c HPa HPb Hc) as (Hk & Hco & Hcw).
    destruct (merge_class_ok c w Hco Hcw Hf) as (Hkey & Hn & Hd & _). rewrite <- El, <- Er. split; [congruence|auto].
  - intros ck fk w Hw. destruct (field_at A B M ck fk HA HB HM) as (Hat & HPa & HPb).
    destruct (at_key_some _ _ _ _ _ _ Hat Hw) as (c & Hc & Hf & El & Er). unfold fld in Hc, HPa, HPb.
    destruct (comb_coh mkeqb mkeqb_ok field_key Pfield _ _ fk c HPa HPb Hc) as (Hk & Hco & Hcw).
    destruct (merge_field_ok c w Hco Hcw Hf) as (Hkey & Hn & Hd & _). rewrite <- El, <- Er. split; [congruence|auto].
  - intros ck mk w Hw. destruct (meth_at A B M ck mk HA HB HM) as (Hat & HPa & HPb).
    destruct (at_key_some _ _ _ _ _ _ Hat Hw) as (c & Hc & Hf & El & Er). unfold mth in Hc, HPa, HPb.
    destruct (comb_coh mkeqb mkeqb_ok meth_key Pmeth _ _ mk c HPa HPb Hc) as (Hk & Hco & Hcw).
    destruct (merge_meth_ok c w Hco Hcw Hf) as (Hkey & Hn & Hd & _). rewrite <- El, <- Er. split; [congruence|auto].
  - intros ck mk i w Hw. destruct (param_at A B M ck mk i HA HB HM) as (Hat & HPa & HPb).
    destruct (at_key_some _ _ _ _ _ _ Hat Hw) as (c & Hc & Hf & El & Er). unfold prm in Hc, HPa, HPb.
    destruct (comb_coh N.eqb N_eqb_ok param_key Pparam _ _ i c HPa HPb Hc) as (Hk & Hco & Hcw).
    destruct (merge_param_ok c w Hco Hcw Hf) as (Hkey & Hn & Hd & _). rewrite <- El, <- Er. split; [congruence|auto].
Qed.
