(* C09 — the column exchange of the commutation law ([swap_ab]) is C08's reorder: on a well-formed
   three-namespace set whose descriptors scan, [swap_ab M] is exactly what the model of
   Mappings::reorder (coq/C08/Model.v) returns for the order (s, b, a). *)
From FB Require Import C09.Model.
From FB Require C08.Model C08.TheoryA C08.TheoryB C08.Theory.
From Coq Require Import Lia PeanoNat.

Lemma Forall2_map_self {A} (R : A -> A -> Prop) (g : A -> A) l :
  (forall y, In y l -> R y (g y)) -> Forall2 R l (map g l).
Proof.
  induction l as [|y l IH]; intros H; cbn [map]; constructor.
  - apply H. left. reflexivity.
  - apply IH. intros z Hz. apply H. right. exact Hz.
Qed.

Lemma first_name_swap l : first_name (swap_row l) = first_name l.
Proof. unfold swap_row. cbn [first_name]. rewrite C08.Theory.first_name_nth. destruct (nth_name l 0); reflexivity. Qed.

Lemma keys_good_map {A K} (key : A -> option K) (g : A -> A) l :
  (forall x, key (g x) = key x) -> C08.TheoryA.keys_good key l -> C08.TheoryA.keys_good key (map g l).
Proof.
  intros Hk [H1 H2]. split.
  - apply Forall_forall. intros y Hy. apply in_map_iff in Hy. destruct Hy as (x & <- & Hx).
    rewrite Hk. rewrite Forall_forall in H1. exact (H1 x Hx).
  - rewrite map_map. rewrite (map_ext _ key Hk). exact H2.
Qed.

Theorem swap_ab_is_reorder M :
  wf M = true -> length (ms_ns M) = 3%nat -> C08.Model.descs_scan M = true ->
  C08.Model.reorder M [0; 2; 1]%nat = Ok (swap_ab M).
Proof.
  intros Hwf Hlen Hds. apply C08.Theory.reorder_spec.
  destruct (C08.Theory.wf_parts M Hwf) as (_ & Hcls & Hkeys). rewrite Hlen in Hcls.
  unfold C08.Theory.reordered. split; [discriminate|]. split; [reflexivity|]. split; [reflexivity|].
  cbn [hd ms_classes swap_ab]. split.
  2:{ apply keys_good_map; [|exact Hkeys]. intros c. unfold class_key. apply first_name_swap. }
  apply Forall2_map_self. intros c Hc.
  destruct (C08.Theory.wf_class_parts 3 c (Hcls c Hc)) as (_ & _ & Hfk & Hmw & Hmk).
  assert (Hdesc : forall d, In d (C08.Theory.class_descs c) ->
                  C08.Model.map_desc (C08.Model.map_class (C08.Model.remapper_a M 0 0)) d = Ok d).
  { intros d Hd. apply C08.TheoryB.map_desc_fixed.
    - unfold C08.Model.descs_scan in Hds. rewrite forallb_forall in Hds. apply Hds.
      exact (C08.Theory.in_all_descs M c d Hc Hd).
    - intros x _. apply C08.TheoryB.map_class_same. }
  unfold C08.Theory.class_rel. cbn [swap_class c_names c_doc c_fields c_methods].
  split; [reflexivity|]. split; [reflexivity|]. split; [|split; [|split]].
  - apply Forall2_map_self. intros x Hx. unfold C08.Theory.field_rel. cbn [swap_field f_desc f_names f_doc].
    split; [|split; reflexivity]. apply Hdesc. apply in_or_app. left. apply in_map. exact Hx.
  - apply keys_good_map; [|exact Hfk]. intros x. unfold field_key. cbn [swap_field f_names f_desc].
    rewrite first_name_swap. reflexivity.
  - apply Forall2_map_self. intros x Hx. unfold C08.Theory.meth_rel. cbn [swap_meth m_desc m_names m_doc m_params].
    split; [apply Hdesc; apply in_or_app; right; apply in_map; exact Hx|].
    split; [reflexivity|]. split; [reflexivity|]. split.
    + apply Forall2_map_self. intros q _. unfold C08.Theory.param_rel. cbn [swap_param p_index p_names p_doc]. auto.
    + rewrite map_map. cbn [swap_param p_index]. exact (proj2 (proj2 (C08.Theory.wf_meth_parts 3 x (Hmw x Hx)))).
  - apply keys_good_map; [|exact Hmk]. intros x. unfold meth_key. cbn [swap_meth m_names m_desc].
    rewrite first_name_swap. reflexivity.
Qed.

(* commutation, phrased with C08's reorder: merge B A is merge A B reordered to (s, b, a), up to the
   order of entries *)
From FB Require Import C09.Theory C09.Theory2 C09.Theory3 C09.Theory10.
From FB Require C03.Theory6.
Theorem merge_comm_via_reorder A B M :
  wf2 A = true -> wf2 B = true -> merge A B = Ok M -> C08.Model.descs_scan M = true ->
  exists M' R, merge B A = Ok M' /\ C08.Model.reorder M [0; 2; 1]%nat = Ok R /\ C03.Theory6.mappings_equiv M' R.
Proof.
  intros HA HB HM Hds. destruct (proj2 (merge_comm A B HA HB) M HM) as (M' & HM' & Heq & _).
  destruct (merge_wf A B M HA HB HM) as [Hwf Hlen].
  exists M', (swap_ab M). split; [exact HM'|]. split; [|exact Heq].
  apply swap_ab_is_reorder; assumption.
Qed.
