(* C09 — model of the row / header API of quill/src/tree/mod.rs (mod names) that Mappings::merge and the
   inputs of merge go through: the checking constructors merge_names / merge_namespaces end in
   (Names::try_from, Namespaces::try_from), the converting constructor the readers use (Names::from),
   and the public editing API through which a caller can change a row or the header of an existing set
   (Namespace::new + Names::change_name; Namespaces::change_names = Mappings::rename_namespaces).
   Executable definitions only; the proofs are in Theory14.v.  A row Names<N, T> is the list of its N
   cells; the const generic N is the length of the list. *)
From FB Require Export C09.Model.

(* Namespace::<N>::new(id): an index below the number of namespaces *)
Definition namespace_new (n id : nat) : res nat := if Nat.ltb id n then Ok id else Err.

(* `std::mem::replace(&mut self[namespace], v)` on the cell array *)
Fixpoint set_nth {A} (i : nat) (v : A) (l : list A) : list A :=
  match l, i with
  | [], _ => []
  | _ :: l', O => v :: l'
  | x :: l', S i' => x :: set_nth i' v l'
  end.

(* Names::change_name(&mut self, namespace, from, to) -> Result<Option<T>>: the old name together with
   the row afterwards; on Err the row is untouched (no Ok means no new row) *)
Definition change_name (l : names) (ns : nat) (from to : option str) : res (option str * names) :=
  match ns with
  | O => Err                                  (* "cannot edit the first namespace ..." *)
  | _ => if opt_eqb str_eqb (nth_name l ns) from
         then Ok (nth_name l ns, set_nth ns to l)
         else Err                             (* "old name doesn't match" *)
  end.

(* what a caller writes: Namespace::<N>::new(id)?, then names.change_name(ns, from, to)? *)
Definition change_name_at (l : names) (id : nat) (from to : option str) : res (option str * names) :=
  do ns <- namespace_new (length l) id; change_name l ns from to.

(* Namespaces::change_names(&mut self, from, to) (Mappings::rename_namespaces): the header afterwards.
   `to` is NOT checked for empty names. *)
Definition change_names (ns from to : list str) : res (list str) :=
  if list_eqb str_eqb ns from then Ok to else Err.

(* Names::from([T; N]): an empty string becomes an absent name *)
Definition names_of_strs (l : list str) : names :=
  map (fun s => match s with [] => None | _ => Some s end) l.

(* Namespaces::try_from([String; N]): every namespace name must be non-empty
   (Names::try_from([Option<T>; N]) is [names_from] of Model.v) *)
Definition namespaces_from (l : list str) : res (list str) :=
  if forallb nonempty l then Ok l else Err.

(* vocabulary of the composite theorem: the set X with the names row of its class at position
   [length cs1] replaced by l' *)
Definition with_class_row (X : mappings) (cs1 : list class) (c : class) (cs2 : list class) (l' : names) : mappings :=
  mkMappings (ms_ns X) (ms_doc X) (cs1 ++ mkClass l' (c_doc c) (c_fields c) (c_methods c) :: cs2).

(* an empty name Some [] in ANY cell of some class / field / method / parameter row (round 7: the statement of
   C09_merge_rejects_empty_name without the restriction to the second column) *)
Definition ebad_row (l : names) : bool := existsb (fun o => match o with Some [] => true | _ => false end) l.
Definition ebad_param (p : param) : bool := ebad_row (p_names p).
Definition ebad_field (f : field) : bool := ebad_row (f_names f).
Definition ebad_meth (m : meth) : bool := ebad_row (m_names m) || existsb ebad_param (m_params m).
Definition ebad_class (c : class) : bool :=
  ebad_row (c_names c) || existsb ebad_field (c_fields c) || existsb ebad_meth (c_methods c).
Definition has_empty_cell (M : mappings) : bool := existsb ebad_class (ms_classes M).
