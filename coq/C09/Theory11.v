(* C09 — outside the hypotheses: whatever the two inputs are (rows of any length, empty names put in
   through Names::change_name, empty namespace names through rename_namespaces, duplicate keys), a
   merge that succeeds has rebuilt every row and the header through the checking constructors
   (Names::try_from, Namespaces::try_from): three cells per row, no empty name anywhere. *)
From FB Require Import C09.Model C09.Theory.
From Coq Require Import Lia PeanoNat.

Lemma bind_ok' {A B} (r : res A) (k : A -> res B) b : bind r k = Ok b -> exists a, r = Ok a /\ k a = Ok b.
Proof. destruct r as [a|]; cbn [bind]; [intros H; exists a; auto|discriminate]. Qed.

Lemma mapM_all {A B} (f : A -> res B) (P : B -> Prop) l r :
  (forall x y, f x = Ok y -> P y) -> mapM f l = Ok r -> Forall P r.
Proof.
  intros H. revert r. induction l as [|x l IH]; intros r E; cbn [mapM] in E.
  - injection E as <-. constructor.
  - apply bind_ok' in E. destruct E as (y & Hy & E). apply bind_ok' in E. destruct E as (ys & Hys & E).
    injection E as <-. constructor; [exact (H x y Hy)|exact (IH ys Hys)].
Qed.

Lemma zip_comb_all {K V W} (eqb : K -> K -> bool) (key : V -> K) ab (f : comb V -> res W) (P : W -> Prop) r :
  (forall c w, f c = Ok w -> P w) -> zip_comb eqb key ab f = Ok r -> Forall P r.
Proof.
  intros H E. destruct ab as [a|b|a b]; cbn [zip_comb] in E.
  - apply (mapM_all _ P _ _ (fun x y => H (CA x) y) E).
  - apply (mapM_all _ P _ _ (fun x y => H (CB x) y) E).
  - unfold zip_map in E. apply bind_ok' in E. destruct E as (cs & _ & E). exact (mapM_all f P cs r H E).
Qed.

Lemma names_from_ok3 l n : names_from l = Ok n -> length l = 3%nat -> names_ok 3 n = true.
Proof.
  unfold names_from. intros H Hl.
  match type of H with (if ?b then _ else _) = _ => destruct b eqn:E end; [|discriminate].
  injection H as <-. unfold names_ok. rewrite Hl. cbn [Nat.eqb andb]. exact E.
Qed.

Lemma merge_names_ok3 c n : merge_names c = Ok n -> names_ok 3 n = true.
Proof.
  destruct c as [l|l|l1 l2]; cbn [merge_names].
  - destruct l as [|a0 [|a1 [|a2 l]]]; try discriminate. intros H. exact (names_from_ok3 _ _ H eq_refl).
  - destruct l as [|a0 [|a1 [|a2 l]]]; try discriminate. intros H. exact (names_from_ok3 _ _ H eq_refl).
  - destruct l1 as [|a0 [|a1 [|a2 l1]]]; destruct l2 as [|b0 [|b1 [|b2 l2]]]; try discriminate.
    destruct (opt_eqb str_eqb a0 b0); [|discriminate]. intros H. exact (names_from_ok3 _ _ H eq_refl).
Qed.

Lemma merge_param_rows c w : merge_param c = Ok w -> names_ok 3 (p_names w) = true.
Proof.
  unfold merge_param. intros H. apply bind_ok' in H. destruct H as (i & _ & H).
  apply bind_ok' in H. destruct H as (n & Hn & H). apply bind_ok' in H. destruct H as (d & _ & H).
  injection H as <-. exact (merge_names_ok3 _ _ Hn).
Qed.

Lemma merge_field_rows c w : merge_field c = Ok w -> names_ok 3 (f_names w) = true.
Proof.
  unfold merge_field. intros H. apply bind_ok' in H. destruct H as (i & _ & H).
  apply bind_ok' in H. destruct H as (n & Hn & H). apply bind_ok' in H. destruct H as (d & _ & H).
  injection H as <-. exact (merge_names_ok3 _ _ Hn).
Qed.

Lemma merge_meth_rows c w : merge_meth c = Ok w ->
  names_ok 3 (m_names w) && forallb (fun p => names_ok 3 (p_names p)) (m_params w) = true.
Proof.
  unfold merge_meth. intros H. apply bind_ok' in H. destruct H as (de & _ & H).
  apply bind_ok' in H. destruct H as (n & Hn & H). apply bind_ok' in H. destruct H as (ps & Hps & H).
  apply bind_ok' in H. destruct H as (d & _ & H). injection H as <-. cbn [m_names m_params].
  rewrite (merge_names_ok3 _ _ Hn). cbn [andb]. apply forallb_forall. apply Forall_forall.
  exact (zip_comb_all _ _ _ _ _ _ merge_param_rows Hps).
Qed.

Lemma merge_class_rows c w : merge_class c = Ok w ->
  names_ok 3 (c_names w)
  && forallb (fun f => names_ok 3 (f_names f)) (c_fields w)
  && forallb (fun m => names_ok 3 (m_names m) && forallb (fun p => names_ok 3 (p_names p)) (m_params m)) (c_methods w) = true.
Proof.
  unfold merge_class. intros H. apply bind_ok' in H. destruct H as (n & Hn & H).
  apply bind_ok' in H. destruct H as (fs & Hfs & H). apply bind_ok' in H. destruct H as (ms & Hms & H).
  apply bind_ok' in H. destruct H as (d & _ & H). injection H as <-. cbn [c_names c_fields c_methods].
  rewrite (merge_names_ok3 _ _ Hn). cbn [andb]. apply andb_true_iff. split.
  - apply forallb_forall. apply Forall_forall. exact (zip_comb_all _ _ _ _ _ _ merge_field_rows Hfs).
  - apply forallb_forall. apply Forall_forall. exact (zip_comb_all _ _ _ _ _ _ merge_meth_rows Hms).
Qed.

Theorem merge_rows_ok A B M : merge A B = Ok M -> rows_ok M = true.
Proof.
  unfold merge. intros H. apply bind_ok' in H. destruct H as (ns & Hns & H).
  apply bind_ok' in H. destruct H as (cs & Hcs & H). apply bind_ok' in H. destruct H as (d & _ & H).
  injection H as <-. unfold rows_ok. cbn [ms_ns ms_classes].
  assert (Hn : Nat.eqb (length ns) 3 && forallb nonempty ns = true).
  { unfold merge_namespaces in Hns. destruct (ms_ns A) as [|a0 [|a1 [|a2 la]]]; try discriminate.
    destruct (ms_ns B) as [|b0 [|b1 [|b2 lb]]]; try discriminate.
    destruct (str_eqb a0 b0); [|discriminate]. destruct (forallb nonempty [a0; a1; b1]) eqn:E; [|discriminate].
    injection Hns as <-. rewrite E. reflexivity. }
  rewrite Hn. cbn [andb]. apply forallb_forall. apply Forall_forall.
  exact (zip_comb_all _ _ _ _ _ _ merge_class_rows Hcs).
Qed.

(* in particular: an input with an empty namespace name is refused *)
Theorem merge_rejects_empty_namespace A B : In [] (ms_ns A) \/ In [] (ms_ns B) -> merge A B = Err.
Proof.
  intros H. destruct (merge A B) as [M|] eqn:E; [|reflexivity]. exfalso.
  unfold merge in E. apply bind_ok' in E. destruct E as (ns & Hns & _). unfold merge_namespaces in Hns.
  destruct (ms_ns A) as [|a0 [|a1 [|a2 la]]]; try discriminate. destruct (ms_ns B) as [|b0 [|b1 [|b2 lb]]]; try discriminate.
  destruct (str_eqb_spec a0 b0) as [<-|_]; [|discriminate]. cbn [forallb] in Hns.
  assert (Hz : nonempty a0 && (nonempty a1 && (nonempty b1 && true)) = false).
  { destruct H as [[H|[H|[]]]|[H|[H|[]]]]; subst; cbn [nonempty andb]; try reflexivity;
      destruct (nonempty a0); cbn [andb]; try reflexivity; destruct (nonempty a1); reflexivity. }
  rewrite Hz in Hns. discriminate.
Qed.

(* ---------- an empty name in a second column is refused ---------- *)
Definition sideb {V} (bad : V -> bool) (c : comb V) : bool :=
  match c with CA x => bad x | CB y => bad y | CAB x y => bad x || bad y end.
Definition sideall {V} (ok : V -> bool) (c : comb V) : bool :=
  match c with CA x => ok x | CB y => ok y | CAB x y => ok x && ok y end.

Lemma sideb_cmap {V U} (g : V -> U) (bad : U -> bool) c : sideb bad (cmap g c) = sideb (fun x => bad (g x)) c.
Proof. destruct c; reflexivity. Qed.

Lemma merge_names_bad c : sideb bad_row c = true -> merge_names c = Err.
Proof.
  unfold bad_row, nth_name. destruct c as [l|l|l1 l2]; cbn [sideb merge_names].
  - destruct l as [|a0 [|a1 [|a2 l]]]; try reflexivity. cbn [nth]. intros H. unfold names_from. cbn [forallb].
    destruct a0 as [[|? ?]|], a1 as [[|? ?]|]; cbn in H |- *; try reflexivity; discriminate H.
  - destruct l as [|a0 [|a1 [|a2 l]]]; try reflexivity. cbn [nth]. intros H. unfold names_from. cbn [forallb].
    destruct a0 as [[|? ?]|], a1 as [[|? ?]|]; cbn in H |- *; try reflexivity; discriminate H.
  - destruct l1 as [|a0 [|a1 [|a2 l1]]]; destruct l2 as [|b0 [|b1 [|b2 l2]]]; try reflexivity.
    cbn [nth]. intros H. destruct (opt_eqb str_eqb a0 b0); [|reflexivity]. unfold names_from. cbn [forallb].
    destruct a0 as [[|? ?]|], a1 as [[|? ?]|], b1 as [[|? ?]|]; cbn in H |- *; try reflexivity; discriminate H.
Qed.

Lemma merge_param_bad c : sideb bad_param c = true -> merge_param c = Err.
Proof.
  intros H. unfold merge_param. destruct (merge_equal N.eqb (cmap p_index c)); cbn [bind]; [|reflexivity].
  rewrite merge_names_bad; [reflexivity|]. rewrite sideb_cmap. exact H.
Qed.

Lemma merge_field_bad c : sideb bad_field c = true -> merge_field c = Err.
Proof.
  intros H. unfold merge_field. destruct (merge_equal str_eqb (cmap f_desc c)); cbn [bind]; [|reflexivity].
  rewrite merge_names_bad; [reflexivity|]. rewrite sideb_cmap. exact H.
Qed.

Lemma zip_comb_bad {K V W} (eqb : K -> K -> bool) (Hok : eqb_ok eqb) (key : V -> K) (bad : V -> bool) ab (f : comb V -> res W) :
  NoDup (map key (side_a ab)) -> NoDup (map key (side_b ab)) ->
  (forall c, In c (zip_list eqb key (side_a ab) (side_b ab)) -> sideb bad c = true -> f c = Err) ->
  existsb bad (side_a ab) || existsb bad (side_b ab) = true -> zip_comb eqb key ab f = Err.
Proof.
  intros Ha Hb Hf H. rewrite (zip_comb_spec eqb Hok key ab f Ha Hb). apply mapM_Err.
  set (a := side_a ab) in *. set (b := side_b ab) in *.
  assert (Hc : exists c, In c (zip_list eqb key a b) /\ sideb bad c = true).
  { apply orb_true_iff in H. destruct H as [H|H]; apply existsb_exists in H; destruct H as (x & Hx & Hbad).
    - pose proof (find_by_In eqb Hok key a x Ha Hx) as Ea.
      destruct (find_by eqb key (key x) b) as [y|] eqn:Eb.
      + exists (CAB x y). split; [apply (zip_list_In eqb Hok key a b _ Ha Hb); exists (key x); rewrite Ea, Eb; reflexivity|].
        cbn [sideb]. rewrite Hbad. reflexivity.
      + exists (CA x). split; [apply (zip_list_In eqb Hok key a b _ Ha Hb); exists (key x); rewrite Ea, Eb; reflexivity|exact Hbad].
    - pose proof (find_by_In eqb Hok key b x Hb Hx) as Eb.
      destruct (find_by eqb key (key x) a) as [y|] eqn:Ea.
      + exists (CAB y x). split; [apply (zip_list_In eqb Hok key a b _ Ha Hb); exists (key x); rewrite Ea, Eb; reflexivity|].
        cbn [sideb]. rewrite Hbad. apply orb_true_r.
      + exists (CB x). split; [apply (zip_list_In eqb Hok key a b _ Ha Hb); exists (key x); rewrite Ea, Eb; reflexivity|exact Hbad]. }
  destruct Hc as (c & Hc & Hbad). exists c. split; [exact Hc|exact (Hf c Hc Hbad)].
Qed.

Lemma sides_in {K V} (eqb : K -> K -> bool) (Hok : eqb_ok eqb) (key : V -> K) (ok : V -> bool) a b c :
  NoDup (map key a) -> NoDup (map key b) -> forallb ok a = true -> forallb ok b = true ->
  In c (zip_list eqb key a b) -> sideall ok c = true.
Proof.
  intros Ha Hb Hoa Hob Hc. apply (zip_list_In eqb Hok key a b c Ha Hb) in Hc. destruct Hc as (k & Hk).
  destruct (comb_of_find eqb Hok key a b k c Hk) as (_ & Hl & Hr). rewrite forallb_forall in Hoa, Hob.
  destruct c as [x|y|x y]; cbn [sideall cl cr] in *.
  - apply Hoa. apply (Hl x eq_refl).
  - apply Hob. apply (Hr y eq_refl).
  - rewrite (Hoa x (proj1 (Hl x eq_refl))), (Hob y (proj1 (Hr y eq_refl))). reflexivity.
Qed.

Lemma merge_meth_bad c : sideall uniq_meth c = true -> sideb bad_meth c = true -> merge_meth c = Err.
Proof.
  intros Hu H. unfold merge_meth. destruct (merge_equal str_eqb (cmap m_desc c)); cbn [bind]; [|reflexivity].
  destruct (sideb bad_row (cmap m_names c)) eqn:E1.
  - rewrite (merge_names_bad _ E1). reflexivity.
  - destruct (merge_names (cmap m_names c)); cbn [bind]; [|reflexivity].
    rewrite (zip_comb_bad N.eqb N_eqb_ok param_key bad_param (cmap m_params c) merge_param); [reflexivity| | | |].
    + destruct c as [x|y|x y]; cbn [cmap side_a map sideall] in *; [| constructor |];
        [|apply andb_true_iff in Hu; destruct Hu as [Hu _]]; apply (nodupb_NoDup N.eqb N_eqb_ok); exact Hu.
    + destruct c as [x|y|x y]; cbn [cmap side_b map sideall] in *; [constructor | |];
        [|apply andb_true_iff in Hu; destruct Hu as [_ Hu]]; apply (nodupb_NoDup N.eqb N_eqb_ok); exact Hu.
    + intros pc _ Hpc. apply merge_param_bad. exact Hpc.
    + rewrite sideb_cmap in E1. unfold bad_meth in H.
      destruct c as [x|y|x y]; cbn [cmap side_a side_b sideb existsb] in *.
      * rewrite E1 in H. rewrite orb_false_r. exact H.
      * rewrite E1 in H. exact H.
      * apply orb_false_iff in E1. destruct E1 as [E1 E2]. rewrite E1, E2 in H. exact H.
Qed.

Lemma merge_class_bad c : sideall uniq_class c = true -> sideb bad_class c = true -> merge_class c = Err.
Proof.
  intros Hu H. unfold merge_class.
  destruct (sideb bad_row (cmap c_names c)) eqn:E1.
  { rewrite (merge_names_bad _ E1). reflexivity. }
  destruct (merge_names (cmap c_names c)); cbn [bind]; [|reflexivity].
  assert (Hparts : NoDup (map field_key (side_a (cmap c_fields c))) /\ NoDup (map field_key (side_b (cmap c_fields c)))
                   /\ NoDup (map meth_key (side_a (cmap c_methods c))) /\ NoDup (map meth_key (side_b (cmap c_methods c)))
                   /\ forallb uniq_meth (side_a (cmap c_methods c)) = true /\ forallb uniq_meth (side_b (cmap c_methods c)) = true).
  { unfold uniq_class in Hu. destruct c as [x|y|x y]; cbn [cmap side_a side_b map sideall forallb] in *;
      rewrite ?andb_true_iff in Hu; repeat split; try constructor;
      try (apply (nodupb_NoDup mkeqb mkeqb_ok); tauto); tauto. }
  destruct Hparts as (Hfa & Hfb & Hma & Hmb & Hua & Hub).
  destruct (existsb bad_field (side_a (cmap c_fields c)) || existsb bad_field (side_b (cmap c_fields c))) eqn:E2.
  { rewrite (zip_comb_bad mkeqb mkeqb_ok field_key bad_field (cmap c_fields c) merge_field Hfa Hfb); [reflexivity| |exact E2].
    intros fc _ Hfc. apply merge_field_bad. exact Hfc. }
  destruct (zip_comb mkeqb field_key (cmap c_fields c) merge_field); cbn [bind]; [|reflexivity].
  rewrite (zip_comb_bad mkeqb mkeqb_ok meth_key bad_meth (cmap c_methods c) merge_meth Hma Hmb); [reflexivity| |].
  - intros mc Hmc Hbad. apply merge_meth_bad; [|exact Hbad].
    exact (sides_in mkeqb mkeqb_ok meth_key uniq_meth _ _ mc Hma Hmb Hua Hub Hmc).
  - rewrite sideb_cmap in E1. unfold bad_class in H.
    destruct c as [x|y|x y]; cbn [cmap side_a side_b sideb existsb] in *.
    + rewrite orb_false_r in E2. rewrite E1, E2 in H. rewrite orb_false_r. exact H.
    + rewrite E1, E2 in H. exact H.
    + apply orb_false_iff in E1. destruct E1 as [E1 E1']. apply orb_false_iff in E2. destruct E2 as [E2 E2'].
      rewrite E1, E1', E2, E2' in H. exact H.
Qed.

Theorem merge_rejects_empty_name A B :
  keys_unique A = true -> keys_unique B = true ->
  has_empty_name A || has_empty_name B = true -> merge A B = Err.
Proof.
  intros HA HB H. unfold keys_unique in HA, HB. apply andb_true_iff in HA, HB.
  destruct HA as [HdA HuA]. destruct HB as [HdB HuB].
  apply (nodupb_NoDup ckeqb ckeqb_ok) in HdA, HdB.
  unfold merge. destruct (merge_namespaces (ms_ns A) (ms_ns B)); cbn [bind]; [|reflexivity].
  rewrite (zip_comb_bad ckeqb ckeqb_ok class_key bad_class (CAB (ms_classes A) (ms_classes B)) merge_class HdA HdB); [reflexivity| |exact H].
  intros c Hc Hbad. apply merge_class_bad; [|exact Hbad].
  exact (sides_in ckeqb ckeqb_ok class_key uniq_class _ _ c HdA HdB HuA HuB Hc).
Qed.

(* non-vacuity: a set with an empty class name in its second column - keys unique, not wf2 - is
   refused on either side; and every wf2 set has unique keys *)
From FB Require Import C09.Theory7.
Definition empty_name_example : Prop :=
  let B := mkMappings [[115]; [98]] None [mkClass [Some sC1; Some []] None [] []] in
  keys_unique exA = true /\ keys_unique B = true /\ has_empty_name B = true /\ wf2 B = false
  /\ merge exA B = Err /\ merge B exA = Err /\ rows_ok exM = true.
Lemma empty_name_example_holds : empty_name_example.
Proof. unfold empty_name_example. repeat split; vm_compute; reflexivity. Qed.

Lemma wf_keys_unique M : wf M = true -> keys_unique M = true.
Proof.
  unfold wf, keys_unique. cbv zeta. rewrite !andb_true_iff. intros [[[_ _] Hc] Hd]. split; [exact Hd|].
  apply forallb_forall. intros c Hc'. rewrite forallb_forall in Hc. specialize (Hc c Hc').
  unfold wf_class in Hc. rewrite !andb_true_iff in Hc. destruct Hc as [[[[[_ _] _] Hf] Hm] Hmd].
  unfold uniq_class. rewrite !andb_true_iff. split; [split; [exact Hf|exact Hmd]|].
  apply forallb_forall. intros m Hm'. rewrite forallb_forall in Hm. specialize (Hm m Hm').
  unfold wf_meth in Hm. rewrite !andb_true_iff in Hm. unfold uniq_meth. tauto.
Qed.
