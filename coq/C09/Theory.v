(* C09 — generic facts about the key-zipping helper (zip_map / zip_map_combination):
   under unique keys it is a join, A's entries in order followed by the entries only B has. *)
From FB Require Import C09.Model.
From Coq Require Import Lia.

Definition eqb_ok {K} (eqb : K -> K -> bool) : Prop := forall a b, eqb a b = true <-> a = b.

Lemma eqb_ok_refl {K} (eqb : K -> K -> bool) : eqb_ok eqb -> forall a, eqb a a = true.
Proof. intros H a. apply H. reflexivity. Qed.

Lemma eqb_ok_false {K} (eqb : K -> K -> bool) : eqb_ok eqb -> forall a b, eqb a b = false <-> a <> b.
Proof.
  intros H a b. split.
  - intros E Hab. apply H in Hab. congruence.
  - intros Hn. destruct (eqb a b) eqn:E; [|reflexivity]. apply H in E. contradiction.
Qed.

Lemma str_eqb_ok : eqb_ok str_eqb.
Proof. intros a b. apply str_eqb_eq. Qed.

Lemma N_eqb_ok : eqb_ok N.eqb.
Proof. intros a b. apply N.eqb_eq. Qed.

Lemma opt_eqb_ok {K} (eqb : K -> K -> bool) : eqb_ok eqb -> eqb_ok (opt_eqb eqb).
Proof.
  intros H [a|] [b|]; cbn [opt_eqb]; try (split; congruence).
  rewrite (H a b). split; congruence.
Qed.

Lemma key2_eqb_ok : eqb_ok key2_eqb.
Proof.
  intros [a1 a2] [b1 b2]. unfold key2_eqb. cbn [fst snd].
  rewrite andb_true_iff, !str_eqb_eq. split.
  - intros [-> ->]. reflexivity.
  - intros [= -> ->]. auto.
Qed.

Lemma ckeqb_ok : eqb_ok ckeqb.
Proof. apply opt_eqb_ok, str_eqb_ok. Qed.
Lemma mkeqb_ok : eqb_ok mkeqb.
Proof. apply opt_eqb_ok, key2_eqb_ok. Qed.

(* ---------- membership, duplicates ---------- *)
Lemma memb_In {K} (eqb : K -> K -> bool) (Hok : eqb_ok eqb) k l : memb eqb k l = true <-> In k l.
Proof.
  unfold memb. rewrite existsb_exists. split.
  - intros (y & Hy & E). apply Hok in E. subst. exact Hy.
  - intros H. exists k. split; [exact H|apply eqb_ok_refl; exact Hok].
Qed.

Lemma memb_false {K} (eqb : K -> K -> bool) (Hok : eqb_ok eqb) k l : memb eqb k l = false <-> ~ In k l.
Proof.
  rewrite <- (memb_In eqb Hok). destruct (memb eqb k l); split; congruence.
Qed.

Lemma nodupb_NoDup {K} (eqb : K -> K -> bool) (Hok : eqb_ok eqb) l : nodupb eqb l = true <-> NoDup l.
Proof.
  induction l as [|x l IH]; cbn [nodupb].
  - split; [constructor|reflexivity].
  - rewrite andb_true_iff, negb_true_iff, IH. fold (memb eqb x l). rewrite (memb_false eqb Hok).
    split.
    + intros [H1 H2]. constructor; assumption.
    + intros H. inversion H; subst. auto.
Qed.

(* ---------- uniq = IndexSet::from_iter ---------- *)
Lemma uniq_from_ext {K} (eqb : K -> K -> bool) l : forall s1 s2,
  (forall k, memb eqb k s1 = memb eqb k s2) -> uniq_from eqb s1 l = uniq_from eqb s2 l.
Proof.
  induction l as [|k l IH]; intros s1 s2 H; cbn [uniq_from]; [reflexivity|].
  rewrite (H k). destruct (memb eqb k s2); [apply IH; exact H|].
  f_equal. apply IH. intros k'. unfold memb in *. cbn [existsb]. rewrite (H k'). reflexivity.
Qed.

Lemma memb_app {K} (eqb : K -> K -> bool) k l1 l2 : memb eqb k (l1 ++ l2) = memb eqb k l1 || memb eqb k l2.
Proof. unfold memb. apply existsb_app. Qed.

Lemma uniq_from_app {K} (eqb : K -> K -> bool) (Hok : eqb_ok eqb) l1 : forall seen l2,
  uniq_from eqb seen (l1 ++ l2) = uniq_from eqb seen l1 ++ uniq_from eqb (l1 ++ seen) l2.
Proof.
  induction l1 as [|k l1 IH]; intros seen l2; [reflexivity|].
  cbn [app uniq_from]. destruct (memb eqb k seen) eqn:E.
  - rewrite IH. f_equal. apply uniq_from_ext. intros k'.
    change (k :: l1 ++ seen) with ([k] ++ (l1 ++ seen)). rewrite (memb_app eqb k' [k]).
    unfold memb at 2. cbn [existsb]. rewrite orb_false_r.
    destruct (eqb k' k) eqn:E'; [|reflexivity]. apply Hok in E'. subst k'.
    rewrite memb_app, E, orb_true_r. reflexivity.
  - cbn [app]. f_equal. rewrite IH. f_equal. apply uniq_from_ext. intros k'.
    rewrite memb_app. change (k :: l1 ++ seen) with ([k] ++ (l1 ++ seen)).
    rewrite (memb_app eqb k' [k]), memb_app. change (k :: seen) with ([k] ++ seen).
    rewrite (memb_app eqb k' [k]). destruct (memb eqb k' [k]), (memb eqb k' l1); reflexivity.
Qed.

Lemma uniq_from_filter {K} (eqb : K -> K -> bool) (Hok : eqb_ok eqb) l : forall seen,
  NoDup l -> uniq_from eqb seen l = filter (fun k => negb (memb eqb k seen)) l.
Proof.
  induction l as [|k l IH]; intros seen Hnd; [reflexivity|].
  inversion Hnd as [|? ? Hk Hnd']; subst. cbn [uniq_from filter].
  destruct (memb eqb k seen) eqn:E; cbn [negb]; [apply IH; exact Hnd'|].
  f_equal. rewrite (IH _ Hnd'). apply filter_ext_in. intros k' Hk'.
  unfold memb. cbn [existsb]. destruct (eqb k' k) eqn:E'; [|reflexivity].
  apply Hok in E'. subst. contradiction.
Qed.

Lemma filter_all {A} (p : A -> bool) l : (forall x, In x l -> p x = true) -> filter p l = l.
Proof.
  induction l as [|x l IH]; intros H; cbn [filter]; [reflexivity|].
  rewrite (H x (or_introl eq_refl)). f_equal. apply IH. intros y Hy. apply H. right. exact Hy.
Qed.

Lemma uniq_union {K} (eqb : K -> K -> bool) (Hok : eqb_ok eqb) ka kb :
  NoDup ka -> NoDup kb -> uniq eqb (ka ++ kb) = union eqb ka kb.
Proof.
  intros Ha Hb. unfold uniq, union. rewrite (uniq_from_app eqb Hok).
  rewrite (uniq_from_filter eqb Hok ka [] Ha), (uniq_from_filter eqb Hok kb _ Hb), app_nil_r.
  f_equal. apply filter_all. reflexivity.
Qed.

Lemma union_In {K} (eqb : K -> K -> bool) (Hok : eqb_ok eqb) ka kb k :
  In k (union eqb ka kb) <-> In k ka \/ In k kb.
Proof.
  unfold union. rewrite in_app_iff, filter_In, negb_true_iff, (memb_false eqb Hok).
  split; [tauto|]. intros [H|H]; [tauto|].
  destruct (memb eqb k ka) eqn:E.
  - left. apply (memb_In eqb Hok). exact E.
  - right. split; [exact H|]. apply (memb_false eqb Hok). exact E.
Qed.

Lemma union_NoDup {K} (eqb : K -> K -> bool) (Hok : eqb_ok eqb) ka kb :
  NoDup ka -> NoDup kb -> NoDup (union eqb ka kb).
Proof.
  intros Ha Hb. unfold union. induction Ha as [|x ka Hx Ha IH].
  - cbn [app]. apply NoDup_filter. exact Hb.
  - cbn [app]. constructor.
    + rewrite in_app_iff, filter_In, negb_true_iff, (memb_false eqb Hok). cbn [In]. tauto.
    + assert (Hsub : forall l, NoDup l -> (forall y, In y l -> ~ In y (x :: ka)) -> NoDup (ka ++ l)).
      { intros l Hl Hd. clear IH. induction ka as [|z ka IHk]; [exact Hl|].
        cbn [app]. inversion Ha; subst. constructor.
        - rewrite in_app_iff. intros [H|H]; [contradiction|]. apply (Hd z H). right. left. reflexivity.
        - apply IHk; auto.
          + intros H. apply Hx. right. exact H.
          + intros y Hy [E|Hin]; apply (Hd y Hy); [left; exact E|right; right; exact Hin]. }
      apply Hsub.
      * apply NoDup_filter. exact Hb.
      * intros y Hy. apply filter_In in Hy. destruct Hy as [_ Hy].
        apply negb_true_iff in Hy. apply (memb_false eqb Hok) in Hy. exact Hy.
Qed.

(* ---------- mapM ---------- *)
Lemma mapM_app {A B} (f : A -> res B) l1 l2 :
  mapM f (l1 ++ l2) = do a <- mapM f l1; do b <- mapM f l2; Ok (a ++ b).
Proof.
  induction l1 as [|x l1 IH]; cbn [app mapM bind].
  - destruct (mapM f l2); reflexivity.
  - destruct (f x) as [y|]; cbn [bind]; [|reflexivity]. rewrite IH.
    destruct (mapM f l1) as [a|]; cbn [bind]; [|reflexivity].
    destruct (mapM f l2) as [b|]; cbn [bind]; reflexivity.
Qed.

Lemma mapM_map {A B C} (f : B -> res C) (g : A -> B) l : mapM f (map g l) = mapM (fun x => f (g x)) l.
Proof.
  induction l as [|x l IH]; cbn [map mapM]; [reflexivity|]. rewrite IH. reflexivity.
Qed.

Lemma mapM_ok_in {A B} (f : A -> res B) (g : A -> B) l :
  (forall x, In x l -> f x = Ok (g x)) -> mapM f l = Ok (map g l).
Proof.
  induction l as [|x l IH]; intros H; cbn [map mapM]; [reflexivity|].
  rewrite (H x (or_introl eq_refl)). cbn [bind]. rewrite IH; [reflexivity|].
  intros y Hy. apply H. right. exact Hy.
Qed.

Lemma mapM_Forall2 {A B} (f : A -> res B) l r :
  mapM f l = Ok r <-> Forall2 (fun x y => f x = Ok y) l r.
Proof.
  revert r. induction l as [|x l IH]; intros r; cbn [mapM].
  - split; [intros [= <-]; constructor|intros H; inversion H; reflexivity].
  - destruct (f x) as [y|] eqn:E; cbn [bind].
    + destruct (mapM f l) as [ys|] eqn:E'; cbn [bind].
      * split.
        -- intros [= <-]. constructor; [exact E|]. apply IH. reflexivity.
        -- intros H. inversion H as [|? y' ? r' Hxy Hr]; subst. apply IH in Hr.
           injection Hr as ->. rewrite E in Hxy. injection Hxy as ->. reflexivity.
      * split; [discriminate|]. intros H. inversion H as [|? y' ? r' Hxy Hr]; subst.
        apply IH in Hr. discriminate.
    + split; [discriminate|]. intros H. inversion H as [|? y' ? r' Hxy Hr]; subst. rewrite E in Hxy. discriminate.
Qed.

Lemma mapM_Err {A B} (f : A -> res B) l :
  mapM f l = Err <-> exists x, In x l /\ f x = Err.
Proof.
  induction l as [|x l IH]; cbn [mapM].
  - split; [discriminate|intros (x & [] & _)].
  - destruct (f x) as [y|] eqn:E; cbn [bind].
    + destruct (mapM f l) as [ys|] eqn:E'; cbn [bind].
      * split; [discriminate|]. intros (z & [->|Hz] & Hf); [congruence|].
        exfalso. destruct IH as [_ IH]. assert (H : Ok ys = Err) by (apply IH; exists z; auto). discriminate.
      * split; [|reflexivity]. intros _. destruct IH as [IH _]. destruct (IH eq_refl) as (z & Hz & Hf).
        exists z. split; [right; exact Hz|exact Hf].
    + split; [|reflexivity]. intros _. exists x. split; [left; reflexivity|exact E].
Qed.

Lemma Forall2_In_l {A B} (R : A -> B -> Prop) l r x : Forall2 R l r -> In x l -> exists y, In y r /\ R x y.
Proof.
  intros H. induction H as [|a b l r Hab H IH]; intros Hin; [destruct Hin|].
  destruct Hin as [->|Hin].
  - exists b. split; [left; reflexivity|exact Hab].
  - destruct (IH Hin) as (y & Hy & Hr). exists y. split; [right; exact Hy|exact Hr].
Qed.

Lemma Forall2_In_r {A B} (R : A -> B -> Prop) l r y : Forall2 R l r -> In y r -> exists x, In x l /\ R x y.
Proof.
  intros H. induction H as [|a b l r Hab H IH]; intros Hin; [destruct Hin|].
  destruct Hin as [->|Hin].
  - exists a. split; [left; reflexivity|exact Hab].
  - destruct (IH Hin) as (x & Hx & Hr). exists x. split; [right; exact Hx|exact Hr].
Qed.

(* ---------- find_by = IndexMap::get ---------- *)
Lemma find_by_Some {K V} (eqb : K -> K -> bool) (Hok : eqb_ok eqb) (key : V -> K) k l x :
  find_by eqb key k l = Some x -> In x l /\ key x = k.
Proof.
  induction l as [|y l IH]; cbn [find_by]; [discriminate|].
  destruct (eqb (key y) k) eqn:E.
  - intros [= <-]. split; [left; reflexivity|apply Hok; exact E].
  - intros H. destruct (IH H) as [H1 H2]. split; [right; exact H1|exact H2].
Qed.

Lemma find_by_None {K V} (eqb : K -> K -> bool) (Hok : eqb_ok eqb) (key : V -> K) k l :
  find_by eqb key k l = None <-> ~ In k (map key l).
Proof.
  induction l as [|y l IH]; cbn [find_by map In]; [tauto|].
  destruct (eqb (key y) k) eqn:E.
  - apply Hok in E. split; [discriminate|]. intros H. exfalso. apply H. left. exact E.
  - apply (eqb_ok_false eqb Hok) in E. rewrite IH. tauto.
Qed.

Lemma find_by_In {K V} (eqb : K -> K -> bool) (Hok : eqb_ok eqb) (key : V -> K) l x :
  NoDup (map key l) -> In x l -> find_by eqb key (key x) l = Some x.
Proof.
  induction l as [|y l IH]; intros Hnd Hin; [destruct Hin|].
  cbn [map] in Hnd. inversion Hnd as [|? ? Hy Hnd']; subst. cbn [find_by].
  destruct Hin as [->|Hin].
  - rewrite (eqb_ok_refl eqb Hok). reflexivity.
  - destruct (eqb (key y) (key x)) eqn:E.
    + apply Hok in E. exfalso. apply Hy. rewrite E. apply in_map. exact Hin.
    + apply IH; assumption.
Qed.

Lemma find_by_iff {K V} (eqb : K -> K -> bool) (Hok : eqb_ok eqb) (key : V -> K) k l x :
  NoDup (map key l) -> (find_by eqb key k l = Some x <-> In x l /\ key x = k).
Proof.
  intros Hnd. split; [apply find_by_Some; exact Hok|].
  intros [Hin <-]. apply find_by_In; assumption.
Qed.

(* ---------- the join that zip_map computes ---------- *)
Definition cl {V} (c : comb V) : option V := match c with CA x => Some x | CB _ => None | CAB x _ => Some x end.
Definition cr {V} (c : comb V) : option V := match c with CA _ => None | CB y => Some y | CAB _ y => Some y end.
Definition ckey {K V} (key : V -> K) (c : comb V) : K :=
  match c with CA x => key x | CB y => key y | CAB x _ => key x end.
Definition side_a {V} (ab : comb (list V)) : list V := match ab with CA a => a | CB _ => [] | CAB a _ => a end.
Definition side_b {V} (ab : comb (list V)) : list V := match ab with CA _ => [] | CB b => b | CAB _ b => b end.
Definition okids {V U} (g : V -> list U) (o : option V) : list U := match o with Some x => g x | None => [] end.

Lemma side_a_cmap {V U} (g : V -> list U) c : side_a (cmap g c) = okids g (cl c).
Proof. destruct c; reflexivity. Qed.
Lemma side_b_cmap {V U} (g : V -> list U) c : side_b (cmap g c) = okids g (cr c).
Proof. destruct c; reflexivity. Qed.

Lemma comb_of_sides {V} (x y : option V) c : comb_of x y = Some c -> cl c = x /\ cr c = y.
Proof. destruct x, y; cbn [comb_of]; intros [= <-]; auto. Qed.

Lemma comb_of_cl_cr {V} (c : comb V) : comb_of (cl c) (cr c) = Some c.
Proof. destruct c; reflexivity. Qed.

Definition zip_list {K V} (eqb : K -> K -> bool) (key : V -> K) (a b : list V) : list (comb V) :=
  map (fun x => match find_by eqb key (key x) b with Some y => CAB x y | None => CA x end) a
  ++ map CB (filter (fun y => negb (memb eqb (key y) (map key a))) b).

Lemma filter_map_key {K V} (p : K -> bool) (key : V -> K) l :
  filter p (map key l) = map key (filter (fun y => p (key y)) l).
Proof.
  induction l as [|y l IH]; cbn [map filter]; [reflexivity|].
  destruct (p (key y)); cbn [map]; rewrite IH; reflexivity.
Qed.

Lemma zip_map_spec {K V W} (eqb : K -> K -> bool) (Hok : eqb_ok eqb) (key : V -> K) a b (f : comb V -> res W) :
  NoDup (map key a) -> NoDup (map key b) ->
  zip_map eqb key a b f = mapM f (zip_list eqb key a b).
Proof.
  intros Ha Hb. unfold zip_map, zip_list. rewrite (uniq_union eqb Hok _ _ Ha Hb). unfold union.
  rewrite filter_map_key, mapM_app, !mapM_map.
  rewrite (mapM_ok_in _ (fun x => match find_by eqb key (key x) b with Some y => CAB x y | None => CA x end) a).
  2:{ intros x Hx. rewrite (find_by_In eqb Hok key a x Ha Hx).
      destruct (find_by eqb key (key x) b); reflexivity. }
  cbn [bind].
  rewrite (mapM_ok_in _ CB (filter (fun y => negb (memb eqb (key y) (map key a))) b)).
  2:{ intros y Hy. apply filter_In in Hy. destruct Hy as [Hy Hm].
      apply negb_true_iff in Hm. apply (memb_false eqb Hok) in Hm.
      apply (find_by_None eqb Hok key) in Hm. rewrite Hm.
      rewrite (find_by_In eqb Hok key b y Hb Hy). reflexivity. }
  cbn [bind]. reflexivity.
Qed.

Lemma zip_comb_spec {K V W} (eqb : K -> K -> bool) (Hok : eqb_ok eqb) (key : V -> K) ab (f : comb V -> res W) :
  NoDup (map key (side_a ab)) -> NoDup (map key (side_b ab)) ->
  zip_comb eqb key ab f = mapM f (zip_list eqb key (side_a ab) (side_b ab)).
Proof.
  intros Ha Hb. destruct ab as [a|b|a b]; cbn [zip_comb side_a side_b] in *.
  - unfold zip_list. cbn [filter map find_by]. rewrite app_nil_r, mapM_map. reflexivity.
  - unfold zip_list. cbn [map app memb]. rewrite mapM_map.
    rewrite filter_all; [reflexivity|]. reflexivity.
  - apply zip_map_spec; assumption.
Qed.

Lemma zip_list_keys {K V} (eqb : K -> K -> bool) (key : V -> K) a b :
  map (ckey key) (zip_list eqb key a b) = union eqb (map key a) (map key b).
Proof.
  unfold zip_list, union. rewrite map_app, !map_map, filter_map_key. f_equal.
  apply map_ext. intros x. destruct (find_by eqb key (key x) b); reflexivity.
Qed.

(* the combinations handed to the combiner are exactly the per-key lookups *)
Lemma zip_list_In {K V} (eqb : K -> K -> bool) (Hok : eqb_ok eqb) (key : V -> K) a b c :
  NoDup (map key a) -> NoDup (map key b) ->
  (In c (zip_list eqb key a b) <-> exists k, comb_of (find_by eqb key k a) (find_by eqb key k b) = Some c).
Proof.
  intros Ha Hb. unfold zip_list. rewrite in_app_iff, !in_map_iff. split.
  - intros [(x & <- & Hx)|(y & <- & Hy)].
    + exists (key x). rewrite (find_by_In eqb Hok key a x Ha Hx).
      destruct (find_by eqb key (key x) b); reflexivity.
    + apply filter_In in Hy. destruct Hy as [Hy Hm].
      apply negb_true_iff in Hm. apply (memb_false eqb Hok) in Hm.
      apply (find_by_None eqb Hok key) in Hm. exists (key y). rewrite Hm.
      rewrite (find_by_In eqb Hok key b y Hb Hy). reflexivity.
  - intros (k & Hc). destruct (find_by eqb key k a) as [x|] eqn:Ea.
    + left. apply (find_by_Some eqb Hok) in Ea. destruct Ea as [Hx <-]. exists x. split; [|exact Hx].
      destruct (find_by eqb key (key x) b); cbn [comb_of] in Hc; congruence.
    + destruct (find_by eqb key k b) as [y|] eqn:Eb; cbn [comb_of] in Hc; [|discriminate].
      injection Hc as <-. right. exists y. split; [reflexivity|].
      apply (find_by_Some eqb Hok) in Eb. destruct Eb as [Hy <-].
      apply filter_In. split; [exact Hy|]. apply negb_true_iff, (memb_false eqb Hok).
      apply (find_by_None eqb Hok key). exact Ea.
Qed.

(* what a combination found under key k looks like *)
Lemma comb_of_find {K V} (eqb : K -> K -> bool) (Hok : eqb_ok eqb) (key : V -> K) a b k c :
  comb_of (find_by eqb key k a) (find_by eqb key k b) = Some c ->
  ckey key c = k
  /\ (forall x, cl c = Some x -> In x a /\ key x = k)
  /\ (forall y, cr c = Some y -> In y b /\ key y = k).
Proof.
  intros Hc. destruct (comb_of_sides _ _ _ Hc) as [Hl Hr].
  assert (H1 : forall x, cl c = Some x -> In x a /\ key x = k).
  { intros x Hx. rewrite Hl in Hx. apply (find_by_Some eqb Hok) in Hx. exact Hx. }
  assert (H2 : forall y, cr c = Some y -> In y b /\ key y = k).
  { intros y Hy. rewrite Hr in Hy. apply (find_by_Some eqb Hok) in Hy. exact Hy. }
  split; [|split; assumption].
  destruct c as [x|y|x y]; cbn [ckey cl cr] in *.
  - apply (H1 x eq_refl).
  - apply (H2 y eq_refl).
  - apply (H1 x eq_refl).
Qed.

(* ---------- the result of a successful zip, as a specification ---------- *)
Definition zip_spec {K V} (eqb : K -> K -> bool) (key : V -> K) (f : comb V -> res V) (la lb r : list V) : Prop :=
  Forall2 (fun c w => f c = Ok w) (zip_list eqb key la lb) r
  /\ map key r = union eqb (map key la) (map key lb)
  /\ forall k, match comb_of (find_by eqb key k la) (find_by eqb key k lb) with
               | None => find_by eqb key k r = None
               | Some c => exists w, f c = Ok w /\ find_by eqb key k r = Some w
               end.

Lemma zip_comb_ok {K V} (eqb : K -> K -> bool) (Hok : eqb_ok eqb) (key : V -> K) ab (f : comb V -> res V) r :
  NoDup (map key (side_a ab)) -> NoDup (map key (side_b ab)) ->
  (forall k c w, comb_of (find_by eqb key k (side_a ab)) (find_by eqb key k (side_b ab)) = Some c ->
                 f c = Ok w -> key w = k) ->
  zip_comb eqb key ab f = Ok r ->
  zip_spec eqb key f (side_a ab) (side_b ab) r.
Proof.
  intros Ha Hb Hkey Hz. rewrite (zip_comb_spec eqb Hok key ab f Ha Hb) in Hz.
  apply mapM_Forall2 in Hz. set (la := side_a ab) in *. set (lb := side_b ab) in *.
  assert (Hkeys : map key r = union eqb (map key la) (map key lb)).
  { rewrite <- zip_list_keys.
    assert (Hin : forall c, In c (zip_list eqb key la lb) -> forall w, f c = Ok w -> key w = ckey key c).
    { intros c Hc w Hw. apply (zip_list_In eqb Hok key la lb c Ha Hb) in Hc. destruct Hc as (k & Hc).
      rewrite (Hkey k c w Hc Hw). symmetry. apply (comb_of_find eqb Hok key la lb k c Hc). }
    clear Hkey. induction Hz as [|c w l r' Hcw Hz IH]; [reflexivity|].
    cbn [map]. f_equal.
    - apply Hin; [left; reflexivity|exact Hcw].
    - apply IH. intros c' Hc'. apply Hin. right. exact Hc'. }
  split; [exact Hz|]. split; [exact Hkeys|].
  assert (Hnd : NoDup (map key r)).
  { rewrite Hkeys. apply (union_NoDup eqb Hok); assumption. }
  intros k. destruct (comb_of (find_by eqb key k la) (find_by eqb key k lb)) as [c|] eqn:Ec.
  - assert (Hc : In c (zip_list eqb key la lb)).
    { apply (zip_list_In eqb Hok key la lb c Ha Hb). exists k. exact Ec. }
    destruct (Forall2_In_l _ _ _ _ Hz Hc) as (w & Hw & Hf). exists w. split; [exact Hf|].
    apply (find_by_iff eqb Hok key k r w Hnd). split; [exact Hw|]. apply (Hkey k c w Ec Hf).
  - apply (find_by_None eqb Hok key). intros Hin. apply in_map_iff in Hin. destruct Hin as (w & Hkw & Hw).
    destruct (Forall2_In_r _ _ _ _ Hz Hw) as (c & Hc & Hf).
    apply (zip_list_In eqb Hok key la lb c Ha Hb) in Hc. destruct Hc as (k' & Hc).
    rewrite (Hkey k' c w Hc Hf) in Hkw. subst k'. rewrite Ec in Hc. discriminate.
Qed.

Lemma zip_comb_err {K V W} (eqb : K -> K -> bool) (Hok : eqb_ok eqb) (key : V -> K) ab (f : comb V -> res W) :
  NoDup (map key (side_a ab)) -> NoDup (map key (side_b ab)) ->
  (zip_comb eqb key ab f = Err <->
   exists k c, comb_of (find_by eqb key k (side_a ab)) (find_by eqb key k (side_b ab)) = Some c /\ f c = Err).
Proof.
  intros Ha Hb. rewrite (zip_comb_spec eqb Hok key ab f Ha Hb), mapM_Err. split.
  - intros (c & Hc & Hf). apply (zip_list_In eqb Hok key _ _ c Ha Hb) in Hc. destruct Hc as (k & Hc).
    exists k, c. auto.
  - intros (k & c & Hc & Hf). exists c. split; [|exact Hf].
    apply (zip_list_In eqb Hok key _ _ c Ha Hb). exists k. exact Hc.
Qed.

(* the `unreachable!()` arm of zip_map is not reached: every key of the union is found on a side *)
Lemma zip_map_reaches_no_unreachable {K V} (eqb : K -> K -> bool) (Hok : eqb_ok eqb) (key : V -> K) a b k :
  In k (uniq eqb (map key a ++ map key b)) ->
  comb_of (find_by eqb key k a) (find_by eqb key k b) <> None.
Proof.
  intros Hin Hn.
  assert (Hk : In k (map key a ++ map key b)).
  { clear Hn. unfold uniq in Hin. revert Hin. generalize (@nil K). generalize (map key a ++ map key b).
    induction l as [|x l IH]; intros seen Hin; [destruct Hin|]. cbn [uniq_from] in Hin.
    destruct (memb eqb x seen).
    - right. apply (IH seen). exact Hin.
    - destruct Hin as [->|Hin]; [left; reflexivity|right; apply (IH (x :: seen)); exact Hin]. }
  destruct (find_by eqb key k a) eqn:Ea; destruct (find_by eqb key k b) eqn:Eb; cbn [comb_of] in Hn; try discriminate.
  apply (find_by_None eqb Hok key) in Ea, Eb. apply in_app_iff in Hk. tauto.
Qed.
