(* C09 — Theorem 3, second form, for B: the merged set filtered to the key paths of B, reduced to
   the columns (s, b) and to B's comments, is B REORDERED — at every level the entries whose key
   A also has come first, in A's order, then the rest in B's order ([reorder A B], exact equality);
   [reorder A B] is B up to the order of entries at every level ([mappings_equiv], the relation of
   C03: nested permutations with equal entries), hence has the same canonical form as B. *)
From FB Require Import C09.Model C09.Theory C09.Theory2 C09.Theory3 C09.Theory5 C09.Theory7 C09.Theory8.
From FB Require C03.Theory6.
From Coq Require Import Lia PeanoNat.

(* ---------- the order law, as a function of A and B alone ---------- *)
(* [reord eqb key ka lb]: the entries of lb whose key is in ka, in the order of ka; then the
   entries of lb whose key is not in ka, in the order of lb *)
Definition reord {K V} (eqb : K -> K -> bool) (key : V -> K) (ka : list K) (lb : list V) : list V :=
  filter_map (fun k => find_by eqb key k lb) ka ++ filter (fun y => negb (memb eqb (key y) ka)) lb.

(* a method of B: its parameters reordered along the parameters of A's method with the same key
   (no such method: [prms None = []], nothing moves) *)
Definition reord_meth_by (ox : option meth) (y : meth) : meth :=
  mkMeth (m_desc y) (m_names y) (m_doc y) (reord N.eqb param_key (map param_key (prms ox)) (m_params y)).
Definition reord_meth (xs : list meth) (y : meth) : meth :=
  reord_meth_by (find_by mkeqb meth_key (meth_key y) xs) y.
Definition reord_class_by (ox : option class) (y : class) : class :=
  mkClass (c_names y) (c_doc y)
    (reord mkeqb field_key (map field_key (flds ox)) (c_fields y))
    (map (reord_meth (mths ox)) (reord mkeqb meth_key (map meth_key (mths ox)) (c_methods y))).
Definition reord_class (xs : list class) (y : class) : class :=
  reord_class_by (find_by ckeqb class_key (class_key y) xs) y.
Definition reorder (A B : mappings) : mappings :=
  mkMappings (ms_ns B) (ms_doc B)
    (map (reord_class (ms_classes A)) (reord ckeqb class_key (map class_key (ms_classes A)) (ms_classes B))).

(* nothing to follow: nothing moves *)
Lemma reord_nil {K V} (eqb : K -> K -> bool) (key : V -> K) lb : reord eqb key [] lb = lb.
Proof. unfold reord. cbn [filter_map app memb existsb negb]. apply filter_all. reflexivity. Qed.

(* ---------- the generic step ---------- *)
Definition selb {V} (h : option V -> V -> V) (c : comb V) : option V :=
  match cr c with Some y => Some (h (cl c) y) | None => None end.

Lemma filter_map_selb_zip {K V} (eqb : K -> K -> bool) (Hok : eqb_ok eqb) (key : V -> K)
    (h : option V -> V -> V) la lb :
  NoDup (map key la) ->
  filter_map (selb h) (zip_list eqb key la lb)
  = map (fun y => h (find_by eqb key (key y) la) y) (reord eqb key (map key la) lb).
Proof.
  intros Ha. unfold zip_list, reord. rewrite filter_map_app, map_app. f_equal.
  - assert (H : forall l, incl l la ->
      filter_map (selb h) (map (fun x => match find_by eqb key (key x) lb with Some y => CAB x y | None => CA x end) l)
      = map (fun y => h (find_by eqb key (key y) la) y) (filter_map (fun k => find_by eqb key k lb) (map key l))).
    { induction l as [|x l IH]; intros Hl; [reflexivity|]. cbn [map filter_map].
      assert (Hl' : incl l la) by (intros z Hz; apply Hl; right; exact Hz).
      destruct (find_by eqb key (key x) lb) as [y|] eqn:E; cbn [selb cr cl map].
      - rewrite (IH Hl'). f_equal. apply (find_by_Some eqb Hok) in E. destruct E as [_ E].
        rewrite E, (find_by_In eqb Hok key la x Ha (Hl x (or_introl eq_refl))). reflexivity.
      - apply (IH Hl'). }
    apply H. apply incl_refl.
  - induction lb as [|y l IH]; [reflexivity|]. cbn [filter].
    destruct (negb (memb eqb (key y) (map key la))) eqn:E; [|exact IH].
    cbn [map filter_map selb cr cl]. rewrite IH. f_equal.
    apply negb_true_iff, (memb_false eqb Hok), (find_by_None eqb Hok key) in E. rewrite E. reflexivity.
Qed.

Lemma restr_zip_b {K V} (eqb : K -> K -> bool) (Hok : eqb_ok eqb) (key : V -> K) f la lb r
    (rs : V -> option V) (h : option V -> V -> V) :
  zip_spec eqb key f la lb r -> NoDup (map key la) -> NoDup (map key lb) ->
  (forall k c w, comb_of (find_by eqb key k la) (find_by eqb key k lb) = Some c -> f c = Ok w -> rs w = selb h c) ->
  filter_map rs r = map (fun y => h (find_by eqb key (key y) la) y) (reord eqb key (map key la) lb).
Proof.
  intros (Hz & _ & _) Ha Hb H.
  rewrite (filter_map_Forall2 _ rs (selb h) _ _ Hz); [apply (filter_map_selb_zip eqb Hok); exact Ha|].
  intros c w Hc Hf. apply (zip_list_In eqb Hok key la lb c Ha Hb) in Hc. destruct Hc as (k & Hc).
  apply (H k c w Hc Hf).
Qed.

(* ---------- level by level ---------- *)
Lemma restr_params_b la lb r :
  zip_spec N.eqb param_key merge_param la lb r ->
  Forall Pparam la -> Forall Pparam lb -> NoDup (map param_key la) -> NoDup (map param_key lb) ->
  filter_map (restr_param 2 lb) r = reord N.eqb param_key (map param_key la) lb.
Proof.
  intros Hz Ha Hb Hna Hnb.
  etransitivity; [|apply map_id].
  apply (restr_zip_b N.eqb N_eqb_ok param_key merge_param la lb r _ (fun _ y => y) Hz Hna Hnb).
  intros k c w Hc Hf.
  destruct (arises_ok N.eqb N_eqb_ok param_key Pparam la lb k c Ha Hb Hc) as (Hk & Hco & Hcw).
  destruct (merge_param_ok c w Hco Hcw Hf) as (Hkey & _).
  destruct (comb_of_sides _ _ _ Hc) as [_ Er].
  unfold restr_param, selb. rewrite Hkey, Hk, <- Er.
  destruct (cr c) as [y|] eqn:Ey; [|reflexivity]. f_equal. apply (proj_param c w Hco Hcw Hf). exact Ey.
Qed.

Lemma restr_fields_b la lb r :
  zip_spec mkeqb field_key merge_field la lb r ->
  Forall Pfield la -> Forall Pfield lb -> NoDup (map field_key la) -> NoDup (map field_key lb) ->
  filter_map (restr_field 2 lb) r = reord mkeqb field_key (map field_key la) lb.
Proof.
  intros Hz Ha Hb Hna Hnb.
  etransitivity; [|apply map_id].
  apply (restr_zip_b mkeqb mkeqb_ok field_key merge_field la lb r _ (fun _ y => y) Hz Hna Hnb).
  intros k c w Hc Hf.
  destruct (arises_ok mkeqb mkeqb_ok field_key Pfield la lb k c Ha Hb Hc) as (Hk & Hco & Hcw).
  destruct (merge_field_ok c w Hco Hcw Hf) as (Hkey & _).
  destruct (comb_of_sides _ _ _ Hc) as [_ Er].
  unfold restr_field, selb. rewrite Hkey, Hk, <- Er.
  destruct (cr c) as [y|] eqn:Ey; [|reflexivity]. f_equal. apply (proj_field c w Hco Hcw Hf). exact Ey.
Qed.

Lemma restr_meths_b la lb r :
  zip_spec mkeqb meth_key merge_meth la lb r ->
  Forall Pmeth la -> Forall Pmeth lb -> NoDup (map meth_key la) -> NoDup (map meth_key lb) ->
  filter_map (restr_meth 2 lb) r = map (reord_meth la) (reord mkeqb meth_key (map meth_key la) lb).
Proof.
  intros Hz Ha Hb Hna Hnb.
  apply (restr_zip_b mkeqb mkeqb_ok meth_key merge_meth la lb r _ reord_meth_by Hz Hna Hnb).
  intros k c w Hc Hf.
  destruct (arises_ok mkeqb mkeqb_ok meth_key Pmeth la lb k c Ha Hb Hc) as (Hk & Hco & Hcw).
  destruct (merge_meth_ok c w Hco Hcw Hf) as (Hkey & _ & _ & Hzp & _).
  destruct (comb_of_sides _ _ _ Hc) as [_ Er].
  unfold restr_meth, selb. rewrite Hkey, Hk, <- Er.
  destruct (cwf_side _ _ Hcw) as [Hwl Hwr].
  destruct (prms_wf 2 (cl c) Hwl) as [Hpa Hnpa]. destruct (prms_wf 2 (cr c) Hwr) as [Hpb Hnpb].
  pose proof (restr_params_b _ _ _ Hzp Hpa Hpb Hnpa Hnpb) as Hr.
  destruct (proj_meth c w Hco Hcw Hf) as [_ Hp].
  destruct (cr c) as [y|] eqn:Ey; [|reflexivity]. f_equal. specialize (Hp y eq_refl).
  cbn [prms] in Hr. unfold reord_meth_by. rewrite Hr.
  pose proof (f_equal m_desc Hp) as E1. pose proof (f_equal m_names Hp) as E2. pose proof (f_equal m_doc Hp) as E3.
  cbn [m_desc m_names m_doc] in E1, E2, E3. rewrite E1, E2, E3. reflexivity.
Qed.

Lemma restr_classes_b la lb r :
  zip_spec ckeqb class_key merge_class la lb r ->
  Forall Pclass la -> Forall Pclass lb -> NoDup (map class_key la) -> NoDup (map class_key lb) ->
  filter_map (restr_class 2 lb) r = map (reord_class la) (reord ckeqb class_key (map class_key la) lb).
Proof.
  intros Hz Ha Hb Hna Hnb.
  apply (restr_zip_b ckeqb ckeqb_ok class_key merge_class la lb r _ reord_class_by Hz Hna Hnb).
  intros k c w Hc Hf.
  destruct (arises_ok ckeqb ckeqb_ok class_key Pclass la lb k c Ha Hb Hc) as (Hk & Hco & Hcw).
  destruct (merge_class_ok c w Hco Hcw Hf) as (Hkey & _ & _ & Hzf & Hzm & _).
  destruct (comb_of_sides _ _ _ Hc) as [_ Er].
  unfold restr_class, selb. rewrite Hkey, Hk, <- Er.
  destruct (cwf_side _ _ Hcw) as [Hwl Hwr].
  destruct (flds_wf 2 (cl c) Hwl) as [Hfa Hnfa]. destruct (flds_wf 2 (cr c) Hwr) as [Hfb Hnfb].
  destruct (mths_wf 2 (cl c) Hwl) as [Hma Hnma]. destruct (mths_wf 2 (cr c) Hwr) as [Hmb Hnmb].
  pose proof (restr_fields_b _ _ _ Hzf Hfa Hfb Hnfa Hnfb) as Hrf.
  pose proof (restr_meths_b _ _ _ Hzm Hma Hmb Hnma Hnmb) as Hrm.
  destruct (proj_class c w Hco Hcw Hf) as [_ Hp].
  destruct (cr c) as [y|] eqn:Ey; [|reflexivity]. f_equal. specialize (Hp y eq_refl).
  cbn [flds mths] in Hrf, Hrm. unfold reord_class_by. rewrite Hrf, Hrm.
  pose proof (f_equal c_names Hp) as E1. pose proof (f_equal c_doc Hp) as E2.
  cbn [c_names c_doc] in E1, E2. rewrite E1, E2. reflexivity.
Qed.

(* ---------- the exact order law ---------- *)
Theorem merge_restrict_b_exact A B M : wf2 A = true -> wf2 B = true -> merge A B = Ok M ->
  restrict 2 B M = reorder A B.
Proof.
  intros HA HB HM. destruct (merge_ok A B M HA HB HM) as (Hs & Hns & Hdoc & Hnc & Hz & _).
  destruct (wf2_shape A HA) as (s & a & EnA & _ & _ & HcA & HdA).
  destruct (wf2_shape B HB) as (s' & b & EnB & _ & _ & HcB & HdB).
  unfold restrict, reorder. rewrite (restr_classes_b _ _ _ Hz HcA HcB HdA HdB), Hns, Hdoc, EnA, EnB.
  rewrite EnA, EnB in Hs. cbn [nth] in Hs. subst s'. cbn [nth]. rewrite (mask_r _ _ Hnc). reflexivity.
Qed.

(* ---------- [reord] is a permutation ---------- *)
Lemma in_filter_map {A B} (g : A -> option B) l y : In y (filter_map g l) <-> exists x, In x l /\ g x = Some y.
Proof.
  induction l as [|x l IH]; cbn [filter_map].
  - split; [intros []|intros (x & [] & _)].
  - destruct (g x) as [z|] eqn:E.
    + cbn [In]. rewrite IH. split.
      * intros [<-|(x' & Hx' & Hg)]; [exists x; split; [left; reflexivity|exact E]|exists x'; split; [right; exact Hx'|exact Hg]].
      * intros (x' & [<-|Hx'] & Hg); [left; congruence|right; exists x'; auto].
    + rewrite IH. split.
      * intros (x' & Hx' & Hg). exists x'. split; [right; exact Hx'|exact Hg].
      * intros (x' & [<-|Hx'] & Hg); [congruence|exists x'; auto].
Qed.

Lemma NoDup_app_disj {A} (l1 l2 : list A) :
  NoDup l1 -> NoDup l2 -> (forall x, In x l1 -> ~ In x l2) -> NoDup (l1 ++ l2).
Proof.
  induction l1 as [|x l1 IH]; intros H1 H2 Hd; cbn [app]; [exact H2|].
  inversion H1 as [|? ? Hx H1']; subst. constructor.
  - rewrite in_app_iff. intros [H|H]; [exact (Hx H)|]. apply (Hd x (or_introl eq_refl) H).
  - apply IH; auto. intros z Hz. apply Hd. right. exact Hz.
Qed.

Lemma NoDup_filter_map_key {K V} (key : V -> K) (g : K -> option V) ka :
  NoDup ka -> (forall k y, g k = Some y -> key y = k) -> NoDup (filter_map g ka).
Proof.
  intros Hnd Hg. induction Hnd as [|k ka Hk Hnd IH]; cbn [filter_map]; [constructor|].
  destruct (g k) as [y|] eqn:E; [|exact IH]. constructor; [|exact IH].
  intros Hin. apply in_filter_map in Hin. destruct Hin as (k' & Hk' & Hg').
  apply Hg in E. apply Hg in Hg'. apply Hk. congruence.
Qed.

Lemma reord_In {K V} (eqb : K -> K -> bool) (Hok : eqb_ok eqb) (key : V -> K) ka lb y :
  NoDup (map key lb) -> (In y (reord eqb key ka lb) <-> In y lb).
Proof.
  intros Hb. unfold reord. rewrite in_app_iff, in_filter_map, filter_In. split.
  - intros [(k & _ & Hf)|[H _]]; [|exact H]. apply (find_by_Some eqb Hok) in Hf. apply Hf.
  - intros Hy. destruct (memb eqb (key y) ka) eqn:E.
    + left. exists (key y). split; [apply (memb_In eqb Hok); exact E|apply (find_by_In eqb Hok); assumption].
    + right. split; [exact Hy|reflexivity].
Qed.

Lemma reord_NoDup {K V} (eqb : K -> K -> bool) (Hok : eqb_ok eqb) (key : V -> K) ka lb :
  NoDup ka -> NoDup (map key lb) -> NoDup (reord eqb key ka lb).
Proof.
  intros Ha Hb. unfold reord. apply NoDup_app_disj.
  - apply (NoDup_filter_map_key key); [exact Ha|]. intros k y Hf. apply (find_by_Some eqb Hok) in Hf. apply Hf.
  - apply NoDup_filter. apply NoDup_map_inv with (f := key). exact Hb.
  - intros y H1 H2. apply in_filter_map in H1. destruct H1 as (k & Hk & Hf).
    apply (find_by_Some eqb Hok) in Hf. destruct Hf as [_ <-].
    apply filter_In in H2. destruct H2 as [_ H2]. apply negb_true_iff, (memb_false eqb Hok) in H2. exact (H2 Hk).
Qed.

Lemma reord_perm {K V} (eqb : K -> K -> bool) (Hok : eqb_ok eqb) (key : V -> K) ka lb :
  NoDup ka -> NoDup (map key lb) -> Permutation lb (reord eqb key ka lb).
Proof.
  intros Ha Hb. apply NoDup_Permutation.
  - apply NoDup_map_inv with (f := key). exact Hb.
  - apply (reord_NoDup eqb Hok); assumption.
  - intros y. symmetry. apply (reord_In eqb Hok). exact Hb.
Qed.

(* ---------- [reorder A B] is B up to order at every level ---------- *)
Import C03.Theory6.

Lemma Forall2_map_r_in {A} (R : A -> A -> Prop) (g : A -> A) l :
  (forall y, In y l -> R y (g y)) -> Forall2 R l (map g l).
Proof.
  induction l as [|y l IH]; intros H; cbn [map]; constructor.
  - apply H. left. reflexivity.
  - apply IH. intros z Hz. apply H. right. exact Hz.
Qed.

Lemma perm_upto_reord {K V} (eqb : K -> K -> bool) (Hok : eqb_ok eqb) (key : V -> K) (R : V -> V -> Prop) g ka lb :
  NoDup ka -> NoDup (map key lb) -> (forall y, In y lb -> R y (g y)) ->
  perm_upto R lb (map g (reord eqb key ka lb)).
Proof.
  intros Ha Hb H. exists (reord eqb key ka lb). split; [apply (reord_perm eqb Hok); assumption|].
  apply Forall2_map_r_in. intros y Hy. apply H. apply (reord_In eqb Hok key ka lb y Hb). exact Hy.
Qed.

Lemma reord_meth_equiv ox y : (forall x, ox = Some x -> Pmeth x) -> Pmeth y -> meth_equiv y (reord_meth_by ox y).
Proof.
  intros Hx Hy. unfold meth_equiv, reord_meth_by. cbn [m_desc m_names m_doc m_params].
  repeat split. destruct (prms_wf 2 ox Hx) as [_ Hna]. destruct (meth_shape _ _ Hy) as (_ & _ & _ & Hnb).
  apply (reord_perm N.eqb N_eqb_ok); assumption.
Qed.

Lemma find_by_P {K V} (eqb : K -> K -> bool) (Hok : eqb_ok eqb) (key : V -> K) (P : V -> Prop) k l :
  Forall P l -> forall x, find_by eqb key k l = Some x -> P x.
Proof.
  intros Hl x Hf. apply (find_by_Some eqb Hok) in Hf. rewrite Forall_forall in Hl. apply Hl, Hf.
Qed.

Lemma reord_class_equiv ox y : (forall x, ox = Some x -> Pclass x) -> Pclass y -> class_equiv y (reord_class_by ox y).
Proof.
  intros Hx Hy. unfold class_equiv, reord_class_by. cbn [c_names c_doc c_fields c_methods].
  destruct (flds_wf 2 ox Hx) as [_ Hnfa]. destruct (mths_wf 2 ox Hx) as [Hma Hnma].
  destruct (class_shape _ _ Hy) as (_ & _ & _ & Hnfb & Hmb & Hnmb).
  split; [reflexivity|]. split; [reflexivity|]. split.
  - apply (reord_perm mkeqb mkeqb_ok); assumption.
  - apply (perm_upto_reord mkeqb mkeqb_ok); [assumption|assumption|].
    intros m Hm. apply reord_meth_equiv.
    + apply (find_by_P mkeqb mkeqb_ok meth_key Pmeth). exact Hma.
    + rewrite Forall_forall in Hmb. apply Hmb. exact Hm.
Qed.

Theorem reorder_equiv A B : wf2 A = true -> wf2 B = true -> mappings_equiv B (reorder A B).
Proof.
  intros HA HB.
  destruct (wf2_shape A HA) as (s & a & EnA & _ & _ & HcA & HdA).
  destruct (wf2_shape B HB) as (s' & b & EnB & _ & _ & HcB & HdB).
  unfold mappings_equiv, reorder. cbn [ms_ns ms_doc ms_classes].
  split; [reflexivity|]. split; [reflexivity|].
  apply (perm_upto_reord ckeqb ckeqb_ok); [assumption|assumption|].
  intros y Hy. apply reord_class_equiv.
  - apply (find_by_P ckeqb ckeqb_ok class_key Pclass). exact HcA.
  - rewrite Forall_forall in HcB. apply HcB. exact Hy.
Qed.

(* ---------- the statement of the property's third clause for B ---------- *)
Theorem merge_restrict_b A B M : wf2 A = true -> wf2 B = true -> merge A B = Ok M ->
  restrict 2 B M = reorder A B
  /\ mappings_equiv B (restrict 2 B M)
  /\ canon (restrict 2 B M) = canon B.
Proof.
  intros HA HB HM. pose proof (merge_restrict_b_exact A B M HA HB HM) as E.
  pose proof (reorder_equiv A B HA HB) as Hq. rewrite <- E in Hq.
  split; [exact E|]. split; [exact Hq|]. symmetry. apply canon_equiv; [|exact Hq].
  unfold wf2 in HB. apply andb_true_iff in HB. apply HB.
Qed.

(* when A shares no key with B at some level, nothing moves there; in particular merging with
   a disjoint A gives back B exactly (order included) *)
Lemma reord_disjoint {K V} (eqb : K -> K -> bool) (Hok : eqb_ok eqb) (key : V -> K) ka lb :
  (forall y, In y lb -> ~ In (key y) ka) -> reord eqb key ka lb = lb.
Proof.
  intros H. unfold reord.
  assert (E : filter_map (fun k => find_by eqb key k lb) ka = []).
  { induction ka as [|k ka IH]; [reflexivity|]. cbn [filter_map].
    destruct (find_by eqb key k lb) as [y|] eqn:Ef.
    - apply (find_by_Some eqb Hok) in Ef. destruct Ef as [Hy <-]. exfalso. apply (H y Hy). left. reflexivity.
    - apply IH. intros y Hy Hin. apply (H y Hy). right. exact Hin. }
  rewrite E. cbn [app]. apply filter_all. intros y Hy. apply negb_true_iff, (memb_false eqb Hok). apply H. exact Hy.
Qed.

(* non-vacuity and necessity of "up to order": on the example pair of Theory7 the filtered set is
   the reordered B and is NOT B (B lists C3 before C1, the merged set lists the shared C1 first) *)
Definition restrict_b_example : Prop :=
  restrict 2 exB exM = reorder exA exB /\ restrict 2 exB exM <> exB
  /\ map class_key (ms_classes (restrict 2 exB exM)) = [Some sC1; Some sC3]
  /\ map class_key (ms_classes exB) = [Some sC3; Some sC1]
  /\ equivb (restrict 2 exB exM) exB = true.
Lemma restrict_b_example_holds : restrict_b_example.
Proof.
  unfold restrict_b_example. split; [vm_compute; reflexivity|]. split; [vm_compute; discriminate|].
  repeat split; vm_compute; reflexivity.
Qed.
