(* C09 — commutation: merge B A is merge A B with the columns a and b exchanged, up to the order of
   entries at every level (merge A B lists A's entries first, merge B A lists B's first), and the one
   fails exactly when the other does. *)
From FB Require Import C09.Model C09.Theory C09.Theory2 C09.Theory3.
From FB Require C03.Theory6.
From Coq Require Import Lia PeanoNat Permutation.
Import C03.Theory6.

(* ---------- exchanging the sides of a combination ---------- *)
Definition cflip {V} (c : comb V) : comb V :=
  match c with CA a => CB a | CB b => CA b | CAB a b => CAB b a end.
Definition rmap {A B} (g : A -> B) (r : res A) : res B := match r with Ok a => Ok (g a) | Err => Err end.
(* two results: both fail, or both succeed with related values *)
Definition rel_res {W} (R : W -> W -> Prop) (r' r : res W) : Prop :=
  match r', r with Ok w', Ok w => R w' w | Err, Err => True | _, _ => False end.

Lemma cflip_cmap {V U} (g : V -> U) c : cmap g (cflip c) = cflip (cmap g c).
Proof. destruct c; reflexivity. Qed.
Lemma cflip_invol {V} (c : comb V) : cflip (cflip c) = c.
Proof. destruct c; reflexivity. Qed.
Lemma side_a_flip {V} (ab : comb (list V)) : side_a (cflip ab) = side_b ab.
Proof. destruct ab; reflexivity. Qed.
Lemma side_b_flip {V} (ab : comb (list V)) : side_b (cflip ab) = side_a ab.
Proof. destruct ab; reflexivity. Qed.
Lemma comb_of_flip {V} (x y : option V) c : comb_of y x = Some (cflip c) <-> comb_of x y = Some c.
Proof.
  destruct x, y, c; cbn [comb_of cflip]; split; intros H; try discriminate; try (injection H as <-; reflexivity);
    try (injection H as <- <-; reflexivity).
Qed.

(* ---------- the leaves: the checks are symmetric, the row is exchanged ---------- *)
Lemma merge_doc2_flip a b : merge_doc2 b a = merge_doc2 a b.
Proof.
  destruct a as [x|], b as [y|]; cbn [merge_doc2]; try reflexivity.
  destruct (str_eqb_spec x y) as [->|Hn].
  - rewrite str_eqb_refl. reflexivity.
  - destruct (str_eqb_spec y x) as [E|_]; [congruence|reflexivity].
Qed.
Lemma merge_doc_flip c : merge_doc (cflip c) = merge_doc c.
Proof. destruct c; cbn [cflip merge_doc]; try reflexivity. apply merge_doc2_flip. Qed.

Lemma merge_equal_flip {T} (eqb : T -> T -> bool) (Hok : eqb_ok eqb) c : merge_equal eqb (cflip c) = merge_equal eqb c.
Proof.
  destruct c as [a|b|a b]; cbn [cflip merge_equal]; try reflexivity.
  destruct (eqb a b) eqn:E.
  - apply Hok in E. subst b. rewrite (eqb_ok_refl eqb Hok). reflexivity.
  - apply (eqb_ok_false eqb Hok) in E.
    assert (E' : eqb b a = false) by (apply (eqb_ok_false eqb Hok); congruence).
    rewrite E'. reflexivity.
Qed.

Lemma names_from3 a b c : names_from [a; b; c] = if cell_ok a && cell_ok b && cell_ok c then Ok [a; b; c] else Err.
Proof. unfold names_from, cell_ok. cbn [forallb]. destruct a as [[|? ?]|], b as [[|? ?]|], c as [[|? ?]|]; reflexivity. Qed.

Lemma merge_names_flip c : merge_names (cflip c) = rmap swap_row (merge_names c).
Proof.
  destruct c as [l|l|l1 l2]; cbn [cflip].
  - destruct l as [|a0 [|a1 [|a2 l]]]; try reflexivity. cbn [merge_names]. rewrite !names_from3.
    cbn [cell_ok]. rewrite !andb_true_r. destruct (cell_ok a0 && cell_ok a1); reflexivity.
  - destruct l as [|a0 [|a1 [|a2 l]]]; try reflexivity. cbn [merge_names]. rewrite !names_from3.
    cbn [cell_ok]. rewrite !andb_true_r. destruct (cell_ok a0 && cell_ok a1); reflexivity.
  - destruct l1 as [|a0 [|a1 [|a2 l1]]]; destruct l2 as [|b0 [|b1 [|b2 l2]]]; try reflexivity.
    cbn [merge_names]. destruct (opt_eqb str_eqb a0 b0) eqn:E.
    + apply opt_str_eqb_true in E. subst b0. rewrite (proj2 (opt_str_eqb_true a0 a0) eq_refl).
      rewrite !names_from3. rewrite (andb_comm (cell_ok a0 && cell_ok b1) (cell_ok a1)), andb_assoc.
      rewrite (andb_comm (cell_ok a1) (cell_ok a0)), <- andb_assoc, (andb_comm (cell_ok a1) (cell_ok b1)), andb_assoc.
      destruct (cell_ok a0 && cell_ok b1 && cell_ok a1); reflexivity.
    + apply opt_str_eqb_false in E.
      assert (E' : opt_eqb str_eqb b0 a0 = false) by (apply opt_str_eqb_false; congruence).
      rewrite E'. reflexivity.
Qed.

Lemma merge_param_flip c : merge_param (cflip c) = rmap swap_param (merge_param c).
Proof.
  unfold merge_param. rewrite !cflip_cmap, (merge_equal_flip N.eqb N_eqb_ok), merge_names_flip, merge_doc_flip.
  destruct (merge_equal N.eqb (cmap p_index c)) as [i|]; cbn [bind rmap]; [|reflexivity].
  destruct (merge_names (cmap p_names c)) as [n|]; cbn [bind rmap]; [|reflexivity].
  destruct (merge_doc (cmap p_doc c)) as [d|]; reflexivity.
Qed.

Lemma merge_field_flip c : merge_field (cflip c) = rmap swap_field (merge_field c).
Proof.
  unfold merge_field. rewrite !cflip_cmap, (merge_equal_flip str_eqb str_eqb_ok), merge_names_flip, merge_doc_flip.
  destruct (merge_equal str_eqb (cmap f_desc c)) as [i|]; cbn [bind rmap]; [|reflexivity].
  destruct (merge_names (cmap f_names c)) as [n|]; cbn [bind rmap]; [|reflexivity].
  destruct (merge_doc (cmap f_doc c)) as [d|]; reflexivity.
Qed.

Lemma rel_res_rmap {W} (g : W -> W) (r : res W) : rel_res (fun w' w => w' = g w) (rmap g r) r.
Proof. destruct r; cbn [rmap rel_res]; auto. Qed.

(* ---------- the zip with the sides exchanged ---------- *)
Lemma Forall2_perm_l {A B} (Q : A -> B -> Prop) l l' :
  Permutation l l' -> forall r, Forall2 Q l r -> exists r', Permutation r r' /\ Forall2 Q l' r'.
Proof.
  induction 1 as [|x l l' _ IH|x y l|l l' l'' _ IH1 _ IH2]; intros r F.
  - inversion F; subst. exists []. split; constructor.
  - inversion F as [|? a ? t Ha Ft]; subst. destruct (IH t Ft) as (t' & Hp & Hf).
    exists (a :: t'). split; constructor; assumption.
  - inversion F as [|? a ? t Ha Ft]; subst. inversion Ft as [|? b ? t2 Hb Ft2]; subst.
    exists (b :: a :: t2). split; [apply perm_swap|repeat constructor; assumption].
  - destruct (IH1 r F) as (m & Hp1 & Hf1). destruct (IH2 m Hf1) as (m' & Hp2 & Hf2).
    exists m'. split; [etransitivity; eassumption|exact Hf2].
Qed.

Lemma Forall2_map_l {A B C} (g : A -> B) (Q : B -> C -> Prop) l r :
  Forall2 Q (map g l) r <-> Forall2 (fun x y => Q (g x) y) l r.
Proof.
  revert r. induction l as [|x l IH]; intros r; cbn [map].
  - split; intros H; inversion H; constructor.
  - split; intros H; inversion H; subst; constructor; try assumption; apply IH; assumption.
Qed.

Lemma Forall2_map_r {A B C} (g : B -> C) (Q : A -> C -> Prop) l r :
  Forall2 (fun x y => Q x (g y)) l r -> Forall2 Q l (map g r).
Proof. induction 1; cbn [map]; constructor; assumption. Qed.

Lemma Forall2_join {A B C} (P : A -> B -> Prop) (Q : A -> C -> Prop) (R : B -> C -> Prop) l lb :
  Forall2 P l lb -> forall lc, Forall2 Q l lc ->
  (forall x y z, In x l -> P x y -> Q x z -> R y z) -> Forall2 R lb lc.
Proof.
  induction 1 as [|x y l lb Hxy _ IH]; intros lc HQ H; inversion HQ as [|? z ? lc' Hxz HQ']; subst; constructor.
  - apply (H x y z); [left; reflexivity|assumption|assumption].
  - apply (IH lc' HQ'). intros a b c Ha. apply H. right. exact Ha.
Qed.

Lemma NoDup_map_of {A B} (g : A -> B) l : NoDup (map g l) -> NoDup l.
Proof.
  induction l as [|x l IH]; intros H; [constructor|]. cbn [map] in H. inversion H as [|? ? Hn Hd]; subst.
  constructor; [|apply IH; exact Hd]. intros Hin. apply Hn. apply in_map. exact Hin.
Qed.

Lemma zip_list_NoDup {K V} (eqb : K -> K -> bool) (Hok : eqb_ok eqb) (key : V -> K) a b :
  NoDup (map key a) -> NoDup (map key b) -> NoDup (zip_list eqb key a b).
Proof.
  intros Ha Hb. apply (NoDup_map_of (ckey key)). rewrite zip_list_keys. apply (union_NoDup eqb Hok); assumption.
Qed.

Lemma zip_list_flip {K V} (eqb : K -> K -> bool) (Hok : eqb_ok eqb) (key : V -> K) a b :
  NoDup (map key a) -> NoDup (map key b) ->
  Permutation (zip_list eqb key b a) (map cflip (zip_list eqb key a b)).
Proof.
  intros Ha Hb. apply NoDup_Permutation.
  - apply (zip_list_NoDup eqb Hok); assumption.
  - apply FinFun.Injective_map_NoDup; [|apply (zip_list_NoDup eqb Hok); assumption].
    intros x y E. rewrite <- (cflip_invol x), <- (cflip_invol y), E. reflexivity.
  - intros c. rewrite in_map_iff, (zip_list_In eqb Hok key b a c Hb Ha). split.
    + intros (k & Hk). exists (cflip c). split; [apply cflip_invol|].
      apply (zip_list_In eqb Hok key a b _ Ha Hb). exists k. apply (proj2 (comb_of_flip _ _ _)). exact Hk.
    + intros (c0 & <- & Hc0). apply (zip_list_In eqb Hok key a b c0 Ha Hb) in Hc0. destruct Hc0 as (k & Hk).
      exists k. apply comb_of_flip. exact Hk.
Qed.

Lemma zip_flip {K V W} (eqb : K -> K -> bool) (Hok : eqb_ok eqb) (key : V -> K)
    (f f' : comb V -> res W) (R : W -> W -> Prop) a b :
  NoDup (map key a) -> NoDup (map key b) ->
  (forall c, In c (zip_list eqb key a b) -> rel_res R (f' (cflip c)) (f c)) ->
  rel_res (perm_upto R) (mapM f' (zip_list eqb key b a)) (mapM f (zip_list eqb key a b)).
Proof.
  intros Ha Hb H. pose proof (zip_list_flip eqb Hok key a b Ha Hb) as HP.
  set (zl := zip_list eqb key a b) in *. set (zl' := zip_list eqb key b a) in *.
  destruct (mapM f zl) as [r|] eqn:E.
  - apply mapM_Forall2 in E.
    destruct (mapM f' zl') as [r'|] eqn:E'.
    + apply mapM_Forall2 in E'. cbn [rel_res].
      destruct (Forall2_perm_l _ _ _ HP r' E') as (l2 & Hp2 & HF2).
      exists l2. split; [exact Hp2|]. apply Forall2_map_l in HF2.
      apply (Forall2_join _ _ _ _ _ HF2 r E). intros c w' w Hc Hw' Hw.
      specialize (H c Hc). rewrite Hw', Hw in H. exact H.
    + exfalso. apply mapM_Err in E'. destruct E' as (c' & Hc' & Hf').
      apply (Permutation_in _ HP) in Hc'. apply in_map_iff in Hc'. destruct Hc' as (c & <- & Hc).
      destruct (Forall2_In_l _ _ _ _ E Hc) as (w & _ & Hw). specialize (H c Hc). rewrite Hf', Hw in H. exact H.
  - apply mapM_Err in E. destruct E as (c & Hc & Hf).
    assert (E' : mapM f' zl' = Err).
    { apply mapM_Err. exists (cflip c). split.
      - apply (Permutation_in _ (Permutation_sym HP)). apply in_map. exact Hc.
      - specialize (H c Hc). rewrite Hf in H. destruct (f' (cflip c)); [destruct H|reflexivity]. }
    rewrite E'. exact I.
Qed.

Lemma zip_comb_flip {K V W} (eqb : K -> K -> bool) (Hok : eqb_ok eqb) (key : V -> K)
    (f f' : comb V -> res W) (R : W -> W -> Prop) ab :
  NoDup (map key (side_a ab)) -> NoDup (map key (side_b ab)) ->
  (forall c, In c (zip_list eqb key (side_a ab) (side_b ab)) -> rel_res R (f' (cflip c)) (f c)) ->
  rel_res (perm_upto R) (zip_comb eqb key (cflip ab) f') (zip_comb eqb key ab f).
Proof.
  intros Ha Hb H. rewrite (zip_comb_spec eqb Hok key ab f Ha Hb).
  rewrite (zip_comb_spec eqb Hok key (cflip ab) f'); rewrite ?side_a_flip, ?side_b_flip; try assumption.
  apply (zip_flip eqb Hok); assumption.
Qed.

Lemma Forall2_eq_map {W} (g : W -> W) l2 l : Forall2 (fun w' w => w' = g w) l2 l -> l2 = map g l.
Proof. induction 1 as [|x y l2 l Hxy _ IH]; [reflexivity|]. cbn [map]. cbv beta in Hxy. rewrite Hxy, IH. reflexivity. Qed.

Lemma perm_upto_eq_map {W} (g : W -> W) l' l : perm_upto (fun w' w => w' = g w) l' l -> Permutation l' (map g l).
Proof.
  intros (l2 & Hp & HF). pose proof (Forall2_eq_map g l2 l HF) as E.
  rewrite <- E. exact Hp.
Qed.

Lemma perm_upto_map_r {W} (R : W -> W -> Prop) (g : W -> W) l' l :
  perm_upto (fun w' w => R w' (g w)) l' l -> perm_upto R l' (map g l).
Proof. intros (l2 & Hp & HF). exists l2. split; [exact Hp|apply Forall2_map_r; exact HF]. Qed.

(* ---------- methods, classes, the set ---------- *)
Lemma meth_kids c : cwf Pmeth c ->
  NoDup (map param_key (side_a (cmap m_params c))) /\ NoDup (map param_key (side_b (cmap m_params c))).
Proof.
  destruct c as [x|y|x y]; cbn [cwf cmap side_a side_b map]; intros H.
  - split; [apply (meth_shape _ _ H)|constructor].
  - split; [constructor|apply (meth_shape _ _ H)].
  - destruct H as [Hx Hy]. split; [apply (meth_shape _ _ Hx)|apply (meth_shape _ _ Hy)].
Qed.

Lemma merge_meth_flip c : cwf Pmeth c ->
  rel_res (fun w' w => meth_equiv w' (swap_meth w)) (merge_meth (cflip c)) (merge_meth c).
Proof.
  intros Hc. destruct (meth_kids c Hc) as [Ha Hb].
  unfold merge_meth. rewrite !cflip_cmap, (merge_equal_flip str_eqb str_eqb_ok), merge_names_flip, merge_doc_flip.
  destruct (merge_equal str_eqb (cmap m_desc c)) as [de|]; cbn [bind rmap]; [|exact I].
  destruct (merge_names (cmap m_names c)) as [n|]; cbn [bind rmap]; [|exact I].
  pose proof (zip_comb_flip N.eqb N_eqb_ok param_key merge_param merge_param (fun w' w => w' = swap_param w)
                (cmap m_params c) Ha Hb) as Hz.
  assert (Hp : forall pc, In pc (zip_list N.eqb param_key (side_a (cmap m_params c)) (side_b (cmap m_params c))) ->
               rel_res (fun w' w => w' = swap_param w) (merge_param (cflip pc)) (merge_param pc)).
  { intros pc _. rewrite merge_param_flip. apply rel_res_rmap. }
  specialize (Hz Hp).
  destruct (zip_comb N.eqb param_key (cflip (cmap m_params c)) merge_param) as [ps'|];
    destruct (zip_comb N.eqb param_key (cmap m_params c) merge_param) as [ps|]; cbn [bind rel_res] in *;
    try exact Hz; try (exfalso; exact Hz).
  destruct (merge_doc (cmap m_doc c)) as [d|]; cbn [bind rel_res]; [|exact I].
  unfold meth_equiv, swap_meth. cbn [m_desc m_names m_doc m_params]. repeat split.
  apply perm_upto_eq_map. exact Hz.
Qed.

Lemma class_kids c : cwf Pclass c ->
  NoDup (map field_key (side_a (cmap c_fields c))) /\ NoDup (map field_key (side_b (cmap c_fields c)))
  /\ NoDup (map meth_key (side_a (cmap c_methods c))) /\ NoDup (map meth_key (side_b (cmap c_methods c)))
  /\ Forall Pmeth (side_a (cmap c_methods c)) /\ Forall Pmeth (side_b (cmap c_methods c)).
Proof.
  destruct c as [x|y|x y]; cbn [cwf cmap side_a side_b map]; intros H.
  - destruct (class_shape _ _ H) as (_ & _ & _ & H1 & H2 & H3). repeat split; try assumption; constructor.
  - destruct (class_shape _ _ H) as (_ & _ & _ & H1 & H2 & H3). repeat split; try assumption; constructor.
  - destruct H as [Hx Hy]. destruct (class_shape _ _ Hx) as (_ & _ & _ & H1 & H2 & H3).
    destruct (class_shape _ _ Hy) as (_ & _ & _ & H4 & H5 & H6). repeat split; assumption.
Qed.

Lemma merge_class_flip c : cwf Pclass c ->
  rel_res (fun w' w => class_equiv w' (swap_class w)) (merge_class (cflip c)) (merge_class c).
Proof.
  intros Hc. destruct (class_kids c Hc) as (Hfa & Hfb & Hma & Hmb & HPa & HPb).
  unfold merge_class. rewrite !cflip_cmap, merge_names_flip, merge_doc_flip.
  destruct (merge_names (cmap c_names c)) as [n|]; cbn [bind rmap]; [|exact I].
  pose proof (zip_comb_flip mkeqb mkeqb_ok field_key merge_field merge_field (fun w' w => w' = swap_field w)
                (cmap c_fields c) Hfa Hfb) as Hzf.
  assert (Hf : forall fc, In fc (zip_list mkeqb field_key (side_a (cmap c_fields c)) (side_b (cmap c_fields c))) ->
               rel_res (fun w' w => w' = swap_field w) (merge_field (cflip fc)) (merge_field fc)).
  { intros fc _. rewrite merge_field_flip. apply rel_res_rmap. }
  specialize (Hzf Hf).
  destruct (zip_comb mkeqb field_key (cflip (cmap c_fields c)) merge_field) as [fs'|];
    destruct (zip_comb mkeqb field_key (cmap c_fields c) merge_field) as [fs|]; cbn [bind rel_res] in *;
    try exact Hzf; try (exfalso; exact Hzf).
  pose proof (zip_comb_flip mkeqb mkeqb_ok meth_key merge_meth merge_meth (fun w' w => meth_equiv w' (swap_meth w))
                (cmap c_methods c) Hma Hmb) as Hzm.
  assert (Hm : forall mc, In mc (zip_list mkeqb meth_key (side_a (cmap c_methods c)) (side_b (cmap c_methods c))) ->
               rel_res (fun w' w => meth_equiv w' (swap_meth w)) (merge_meth (cflip mc)) (merge_meth mc)).
  { intros mc Hmc. apply merge_meth_flip.
    apply (zip_list_In mkeqb mkeqb_ok meth_key _ _ mc Hma Hmb) in Hmc. destruct Hmc as (k & Hk).
    exact (proj2 (proj2 (arises_ok mkeqb mkeqb_ok meth_key Pmeth _ _ k mc HPa HPb Hk))). }
  specialize (Hzm Hm).
  destruct (zip_comb mkeqb meth_key (cflip (cmap c_methods c)) merge_meth) as [ms'|];
    destruct (zip_comb mkeqb meth_key (cmap c_methods c) merge_meth) as [ms|]; cbn [bind rel_res] in *;
    try exact Hzm; try (exfalso; exact Hzm).
  destruct (merge_doc (cmap c_doc c)) as [d|]; cbn [bind rel_res]; [|exact I].
  unfold class_equiv, swap_class. cbn [c_names c_doc c_fields c_methods].
  split; [reflexivity|]. split; [reflexivity|]. split.
  - apply perm_upto_eq_map. exact Hzf.
  - apply perm_upto_map_r. exact Hzm.
Qed.

Lemma merge_flip A B : wf2 A = true -> wf2 B = true ->
  rel_res (fun M' M => mappings_equiv M' (swap_ab M)) (merge B A) (merge A B).
Proof.
  intros HA HB. destruct (wf2_shape A HA) as (s & a & EnA & Hs & Ha & HcA & HdA).
  destruct (wf2_shape B HB) as (s' & b & EnB & Hs' & Hb & HcB & HdB).
  unfold merge. rewrite EnA, EnB. cbn [merge_namespaces].
  destruct (str_eqb_spec s s') as [<-|Hn].
  2:{ destruct (str_eqb_spec s' s) as [E|_]; [congruence|]. exact I. }
  rewrite str_eqb_refl. cbn [forallb]. rewrite Hs, Ha, Hb. cbn [andb bind].
  change (CAB (ms_classes B) (ms_classes A)) with (cflip (CAB (ms_classes A) (ms_classes B))).
  pose proof (zip_comb_flip ckeqb ckeqb_ok class_key merge_class merge_class (fun w' w => class_equiv w' (swap_class w))
                (CAB (ms_classes A) (ms_classes B)) HdA HdB) as Hz.
  assert (Hc : forall c, In c (zip_list ckeqb class_key (ms_classes A) (ms_classes B)) ->
               rel_res (fun w' w => class_equiv w' (swap_class w)) (merge_class (cflip c)) (merge_class c)).
  { intros c Hin. apply merge_class_flip.
    apply (zip_list_In ckeqb ckeqb_ok class_key _ _ c HdA HdB) in Hin. destruct Hin as (k & Hk).
    exact (proj2 (proj2 (arises_ok ckeqb ckeqb_ok class_key Pclass _ _ k c HcA HcB Hk))). }
  specialize (Hz Hc). cbn [side_a side_b] in Hz.
  destruct (zip_comb ckeqb class_key (cflip (CAB (ms_classes A) (ms_classes B))) merge_class) as [cs'|];
    destruct (zip_comb ckeqb class_key (CAB (ms_classes A) (ms_classes B)) merge_class) as [cs|]; cbn [bind rel_res] in *;
    try exact Hz; try (exfalso; exact Hz).
  rewrite (merge_doc2_flip (ms_doc A) (ms_doc B)).
  destruct (merge_doc2 (ms_doc A) (ms_doc B)) as [d|]; cbn [bind rel_res]; [|exact I].
  unfold mappings_equiv, swap_ab. cbn [ms_ns ms_doc ms_classes nth].
  split; [reflexivity|]. split; [reflexivity|]. apply perm_upto_map_r. exact Hz.
Qed.

(* ---------- the theorem ---------- *)
Theorem merge_comm A B : wf2 A = true -> wf2 B = true ->
  (merge A B = Err <-> merge B A = Err)
  /\ (forall M, merge A B = Ok M ->
        exists M', merge B A = Ok M' /\ mappings_equiv M' (swap_ab M) /\ canon M' = canon (swap_ab M)).
Proof.
  intros HA HB. pose proof (merge_flip A B HA HB) as H.
  destruct (merge A B) as [M|] eqn:E; destruct (merge B A) as [M'|] eqn:E'; cbn [rel_res] in H;
    try (exfalso; exact H).
  - split; [split; discriminate|]. intros M0 [= <-]. exists M'. split; [reflexivity|]. split; [exact H|].
    apply canon_equiv; [|exact H]. exact (proj1 (merge_wf B A M' HB HA E')).
  - split; [tauto|]. intros M0 H0. discriminate H0.
Qed.

(* non-vacuity; and "up to the order of entries" cannot be dropped: on the example pair of Theory7
   merge B A is the column-exchanged merge A B in another order (B lists C3 first) *)
From FB Require Import C09.Theory7.
Definition comm_example : Prop :=
  wf2 exA = true /\ wf2 exB = true /\ merge exA exB = Ok exM
  /\ match merge exB exA with
     | Ok M' => equivb M' (swap_ab exM) && negb (mappings_eqb M' (swap_ab exM))
     | Err => false
     end = true
  (* a failing pair fails in both orders *)
  /\ merge exA exB_doc = Err /\ merge exB_doc exA = Err.
Lemma comm_example_holds : comm_example.
Proof. unfold comm_example. repeat split; vm_compute; reflexivity. Qed.
