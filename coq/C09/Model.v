(* C09 — model of quill/src/action/merge.rs (Mappings::merge) and of the key-zipping helper
   it shares with diff (quill/src/action/diff_mappings.rs, mod diff_and_merge).
   Executable definitions only; the proofs are in Theory.v.

   An IndexMap<K, V> is the list of its nodes in insertion order; the key of a node is the
   one derived from its info (Quill/Mappings.v).  Error messages are not modelled. *)
From FB Require Export Quill.Mappings.

(* ---------- diff_and_merge::Combination ---------- *)
Inductive comb (T : Type) : Type := CA (a : T) | CB (b : T) | CAB (a b : T).
Arguments CA {T} a.
Arguments CB {T} b.
Arguments CAB {T} a b.

(* Combination::map *)
Definition cmap {T U} (f : T -> U) (c : comb T) : comb U :=
  match c with CA a => CA (f a) | CB b => CB (f b) | CAB a b => CAB (f a) (f b) end.

(* ---------- IndexMap / IndexSet primitives ---------- *)
(* IndexMap::get *)
Fixpoint find_by {K V} (eqb : K -> K -> bool) (key : V -> K) (k : K) (l : list V) : option V :=
  match l with
  | [] => None
  | x :: l' => if eqb (key x) k then Some x else find_by eqb key k l'
  end.

Definition memb {K} (eqb : K -> K -> bool) (k : K) (l : list K) : bool := existsb (eqb k) l.

(* `a.keys().chain(b.keys()).collect::<IndexSet<_>>()`: first occurrences, in order *)
Fixpoint uniq_from {K} (eqb : K -> K -> bool) (seen : list K) (l : list K) : list K :=
  match l with
  | [] => []
  | k :: l' => if memb eqb k seen then uniq_from eqb seen l' else k :: uniq_from eqb (k :: seen) l'
  end.
Definition uniq {K} (eqb : K -> K -> bool) (l : list K) : list K := uniq_from eqb [] l.

(* `iter.map(|x| Ok(..?)).collect::<Result<_>>()` *)
Fixpoint mapM {A B} (f : A -> res B) (l : list A) : res (list B) :=
  match l with
  | [] => Ok []
  | x :: l' => do y <- f x; do ys <- mapM f l'; Ok (y :: ys)
  end.

(* the match in zip_map; (None, None) is `unreachable!()` — Theory.v shows it is not reached *)
Definition comb_of {V} (x y : option V) : option (comb V) :=
  match x, y with
  | None, None => None
  | Some a, None => Some (CA a)
  | None, Some b => Some (CB b)
  | Some a, Some b => Some (CAB a b)
  end.

(* zip_map: first the combined map (key -> Combination) over the union of keys, then the combiner *)
Definition zip_map {K V W} (eqb : K -> K -> bool) (key : V -> K)
    (a b : list V) (f : comb V -> res W) : res (list W) :=
  let keys := uniq eqb (map key a ++ map key b) in
  do combined <- mapM (fun k => match comb_of (find_by eqb key k a) (find_by eqb key k b) with
                                | Some c => Ok c
                                | None => Err
                                end) keys;
  mapM f combined.

(* zip_map_combination (with map_combine_one_side) *)
Definition zip_comb {K V W} (eqb : K -> K -> bool) (key : V -> K)
    (ab : comb (list V)) (f : comb V -> res W) : res (list W) :=
  match ab with
  | CA a => mapM (fun x => f (CA x)) a
  | CB b => mapM (fun y => f (CB y)) b
  | CAB a b => zip_map eqb key a b f
  end.

(* ---------- merge.rs ---------- *)
(* merge_javadoc / merge_javadoc_ab *)
Definition merge_doc2 (a b : option str) : res (option str) :=
  match a, b with
  | None, None => Ok None
  | None, Some y => Ok (Some y)
  | Some x, None => Ok (Some x)
  | Some x, Some y => if str_eqb x y then Ok (Some x) else Err
  end.
Definition merge_doc (ab : comb (option str)) : res (option str) :=
  match ab with
  | CA a => Ok a
  | CB b => Ok b
  | CAB a b => merge_doc2 a b
  end.

Definition nonempty (s : str) : bool := match s with [] => false | _ => true end.

(* Namespaces::try_from([String; 3]) *)
Definition merge_namespaces (a b : list str) : res (list str) :=
  match a, b with
  | [a0; a1], [b0; b1] =>
      if str_eqb a0 b0
      then (if forallb nonempty [a0; a1; b1] then Ok [a0; a1; b1] else Err)
      else Err
  | _, _ => Err          (* excluded by the types Namespaces<2, _> *)
  end.

(* Names::try_from([Option<T>; 3]): an existing name must not be empty *)
Definition names_from (l : names) : res names :=
  if forallb (fun o => match o with Some [] => false | _ => true end) l then Ok l else Err.

Definition merge_names (ab : comb names) : res names :=
  match ab with
  | CA [a0; a1] => names_from [a0; a1; None]
  | CB [b0; b1] => names_from [b0; None; b1]
  | CAB [a0; a1] [b0; b1] =>
      if opt_eqb str_eqb a0 b0 then names_from [a0; a1; b1] else Err
  | _ => Err             (* excluded by the type Names<2, _> *)
  end.

Definition merge_equal {T} (eqb : T -> T -> bool) (ab : comb T) : res T :=
  match ab with
  | CA a => Ok a
  | CB b => Ok b
  | CAB a b => if eqb a b then Ok a else Err
  end.

(* key equalities of the four IndexMaps *)
Definition ckeqb : option str -> option str -> bool := okey_eqb str_eqb.
Definition mkeqb : option (str * str) -> option (str * str) -> bool := okey_eqb key2_eqb.

Definition merge_param (ab : comb param) : res param :=
  do i <- merge_equal N.eqb (cmap p_index ab);
  do n <- merge_names (cmap p_names ab);
  do d <- merge_doc (cmap p_doc ab);
  Ok (mkParam i n d).

Definition merge_field (ab : comb field) : res field :=
  do de <- merge_equal str_eqb (cmap f_desc ab);
  do n <- merge_names (cmap f_names ab);
  do d <- merge_doc (cmap f_doc ab);
  Ok (mkField de n d).

Definition merge_meth (ab : comb meth) : res meth :=
  do de <- merge_equal str_eqb (cmap m_desc ab);
  do n <- merge_names (cmap m_names ab);
  do ps <- zip_comb N.eqb param_key (cmap m_params ab) merge_param;
  do d <- merge_doc (cmap m_doc ab);
  Ok (mkMeth de n d ps).

Definition merge_class (ab : comb class) : res class :=
  do n <- merge_names (cmap c_names ab);
  do fs <- zip_comb mkeqb field_key (cmap c_fields ab) merge_field;
  do ms <- zip_comb mkeqb meth_key (cmap c_methods ab) merge_meth;
  do d <- merge_doc (cmap c_doc ab);
  Ok (mkClass n d fs ms).

(* Mappings::merge *)
Definition merge (A B : mappings) : res mappings :=
  do ns <- merge_namespaces (ms_ns A) (ms_ns B);
  do cs <- zip_comb ckeqb class_key (CAB (ms_classes A) (ms_classes B)) merge_class;
  do d <- merge_doc2 (ms_doc A) (ms_doc B);
  Ok (mkMappings ns d cs).

(* ---------- vocabulary of the specification (used by the theorems and by Run.v) ---------- *)
(* union of two key lists in the code's order: A's keys, then the keys only B has *)
Definition union {K} (eqb : K -> K -> bool) (ka kb : list K) : list K :=
  ka ++ filter (fun k => negb (memb eqb k ka)) kb.

(* lookups along a key path; a missing parent has no children *)
Definition cls (M : mappings) (ck : option str) : option class :=
  find_by ckeqb class_key ck (ms_classes M).
Definition flds (o : option class) : list field := match o with Some c => c_fields c | None => [] end.
Definition mths (o : option class) : list meth := match o with Some c => c_methods c | None => [] end.
Definition prms (o : option meth) : list param := match o with Some m => m_params m | None => [] end.
Definition fld (M : mappings) ck (fk : option (str * str)) : option field :=
  find_by mkeqb field_key fk (flds (cls M ck)).
Definition mth (M : mappings) ck (mk : option (str * str)) : option meth :=
  find_by mkeqb meth_key mk (mths (cls M ck)).
Definition prm (M : mappings) ck mk (i : N) : option param :=
  find_by N.eqb param_key i (prms (mth M ck mk)).

(* the merged row: [shared first name; A's second name; B's second name] *)
Definition col (i : nat) (o : option names) : option str :=
  match o with Some l => nth_name l i | None => None end.
Definition row3 (a b : option names) : names :=
  [match a with Some _ => col 0 a | None => col 0 b end; col 1 a; col 1 b].
(* the merged comment: A's if it has one, else B's *)
Definition first_some (a b : option str) : option str := match a with Some x => Some x | None => b end.
Definition odoc {T} (doc : T -> option str) (o : option T) : option str :=
  match o with Some x => doc x | None => None end.

(* projections of a merged set onto (s, column i), looked up entry by entry along X *)
Definition pick (i : nat) (l : names) : names := [nth_name l 0; nth_name l i].
Definition mask (dx dy : option str) : option str := match dx with None => None | Some _ => dy end.

Fixpoint filter_map {A B} (f : A -> option B) (l : list A) : list B :=
  match l with
  | [] => []
  | x :: l' => match f x with Some y => y :: filter_map f l' | None => filter_map f l' end
  end.

(* [view i X M]: for every entry x of X (in X's order) the entry of M with the same key,
   reduced to the columns (0, i); a comment of M is kept only where x has one *)
Definition view_param (i : nat) (ys : list param) (x : param) : option param :=
  match find_by N.eqb param_key (param_key x) ys with
  | None => None
  | Some y => Some (mkParam (p_index y) (pick i (p_names y)) (mask (p_doc x) (p_doc y)))
  end.
Definition view_field (i : nat) (ys : list field) (x : field) : option field :=
  match find_by mkeqb field_key (field_key x) ys with
  | None => None
  | Some y => Some (mkField (f_desc y) (pick i (f_names y)) (mask (f_doc x) (f_doc y)))
  end.
Definition view_meth (i : nat) (ys : list meth) (x : meth) : option meth :=
  match find_by mkeqb meth_key (meth_key x) ys with
  | None => None
  | Some y => Some (mkMeth (m_desc y) (pick i (m_names y)) (mask (m_doc x) (m_doc y))
                      (filter_map (view_param i (m_params y)) (m_params x)))
  end.
Definition view_class (i : nat) (ys : list class) (x : class) : option class :=
  match find_by ckeqb class_key (class_key x) ys with
  | None => None
  | Some y => Some (mkClass (pick i (c_names y)) (mask (c_doc x) (c_doc y))
                      (filter_map (view_field i (c_fields y)) (c_fields x))
                      (filter_map (view_meth i (c_methods y)) (c_methods x)))
  end.
Definition view (i : nat) (X M : mappings) : mappings :=
  mkMappings [nth 0 (ms_ns M) []; nth i (ms_ns M) []] (mask (ms_doc X) (ms_doc M))
    (filter_map (view_class i (ms_classes M)) (ms_classes X)).

(* [restrict i X M]: the entries of M (in M's order) whose key path exists in X, reduced to
   the columns (0, i); a comment of M is kept only where X's entry has one *)
Definition restr_param (i : nat) (xs : list param) (y : param) : option param :=
  match find_by N.eqb param_key (param_key y) xs with
  | None => None
  | Some x => Some (mkParam (p_index y) (pick i (p_names y)) (mask (p_doc x) (p_doc y)))
  end.
Definition restr_field (i : nat) (xs : list field) (y : field) : option field :=
  match find_by mkeqb field_key (field_key y) xs with
  | None => None
  | Some x => Some (mkField (f_desc y) (pick i (f_names y)) (mask (f_doc x) (f_doc y)))
  end.
Definition restr_meth (i : nat) (xs : list meth) (y : meth) : option meth :=
  match find_by mkeqb meth_key (meth_key y) xs with
  | None => None
  | Some x => Some (mkMeth (m_desc y) (pick i (m_names y)) (mask (m_doc x) (m_doc y))
                      (filter_map (restr_param i (m_params x)) (m_params y)))
  end.
Definition restr_class (i : nat) (xs : list class) (y : class) : option class :=
  match find_by ckeqb class_key (class_key y) xs with
  | None => None
  | Some x => Some (mkClass (pick i (c_names y)) (mask (c_doc x) (c_doc y))
                      (filter_map (restr_field i (c_fields x)) (c_fields y))
                      (filter_map (restr_meth i (c_methods x)) (c_methods y)))
  end.
Definition restrict (i : nat) (X M : mappings) : mappings :=
  mkMappings [nth 0 (ms_ns M) []; nth i (ms_ns M) []] (mask (ms_doc X) (ms_doc M))
    (filter_map (restr_class i (ms_classes X)) (ms_classes M)).

(* the merged set with the columns a and b exchanged (namespaces and every names row) *)
Definition swap_row (l : names) : names := [nth_name l 0; nth_name l 2; nth_name l 1].
Definition swap_param (p : param) : param := mkParam (p_index p) (swap_row (p_names p)) (p_doc p).
Definition swap_field (f : field) : field := mkField (f_desc f) (swap_row (f_names f)) (f_doc f).
Definition swap_meth (m : meth) : meth :=
  mkMeth (m_desc m) (swap_row (m_names m)) (m_doc m) (map swap_param (m_params m)).
Definition swap_class (c : class) : class :=
  mkClass (swap_row (c_names c)) (c_doc c) (map swap_field (c_fields c)) (map swap_meth (c_methods c)).
Definition swap_ab (M : mappings) : mappings :=
  mkMappings [nth 0 (ms_ns M) []; nth 2 (ms_ns M) []; nth 1 (ms_ns M) []] (ms_doc M) (map swap_class (ms_classes M)).

(* every row of a (merged) set has three cells, none of them an empty name; three non-empty namespaces *)
Definition rows_ok (M : mappings) : bool :=
  Nat.eqb (length (ms_ns M)) 3 && forallb nonempty (ms_ns M)
  && forallb (fun c => names_ok 3 (c_names c)
                       && forallb (fun f => names_ok 3 (f_names f)) (c_fields c)
                       && forallb (fun m => names_ok 3 (m_names m) && forallb (fun p => names_ok 3 (p_names p)) (m_params m))
                                  (c_methods c))
             (ms_classes M).

(* an empty name Some [] in the second column of some class / field / method / parameter row *)
Definition bad_row (l : names) : bool := match nth_name l 1 with Some [] => true | _ => false end.
Definition bad_param (p : param) : bool := bad_row (p_names p).
Definition bad_field (f : field) : bool := bad_row (f_names f).
Definition bad_meth (m : meth) : bool := bad_row (m_names m) || existsb bad_param (m_params m).
Definition bad_class (c : class) : bool :=
  bad_row (c_names c) || existsb bad_field (c_fields c) || existsb bad_meth (c_methods c).
Definition has_empty_name (M : mappings) : bool := existsb bad_class (ms_classes M).
(* the keys of every map are pairwise distinct (the part of [wf] that does not speak about names) *)
Definition uniq_meth (m : meth) : bool := nodupb N.eqb (map param_key (m_params m)).
Definition uniq_class (c : class) : bool :=
  nodupb mkeqb (map field_key (c_fields c)) && nodupb mkeqb (map meth_key (c_methods c)) && forallb uniq_meth (c_methods c).
Definition keys_unique (M : mappings) : bool :=
  nodupb ckeqb (map class_key (ms_classes M)) && forallb uniq_class (ms_classes M).

(* inputs of Mappings::merge: well-formed (Quill/Mappings.v) and exactly two namespaces *)
Definition wf2 (M : mappings) : bool := wf M && Nat.eqb (length (ms_ns M)) 2.
