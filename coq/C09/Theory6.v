(* C09 — the equality checks of merge.rs on descriptors, parameter indices and on the first
   names of classes, fields and methods are dead code: the compared values are part of the key
   under which the two entries were paired.  [merge_nc] is merge with these checks removed;
   on well-formed inputs it is the same function. *)
From FB Require Import C09.Model C09.Theory C09.Theory2 C09.Theory3.
From Coq Require Import Lia PeanoNat.

(* `merge_equal` without the comparison *)
Definition take_a {T} (ab : comb T) : T := match ab with CA a => a | CB b => b | CAB a _ => a end.

(* `merge_names` without the comparison of the first names *)
Definition merge_names_nc (ab : comb names) : res names :=
  match ab with
  | CA [a0; a1] => names_from [a0; a1; None]
  | CB [b0; b1] => names_from [b0; None; b1]
  | CAB [a0; a1] [b0; b1] => names_from [a0; a1; b1]
  | _ => Err
  end.

(* parameters: the index check goes, the first-name check stays (it is live) *)
Definition merge_param_nc (ab : comb param) : res param :=
  do n <- merge_names (cmap p_names ab);
  do d <- merge_doc (cmap p_doc ab);
  Ok (mkParam (take_a (cmap p_index ab)) n d).
Definition merge_field_nc (ab : comb field) : res field :=
  do n <- merge_names_nc (cmap f_names ab);
  do d <- merge_doc (cmap f_doc ab);
  Ok (mkField (take_a (cmap f_desc ab)) n d).
Definition merge_meth_nc (ab : comb meth) : res meth :=
  do n <- merge_names_nc (cmap m_names ab);
  do ps <- zip_comb N.eqb param_key (cmap m_params ab) merge_param_nc;
  do d <- merge_doc (cmap m_doc ab);
  Ok (mkMeth (take_a (cmap m_desc ab)) n d ps).
Definition merge_class_nc (ab : comb class) : res class :=
  do n <- merge_names_nc (cmap c_names ab);
  do fs <- zip_comb mkeqb field_key (cmap c_fields ab) merge_field_nc;
  do ms <- zip_comb mkeqb meth_key (cmap c_methods ab) merge_meth_nc;
  do d <- merge_doc (cmap c_doc ab);
  Ok (mkClass n d fs ms).
Definition merge_nc (A B : mappings) : res mappings :=
  do ns <- merge_namespaces (ms_ns A) (ms_ns B);
  do cs <- zip_comb ckeqb class_key (CAB (ms_classes A) (ms_classes B)) merge_class_nc;
  do d <- merge_doc2 (ms_doc A) (ms_doc B);
  Ok (mkMappings ns d cs).

Lemma mapM_ext_in {A B} (f g : A -> res B) l : (forall x, In x l -> f x = g x) -> mapM f l = mapM g l.
Proof.
  induction l as [|x l IH]; intros H; cbn [mapM]; [reflexivity|].
  rewrite (H x (or_introl eq_refl)), IH; [reflexivity|]. intros y Hy. apply H. right. exact Hy.
Qed.

Lemma zip_comb_ext {K V W} (eqb : K -> K -> bool) (Hok : eqb_ok eqb) (key : V -> K) ab (f g : comb V -> res W) :
  NoDup (map key (side_a ab)) -> NoDup (map key (side_b ab)) ->
  (forall k c, comb_of (find_by eqb key k (side_a ab)) (find_by eqb key k (side_b ab)) = Some c -> f c = g c) ->
  zip_comb eqb key ab f = zip_comb eqb key ab g.
Proof.
  intros Ha Hb H. rewrite !(zip_comb_spec eqb Hok key ab _ Ha Hb). apply mapM_ext_in.
  intros c Hc. apply (zip_list_In eqb Hok key _ _ c Ha Hb) in Hc. destruct Hc as (k & Hc). apply (H k c Hc).
Qed.

Lemma merge_equal_take {T V} (eqb : T -> T -> bool) (Hok : eqb_ok eqb) (g : V -> T) (c : comb V) :
  match c with CAB x y => g x = g y | _ => True end ->
  merge_equal eqb (cmap g c) = Ok (take_a (cmap g c)).
Proof. intros H. rewrite (merge_equal_same eqb Hok g c H). destruct c; reflexivity. Qed.

Lemma merge_names_nc_eq {V} (nm : V -> names) (c : comb V) :
  cwf (fun x => names_ok 2 (nm x) = true) c -> ~ first_differs nm c ->
  merge_names (cmap nm c) = merge_names_nc (cmap nm c).
Proof.
  destruct c as [x|y|x y]; cbn [cwf cmap first_differs]; try reflexivity.
  intros [Hx Hy] Hd. destruct (names_ok2 _ Hx) as (a0 & a1 & Ex & _). destruct (names_ok2 _ Hy) as (b0 & b1 & Ey & _).
  rewrite Ex, Ey in *. cbn [merge_names merge_names_nc nth_name nth] in *.
  destruct (opt_eqb str_eqb a0 b0) eqn:E; [reflexivity|]. apply opt_str_eqb_false in E. contradiction.
Qed.

Lemma merge_param_nc_eq c : cohk param_key c -> merge_param c = merge_param_nc c.
Proof.
  intros Hk. unfold merge_param, merge_param_nc.
  rewrite (merge_equal_take N.eqb N_eqb_ok p_index c) by (destruct c; auto). reflexivity.
Qed.

Lemma merge_field_nc_eq c : cohk field_key c -> cwf Pfield c -> merge_field c = merge_field_nc c.
Proof.
  intros Hk Hw. unfold merge_field, merge_field_nc.
  rewrite (merge_equal_take str_eqb str_eqb_ok f_desc c).
  2:{ destruct c as [x|y|x y]; auto. destruct Hw as [Hx Hy]. apply (field_key_inj x y Hx Hy Hk). }
  cbn [bind]. rewrite (merge_names_nc_eq f_names c); [reflexivity| |].
  - revert Hw. apply cwf_impl. intros x Hx. apply (field_shape _ _ Hx).
  - destruct c as [x|y|x y]; cbn [first_differs]; auto. destruct Hw as [Hx Hy].
    destruct (field_key_inj x y Hx Hy Hk) as [_ E]. intros H. apply H. exact E.
Qed.

Lemma merge_meth_nc_eq c : cohk meth_key c -> cwf Pmeth c -> merge_meth c = merge_meth_nc c.
Proof.
  intros Hk Hw. unfold merge_meth, merge_meth_nc.
  destruct (cwf_side _ _ Hw) as [Hwl Hwr].
  destruct (prms_wf 2 (cl c) Hwl) as [Hpa Hna]. destruct (prms_wf 2 (cr c) Hwr) as [Hpb Hnb].
  rewrite (merge_equal_take str_eqb str_eqb_ok m_desc c).
  2:{ destruct c as [x|y|x y]; auto. destruct Hw as [Hx Hy]. apply (meth_key_inj x y Hx Hy Hk). }
  cbn [bind]. rewrite (merge_names_nc_eq m_names c).
  - rewrite (zip_comb_ext N.eqb N_eqb_ok param_key (cmap m_params c) merge_param merge_param_nc); [reflexivity| | |].
    + rewrite side_a_cmap. exact Hna.
    + rewrite side_b_cmap. exact Hnb.
    + rewrite side_a_cmap, side_b_cmap. intros k pc Hc.
      destruct (arises_ok N.eqb N_eqb_ok param_key Pparam _ _ k pc Hpa Hpb Hc) as (_ & Hco & _).
      apply merge_param_nc_eq. exact Hco.
  - revert Hw. apply cwf_impl. intros x Hx. apply (meth_shape _ _ Hx).
  - destruct c as [x|y|x y]; cbn [first_differs]; auto. destruct Hw as [Hx Hy].
    destruct (meth_key_inj x y Hx Hy Hk) as [_ E]. intros H. apply H. exact E.
Qed.

Lemma merge_class_nc_eq c : cohk class_key c -> cwf Pclass c -> merge_class c = merge_class_nc c.
Proof.
  intros Hk Hw. unfold merge_class, merge_class_nc.
  destruct (cwf_side _ _ Hw) as [Hwl Hwr].
  destruct (flds_wf 2 (cl c) Hwl) as [Hfa Hnfa]. destruct (flds_wf 2 (cr c) Hwr) as [Hfb Hnfb].
  destruct (mths_wf 2 (cl c) Hwl) as [Hma Hnma]. destruct (mths_wf 2 (cr c) Hwr) as [Hmb Hnmb].
  rewrite (merge_names_nc_eq c_names c).
  - rewrite (zip_comb_ext mkeqb mkeqb_ok field_key (cmap c_fields c) merge_field merge_field_nc).
    + rewrite (zip_comb_ext mkeqb mkeqb_ok meth_key (cmap c_methods c) merge_meth merge_meth_nc); [reflexivity| | |].
      * rewrite side_a_cmap. exact Hnma.
      * rewrite side_b_cmap. exact Hnmb.
      * rewrite side_a_cmap, side_b_cmap. intros k mc Hc.
        destruct (arises_ok mkeqb mkeqb_ok meth_key Pmeth _ _ k mc Hma Hmb Hc) as (_ & Hco & Hcw).
        apply merge_meth_nc_eq; assumption.
    + rewrite side_a_cmap. exact Hnfa.
    + rewrite side_b_cmap. exact Hnfb.
    + rewrite side_a_cmap, side_b_cmap. intros k fc Hc.
      destruct (arises_ok mkeqb mkeqb_ok field_key Pfield _ _ k fc Hfa Hfb Hc) as (_ & Hco & Hcw).
      apply merge_field_nc_eq; assumption.
  - revert Hw. apply cwf_impl. intros x Hx. apply (class_shape _ _ Hx).
  - destruct c as [x|y|x y]; cbn [first_differs]; auto. destruct Hw as [Hx Hy].
    pose proof (class_key_inj x y Hx Hy Hk) as E. intros H. apply H. exact E.
Qed.

Theorem merge_equal_never_fails_on_keys A B : wf2 A = true -> wf2 B = true -> merge A B = merge_nc A B.
Proof.
  intros HA HB. destruct (wf2_shape A HA) as (_ & _ & _ & _ & _ & HcA & HdA).
  destruct (wf2_shape B HB) as (_ & _ & _ & _ & _ & HcB & HdB).
  unfold merge, merge_nc.
  rewrite (zip_comb_ext ckeqb ckeqb_ok class_key (CAB (ms_classes A) (ms_classes B)) merge_class merge_class_nc HdA HdB); [reflexivity|].
  cbn [side_a side_b]. intros k c Hc.
  destruct (arises_ok ckeqb ckeqb_ok class_key Pclass _ _ k c HcA HcB Hc) as (_ & Hco & Hcw).
  apply merge_class_nc_eq; assumption.
Qed.

(* the same at the place of the check: whenever the zip hands two entries to the combiner they
   have the same key, hence equal descriptors / indices *)
Theorem merge_equal_args_equal :
  (forall la lb k x y, comb_of (find_by N.eqb param_key k la) (find_by N.eqb param_key k lb) = Some (CAB x y) ->
     merge_equal N.eqb (CAB (p_index x) (p_index y)) = Ok (p_index x))
  /\ (forall la lb k x y, Forall Pfield la -> Forall Pfield lb ->
     comb_of (find_by mkeqb field_key k la) (find_by mkeqb field_key k lb) = Some (CAB x y) ->
     merge_equal str_eqb (CAB (f_desc x) (f_desc y)) = Ok (f_desc x))
  /\ (forall la lb k x y, Forall Pmeth la -> Forall Pmeth lb ->
     comb_of (find_by mkeqb meth_key k la) (find_by mkeqb meth_key k lb) = Some (CAB x y) ->
     merge_equal str_eqb (CAB (m_desc x) (m_desc y)) = Ok (m_desc x)).
Proof.
  split; [|split].
  - intros la lb k x y Hc.
    destruct (arises_ok N.eqb N_eqb_ok param_key (fun _ => True) la lb k _
                (proj2 (Forall_forall _ _) (fun _ _ => I)) (proj2 (Forall_forall _ _) (fun _ _ => I)) Hc) as (_ & Hco & _).
    cbn [cohk] in Hco. unfold param_key in Hco. cbn [merge_equal]. rewrite Hco, N.eqb_refl. reflexivity.
  - intros la lb k x y Ha Hb Hc.
    destruct (arises_ok mkeqb mkeqb_ok field_key Pfield la lb k _ Ha Hb Hc) as (_ & Hco & Hx & Hy).
    destruct (field_key_inj x y Hx Hy Hco) as [E _]. cbn [merge_equal]. rewrite E, str_eqb_refl. reflexivity.
  - intros la lb k x y Ha Hb Hc.
    destruct (arises_ok mkeqb mkeqb_ok meth_key Pmeth la lb k _ Ha Hb Hc) as (_ & Hco & Hx & Hy).
    destruct (meth_key_inj x y Hx Hy Hco) as [E _]. cbn [merge_equal]. rewrite E, str_eqb_refl. reflexivity.
Qed.
