(* C09 — Theorem 4: merge fails exactly on the documented conflicts. *)
From FB Require Import C09.Model C09.Theory C09.Theory2 C09.Theory3.
From Coq Require Import Lia PeanoNat.

(* the documented conflicts, stated by lookups along key paths *)
Definition param_conflict (x y : param) : Prop :=
  doc_conflict (p_doc x) (p_doc y) \/ nth_name (p_names x) 0 <> nth_name (p_names y) 0.

Definition conflict (A B : mappings) : Prop :=
  nth 0 (ms_ns A) [] <> nth 0 (ms_ns B) []
  \/ doc_conflict (ms_doc A) (ms_doc B)
  \/ (exists ck x y, cls A ck = Some x /\ cls B ck = Some y /\ doc_conflict (c_doc x) (c_doc y))
  \/ (exists ck fk x y, fld A ck fk = Some x /\ fld B ck fk = Some y /\ doc_conflict (f_doc x) (f_doc y))
  \/ (exists ck mk x y, mth A ck mk = Some x /\ mth B ck mk = Some y /\ doc_conflict (m_doc x) (m_doc y))
  \/ (exists ck mk i x y, prm A ck mk i = Some x /\ prm B ck mk i = Some y /\ param_conflict x y).

Lemma comb_of_both {V} (a b : option V) (Q : V -> V -> Prop) :
  (exists c, comb_of a b = Some c /\ match c with CAB x y => Q x y | _ => False end)
  <-> exists x y, a = Some x /\ b = Some y /\ Q x y.
Proof.
  split.
  - intros (c & Hc & HQ). destruct c as [x|y|x y]; try contradiction.
    destruct a as [x'|], b as [y'|]; cbn [comb_of] in Hc; try discriminate.
    injection Hc as -> ->. exists x, y. auto.
  - intros (x & y & -> & -> & HQ). exists (CAB x y). auto.
Qed.

Lemma or_iff (P P' Q Q' : Prop) : (P <-> P') -> (Q <-> Q') -> (P \/ Q <-> P' \/ Q').
Proof. tauto. Qed.

Lemma comb_of_ex {V} (a b : option V) x : a = Some x \/ b = Some x -> exists c, comb_of a b = Some c.
Proof. destruct a, b; cbn [comb_of]; intros [H|H]; try discriminate; eauto. Qed.

Lemma pconf_match c : pconf c <-> match c with CAB x y => param_conflict x y | _ => False end.
Proof. unfold pconf, param_conflict. destruct c; cbn [cdoc_conflict first_differs]; tauto. Qed.

Lemma mconf_flat mc a b : cl mc = a -> cr mc = b ->
  (mconf mc <->
   (exists x y, a = Some x /\ b = Some y /\ doc_conflict (m_doc x) (m_doc y))
   \/ (exists i x y, find_by N.eqb param_key i (prms a) = Some x /\ find_by N.eqb param_key i (prms b) = Some y
                     /\ param_conflict x y)).
Proof.
  intros <- <-. unfold mconf. apply or_iff.
  - rewrite <- (comb_of_both (cl mc) (cr mc) (fun x y => doc_conflict (m_doc x) (m_doc y))). split.
    + intros H. exists mc. split; [apply comb_of_cl_cr|exact H].
    + intros (c & Hc & H). rewrite comb_of_cl_cr in Hc. injection Hc as <-. exact H.
  - split.
    + intros (i & pc & Hc & Hp). exists i. apply (comb_of_both _ _ param_conflict).
      exists pc. split; [exact Hc|]. apply pconf_match. exact Hp.
    + intros (i & H). apply (comb_of_both _ _ param_conflict) in H. destruct H as (pc & Hc & Hp).
      exists i, pc. split; [exact Hc|]. apply pconf_match. exact Hp.
Qed.

Lemma cconf_flat c a b : cl c = a -> cr c = b ->
  (cconf c <->
   (exists x y, a = Some x /\ b = Some y /\ doc_conflict (c_doc x) (c_doc y))
   \/ (exists fk x y, find_by mkeqb field_key fk (flds a) = Some x /\ find_by mkeqb field_key fk (flds b) = Some y
                      /\ doc_conflict (f_doc x) (f_doc y))
   \/ (exists mk x y, find_by mkeqb meth_key mk (mths a) = Some x /\ find_by mkeqb meth_key mk (mths b) = Some y
                      /\ doc_conflict (m_doc x) (m_doc y))
   \/ (exists mk i x y,
         find_by N.eqb param_key i (prms (find_by mkeqb meth_key mk (mths a))) = Some x
         /\ find_by N.eqb param_key i (prms (find_by mkeqb meth_key mk (mths b))) = Some y
         /\ param_conflict x y)).
Proof.
  intros <- <-. unfold cconf. apply or_iff; [|apply or_iff].
  - rewrite <- (comb_of_both (cl c) (cr c) (fun x y => doc_conflict (c_doc x) (c_doc y))). split.
    + intros H. exists c. split; [apply comb_of_cl_cr|exact H].
    + intros (c' & Hc & H). rewrite comb_of_cl_cr in Hc. injection Hc as <-. exact H.
  - split.
    + intros (fk & fc & Hc & Hp). exists fk. apply (comb_of_both _ _ (fun x y => doc_conflict (f_doc x) (f_doc y))).
      exists fc. auto.
    + intros (fk & H). apply (comb_of_both _ _ (fun x y => doc_conflict (f_doc x) (f_doc y))) in H.
      destruct H as (fc & Hc & Hp). exists fk, fc. auto.
  - split.
    + intros (mk & mc & Hc & Hp). destruct (comb_of_sides _ _ _ Hc) as [El Er].
      apply (mconf_flat mc _ _ El Er) in Hp. destruct Hp as [(x & y & H)|(i & x & y & H)].
      * left. exists mk, x, y. exact H.
      * right. exists mk, i, x, y. exact H.
    + intros [(mk & x & y & Hx & Hy & Hd)|(mk & i & x & y & Hx & Hy & Hd)].
      * exists mk, (CAB x y). rewrite Hx, Hy. split; [reflexivity|]. left. exact Hd.
      * destruct (find_by mkeqb meth_key mk (mths (cl c))) as [ma|] eqn:Ea; [|discriminate].
        destruct (find_by mkeqb meth_key mk (mths (cr c))) as [mb|] eqn:Eb; [|discriminate].
        exists mk, (CAB ma mb). split; [rewrite Ea, Eb; reflexivity|]. right.
        exists i, (CAB x y). cbn [cl cr]. rewrite Hx, Hy. split; [reflexivity|]. apply pconf_match. exact Hd.
Qed.

Theorem merge_err_iff A B : wf2 A = true -> wf2 B = true -> (merge A B = Err <-> conflict A B).
Proof.
  intros HA HB. destruct (wf2_shape A HA) as (s & a & EnA & Hs & Ha & HcA & HdA).
  destruct (wf2_shape B HB) as (s' & b & EnB & Hs' & Hb & HcB & HdB).
  unfold merge, conflict.
  rewrite (bind3_err _ _ _ (fun ns cs d => mkMappings ns d cs)), merge_doc2_err.
  rewrite (zip_comb_err ckeqb ckeqb_ok class_key (CAB (ms_classes A) (ms_classes B)) merge_class HdA HdB).
  cbn [side_a side_b]. rewrite EnA, EnB. cbn [nth].
  assert (Hns : merge_namespaces [s; a] [s'; b] = Err <-> s <> s').
  { cbn [merge_namespaces]. destruct (str_eqb_spec s s') as [->|Hn].
    - cbn [forallb]. rewrite Hs', Ha, Hb. cbn [andb]. split; [discriminate|congruence].
    - split; [intros _; exact Hn|reflexivity]. }
  rewrite Hns. clear Hns.
  assert (HPa : forall ck x, cls A ck = Some x -> Pclass x).
  { intros ck x Hx. apply (find_by_Some ckeqb ckeqb_ok) in Hx. rewrite Forall_forall in HcA. apply HcA, Hx. }
  assert (HPb : forall ck y, cls B ck = Some y -> Pclass y).
  { intros ck y Hy. apply (find_by_Some ckeqb ckeqb_ok) in Hy. rewrite Forall_forall in HcB. apply HcB, Hy. }
  assert (Hcls : (exists k c, comb_of (find_by ckeqb class_key k (ms_classes A)) (find_by ckeqb class_key k (ms_classes B)) = Some c
                              /\ merge_class c = Err)
                 <-> exists ck c, comb_of (cls A ck) (cls B ck) = Some c /\ cconf c).
  { split; intros (ck & c & Hc & H); exists ck, c; (split; [exact Hc|]);
      destruct (comb_coh ckeqb ckeqb_ok class_key Pclass _ _ ck c (HPa ck) (HPb ck) Hc) as (_ & Hco & Hcw);
      apply (merge_class_err c Hco Hcw); exact H. }
  rewrite Hcls. clear Hcls.
  cut ((exists ck c, comb_of (cls A ck) (cls B ck) = Some c /\ cconf c)
       <-> (exists ck x y, cls A ck = Some x /\ cls B ck = Some y /\ doc_conflict (c_doc x) (c_doc y))
           \/ (exists ck fk x y, fld A ck fk = Some x /\ fld B ck fk = Some y /\ doc_conflict (f_doc x) (f_doc y))
           \/ (exists ck mk x y, mth A ck mk = Some x /\ mth B ck mk = Some y /\ doc_conflict (m_doc x) (m_doc y))
           \/ (exists ck mk i x y, prm A ck mk i = Some x /\ prm B ck mk i = Some y /\ param_conflict x y)).
  { intros Hflat. rewrite Hflat. tauto. }
  split.
  - intros (ck & c & Hc & H). destruct (comb_of_sides _ _ _ Hc) as [El Er].
    apply (cconf_flat c _ _ El Er) in H.
    destruct H as [(x & y & H)|[(fk & x & y & H)|[(mk & x & y & H)|(mk & i & x & y & H)]]].
    + left. exists ck, x, y. exact H.
    + right. left. exists ck, fk, x, y. exact H.
    + right. right. left. exists ck, mk, x, y. exact H.
    + right. right. right. exists ck, mk, i, x, y. exact H.
  - assert (Hex : forall ck, (cls A ck <> None \/ cls B ck <> None) -> exists c, comb_of (cls A ck) (cls B ck) = Some c).
    { intros ck. destruct (cls A ck), (cls B ck); cbn [comb_of]; intros [H|H]; try congruence; eauto. }
    intros [(ck & x & y & Hx & Hy & H)|[(ck & fk & x & y & Hx & Hy & H)|[(ck & mk & x & y & Hx & Hy & H)|(ck & mk & i & x & y & Hx & Hy & H)]]].
    + destruct (Hex ck) as (c & Hc); [left; congruence|]. exists ck, c. split; [exact Hc|].
      destruct (comb_of_sides _ _ _ Hc) as [El Er]. apply (cconf_flat c _ _ El Er). left. exists x, y. auto.
    + destruct (Hex ck) as (c & Hc).
      { left. unfold fld in Hx. destruct (cls A ck); [discriminate|]. cbn [flds find_by] in Hx. discriminate. }
      exists ck, c. split; [exact Hc|].
      destruct (comb_of_sides _ _ _ Hc) as [El Er]. apply (cconf_flat c _ _ El Er). right. left. exists fk, x, y. auto.
    + destruct (Hex ck) as (c & Hc).
      { left. unfold mth in Hx. destruct (cls A ck); [discriminate|]. cbn [mths find_by] in Hx. discriminate. }
      exists ck, c. split; [exact Hc|].
      destruct (comb_of_sides _ _ _ Hc) as [El Er]. apply (cconf_flat c _ _ El Er). right. right. left. exists mk, x, y. auto.
    + destruct (Hex ck) as (c & Hc).
      { left. unfold prm, mth in Hx. destruct (cls A ck); [discriminate|]. cbn [mths find_by prms] in Hx. discriminate. }
      exists ck, c. split; [exact Hc|].
      destruct (comb_of_sides _ _ _ Hc) as [El Er]. apply (cconf_flat c _ _ El Er). right. right. right. exists mk, i, x, y. auto.
Qed.
