(* C09 correspondence cases: the two inputs of Mappings::merge together with what the
   implementation answered (the merged set read back in IndexMap iteration order, or Err). *)
From FB Require Export C09.Model C09.ModelNames Base.Run.

Inductive case :=
| CMerge (A B : mappings) (r : res mappings)      (* Mappings::merge(&A, &B) *)
| CMergeRaw (A B : mappings) (r : res mappings)
  (* Mappings::merge(&A, &B) on inputs OUTSIDE wf2 in one respect only: an empty name Some [] in a second
     column, or an empty second namespace name (reachable through Names::change_name / rename_namespaces).
     Keys are still derived from the nodes, so the model applies; compared without the wf2 guard. *)
| CMergeT (tbl : list str) (A B : mappings) (r : res mappings)
  (* the same with a string table: in A, B and r every string is written as the one-element
     list [i] and stands for the i-th entry of tbl (A, B and the result share almost all of
     their strings, and Coq spends its time elaborating literals, not evaluating the model) *)
(* round 7 - the row / header API of tree/mod.rs (ModelNames.v), each call with the implementation's answer *)
| CChangeName (l : names) (id : N) (from to : option str) (r : res (option str * names))
  (* Namespace::<N>::new(id) then Names::change_name on the row l (N = length l): Ok (returned old name, row afterwards) *)
| CNamesFrom (l : list str) (r : names)                       (* Names::from([T; N]) *)
| CNamesTry (l : names) (r : res names)                       (* Names::try_from([Option<T>; N]) *)
| CNamespacesFrom (l : list str) (r : res (list str))         (* Namespaces::try_from([String; N]) *)
| CChangeNs (ns from to : list str) (r : res (list str)).     (* Mappings::rename_namespaces = Namespaces::change_names: header afterwards *)

Definition rs (tbl : list str) (s : str) : str :=
  match s with [i] => nth (N.to_nat i) tbl [] | _ => s end.
Definition rnames (tbl : list str) (l : names) : names := map (option_map (rs tbl)) l.
Definition rdoc (tbl : list str) (d : option str) : option str := option_map (rs tbl) d.
Definition rparam tbl (p : param) : param := mkParam (p_index p) (rnames tbl (p_names p)) (rdoc tbl (p_doc p)).
Definition rfield tbl (f : field) : field := mkField (rs tbl (f_desc f)) (rnames tbl (f_names f)) (rdoc tbl (f_doc f)).
Definition rmeth tbl (m : meth) : meth :=
  mkMeth (rs tbl (m_desc m)) (rnames tbl (m_names m)) (rdoc tbl (m_doc m)) (map (rparam tbl) (m_params m)).
Definition rclass tbl (c : class) : class :=
  mkClass (rnames tbl (c_names c)) (rdoc tbl (c_doc c)) (map (rfield tbl) (c_fields c)) (map (rmeth tbl) (c_methods c)).
Definition rmappings tbl (M : mappings) : mappings :=
  mkMappings (map (rs tbl) (ms_ns M)) (rdoc tbl (ms_doc M)) (map (rclass tbl) (ms_classes M)).

(* The comparison is exact, order included: the MODEL follows the code's order (A's entries in
   A's order, then the entries only B has, in B's order).  The property itself promises no
   iteration order; a difference in order alone is a model/implementation disagreement to look
   at, not a property violation (the harness oracle compares up to order). *)
Definition check_pair (A B : mappings) (r : res mappings) : bool :=
  wf2 A && wf2 B                          (* the compared domain is the proved domain *)
  && res_eqb mappings_eqb (merge A B) r.

Definition check (c : case) : bool :=
  match c with
  | CMerge A B r => check_pair A B r
  | CMergeRaw A B r => negb (wf2 A && wf2 B) && res_eqb mappings_eqb (merge A B) r
  | CMergeT tbl A B r =>
      check_pair (rmappings tbl A) (rmappings tbl B)
        (match r with Ok m => Ok (rmappings tbl m) | Err => Err end)
  | CChangeName l id from to r =>
      res_eqb (pair_eqb (opt_eqb str_eqb) names_eqb) (change_name_at l (N.to_nat id) from to) r
  | CNamesFrom l r => names_eqb (names_of_strs l) r
  | CNamesTry l r => res_eqb names_eqb (names_from l) r
  | CNamespacesFrom l r => res_eqb (list_eqb str_eqb) (namespaces_from l) r
  | CChangeNs ns from to r => res_eqb (list_eqb str_eqb) (change_names ns from to) r
  end.
