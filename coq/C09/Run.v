(* C09 correspondence cases: the two inputs of Mappings::merge together with what the
   implementation answered (the merged set read back in IndexMap iteration order, or Err). *)
From FB Require Export C09.Model Base.Run.

Inductive case :=
| CMerge (A B : mappings) (r : res mappings).   (* Mappings::merge(&A, &B) *)

(* The comparison is exact, order included: the property fixes the order of the result
   (A's entries in A's order, then the entries only B has, in B's order). *)
Definition check (c : case) : bool :=
  match c with
  | CMerge A B r => res_eqb mappings_eqb (merge A B) r
  end.
