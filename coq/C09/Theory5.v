(* C09 — Theorem 3: projecting the merged set back onto (s,a) and (s,b). *)
From FB Require Import C09.Model C09.Theory C09.Theory2 C09.Theory3.
From Coq Require Import Lia PeanoNat.

Lemma filter_map_id {A} (g : A -> option A) l : (forall x, In x l -> g x = Some x) -> filter_map g l = l.
Proof.
  induction l as [|x l IH]; intros H; cbn [filter_map]; [reflexivity|].
  rewrite (H x (or_introl eq_refl)). f_equal. apply IH. intros y Hy. apply H. right. exact Hy.
Qed.

Lemma names2_eta (l : names) : names_ok 2 l = true -> [nth_name l 0; nth_name l 1] = l.
Proof. intros H. destruct (names_ok2 l H) as (a0 & a1 & -> & _). reflexivity. Qed.

Lemma mask_l dx db : mask dx (first_some dx db) = dx.
Proof. destruct dx; reflexivity. Qed.

Lemma mask_r da dy : ~ doc_conflict da dy -> mask dy (first_some da dy) = dy.
Proof.
  intros H. destruct dy as [y|]; [|reflexivity]. destruct da as [x|]; cbn [mask first_some]; [|reflexivity].
  destruct (str_eqb_spec x y) as [->|Hn]; [reflexivity|]. exfalso. apply H. exists x, y. auto.
Qed.

Lemma ckey_l {K V} (key : V -> K) c x : cl c = Some x -> ckey key c = key x.
Proof. destruct c; cbn [cl ckey]; intros [= <-]; reflexivity. Qed.
Lemma ckey_r {K V} (key : V -> K) c y : cohk key c -> cr c = Some y -> ckey key c = key y.
Proof. destruct c; cbn [cr ckey cohk]; intros H [= <-]; auto. Qed.

Lemma cwf_l {V} (P : V -> Prop) c x : cwf P c -> cl c = Some x -> P x.
Proof. intros H. apply (cwf_side P c H). Qed.
Lemma cwf_r {V} (P : V -> Prop) c y : cwf P c -> cr c = Some y -> P y.
Proof. intros H. apply (cwf_side P c H). Qed.

(* names and comments of a merged node, seen from one side *)
Lemma names_l {V} (nm : V -> names) c x : cl c = Some x -> names_ok 2 (nm x) = true ->
  pick 1 (row3 (option_map nm (cl c)) (option_map nm (cr c))) = nm x.
Proof. intros -> H. unfold pick, row3, nth_name. cbn [option_map col nth]. apply names2_eta. exact H. Qed.

Lemma names_r {V} (nm : V -> names) c y : cr c = Some y -> names_ok 2 (nm y) = true -> ~ first_differs nm c ->
  pick 2 (row3 (option_map nm (cl c)) (option_map nm (cr c))) = nm y.
Proof.
  intros Hr H Hd. destruct c as [x|y'|x y']; cbn [cr] in Hr; try discriminate; injection Hr as ->;
    unfold pick, row3, nth_name at 1 2; cbn [cl cr option_map col nth].
  - apply names2_eta. exact H.
  - cbn [first_differs] in Hd. rewrite <- (names2_eta (nm y) H). f_equal.
    destruct (opt_eqb str_eqb (nth_name (nm x) 0) (nth_name (nm y) 0)) eqn:E.
    + apply opt_str_eqb_true in E. exact E.
    + apply opt_str_eqb_false in E. contradiction.
Qed.

Lemma docs_l {V} (doc : V -> option str) c x : cl c = Some x ->
  mask (doc x) (first_some (odoc doc (cl c)) (odoc doc (cr c))) = doc x.
Proof. intros ->. cbn [odoc]. apply mask_l. Qed.

Lemma docs_r {V} (doc : V -> option str) c y : cr c = Some y -> ~ cdoc_conflict doc c ->
  mask (doc y) (first_some (odoc doc (cl c)) (odoc doc (cr c))) = doc y.
Proof.
  intros Hr Hd. destruct c as [x|y'|x y']; cbn [cr] in Hr; try discriminate; injection Hr as ->; cbn [cl cr odoc].
  - apply mask_r. intros (a & b & H & _). discriminate.
  - apply mask_r. exact Hd.
Qed.

(* what zip_spec says about an entry of one side *)
Lemma zip_spec_left {K V} (eqb : K -> K -> bool) (Hok : eqb_ok eqb) (key : V -> K) f la lb r x :
  zip_spec eqb key f la lb r -> NoDup (map key la) -> In x la ->
  exists c w, comb_of (find_by eqb key (key x) la) (find_by eqb key (key x) lb) = Some c
              /\ cl c = Some x /\ f c = Ok w /\ find_by eqb key (key x) r = Some w.
Proof.
  intros (_ & _ & H) Hnd Hx. specialize (H (key x)).
  rewrite (find_by_In eqb Hok key la x Hnd Hx) in *.
  destruct (comb_of (Some x) (find_by eqb key (key x) lb)) as [c|] eqn:Ec.
  - destruct H as (w & Hf & Hr). exists c, w. destruct (comb_of_sides _ _ _ Ec). auto.
  - destruct (find_by eqb key (key x) lb); discriminate.
Qed.

Lemma zip_spec_right {K V} (eqb : K -> K -> bool) (Hok : eqb_ok eqb) (key : V -> K) f la lb r y :
  zip_spec eqb key f la lb r -> NoDup (map key lb) -> In y lb ->
  exists c w, comb_of (find_by eqb key (key y) la) (find_by eqb key (key y) lb) = Some c
              /\ cr c = Some y /\ f c = Ok w /\ find_by eqb key (key y) r = Some w.
Proof.
  intros (_ & _ & H) Hnd Hy. specialize (H (key y)).
  rewrite (find_by_In eqb Hok key lb y Hnd Hy) in *.
  destruct (comb_of (find_by eqb key (key y) la) (Some y)) as [c|] eqn:Ec.
  - destruct H as (w & Hf & Hr). exists c, w. destruct (comb_of_sides _ _ _ Ec). auto.
  - destruct (find_by eqb key (key y) la); discriminate.
Qed.

Lemma ok_not_err {A} (r : res A) w : r = Ok w -> r <> Err.
Proof. intros -> H. discriminate. Qed.

(* ---------- parameters ---------- *)
Lemma proj_param pc pw : cohk param_key pc -> cwf Pparam pc -> merge_param pc = Ok pw ->
  (forall x, cl pc = Some x -> mkParam (p_index pw) (pick 1 (p_names pw)) (mask (p_doc x) (p_doc pw)) = x)
  /\ (forall y, cr pc = Some y -> mkParam (p_index pw) (pick 2 (p_names pw)) (mask (p_doc y) (p_doc pw)) = y).
Proof.
  intros Hco Hcw Hf. destruct (merge_param_ok pc pw Hco Hcw Hf) as (Hk & Hn & Hd & _).
  assert (Hnc : ~ pconf pc).
  { intros H. apply (merge_param_err pc Hco Hcw) in H. rewrite Hf in H. discriminate. }
  change (p_index pw) with (param_key pw). rewrite Hn, Hd. split.
  - intros x Hx. rewrite (names_l p_names pc x Hx (cwf_l _ _ _ Hcw Hx)), (docs_l p_doc pc x Hx).
    rewrite Hk, (ckey_l param_key pc x Hx). destruct x; reflexivity.
  - intros y Hy. rewrite (names_r p_names pc y Hy (cwf_r _ _ _ Hcw Hy)), (docs_r p_doc pc y Hy).
    + rewrite Hk, (ckey_r param_key pc y Hco Hy). destruct y; reflexivity.
    + intros H. apply Hnc. left. exact H.
    + intros H. apply Hnc. right. exact H.
Qed.

Lemma view_params la lb r :
  zip_spec N.eqb param_key merge_param la lb r ->
  Forall Pparam la -> Forall Pparam lb -> NoDup (map param_key la) -> NoDup (map param_key lb) ->
  filter_map (view_param 1 r) la = la /\ filter_map (view_param 2 r) lb = lb.
Proof.
  intros Hz Ha Hb Hna Hnb. split; apply filter_map_id.
  - intros x Hx. destruct (zip_spec_left N.eqb N_eqb_ok param_key _ la lb r x Hz Hna Hx) as (c & w & Hc & Hl & Hf & Hr).
    destruct (arises_ok N.eqb N_eqb_ok param_key Pparam la lb _ c Ha Hb Hc) as (_ & Hco & Hcw).
    unfold view_param. rewrite Hr. f_equal. apply (proj_param c w Hco Hcw Hf). exact Hl.
  - intros y Hy. destruct (zip_spec_right N.eqb N_eqb_ok param_key _ la lb r y Hz Hnb Hy) as (c & w & Hc & Hl & Hf & Hr).
    destruct (arises_ok N.eqb N_eqb_ok param_key Pparam la lb _ c Ha Hb Hc) as (_ & Hco & Hcw).
    unfold view_param. rewrite Hr. f_equal. apply (proj_param c w Hco Hcw Hf). exact Hl.
Qed.

(* ---------- fields ---------- *)
Lemma field_key_desc n m f g : wf_field n f = true -> wf_field m g = true -> field_key f = field_key g -> f_desc f = f_desc g.
Proof.
  intros Hf Hg E. destruct (field_shape _ _ Hf) as (_ & s & _ & Hkf). destruct (field_shape _ _ Hg) as (_ & t & _ & Hkg).
  rewrite Hkf, Hkg in E. injection E as _ E. exact E.
Qed.

Lemma meth_key_desc n m f g : wf_meth n f = true -> wf_meth m g = true -> meth_key f = meth_key g -> m_desc f = m_desc g.
Proof.
  intros Hf Hg E. destruct (meth_shape _ _ Hf) as (_ & (s & _ & Hkf) & _). destruct (meth_shape _ _ Hg) as (_ & (t & _ & Hkg) & _).
  rewrite Hkf, Hkg in E. injection E as _ E. exact E.
Qed.

Lemma proj_field c w : cohk field_key c -> cwf Pfield c -> merge_field c = Ok w ->
  (forall x, cl c = Some x -> mkField (f_desc w) (pick 1 (f_names w)) (mask (f_doc x) (f_doc w)) = x)
  /\ (forall y, cr c = Some y -> mkField (f_desc w) (pick 2 (f_names w)) (mask (f_doc y) (f_doc w)) = y).
Proof.
  intros Hco Hcw Hf. destruct (merge_field_ok c w Hco Hcw Hf) as (Hk & Hn & Hd & Hwf).
  assert (Hnc : ~ cdoc_conflict f_doc c).
  { intros H. apply (merge_field_err c Hco Hcw) in H. rewrite Hf in H. discriminate. }
  assert (Hnf : ~ first_differs f_names c).
  { destruct c as [x|y|x y]; cbn [first_differs]; auto. destruct Hcw as [Hx Hy].
    destruct (field_key_inj x y Hx Hy Hco) as [_ E]. intros H. apply H. exact E. }
  rewrite Hn, Hd. split.
  - intros x Hx. pose proof (cwf_l _ _ _ Hcw Hx) as Px.
    rewrite (names_l f_names c x Hx (proj1 (field_shape _ _ Px))), (docs_l f_doc c x Hx).
    rewrite (field_key_desc 3 2 w x Hwf Px) by (rewrite Hk; apply ckey_l; exact Hx). destruct x; reflexivity.
  - intros y Hy. pose proof (cwf_r _ _ _ Hcw Hy) as Py.
    rewrite (names_r f_names c y Hy (proj1 (field_shape _ _ Py)) Hnf), (docs_r f_doc c y Hy Hnc).
    rewrite (field_key_desc 3 2 w y Hwf Py) by (rewrite Hk; apply ckey_r; assumption). destruct y; reflexivity.
Qed.

Lemma view_fields la lb r :
  zip_spec mkeqb field_key merge_field la lb r ->
  Forall Pfield la -> Forall Pfield lb -> NoDup (map field_key la) -> NoDup (map field_key lb) ->
  filter_map (view_field 1 r) la = la /\ filter_map (view_field 2 r) lb = lb.
Proof.
  intros Hz Ha Hb Hna Hnb. split; apply filter_map_id.
  - intros x Hx. destruct (zip_spec_left mkeqb mkeqb_ok field_key _ la lb r x Hz Hna Hx) as (c & w & Hc & Hl & Hf & Hr).
    destruct (arises_ok mkeqb mkeqb_ok field_key Pfield la lb _ c Ha Hb Hc) as (_ & Hco & Hcw).
    unfold view_field. rewrite Hr. f_equal. apply (proj_field c w Hco Hcw Hf). exact Hl.
  - intros y Hy. destruct (zip_spec_right mkeqb mkeqb_ok field_key _ la lb r y Hz Hnb Hy) as (c & w & Hc & Hl & Hf & Hr).
    destruct (arises_ok mkeqb mkeqb_ok field_key Pfield la lb _ c Ha Hb Hc) as (_ & Hco & Hcw).
    unfold view_field. rewrite Hr. f_equal. apply (proj_field c w Hco Hcw Hf). exact Hl.
Qed.

(* ---------- methods ---------- *)
Lemma proj_meth c w : cohk meth_key c -> cwf Pmeth c -> merge_meth c = Ok w ->
  (forall x, cl c = Some x ->
     mkMeth (m_desc w) (pick 1 (m_names w)) (mask (m_doc x) (m_doc w))
            (filter_map (view_param 1 (m_params w)) (m_params x)) = x)
  /\ (forall y, cr c = Some y ->
     mkMeth (m_desc w) (pick 2 (m_names w)) (mask (m_doc y) (m_doc w))
            (filter_map (view_param 2 (m_params w)) (m_params y)) = y).
Proof.
  intros Hco Hcw Hf. destruct (merge_meth_ok c w Hco Hcw Hf) as (Hk & Hn & Hd & Hzp & Hwf).
  assert (Hnc : ~ cdoc_conflict m_doc c).
  { intros H. assert (He : merge_meth c = Err) by (apply (merge_meth_err c Hco Hcw); left; exact H).
    rewrite Hf in He. discriminate. }
  assert (Hnf : ~ first_differs m_names c).
  { destruct c as [x|y|x y]; cbn [first_differs]; auto. destruct Hcw as [Hx Hy].
    destruct (meth_key_inj x y Hx Hy Hco) as [_ E]. intros H. apply H. exact E. }
  destruct (cwf_side _ _ Hcw) as [Hwl Hwr].
  destruct (prms_wf 2 (cl c) Hwl) as [Hpa Hna]. destruct (prms_wf 2 (cr c) Hwr) as [Hpb Hnb].
  destruct (view_params _ _ _ Hzp Hpa Hpb Hna Hnb) as [Hvl Hvr].
  rewrite Hn, Hd. split.
  - intros x Hx. pose proof (cwf_l _ _ _ Hcw Hx) as Px. rewrite Hx in Hvl. cbn [prms] in Hvl. rewrite Hvl.
    rewrite (names_l m_names c x Hx (proj1 (meth_shape _ _ Px))), (docs_l m_doc c x Hx).
    rewrite (meth_key_desc 3 2 w x Hwf Px) by (rewrite Hk; apply ckey_l; exact Hx). destruct x; reflexivity.
  - intros y Hy. pose proof (cwf_r _ _ _ Hcw Hy) as Py. rewrite Hy in Hvr. cbn [prms] in Hvr. rewrite Hvr.
    rewrite (names_r m_names c y Hy (proj1 (meth_shape _ _ Py)) Hnf), (docs_r m_doc c y Hy Hnc).
    rewrite (meth_key_desc 3 2 w y Hwf Py) by (rewrite Hk; apply ckey_r; assumption). destruct y; reflexivity.
Qed.

Lemma view_meths la lb r :
  zip_spec mkeqb meth_key merge_meth la lb r ->
  Forall Pmeth la -> Forall Pmeth lb -> NoDup (map meth_key la) -> NoDup (map meth_key lb) ->
  filter_map (view_meth 1 r) la = la /\ filter_map (view_meth 2 r) lb = lb.
Proof.
  intros Hz Ha Hb Hna Hnb. split; apply filter_map_id.
  - intros x Hx. destruct (zip_spec_left mkeqb mkeqb_ok meth_key _ la lb r x Hz Hna Hx) as (c & w & Hc & Hl & Hf & Hr).
    destruct (arises_ok mkeqb mkeqb_ok meth_key Pmeth la lb _ c Ha Hb Hc) as (_ & Hco & Hcw).
    unfold view_meth. rewrite Hr. f_equal. apply (proj_meth c w Hco Hcw Hf). exact Hl.
  - intros y Hy. destruct (zip_spec_right mkeqb mkeqb_ok meth_key _ la lb r y Hz Hnb Hy) as (c & w & Hc & Hl & Hf & Hr).
    destruct (arises_ok mkeqb mkeqb_ok meth_key Pmeth la lb _ c Ha Hb Hc) as (_ & Hco & Hcw).
    unfold view_meth. rewrite Hr. f_equal. apply (proj_meth c w Hco Hcw Hf). exact Hl.
Qed.

(* ---------- classes ---------- *)
Lemma proj_class c w : cohk class_key c -> cwf Pclass c -> merge_class c = Ok w ->
  (forall x, cl c = Some x ->
     mkClass (pick 1 (c_names w)) (mask (c_doc x) (c_doc w))
             (filter_map (view_field 1 (c_fields w)) (c_fields x))
             (filter_map (view_meth 1 (c_methods w)) (c_methods x)) = x)
  /\ (forall y, cr c = Some y ->
     mkClass (pick 2 (c_names w)) (mask (c_doc y) (c_doc w))
             (filter_map (view_field 2 (c_fields w)) (c_fields y))
             (filter_map (view_meth 2 (c_methods w)) (c_methods y)) = y).
Proof.
  intros Hco Hcw Hf. destruct (merge_class_ok c w Hco Hcw Hf) as (Hk & Hn & Hd & Hzf & Hzm & Hwf).
  assert (Hnc : ~ cdoc_conflict c_doc c).
  { intros H. assert (He : merge_class c = Err) by (apply (merge_class_err c Hco Hcw); left; exact H).
    rewrite Hf in He. discriminate. }
  assert (Hnf : ~ first_differs c_names c).
  { destruct c as [x|y|x y]; cbn [first_differs]; auto. destruct Hcw as [Hx Hy].
    pose proof (class_key_inj x y Hx Hy Hco) as E. intros H. apply H. exact E. }
  destruct (cwf_side _ _ Hcw) as [Hwl Hwr].
  destruct (flds_wf 2 (cl c) Hwl) as [Hfa Hnfa]. destruct (flds_wf 2 (cr c) Hwr) as [Hfb Hnfb].
  destruct (mths_wf 2 (cl c) Hwl) as [Hma Hnma]. destruct (mths_wf 2 (cr c) Hwr) as [Hmb Hnmb].
  destruct (view_fields _ _ _ Hzf Hfa Hfb Hnfa Hnfb) as [Hfl Hfr].
  destruct (view_meths _ _ _ Hzm Hma Hmb Hnma Hnmb) as [Hml Hmr].
  rewrite Hn, Hd. split.
  - intros x Hx. pose proof (cwf_l _ _ _ Hcw Hx) as Px. rewrite Hx in Hfl, Hml. cbn [flds mths] in Hfl, Hml.
    rewrite Hfl, Hml.
    rewrite (names_l c_names c x Hx (proj1 (class_shape _ _ Px))), (docs_l c_doc c x Hx). destruct x; reflexivity.
  - intros y Hy. pose proof (cwf_r _ _ _ Hcw Hy) as Py. rewrite Hy in Hfr, Hmr. cbn [flds mths] in Hfr, Hmr.
    rewrite Hfr, Hmr.
    rewrite (names_r c_names c y Hy (proj1 (class_shape _ _ Py)) Hnf), (docs_r c_doc c y Hy Hnc). destruct y; reflexivity.
Qed.

Lemma view_classes la lb r :
  zip_spec ckeqb class_key merge_class la lb r ->
  Forall Pclass la -> Forall Pclass lb -> NoDup (map class_key la) -> NoDup (map class_key lb) ->
  filter_map (view_class 1 r) la = la /\ filter_map (view_class 2 r) lb = lb.
Proof.
  intros Hz Ha Hb Hna Hnb. split; apply filter_map_id.
  - intros x Hx. destruct (zip_spec_left ckeqb ckeqb_ok class_key _ la lb r x Hz Hna Hx) as (c & w & Hc & Hl & Hf & Hr).
    destruct (arises_ok ckeqb ckeqb_ok class_key Pclass la lb _ c Ha Hb Hc) as (_ & Hco & Hcw).
    unfold view_class. rewrite Hr. f_equal. apply (proj_class c w Hco Hcw Hf). exact Hl.
  - intros y Hy. destruct (zip_spec_right ckeqb ckeqb_ok class_key _ la lb r y Hz Hnb Hy) as (c & w & Hc & Hl & Hf & Hr).
    destruct (arises_ok ckeqb ckeqb_ok class_key Pclass la lb _ c Ha Hb Hc) as (_ & Hco & Hcw).
    unfold view_class. rewrite Hr. f_equal. apply (proj_class c w Hco Hcw Hf). exact Hl.
Qed.

(* ---------- Theorem 3 ---------- *)
Theorem merge_project A B M : wf2 A = true -> wf2 B = true -> merge A B = Ok M ->
  view 1 A M = A /\ view 2 B M = B.
Proof.
  intros HA HB HM. destruct (merge_ok A B M HA HB HM) as (Hs & Hns & Hdoc & Hnc & Hz & _).
  destruct (wf2_shape A HA) as (s & a & EnA & _ & _ & HcA & HdA).
  destruct (wf2_shape B HB) as (s' & b & EnB & _ & _ & HcB & HdB).
  destruct (view_classes _ _ _ Hz HcA HcB HdA HdB) as [Hl Hr].
  unfold view. rewrite Hl, Hr, Hns, Hdoc, EnA, EnB. cbn [nth]. rewrite EnA, EnB in Hs. cbn [nth] in Hs. subst s'.
  rewrite mask_l, (mask_r _ _ Hnc). split.
  - destruct A as [ns d cs]. cbn [ms_ns ms_doc ms_classes] in *. subst ns. reflexivity.
  - destruct B as [ns d cs]. cbn [ms_ns ms_doc ms_classes] in *. subst ns. reflexivity.
Qed.
