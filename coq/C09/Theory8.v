(* C09 — Theorem 3, second form: the merged set filtered to the key paths of A, reduced to the
   columns (s, a) and to A's comments, IS A — same entries, same order. *)
From FB Require Import C09.Model C09.Theory C09.Theory2 C09.Theory3 C09.Theory5.
From Coq Require Import Lia PeanoNat.

Lemma filter_map_app {A B} (g : A -> option B) l1 l2 : filter_map g (l1 ++ l2) = filter_map g l1 ++ filter_map g l2.
Proof.
  induction l1 as [|x l1 IH]; cbn [app filter_map]; [reflexivity|].
  destruct (g x); cbn [app]; rewrite IH; reflexivity.
Qed.

Lemma filter_map_Forall2 {C V} (R : C -> V -> Prop) (rs : V -> option V) (sel : C -> option V) cs r :
  Forall2 R cs r -> (forall c w, In c cs -> R c w -> rs w = sel c) -> filter_map rs r = filter_map sel cs.
Proof.
  intros H. induction H as [|c w cs r Hcw H IH]; intros Hs; [reflexivity|].
  cbn [filter_map]. rewrite (Hs c w (or_introl eq_refl) Hcw).
  rewrite IH; [reflexivity|]. intros c' w' Hc'. apply Hs. right. exact Hc'.
Qed.

Lemma filter_map_cl_zip {K V} (eqb : K -> K -> bool) (key : V -> K) la lb :
  filter_map cl (zip_list eqb key la lb) = la.
Proof.
  unfold zip_list. rewrite filter_map_app.
  assert (H1 : forall l, filter_map cl (map (fun x => match find_by eqb key (key x) lb with Some y => CAB x y | None => CA x end) l) = l).
  { induction l as [|x l IH]; [reflexivity|]. cbn [map filter_map].
    destruct (find_by eqb key (key x) lb); cbn [cl]; rewrite IH; reflexivity. }
  assert (H2 : forall l, filter_map (@cl V) (map CB l) = []).
  { induction l as [|y l IH]; [reflexivity|]. cbn [map filter_map cl]. exact IH. }
  rewrite H1, H2, app_nil_r. reflexivity.
Qed.

(* the generic step: a filter of the zipped result that maps every merged entry to its A-side *)
Lemma restr_zip {K V} (eqb : K -> K -> bool) (Hok : eqb_ok eqb) (key : V -> K) f la lb r (rs : V -> option V) :
  zip_spec eqb key f la lb r -> NoDup (map key la) -> NoDup (map key lb) ->
  (forall k c w, comb_of (find_by eqb key k la) (find_by eqb key k lb) = Some c -> f c = Ok w -> rs w = cl c) ->
  filter_map rs r = la.
Proof.
  intros (Hz & _ & _) Ha Hb H.
  rewrite (filter_map_Forall2 _ rs cl _ _ Hz); [apply filter_map_cl_zip|].
  intros c w Hc Hf. apply (zip_list_In eqb Hok key la lb c Ha Hb) in Hc. destruct Hc as (k & Hc).
  apply (H k c w Hc Hf).
Qed.

Lemma restr_params la lb r :
  zip_spec N.eqb param_key merge_param la lb r ->
  Forall Pparam la -> Forall Pparam lb -> NoDup (map param_key la) -> NoDup (map param_key lb) ->
  filter_map (restr_param 1 la) r = la.
Proof.
  intros Hz Ha Hb Hna Hnb. apply (restr_zip N.eqb N_eqb_ok param_key merge_param la lb r _ Hz Hna Hnb).
  intros k c w Hc Hf.
  destruct (arises_ok N.eqb N_eqb_ok param_key Pparam la lb k c Ha Hb Hc) as (Hk & Hco & Hcw).
  destruct (merge_param_ok c w Hco Hcw Hf) as (Hkey & _).
  destruct (comb_of_sides _ _ _ Hc) as [El _].
  unfold restr_param. rewrite Hkey, Hk, <- El.
  destruct (cl c) as [x|] eqn:Ex; [|reflexivity]. f_equal. apply (proj_param c w Hco Hcw Hf). exact Ex.
Qed.

Lemma restr_fields la lb r :
  zip_spec mkeqb field_key merge_field la lb r ->
  Forall Pfield la -> Forall Pfield lb -> NoDup (map field_key la) -> NoDup (map field_key lb) ->
  filter_map (restr_field 1 la) r = la.
Proof.
  intros Hz Ha Hb Hna Hnb. apply (restr_zip mkeqb mkeqb_ok field_key merge_field la lb r _ Hz Hna Hnb).
  intros k c w Hc Hf.
  destruct (arises_ok mkeqb mkeqb_ok field_key Pfield la lb k c Ha Hb Hc) as (Hk & Hco & Hcw).
  destruct (merge_field_ok c w Hco Hcw Hf) as (Hkey & _).
  destruct (comb_of_sides _ _ _ Hc) as [El _].
  unfold restr_field. rewrite Hkey, Hk, <- El.
  destruct (cl c) as [x|] eqn:Ex; [|reflexivity]. f_equal. apply (proj_field c w Hco Hcw Hf). exact Ex.
Qed.

Lemma restr_meths la lb r :
  zip_spec mkeqb meth_key merge_meth la lb r ->
  Forall Pmeth la -> Forall Pmeth lb -> NoDup (map meth_key la) -> NoDup (map meth_key lb) ->
  filter_map (restr_meth 1 la) r = la.
Proof.
  intros Hz Ha Hb Hna Hnb. apply (restr_zip mkeqb mkeqb_ok meth_key merge_meth la lb r _ Hz Hna Hnb).
  intros k c w Hc Hf.
  destruct (arises_ok mkeqb mkeqb_ok meth_key Pmeth la lb k c Ha Hb Hc) as (Hk & Hco & Hcw).
  destruct (merge_meth_ok c w Hco Hcw Hf) as (Hkey & _ & _ & Hzp & _).
  destruct (comb_of_sides _ _ _ Hc) as [El _].
  unfold restr_meth. rewrite Hkey, Hk, <- El.
  destruct (cl c) as [x|] eqn:Ex; [|reflexivity]. f_equal.
  destruct (proj_meth c w Hco Hcw Hf) as [Hp _]. specialize (Hp x Ex).
  destruct (cwf_side _ _ Hcw) as [Hwl Hwr].
  destruct (prms_wf 2 (cl c) Hwl) as [Hpa Hnpa]. destruct (prms_wf 2 (cr c) Hwr) as [Hpb Hnpb].
  rewrite Ex in Hpa, Hnpa.
  pose proof (restr_params _ _ _ Hzp Hpa Hpb Hnpa Hnpb) as Hr. cbn [prms] in Hr. rewrite Hr.
  pose proof (f_equal m_desc Hp) as E1. pose proof (f_equal m_names Hp) as E2. pose proof (f_equal m_doc Hp) as E3.
  cbn [m_desc m_names m_doc] in E1, E2, E3. rewrite E1, E2, E3. destruct x; reflexivity.
Qed.

Lemma restr_classes la lb r :
  zip_spec ckeqb class_key merge_class la lb r ->
  Forall Pclass la -> Forall Pclass lb -> NoDup (map class_key la) -> NoDup (map class_key lb) ->
  filter_map (restr_class 1 la) r = la.
Proof.
  intros Hz Ha Hb Hna Hnb. apply (restr_zip ckeqb ckeqb_ok class_key merge_class la lb r _ Hz Hna Hnb).
  intros k c w Hc Hf.
  destruct (arises_ok ckeqb ckeqb_ok class_key Pclass la lb k c Ha Hb Hc) as (Hk & Hco & Hcw).
  destruct (merge_class_ok c w Hco Hcw Hf) as (Hkey & _ & _ & Hzf & Hzm & _).
  destruct (comb_of_sides _ _ _ Hc) as [El _].
  unfold restr_class. rewrite Hkey, Hk, <- El.
  destruct (cwf_side _ _ Hcw) as [Hwl Hwr].
  destruct (flds_wf 2 (cl c) Hwl) as [Hfa Hnfa]. destruct (flds_wf 2 (cr c) Hwr) as [Hfb Hnfb].
  destruct (mths_wf 2 (cl c) Hwl) as [Hma Hnma]. destruct (mths_wf 2 (cr c) Hwr) as [Hmb Hnmb].
  pose proof (restr_fields _ _ _ Hzf Hfa Hfb Hnfa Hnfb) as Hrf.
  pose proof (restr_meths _ _ _ Hzm Hma Hmb Hnma Hnmb) as Hrm.
  destruct (proj_class c w Hco Hcw Hf) as [Hp _].
  destruct (cl c) as [x|] eqn:Ex; [|reflexivity]. f_equal. specialize (Hp x eq_refl).
  cbn [flds mths] in Hrf, Hrm. rewrite Hrf, Hrm.
  pose proof (f_equal c_names Hp) as E1. pose proof (f_equal c_doc Hp) as E2.
  cbn [c_names c_doc] in E1, E2. rewrite E1, E2. destruct x; reflexivity.
Qed.

Theorem merge_restrict A B M : wf2 A = true -> wf2 B = true -> merge A B = Ok M -> restrict 1 A M = A.
Proof.
  intros HA HB HM. destruct (merge_ok A B M HA HB HM) as (Hs & Hns & Hdoc & Hnc & Hz & _).
  destruct (wf2_shape A HA) as (s & a & EnA & _ & _ & HcA & HdA).
  destruct (wf2_shape B HB) as (s' & b & EnB & _ & _ & HcB & HdB).
  unfold restrict. rewrite (restr_classes _ _ _ Hz HcA HcB HdA HdB), Hns, Hdoc, EnA. cbn [nth].
  rewrite mask_l. destruct A as [ns d cs]. cbn [ms_ns ms_doc ms_classes] in *. subst ns. reflexivity.
Qed.
