(* C09 — round 7: an empty name in ANY cell of any row of either input is refused (the proof of Theory11.v for the
   second column, with the row predicate widened to every cell; rows that do not have two cells are refused anyway). *)
From FB Require Import C09.Model C09.ModelNames C09.Theory C09.Theory11.
From Coq Require Import Lia PeanoNat.

Lemma merge_names_ebad c : sideb ebad_row c = true -> merge_names c = Err.
Proof.
  unfold ebad_row. destruct c as [l|l|l1 l2]; cbn [sideb merge_names].
  - destruct l as [|a0 [|a1 [|a2 l]]]; try reflexivity. cbn [existsb]. intros H. unfold names_from. cbn [forallb].
    destruct a0 as [[|? ?]|], a1 as [[|? ?]|]; cbn in H |- *; try reflexivity; discriminate H.
  - destruct l as [|a0 [|a1 [|a2 l]]]; try reflexivity. cbn [existsb]. intros H. unfold names_from. cbn [forallb].
    destruct a0 as [[|? ?]|], a1 as [[|? ?]|]; cbn in H |- *; try reflexivity; discriminate H.
  - destruct l1 as [|a0 [|a1 [|a2 l1]]]; destruct l2 as [|b0 [|b1 [|b2 l2]]]; try reflexivity.
    cbn [existsb]. intros H. destruct (opt_eqb str_eqb a0 b0) eqn:E; [|reflexivity]. unfold names_from. cbn [forallb].
    destruct a0 as [[|? ?]|], b0 as [[|? ?]|]; cbn in E; try discriminate E;
      destruct a1 as [[|? ?]|], b1 as [[|? ?]|]; cbn in H |- *; try reflexivity; discriminate H.
Qed.

Lemma merge_param_ebad c : sideb ebad_param c = true -> merge_param c = Err.
Proof.
  intros H. unfold merge_param. destruct (merge_equal N.eqb (cmap p_index c)); cbn [bind]; [|reflexivity].
  rewrite merge_names_ebad; [reflexivity|]. rewrite sideb_cmap. exact H.
Qed.

Lemma merge_field_ebad c : sideb ebad_field c = true -> merge_field c = Err.
Proof.
  intros H. unfold merge_field. destruct (merge_equal str_eqb (cmap f_desc c)); cbn [bind]; [|reflexivity].
  rewrite merge_names_ebad; [reflexivity|]. rewrite sideb_cmap. exact H.
Qed.

Lemma merge_meth_ebad c : sideall uniq_meth c = true -> sideb ebad_meth c = true -> merge_meth c = Err.
Proof.
  intros Hu H. unfold merge_meth. destruct (merge_equal str_eqb (cmap m_desc c)); cbn [bind]; [|reflexivity].
  destruct (sideb ebad_row (cmap m_names c)) eqn:E1.
  - rewrite (merge_names_ebad _ E1). reflexivity.
  - destruct (merge_names (cmap m_names c)); cbn [bind]; [|reflexivity].
    rewrite (zip_comb_bad N.eqb N_eqb_ok param_key ebad_param (cmap m_params c) merge_param); [reflexivity| | | |].
    + destruct c as [x|y|x y]; cbn [cmap side_a map sideall] in *; [| constructor |];
        [|apply andb_true_iff in Hu; destruct Hu as [Hu _]]; apply (nodupb_NoDup N.eqb N_eqb_ok); exact Hu.
    + destruct c as [x|y|x y]; cbn [cmap side_b map sideall] in *; [constructor | |];
        [|apply andb_true_iff in Hu; destruct Hu as [_ Hu]]; apply (nodupb_NoDup N.eqb N_eqb_ok); exact Hu.
    + intros pc _ Hpc. apply merge_param_ebad. exact Hpc.
    + rewrite sideb_cmap in E1. unfold ebad_meth in H.
      destruct c as [x|y|x y]; cbn [cmap side_a side_b sideb existsb] in *.
      * rewrite E1 in H. rewrite orb_false_r. exact H.
      * rewrite E1 in H. exact H.
      * apply orb_false_iff in E1. destruct E1 as [E1 E2]. rewrite E1, E2 in H. exact H.
Qed.

Lemma merge_class_ebad c : sideall uniq_class c = true -> sideb ebad_class c = true -> merge_class c = Err.
Proof.
  intros Hu H. unfold merge_class.
  destruct (sideb ebad_row (cmap c_names c)) eqn:E1.
  { rewrite (merge_names_ebad _ E1). reflexivity. }
  destruct (merge_names (cmap c_names c)); cbn [bind]; [|reflexivity].
  assert (Hparts : NoDup (map field_key (side_a (cmap c_fields c))) /\ NoDup (map field_key (side_b (cmap c_fields c)))
                   /\ NoDup (map meth_key (side_a (cmap c_methods c))) /\ NoDup (map meth_key (side_b (cmap c_methods c)))
                   /\ forallb uniq_meth (side_a (cmap c_methods c)) = true /\ forallb uniq_meth (side_b (cmap c_methods c)) = true).
  { unfold uniq_class in Hu. destruct c as [x|y|x y]; cbn [cmap side_a side_b map sideall forallb] in *;
      rewrite ?andb_true_iff in Hu; repeat split; try constructor;
      try (apply (nodupb_NoDup mkeqb mkeqb_ok); tauto); tauto. }
  destruct Hparts as (Hfa & Hfb & Hma & Hmb & Hua & Hub).
  destruct (existsb ebad_field (side_a (cmap c_fields c)) || existsb ebad_field (side_b (cmap c_fields c))) eqn:E2.
  { rewrite (zip_comb_bad mkeqb mkeqb_ok field_key ebad_field (cmap c_fields c) merge_field Hfa Hfb); [reflexivity| |exact E2].
    intros fc _ Hfc. apply merge_field_ebad. exact Hfc. }
  destruct (zip_comb mkeqb field_key (cmap c_fields c) merge_field); cbn [bind]; [|reflexivity].
  rewrite (zip_comb_bad mkeqb mkeqb_ok meth_key ebad_meth (cmap c_methods c) merge_meth Hma Hmb); [reflexivity| |].
  - intros mc Hmc Hbad. apply merge_meth_ebad; [|exact Hbad].
    exact (sides_in mkeqb mkeqb_ok meth_key uniq_meth _ _ mc Hma Hmb Hua Hub Hmc).
  - rewrite sideb_cmap in E1. unfold ebad_class in H.
    destruct c as [x|y|x y]; cbn [cmap side_a side_b sideb existsb] in *.
    + rewrite orb_false_r in E2. rewrite E1, E2 in H. rewrite orb_false_r. exact H.
    + rewrite E1, E2 in H. exact H.
    + apply orb_false_iff in E1. destruct E1 as [E1 E1']. apply orb_false_iff in E2. destruct E2 as [E2 E2'].
      rewrite E1, E1', E2, E2' in H. exact H.
Qed.

Theorem merge_rejects_empty_cell A B :
  keys_unique A = true -> keys_unique B = true ->
  has_empty_cell A || has_empty_cell B = true -> merge A B = Err.
Proof.
  intros HA HB H. unfold keys_unique in HA, HB. apply andb_true_iff in HA, HB.
  destruct HA as [HdA HuA]. destruct HB as [HdB HuB].
  apply (nodupb_NoDup ckeqb ckeqb_ok) in HdA, HdB.
  unfold merge. destruct (merge_namespaces (ms_ns A) (ms_ns B)); cbn [bind]; [|reflexivity].
  rewrite (zip_comb_bad ckeqb ckeqb_ok class_key ebad_class (CAB (ms_classes A) (ms_classes B)) merge_class HdA HdB); [reflexivity| |exact H].
  intros c Hc Hbad. apply merge_class_ebad; [|exact Hbad].
  exact (sides_in ckeqb ckeqb_ok class_key uniq_class _ _ c HdA HdB HuA HuB Hc).
Qed.

(* the second-column predicate of Model.v is a special case *)
Lemma bad_row_ebad l : bad_row l = true -> ebad_row l = true.
Proof.
  unfold bad_row, ebad_row, nth_name. destruct l as [|a0 [|a1 l]]; cbn [nth existsb]; try discriminate.
  destruct a1 as [[|? ?]|]; try discriminate. intros _. now rewrite orb_true_r.
Qed.

(* non-vacuity: an empty name in the FIRST column (not constructible through the editing API - C09_change_name_spec -
   only by a caller that bypasses the constructors) is refused on either side; keys are unique *)
Definition empty_cell_example : Prop :=
  let A := mkMappings [[115]; [97]] None [mkClass [Some [67]; Some [68]] None [mkField [73] [Some []; Some [102]] None] []] in
  let B := mkMappings [[115]; [98]] None [mkClass [Some [67]; Some [69]] None [] []] in
  keys_unique A = true /\ keys_unique B = true /\ has_empty_cell A = true /\ has_empty_name A = false
  /\ merge A B = Err /\ merge B A = Err.
Lemma empty_cell_example_holds : empty_cell_example.
Proof. unfold empty_cell_example. cbv zeta. repeat split; vm_compute; reflexivity. Qed.
