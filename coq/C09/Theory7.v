(* C09 — non-vacuity: a concrete pair inside the hypotheses of the theorems (overlapping at
   every level, comments on either side), and pairs showing each documented conflict. *)
From FB Require Import C09.Model C09.Theory C09.Theory2 C09.Theory4.

Definition sC1 : str := [67; 49].   Definition sC2 : str := [67; 50].   Definition sC3 : str := [67; 51].
Definition sI : str := [73].        Definition sV : str := [40; 41; 86].
Definition sf : str := [102].       Definition sg : str := [103].       Definition sm : str := [109].
Definition sx : str := [120].       Definition sy : str := [121].

Definition exA : mappings :=
  mkMappings [[115]; [97]] None
    [ mkClass [Some sC1; Some sx] (Some [100])
        [ mkField sI [Some sf; Some sx] None; mkField sI [Some sg; None] (Some [101]) ]
        [ mkMeth sV [Some sm; Some sx] None
            [ mkParam 0 [None; Some sx] None; mkParam 1 [Some [112]; Some sx] (Some [102]) ] ];
      mkClass [Some sC2; None] None [] [] ].

Definition exB : mappings :=
  mkMappings [[115]; [98]] (Some [116])
    [ mkClass [Some sC3; Some sy] None [] [ mkMeth sV [Some sm; Some sy] None [ mkParam 3 [None; Some sy] None ] ];
      mkClass [Some sC1; Some sy] None
        [ mkField sI [Some sx; Some sy] None; mkField sI [Some sf; Some sy] (Some [103]) ]
        [ mkMeth sV [Some sm; None] (Some [104])
            [ mkParam 2 [None; Some sy] None; mkParam 1 [Some [112]; None] (Some [102]) ] ] ].

Definition exM : mappings :=
  mkMappings [[115]; [97]; [98]] (Some [116])
    [ mkClass [Some sC1; Some sx; Some sy] (Some [100])
        [ mkField sI [Some sf; Some sx; Some sy] (Some [103]); mkField sI [Some sg; None; None] (Some [101]);
          mkField sI [Some sx; None; Some sy] None ]
        [ mkMeth sV [Some sm; Some sx; None] (Some [104])
            [ mkParam 0 [None; Some sx; None] None; mkParam 1 [Some [112]; Some sx; None] (Some [102]);
              mkParam 2 [None; None; Some sy] None ] ];
      mkClass [Some sC2; None; None] None [] [];
      mkClass [Some sC3; None; Some sy] None [] [ mkMeth sV [Some sm; None; Some sy] None [ mkParam 3 [None; None; Some sy] None ] ] ].

(* B with one conflict of each kind *)
Definition exB_ns : mappings := mkMappings [[116]; [98]] None [].
Definition exB_doc : mappings := mkMappings [[115]; [98]] None [ mkClass [Some sC1; None] (Some [120]) [] [] ].
Definition exB_pname : mappings :=
  mkMappings [[115]; [98]] None
    [ mkClass [Some sC1; None] None [] [ mkMeth sV [Some sm; None] None [ mkParam 1 [None; Some sy] None ] ] ].

Definition nonvacuous : Prop :=
  wf2 exA = true /\ wf2 exB = true /\ merge exA exB = Ok exM
  /\ wf2 exB_ns = true /\ merge exA exB_ns = Err
  /\ wf2 exB_doc = true /\ merge exA exB_doc = Err
  /\ wf2 exB_pname = true /\ merge exA exB_pname = Err
  /\ conflict exA exB_pname.

Lemma nonvacuous_holds : nonvacuous.
Proof.
  unfold nonvacuous. repeat (split; [vm_compute; reflexivity|]).
  right. right. right. right. right.
  exists (Some sC1), (Some (sm, sV)), 1,
    (mkParam 1 [Some [112]; Some sx] (Some [102])), (mkParam 1 [None; Some sy] None).
  split; [vm_compute; reflexivity|]. split; [vm_compute; reflexivity|].
  right. cbn. discriminate.
Qed.
