(* C09 — what merge does to a single node (parameter, field, method, class) and to a whole set. *)
From FB Require Import C09.Model C09.Theory.
From Coq Require Import Lia.

(* ---------- combinations of well-formed nodes with the same key ---------- *)
Definition cwf {V} (P : V -> Prop) (c : comb V) : Prop :=
  match c with CA x => P x | CB y => P y | CAB x y => P x /\ P y end.
Definition cohk {K V} (key : V -> K) (c : comb V) : Prop :=
  match c with CAB x y => key x = key y | _ => True end.

Lemma arises_ok {K V} (eqb : K -> K -> bool) (Hok : eqb_ok eqb) (key : V -> K) (P : V -> Prop) la lb k c :
  Forall P la -> Forall P lb ->
  comb_of (find_by eqb key k la) (find_by eqb key k lb) = Some c ->
  ckey key c = k /\ cohk key c /\ cwf P c.
Proof.
  intros Ha Hb Hc. destruct (comb_of_find eqb Hok key la lb k c Hc) as (Hk & Hl & Hr).
  rewrite Forall_forall in Ha, Hb.
  split; [exact Hk|]. destruct c as [x|y|x y]; cbn [cohk cwf cl cr] in *.
  - split; [exact I|]. apply Ha, (Hl x eq_refl).
  - split; [exact I|]. apply Hb, (Hr y eq_refl).
  - destruct (Hl x eq_refl) as [Hx Hkx]. destruct (Hr y eq_refl) as [Hy Hky].
    split; [congruence|]. split; [apply Ha, Hx|apply Hb, Hy].
Qed.

(* ---------- comments ---------- *)
Definition doc_conflict (a b : option str) : Prop := exists x y, a = Some x /\ b = Some y /\ x <> y.

Lemma merge_doc2_ok a b d : merge_doc2 a b = Ok d -> d = first_some a b /\ ~ doc_conflict a b.
Proof.
  destruct a as [x|], b as [y|]; cbn [merge_doc2 first_some].
  - destruct (str_eqb_spec x y) as [->|Hn]; [|discriminate]. intros [= <-]. split; [reflexivity|].
    intros (x' & y' & [= <-] & [= <-] & H). congruence.
  - intros [= <-]. split; [reflexivity|]. intros (x' & y' & _ & H & _). discriminate.
  - intros [= <-]. split; [reflexivity|]. intros (x' & y' & H & _). discriminate.
  - intros [= <-]. split; [reflexivity|]. intros (x' & y' & H & _). discriminate.
Qed.

Lemma merge_doc2_err a b : merge_doc2 a b = Err <-> doc_conflict a b.
Proof.
  destruct a as [x|], b as [y|]; cbn [merge_doc2]; try (split; [discriminate|intros (x' & y' & H1 & H2 & _); discriminate]).
  destruct (str_eqb_spec x y) as [->|Hn].
  - split; [discriminate|]. intros (x' & y' & [= <-] & [= <-] & H). congruence.
  - split; [|reflexivity]. intros _. exists x, y. auto.
Qed.

Definition cdoc_conflict {V} (doc : V -> option str) (c : comb V) : Prop :=
  match c with CAB x y => doc_conflict (doc x) (doc y) | _ => False end.

Lemma merge_doc_ok {V} (doc : V -> option str) (c : comb V) d :
  merge_doc (cmap doc c) = Ok d -> d = first_some (odoc doc (cl c)) (odoc doc (cr c)).
Proof.
  destruct c as [x|y|x y]; cbn [cmap merge_doc odoc cl cr first_some].
  - intros [= <-]. destruct (doc x); reflexivity.
  - intros [= <-]. reflexivity.
  - intros H. apply merge_doc2_ok in H. apply H.
Qed.

Lemma merge_doc_err {V} (doc : V -> option str) (c : comb V) :
  merge_doc (cmap doc c) = Err <-> cdoc_conflict doc c.
Proof.
  destruct c as [x|y|x y]; cbn [cmap merge_doc cdoc_conflict]; try (split; [discriminate|tauto]).
  apply merge_doc2_err.
Qed.

(* ---------- names ---------- *)
Definition cell_ok (o : option str) : bool := match o with Some [] => false | _ => true end.

Lemma names_ok2 l : names_ok 2 l = true -> exists a0 a1, l = [a0; a1] /\ cell_ok a0 = true /\ cell_ok a1 = true.
Proof.
  unfold names_ok. rewrite andb_true_iff. intros [Hl Hc]. apply Nat.eqb_eq in Hl.
  destruct l as [|a0 [|a1 [|? ?]]]; try discriminate.
  cbn [forallb] in Hc. rewrite !andb_true_iff in Hc. exists a0, a1. unfold cell_ok. tauto.
Qed.

Lemma names_from_ok l : forallb cell_ok l = true -> names_from l = Ok l.
Proof. unfold names_from, cell_ok. intros ->. reflexivity. Qed.

Lemma names_ok3 a b c : cell_ok a = true -> cell_ok b = true -> cell_ok c = true -> names_ok 3 [a; b; c] = true.
Proof. unfold names_ok, cell_ok. cbn [length Nat.eqb forallb]. intros -> -> ->. reflexivity. Qed.

Lemma opt_str_eqb_false (a b : option str) : opt_eqb str_eqb a b = false <-> a <> b.
Proof. apply (eqb_ok_false _ (opt_eqb_ok _ str_eqb_ok)). Qed.
Lemma opt_str_eqb_true (a b : option str) : opt_eqb str_eqb a b = true <-> a = b.
Proof. apply (opt_eqb_ok _ str_eqb_ok). Qed.

(* merge_names on rows of two legal cells: fails exactly when both sides are present and their
   first cells differ; otherwise the merged row is row3 *)
Lemma merge_names_spec {V} (nm : V -> names) (c : comb V) :
  cwf (fun x => names_ok 2 (nm x) = true) c ->
  (nth_name_differs : Prop)%type = (nth_name_differs : Prop)%type.
Abort.

Definition first_differs {V} (nm : V -> names) (c : comb V) : Prop :=
  match c with CAB x y => nth_name (nm x) 0 <> nth_name (nm y) 0 | _ => False end.

Lemma merge_names_ok {V} (nm : V -> names) (c : comb V) n :
  cwf (fun x => names_ok 2 (nm x) = true) c ->
  merge_names (cmap nm c) = Ok n ->
  n = row3 (option_map nm (cl c)) (option_map nm (cr c)) /\ names_ok 3 n = true /\ ~ first_differs nm c.
Proof.
  destruct c as [x|y|x y]; cbn [cwf cmap cl cr option_map first_differs].
  - intros Hx. destruct (names_ok2 _ Hx) as (a0 & a1 & -> & H0 & H1). cbn [merge_names].
    rewrite names_from_ok by (cbn [forallb]; rewrite H0, H1; reflexivity).
    intros [= <-]. split; [reflexivity|]. split; [apply names_ok3; auto|tauto].
  - intros Hy. destruct (names_ok2 _ Hy) as (b0 & b1 & -> & H0 & H1). cbn [merge_names].
    rewrite names_from_ok by (cbn [forallb]; rewrite H0, H1; reflexivity).
    intros [= <-]. split; [reflexivity|]. split; [apply names_ok3; auto|tauto].
  - intros [Hx Hy]. destruct (names_ok2 _ Hx) as (a0 & a1 & -> & H0 & H1).
    destruct (names_ok2 _ Hy) as (b0 & b1 & -> & H0' & H1'). cbn [merge_names].
    destruct (opt_eqb str_eqb a0 b0) eqn:E; [|discriminate]. apply opt_str_eqb_true in E. subst b0.
    rewrite names_from_ok by (cbn [forallb]; rewrite H0, H1, H1'; reflexivity).
    intros [= <-]. split; [reflexivity|]. split; [apply names_ok3; auto|].
    cbn [nth_name nth]. congruence.
Qed.

Lemma merge_names_err {V} (nm : V -> names) (c : comb V) :
  cwf (fun x => names_ok 2 (nm x) = true) c ->
  (merge_names (cmap nm c) = Err <-> first_differs nm c).
Proof.
  destruct c as [x|y|x y]; cbn [cwf cmap first_differs].
  - intros Hx. destruct (names_ok2 _ Hx) as (a0 & a1 & -> & H0 & H1). cbn [merge_names].
    rewrite names_from_ok by (cbn [forallb]; rewrite H0, H1; reflexivity). split; [discriminate|tauto].
  - intros Hy. destruct (names_ok2 _ Hy) as (b0 & b1 & -> & H0 & H1). cbn [merge_names].
    rewrite names_from_ok by (cbn [forallb]; rewrite H0, H1; reflexivity). split; [discriminate|tauto].
  - intros [Hx Hy]. destruct (names_ok2 _ Hx) as (a0 & a1 & -> & H0 & H1).
    destruct (names_ok2 _ Hy) as (b0 & b1 & -> & H0' & H1'). cbn [merge_names nth_name nth].
    destruct (opt_eqb str_eqb a0 b0) eqn:E.
    + apply opt_str_eqb_true in E. subst b0.
      rewrite names_from_ok by (cbn [forallb]; rewrite H0, H1, H1'; reflexivity).
      split; [discriminate|congruence].
    + apply opt_str_eqb_false in E. tauto.
Qed.

(* ---------- merge_equal is only ever asked about equal things ---------- *)
Lemma merge_equal_same {T V} (eqb : T -> T -> bool) (Hok : eqb_ok eqb) (g : V -> T) (c : comb V) :
  match c with CAB x y => g x = g y | _ => True end ->
  merge_equal eqb (cmap g c) = Ok (match c with CA x => g x | CB y => g y | CAB x _ => g x end).
Proof.
  destruct c as [x|y|x y]; cbn [cmap merge_equal]; try reflexivity.
  intros ->. rewrite (eqb_ok_refl eqb Hok). reflexivity.
Qed.
