(* C09 — what merge does to a single node (parameter, field, method, class) and to a whole set. *)
From FB Require Import C09.Model C09.Theory.
From Coq Require Import Lia PeanoNat.

(* ---------- combinations of well-formed nodes with the same key ---------- *)
Definition cwf {V} (P : V -> Prop) (c : comb V) : Prop :=
  match c with CA x => P x | CB y => P y | CAB x y => P x /\ P y end.
Definition cohk {K V} (key : V -> K) (c : comb V) : Prop :=
  match c with CAB x y => key x = key y | _ => True end.

Lemma arises_ok {K V} (eqb : K -> K -> bool) (Hok : eqb_ok eqb) (key : V -> K) (P : V -> Prop) la lb k c :
  Forall P la -> Forall P lb ->
  comb_of (find_by eqb key k la) (find_by eqb key k lb) = Some c ->
  ckey key c = k /\ cohk key c /\ cwf P c.
Proof.
  intros Ha Hb Hc. destruct (comb_of_find eqb Hok key la lb k c Hc) as (Hk & Hl & Hr).
  rewrite Forall_forall in Ha, Hb.
  split; [exact Hk|]. destruct c as [x|y|x y]; cbn [cohk cwf cl cr] in *.
  - split; [exact I|]. apply Ha, (Hl x eq_refl).
  - split; [exact I|]. apply Hb, (Hr y eq_refl).
  - destruct (Hl x eq_refl) as [Hx Hkx]. destruct (Hr y eq_refl) as [Hy Hky].
    split; [congruence|]. split; [apply Ha, Hx|apply Hb, Hy].
Qed.

(* ---------- comments ---------- *)
Definition doc_conflict (a b : option str) : Prop := exists x y, a = Some x /\ b = Some y /\ x <> y.

Lemma merge_doc2_ok a b d : merge_doc2 a b = Ok d -> d = first_some a b /\ ~ doc_conflict a b.
Proof.
  destruct a as [x|], b as [y|]; cbn [merge_doc2 first_some].
  - destruct (str_eqb_spec x y) as [->|Hn]; [|discriminate]. intros [= <-]. split; [reflexivity|].
    intros (x' & y' & [= <-] & [= <-] & H). congruence.
  - intros [= <-]. split; [reflexivity|]. intros (x' & y' & _ & H & _). discriminate.
  - intros [= <-]. split; [reflexivity|]. intros (x' & y' & H & _). discriminate.
  - intros [= <-]. split; [reflexivity|]. intros (x' & y' & H & _). discriminate.
Qed.

Lemma merge_doc2_err a b : merge_doc2 a b = Err <-> doc_conflict a b.
Proof.
  destruct a as [x|], b as [y|]; cbn [merge_doc2]; try (split; [discriminate|intros (x' & y' & H1 & H2 & _); discriminate]).
  destruct (str_eqb_spec x y) as [->|Hn].
  - split; [discriminate|]. intros (x' & y' & [= <-] & [= <-] & H). congruence.
  - split; [|reflexivity]. intros _. exists x, y. auto.
Qed.

Definition cdoc_conflict {V} (doc : V -> option str) (c : comb V) : Prop :=
  match c with CAB x y => doc_conflict (doc x) (doc y) | _ => False end.

Lemma merge_doc_ok {V} (doc : V -> option str) (c : comb V) d :
  merge_doc (cmap doc c) = Ok d -> d = first_some (odoc doc (cl c)) (odoc doc (cr c)).
Proof.
  destruct c as [x|y|x y]; cbn [cmap merge_doc odoc cl cr first_some].
  - intros [= <-]. destruct (doc x); reflexivity.
  - intros [= <-]. reflexivity.
  - intros H. apply merge_doc2_ok in H. apply H.
Qed.

Lemma merge_doc_err {V} (doc : V -> option str) (c : comb V) :
  merge_doc (cmap doc c) = Err <-> cdoc_conflict doc c.
Proof.
  destruct c as [x|y|x y]; cbn [cmap merge_doc cdoc_conflict]; try (split; [discriminate|tauto]).
  apply merge_doc2_err.
Qed.

(* ---------- names ---------- *)
Definition cell_ok (o : option str) : bool := match o with Some [] => false | _ => true end.

Lemma names_ok2 l : names_ok 2 l = true -> exists a0 a1, l = [a0; a1] /\ cell_ok a0 = true /\ cell_ok a1 = true.
Proof.
  unfold names_ok. rewrite andb_true_iff. intros [Hl Hc]. apply Nat.eqb_eq in Hl.
  destruct l as [|a0 [|a1 [|? ?]]]; try discriminate.
  cbn [forallb] in Hc. rewrite !andb_true_iff in Hc. exists a0, a1. unfold cell_ok. tauto.
Qed.

Lemma names_from_ok l : forallb cell_ok l = true -> names_from l = Ok l.
Proof.
  intros H. unfold names_from.
  match goal with |- (if ?b then _ else _) = _ => replace b with true by (symmetry; exact H) end.
  reflexivity.
Qed.

Lemma names_ok3 a b c : cell_ok a = true -> cell_ok b = true -> cell_ok c = true -> names_ok 3 [a; b; c] = true.
Proof.
  intros Ha Hb Hc. unfold names_ok. cbn [length Nat.eqb forallb andb].
  change (cell_ok a && (cell_ok b && (cell_ok c && true)) = true). rewrite Ha, Hb, Hc. reflexivity.
Qed.

Lemma opt_str_eqb_false (a b : option str) : opt_eqb str_eqb a b = false <-> a <> b.
Proof. apply (eqb_ok_false _ (opt_eqb_ok _ str_eqb_ok)). Qed.
Lemma opt_str_eqb_true (a b : option str) : opt_eqb str_eqb a b = true <-> a = b.
Proof. apply (opt_eqb_ok _ str_eqb_ok). Qed.

(* merge_names on rows of two legal cells: fails exactly when both sides are present and their
   first cells differ; otherwise the merged row is row3 *)
Definition first_differs {V} (nm : V -> names) (c : comb V) : Prop :=
  match c with CAB x y => nth_name (nm x) 0 <> nth_name (nm y) 0 | _ => False end.

Lemma merge_names_ok {V} (nm : V -> names) (c : comb V) n :
  cwf (fun x => names_ok 2 (nm x) = true) c ->
  merge_names (cmap nm c) = Ok n ->
  n = row3 (option_map nm (cl c)) (option_map nm (cr c)) /\ names_ok 3 n = true /\ ~ first_differs nm c.
Proof.
  destruct c as [x|y|x y]; cbn [cwf cmap cl cr option_map first_differs].
  - intros Hx. destruct (names_ok2 _ Hx) as (a0 & a1 & -> & H0 & H1). cbn [merge_names].
    rewrite names_from_ok by (cbn [forallb]; rewrite H0, H1; reflexivity).
    intros [= <-]. split; [reflexivity|]. split; [apply names_ok3; auto|tauto].
  - intros Hy. destruct (names_ok2 _ Hy) as (b0 & b1 & -> & H0 & H1). cbn [merge_names].
    rewrite names_from_ok by (cbn [forallb]; rewrite H0, H1; reflexivity).
    intros [= <-]. split; [reflexivity|]. split; [apply names_ok3; auto|tauto].
  - intros [Hx Hy]. destruct (names_ok2 _ Hx) as (a0 & a1 & -> & H0 & H1).
    destruct (names_ok2 _ Hy) as (b0 & b1 & -> & H0' & H1'). cbn [merge_names].
    destruct (opt_eqb str_eqb a0 b0) eqn:E; [|discriminate]. apply opt_str_eqb_true in E. subst b0.
    rewrite names_from_ok by (cbn [forallb]; rewrite H0, H1, H1'; reflexivity).
    intros [= <-]. split; [reflexivity|]. split; [apply names_ok3; auto|].
    cbn [nth_name nth]. congruence.
Qed.

Lemma merge_names_err {V} (nm : V -> names) (c : comb V) :
  cwf (fun x => names_ok 2 (nm x) = true) c ->
  (merge_names (cmap nm c) = Err <-> first_differs nm c).
Proof.
  destruct c as [x|y|x y]; cbn [cwf cmap first_differs].
  - intros Hx. destruct (names_ok2 _ Hx) as (a0 & a1 & -> & H0 & H1). cbn [merge_names].
    rewrite names_from_ok by (cbn [forallb]; rewrite H0, H1; reflexivity). split; [discriminate|tauto].
  - intros Hy. destruct (names_ok2 _ Hy) as (b0 & b1 & -> & H0 & H1). cbn [merge_names].
    rewrite names_from_ok by (cbn [forallb]; rewrite H0, H1; reflexivity). split; [discriminate|tauto].
  - intros [Hx Hy]. destruct (names_ok2 _ Hx) as (a0 & a1 & -> & H0 & H1).
    destruct (names_ok2 _ Hy) as (b0 & b1 & -> & H0' & H1'). cbn [merge_names nth_name nth].
    destruct (opt_eqb str_eqb a0 b0) eqn:E.
    + apply opt_str_eqb_true in E. subst b0.
      rewrite names_from_ok by (cbn [forallb]; rewrite H0, H1, H1'; reflexivity).
      split; [discriminate|congruence].
    + apply opt_str_eqb_false in E. tauto.
Qed.

(* ---------- merge_equal is only ever asked about equal things ---------- *)
Lemma merge_equal_same {T V} (eqb : T -> T -> bool) (Hok : eqb_ok eqb) (g : V -> T) (c : comb V) :
  match c with CAB x y => g x = g y | _ => True end ->
  merge_equal eqb (cmap g c) = Ok (match c with CA x => g x | CB y => g y | CAB x _ => g x end).
Proof.
  destruct c as [x|y|x y]; cbn [cmap merge_equal]; try reflexivity.
  intros ->. rewrite (eqb_ok_refl eqb Hok). reflexivity.
Qed.

(* ---------- bind ---------- *)
Lemma bind_err {A B} (r : res A) (k : A -> res B) :
  bind r k = Err <-> r = Err \/ exists x, r = Ok x /\ k x = Err.
Proof.
  destruct r as [x|]; cbn [bind].
  - split; [intros H; right; exists x; auto|]. intros [H|(y & [= <-] & H)]; [discriminate|exact H].
  - split; [auto|reflexivity].
Qed.

Lemma cwf_impl {V} (P Q : V -> Prop) (c : comb V) : (forall x, P x -> Q x) -> cwf P c -> cwf Q c.
Proof. intros H. destruct c; cbn [cwf]; intuition. Qed.

Lemma first_name_nth (l : names) : first_name l = nth_name l 0.
Proof. destruct l as [|[x|] l]; reflexivity. Qed.

Lemma first_name_row3 (a b : option names) :
  first_name (row3 a b) = match a with Some l => nth_name l 0 | None => col 0 b end.
Proof.
  unfold row3. destruct a as [l|]; cbn [first_name col].
  - destruct (nth_name l 0); reflexivity.
  - destruct (col 0 b); reflexivity.
Qed.

(* ---------- well-formed nodes ---------- *)
Definition Pparam (p : param) : Prop := wf_param 2 p = true.
Definition Pfield (f : field) : Prop := wf_field 2 f = true.
Definition Pmeth (m : meth) : Prop := wf_meth 2 m = true.
Definition Pclass (c : class) : Prop := wf_class 2 c = true.

Lemma field_shape n f : wf_field n f = true ->
  names_ok n (f_names f) = true /\ exists s, nth_name (f_names f) 0 = Some s /\ field_key f = Some (s, f_desc f).
Proof.
  unfold wf_field. rewrite andb_true_iff. intros [Hn Hk]. split; [exact Hn|].
  unfold field_key in *. rewrite first_name_nth in *.
  destruct (nth_name (f_names f) 0) as [s|]; [|discriminate]. exists s. auto.
Qed.

Lemma meth_shape n m : wf_meth n m = true ->
  names_ok n (m_names m) = true
  /\ (exists s, nth_name (m_names m) 0 = Some s /\ meth_key m = Some (s, m_desc m))
  /\ Forall (fun p => wf_param n p = true) (m_params m)
  /\ NoDup (map param_key (m_params m)).
Proof.
  unfold wf_meth. rewrite !andb_true_iff. intros [[[Hn Hk] Hp] Hd]. split; [exact Hn|].
  split.
  - unfold meth_key in *. rewrite first_name_nth in *.
    destruct (nth_name (m_names m) 0) as [s|]; [|discriminate]. exists s. auto.
  - split; [apply Forall_forall; apply forallb_forall; exact Hp|].
    apply (nodupb_NoDup N.eqb N_eqb_ok). exact Hd.
Qed.

Lemma class_shape n c : wf_class n c = true ->
  names_ok n (c_names c) = true
  /\ (exists s, nth_name (c_names c) 0 = Some s /\ class_key c = Some s)
  /\ Forall (fun f => wf_field n f = true) (c_fields c) /\ NoDup (map field_key (c_fields c))
  /\ Forall (fun m => wf_meth n m = true) (c_methods c) /\ NoDup (map meth_key (c_methods c)).
Proof.
  unfold wf_class. rewrite !andb_true_iff. intros [[[[[Hn Hk] Hf] Hfd] Hm] Hmd]. split; [exact Hn|].
  split.
  - unfold class_key in *. rewrite first_name_nth in *.
    destruct (nth_name (c_names c) 0) as [s|]; [|discriminate]. exists s. auto.
  - split; [apply Forall_forall; apply forallb_forall; exact Hf|].
    split; [apply (nodupb_NoDup mkeqb mkeqb_ok); exact Hfd|].
    split; [apply Forall_forall; apply forallb_forall; exact Hm|].
    apply (nodupb_NoDup mkeqb mkeqb_ok). exact Hmd.
Qed.

(* same key => same descriptor / index and same first name: the `merge_equal` arms and the
   first-name check of `merge_names` cannot fire for classes, fields and methods *)
Lemma field_key_inj x y : Pfield x -> Pfield y -> field_key x = field_key y ->
  f_desc x = f_desc y /\ nth_name (f_names x) 0 = nth_name (f_names y) 0.
Proof.
  intros Hx Hy E. destruct (field_shape _ _ Hx) as (_ & s & Hs & Hkx).
  destruct (field_shape _ _ Hy) as (_ & t & Ht & Hky). rewrite Hkx, Hky in E.
  injection E as -> E2. split; [exact E2|congruence].
Qed.

Lemma meth_key_inj x y : Pmeth x -> Pmeth y -> meth_key x = meth_key y ->
  m_desc x = m_desc y /\ nth_name (m_names x) 0 = nth_name (m_names y) 0.
Proof.
  intros Hx Hy E. destruct (meth_shape _ _ Hx) as (_ & (s & Hs & Hkx) & _).
  destruct (meth_shape _ _ Hy) as (_ & (t & Ht & Hky) & _). rewrite Hkx, Hky in E.
  injection E as -> E2. split; [exact E2|congruence].
Qed.

Lemma class_key_inj x y : Pclass x -> Pclass y -> class_key x = class_key y ->
  nth_name (c_names x) 0 = nth_name (c_names y) 0.
Proof.
  intros Hx Hy E. destruct (class_shape _ _ Hx) as (_ & (s & Hs & Hkx) & _).
  destruct (class_shape _ _ Hy) as (_ & (t & Ht & Hky) & _). congruence.
Qed.

(* ---------- parameters ---------- *)
Definition pconf (c : comb param) : Prop := cdoc_conflict p_doc c \/ first_differs p_names c.

Lemma merge_param_ok c w : cohk param_key c -> cwf Pparam c -> merge_param c = Ok w ->
  param_key w = ckey param_key c
  /\ p_names w = row3 (option_map p_names (cl c)) (option_map p_names (cr c))
  /\ p_doc w = first_some (odoc p_doc (cl c)) (odoc p_doc (cr c))
  /\ wf_param 3 w = true.
Proof.
  intros Hk Hw. unfold merge_param.
  rewrite (merge_equal_same N.eqb N_eqb_ok p_index c) by (destruct c; auto). cbn [bind].
  destruct (merge_names (cmap p_names c)) as [n|] eqn:En; cbn [bind]; [|discriminate].
  destruct (merge_doc (cmap p_doc c)) as [d|] eqn:Ed; cbn [bind]; [|discriminate].
  intros [= <-]. unfold param_key. cbn [p_index p_names p_doc].
  apply merge_names_ok in En; [|exact Hw]. destruct En as (-> & Hn3 & _).
  apply merge_doc_ok in Ed. subst d.
  split; [destruct c; reflexivity|]. split; [reflexivity|]. split; [reflexivity|exact Hn3].
Qed.

Lemma merge_param_err c : cohk param_key c -> cwf Pparam c -> (merge_param c = Err <-> pconf c).
Proof.
  intros Hk Hw. unfold merge_param, pconf.
  rewrite (merge_equal_same N.eqb N_eqb_ok p_index c) by (destruct c; auto). cbn [bind].
  rewrite bind_err, (merge_names_err p_names c Hw). split.
  - intros [H|(n & _ & H)]; [right; exact H|]. left.
    apply bind_err in H. destruct H as [H|(d & _ & H)]; [|discriminate]. apply merge_doc_err. exact H.
  - intros [H|H]; [|left; exact H].
    destruct (merge_names (cmap p_names c)) as [n|] eqn:En.
    + right. exists n. split; [reflexivity|]. apply bind_err. left. apply merge_doc_err. exact H.
    + left. apply (merge_names_err p_names c Hw). exact En.
Qed.

(* ---------- fields ---------- *)
Lemma merge_field_ok c w : cohk field_key c -> cwf Pfield c -> merge_field c = Ok w ->
  field_key w = ckey field_key c
  /\ f_names w = row3 (option_map f_names (cl c)) (option_map f_names (cr c))
  /\ f_doc w = first_some (odoc f_doc (cl c)) (odoc f_doc (cr c))
  /\ wf_field 3 w = true.
Proof.
  intros Hk Hw. unfold merge_field.
  assert (Hn2 : cwf (fun x => names_ok 2 (f_names x) = true) c).
  { revert Hw. apply cwf_impl. intros x Hx. apply (field_shape _ _ Hx). }
  rewrite (merge_equal_same str_eqb str_eqb_ok f_desc c).
  2:{ destruct c as [x|y|x y]; auto. destruct Hw as [Hx Hy]. apply (field_key_inj x y Hx Hy Hk). }
  cbn [bind].
  destruct (merge_names (cmap f_names c)) as [n|] eqn:En; cbn [bind]; [|discriminate].
  destruct (merge_doc (cmap f_doc c)) as [d|] eqn:Ed; cbn [bind]; [|discriminate].
  intros [= <-]. apply merge_names_ok in En; [|exact Hn2]. destruct En as (-> & Hn3 & _).
  apply merge_doc_ok in Ed. subst d.
  assert (Hkey : field_key (mkField (match c with CA x => f_desc x | CB y => f_desc y | CAB x _ => f_desc x end)
                   (row3 (option_map f_names (cl c)) (option_map f_names (cr c)))
                   (first_some (odoc f_doc (cl c)) (odoc f_doc (cr c)))) = ckey field_key c).
  { unfold field_key at 1. cbn [f_names f_desc]. rewrite first_name_row3.
    destruct c as [x|y|x y]; cbn [cl cr option_map col ckey cwf] in *.
    - destruct (field_shape _ _ Hw) as (_ & s & -> & ->). reflexivity.
    - destruct (field_shape _ _ Hw) as (_ & s & -> & ->). reflexivity.
    - destruct Hw as [Hx _]. destruct (field_shape _ _ Hx) as (_ & s & -> & ->). reflexivity. }
  split; [exact Hkey|]. cbn [f_names f_doc]. split; [reflexivity|]. split; [reflexivity|].
  unfold wf_field. cbn [f_names]. rewrite Hn3, Hkey. cbn [andb].
  destruct c as [x|y|x y]; cbn [ckey cwf] in *.
  - destruct (field_shape _ _ Hw) as (_ & s & _ & ->). reflexivity.
  - destruct (field_shape _ _ Hw) as (_ & s & _ & ->). reflexivity.
  - destruct Hw as [Hx _]. destruct (field_shape _ _ Hx) as (_ & s & _ & ->). reflexivity.
Qed.

Lemma merge_field_err c : cohk field_key c -> cwf Pfield c -> (merge_field c = Err <-> cdoc_conflict f_doc c).
Proof.
  intros Hk Hw. unfold merge_field.
  assert (Hn2 : cwf (fun x => names_ok 2 (f_names x) = true) c).
  { revert Hw. apply cwf_impl. intros x Hx. apply (field_shape _ _ Hx). }
  assert (Hnd : ~ first_differs f_names c).
  { destruct c as [x|y|x y]; cbn [first_differs]; auto. destruct Hw as [Hx Hy].
    destruct (field_key_inj x y Hx Hy Hk) as [_ E]. intros H. apply H. exact E. }
  rewrite (merge_equal_same str_eqb str_eqb_ok f_desc c).
  2:{ destruct c as [x|y|x y]; auto. destruct Hw as [Hx Hy]. apply (field_key_inj x y Hx Hy Hk). }
  cbn [bind]. rewrite bind_err, (merge_names_err f_names c Hn2). split.
  - intros [H|(n & _ & H)]; [contradiction|].
    apply bind_err in H. destruct H as [H|(d & _ & H)]; [|discriminate]. apply merge_doc_err. exact H.
  - intros H. destruct (merge_names (cmap f_names c)) as [n|] eqn:En.
    + right. exists n. split; [reflexivity|]. apply bind_err. left. apply merge_doc_err. exact H.
    + exfalso. apply Hnd. apply (merge_names_err f_names c Hn2). exact En.
Qed.

(* ---------- consequences of zip_spec ---------- *)
Lemma zip_spec_Forall {K V} (eqb : K -> K -> bool) (Hok : eqb_ok eqb) (key : V -> K) f la lb r (Q : V -> Prop) :
  NoDup (map key la) -> NoDup (map key lb) -> zip_spec eqb key f la lb r ->
  (forall k c w, comb_of (find_by eqb key k la) (find_by eqb key k lb) = Some c -> f c = Ok w -> Q w) ->
  Forall Q r.
Proof.
  intros Ha Hb (Hz & _ & _) HQ. apply Forall_forall. intros w Hw.
  destruct (Forall2_In_r _ _ _ _ Hz Hw) as (c & Hc & Hf).
  apply (zip_list_In eqb Hok key la lb c Ha Hb) in Hc. destruct Hc as (k & Hc). apply (HQ k c w Hc Hf).
Qed.

Lemma zip_spec_NoDup {K V} (eqb : K -> K -> bool) (Hok : eqb_ok eqb) (key : V -> K) f la lb r :
  NoDup (map key la) -> NoDup (map key lb) -> zip_spec eqb key f la lb r -> NoDup (map key r).
Proof. intros Ha Hb (_ & Hk & _). rewrite Hk. apply (union_NoDup eqb Hok); assumption. Qed.

Lemma bind3_err {A B C D} (r1 : res A) (r2 : res B) (r3 : res C) (k : A -> B -> C -> D) :
  (do a <- r1; do b <- r2; do c <- r3; Ok (k a b c)) = Err <-> r1 = Err \/ r2 = Err \/ r3 = Err.
Proof.
  destruct r1, r2, r3; cbn [bind]; split; try tauto; try discriminate;
    intros [H|[H|H]]; discriminate.
Qed.

Lemma bind4_err {A B C D E} (r1 : res A) (r2 : res B) (r3 : res C) (r4 : res D) (k : A -> B -> C -> D -> E) :
  (do a <- r1; do b <- r2; do c <- r3; do d <- r4; Ok (k a b c d)) = Err
  <-> r1 = Err \/ r2 = Err \/ r3 = Err \/ r4 = Err.
Proof.
  destruct r1, r2, r3, r4; cbn [bind]; split; try tauto; try discriminate;
    intros [H|[H|[H|H]]]; discriminate.
Qed.

(* ---------- methods ---------- *)
Lemma prms_wf n o : (forall x, o = Some x -> wf_meth n x = true) ->
  Forall (fun p => wf_param n p = true) (prms o) /\ NoDup (map param_key (prms o)).
Proof.
  destruct o as [m|]; cbn [prms map]; [|intros _; split; constructor].
  intros H. apply (meth_shape _ _ (H m eq_refl)).
Qed.

Lemma cwf_side {V} (P : V -> Prop) (c : comb V) : cwf P c ->
  (forall x, cl c = Some x -> P x) /\ (forall y, cr c = Some y -> P y).
Proof.
  destruct c as [x|y|x y]; cbn [cwf cl cr]; intros H; split; intros z [= <-]; tauto.
Qed.

Definition mconf (c : comb meth) : Prop :=
  cdoc_conflict m_doc c
  \/ exists i pc, comb_of (find_by N.eqb param_key i (prms (cl c))) (find_by N.eqb param_key i (prms (cr c))) = Some pc
                  /\ pconf pc.

Lemma merge_meth_ok c w : cohk meth_key c -> cwf Pmeth c -> merge_meth c = Ok w ->
  meth_key w = ckey meth_key c
  /\ m_names w = row3 (option_map m_names (cl c)) (option_map m_names (cr c))
  /\ m_doc w = first_some (odoc m_doc (cl c)) (odoc m_doc (cr c))
  /\ zip_spec N.eqb param_key merge_param (prms (cl c)) (prms (cr c)) (m_params w)
  /\ wf_meth 3 w = true.
Proof.
  intros Hk Hw. unfold merge_meth.
  assert (Hn2 : cwf (fun x => names_ok 2 (m_names x) = true) c).
  { revert Hw. apply cwf_impl. intros x Hx. apply (meth_shape _ _ Hx). }
  destruct (cwf_side _ _ Hw) as [Hwl Hwr].
  destruct (prms_wf 2 (cl c) Hwl) as [Hpa Hna]. destruct (prms_wf 2 (cr c) Hwr) as [Hpb Hnb].
  rewrite (merge_equal_same str_eqb str_eqb_ok m_desc c).
  2:{ destruct c as [x|y|x y]; auto. destruct Hw as [Hx Hy]. apply (meth_key_inj x y Hx Hy Hk). }
  cbn [bind].
  destruct (merge_names (cmap m_names c)) as [n|] eqn:En; cbn [bind]; [|discriminate].
  destruct (zip_comb N.eqb param_key (cmap m_params c) merge_param) as [ps|] eqn:Ez; cbn [bind]; [|discriminate].
  destruct (merge_doc (cmap m_doc c)) as [d|] eqn:Ed; cbn [bind]; [|discriminate].
  intros [= <-]. apply merge_names_ok in En; [|exact Hn2]. destruct En as (-> & Hn3 & _).
  apply merge_doc_ok in Ed. subst d.
  assert (Hpk : forall k pc pw,
             comb_of (find_by N.eqb param_key k (prms (cl c))) (find_by N.eqb param_key k (prms (cr c))) = Some pc ->
             merge_param pc = Ok pw -> param_key pw = k /\ wf_param 3 pw = true).
  { intros k pc pw Hc Hf.
    destruct (arises_ok N.eqb N_eqb_ok param_key Pparam _ _ k pc Hpa Hpb Hc) as (Hck & Hco & Hcw).
    destruct (merge_param_ok pc pw Hco Hcw Hf) as (Hkey & _ & _ & Hwf). split; [congruence|exact Hwf]. }
  assert (Hzs : zip_spec N.eqb param_key merge_param (prms (cl c)) (prms (cr c)) ps).
  { pose proof (zip_comb_ok N.eqb N_eqb_ok param_key (cmap m_params c) merge_param ps) as Hz.
    rewrite side_a_cmap, side_b_cmap in Hz. apply Hz; [exact Hna|exact Hnb| |exact Ez].
    intros k pc pw Hc Hf. apply (Hpk k pc pw Hc Hf). }
  assert (Hkey : meth_key (mkMeth (match c with CA x => m_desc x | CB y => m_desc y | CAB x _ => m_desc x end)
                   (row3 (option_map m_names (cl c)) (option_map m_names (cr c)))
                   (first_some (odoc m_doc (cl c)) (odoc m_doc (cr c))) ps) = ckey meth_key c).
  { unfold meth_key at 1. cbn [m_names m_desc]. rewrite first_name_row3.
    destruct c as [x|y|x y]; cbn [cl cr option_map col ckey cwf] in *.
    - destruct (meth_shape _ _ Hw) as (_ & (s & -> & ->) & _). reflexivity.
    - destruct (meth_shape _ _ Hw) as (_ & (s & -> & ->) & _). reflexivity.
    - destruct Hw as [Hx _]. destruct (meth_shape _ _ Hx) as (_ & (s & -> & ->) & _). reflexivity. }
  split; [exact Hkey|]. cbn [m_names m_doc m_params]. split; [reflexivity|]. split; [reflexivity|].
  split; [exact Hzs|].
  unfold wf_meth. cbn [m_names m_params]. rewrite Hn3, Hkey. cbn [andb].
  assert (Hsome : is_some (ckey meth_key c) = true).
  { destruct c as [x|y|x y]; cbn [ckey cwf] in *.
    - destruct (meth_shape _ _ Hw) as (_ & (s & _ & ->) & _). reflexivity.
    - destruct (meth_shape _ _ Hw) as (_ & (s & _ & ->) & _). reflexivity.
    - destruct Hw as [Hx _]. destruct (meth_shape _ _ Hx) as (_ & (s & _ & ->) & _). reflexivity. }
  rewrite Hsome. cbn [andb]. apply andb_true_iff. split.
  - apply forallb_forall. apply Forall_forall.
    apply (zip_spec_Forall N.eqb N_eqb_ok param_key merge_param _ _ ps _ Hna Hnb Hzs).
    intros k pc pw Hc Hf. apply (Hpk k pc pw Hc Hf).
  - apply (nodupb_NoDup N.eqb N_eqb_ok).
    apply (zip_spec_NoDup N.eqb N_eqb_ok param_key merge_param _ _ ps Hna Hnb Hzs).
Qed.

Lemma merge_meth_err c : cohk meth_key c -> cwf Pmeth c -> (merge_meth c = Err <-> mconf c).
Proof.
  intros Hk Hw. unfold merge_meth, mconf.
  assert (Hn2 : cwf (fun x => names_ok 2 (m_names x) = true) c).
  { revert Hw. apply cwf_impl. intros x Hx. apply (meth_shape _ _ Hx). }
  assert (Hnd : ~ first_differs m_names c).
  { destruct c as [x|y|x y]; cbn [first_differs]; auto. destruct Hw as [Hx Hy].
    destruct (meth_key_inj x y Hx Hy Hk) as [_ E]. intros H. apply H. exact E. }
  destruct (cwf_side _ _ Hw) as [Hwl Hwr].
  destruct (prms_wf 2 (cl c) Hwl) as [Hpa Hna]. destruct (prms_wf 2 (cr c) Hwr) as [Hpb Hnb].
  rewrite (merge_equal_same str_eqb str_eqb_ok m_desc c).
  2:{ destruct c as [x|y|x y]; auto. destruct Hw as [Hx Hy]. apply (meth_key_inj x y Hx Hy Hk). }
  cbn [bind].
  rewrite (bind3_err _ _ _ (fun n ps d => mkMeth _ n d ps)).
  rewrite (merge_names_err m_names c Hn2), (merge_doc_err m_doc c).
  pose proof (zip_comb_err N.eqb N_eqb_ok param_key (cmap m_params c) merge_param) as Hz.
  rewrite side_a_cmap, side_b_cmap in Hz. rewrite (Hz Hna Hnb). clear Hz.
  split.
  - intros [H|[(k & pc & Hc & Hf)|H]]; [contradiction| |left; exact H].
    right. exists k, pc. split; [exact Hc|].
    destruct (arises_ok N.eqb N_eqb_ok param_key Pparam _ _ k pc Hpa Hpb Hc) as (_ & Hco & Hcw).
    apply (merge_param_err pc Hco Hcw). exact Hf.
  - intros [H|(k & pc & Hc & Hf)]; [right; right; exact H|].
    right. left. exists k, pc. split; [exact Hc|].
    destruct (arises_ok N.eqb N_eqb_ok param_key Pparam _ _ k pc Hpa Hpb Hc) as (_ & Hco & Hcw).
    apply (merge_param_err pc Hco Hcw). exact Hf.
Qed.

(* ---------- classes ---------- *)
Lemma flds_wf n o : (forall x, o = Some x -> wf_class n x = true) ->
  Forall (fun f => wf_field n f = true) (flds o) /\ NoDup (map field_key (flds o)).
Proof.
  destruct o as [c|]; cbn [flds map]; [|intros _; split; constructor].
  intros H. destruct (class_shape _ _ (H c eq_refl)) as (_ & _ & H1 & H2 & _). auto.
Qed.

Lemma mths_wf n o : (forall x, o = Some x -> wf_class n x = true) ->
  Forall (fun m => wf_meth n m = true) (mths o) /\ NoDup (map meth_key (mths o)).
Proof.
  destruct o as [c|]; cbn [mths map]; [|intros _; split; constructor].
  intros H. destruct (class_shape _ _ (H c eq_refl)) as (_ & _ & _ & _ & H1 & H2). auto.
Qed.

Definition cconf (c : comb class) : Prop :=
  cdoc_conflict c_doc c
  \/ (exists fk fc, comb_of (find_by mkeqb field_key fk (flds (cl c))) (find_by mkeqb field_key fk (flds (cr c))) = Some fc
                    /\ cdoc_conflict f_doc fc)
  \/ (exists mk mc, comb_of (find_by mkeqb meth_key mk (mths (cl c))) (find_by mkeqb meth_key mk (mths (cr c))) = Some mc
                    /\ mconf mc).

Lemma merge_class_ok c w : cohk class_key c -> cwf Pclass c -> merge_class c = Ok w ->
  class_key w = ckey class_key c
  /\ c_names w = row3 (option_map c_names (cl c)) (option_map c_names (cr c))
  /\ c_doc w = first_some (odoc c_doc (cl c)) (odoc c_doc (cr c))
  /\ zip_spec mkeqb field_key merge_field (flds (cl c)) (flds (cr c)) (c_fields w)
  /\ zip_spec mkeqb meth_key merge_meth (mths (cl c)) (mths (cr c)) (c_methods w)
  /\ wf_class 3 w = true.
Proof.
  intros Hk Hw. unfold merge_class.
  assert (Hn2 : cwf (fun x => names_ok 2 (c_names x) = true) c).
  { revert Hw. apply cwf_impl. intros x Hx. apply (class_shape _ _ Hx). }
  destruct (cwf_side _ _ Hw) as [Hwl Hwr].
  destruct (flds_wf 2 (cl c) Hwl) as [Hfa Hnfa]. destruct (flds_wf 2 (cr c) Hwr) as [Hfb Hnfb].
  destruct (mths_wf 2 (cl c) Hwl) as [Hma Hnma]. destruct (mths_wf 2 (cr c) Hwr) as [Hmb Hnmb].
  destruct (merge_names (cmap c_names c)) as [n|] eqn:En; cbn [bind]; [|discriminate].
  destruct (zip_comb mkeqb field_key (cmap c_fields c) merge_field) as [fs|] eqn:Ef; cbn [bind]; [|discriminate].
  destruct (zip_comb mkeqb meth_key (cmap c_methods c) merge_meth) as [ms|] eqn:Em; cbn [bind]; [|discriminate].
  destruct (merge_doc (cmap c_doc c)) as [d|] eqn:Ed; cbn [bind]; [|discriminate].
  intros [= <-]. apply merge_names_ok in En; [|exact Hn2]. destruct En as (-> & Hn3 & _).
  apply merge_doc_ok in Ed. subst d.
  assert (Hfk : forall k fc fw,
             comb_of (find_by mkeqb field_key k (flds (cl c))) (find_by mkeqb field_key k (flds (cr c))) = Some fc ->
             merge_field fc = Ok fw -> field_key fw = k /\ wf_field 3 fw = true).
  { intros k fc fw Hc Hf.
    destruct (arises_ok mkeqb mkeqb_ok field_key Pfield _ _ k fc Hfa Hfb Hc) as (Hck & Hco & Hcw).
    destruct (merge_field_ok fc fw Hco Hcw Hf) as (Hkey & _ & _ & Hwf). split; [congruence|exact Hwf]. }
  assert (Hmk : forall k mc mw,
             comb_of (find_by mkeqb meth_key k (mths (cl c))) (find_by mkeqb meth_key k (mths (cr c))) = Some mc ->
             merge_meth mc = Ok mw -> meth_key mw = k /\ wf_meth 3 mw = true).
  { intros k mc mw Hc Hf.
    destruct (arises_ok mkeqb mkeqb_ok meth_key Pmeth _ _ k mc Hma Hmb Hc) as (Hck & Hco & Hcw).
    destruct (merge_meth_ok mc mw Hco Hcw Hf) as (Hkey & _ & _ & _ & Hwf). split; [congruence|exact Hwf]. }
  assert (Hzf : zip_spec mkeqb field_key merge_field (flds (cl c)) (flds (cr c)) fs).
  { pose proof (zip_comb_ok mkeqb mkeqb_ok field_key (cmap c_fields c) merge_field fs) as Hz.
    rewrite side_a_cmap, side_b_cmap in Hz. apply Hz; [exact Hnfa|exact Hnfb| |exact Ef].
    intros k fc fw Hc Hf. apply (Hfk k fc fw Hc Hf). }
  assert (Hzm : zip_spec mkeqb meth_key merge_meth (mths (cl c)) (mths (cr c)) ms).
  { pose proof (zip_comb_ok mkeqb mkeqb_ok meth_key (cmap c_methods c) merge_meth ms) as Hz.
    rewrite side_a_cmap, side_b_cmap in Hz. apply Hz; [exact Hnma|exact Hnmb| |exact Em].
    intros k mc mw Hc Hf. apply (Hmk k mc mw Hc Hf). }
  assert (Hkey : class_key (mkClass (row3 (option_map c_names (cl c)) (option_map c_names (cr c)))
                   (first_some (odoc c_doc (cl c)) (odoc c_doc (cr c))) fs ms) = ckey class_key c
                 /\ is_some (ckey class_key c) = true).
  { unfold class_key at 1. cbn [c_names]. rewrite first_name_row3.
    destruct c as [x|y|x y]; cbn [cl cr option_map col ckey cwf] in *.
    - destruct (class_shape _ _ Hw) as (_ & (s & -> & ->) & _). auto.
    - destruct (class_shape _ _ Hw) as (_ & (s & -> & ->) & _). auto.
    - destruct Hw as [Hx _]. destruct (class_shape _ _ Hx) as (_ & (s & -> & ->) & _). auto. }
  destruct Hkey as [Hkey Hsome].
  split; [exact Hkey|]. cbn [c_names c_doc c_fields c_methods]. split; [reflexivity|]. split; [reflexivity|].
  split; [exact Hzf|]. split; [exact Hzm|].
  unfold wf_class. cbn [c_names c_fields c_methods]. rewrite Hn3, Hkey, Hsome. cbn [andb].
  rewrite !andb_true_iff. repeat split.
  - apply forallb_forall. apply Forall_forall.
    apply (zip_spec_Forall mkeqb mkeqb_ok field_key merge_field _ _ fs _ Hnfa Hnfb Hzf).
    intros k fc fw Hc Hf. apply (Hfk k fc fw Hc Hf).
  - apply (nodupb_NoDup mkeqb mkeqb_ok).
    apply (zip_spec_NoDup mkeqb mkeqb_ok field_key merge_field _ _ fs Hnfa Hnfb Hzf).
  - apply forallb_forall. apply Forall_forall.
    apply (zip_spec_Forall mkeqb mkeqb_ok meth_key merge_meth _ _ ms _ Hnma Hnmb Hzm).
    intros k mc mw Hc Hf. apply (Hmk k mc mw Hc Hf).
  - apply (nodupb_NoDup mkeqb mkeqb_ok).
    apply (zip_spec_NoDup mkeqb mkeqb_ok meth_key merge_meth _ _ ms Hnma Hnmb Hzm).
Qed.

Lemma merge_class_err c : cohk class_key c -> cwf Pclass c -> (merge_class c = Err <-> cconf c).
Proof.
  intros Hk Hw. unfold merge_class, cconf.
  assert (Hn2 : cwf (fun x => names_ok 2 (c_names x) = true) c).
  { revert Hw. apply cwf_impl. intros x Hx. apply (class_shape _ _ Hx). }
  assert (Hnd : ~ first_differs c_names c).
  { destruct c as [x|y|x y]; cbn [first_differs]; auto. destruct Hw as [Hx Hy].
    pose proof (class_key_inj x y Hx Hy Hk) as E. intros H. apply H. exact E. }
  destruct (cwf_side _ _ Hw) as [Hwl Hwr].
  destruct (flds_wf 2 (cl c) Hwl) as [Hfa Hnfa]. destruct (flds_wf 2 (cr c) Hwr) as [Hfb Hnfb].
  destruct (mths_wf 2 (cl c) Hwl) as [Hma Hnma]. destruct (mths_wf 2 (cr c) Hwr) as [Hmb Hnmb].
  rewrite (bind4_err _ _ _ _ (fun n fs ms d => mkClass n d fs ms)).
  rewrite (merge_names_err c_names c Hn2), (merge_doc_err c_doc c).
  pose proof (zip_comb_err mkeqb mkeqb_ok field_key (cmap c_fields c) merge_field) as Hzf.
  rewrite side_a_cmap, side_b_cmap in Hzf. rewrite (Hzf Hnfa Hnfb). clear Hzf.
  pose proof (zip_comb_err mkeqb mkeqb_ok meth_key (cmap c_methods c) merge_meth) as Hzm.
  rewrite side_a_cmap, side_b_cmap in Hzm. rewrite (Hzm Hnma Hnmb). clear Hzm.
  split.
  - intros [H|[(k & fc & Hc & Hf)|[(k & mc & Hc & Hf)|H]]]; [contradiction| | |left; exact H].
    + right. left. exists k, fc. split; [exact Hc|].
      destruct (arises_ok mkeqb mkeqb_ok field_key Pfield _ _ k fc Hfa Hfb Hc) as (_ & Hco & Hcw).
      apply (merge_field_err fc Hco Hcw). exact Hf.
    + right. right. exists k, mc. split; [exact Hc|].
      destruct (arises_ok mkeqb mkeqb_ok meth_key Pmeth _ _ k mc Hma Hmb Hc) as (_ & Hco & Hcw).
      apply (merge_meth_err mc Hco Hcw). exact Hf.
  - intros [H|[(k & fc & Hc & Hf)|(k & mc & Hc & Hf)]]; [right; right; right; exact H| |].
    + right. left. exists k, fc. split; [exact Hc|].
      destruct (arises_ok mkeqb mkeqb_ok field_key Pfield _ _ k fc Hfa Hfb Hc) as (_ & Hco & Hcw).
      apply (merge_field_err fc Hco Hcw). exact Hf.
    + right. right. left. exists k, mc. split; [exact Hc|].
      destruct (arises_ok mkeqb mkeqb_ok meth_key Pmeth _ _ k mc Hma Hmb Hc) as (_ & Hco & Hcw).
      apply (merge_meth_err mc Hco Hcw). exact Hf.
Qed.
