(* C09 theory, round 5: ORDERED key lists.  When the insertion-ordered key list of one side is a
   prefix of the other's (what two sorted files that differ by a tail look like), the union is the
   longer list: nothing of the tail is lost and nothing is duplicated.  A positional pairing of the
   two maps (instead of the join by key) would lose exactly that tail. *)
From FB Require Import C09.Model C09.Theory.

Lemma filter_none {A} (p : A -> bool) l : (forall x, In x l -> p x = false) -> filter p l = [].
Proof.
  induction l as [|x l IH]; intros H; cbn [filter]; [reflexivity|].
  rewrite (H x (or_introl eq_refl)). apply IH. intros y Hy. apply H. right. exact Hy.
Qed.

Lemma filter_all {A} (p : A -> bool) l : (forall x, In x l -> p x = true) -> filter p l = l.
Proof.
  induction l as [|x l IH]; intros H; cbn [filter]; [reflexivity|].
  rewrite (H x (or_introl eq_refl)). f_equal. apply IH. intros y Hy. apply H. right. exact Hy.
Qed.

Theorem union_prefix {K} (eqb : K -> K -> bool) (Hok : eqb_ok eqb) ka ex :
  NoDup (ka ++ ex) ->
  union eqb ka (ka ++ ex) = ka ++ ex /\ union eqb (ka ++ ex) ka = ka ++ ex.
Proof.
  intros Hnd. unfold union. split.
  - f_equal. rewrite filter_app.
    rewrite (filter_none _ ka) by (intros k Hk; apply negb_false_iff; apply (memb_In eqb Hok); exact Hk).
    cbn [app]. apply filter_all. intros k Hk. apply negb_true_iff. apply (memb_false eqb Hok).
    intros Hin. revert Hnd Hin Hk. clear. induction ka as [|a ka IH]; cbn [app]; intros Hnd Hin Hk; [exact Hin|].
    inversion Hnd as [|? ? Ha Hr]; subst. destruct Hin as [->|Hin].
    + apply Ha. apply in_or_app. right. exact Hk.
    + exact (IH Hr Hin Hk).
  - rewrite (filter_none _ ka); [apply app_nil_r|].
    intros k Hk. apply negb_false_iff. apply (memb_In eqb Hok). apply in_or_app. left. exact Hk.
Qed.

(* at the class level of a merge: when one side's class list is the other's followed by a tail, the
   merged set lists exactly the longer one's classes, in its order *)
From FB Require Import C09.Theory2 C09.Theory3.
Theorem merge_class_keys_prefix A B M ex : wf2 A = true -> wf2 B = true -> merge A B = Ok M ->
  (map class_key (ms_classes B) = map class_key (ms_classes A) ++ ex ->
   map class_key (ms_classes M) = map class_key (ms_classes B))
  /\ (map class_key (ms_classes A) = map class_key (ms_classes B) ++ ex ->
      map class_key (ms_classes M) = map class_key (ms_classes A)).
Proof.
  intros HA HB HM. destruct (merge_keys A B M HA HB HM) as (Hk & _).
  destruct (wf2_shape A HA) as (_ & _ & _ & _ & _ & _ & NA).
  destruct (wf2_shape B HB) as (_ & _ & _ & _ & _ & _ & NB).
  split; intros E; rewrite Hk.
  - rewrite E in NB |- *. exact (proj1 (union_prefix ckeqb ckeqb_ok _ _ NB)).
  - rewrite E in NA |- *. exact (proj2 (union_prefix ckeqb ckeqb_ok _ _ NA)).
Qed.
