(* C07 — COMPOSITION: remapping with f and then with g is remapping once with "g after f".

   [comp f g]: the remapper whose three answers are what g answers about what f answered
     map_class_fail c        = Some (g.map_class (f.map_class c))
     map_field_fail o n d    = Some (g.map_field (f.map_class o) (f.map_field o n d))      (methods alike)
   (the default methods of the traits — map_class, map_desc, map_field_ref, … — then run on top of these, as in
   quill/src/remapper.rs; this is the `Compose` remapper of the harness, harness/src/bin/c07/main.rs).

   Hypotheses on the FIRST remapper ([wf_first]): what it answers can be read again —
     - a class answer is not empty, contains no `;` and does not start with `[` (else the second pass would cut a
       descriptor differently, or take an object class for an array class);
     - a class answer is a valid class name exactly when the name asked about is (enum constants: the second pass
       parses the rewritten type_name again);
     - a field answer's name is a valid unqualified name (record components and enum constants check the name
       before asking) and its descriptor is the class-by-class rewriting of the descriptor asked about (an enum
       constant is asked about under its type_name, which the first pass rewrote class by class).
   None is needed of the second remapper.

   Proved for the SPECIFICATION over any type definitions in which ClassFile.name is a class-name leaf and
   ElementValue::Enum.type_name a descriptor leaf ([sib_defs_ok], a finite check), on well-typed values, and carried
   over to the interpreter of the regenerated table by Th 6. *)
From Coq Require Import String Lia.
From FB Require C18.Model.
From FB Require Import C07.Model C07.Spec C07.Theory C07.Tree C07.TreeTheory C07.Laws.
Local Open Scope string_scope.

Definition comp (f g : remapper) : remapper :=
  mkRemapper
    (fun c => match map_class f c with
              | Ok c1 => match map_class g c1 with Ok c2 => Ok (Some c2) | Err => Err end
              | Err => Err
              end)
    (fun o n d => match map_field f o n d, map_class f o with
                  | Ok (n1, d1), Ok o1 => match map_field g o1 n1 d1 with Ok p => Ok (Some p) | Err => Err end
                  | _, _ => Err
                  end)
    (fun o n d => match map_method f o n d, map_class f o with
                  | Ok (n1, d1), Ok o1 => match map_method g o1 n1 d1 with Ok p => Ok (Some p) | Err => Err end
                  | _, _ => Err
                  end).

Definition name_readable (n : str) : Prop := n <> [] /\ ~ In chSEMI n /\ is_array n = false.

Definition wf_first (f : remapper) : Prop :=
  (forall c n, rm_class f c = Ok (Some n) -> name_readable n) /\
  (forall c n, rm_class f c = Ok (Some n) ->
               C18.Model.is_valid_obj_class_name n = C18.Model.is_valid_obj_class_name c) /\
  (forall o n d n' d', rm_field f o n d = Ok (Some (n', d')) ->
                       C18.Model.is_valid_unqualified_name n' = true /\ map_desc f d = Ok d').

(* ------------------------------------------------------------------ *)
(* strings *)

Lemma take_until_semi_nosemi s n r : take_until_semi s = Ok (n, r) -> ~ In chSEMI n.
Proof.
  revert n r. induction s as [|c s IH]; intros n r; cbn [take_until_semi]; [discriminate|].
  destruct (N.eqb_spec c chSEMI) as [->|Hne].
  - intros [= <- <-] [].
  - destruct (take_until_semi s) as [[n0 r0]|]; [|discriminate]. intros [= <- <-] [H|H]; [congruence|].
    exact (IH n0 r0 eq_refl H).
Qed.

Lemma take_until_semi_build n r : ~ In chSEMI n -> take_until_semi (n ++ chSEMI :: r)%list = Ok (n, r).
Proof.
  induction n as [|c n IH]; intros Hn; cbn [app take_until_semi].
  - rewrite N.eqb_refl. reflexivity.
  - destruct (N.eqb_spec c chSEMI) as [->|Hne]; [exfalso; apply Hn; left; reflexivity|].
    rewrite IH; [reflexivity|]. intros H. apply Hn. right. exact H.
Qed.

Lemma map_class_comp f g c c1 : map_class f c = Ok c1 -> map_class (comp f g) c = map_class g c1.
Proof.
  intros H. unfold map_class at 1. cbn [comp rm_class]. rewrite H.
  destruct (map_class g c1); reflexivity.
Qed.

(* what map_class answers can stand in a descriptor when the name asked about could *)
Lemma map_class_readable f c c1 :
  wf_first f -> map_class f c = Ok c1 -> c <> [] -> ~ In chSEMI c -> c1 <> [] /\ ~ In chSEMI c1.
Proof.
  intros (W1 & _) H Hne Hs. unfold map_class in H. destruct (rm_class f c) as [[n|]|] eqn:E; try discriminate.
  - injection H as <-. destruct (W1 c n E) as (A & B & _). split; assumption.
  - injection H as <-. split; assumption.
Qed.
Lemma map_class_not_array f c c1 : wf_first f -> map_class f c = Ok c1 -> is_array c = false -> is_array c1 = false.
Proof.
  intros (W1 & _) H Ha. unfold map_class in H. destruct (rm_class f c) as [[n|]|] eqn:E; try discriminate.
  - injection H as <-. destruct (W1 c n E) as (_ & _ & C). exact C.
  - injection H as <-. exact Ha.
Qed.

(* the descriptor rewriting, for any two amounts of fuel that suffice *)
Lemma map_desc_comp_f f g : wf_first f ->
  forall k s o1, (List.length s < k)%nat -> map_desc_f k f s = Ok o1 ->
  forall k2, (List.length o1 < k2)%nat -> map_desc_f k2 g o1 = map_desc_f k (comp f g) s.
Proof.
  intros W. induction k as [|k IH]; intros s o1 Hk; [lia|]. cbn [map_desc_f].
  destruct s as [|c s'].
  - intros [= <-] k2 Hk2. destruct k2; [cbn in Hk2; lia|]. reflexivity.
  - cbn [List.length] in Hk. destruct (N.eqb_spec c chL) as [->|Hne].
    + destruct s' as [|c1 s'']; [discriminate|].
      destruct (N.eqb_spec c1 chSEMI) as [->|Hc1]; [discriminate|].
      destruct (take_until_semi s'') as [[n r]|] eqn:Et; [|discriminate].
      destruct (map_class f (c1 :: n)) as [cn|] eqn:Ec; [|discriminate].
      destruct (map_desc_f k f r) as [o'|] eqn:Eo; [|discriminate]. intros [= <-] k2 Hk2.
      pose proof (take_until_semi_app _ _ _ Et) as Hs''. pose proof (take_until_semi_nosemi _ _ _ Et) as Hns.
      assert (Hlen : (List.length r < k)%nat).
      { rewrite Hs'' in Hk. cbn [List.length] in Hk. rewrite app_length in Hk. cbn [List.length] in Hk. lia. }
      assert (Hc : (c1 :: n) <> [] /\ ~ In chSEMI (c1 :: n)).
      { split; [discriminate|]. intros [H|H]; [congruence|exact (Hns H)]. }
      destruct (map_class_readable f (c1 :: n) cn W Ec (proj1 Hc) (proj2 Hc)) as [Hcn1 Hcn2].
      destruct cn as [|x cn']; [congruence|].
      destruct k2 as [|k2]; [cbn in Hk2; lia|]. cbn [map_desc_f app].
      rewrite N.eqb_refl.
      destruct (N.eqb_spec x chSEMI) as [->|Hx]; [exfalso; apply Hcn2; left; reflexivity|].
      rewrite take_until_semi_build by (intros H; apply Hcn2; right; exact H).
      rewrite (map_class_comp f g (c1 :: n) (x :: cn') Ec).
      assert (Hk2' : (List.length o' < k2)%nat).
      { cbn [List.length app] in Hk2. rewrite app_length in Hk2. cbn [List.length] in Hk2. lia. }
      rewrite (IH r o' Hlen Eo k2 Hk2'). reflexivity.
    + destruct (map_desc_f k f s') as [o'|] eqn:Eo; [|discriminate]. intros [= <-] k2 Hk2.
      destruct k2 as [|k2]; [cbn in Hk2; lia|]. cbn [map_desc_f].
      destruct (N.eqb_spec c chL) as [->|_]; [congruence|].
      cbn [List.length] in Hk2.
      rewrite (IH s' o' ltac:(lia) Eo k2 ltac:(lia)). reflexivity.
Qed.

Lemma map_desc_comp f g s o1 : wf_first f -> map_desc f s = Ok o1 -> map_desc g o1 = map_desc (comp f g) s.
Proof.
  intros W H. unfold map_desc in *. apply (map_desc_comp_f f g W _ s o1); [lia|exact H|lia].
Qed.

Lemma map_desc_f_nonL k R c s' :
  N.eqb c chL = false ->
  map_desc_f (S k) R (c :: s') = match map_desc_f k R s' with Ok o => Ok (c :: o) | Err => Err end.
Proof. intros H. cbn [map_desc_f]. rewrite H. reflexivity. Qed.

Lemma map_desc_keeps_array R s o : is_array s = true -> map_desc R s = Ok o -> is_array o = true.
Proof.
  unfold map_desc. destruct s as [|c s']; [discriminate|]. cbn [is_array]. intros Hc. apply N.eqb_eq in Hc. subst c.
  rewrite map_desc_f_nonL by reflexivity.
  destruct (map_desc_f (List.length (chLBRACK :: s')) R s'); [|discriminate]. intros [= <-]. reflexivity.
Qed.

Lemma map_class_any_comp f g c c1 : wf_first f -> map_class_any f c = Ok c1 -> map_class_any g c1 = map_class_any (comp f g) c.
Proof.
  intros W. unfold map_class_any. destruct (is_array c) eqn:Ea.
  - intros H. rewrite (map_desc_keeps_array f c c1 Ea H). exact (map_desc_comp f g c c1 W H).
  - intros H. rewrite (map_class_not_array f c c1 W H Ea). symmetry. exact (map_class_comp f g c c1 H).
Qed.

Lemma map_field_comp f g o n d :
  map_field (comp f g) o n d =
  match map_field f o n d, map_class f o with
  | Ok (n1, d1), Ok o1 => map_field g o1 n1 d1
  | _, _ => Err
  end.
Proof.
  unfold map_field at 1, map_member. cbn [comp rm_field].
  destruct (map_field f o n d) as [[n1 d1]|]; [|reflexivity].
  destruct (map_class f o) as [o1|]; [|reflexivity].
  destruct (map_field g o1 n1 d1) as [[a b]|]; reflexivity.
Qed.
Lemma map_method_comp f g o n d :
  map_method (comp f g) o n d =
  match map_method f o n d, map_class f o with
  | Ok (n1, d1), Ok o1 => map_method g o1 n1 d1
  | _, _ => Err
  end.
Proof.
  unfold map_method at 1, map_member. cbn [comp rm_method].
  destruct (map_method f o n d) as [[n1 d1]|]; [|reflexivity].
  destruct (map_class f o) as [o1|]; [|reflexivity].
  destruct (map_method g o1 n1 d1) as [[a b]|]; reflexivity.
Qed.

Lemma map_field_ref_comp f g x x1 : map_field_ref f x = Ok x1 -> map_field_ref g x1 = map_field_ref (comp f g) x.
Proof.
  destruct x as [[c n] d]. unfold map_field_ref at 1.
  destruct (map_field f c n d) as [[n1 d1]|] eqn:E1; [|discriminate].
  destruct (map_class f c) as [c1|] eqn:E2; [|discriminate]. intros [= <-].
  unfold map_field_ref. rewrite map_field_comp, E1, E2, (map_class_comp f g c c1 E2). reflexivity.
Qed.

Lemma map_method_ref_comp f g x x1 : wf_first f -> map_method_ref f x = Ok x1 -> map_method_ref g x1 = map_method_ref (comp f g) x.
Proof.
  intros W. destruct x as [[c n] d]. unfold map_method_ref at 1. destruct (is_array c) eqn:Ea.
  - destruct (map_class_any f c) as [c1|] eqn:E2; [|discriminate]. intros [= <-].
    unfold map_method_ref. rewrite Ea.
    assert (Ha1 : is_array c1 = true).
    { unfold map_class_any in E2. rewrite Ea in E2. exact (map_desc_keeps_array f c c1 Ea E2). }
    rewrite Ha1, (map_class_any_comp f g c c1 W E2). reflexivity.
  - destruct (map_method f c n d) as [[n1 d1]|] eqn:E1; [|discriminate].
    destruct (map_class_any f c) as [c1|] eqn:E2; [|discriminate]. intros [= <-].
    assert (E2' : map_class f c = Ok c1) by (unfold map_class_any in E2; rewrite Ea in E2; exact E2).
    unfold map_method_ref. rewrite Ea, (map_class_not_array f c c1 W E2' Ea).
    rewrite map_method_comp, E1, E2', (map_class_any_comp f g c c1 W E2). reflexivity.
Qed.

Lemma remap_enclosing_comp f g c mm c1 mm1 :
  wf_first f -> remap_enclosing f c mm = Ok (c1, mm1) -> remap_enclosing g c1 mm1 = remap_enclosing (comp f g) c mm.
Proof.
  intros W. unfold remap_enclosing at 1. destruct mm as [[n d]|].
  - destruct (map_method_ref f (c, n, d)) as [[[c' n'] d']|] eqn:E; [|discriminate]. intros [= <- <-].
    cbn [remap_enclosing]. rewrite (map_method_ref_comp f g _ _ W E). reflexivity.
  - destruct (map_class_any f c) as [c'|] eqn:E; [|discriminate]. intros [= <- <-].
    cbn [remap_enclosing]. rewrite (map_class_any_comp f g c c' W E). reflexivity.
Qed.

Lemma decl_map_comp d f g this this1 n ds n1 d1 :
  wf_first f -> map_class f this = Ok this1 -> decl_map d f this n ds = Ok (n1, d1) ->
  decl_map d g this1 n1 d1 = decl_map d (comp f g) this n ds.
Proof.
  intros W Ht. destruct d; cbn [decl_map].
  - intros E. rewrite map_field_comp, E, Ht. reflexivity.
  - intros E. rewrite map_method_comp, E, Ht. reflexivity.
  - destruct (C18.Model.is_valid_unqualified_name n) eqn:Ev; [|discriminate]. intros E.
    rewrite map_field_comp, E, Ht.
    assert (Hv : C18.Model.is_valid_unqualified_name n1 = true).
    { unfold map_field, map_member in E. destruct (rm_field f this n ds) as [[[a b]|]|] eqn:Er; try discriminate.
      - injection E as -> ->. destruct W as (_ & _ & W3). exact (proj1 (W3 _ _ _ _ _ Er)).
      - destruct (map_desc f ds); [|discriminate]. injection E as <- _. exact Ev. }
    rewrite Hv. reflexivity.
Qed.

(* ------------------------------------------------------------------ *)
(* enum constants: the second pass parses the rewritten type_name again (C18's model of the descriptor parser) *)
From FB Require C18.Theory.

Lemma split_chars (P : N -> bool) c s :
  forallb (forallb P) (C18.Model.split_on c s) = true -> forall x, In x s -> x = c \/ P x = true.
Proof.
  induction s as [|x0 s IH]; [intros _ x []|]. cbn [C18.Model.split_on].
  destruct (N.eqb_spec x0 c) as [->|Hne].
  - cbn [forallb]. intros H x [<-|Hin]; [left; reflexivity|]. exact (IH H x Hin).
  - destruct (C18.Model.split_on c s) as [|p ps] eqn:E.
    + exfalso. exact (C18.Theory.split_on_nonnil c s E).
    + cbn [forallb]. intros H. apply andb_prop in H. destruct H as [H1 H2]. apply andb_prop in H1. destruct H1 as [Hx Hp].
      intros x [<-|Hin]; [right; exact Hx|]. apply IH; [|exact Hin]. cbn [forallb]. rewrite Hp, H2. reflexivity.
Qed.

Lemma valid_obj_readable n : C18.Model.is_valid_obj_class_name n = true -> n <> [] /\ ~ In chSEMI n.
Proof.
  intros H. split; [intros ->; vm_compute in H; discriminate|].
  unfold C18.Model.is_valid_obj_class_name in H. apply andb_prop in H. destruct H as [_ H].
  assert (H' : forallb (forallb C18.Model.unq_char) (C18.Model.split_on cSLASH n) = true).
  { rewrite forallb_forall in *. intros p Hp. specialize (H p Hp). unfold C18.Model.is_valid_unqualified_name in H.
    apply andb_prop in H. exact (proj2 H). }
  intros Hin. destruct (split_chars _ _ _ H' chSEMI Hin) as [E|E]; [vm_compute in E; discriminate|vm_compute in E; discriminate].
Qed.

Lemma parse_obj t cls : C18.Model.parse_field t = Ok (C18.Model.TObj cls) ->
  t = chL :: (cls ++ [chSEMI])%list /\ C18.Model.is_valid_obj_class_name cls = true.
Proof.
  intros H. destruct (C18.Theory.print_parse_field t _ H) as [Hp Hw]. split; [symmetry; exact Hp|].
  apply C18.Theory.obj_class_name_spec. exact Hw.
Qed.
Lemma obj_parse cls : C18.Model.is_valid_obj_class_name cls = true ->
  C18.Model.parse_field (chL :: (cls ++ [chSEMI])%list) = Ok (C18.Model.TObj cls).
Proof.
  intros H. apply (C18.Theory.parse_print_field (C18.Model.TObj cls)). apply C18.Theory.obj_class_name_spec. exact H.
Qed.

Lemma map_desc_f_nil k R r : map_desc_f k R r = Ok [] -> r = [].
Proof.
  destruct k as [|k]; [discriminate|]. cbn [map_desc_f]. destruct r as [|c r]; [reflexivity|].
  destruct (N.eqb c chL).
  - destruct r as [|c1 r]; [discriminate|]. destruct (N.eqb c1 chSEMI); [discriminate|].
    destruct (take_until_semi r) as [[n r']|]; [|discriminate].
    destruct (map_class R (c1 :: n)); [|discriminate]. destruct (map_desc_f k R r'); discriminate.
  - destruct (map_desc_f k R r); discriminate.
Qed.

(* the descriptor of an object type, rewritten *)
Lemma map_desc_obj R cls : cls <> [] -> ~ In chSEMI cls ->
  map_desc R (chL :: (cls ++ [chSEMI])%list) =
  match map_class R cls with Ok c1 => Ok (chL :: (c1 ++ [chSEMI])%list) | Err => Err end.
Proof.
  intros Hne Hs. destruct cls as [|x cls']; [congruence|].
  unfold map_desc. cbn [List.length app map_desc_f]. rewrite N.eqb_refl.
  destruct (N.eqb_spec x chSEMI) as [->|_]; [exfalso; apply Hs; left; reflexivity|].
  rewrite take_until_semi_build by (intros H; apply Hs; right; exact H).
  destruct (map_class R (x :: cls')) as [c1|]; [|reflexivity].
  destruct (List.length (cls' ++ [chSEMI])%list) eqn:El; [destruct cls'; discriminate|]. reflexivity.
Qed.

Lemma app_semi_inj (a b x y : str) :
  ~ In chSEMI a -> ~ In chSEMI b -> (a ++ chSEMI :: x = b ++ chSEMI :: y)%list -> a = b /\ x = y.
Proof.
  revert b. induction a as [|c a IH]; intros [|d b] Ha Hb; cbn [app].
  - intros [= <-]. split; reflexivity.
  - intros [= <- _]. exfalso. apply Hb. left. reflexivity.
  - intros [= -> _]. exfalso. apply Ha. left. reflexivity.
  - intros [= <- H]. destruct (IH b) as [-> ->]; [intros Hi; apply Ha; right; exact Hi|intros Hi; apply Hb; right; exact Hi|exact H|].
    split; reflexivity.
Qed.

Lemma map_class_valid f c c1 : wf_first f -> map_class f c = Ok c1 ->
  C18.Model.is_valid_obj_class_name c1 = C18.Model.is_valid_obj_class_name c.
Proof.
  intros (_ & W2 & _) H. unfold map_class in H. destruct (rm_class f c) as [[n|]|] eqn:E; try discriminate.
  - injection H as <-. exact (W2 c n E).
  - injection H as <-. reflexivity.
Qed.

(* a rewritten type_name is the descriptor of an object type only if the original was *)
Lemma parse_obj_back f t t1 cls1 : wf_first f -> map_desc f t = Ok t1 ->
  C18.Model.parse_field t1 = Ok (C18.Model.TObj cls1) ->
  exists cls, C18.Model.parse_field t = Ok (C18.Model.TObj cls).
Proof.
  intros W Hm Hp. destruct (parse_obj t1 cls1 Hp) as [-> Hv1].
  destruct (valid_obj_readable cls1 Hv1) as [Hne1 Hs1].
  unfold map_desc in Hm. destruct t as [|c0 t']; [discriminate|].
  remember (List.length (c0 :: t')) as k eqn:Ek. clear Ek. cbn [map_desc_f] in Hm.
  destruct (N.eqb_spec c0 chL) as [->|Hc0].
  2:{ destruct (map_desc_f k f t'); [|discriminate]. injection Hm as E _. congruence. }
  destruct t' as [|c1 s'']; [discriminate|].
  destruct (N.eqb_spec c1 chSEMI) as [->|Hc1]; [discriminate|].
  destruct (take_until_semi s'') as [[n r]|] eqn:Et; [|discriminate].
  destruct (map_class f (c1 :: n)) as [cn|] eqn:Ec; [|discriminate].
  destruct (map_desc_f k f r) as [o'|] eqn:Eo; [|discriminate].
  injection Hm as Hm.
  pose proof (take_until_semi_nosemi _ _ _ Et) as Hns.
  assert (Hc : (c1 :: n) <> [] /\ ~ In chSEMI (c1 :: n)).
  { split; [discriminate|]. intros [H|H]; [congruence|exact (Hns H)]. }
  destruct (map_class_readable f (c1 :: n) cn W Ec (proj1 Hc) (proj2 Hc)) as [_ Hcn2].
  destruct (app_semi_inj cn cls1 o' [] Hcn2 Hs1 Hm) as [-> ->].
  apply map_desc_f_nil in Eo. subst r.
  exists (c1 :: n). rewrite (take_until_semi_app _ _ _ Et).
  change (chL :: c1 :: (n ++ [chSEMI])%list) with (chL :: ((c1 :: n) ++ [chSEMI])%list).
  apply obj_parse. rewrite <- (map_class_valid f (c1 :: n) cls1 W Ec). exact Hv1.
Qed.

Lemma remap_enum_const_comp f g t c c1 t1 :
  wf_first f -> remap_enum_const f t c = Ok c1 -> map_desc f t = Ok t1 ->
  remap_enum_const g t1 c1 = remap_enum_const (comp f g) t c.
Proof.
  intros W Hc Ht. unfold remap_enum_const in Hc |- * .
  destruct (C18.Model.parse_field t) as [ty|] eqn:Ep.
  - destruct ty as [| | | | | | | |cls|dm a].
    9:{ (* an object type *)
      destruct (parse_obj t cls Ep) as [-> Hv]. destruct (valid_obj_readable cls Hv) as [Hne Hs].
      rewrite (map_desc_obj f cls Hne Hs) in Ht.
      destruct (map_class f cls) as [cls1|] eqn:Ecl; [|discriminate]. injection Ht as <-.
      assert (Hv1 : C18.Model.is_valid_obj_class_name cls1 = true) by (rewrite (map_class_valid f cls cls1 W Ecl); exact Hv).
      rewrite (obj_parse cls1 Hv1).
      destruct (C18.Model.is_valid_unqualified_name c) eqn:Evc.
      - destruct (map_field f cls c (chL :: (cls ++ [chSEMI])%list)) as [[n1 d1]|] eqn:Ef; [|discriminate]. injection Hc as <-.
        rewrite map_field_comp, Ef, Ecl.
        (* the name is a field name again, the descriptor is the rewritten type_name *)
        assert (Hn1 : C18.Model.is_valid_unqualified_name n1 = true /\ d1 = chL :: (cls1 ++ [chSEMI])%list).
        { unfold map_field, map_member in Ef.
          destruct (rm_field f cls c (chL :: (cls ++ [chSEMI])%list)) as [[[a b]|]|] eqn:Er; try discriminate.
          - injection Ef as -> ->. destruct W as (_ & _ & W3). destruct (W3 _ _ _ _ _ Er) as [A B]. split; [exact A|].
            rewrite (map_desc_obj f cls Hne Hs), Ecl in B. injection B as <-. reflexivity.
          - rewrite (map_desc_obj f cls Hne Hs), Ecl in Ef. injection Ef as <- <-. split; [exact Evc|reflexivity]. }
        destruct Hn1 as [Hn1 ->]. rewrite Hn1. reflexivity.
      - injection Hc as <-. rewrite Evc. reflexivity. }
    all: injection Hc as <-;
      destruct (C18.Model.parse_field t1) as [ty1|] eqn:Ep1; [|reflexivity];
      destruct ty1 as [| | | | | | | |cls1|dm1 a1]; try reflexivity;
      destruct (parse_obj_back f t t1 cls1 W Ht Ep1) as (cls & Hcls); rewrite Ep in Hcls; discriminate.
  - injection Hc as <-.
    destruct (C18.Model.parse_field t1) as [ty1|] eqn:Ep1; [|reflexivity].
    destruct ty1 as [| | | | | | | |cls1|dm1 a1]; try reflexivity.
    destruct (parse_obj_back f t t1 cls1 W Ht Ep1) as (cls & Hcls). rewrite Ep in Hcls. discriminate.
Qed.

(* ------------------------------------------------------------------ *)
(* fields by name, rewritten twice *)

Lemma set_field_set f x y : forall fs, set_field f x (set_field f y fs) = set_field f x fs.
Proof.
  induction fs as [|p fs IH]; [reflexivity|]. cbn [set_field]. destruct (String.eqb (fst p) f) eqn:E.
  - cbn [set_field fst]. rewrite E. reflexivity.
  - cbn [set_field]. rewrite E, IH. reflexivity.
Qed.
Lemma set_field_comm f g x y : f <> g -> forall fs, set_field f x (set_field g y fs) = set_field g y (set_field f x fs).
Proof.
  intros Hne. induction fs as [|p fs IH]; [reflexivity|]. cbn [set_field].
  destruct (String.eqb (fst p) g) eqn:Eg; destruct (String.eqb (fst p) f) eqn:Ef.
  - apply String.eqb_eq in Eg, Ef. congruence.
  - cbn [set_field fst]. rewrite Ef, Eg. reflexivity.
  - cbn [set_field fst]. rewrite Ef, Eg. reflexivity.
  - cbn [set_field]. rewrite Ef, Eg, IH. reflexivity.
Qed.
Lemma field_of_set_same f x : forall fs y, field_of fs f = Ok y -> field_of (set_field f x fs) f = Ok x.
Proof.
  induction fs as [|p fs IH]; intros y; [discriminate|]. rewrite field_of_cons. cbn [set_field].
  destruct (String.eqb (fst p) f) eqn:E.
  - intros _. rewrite field_of_cons. cbn [fst snd]. rewrite E. reflexivity.
  - intros H. rewrite field_of_cons, E. exact (IH y H).
Qed.
Lemma str_field_set_same f s fs y : field_of fs f = Ok y -> str_field (set_field f (VStr s) fs) f = Ok s.
Proof. intros H. unfold str_field. rewrite (field_of_set_same f (VStr s) fs y H). reflexivity. Qed.
Lemma str_field_set_other g x f fs : f <> g -> str_field (set_field g x fs) f = str_field fs f.
Proof. intros H. unfold str_field. rewrite (field_of_set_other g x f H). reflexivity. Qed.

Lemma apply_str_comp (F G H : str -> res str) v v1 :
  (forall s s1, F s = Ok s1 -> G s1 = H s) -> apply_str F v = Ok v1 -> apply_str G v1 = apply_str H v.
Proof.
  intros HF. destruct v; try discriminate. cbn [apply_str]. destruct (F s) as [s1|] eqn:E; [|discriminate].
  intros [= <-]. cbn [apply_str]. rewrite (HF s s1 E). reflexivity.
Qed.

Lemma apply_ref_comp (F G H : ref3 -> res ref3) v v1 :
  (forall x x1, F x = Ok x1 -> G x1 = H x) -> apply_ref F v = Ok v1 -> apply_ref G v1 = apply_ref H v.
Proof.
  intros HF. destruct v as [s|s|n c fs|l| |y|a b]; try discriminate. cbn [apply_ref].
  destruct (str_field fs "class") as [cl|] eqn:E1; [|discriminate].
  destruct (str_field fs "name") as [nm|] eqn:E2; [|discriminate].
  destruct (str_field fs "desc") as [d|] eqn:E3; [|discriminate].
  destruct (F (cl, nm, d)) as [[[cl1 nm1] d1]|] eqn:EF; [|discriminate]. intros [= <-].
  pose proof (str_field_ok _ _ _ E1) as F1. pose proof (str_field_ok _ _ _ E2) as F2. pose proof (str_field_ok _ _ _ E3) as F3.
  cbn [apply_ref].
  (* the three strings of the rewritten node *)
  assert (S1 : str_field (set_field "class" (VStr cl1) (set_field "name" (VStr nm1) (set_field "desc" (VStr d1) fs))) "class" = Ok cl1).
  { apply (str_field_set_same "class" cl1 _ (VStr cl)). rewrite !field_of_set_other by discriminate. exact F1. }
  assert (S2 : str_field (set_field "class" (VStr cl1) (set_field "name" (VStr nm1) (set_field "desc" (VStr d1) fs))) "name" = Ok nm1).
  { rewrite str_field_set_other by discriminate. apply (str_field_set_same "name" nm1 _ (VStr nm)).
    rewrite field_of_set_other by discriminate. exact F2. }
  assert (S3 : str_field (set_field "class" (VStr cl1) (set_field "name" (VStr nm1) (set_field "desc" (VStr d1) fs))) "desc" = Ok d1).
  { rewrite !str_field_set_other by discriminate. exact (str_field_set_same "desc" d1 fs (VStr d) F3). }
  rewrite S1, S2, S3, (HF _ _ EF).
  destruct (H (cl, nm, d)) as [[[cl2 nm2] d2]|]; [|reflexivity]. f_equal. f_equal.
  rewrite (set_field_comm "desc" "class") by discriminate. rewrite (set_field_comm "desc" "name") by discriminate.
  rewrite set_field_set.
  rewrite (set_field_comm "name" "class") by discriminate. rewrite set_field_set.
  rewrite set_field_set. reflexivity.
Qed.

Lemma apply_leaf_comp f g m v v1 : wf_first f -> apply_leaf f m v = Ok v1 -> apply_leaf g m v1 = apply_leaf (comp f g) m v.
Proof.
  intros W. destruct m; cbn [apply_leaf]; try discriminate.
  - apply apply_str_comp. intros s s1 E. symmetry. exact (map_class_comp f g s s1 E).
  - apply apply_str_comp. intros s s1 E. exact (map_class_any_comp f g s s1 W E).
  - apply apply_str_comp. intros s s1 E. exact (map_desc_comp f g s s1 W E).
  - apply apply_str_comp. intros s s1 E. exact (map_desc_comp f g s s1 W E).
  - apply apply_str_comp. intros s s1 E. exact (map_desc_comp f g s s1 W E).
  - apply apply_ref_comp. intros x x1 E. exact (map_field_ref_comp f g x x1 E).
  - apply apply_ref_comp. intros x x1 E. exact (map_method_ref_comp f g x x1 W E).
Qed.

(* ------------------------------------------------------------------ *)
(* joint positions: [sib1] are the siblings as the first pass left them *)

Definition ctx_rel (f : remapper) (c c1 : option str) : Prop :=
  match c, c1 with
  | None, None => True
  | Some a, Some b => map_class f a = Ok b
  | _, _ => False
  end.

Definition decl_sibs (d : decl) (f : remapper) (ctx : option str) (sib sib1 : list (string * val)) : Prop :=
  forall this n ds n1 d1, ctx = Some this -> str_field sib "name" = Ok n -> str_field sib "descriptor" = Ok ds ->
    decl_map d f this n ds = Ok (n1, d1) -> str_field sib1 "name" = Ok n1 /\ str_field sib1 "descriptor" = Ok d1.

Lemma pos_decl_name_comp d f g ctx ctx1 sib sib1 x y :
  wf_first f -> ctx_rel f ctx ctx1 -> decl_sibs d f ctx sib sib1 ->
  apply_pos f (MDeclName d) ctx sib x = Ok y ->
  apply_pos g (MDeclName d) ctx1 sib1 y = apply_pos (comp f g) (MDeclName d) ctx sib x.
Proof.
  intros W Hc Hs. cbn [apply_pos]. destruct x; try discriminate. destruct ctx as [this|]; [|discriminate].
  destruct (str_field sib "name") as [n|] eqn:E1; [|discriminate].
  destruct (str_field sib "descriptor") as [ds|] eqn:E2; [|discriminate].
  destruct (decl_map d f this n ds) as [[n1 d1]|] eqn:E3; [|discriminate]. intros [= <-].
  destruct ctx1 as [this1|]; [|contradiction]. cbn [ctx_rel] in Hc.
  destruct (Hs this n ds n1 d1 eq_refl E1 E2 E3) as [S1 S2]. rewrite S1, S2.
  rewrite (decl_map_comp d f g this this1 n ds n1 d1 W Hc E3). reflexivity.
Qed.
Lemma pos_decl_desc_comp d f g ctx ctx1 sib sib1 x y :
  wf_first f -> ctx_rel f ctx ctx1 -> decl_sibs d f ctx sib sib1 ->
  apply_pos f (MDeclDesc d) ctx sib x = Ok y ->
  apply_pos g (MDeclDesc d) ctx1 sib1 y = apply_pos (comp f g) (MDeclDesc d) ctx sib x.
Proof.
  intros W Hc Hs. cbn [apply_pos]. destruct x; try discriminate. destruct ctx as [this|]; [|discriminate].
  destruct (str_field sib "name") as [n|] eqn:E1; [|discriminate].
  destruct (str_field sib "descriptor") as [ds|] eqn:E2; [|discriminate].
  destruct (decl_map d f this n ds) as [[n1 d1]|] eqn:E3; [|discriminate]. intros [= <-].
  destruct ctx1 as [this1|]; [|contradiction]. cbn [ctx_rel] in Hc.
  destruct (Hs this n ds n1 d1 eq_refl E1 E2 E3) as [S1 S2]. rewrite S1, S2.
  rewrite (decl_map_comp d f g this this1 n ds n1 d1 W Hc E3). reflexivity.
Qed.

(* what the first pass leaves at EnclosingMethod.method *)
Lemma encl_method_out f ctx sib mv mv1 c mm :
  apply_pos f MEnclMethod ctx sib mv = Ok mv1 -> str_field sib "class" = Ok c -> member_of mv = Ok mm ->
  exists c1 mm1, remap_enclosing f c mm = Ok (c1, mm1) /\ member_of mv1 = Ok mm1 /\
    (forall mm2 : option member, match mv1, mm2 with
                   | VNone, None => Ok VNone
                   | VSome (VNode n k fs), Some (n', d') => Ok (VSome (VNode n k (set_field "name" (VStr n') (set_field "desc" (VStr d') fs))))
                   | _, _ => Err
                   end =
                   match mv, mm2 with
                   | VNone, None => Ok VNone
                   | VSome (VNode n k fs), Some (n', d') => Ok (VSome (VNode n k (set_field "name" (VStr n') (set_field "desc" (VStr d') fs))))
                   | _, _ => Err
                   end :> res val) .
Proof.
  cbn [apply_pos]. intros H Hc Hm. rewrite Hc, Hm in H.
  destruct (remap_enclosing f c mm) as [[c1 mm1]|] eqn:E; [|discriminate]. exists c1, mm1. split; [reflexivity|].
  destruct mv as [s|s|n k fs|l| |z|a1 b1]; try discriminate.
  - destruct mm1; [discriminate|]. injection H as <-. split; [reflexivity|]. intros mm2. reflexivity.
  - destruct z as [s|s|n k fs|l| |z|a1 b1]; try discriminate.
    destruct mm1 as [[n' d']|]; [|discriminate]. injection H as <-.
    cbn [member_of] in Hm |- *.
    destruct (str_field fs "name") as [nm|] eqn:E2; [|discriminate].
    destruct (str_field fs "desc") as [ds|] eqn:E3; [|discriminate].
    pose proof (str_field_ok _ _ _ E2) as F2. pose proof (str_field_ok _ _ _ E3) as F3.
    split.
    + rewrite (str_field_set_same "name" n' _ (VStr nm)) by (rewrite field_of_set_other by discriminate; exact F2).
      rewrite str_field_set_other by discriminate. rewrite (str_field_set_same "desc" d' fs (VStr ds) F3). reflexivity.
    + intros mm2. destruct mm2 as [[n2 d2]|]; [|reflexivity]. do 3 f_equal.
      rewrite (set_field_comm "desc" "name") by discriminate. rewrite set_field_set, set_field_set. reflexivity.
Qed.

Lemma pos_encl_class_comp f g ctx ctx1 sib sib1 x y :
  wf_first f -> field_of sib "class" = Ok x ->
  (forall mv, field_of sib "method" = Ok mv ->
              exists mv1, field_of sib1 "method" = Ok mv1 /\ apply_pos f MEnclMethod ctx sib mv = Ok mv1) ->
  apply_pos f MEnclClass ctx sib x = Ok y ->
  apply_pos g MEnclClass ctx1 sib1 y = apply_pos (comp f g) MEnclClass ctx sib x.
Proof.
  intros W Hx Hs. cbn [apply_pos]. destruct x as [c| | | | | |]; try discriminate. cbn [get_str].
  destruct (field_of sib "method") as [mv|] eqn:Em; [|discriminate].
  destruct (member_of mv) as [mm|] eqn:Emm; [|discriminate].
  destruct (remap_enclosing f c mm) as [[c1 mm1]|] eqn:E; [|discriminate]. intros [= <-]. cbn [get_str].
  destruct (Hs mv eq_refl) as (mv1 & Hm1 & Ha). rewrite Hm1.
  assert (Hc : str_field sib "class" = Ok c) by (unfold str_field; rewrite Hx; reflexivity).
  destruct (encl_method_out f ctx sib mv mv1 c mm Ha Hc Emm) as (c1' & mm1' & E' & Hmm1 & _).
  rewrite E in E'. injection E' as <- <-. rewrite Hmm1.
  rewrite (remap_enclosing_comp f g c mm c1 mm1 W E). reflexivity.
Qed.

Lemma pos_encl_method_comp f g ctx ctx1 sib sib1 x y :
  wf_first f ->
  (forall c, str_field sib "class" = Ok c ->
             exists c1, str_field sib1 "class" = Ok c1 /\ forall mm, member_of x = Ok mm -> exists mm1, remap_enclosing f c mm = Ok (c1, mm1)) ->
  apply_pos f MEnclMethod ctx sib x = Ok y ->
  apply_pos g MEnclMethod ctx1 sib1 y = apply_pos (comp f g) MEnclMethod ctx sib x.
Proof.
  intros W Hs Ha. pose proof Ha as Ha0. cbn [apply_pos] in Ha |- *.
  destruct (str_field sib "class") as [c|] eqn:Ec; [|discriminate].
  destruct (member_of x) as [mm|] eqn:Emm; [|discriminate].
  destruct (encl_method_out f ctx sib x y c mm Ha0 Ec Emm) as (c1 & mm1 & E & Hmm1 & Hset).
  destruct (Hs c eq_refl) as (c1' & Hc1 & Hr). destruct (Hr mm eq_refl) as (mm1' & E'). rewrite E in E'. injection E' as <- <-.
  rewrite Hc1, Hmm1. rewrite (remap_enclosing_comp f g c mm c1 mm1 W E).
  destruct (remap_enclosing (comp f g) c mm) as [[c2 mm2]|]; [|reflexivity].
  exact (Hset mm2).
Qed.

Lemma pos_enum_comp f g ctx ctx1 sib sib1 x y :
  wf_first f ->
  (forall t, str_field sib "type_name" = Ok t -> exists t1, str_field sib1 "type_name" = Ok t1 /\ map_desc f t = Ok t1) ->
  apply_pos f MEnumConst ctx sib x = Ok y ->
  apply_pos g MEnumConst ctx1 sib1 y = apply_pos (comp f g) MEnumConst ctx sib x.
Proof.
  intros W Hs. cbn [apply_pos]. destruct x as [c| | | | | |]; try discriminate.
  destruct (str_field sib "type_name") as [t|] eqn:Et; [|discriminate].
  destruct (remap_enum_const f t c) as [c1|] eqn:E; [|discriminate]. intros [= <-].
  destruct (Hs t eq_refl) as (t1 & Ht1 & Hm). rewrite Ht1.
  rewrite (remap_enum_const_comp f g t c c1 t1 W E Hm). reflexivity.
Qed.

(* ------------------------------------------------------------------ *)
(* the fields of a node after the first pass *)

Definition step (defs : list tdef) (S : list string) (R : remapper) (ctx' : option str) (tn vc : string)
           (fts : list (string * rty)) (fs : list (string * val)) (k : string) (x : val) : res val :=
  match lookup_ty fts k with
  | None => Err
  | Some t =>
      match position_method (pseudo_row tn vc k t) with
      | Some m => apply_pos R m ctx' fs x
      | None => spec_val defs S R ctx' t x
      end
  end.

Lemma spec_fields_step defs S R ctx tn vc fts fs :
  spec_fields defs S R ctx tn vc fts fs =
  mapM (fun p => match step defs S R (self_ctx tn ctx fs) tn vc fts fs (fst p) (snd p) with
                 | Ok y => Ok (fst p, y) | Err => Err end) fs.
Proof.
  unfold spec_fields, step. apply mapM_ext_in. intros p _. destruct (lookup_ty fts (fst p)); reflexivity.
Qed.

Lemma mapM_fields_of (H : string -> val -> res val) : forall fs fs1,
  mapM (fun p => match H (fst p) (snd p) with Ok y => Ok (fst p, y) | Err => Err end) fs = Ok fs1 ->
  map fst fs1 = map fst fs /\
  forall k, match field_of fs k with
            | Ok x => exists y, field_of fs1 k = Ok y /\ H k x = Ok y
            | Err => field_of fs1 k = Err
            end.
Proof.
  induction fs as [|p fs IH]; intros fs1.
  - cbn. intros [= <-]. split; [reflexivity|]. intros k. reflexivity.
  - rewrite mapM_cons. destruct (H (fst p) (snd p)) as [y|] eqn:E; [|discriminate].
    destruct (mapM _ fs) as [r|] eqn:Er; [|discriminate]. intros [= <-].
    destruct (IH r eq_refl) as [Hk Hf]. split; [cbn [map fst]; rewrite Hk; reflexivity|].
    intros k. rewrite !field_of_cons. cbn [fst snd]. destruct (String.eqb (fst p) k) eqn:Ek.
    + apply String.eqb_eq in Ek. subst k. exists y. split; [reflexivity|exact E].
    + exact (Hf k).
Qed.

Lemma mapM_fields_rel (H : string -> val -> res val) (G Hc : string * val -> res (string * val)) : forall fs fs1,
  mapM (fun p => match H (fst p) (snd p) with Ok y => Ok (fst p, y) | Err => Err end) fs = Ok fs1 ->
  (forall p y, In p fs -> H (fst p) (snd p) = Ok y -> G (fst p, y) = Hc p) ->
  mapM G fs1 = mapM Hc fs.
Proof.
  induction fs as [|p fs IH]; intros fs1.
  - cbn. intros [= <-] _. reflexivity.
  - rewrite mapM_cons. destruct (H (fst p) (snd p)) as [y|] eqn:E; [|discriminate].
    destruct (mapM _ fs) as [r|] eqn:Er; [|discriminate]. intros [= <-] Hrel.
    rewrite !mapM_cons. rewrite (Hrel p y (or_introl eq_refl) E).
    rewrite (IH r eq_refl); [reflexivity|]. intros q z Hin. apply Hrel. right. exact Hin.
Qed.

(* where the position rules apply *)
Lemma position_method_where n c k t m :
  position_method (pseudo_row n c k t) = Some m ->
  c = "" /\
  ((n = "Field" /\ k = "name" /\ m = MDeclName DField) \/ (n = "Field" /\ k = "descriptor" /\ m = MDeclDesc DField) \/
   (n = "Method" /\ k = "name" /\ m = MDeclName DMethod) \/ (n = "Method" /\ k = "descriptor" /\ m = MDeclDesc DMethod) \/
   (n = "RecordComponent" /\ k = "name" /\ m = MDeclName DRecord) \/ (n = "RecordComponent" /\ k = "descriptor" /\ m = MDeclDesc DRecord) \/
   (n = "EnclosingMethod" /\ k = "class" /\ m = MEnclClass) \/ (n = "EnclosingMethod" /\ k = "method" /\ m = MEnclMethod)) \/
  (n = "ElementValue" /\ c = "Enum" /\ k = "const_name" /\ m = MEnumConst).
Proof.
  unfold position_method, at_pos, pseudo_row. cbn [r_type r_variant r_field].
  repeat match goal with
         | |- context [if ?b then _ else _] => let E := fresh "E" in destruct b eqn:E
         end; try discriminate; intros [= <-];
    repeat match goal with
           | H : (_ && _)%bool = true |- _ => apply andb_prop in H; destruct H
           | H : String.eqb _ _ = true |- _ => apply String.eqb_eq in H
           end; subst; tauto.
Qed.

Definition sib_defs_ok (defs : list tdef) (S : list string) : Prop :=
  (forall vc fts t, node_fields defs "ClassFile" vc = Some fts -> lookup_ty fts "name" = Some t ->
                    forall R ctx x, spec_val defs S R ctx t x = apply_str (map_class R) x) /\
  (forall fts t, node_fields defs "ElementValue" "Enum" = Some fts -> lookup_ty fts "type_name" = Some t ->
                 forall R ctx x, spec_val defs S R ctx t x = apply_str (map_desc R) x).

Lemma str_field_of fs k s : str_field fs k = Ok s <-> field_of fs k = Ok (VStr s).
Proof.
  unfold str_field. split.
  - destruct (field_of fs k) as [[]|]; try discriminate. intros [= ->]. reflexivity.
  - intros ->. reflexivity.
Qed.

(* the facts about the siblings, from what each step did *)



Lemma node_comp defs S f g (W : wf_first f) (SD : sib_defs_ok defs S) tn vc fts fs fs1 ctx ctx1 :
  keys_nodup fs = true ->
  node_fields defs tn vc = Some fts ->
  ctx_rel f ctx ctx1 ->
  spec_fields defs S f ctx tn vc fts fs = Ok fs1 ->
  (forall p t y, In p fs -> lookup_ty fts (fst p) = Some t ->
                 spec_val defs S f (self_ctx tn ctx fs) t (snd p) = Ok y ->
                 forall c1, ctx_rel f (self_ctx tn ctx fs) c1 ->
                 spec_val defs S g c1 t y = spec_val defs S (comp f g) (self_ctx tn ctx fs) t (snd p)) ->
  spec_fields defs S g ctx1 tn vc fts fs1 = spec_fields defs S (comp f g) ctx tn vc fts fs.
Proof.
  intros Hk Hnf Hctx Hf IH.
  rewrite spec_fields_step in Hf.
  destruct (mapM_fields_of (step defs S f (self_ctx tn ctx fs) tn vc fts fs) fs fs1 Hf) as [Hkeys SF].
  (* the class name handed down in the second pass *)
  assert (Hself : ctx_rel f (self_ctx tn ctx fs) (self_ctx tn ctx1 fs1)).
  { unfold self_ctx. destruct (String.eqb tn "ClassFile") eqn:Etn; [|exact Hctx].
    apply String.eqb_eq in Etn. subst tn. unfold name_ctx, str_field. specialize (SF "name").
    destruct (field_of fs "name") as [x|] eqn:Ex.
    - destruct SF as (y & Hy & Hs). rewrite Hy. unfold step in Hs.
      destruct (lookup_ty fts "name") as [t|] eqn:Et; [|discriminate].
      change (position_method (pseudo_row "ClassFile" vc "name" t)) with (@None meth) in Hs. cbv iota in Hs.
      rewrite (proj1 SD vc fts t Hnf Et) in Hs.
      destruct x; try discriminate. cbn [apply_str] in Hs.
      destruct (map_class f s) as [s1|] eqn:Es; [|discriminate]. injection Hs as <-. exact Es.
    - rewrite SF. exact I. }
  rewrite !spec_fields_step.
  apply (mapM_fields_rel (step defs S f (self_ctx tn ctx fs) tn vc fts fs) _ _ fs fs1 Hf).
  intros p y Hin Hstep. cbn [fst snd].
  pose proof (field_of_in fs p Hk Hin) as Hp.
  unfold step in Hstep |- *. destruct (lookup_ty fts (fst p)) as [t|] eqn:Et; [|discriminate].
  destruct (position_method (pseudo_row tn vc (fst p) t)) as [m|] eqn:Ep.
  2:{ rewrite (IH p t y Hin Et Hstep _ Hself). reflexivity. }
  (* a joint position *)
  destruct (position_method_where tn vc (fst p) t m Ep) as [[Hvc Hcase]|Hcase].
  - subst vc.
    assert (Hdecl : forall d n0, tn = n0 ->
               position_method (pseudo_row n0 "" "name" (TPrim "")) = Some (MDeclName d) ->
               position_method (pseudo_row n0 "" "descriptor" (TPrim "")) = Some (MDeclDesc d) ->
               (forall t', position_method (pseudo_row n0 "" "name" t') = Some (MDeclName d)) ->
               (forall t', position_method (pseudo_row n0 "" "descriptor" t') = Some (MDeclDesc d)) ->
               decl_sibs d f (self_ctx tn ctx fs) fs fs1).
    { intros d n0 -> _ _ Hpn Hpd this n ds n1 d1 Hc En Ed Em.
      apply str_field_of in En, Ed.
      pose proof (SF "name") as SFn. rewrite En in SFn. destruct SFn as (yn & Hyn & Hsn).
      pose proof (SF "descriptor") as SFd. rewrite Ed in SFd. destruct SFd as (yd & Hyd & Hsd).
      unfold step in Hsn, Hsd.
      destruct (lookup_ty fts "name") as [t1|]; [|discriminate]. rewrite Hpn in Hsn.
      destruct (lookup_ty fts "descriptor") as [t2|]; [|discriminate]. rewrite Hpd in Hsd.
      cbn [apply_pos] in Hsn, Hsd. rewrite Hc in Hsn, Hsd.
      rewrite (proj2 (str_field_of fs "name" n) En), (proj2 (str_field_of fs "descriptor" ds) Ed), Em in Hsn, Hsd.
      injection Hsn as <-. injection Hsd as <-.
      split; apply str_field_of; assumption. }
    destruct Hcase as [(-> & Hkey & ->)|[(-> & Hkey & ->)|[(-> & Hkey & ->)|[(-> & Hkey & ->)|[(-> & Hkey & ->)|[(-> & Hkey & ->)|[(-> & Hkey & ->)|(-> & Hkey & ->)]]]]]]].
    + rewrite (pos_decl_name_comp DField f g _ _ fs fs1 (snd p) y W Hself (Hdecl DField "Field" eq_refl eq_refl eq_refl (fun _ => eq_refl) (fun _ => eq_refl)) Hstep). reflexivity.
    + rewrite (pos_decl_desc_comp DField f g _ _ fs fs1 (snd p) y W Hself (Hdecl DField "Field" eq_refl eq_refl eq_refl (fun _ => eq_refl) (fun _ => eq_refl)) Hstep). reflexivity.
    + rewrite (pos_decl_name_comp DMethod f g _ _ fs fs1 (snd p) y W Hself (Hdecl DMethod "Method" eq_refl eq_refl eq_refl (fun _ => eq_refl) (fun _ => eq_refl)) Hstep). reflexivity.
    + rewrite (pos_decl_desc_comp DMethod f g _ _ fs fs1 (snd p) y W Hself (Hdecl DMethod "Method" eq_refl eq_refl eq_refl (fun _ => eq_refl) (fun _ => eq_refl)) Hstep). reflexivity.
    + rewrite (pos_decl_name_comp DRecord f g _ _ fs fs1 (snd p) y W Hself (Hdecl DRecord "RecordComponent" eq_refl eq_refl eq_refl (fun _ => eq_refl) (fun _ => eq_refl)) Hstep). reflexivity.
    + rewrite (pos_decl_desc_comp DRecord f g _ _ fs fs1 (snd p) y W Hself (Hdecl DRecord "RecordComponent" eq_refl eq_refl eq_refl (fun _ => eq_refl) (fun _ => eq_refl)) Hstep). reflexivity.
    + (* EnclosingMethod.class *)
      rewrite Hkey in Hp.
      rewrite (pos_encl_class_comp f g (self_ctx "EnclosingMethod" ctx fs) (self_ctx "EnclosingMethod" ctx1 fs1) fs fs1 (snd p) y W Hp); [reflexivity| |exact Hstep].
      intros mv Hmv. pose proof (SF "method") as SFm. rewrite Hmv in SFm. destruct SFm as (mv1 & Hmv1 & Hsm).
      exists mv1. split; [exact Hmv1|]. unfold step in Hsm. destruct (lookup_ty fts "method") as [t2|]; [|discriminate].
      exact Hsm.
    + (* EnclosingMethod.method *)
      rewrite (pos_encl_method_comp f g (self_ctx "EnclosingMethod" ctx fs) (self_ctx "EnclosingMethod" ctx1 fs1) fs fs1 (snd p) y W); [reflexivity| |exact Hstep].
      intros c Hc. apply str_field_of in Hc. pose proof (SF "class") as SFc. rewrite Hc in SFc. destruct SFc as (yc & Hyc & Hsc).
      unfold step in Hsc. destruct (lookup_ty fts "class") as [t2|]; [|discriminate].
      change (position_method (pseudo_row "EnclosingMethod" "" "class" t2)) with (Some MEnclClass) in Hsc. cbv iota in Hsc.
      cbn [apply_pos get_str] in Hsc.
      rewrite Hkey in Hp. rewrite Hp in Hsc.
      destruct (member_of (snd p)) as [mm|] eqn:Emm; [|discriminate].
      destruct (remap_enclosing f c mm) as [[c1 mm1]|] eqn:E; [|discriminate]. injection Hsc as <-.
      exists c1. split; [apply str_field_of; exact Hyc|]. intros mm0 [= <-]. exists mm1. exact E.
  - destruct Hcase as (-> & -> & Hkey & ->).
    rewrite (pos_enum_comp f g (self_ctx "ElementValue" ctx fs) (self_ctx "ElementValue" ctx1 fs1) fs fs1 (snd p) y W); [reflexivity| |exact Hstep].
    intros tt Htt. apply str_field_of in Htt. pose proof (SF "type_name") as SFt. rewrite Htt in SFt. destruct SFt as (yt & Hyt & Hst).
    unfold step in Hst. destruct (lookup_ty fts "type_name") as [t2|] eqn:Et2; [|discriminate].
    change (position_method (pseudo_row "ElementValue" "Enum" "type_name" t2)) with (@None meth) in Hst. cbv iota in Hst.
    rewrite (proj2 SD fts t2 Hnf Et2) in Hst. cbn [apply_str] in Hst.
    destruct (map_desc f tt) as [t1|] eqn:Em; [|discriminate]. injection Hst as <-.
    exists t1. split; [apply str_field_of; exact Hyt|reflexivity].
Qed.

Lemma mapM_rel {A B C} (F : A -> res B) (G : B -> res C) (H : A -> res C) : forall l l1,
  mapM F l = Ok l1 -> (forall x y, In x l -> F x = Ok y -> G y = H x) -> mapM G l1 = mapM H l.
Proof.
  induction l as [|x l IH]; intros l1.
  - cbn. intros [= <-] _. reflexivity.
  - rewrite mapM_cons. destruct (F x) as [y|] eqn:E; [|discriminate].
    destruct (mapM F l) as [r|]; [|discriminate]. intros [= <-] Hrel.
    rewrite !mapM_cons, (Hrel x y (or_introl eq_refl) E), (IH r eq_refl); [reflexivity|].
    intros x0 y0 Hin. apply Hrel. right. exact Hin.
Qed.

(* COMPOSITION, for the specification *)
Theorem spec_val_comp defs S f g :
  wf_first f -> defs_nodup defs = true -> sib_defs_ok defs S ->
  forall v T ctx ctx1 v1, has_ty defs T v = true -> ctx_rel f ctx ctx1 ->
    spec_val defs S f ctx T v = Ok v1 ->
    spec_val defs S g ctx1 T v1 = spec_val defs S (comp f g) ctx T v.
Proof.
  intros W Hdefs SD.
  assert (Hnode : forall vn vc fs,
             Forall (fun p => forall T ctx ctx1 v1, has_ty defs T (snd p) = true -> ctx_rel f ctx ctx1 ->
                                spec_val defs S f ctx T (snd p) = Ok v1 ->
                                spec_val defs S g ctx1 T v1 = spec_val defs S (comp f g) ctx T (snd p)) fs ->
             forall T tn ctx ctx1 v1, named T tn -> has_ty defs T (VNode vn vc fs) = true -> ctx_rel f ctx ctx1 ->
                                 spec_node defs S f ctx tn (VNode vn vc fs) = Ok v1 ->
                                 spec_node defs S g ctx1 tn v1 = spec_node defs S (comp f g) ctx tn (VNode vn vc fs)).
  { intros vn vc fs IHfs T tn ctx ctx1 v1 Hnm Hty Hctx Hs.
    destruct (has_ty_node_inv2 defs T tn vn vc fs Hnm Hty) as (fts & Hf & Hkeys & Hall).
    cbn [spec_node] in Hs |- *. destruct (String.eqb vn tn) eqn:En; [|discriminate]. rewrite Hf in Hs |- *.
    destruct (spec_fields defs S f ctx tn vc fts fs) as [fs1|] eqn:Ef; [|discriminate]. injection Hs as <-.
    cbn [spec_node]. rewrite En, Hf.
    assert (Hk : keys_nodup fs = true) by (rewrite keys_nodup_strs, Hkeys; exact (node_fields_nodup defs tn vc fts Hdefs Hf)).
    rewrite (node_comp defs S f g W SD tn vc fts fs fs1 ctx ctx1 Hk Hf Hctx Ef); [reflexivity|].
    intros p t y Hin Ht Hy c1 Hc1. rewrite Forall_forall in IHfs.
    destruct (Hall p Hin) as (t' & Ht' & Hpt). rewrite Ht in Ht'. injection Ht' as <-.
    exact (IHfs p Hin t _ c1 y Hpt Hc1 Hy). }
  induction v as [s|s|vn vc fs IHfs|l IHl| |x IHx|x1 x2 IH1 IH2] using val_ind2; intros T ctx ctx1 v1 Hty Hctx Hs.
  all: destruct (mentions S T) eqn:Em;
    [|rewrite (spec_val_nomention defs S f ctx T _ Em) in Hs; injection Hs as <-;
      rewrite !spec_val_nomention by exact Em; reflexivity].
  all: destruct T as [p|tn| |tn ta|ta|ta|ta tb]; try (cbn [mentions] in Em; discriminate);
    try (cbn [has_ty] in Hty; discriminate).
  (* TName / TApp: leaves, then nodes *)
  all: try (rewrite spec_val_name in Hs |- *; rewrite (spec_val_name defs S (comp f g)); rewrite Em in Hs |- *; cbn [negb] in Hs |- *;
            destruct (leaf_method tn) as [m|]; [exact (apply_leaf_comp f g m _ _ W Hs)|];
            destruct (needs_owner tn); [discriminate|]).
  all: try (rewrite spec_val_app in Hs |- *; rewrite (spec_val_app defs S (comp f g)); rewrite Em in Hs |- *; cbn [negb] in Hs |- *).
  all: try (cbn [spec_node] in Hs; discriminate).
  - exact (Hnode vn vc fs IHfs (TName tn) tn ctx ctx1 v1 (or_introl eq_refl) Hty Hctx Hs).
  - exact (Hnode vn vc fs IHfs (TApp tn ta) tn ctx ctx1 v1 (or_intror (ex_intro _ ta eq_refl)) Hty Hctx Hs).
  - (* VList at TVec *)
    cbn [mentions] in Em. rewrite spec_val_vec in Hs. rewrite Em in Hs. cbn [negb] in Hs.
    destruct (mapM (spec_val defs S f ctx ta) l) as [l1|] eqn:El; [|discriminate]. injection Hs as <-.
    rewrite !spec_val_vec, Em. cbn [negb].
    rewrite (mapM_rel _ (spec_val defs S g ctx1 ta) (spec_val defs S (comp f g) ctx ta) l l1 El); [reflexivity|].
    intros x y Hin Hy. rewrite Forall_forall in IHl. cbn [has_ty] in Hty. rewrite forallb_forall in Hty.
    exact (IHl x Hin ta ctx ctx1 y (Hty x Hin) Hctx Hy).
  - (* VNone at TOpt *)
    cbn [mentions] in Em. rewrite spec_val_opt in Hs. rewrite Em in Hs. cbn [negb] in Hs. injection Hs as <-.
    rewrite !spec_val_opt, Em. reflexivity.
  - (* VSome at TOpt *)
    cbn [mentions] in Em. rewrite spec_val_opt in Hs. rewrite Em in Hs. cbn [negb] in Hs.
    destruct (spec_val defs S f ctx ta x) as [y|] eqn:Ey; [|discriminate]. injection Hs as <-.
    rewrite !spec_val_opt, Em. cbn [negb]. cbn [has_ty] in Hty.
    rewrite (IHx ta ctx ctx1 y Hty Hctx Ey). reflexivity.
  - (* VPair at TPair *)
    rewrite spec_val_pair in Hs. rewrite Em in Hs. cbn [negb] in Hs.
    destruct (spec_val defs S f ctx ta x1) as [y1|] eqn:E1; [|discriminate].
    destruct (spec_val defs S f ctx tb x2) as [y2|] eqn:E2; [|discriminate]. injection Hs as <-.
    rewrite !spec_val_pair, Em. cbn [negb]. cbn [has_ty] in Hty. apply andb_prop in Hty. destruct Hty as [H1 H2].
    rewrite (IH1 ta ctx ctx1 y1 H1 Hctx E1), (IH2 tb ctx ctx1 y2 H2 Hctx E2). reflexivity.
Qed.

(* ------------------------------------------------------------------ *)
(* typing depends on the shape only: what a pass returns is well-typed again *)

Lemma forall2b_inv {A B} (P : A -> B -> bool) : forall l l', forall2b P l l' = true -> Forall2 (fun x y => P x y = true) l l'.
Proof.
  induction l as [|x l IH]; intros [|y l']; cbn [forall2b]; try discriminate; [constructor|].
  intros H. apply andb_prop in H. destruct H as [H1 H2]. constructor; [exact H1|exact (IH l' H2)].
Qed.

Lemma same_shape_has_ty defs : forall a b T, same_shape a b = true -> has_ty defs T a = true -> has_ty defs T b = true.
Proof.
  induction a as [s|s|vn vc fs IHfs|l IHl| |x IHx|x1 x2 IH1 IH2] using val_ind2; intros b T Hsh Hty.
  - destruct b; try discriminate. destruct T; cbn [has_ty] in Hty |- *; try exact Hty; try discriminate;
      destruct (lookup_def defs n) as [[]|]; try discriminate; reflexivity.
  - destruct b; try discriminate. cbn [same_shape] in Hsh. destruct (str_eqb_spec s s0) as [->|]; [exact Hty|discriminate].
  - destruct b as [| |vn' vc' fs'| | | |]; try discriminate. cbn [same_shape] in Hsh.
    apply andb_prop in Hsh. destruct Hsh as [Hsh H3]. apply andb_prop in Hsh. destruct Hsh as [H1 H2].
    apply String.eqb_eq in H1, H2. subst vn' vc'. apply forall2b_inv in H3.
    assert (Hkeys : map fst fs' = map fst fs).
    { clear -H3. induction H3 as [|p q l l' Hpq _ IH]; [reflexivity|]. cbn [map]. rewrite IH.
      apply andb_prop in Hpq. destruct Hpq as [Hpq _]. apply String.eqb_eq in Hpq. rewrite Hpq. reflexivity. }
    assert (Hall : forall (fts : list (string * rty)),
               forallb (fun p => match lookup_ty fts (fst p) with Some t => has_ty defs t (snd p) | None => false end) fs = true ->
               forallb (fun p => match lookup_ty fts (fst p) with Some t => has_ty defs t (snd p) | None => false end) fs' = true).
    { intros fts. clear -H3 IHfs. induction H3 as [|p q l l' Hpq _ IH]; [reflexivity|]. cbn [forallb].
      inversion IHfs as [|? ? Hp Hl]; subst. intros H. apply andb_prop in H. destruct H as [Ha Hb].
      apply andb_prop in Hpq. destruct Hpq as [Hk Hs]. apply String.eqb_eq in Hk. rewrite <- Hk.
      rewrite (IH Hl Hb), andb_true_r. destruct (lookup_ty fts (fst p)) as [t|]; [|discriminate]. exact (Hp (snd q) t Hs Ha). }
    destruct T as [p|tn| |tn ta|ta|ta|ta tb]; cbn [has_ty] in Hty |- *; try exact Hty; try discriminate.
    + destruct (lookup_def defs tn) as [[nm|nm fs0|nm vs]|]; try discriminate;
        (apply andb_prop in Hty; destruct Hty as [Hn Hty]; rewrite Hn; cbn [andb];
         destruct (node_fields defs tn vc) as [fts|]; [|discriminate];
         apply andb_prop in Hty; destruct Hty as [Hk Hf]; rewrite Hkeys, Hk; cbn [andb]; exact (Hall fts Hf)).
    + destruct (lookup_def defs tn) as [[nm|nm fs0|nm vs]|]; try discriminate;
        (apply andb_prop in Hty; destruct Hty as [Hn Hty]; rewrite Hn; cbn [andb];
         destruct (node_fields defs tn vc) as [fts|]; [|discriminate];
         apply andb_prop in Hty; destruct Hty as [Hk Hf]; rewrite Hkeys, Hk; cbn [andb]; exact (Hall fts Hf)).
  - destruct b as [| | |l'| | |]; try discriminate. cbn [same_shape] in Hsh. apply forall2b_inv in Hsh.
    destruct T as [p|tn| |tn ta|ta|ta|ta tb]; cbn [has_ty] in Hty |- *; try exact Hty; try discriminate;
      try (destruct (lookup_def defs tn) as [[]|]; discriminate).
    clear -Hsh IHl Hty. induction Hsh as [|x y l l' Hxy _ IH]; [reflexivity|]. cbn [forallb] in Hty |- *.
    inversion IHl as [|? ? Hx Hl]; subst. apply andb_prop in Hty. destruct Hty as [Ha Hb].
    rewrite (Hx y ta Hxy Ha), (IH Hl Hb). reflexivity.
  - destruct b; try discriminate. exact Hty.
  - destruct b as [| | | | |y|]; try discriminate. cbn [same_shape] in Hsh.
    destruct T as [p|tn| |tn ta|ta|ta|ta tb]; cbn [has_ty] in Hty |- *; try exact Hty; try discriminate;
      try (destruct (lookup_def defs tn) as [[]|]; discriminate).
    exact (IHx y ta Hsh Hty).
  - destruct b as [| | | | | |y1 y2]; try discriminate. cbn [same_shape] in Hsh. apply andb_prop in Hsh. destruct Hsh as [H1 H2].
    destruct T as [p|tn| |tn ta|ta|ta|ta tb]; cbn [has_ty] in Hty |- *; try exact Hty; try discriminate;
      try (destruct (lookup_def defs tn) as [[]|]; discriminate).
    apply andb_prop in Hty. destruct Hty as [Ha Hb]. rewrite (IH1 y1 ta H1 Ha), (IH2 y2 tb H2 Hb). reflexivity.
Qed.

(* the regenerated definitions: ClassFile.name is a class-name leaf, ElementValue::Enum.type_name a descriptor leaf *)
Lemma type_defs_sib_ok : sib_defs_ok type_defs (ref_types type_defs).
Proof.
  rewrite RT_eq. split.
  - intros vc fts t Hn Hl R ctx x. unfold node_fields in Hn.
    destruct (lookup_def type_defs "ClassFile") as [[nm|nm fs0|nm vs]|] eqn:Ed; vm_compute in Ed; try discriminate.
    injection Ed as <- <-. destruct (String.eqb vc ""); [|discriminate]. injection Hn as <-.
    vm_compute in Hl. injection Hl as <-. destruct x; reflexivity.
  - intros fts t Hn Hl R ctx x. vm_compute in Hn. injection Hn as <-. vm_compute in Hl. injection Hl as <-.
    destruct x; reflexivity.
Qed.

(* COMPOSITION for the interpreter of the regenerated table *)
Theorem remap_val_comp :
  forall (f g : remapper) (ctx ctx1 : option str) (T : rty) (v v1 : val),
    wf_first f ->
    deleg_ok gen_table (ref_types type_defs) T = true ->
    has_ty type_defs T v = true ->
    ctx_rel f ctx ctx1 ->
    remap_val gen_table f ctx T v = Ok v1 ->
    remap_val gen_table g ctx1 T v1 = remap_val gen_table (comp f g) ctx T v.
Proof.
  intros f g ctx ctx1 T v v1 W Hd Hty Hc H.
  rewrite (remap_val_spec_full f ctx T v Hd Hty) in H.
  assert (Hty1 : has_ty type_defs T v1 = true).
  { apply (same_shape_has_ty type_defs v v1 T); [|exact Hty]. exact (spec_val_shape _ _ _ _ _ _ _ H). }
  rewrite (remap_val_spec_full g ctx1 T v1 Hd Hty1), (remap_val_spec_full (comp f g) ctx T v Hd Hty).
  exact (spec_val_comp type_defs (ref_types type_defs) f g W type_defs_nodup type_defs_sib_ok v T ctx ctx1 v1 Hty Hc H).
Qed.

Theorem remap_class_comp :
  forall (f g : remapper) (v v1 : val),
    wf_first f ->
    has_ty type_defs (TName "ClassFile") v = true ->
    remap_val gen_table f None (TName "ClassFile") v = Ok v1 ->
    remap_val gen_table g None (TName "ClassFile") v1 = remap_val gen_table (comp f g) None (TName "ClassFile") v.
Proof. intros f g v v1 W Hty H. exact (remap_val_comp f g None None _ v v1 W class_deleg_ok Hty I H). Qed.

(* what a pass returns is well-typed again *)
Theorem remap_val_has_ty :
  forall (R : remapper) (ctx : option str) (T : rty) (v v1 : val),
    deleg_ok gen_table (ref_types type_defs) T = true ->
    has_ty type_defs T v = true ->
    remap_val gen_table R ctx T v = Ok v1 -> has_ty type_defs T v1 = true.
Proof.
  intros R ctx T v v1 Hd Hty H. rewrite (remap_val_spec_full R ctx T v Hd Hty) in H.
  apply (same_shape_has_ty type_defs v v1 T); [|exact Hty]. exact (spec_val_shape _ _ _ _ _ _ _ H).
Qed.

(* ------------------------------------------------------------------ *)
(* non-vacuity: a/A -> x/Y, a/A.f:I -> g   and then   x/Y -> z/Z, x/Y.g:I -> h *)
Definition ex_f : remapper :=
  mkRemapper (fun c => Ok (if str_eqb c (bs "a/A") then Some (bs "x/Y") else None))
             (fun o n d => Ok (if str_eqb o (bs "a/A") && str_eqb n (bs "f") && str_eqb d (bs "I") then Some (bs "g", bs "I") else None))
             (fun _ _ _ => Ok None).
Definition ex_g : remapper :=
  mkRemapper (fun c => Ok (if str_eqb c (bs "x/Y") then Some (bs "z/Z") else None))
             (fun o n d => Ok (if str_eqb o (bs "x/Y") && str_eqb n (bs "g") && str_eqb d (bs "I") then Some (bs "h", bs "I") else None))
             (fun _ _ _ => Ok None).

Lemma ex_f_wf : wf_first ex_f.
Proof.
  split; [|split].
  - intros c n H. cbn [ex_f rm_class] in H. destruct (str_eqb c (bs "a/A")); [|discriminate]. injection H as <-.
    repeat split; [discriminate|vm_compute; intuition discriminate].
  - intros c n H. cbn [ex_f rm_class] in H. destruct (str_eqb_spec c (bs "a/A")) as [->|]; [|discriminate]. injection H as <-.
    vm_compute. reflexivity.
  - intros o n d n' d' H. cbn [ex_f rm_field] in H.
    destruct (str_eqb o (bs "a/A") && str_eqb n (bs "f")); [|discriminate].
    destruct (str_eqb_spec d (bs "I")) as [->|]; [|discriminate]. injection H as <- <-.
    split; vm_compute; reflexivity.
Qed.

Definition comp_example : Prop :=
  wf_first ex_f /\
  remap_val gen_table ex_f None class_ty (ex_class_of "a/A" "f" "a/A" "f") = Ok (ex_class_of "x/Y" "g" "x/Y" "g") /\
  remap_val gen_table ex_g None class_ty (ex_class_of "x/Y" "g" "x/Y" "g") = Ok (ex_class_of "z/Z" "h" "z/Z" "h") /\
  remap_val gen_table (comp ex_f ex_g) None class_ty (ex_class_of "a/A" "f" "a/A" "f") = Ok (ex_class_of "z/Z" "h" "z/Z" "h") /\
  (* the hypothesis on the first remapper is needed: one that answers a name with a `;` in it (a/A -> x;Y) breaks the
     law — the second pass (x -> q) reads `Lx;Y;` as the class x followed by garbage *)
  (let bad := mkRemapper (fun c => Ok (if str_eqb c (bs "a/A") then Some (bs "x;Y") else None)) (fun _ _ _ => Ok None) (fun _ _ _ => Ok None) in
   let g2 := mkRemapper (fun c => Ok (if str_eqb c (bs "x") then Some (bs "q") else None)) (fun _ _ _ => Ok None) (fun _ _ _ => Ok None) in
   deleg_ok gen_table (ref_types type_defs) (TName "FieldDescriptor") = true /\
   remap_val gen_table bad None (TName "FieldDescriptor") (VStr (bs "La/A;")) = Ok (VStr (bs "Lx;Y;")) /\
   remap_val gen_table g2 None (TName "FieldDescriptor") (VStr (bs "Lx;Y;")) = Ok (VStr (bs "Lq;Y;")) /\
   remap_val gen_table (comp bad g2) None (TName "FieldDescriptor") (VStr (bs "La/A;")) = Ok (VStr (bs "Lx;Y;"))).
Lemma comp_example_holds : comp_example.
Proof.
  unfold comp_example. split; [exact ex_f_wf|]. repeat split; vm_compute; reflexivity.
Qed.

(* a remapper whose class answers are valid class names for valid class names, and whose field answers are field names
   with the class-by-class rewritten descriptor, satisfies [wf_first] *)
Lemma valid_answers_wf f :
  (forall c n, rm_class f c = Ok (Some n) ->
               C18.Model.is_valid_obj_class_name c = true /\ C18.Model.is_valid_obj_class_name n = true) ->
  (forall o n d n' d', rm_field f o n d = Ok (Some (n', d')) ->
                       C18.Model.is_valid_unqualified_name n' = true /\ map_desc f d = Ok d') ->
  wf_first f.
Proof.
  intros H1 H2. split; [|split; [|exact H2]].
  - intros c n E. destruct (H1 c n E) as [_ Hv]. destruct (valid_obj_readable n Hv) as [A B]. split; [exact A|]. split; [exact B|].
    unfold C18.Model.is_valid_obj_class_name in Hv. apply andb_prop in Hv. destruct Hv as [Hv _].
    destruct n as [|x n']; [reflexivity|]. cbn [is_array]. cbn [starts_with] in Hv.
    destruct (N.eqb_spec x chLBRACK) as [->|]; [|reflexivity]. vm_compute in Hv. destruct n'; discriminate.
  - intros c n E. destruct (H1 c n E) as [-> ->]. reflexivity.
Qed.
