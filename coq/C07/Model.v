(* C07 model (definitions only; proofs in Theory.v):

   1. how a row of the generated table acts once the `.remap` it names is dispatched to the impl of
      the field's type ([effective]);
   2. the default methods of quill's ARemapper / BRemapper traits that dukebox/src/remap.rs calls
      (quill/src/remapper.rs: map_class, map_class_any, map_*_desc via map_desc, map_field,
      map_field_ref, map_method, map_method_ref) over an ABSTRACT remapper given by its three
      required methods — `remap` is generic in `impl BRemapper`;
   3. what remap.rs does at each kind of reference position ([remap_at]), EnclosingMethod, the
      declared members of a class;
   4. remap_jar_entry_name_java and the entry loop of `remap` (IndexMap::insert semantics). *)
From Coq Require Import String.
From FB Require C18.Model.
From FB Require Export Base.Str Base.Run C07.Schema C07.RemapTable.

(* ------------------------------------------------------------------ *)
(* 1. the table, dispatched *)

Definition find_impl (n : string) : option impl_kind :=
  match find (fun p => String.eqb (fst p) n) impls with
  | Some p => Some (snd p)
  | None => None
  end.

Definition base_name (t : rty) : option string :=
  match base_ty t with TName n => Some n | TApp n _ => Some n | _ => None end.

(* `.remap(..)` / `.remap_with_class_name(..)` on a field: Option and Vec are element-wise, a
   by-value T delegates to the impl for &T, so the call ends in the impl of the base type.
   A leaf impl is the remapper method itself, an identity impl leaves the value as it is, a
   field-wise impl rebuilds the value from its own rows. *)
Definition effective (r : row) : action :=
  match r_act r with
  | Remapped (MRec _) =>
      match base_name (r_ty r) with
      | Some n =>
          match find_impl n with
          | Some (ILeaf m) => Remapped m
          | Some IIdentity => Copied
          | Some (IFields _) => Remapped (MRec CNone)
          | None => Dropped          (* no impl: does not compile in Rust *)
          end
      | None => Dropped
      end
  | a => a
  end.

(* ------------------------------------------------------------------ *)
(* 2. quill::remapper default methods *)

Record remapper := mkRemapper {
  rm_class : str -> res (option str);                          (* ARemapper::map_class_fail *)
  rm_field : str -> str -> str -> res (option (str * str));    (* BRemapper::map_field_fail owner name desc *)
  rm_method : str -> str -> str -> res (option (str * str)) }. (* BRemapper::map_method_fail *)

Definition chL : N := 76.      (* 'L' *)
Definition chSEMI : N := 59.   (* ';' *)
Definition chLBRACK : N := 91. (* '[' *)

(* map_class: `self.map_class_fail(class)?.unwrap_or_else(|| class.to_owned())` *)
Definition map_class (R : remapper) (c : str) : res str :=
  match rm_class R c with
  | Err => Err
  | Ok (Some n) => Ok n
  | Ok None => Ok c
  end.

(* iter.by_ref().find(|ch| ch == ';'): the characters before the first `;` and the rest after it *)
Fixpoint take_until_semi (s : str) : res (str * str) :=
  match s with
  | [] => Err
  | c :: s' =>
      if N.eqb c chSEMI then Ok ([], s')
      else match take_until_semi s' with
           | Ok (n, r) => Ok (c :: n, r)
           | Err => Err
           end
  end.

(* map_desc: `while let Some(ch) = iter.next() { push ch; if ch == 'L' { start; end; bail or map_class } }` *)
Fixpoint map_desc_f (fuel : nat) (R : remapper) (s : str) : res str :=
  match fuel with
  | O => Err
  | S k =>
      match s with
      | [] => Ok []
      | c :: s' =>
          if N.eqb c chL then
            match s' with
            | [] => Err
            | c1 :: s'' =>
                if N.eqb c1 chSEMI then Err
                else match take_until_semi s'' with
                     | Err => Err
                     | Ok (n, r) =>
                         match map_class R (c1 :: n) with
                         | Err => Err
                         | Ok cn =>
                             match map_desc_f k R r with
                             | Ok o => Ok (chL :: cn ++ chSEMI :: o)
                             | Err => Err
                             end
                         end
                     end
            end
          else match map_desc_f k R s' with Ok o => Ok (c :: o) | Err => Err end
      end
  end.

Definition map_desc (R : remapper) (s : str) : res str := map_desc_f (S (List.length s)) R s.

(* ClassNameSlice::is_array *)
Definition is_array (c : str) : bool := match c with x :: _ => N.eqb x chLBRACK | [] => false end.

Definition map_class_any (R : remapper) (c : str) : res str :=
  if is_array c then map_desc R c else map_class R c.

Definition member := (str * str)%type.   (* name, descriptor *)

(* map_field / map_method: the found pair, else the old name with the descriptor remapped *)
Definition map_member (fail : str -> str -> str -> res (option member)) (R : remapper)
           (owner name desc : str) : res member :=
  match fail owner name desc with
  | Err => Err
  | Ok (Some p) => Ok p
  | Ok None => match map_desc R desc with Ok d => Ok (name, d) | Err => Err end
  end.
Definition map_field (R : remapper) := map_member (rm_field R) R.
Definition map_method (R : remapper) := map_member (rm_method R) R.

Definition ref3 := (str * str * str)%type.   (* class, name, descriptor *)

(* map_field_ref: map_field(&ref.class, ..)? then map_class(&ref.class)? *)
Definition map_field_ref (R : remapper) (x : ref3) : res ref3 :=
  let '(c, n, d) := x in
  match map_field R c n d with
  | Err => Err
  | Ok (n', d') => match map_class R c with Ok c' => Ok (c', n', d') | Err => Err end
  end.

(* map_method_ref: an array class keeps name and descriptor; then map_class_any *)
Definition map_method_ref (R : remapper) (x : ref3) : res ref3 :=
  let '(c, n, d) := x in
  match (if is_array c then Ok (n, d) else map_method R c n d) with
  | Err => Err
  | Ok (n', d') => match map_class_any R c with Ok c' => Ok (c', n', d') | Err => Err end
  end.

(* ------------------------------------------------------------------ *)
(* 3. positions *)

(* a reference as it stands at one position of a class *)
Inductive refval :=
| VName (s : str)                                  (* a class name or a descriptor *)
| VRef (x : ref3)                                  (* FieldRef / MethodRef *)
| VDecl (n d : str)                                (* name and descriptor of a declared member *)
| VEncl (c : str) (m : option member)              (* EnclosingMethod *)
| VEnumC (t c : str).                              (* enum element value: type_name, const_name *)

(* EnclosingMethod::remap *)
Definition remap_enclosing (R : remapper) (c : str) (m : option member) : res (str * option member) :=
  match m with
  | Some (n, d) =>
      match map_method_ref R (c, n, d) with
      | Ok (c', n', d') => Ok (c', Some (n', d'))
      | Err => Err
      end
  | None => match map_class_any R c with Ok c' => Ok (c', None) | Err => Err end
  end.

(* ElementValue::Enum: when type_name parses as the descriptor of an object type `Lcls;` and
   const_name is a valid field name, the constant is the field const_name : type_name of cls;
   otherwise it is left as it is.  (The descriptor parser and the name predicate are C18's
   models of FieldDescriptorSlice::parse and FieldName::check_valid.) *)
Definition remap_enum_const (R : remapper) (t c : str) : res str :=
  match C18.Model.parse_field t with
  | Ok (C18.Model.TObj cls) =>
      if C18.Model.is_valid_unqualified_name c
      then match map_field R cls c t with Ok (n', _) => Ok n' | Err => Err end
      else Ok c
  | _ => Ok c
  end.

(* what the position's method does to the value; [this] is the ORIGINAL name of the class the
   value stands in (ClassFile::remap hands `&self.name` down, every level below passes it on) *)
Definition remap_at (R : remapper) (m : meth) (this : str) (v : refval) : res refval :=
  match m, v with
  | MClass, VName c => match map_class R c with Ok c' => Ok (VName c') | Err => Err end
  | MClassAny, VName c => match map_class_any R c with Ok c' => Ok (VName c') | Err => Err end
  | (MFieldDesc | MMethodDesc | MReturnDesc), VName d =>
      match map_desc R d with Ok d' => Ok (VName d') | Err => Err end
  | MFieldRef, VRef x => match map_field_ref R x with Ok y => Ok (VRef y) | Err => Err end
  | MMethodRef, VRef x => match map_method_ref R x with Ok y => Ok (VRef y) | Err => Err end
  | (MDeclName DField | MDeclDesc DField), VDecl n d =>
      match map_field R this n d with Ok (n', d') => Ok (VDecl n' d') | Err => Err end
  | (MDeclName DMethod | MDeclDesc DMethod), VDecl n d =>
      match map_method R this n d with Ok (n', d') => Ok (VDecl n' d') | Err => Err end
  | (MDeclName DRecord | MDeclDesc DRecord), VDecl n d =>
      (* FieldName::try_from(record component name)?: JVMS 4.7.30 wants an unqualified name there *)
      if C18.Model.is_valid_unqualified_name n
      then match map_field R this n d with Ok (n', d') => Ok (VDecl n' d') | Err => Err end
      else Err
  | (MEnclClass | MEnclMethod), VEncl c mm =>
      match remap_enclosing R c mm with Ok (c', m') => Ok (VEncl c' m') | Err => Err end
  | MEnumConst, VEnumC t c =>
      (* the sibling type_name is rewritten by its own row (MFieldDesc) *)
      match remap_enum_const R t c with
      | Ok c' => match map_desc R t with Ok t' => Ok (VEnumC t' c') | Err => Err end
      | Err => Err
      end
  | _, _ => Err
  end.

(* ------------------------------------------------------------------ *)
(* 4. entry names and the entry loop *)

(* JavaStr::strip_suffix *)
Fixpoint strip_suffix (suf s : str) {struct s} : option str :=
  if str_eqb s suf then Some []
  else match s with
       | [] => None
       | c :: s' => match strip_suffix suf s' with Some p => Some (c :: p) | None => None end
       end.

(* remap_jar_entry_name_java; [class_suffix] is read from the source by the translator *)
Definition entry_name (R : remapper) (name : str) : res str :=
  match strip_suffix class_suffix name with
  | Some base => match map_class R base with Ok n => Ok (n ++ class_suffix) | Err => Err end
  | None => Ok name
  end.

(* IndexMap::insert: an equal key keeps its position and gets the new value *)
Fixpoint im_insert {V} (k : str) (v : V) (l : list (str * V)) : list (str * V) :=
  match l with
  | [] => [(k, v)]
  | (k', v') :: l' => if str_eqb k k' then (k, v) :: l' else (k', v') :: im_insert k v l'
  end.

(* the loop of `remap`, on entry names: [f] stands for what happens to the content *)
Fixpoint remap_entries_from {A B} (R : remapper) (f : str -> A -> res B) (es : list (str * A))
         (acc : list (str * B)) : res (list (str * B)) :=
  match es with
  | [] => Ok acc
  | (name, a) :: es' =>
      match entry_name R name with
      | Err => Err
      | Ok name' =>
          match f name a with
          | Err => Err
          | Ok b => remap_entries_from R f es' (im_insert name' b acc)
          end
      end
  end.
Definition remap_entries {A B} (R : remapper) (f : str -> A -> res B) (es : list (str * A)) : res (list (str * B)) :=
  remap_entries_from R f es [].

(* ------------------------------------------------------------------ *)
(* 5. the content of the entries.  zip_impls.rs to_jar_entry_enum: a directory (zip: is_dir) is a directory; an
   entry whose name ends in [zip_class_suffix] (read from the source by the translator) is a class and goes through
   remap_class ([rc]: bytes -> the remapped class, or an error); every other entry goes through remap_other, which
   returns its data.  An entry of the input is (is_dir, data). *)
Inductive content (C : Type) := KDir | KClass (c : C) | KOther (d : list N).
Arguments KDir {C}. Arguments KClass {C} c. Arguments KOther {C} d.

Definition remap_content {C} (rc : list N -> res C) (name : str) (e : bool * list N) : res (content C) :=
  if fst e then Ok KDir
  else match strip_suffix zip_class_suffix name with
       | Some _ => match rc (snd e) with Ok c => Ok (KClass c) | Err => Err end
       | None => Ok (KOther (snd e))
       end.

(* `remap`: names and contents *)
Definition remap_jar {C} (R : remapper) (rc : list N -> res C) (es : list (str * (bool * list N))) : res (list (str * content C)) :=
  remap_entries R (remap_content rc) es.
