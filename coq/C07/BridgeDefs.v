(* C07 — bridge to the class writer (C02), DEFINITIONS ONLY (proofs in C07/Bridge.v; the correspondence check
   [check_written] is used by C07/Run.v).

   [op_ref]: the class / field / method reference that an instruction of a C07 tree value carries as its direct
   operand, with its JVMS opcode (JVMS 6.5: new 187, anewarray 189, checkcast 192, instanceof 193, multianewarray 197
   + dimensions, getstatic 178, putstatic 179, getfield 180, putfield 181, invokevirtual 182, invokespecial 183,
   invokestatic 184, invokeinterface 185; the bool of InvokeSpecial / InvokeStatic chooses CONSTANT_InterfaceMethodref).
   [remap_oref]: what the remapper answers for it.  [cinsn_of]: the operand as C02's writer model takes it ([mutf8]:
   C02's JVMS 4.4.7 encoder).  [written_at_b] / [check_written]: the conclusion of Bridge.written_operands as a
   boolean, evaluated on the bytes duke::write_class produced for the tree remap_class returned. *)
From Coq Require Import String Ascii ZArith.
From FB Require Export C07.Tree.
From FB Require C02.Class C02.Decode.
Local Open Scope string_scope.

(* ------------------------------------------------------------------ *)
(* 1. the reference operand of an instruction *)

Inductive oref :=
| OClass (op : N) (c : str) (post : list N)          (* a CONSTANT_Class operand, and the bytes after the index *)
| OField (op : N) (c n d : str)                      (* a CONSTANT_Fieldref operand *)
| OMethod (op : N) (iface : bool) (c n d : str)      (* a CONSTANT_Methodref / CONSTANT_InterfaceMethodref operand *)
| OIface (c n d : str).                              (* invokeinterface: CONSTANT_InterfaceMethodref, count, 0 *)

Fixpoint lit (s : string) : str := match s with EmptyString => [] | String a r => N_of_ascii a :: lit r end.
Definition t_true : str := lit "true".
Definition t_false : str := lit "false".

Definition ref3_of (v : val) : option (str * str * str) :=
  match v with
  | VNode _ _ fs =>
      match str_field fs "class", str_field fs "name", str_field fs "desc" with
      | Ok c, Ok n, Ok d => Some (c, n, d)
      | _, _, _ => None
      end
  | _ => None
  end.
Definition bool_of (v : val) : option bool :=
  match v with
  | VOpaque a => if str_eqb a t_true then Some true else if str_eqb a t_false then Some false else None
  | _ => None
  end.
(* a u8 as its decimal token text *)
Fixpoint dec_digits (acc : N) (s : str) : option N :=
  match s with
  | [] => Some acc
  | c :: r => if (48 <=? c)%N && (c <=? 57)%N then dec_digits (acc * 10 + (c - 48)) r else None
  end.
Definition u8_of (v : val) : option N :=
  match v with
  | VOpaque (c :: r) => match dec_digits 0 (c :: r) with Some n => if (n <? 256)%N then Some n else None | None => None end
  | _ => None
  end.

Definition class_op (op : N) (fs : list (string * val)) (post : list N) : option oref :=
  match str_field fs "0" with Ok c => Some (OClass op c post) | Err => None end.
Definition field_op (op : N) (fs : list (string * val)) : option oref :=
  match field_of fs "0" with
  | Ok r => match ref3_of r with Some (c, n, d) => Some (OField op c n d) | None => None end
  | Err => None
  end.
Definition method_op (op : N) (iface : bool) (fs : list (string * val)) : option oref :=
  match field_of fs "0" with
  | Ok r => match ref3_of r with Some (c, n, d) => Some (OMethod op iface c n d) | None => None end
  | Err => None
  end.
Definition iface_op (fs : list (string * val)) : option oref :=
  match field_of fs "0" with
  | Ok r => match ref3_of r with Some (c, n, d) => Some (OIface c n d) | None => None end
  | Err => None
  end.
Definition iface_of (fs : list (string * val)) : option bool :=
  match field_of fs "1" with Ok b => bool_of b | Err => None end.

Definition op_ref (i : val) : option oref :=
  match i with
  | VNode n c fs =>
      if negb (n =? "Instruction") then None
      else if c =? "New" then class_op 187 fs []
      else if c =? "ANewArray" then class_op 189 fs []
      else if c =? "CheckCast" then class_op 192 fs []
      else if c =? "InstanceOf" then class_op 193 fs []
      else if c =? "MultiANewArray" then
        match field_of fs "1" with
        | Ok dv => match u8_of dv with Some dims => class_op 197 fs [dims] | None => None end
        | Err => None
        end
      else if c =? "GetStatic" then field_op 178 fs
      else if c =? "PutStatic" then field_op 179 fs
      else if c =? "GetField" then field_op 180 fs
      else if c =? "PutField" then field_op 181 fs
      else if c =? "InvokeVirtual" then method_op 182 false fs
      else if c =? "InvokeSpecial" then match iface_of fs with Some b => method_op 183 b fs | None => None end
      else if c =? "InvokeStatic" then match iface_of fs with Some b => method_op 184 b fs | None => None end
      else if c =? "InvokeInterface" then iface_op fs
      else None
  | _ => None
  end.

(* what the remapper answers for the operand *)
Definition remap_oref (R : remapper) (o : oref) : res oref :=
  match o with
  | OClass op c post => match map_class_any R c with Ok c' => Ok (OClass op c' post) | Err => Err end
  | OField op c n d => match map_field_ref R (c, n, d) with Ok (c', n', d') => Ok (OField op c' n' d') | Err => Err end
  | OMethod op b c n d => match map_method_ref R (c, n, d) with Ok (c', n', d') => Ok (OMethod op b c' n' d') | Err => Err end
  | OIface c n d => match map_method_ref R (c, n, d) with Ok (c', n', d') => Ok (OIface c' n' d') | Err => Err end
  end.

(* the operand as the writer model of C02 takes it *)
Definition mref (c n d : str) : C02.Class.memberref :=
  {| C02.Class.mr_class := C02.Class.mutf8 c; C02.Class.mr_name := C02.Class.mutf8 n; C02.Class.mr_desc := C02.Class.mutf8 d |}.
Definition cinsn_of (o : oref) : C02.Class.cinsn :=
  match o with
  | OClass op c post => C02.Class.ICp [op] (C02.Class.KClass (C02.Class.mutf8 c)) post
  | OField op c n d => C02.Class.ICp [op] (C02.Class.KField (mref c n d)) []
  | OMethod op b c n d => C02.Class.ICp [op] (if b then C02.Class.KIMethod (mref c n d) else C02.Class.KMethod (mref c n d)) []
  | OIface c n d => C02.Class.IIface (mref c n d)
  end.


(* ------------------------------------------------------------------ *)
(* the conclusion of Bridge.written_operands, executable *)

Definition nth_byte (w : list N) (k : nat) : Z := Z.of_N (nth k w 0%N).

(* the bytes [bs] stand at offset [q] of [w] *)
Definition bytes_at_b (w : list N) (q : Z) (bs : list N) : bool :=
  (0 <=? q)%Z && list_eqb N.eqb (firstn (List.length bs) (skipn (Z.to_nat q) w)) bs.

Definition obytes_eqb (a : option (list N)) (b : list N) : bool :=
  match a with Some x => list_eqb N.eqb x b | None => false end.
Definition mref_eqb (a : option C02.Class.memberref) (b : C02.Class.memberref) : bool :=
  match a with Some x => C02.Class.memberref_eqb x b | None => false end.

Definition written_at_b (cp : C02.Decode.cpool) (w : list N) (q : Z) (o : oref) : bool :=
  let x := (nth_byte w (Z.to_nat q + 1) * 256 + nth_byte w (Z.to_nat q + 2))%Z in
  match o with
  | OClass op c post =>
      bytes_at_b w q ([op] ++ C02.Model.be16 x ++ post)%list && obytes_eqb (C02.Decode.get_class cp x) (C02.Class.mutf8 c)
  | OField op c n d =>
      bytes_at_b w q ([op] ++ C02.Model.be16 x ++ [])%list && mref_eqb (C02.Decode.get_fieldref cp x) (mref c n d)
  | OMethod op b c n d =>
      bytes_at_b w q ([op] ++ C02.Model.be16 x ++ [])%list &&
      mref_eqb (if b then C02.Decode.get_imethodref cp x else C02.Decode.get_methodref cp x) (mref c n d)
  | OIface c n d =>
      (* invokeinterface: 185, the index, the count operand (1 + argument slots of the descriptor: C02's model of
         get_arguments_size, C02_invokeinterface_count), 0 *)
      let cnt := nth_byte w (Z.to_nat q + 3) in
      bytes_at_b w q (185%N :: C02.Model.be16 x ++ [C02.Model.byte_of cnt; 0%N])%list &&
      mref_eqb (C02.Decode.get_imethodref cp x) (mref c n d) &&
      match C02.Class.args_size (C02.Class.mutf8 d) with Ok k => (k =? cnt)%Z | Err => false end
  end.

Definition insn_written_b (R : remapper) (cp : C02.Decode.cpool) (w : list N) (q : Z) (i : val) : bool :=
  match op_ref i with
  | None => true
  | Some o => match remap_oref R o with Ok o' => written_at_b cp w q o' | Err => false end
  end.

Definition methods_of (v : val) : list val :=
  match v with VNode _ _ fs => match field_of fs "methods" with Ok (VList l) => l | _ => [] end | _ => [] end.
(* the instructions of a method that has code *)
Definition insns_of (m : val) : option (list val) :=
  match m with
  | VNode _ _ fs =>
      match field_of fs "code" with
      | Ok (VSome (VNode _ _ cfs)) =>
          match field_of cfs "instructions" with
          | Ok (VList es) =>
              Some (map (fun e => match e with VNode _ _ efs => match field_of efs "instruction" with Ok i => i | Err => VNone end | _ => VNone end) es)
          | _ => None
          end
      | _ => None
      end
  | _ => None
  end.
Definition code_of_member (dm : C02.Decode.dmember) : option (list N) :=
  match find (fun a => match a with C02.Decode.ACode _ => true | _ => false end) (C02.Decode.dm_attrs dm) with
  | Some (C02.Decode.ACode dc) => Some (C02.Decode.dc_code dc)
  | _ => None
  end.

Fixpoint forall3b {A B C} (f : A -> B -> C -> bool) (a : list A) (b : list B) (c : list C) : bool :=
  match a, b, c with
  | [], [], [] => true
  | x :: a', y :: b', z :: c' => f x y z && forall3b f a' b' c'
  | _, _, _ => false
  end.

(* [v]: the tree handed to remap_class; [cbytes]: duke::write_class of the tree remap_class returned; [pos]: per method
   the offsets of its instructions in the written code array (empty for a method without code).  The file must parse
   (C02's decoder: kind-checked pool, exact lengths), have the tree's methods in order, and hold at the offset of every
   instruction with a reference operand the opcode and an index designating what the remapper answers for the operand. *)
Definition check_written (R : remapper) (v : val) (cbytes : list N) (pos : list (list Z)) : bool :=
  match C02.Decode.parse_pool (skipn 8 cbytes), C02.Decode.parse_class cbytes with
  | Some (cp, _), Some d =>
      forall3b (fun m dm ps =>
                  match insns_of m, code_of_member dm with
                  | Some is, Some w => forall2b (fun i q => insn_written_b R cp w q i) is ps
                  | None, None => match ps with [] => true | _ => false end
                  | _, _ => false
                  end) (methods_of v) (C02.Decode.d_methods d) pos
  | _, _ => false
  end.
