(* C07 — WHEN DOES REMAPPING SUCCEED?  Every theorem about remap_val / spec_val is of the form "if the answer is Ok v' then …",
   and remap_val = spec_remap_val as results.  This file characterises success: for a remapper whose three methods never
   answer with an error ([total]), remapping a tree succeeds whenever remapping it with the remapper that renames nothing
   ([idR]) succeeds — that is, whenever every descriptor in the tree can be scanned (`L` is followed by a non-empty name
   and a `;`) and every record component name is a field name; these are facts about the TREE alone.  So an error of
   remap_class is either an error of the remapper or a malformed reference string in the class, which then fails for
   every remapper that has no answer for it. *)
From Coq Require Import String Lia.
From FB Require Import C07.Model C07.Spec C07.Theory C07.Tree C07.TreeTheory.
Local Open Scope string_scope.

Definition idR : remapper := mkRemapper (fun _ => Ok None) (fun _ _ _ => Ok None) (fun _ _ _ => Ok None).
Definition total (g : remapper) : Prop :=
  (forall c, rm_class g c <> Err) /\ (forall o n d, rm_field g o n d <> Err) /\ (forall o n d, rm_method g o n d <> Err).

Lemma map_class_total g c : total g -> exists c', map_class g c = Ok c'.
Proof.
  intros Ht. unfold map_class. pose proof (proj1 Ht c) as Hc.
  destruct (rm_class g c) as [[n|]|]; [exists n|exists c|contradiction]; reflexivity.
Qed.

Lemma map_desc_f_total g : total g -> forall fuel s o, map_desc_f fuel idR s = Ok o -> exists o', map_desc_f fuel g s = Ok o'.
Proof.
  intros Ht. induction fuel as [|k IH]; intros s o; cbn [map_desc_f]; [discriminate|].
  destruct s as [|c s']; [intros _; exists []; reflexivity|].
  destruct (N.eqb c chL).
  - destruct s' as [|c1 s'']; [discriminate|]. destruct (N.eqb c1 chSEMI); [discriminate|].
    destruct (take_until_semi s'') as [[n r]|]; [|discriminate].
    destruct (map_class idR (c1 :: n)) as [cn0|]; [|discriminate].
    destruct (map_desc_f k idR r) as [o0|] eqn:E; [|discriminate]. intros _.
    destruct (map_class_total g (c1 :: n) Ht) as (cn & ->). destruct (IH r o0 E) as (o' & ->). eexists. reflexivity.
  - destruct (map_desc_f k idR s') as [o0|] eqn:E; [|discriminate]. intros _. destruct (IH s' o0 E) as (o' & ->). eexists. reflexivity.
Qed.
Lemma map_desc_total g s o : total g -> map_desc idR s = Ok o -> exists o', map_desc g s = Ok o'.
Proof. intros Ht. unfold map_desc. apply map_desc_f_total. exact Ht. Qed.

Lemma map_class_any_total g c o : total g -> map_class_any idR c = Ok o -> exists o', map_class_any g c = Ok o'.
Proof.
  intros Ht. unfold map_class_any. destruct (is_array c); [apply map_desc_total; exact Ht|]. intros _. apply map_class_total. exact Ht.
Qed.

Lemma map_field_total g o n d p : total g -> map_field idR o n d = Ok p -> exists p', map_field g o n d = Ok p'.
Proof.
  intros Ht. unfold map_field, map_member. cbn [idR rm_field].
  destruct (map_desc idR d) as [d0|] eqn:E; [|discriminate]. intros _.
  pose proof (proj1 (proj2 Ht) o n d) as Hf. destruct (rm_field g o n d) as [[q|]|]; [exists q; reflexivity| |contradiction].
  destruct (map_desc_total g d d0 Ht E) as (d' & ->). eexists. reflexivity.
Qed.
Lemma map_method_total g o n d p : total g -> map_method idR o n d = Ok p -> exists p', map_method g o n d = Ok p'.
Proof.
  intros Ht. unfold map_method, map_member. cbn [idR rm_method].
  destruct (map_desc idR d) as [d0|] eqn:E; [|discriminate]. intros _.
  pose proof (proj2 (proj2 Ht) o n d) as Hf. destruct (rm_method g o n d) as [[q|]|]; [exists q; reflexivity| |contradiction].
  destruct (map_desc_total g d d0 Ht E) as (d' & ->). eexists. reflexivity.
Qed.

Lemma map_field_ref_total g x y : total g -> map_field_ref idR x = Ok y -> exists y', map_field_ref g x = Ok y'.
Proof.
  intros Ht. destruct x as [[c n] d]. unfold map_field_ref.
  destruct (map_field idR c n d) as [[n0 d0]|] eqn:E; [|discriminate]. intros _.
  destruct (map_field_total g c n d _ Ht E) as ([n1 d1] & ->). destruct (map_class_total g c Ht) as (c1 & ->). eexists. reflexivity.
Qed.
Lemma map_method_ref_total g x y : total g -> map_method_ref idR x = Ok y -> exists y', map_method_ref g x = Ok y'.
Proof.
  intros Ht. destruct x as [[c n] d]. unfold map_method_ref. destruct (is_array c) eqn:Ea.
  - destruct (map_class_any idR c) as [c0|] eqn:E; [|discriminate]. intros _.
    destruct (map_class_any_total g c c0 Ht E) as (c1 & ->). eexists. reflexivity.
  - destruct (map_method idR c n d) as [[n0 d0]|] eqn:E; [|discriminate].
    destruct (map_class_any idR c) as [c0|] eqn:E2; [|discriminate]. intros _.
    destruct (map_method_total g c n d _ Ht E) as ([n1 d1] & ->). destruct (map_class_any_total g c c0 Ht E2) as (c1 & ->). eexists. reflexivity.
Qed.

Lemma remap_enclosing_total g c m y : total g -> remap_enclosing idR c m = Ok y -> exists y', remap_enclosing g c m = Ok y'.
Proof.
  intros Ht. unfold remap_enclosing. destruct m as [[n d]|].
  - destruct (map_method_ref idR (c, n, d)) as [[[c0 n0] d0]|] eqn:E; [|discriminate]. intros _.
    destruct (map_method_ref_total g _ _ Ht E) as ([[c1 n1] d1] & ->). eexists. reflexivity.
  - destruct (map_class_any idR c) as [c0|] eqn:E; [|discriminate]. intros _.
    destruct (map_class_any_total g c c0 Ht E) as (c1 & ->). eexists. reflexivity.
Qed.
Lemma remap_enum_const_total g t c y : total g -> remap_enum_const idR t c = Ok y -> exists y', remap_enum_const g t c = Ok y'.
Proof.
  intros Ht. unfold remap_enum_const. destruct (C18.Model.parse_field t) as [ty|]; [|intros _; eexists; reflexivity].
  destruct ty as [| | | | | | | |cls|]; try (intros _; eexists; reflexivity).
  destruct (C18.Model.is_valid_unqualified_name c); [|intros _; eexists; reflexivity].
  destruct (map_field idR cls c t) as [[n0 d0]|] eqn:E; [|discriminate]. intros _.
  destruct (map_field_total g cls c t _ Ht E) as ([n1 d1] & ->). eexists. reflexivity.
Qed.

Definition leaf_mono (f g : remapper) : Prop := forall m x y, apply_leaf f m x = Ok y -> exists y', apply_leaf g m x = Ok y'.
Definition pos_mono (f g : remapper) : Prop := forall m ctx sib x y, apply_pos f m ctx sib x = Ok y -> exists y', apply_pos g m ctx sib x = Ok y'.

Lemma apply_str_mono (F G : str -> res str) : (forall s o, F s = Ok o -> exists o', G s = Ok o') ->
  forall x y, apply_str F x = Ok y -> exists y', apply_str G x = Ok y'.
Proof.
  intros H x y. destruct x as [s| | | | | |]; try discriminate. cbn [apply_str].
  destruct (F s) as [o|] eqn:E; [|discriminate]. intros _. destruct (H s o E) as (o' & ->). eexists. reflexivity.
Qed.
Lemma apply_ref_mono (F G : ref3 -> res ref3) : (forall s o, F s = Ok o -> exists o', G s = Ok o') ->
  forall x y, apply_ref F x = Ok y -> exists y', apply_ref G x = Ok y'.
Proof.
  intros H x y. destruct x as [| |n c fs| | | |]; try discriminate. cbn [apply_ref].
  destruct (str_field fs "class") as [cl|]; [|discriminate]. destruct (str_field fs "name") as [nm|]; [|discriminate].
  destruct (str_field fs "desc") as [d|]; [|discriminate].
  destruct (F (cl, nm, d)) as [o|] eqn:E; [|discriminate]. intros _. destruct (H _ o E) as ([[a b] c0] & ->). eexists. reflexivity.
Qed.

Lemma leaf_mono_total g : total g -> leaf_mono idR g.
Proof.
  intros Ht m x y. destruct m; cbn [apply_leaf]; try discriminate.
  - apply apply_str_mono. intros s o _. apply map_class_total. exact Ht.
  - apply apply_str_mono. intros s o. apply map_class_any_total. exact Ht.
  - apply apply_str_mono. intros s o. apply map_desc_total. exact Ht.
  - apply apply_str_mono. intros s o. apply map_desc_total. exact Ht.
  - apply apply_str_mono. intros s o. apply map_desc_total. exact Ht.
  - apply apply_ref_mono. intros s o. apply map_field_ref_total. exact Ht.
  - apply apply_ref_mono. intros s o. apply map_method_ref_total. exact Ht.
Qed.

Lemma decl_map_total g d this n ds p : total g -> decl_map d idR this n ds = Ok p -> exists p', decl_map d g this n ds = Ok p'.
Proof.
  intros Ht. destruct d; cbn [decl_map].
  - apply map_field_total. exact Ht.
  - apply map_method_total. exact Ht.
  - destruct (C18.Model.is_valid_unqualified_name n); [apply map_field_total; exact Ht|discriminate].
Qed.

Lemma pos_mono_total g : total g -> pos_mono idR g.
Proof.
  intros Ht m ctx sib x y. destruct m; cbn [apply_pos]; try discriminate.
  - destruct x; try discriminate. destruct ctx as [this|]; try discriminate.
    destruct (str_field sib "name") as [n|]; [|discriminate]. destruct (str_field sib "descriptor") as [ds|]; [|discriminate].
    destruct (decl_map d idR this n ds) as [[n0 d0]|] eqn:E; [|discriminate]. intros _.
    destruct (decl_map_total g d this n ds _ Ht E) as ([n1 d1] & ->). eexists. reflexivity.
  - destruct x; try discriminate. destruct ctx as [this|]; try discriminate.
    destruct (str_field sib "name") as [n|]; [|discriminate]. destruct (str_field sib "descriptor") as [ds|]; [|discriminate].
    destruct (decl_map d idR this n ds) as [[n0 d0]|] eqn:E; [|discriminate]. intros _.
    destruct (decl_map_total g d this n ds _ Ht E) as ([n1 d1] & ->). eexists. reflexivity.
  - destruct (get_str x) as [c|]; [|discriminate].
    destruct (match field_of sib "method" with Ok mv => member_of mv | Err => Err end) as [mm|]; [|discriminate].
    destruct (remap_enclosing idR c mm) as [[c0 m0]|] eqn:E; [|discriminate]. intros _.
    destruct (remap_enclosing_total g c mm _ Ht E) as ([c1 m1] & ->). eexists. reflexivity.
  - destruct (str_field sib "class") as [c|]; [|discriminate]. destruct (member_of x) as [mm|] eqn:Em; [|discriminate].
    destruct (remap_enclosing idR c mm) as [[c0 m0]|] eqn:E; [|discriminate].
    destruct (remap_enclosing_total g c mm _ Ht E) as ([c1 m1] & E1). rewrite E1.
    (* the shape of the answer follows the shape of the question *)
    unfold remap_enclosing in E, E1. destruct mm as [[n d]|].
    + destruct (map_method_ref idR (c, n, d)) as [[[a1 a2] a3]|]; [|discriminate]. injection E as <- <-.
      destruct (map_method_ref g (c, n, d)) as [[[b1 b2] b3]|]; [|discriminate]. injection E1 as <- <-.
      destruct x as [| | | | |x0|]; try (intros HH; discriminate HH). destruct x0; try (intros HH; discriminate HH). intros _. eexists. reflexivity.
    + destruct (map_class_any idR c); [|discriminate]. injection E as <- <-.
      destruct (map_class_any g c); [|discriminate]. injection E1 as <- <-.
      destruct x as [| | | | |x0|]; try (intros HH; discriminate HH); [intros _; eexists; reflexivity|destruct x0; intros HH; discriminate HH].
  - destruct x as [c| | | | | |]; try discriminate. destruct (str_field sib "type_name") as [t|]; [|discriminate].
    destruct (remap_enum_const idR t c) as [c0|] eqn:E; [|discriminate]. intros _.
    destruct (remap_enum_const_total g t c _ Ht E) as (c1 & ->). eexists. reflexivity.
Qed.

Lemma mapM_ok_mono {A B} (F G : A -> res B) l :
  Forall (fun x => forall y, F x = Ok y -> exists y', G x = Ok y') l ->
  forall l1, mapM F l = Ok l1 -> exists l2, mapM G l = Ok l2.
Proof.
  induction 1 as [|x l Hx _ IH]; intros l1; [intros _; exists []; reflexivity|].
  rewrite !mapM_cons. destruct (F x) as [y|] eqn:E; [|discriminate]. destruct (mapM F l) as [r|] eqn:Er; [|discriminate]. intros _.
  destruct (Hx y eq_refl) as (y' & ->). destruct (IH r eq_refl) as (r' & ->). eexists. reflexivity.
Qed.

(* success is monotone in the leaf applications: the recursion of the specification hands the same class names and the
   same (original) siblings down, whatever the remapper *)
Lemma spec_val_ok_mono defs S f g : leaf_mono f g -> pos_mono f g ->
  forall v T ctx w1, spec_val defs S f ctx T v = Ok w1 -> exists w2, spec_val defs S g ctx T v = Ok w2.
Proof.
  intros HL HP. induction v using val_ind2; intros T ctx w1 Hs;
    (destruct (mentions S T) eqn:Em; [|rewrite spec_val_nomention by exact Em; eexists; reflexivity]).
  1,2,5: (destruct T as [p|n| |n a|a|a|a b]; try discriminate;
          [rewrite spec_val_name, Em in Hs |- *; cbn [negb] in Hs |- *;
           destruct (leaf_method n); [exact (HL _ _ _ Hs)|destruct (needs_owner n); discriminate]
          |rewrite spec_val_app, Em in Hs; discriminate
          |rewrite spec_val_opt in Hs |- *; cbn [mentions] in Em; rewrite Em in Hs |- *; cbn [negb] in Hs |- *; try discriminate;
           eexists; reflexivity
          |rewrite spec_val_vec in Hs; cbn [mentions] in Em; rewrite Em in Hs; discriminate
          |rewrite spec_val_pair, Em in Hs; discriminate]).
  - (* node *)
    assert (Hnode : forall n0 ctx0, spec_node defs S f ctx0 n0 (VNode n c fs) = Ok w1 -> exists w2, spec_node defs S g ctx0 n0 (VNode n c fs) = Ok w2).
    { intros n0 ctx0. unfold spec_node. destruct (String.eqb n n0); [|discriminate].
      destruct (node_fields defs n0 c) as [fts|]; [|discriminate].
      destruct (spec_fields defs S f ctx0 n0 c fts fs) as [fs'|] eqn:Ef; [|discriminate]. intros _.
      unfold spec_fields in Ef |- *.
      assert (Haux : forall (sib : list (string * val)) (o : option str) (l : list (string * val)),
                 Forall (fun p => forall T ctx w1, spec_val defs S f ctx T (snd p) = Ok w1 -> exists w2, spec_val defs S g ctx T (snd p) = Ok w2) l ->
                 Forall (fun p => forall y,
                            match lookup_ty fts (fst p) with
                            | None => Err
                            | Some t =>
                                match (match position_method (pseudo_row n0 c (fst p) t) with
                                       | Some m => apply_pos f m o sib (snd p)
                                       | None => spec_val defs S f o t (snd p)
                                       end) with
                                | Ok y => Ok (fst p, y)
                                | Err => Err
                                end
                            end = Ok y ->
                            exists y',
                            match lookup_ty fts (fst p) with
                            | None => Err
                            | Some t =>
                                match (match position_method (pseudo_row n0 c (fst p) t) with
                                       | Some m => apply_pos g m o sib (snd p)
                                       | None => spec_val defs S g o t (snd p)
                                       end) with
                                | Ok y => Ok (fst p, y)
                                | Err => Err
                                end
                            end = Ok y') l).
      { intros sib o l HF. induction HF as [|p l Hp _ IH]; constructor; [|exact IH].
        intros y. destruct (lookup_ty fts (fst p)) as [t|]; [|discriminate].
        destruct (position_method (pseudo_row n0 c (fst p) t)) as [m|].
        + destruct (apply_pos f m o sib (snd p)) as [z|] eqn:Ez; [|discriminate]. intros _.
          destruct (HP _ _ _ _ _ Ez) as (z' & ->). eexists. reflexivity.
        + destruct (spec_val defs S f o t (snd p)) as [z|] eqn:Ez; [|discriminate]. intros _.
          destruct (Hp _ _ _ Ez) as (z' & ->). eexists. reflexivity. }
      destruct (mapM_ok_mono _ _ fs (Haux fs (self_ctx n0 ctx0 fs) fs H) fs' Ef) as (fs2 & ->). eexists. reflexivity. }
    destruct T as [p|n0| |n0 a|a|a|a b]; try discriminate.
    + rewrite spec_val_name, Em in Hs |- *. cbn [negb] in Hs |- *.
      destruct (leaf_method n0); [exact (HL _ _ _ Hs)|]. destruct (needs_owner n0); [discriminate|]. exact (Hnode _ _ Hs).
    + rewrite spec_val_app, Em in Hs |- *. cbn [negb] in Hs |- *. exact (Hnode _ _ Hs).
    + rewrite spec_val_opt in Hs. cbn [mentions] in Em. rewrite Em in Hs. discriminate.
    + rewrite spec_val_vec in Hs. cbn [mentions] in Em. rewrite Em in Hs. discriminate.
    + rewrite spec_val_pair, Em in Hs. discriminate.
  - (* list *)
    destruct T as [p|n0| |n0 a|a|a|a b]; try discriminate.
    + rewrite spec_val_name, Em in Hs |- *. cbn [negb] in Hs |- *.
      destruct (leaf_method n0); [exact (HL _ _ _ Hs)|destruct (needs_owner n0); discriminate].
    + rewrite spec_val_app, Em in Hs. discriminate.
    + rewrite spec_val_opt in Hs. cbn [mentions] in Em. rewrite Em in Hs. discriminate.
    + rewrite spec_val_vec in Hs |- *. cbn [mentions] in Em. rewrite Em in Hs |- *. cbn [negb] in Hs |- *.
      destruct (mapM (spec_val defs S f ctx a) l) as [l'|] eqn:El; [|discriminate].
      destruct (mapM_ok_mono (spec_val defs S f ctx a) (spec_val defs S g ctx a) l) with (l1 := l') as (l2 & ->); [|exact El|eexists; reflexivity].
      clear El. induction H as [|x l0 Hx _ IH]; constructor; [|exact IH]. intros y Hy. exact (Hx _ _ _ Hy).
    + rewrite spec_val_pair, Em in Hs. discriminate.
  - (* some *)
    destruct T as [p|n0| |n0 a|a|a|a b]; try discriminate.
    + rewrite spec_val_name, Em in Hs |- *. cbn [negb] in Hs |- *.
      destruct (leaf_method n0); [exact (HL _ _ _ Hs)|destruct (needs_owner n0); discriminate].
    + rewrite spec_val_app, Em in Hs. discriminate.
    + rewrite spec_val_opt in Hs |- *. cbn [mentions] in Em. rewrite Em in Hs |- *. cbn [negb] in Hs |- *.
      destruct (spec_val defs S f ctx a v) as [y|] eqn:Ey; [|discriminate].
      destruct (IHv _ _ _ Ey) as (y' & ->). eexists. reflexivity.
    + rewrite spec_val_vec in Hs. cbn [mentions] in Em. rewrite Em in Hs. discriminate.
    + rewrite spec_val_pair, Em in Hs. discriminate.
  - (* pair *)
    destruct T as [p|n0| |n0 a0|a0|a0|a0 b0]; try discriminate.
    + rewrite spec_val_name, Em in Hs |- *. cbn [negb] in Hs |- *.
      destruct (leaf_method n0); [exact (HL _ _ _ Hs)|destruct (needs_owner n0); discriminate].
    + rewrite spec_val_app, Em in Hs. discriminate.
    + rewrite spec_val_opt in Hs. cbn [mentions] in Em. rewrite Em in Hs. discriminate.
    + rewrite spec_val_vec in Hs. cbn [mentions] in Em. rewrite Em in Hs. discriminate.
    + rewrite spec_val_pair, Em in Hs |- *. cbn [negb] in Hs |- *.
      destruct (spec_val defs S f ctx a0 v1) as [x'|] eqn:E1; [|discriminate].
      destruct (spec_val defs S f ctx b0 v2) as [y'|] eqn:E2; [|discriminate].
      destruct (IHv1 _ _ _ E1) as (x2 & ->). destruct (IHv2 _ _ _ E2) as (y2 & ->). eexists. reflexivity.
Qed.

(* for the interpreter of the regenerated table *)
Theorem remap_val_total (g : remapper) (ctx : option str) (T : rty) (v v0 : val) :
  total g ->
  deleg_ok gen_table (ref_types type_defs) T = true -> has_ty type_defs T v = true ->
  remap_val gen_table idR ctx T v = Ok v0 ->
  exists v', remap_val gen_table g ctx T v = Ok v'.
Proof.
  intros Ht Hd Hty. rewrite !(remap_val_spec_full _ ctx T v Hd Hty). unfold spec_remap_val.
  apply spec_val_ok_mono; [apply leaf_mono_total|apply pos_mono_total]; exact Ht.
Qed.
Theorem remap_class_total (g : remapper) (v v0 : val) :
  total g -> has_ty type_defs class_ty v = true ->
  remap_val gen_table idR None class_ty v = Ok v0 ->
  exists v', remap_val gen_table g None class_ty v = Ok v'.
Proof. intros Ht Hty. exact (remap_val_total g None class_ty v v0 Ht class_deleg_ok Hty). Qed.

(* non-vacuity: ex_R (C07/Theory.v) and idR are total; the example class is remapped by idR, hence by ex_R *)
Definition total_example : Prop :=
  total ex_R /\ total idR /\
  (exists v0, remap_val gen_table idR None class_ty (ex_class_of "a/A" "f" "b/B" "f") = Ok v0) /\
  (exists v', remap_val gen_table ex_R None class_ty (ex_class_of "a/A" "f" "b/B" "f") = Ok v').
Lemma total_example_holds : total_example.
Proof.
  assert (T1 : total ex_R) by (repeat split; intros; cbn; discriminate).
  assert (T2 : total idR) by (repeat split; intros; cbn; discriminate).
  assert (H0 : exists v0, remap_val gen_table idR None class_ty (ex_class_of "a/A" "f" "b/B" "f") = Ok v0)
    by (eexists; vm_compute; reflexivity).
  split; [exact T1|]. split; [exact T2|]. split; [exact H0|].
  destruct H0 as (v0 & H0).
  assert (Hty : has_ty type_defs class_ty (ex_class_of "a/A" "f" "b/B" "f") = true) by (vm_compute; reflexivity).
  exact (remap_class_total ex_R _ v0 T1 Hty H0).
Qed.
