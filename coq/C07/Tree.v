(* C07 — whole trees.  Definitions only (proofs in C07/TreeTheory.v).

   1. [val]: a universe of tree values typed by the schema the translator emits ([type_defs]:
      duke's struct / enum / string-newtype definitions), and the typing judgement [has_ty].
   2. [remap_val]: the GENERIC INTERPRETER of a table (type definitions, impl kinds, rows) — what
      dukebox/src/remap.rs does to a whole tree according to the table: `.remap` /
      `.remap_with_class_name` dispatch on the impl of the value's type (Option / Vec element-wise,
      leaf impl = the remapper method, identity impl, field-wise impl = one row per field), the
      class name handed down as the rows say (`&self.name` of ClassFile / `this_class` passed on /
      not available below a plain `.remap`), the joint positions (a declared member's name and
      descriptor from ONE map_field / map_method call with the declaring class; EnclosingMethod's
      class and method from one map_method_ref; an enum constant's name from map_field on the
      class its sibling type_name names), `Vec::new()` / `None` for dropped fields.
   3. [spec_remap_val]: the SPECIFICATION, by recursion on the value directed by its TYPE, using only
      the hand-written C07/Spec.v (which types are leaf references and with which remapper method,
      which positions are references only with their context, what is excluded) and the type
      definitions — never the rows or the impl kinds: every reference position anywhere in the tree
      holds what the appropriate remapper method answers, everything else is the input.
   Both use the models of the remapper's default methods of C07/Model.v (map_class, map_desc,
   map_field_ref, …) — the meaning of "what the remapper answers". *)
From Coq Require Import String.
From FB Require C18.Model.
From FB Require Export C07.Model C07.Spec.
Local Open Scope string_scope.

(* ------------------------------------------------------------------ *)
(* 1. values *)

Inductive val :=
| VStr (s : str)                                  (* a string: class name, descriptor, member name, JavaString *)
| VOpaque (s : str)                               (* any other primitive (number, bool, …) as its token text *)
| VNode (n c : string) (fs : list (string * val)) (* struct n (c = "") or variant c of enum n; fields / payloads by name *)
| VList (l : list val)                            (* Vec *)
| VNone                                           (* Option *)
| VSome (v : val)
| VPair (a b : val).                              (* tuple of two *)

Record table := mkTable {
  t_defs : list tdef;
  t_impls : list (string * impl_kind);
  t_rows : list row }.

(* the table regenerated from the source *)
Definition gen_table : table := mkTable type_defs impls rows.

Definition lookup_def (defs : list tdef) (n : string) : option tdef :=
  find (fun d => String.eqb (def_name d) n) defs.
Definition lookup_impl (tb : table) (n : string) : option impl_kind :=
  match find (fun p => String.eqb (fst p) n) (t_impls tb) with Some p => Some (snd p) | None => None end.
Definition lookup_row (tb : table) (t c f : string) : option row :=
  find (fun r => at_pos r t c f) (t_rows tb).

(* the fields of struct n (c = "") / the payload of variant c of enum n, with their declared types.
   The argument of a generic type (TypeAnnotation<T>) is not substituted: a field of type T is
   opaque to `impl<T> Mappable for TypeAnnotation<T>` and to the specification alike
   ([targs_carry_no_refs] in TreeTheory.v: no type argument in the tree carries a reference). *)
Definition node_fields (defs : list tdef) (n c : string) : option (list (string * rty)) :=
  match lookup_def defs n with
  | Some (DStruct _ fs) => if String.eqb c "" then Some (map (fun f => (fst (fst f), snd (fst f))) fs) else None
  | Some (DEnum _ vs) =>
      match find (fun v => String.eqb (fst v) c) vs with
      | Some v => Some (snd v)
      | None => None
      end
  | _ => None
  end.

Definition lookup_ty (fts : list (string * rty)) (f : string) : option rty :=
  match find (fun p => String.eqb (fst p) f) fts with Some p => Some (snd p) | None => None end.

Definition strs_eqb (a b : list string) : bool := list_eqb String.eqb a b.

(* well-typed values *)
Fixpoint has_ty (defs : list tdef) (T : rty) (v : val) {struct v} : bool :=
  match T with
  | TPrim _ => match v with VStr _ | VOpaque _ => true | _ => false end
  | TParam => true
  | TOpt a => match v with VNone => true | VSome x => has_ty defs a x | _ => false end
  | TVec a => match v with VList l => forallb (has_ty defs a) l | _ => false end
  | TPair a b => match v with VPair x y => has_ty defs a x && has_ty defs b y | _ => false end
  | TName n | TApp n _ =>
      match lookup_def defs n with
      | Some (DStr _) => match v with VStr _ => true | _ => false end
      | Some _ =>
          match v with
          | VNode n' c fs =>
              String.eqb n' n &&
              match node_fields defs n c with
              | Some fts =>
                  strs_eqb (map fst fs) (map fst fts) &&
                  forallb (fun p => match lookup_ty fts (fst p) with
                                    | Some t => has_ty defs t (snd p)
                                    | None => false
                                    end) fs
              | None => false
              end
          | _ => false
          end
      | None => false
      end
  end.

(* ------------------------------------------------------------------ *)
(* what a remapper method does to one value *)

Definition mapM {A B} (f : A -> res B) : list A -> res (list B) :=
  fix go (l : list A) : res (list B) :=
    match l with
    | [] => Ok []
    | x :: l' => match f x, go l' with Ok y, Ok r => Ok (y :: r) | _, _ => Err end
    end.

Definition field_of (fs : list (string * val)) (f : string) : res val :=
  match find (fun p => String.eqb (fst p) f) fs with Some p => Ok (snd p) | None => Err end.
Definition str_field (fs : list (string * val)) (f : string) : res str :=
  match field_of fs f with Ok (VStr s) => Ok s | _ => Err end.
(* the first field of that name *)
Fixpoint set_field (f : string) (x : val) (fs : list (string * val)) : list (string * val) :=
  match fs with
  | [] => []
  | p :: r => if String.eqb (fst p) f then (fst p, x) :: r else p :: set_field f x r
  end.

Definition get_str (v : val) : res str := match v with VStr s => Ok s | _ => Err end.

Definition apply_str (g : str -> res str) (v : val) : res val :=
  match v with
  | VStr s => match g s with Ok s' => Ok (VStr s') | Err => Err end
  | _ => Err
  end.

(* FieldRef / MethodRef: class, name, desc *)
Definition apply_ref (g : ref3 -> res ref3) (v : val) : res val :=
  match v with
  | VNode n c fs =>
      match str_field fs "class", str_field fs "name", str_field fs "desc" with
      | Ok cl, Ok nm, Ok d =>
          match g (cl, nm, d) with
          | Ok (cl', nm', d') =>
              Ok (VNode n c (set_field "class" (VStr cl') (set_field "name" (VStr nm') (set_field "desc" (VStr d') fs))))
          | Err => Err
          end
      | _, _, _ => Err
      end
  | _ => Err
  end.

Definition is_leaf_meth (m : meth) : bool :=
  match m with
  | MClass | MClassAny | MFieldDesc | MMethodDesc | MReturnDesc | MFieldRef | MMethodRef => true
  | _ => false
  end.

(* a reference that is answerable on its own: the remapper method applied to it *)
Definition apply_leaf (R : remapper) (m : meth) (v : val) : res val :=
  match m with
  | MClass => apply_str (map_class R) v
  | MClassAny => apply_str (map_class_any R) v
  | MFieldDesc | MMethodDesc | MReturnDesc => apply_str (map_desc R) v
  | MFieldRef => apply_ref (map_field_ref R) v
  | MMethodRef => apply_ref (map_method_ref R) v
  | _ => Err
  end.

(* Option<MethodNameAndDesc> *)
Definition member_of (v : val) : res (option member) :=
  match v with
  | VNone => Ok None
  | VSome (VNode _ _ fs) =>
      match str_field fs "name", str_field fs "desc" with
      | Ok n, Ok d => Ok (Some (n, d))
      | _, _ => Err
      end
  | _ => Err
  end.

(* the call behind a declared member: map_field / map_method with the declaring class; a record
   component is the field of its name (FieldName::try_from on the name fails when it is no field name) *)
Definition decl_map (d : decl) (R : remapper) (this n ds : str) : res member :=
  match d with
  | DField => map_field R this n ds
  | DMethod => map_method R this n ds
  | DRecord => if C18.Model.is_valid_unqualified_name n then map_field R this n ds else Err
  end.

(* a reference that is answerable only together with its context: [x] is the value at the
   position, [sib] the (original) fields of the struct / variant it stands in, [ctx] the
   (original) name of the declaring class *)
Definition apply_pos (R : remapper) (m : meth) (ctx : option str) (sib : list (string * val)) (x : val) : res val :=
  match m with
  | MDeclName d | MDeclDesc d =>
      match x, ctx, str_field sib "name", str_field sib "descriptor" with
      | VStr _, Some this, Ok n, Ok ds =>
          match decl_map d R this n ds with
          | Ok (n', d') => Ok (VStr (match m with MDeclName _ => n' | _ => d' end))
          | Err => Err
          end
      | _, _, _, _ => Err
      end
  | MEnclClass =>
      (* `class: method_ref.class` / `class: remapper.map_class_any(&self.class)?` *)
      match get_str x, (match field_of sib "method" with Ok mv => member_of mv | Err => Err end) with
      | Ok c, Ok mm => match remap_enclosing R c mm with Ok (c', _) => Ok (VStr c') | Err => Err end
      | _, _ => Err
      end
  | MEnclMethod =>
      (* `method: Some(MethodNameAndDesc { name: method_ref.name, desc: method_ref.desc })` / `method: None` *)
      match str_field sib "class", member_of x with
      | Ok c, Ok mm =>
          match remap_enclosing R c mm with
          | Ok (_, mm') =>
              match x, mm' with
              | VNone, None => Ok VNone
              | VSome (VNode n k fs), Some (n', d') =>
                  Ok (VSome (VNode n k (set_field "name" (VStr n') (set_field "desc" (VStr d') fs))))
              | _, _ => Err
              end
          | Err => Err
          end
      | _, _ => Err
      end
  | MEnumConst =>
      match x, str_field sib "type_name" with
      | VStr c, Ok t => match remap_enum_const R t c with Ok c' => Ok (VStr c') | Err => Err end
      | _, _ => Err
      end
  | _ => Err
  end.

(* `&self.name` *)
Definition name_ctx (fs : list (string * val)) : option str :=
  match str_field fs "name" with Ok s => Some s | Err => None end.

(* ------------------------------------------------------------------ *)
(* 2. the interpreter of a table *)

(* the class name available in the callee *)
Definition pass_ctx (k : cls_arg) (ctx : option str) (fs : list (string * val)) : option str :=
  match k with
  | CNone => None                (* `.remap(remapper)`: the callee has no this_class *)
  | CThisClass => ctx            (* `.remap_with_class_name(remapper, this_class)` *)
  | CSelfName => name_ctx fs     (* `.remap_with_class_name(remapper, &self.name)` *)
  end.

(* `None` / `Vec::new()` *)
Definition empty_of (t : rty) : res val :=
  match t with TOpt _ => Ok VNone | TVec _ => Ok (VList []) | _ => Err end.

Fixpoint remap_val (tb : table) (R : remapper) (ctx : option str) (T : rty) (v : val) {struct v} : res val :=
  match T with
  | TOpt a =>
      match v with
      | VNone => Ok VNone
      | VSome x => match remap_val tb R ctx a x with Ok y => Ok (VSome y) | Err => Err end
      | _ => Err
      end
  | TVec a =>
      match v with
      | VList l => match mapM (remap_val tb R ctx a) l with Ok l' => Ok (VList l') | Err => Err end
      | _ => Err
      end
  | TName n | TApp n _ =>
      match lookup_impl tb n with
      | Some (ILeaf m) => apply_leaf R m v
      | Some IIdentity => Ok v
      | Some (IFields _) =>
          match v with
          | VNode n' c fs =>
              if String.eqb n' n then
                match mapM (fun p =>
                              match (match lookup_row tb n c (fst p) with
                                     | None => Err
                                     | Some r =>
                                         match r_act r with
                                         | Copied => Ok (snd p)
                                         | Dropped => empty_of (r_ty r)
                                         | Remapped (MRec k) => remap_val tb R (pass_ctx k ctx fs) (r_ty r) (snd p)
                                         | Remapped m => if is_leaf_meth m then apply_leaf R m (snd p) else apply_pos R m ctx fs (snd p)
                                         end
                                     end) with
                              | Ok y => Ok (fst p, y)
                              | Err => Err
                              end) fs with
                | Ok fs' => Ok (VNode n' c fs')
                | Err => Err
                end
              else Err
          | _ => Err
          end
      | None => Err      (* no impl: `.remap` does not exist for this type *)
      end
  | _ => Err
  end.

(* ------------------------------------------------------------------ *)
(* 3. the specification *)

Definition pseudo_row (n c f : string) (t : rty) : row := mkRow n c f t Copied.

(* the declaring class of everything inside a ClassFile is that ClassFile's (original) name *)
Definition self_ctx (n : string) (ctx : option str) (fs : list (string * val)) : option str :=
  if String.eqb n "ClassFile" then name_ctx fs else ctx.

(* [S]: the names of the reference-carrying types ([ref_types defs]) *)
Fixpoint spec_val (defs : list tdef) (S : list string) (R : remapper) (ctx : option str) (T : rty) (v : val)
         {struct v} : res val :=
  if negb (mentions S T) then Ok v      (* a type that carries no reference: the value as it is *)
  else
    match T with
    | TPrim _ | TParam => Ok v
    | TOpt a =>
        match v with
        | VNone => Ok VNone
        | VSome x => match spec_val defs S R ctx a x with Ok y => Ok (VSome y) | Err => Err end
        | _ => Err
        end
    | TVec a =>
        match v with
        | VList l => match mapM (spec_val defs S R ctx a) l with Ok l' => Ok (VList l') | Err => Err end
        | _ => Err
        end
    | TPair a b =>
        match v with
        | VPair x y =>
            match spec_val defs S R ctx a x, spec_val defs S R ctx b y with
            | Ok x', Ok y' => Ok (VPair x' y')
            | _, _ => Err
            end
        | _ => Err
        end
    | TName n | TApp n _ =>
        match (match T with TName _ => leaf_method n | _ => None end) with
        | Some m => apply_leaf R m v          (* a leaf reference: the remapper method appropriate for its type *)
        | None =>
            if (match T with TName _ => needs_owner n | _ => false end)
            then Err                          (* a name-and-type pair without a position rule: not answerable *)
            else
              match v with
              | VNode n' c fs =>
                  if String.eqb n' n then
                    match node_fields defs n c with
                    | None => Err
                    | Some fts =>
                        match mapM (fun p =>
                                      match lookup_ty fts (fst p) with
                                      | None => Err
                                      | Some t =>
                                          match (match position_method (pseudo_row n c (fst p) t) with
                                                 | Some m => apply_pos R m (self_ctx n ctx fs) fs (snd p)
                                                 | None => spec_val defs S R (self_ctx n ctx fs) t (snd p)
                                                 end) with
                                          | Ok y => Ok (fst p, y)
                                          | Err => Err
                                          end
                                      end) fs with
                        | Ok fs' => Ok (VNode n' c fs')
                        | Err => Err
                        end
                    end
                  else Err
              | _ => Err
              end
        end
    end.

Definition spec_remap_val (defs : list tdef) (R : remapper) (ctx : option str) (T : rty) (v : val) : res val :=
  spec_val defs (ref_types defs) R ctx T v.

(* ------------------------------------------------------------------ *)
(* values without anything at the positions of the known findings *)

Definition is_empty (v : val) : bool :=
  match v with VNone => true | VList [] => true | _ => false end.

Fixpoint clean (tb : table) (known : row -> bool) (v : val) {struct v} : bool :=
  match v with
  | VNode n c fs =>
      forallb (fun p =>
                 (match lookup_row tb n c (fst p) with
                  | Some r => if known r then is_empty (snd p) else true
                  | None => true
                  end) && clean tb known (snd p)) fs
  | VList l => forallb (clean tb known) l
  | VSome x => clean tb known x
  | VPair a b => clean tb known a && clean tb known b
  | _ => true
  end.

Definition forall2b {A B} (f : A -> B -> bool) : list A -> list B -> bool :=
  fix go (l : list A) (l' : list B) : bool :=
    match l, l' with
    | [], [] => true
    | x :: r, y :: r' => f x y && go r r'
    | _, _ => false
    end.

(* same constructors, same struct / variant / field names, same list lengths, identical opaque
   leaves; strings may differ *)
Fixpoint same_shape (a b : val) {struct a} : bool :=
  match a, b with
  | VStr _, VStr _ => true
  | VOpaque s, VOpaque t => str_eqb s t
  | VNode n c fs, VNode n' c' fs' =>
      String.eqb n n' && String.eqb c c' &&
      forall2b (fun p q => String.eqb (fst p) (fst q) && same_shape (snd p) (snd q)) fs fs'
  | VList l, VList l' => forall2b same_shape l l'
  | VNone, VNone => true
  | VSome x, VSome y => same_shape x y
  | VPair x y, VPair x' y' => same_shape x x' && same_shape y y'
  | _, _ => false
  end.

Fixpoint val_eqb (a b : val) {struct a} : bool :=
  match a, b with
  | VStr s, VStr t => str_eqb s t
  | VOpaque s, VOpaque t => str_eqb s t
  | VNode n c fs, VNode n' c' fs' =>
      String.eqb n n' && String.eqb c c' &&
      forall2b (fun p q => String.eqb (fst p) (fst q) && val_eqb (snd p) (snd q)) fs fs'
  | VList l, VList l' => forall2b val_eqb l l'
  | VNone, VNone => true
  | VSome x, VSome y => val_eqb x y
  | VPair x y, VPair x' y' => val_eqb x x' && val_eqb y y'
  | _, _ => false
  end.

(* the opaque leaves of a value, in order (flags, constants, line numbers, label ids, …) *)
Fixpoint opaques (v : val) {struct v} : list str :=
  match v with
  | VStr _ => []
  | VOpaque s => [s]
  | VNode _ _ fs => flat_map (fun p => opaques (snd p)) fs
  | VList l => flat_map opaques l
  | VNone => []
  | VSome x => opaques x
  | VPair a b => opaques a ++ opaques b
  end.
