(* C07 — proofs.
   Part A: finite statements about the table regenerated from dukebox/src/remap.rs and duke/src/tree
           (vm_compute + forallb_forall: re-proved against the current source on every run).
   Part B: statements about the hand model for all inputs (remapper default methods, entry names,
           the entry loop). *)
From Coq Require Import String Lia.
From FB Require Import C07.Model C07.Spec.

(* ------------------------------------------------------------------ *)
(* decidable equality of actions *)
Definition cls_arg_eq_dec : forall a b : cls_arg, {a = b} + {a <> b}. Proof. decide equality. Defined.
Definition decl_eq_dec : forall a b : decl, {a = b} + {a <> b}. Proof. decide equality. Defined.
Definition meth_eq_dec : forall a b : meth, {a = b} + {a <> b}.
Proof. decide equality; try apply decl_eq_dec; apply cls_arg_eq_dec. Defined.
Definition action_eq_dec : forall a b : action, {a = b} + {a <> b}.
Proof. decide equality; apply meth_eq_dec. Defined.
Definition action_eqb (a b : action) : bool := if action_eq_dec a b then true else false.
Lemma action_eqb_eq a b : action_eqb a b = true <-> a = b.
Proof. unfold action_eqb. destruct (action_eq_dec a b); split; congruence. Qed.
Definition impl_eq_dec : forall a b : impl_kind, {a = b} + {a <> b}.
Proof. decide equality; try apply meth_eq_dec; apply Bool.bool_dec. Defined.

(* ------------------------------------------------------------------ *)
(* Part A.  The table. *)

(* the reference-carrying type names, computed once *)
Definition RT : list string := Eval vm_compute in ref_types type_defs.
Lemma RT_eq : ref_types type_defs = RT.
Proof. vm_compute. reflexivity. Qed.
Lemma carries_RT r : carries_ref type_defs r = carries_ref_in RT r.
Proof. unfold carries_ref. rewrite RT_eq. reflexivity. Qed.

(* Th 1 *)
Definition chk_ref (r : row) : bool :=
  if known_row r then true
  else if carries_ref_in RT r then action_eqb (effective r) (Remapped (appropriate r)) else true.

Lemma every_ref_remapped :
  forall r, In r rows -> known_row r = false -> carries_ref type_defs r = true ->
            effective r = Remapped (appropriate r).
Proof.
  assert (H : forallb chk_ref rows = true) by (vm_compute; reflexivity).
  intros r Hin Hk Hc. rewrite forallb_forall in H. specialize (H r Hin).
  rewrite carries_RT in Hc. unfold chk_ref in H. rewrite Hk, Hc in H. apply action_eqb_eq. exact H.
Qed.

(* the method named is never the "no rule" marker: every reference-carrying row has a rule *)
Lemma every_ref_has_a_rule :
  forall r, In r rows -> carries_ref type_defs r = true -> appropriate r <> MUnspecified.
Proof.
  assert (H : forallb (fun r => if carries_ref_in RT r
                                then (if meth_eq_dec (appropriate r) MUnspecified then false else true)
                                else true) rows = true) by (vm_compute; reflexivity).
  intros r Hin Hc. rewrite carries_RT in Hc. rewrite forallb_forall in H. specialize (H r Hin). cbv beta in H. rewrite Hc in H.
  destruct (meth_eq_dec (appropriate r) MUnspecified); [discriminate|assumption].
Qed.

(* Th 2 *)
Definition chk_other (r : row) : bool :=
  if known_row r then true
  else if carries_ref_in RT r then true else action_eqb (effective r) Copied.

Lemma nothing_else_changes :
  forall r, In r rows -> known_row r = false -> carries_ref type_defs r = false -> effective r = Copied.
Proof.
  assert (H : forallb chk_other rows = true) by (vm_compute; reflexivity).
  intros r Hin Hk Hc. rewrite forallb_forall in H. specialize (H r Hin).
  rewrite carries_RT in Hc. unfold chk_other in H. rewrite Hk, Hc in H. apply action_eqb_eq. exact H.
Qed.

(* the unrestricted statements: no row is recorded as a known finding today *)
Definition every_ref_remapped_full : Prop :=
  forall r, In r rows -> carries_ref type_defs r = true -> effective r = Remapped (appropriate r).
Definition nothing_else_changes_full : Prop :=
  forall r, In r rows -> carries_ref type_defs r = false -> effective r = Copied.
Lemma every_ref_remapped_full_holds : every_ref_remapped_full.
Proof. intros r Hin Hc. exact (every_ref_remapped r Hin eq_refl Hc). Qed.
Lemma nothing_else_changes_full_holds : nothing_else_changes_full.
Proof. intros r Hin Hc. exact (nothing_else_changes r Hin eq_refl Hc). Qed.

(* rows looked up in the regenerated table *)
Definition row_at (t v f : string) : option row := find (fun r => at_pos r t v f) rows.
Lemma row_at_In t v f r : row_at t v f = Some r -> In r rows.
Proof. intros H. apply find_some in H. tauto. Qed.

(* the rows that used to be the known findings F18c / F18d are ordinary rows now: the record components
   and the module data are rebuilt, module_packages (package names: no references) is copied *)
Definition former_findings_repaired : Prop :=
  (exists r, row_at "ClassFile" "" "record_components" = Some r /\ carries_ref type_defs r = true /\ r_act r = Remapped (MRec CSelfName)) /\
  (exists r, row_at "ClassFile" "" "module" = Some r /\ carries_ref type_defs r = true /\ r_act r = Remapped (MRec CNone)) /\
  (exists r, row_at "ClassFile" "" "module_main_class" = Some r /\ carries_ref type_defs r = true /\ effective r = Remapped MClassAny) /\
  (exists r, row_at "ClassFile" "" "module_packages" = Some r /\ carries_ref type_defs r = false /\ r_act r = Copied).
Lemma former_findings_repaired_holds : former_findings_repaired.
Proof.
  unfold former_findings_repaired. repeat split.
  - destruct (row_at "ClassFile" "" "record_components") as [r|] eqn:E; [|vm_compute in E; discriminate].
    exists r. split; [reflexivity|]. rewrite carries_RT. vm_compute in E. injection E as <-. split; vm_compute; reflexivity.
  - destruct (row_at "ClassFile" "" "module") as [r|] eqn:E; [|vm_compute in E; discriminate].
    exists r. split; [reflexivity|]. rewrite carries_RT. vm_compute in E. injection E as <-. split; vm_compute; reflexivity.
  - destruct (row_at "ClassFile" "" "module_main_class") as [r|] eqn:E; [|vm_compute in E; discriminate].
    exists r. split; [reflexivity|]. rewrite carries_RT. vm_compute in E. injection E as <-. split; vm_compute; reflexivity.
  - destruct (row_at "ClassFile" "" "module_packages") as [r|] eqn:E; [|vm_compute in E; discriminate].
    exists r. split; [reflexivity|]. rewrite carries_RT. vm_compute in E. injection E as <-. split; vm_compute; reflexivity.
Qed.

(* coverage: the rows of a field-wise impl are exactly the fields / variant payloads of duke's
   definition of that type, in order, with the declared types (ties part (a) of the table to part (b)) *)
Definition find_def (n : string) : option tdef := find (fun d => String.eqb (def_name d) n) type_defs.
Definition rows_of (n : string) : list (string * string * rty) :=
  map (fun r => (r_variant r, r_field r, r_ty r)) (filter (fun r => String.eqb (r_type r) n) rows).
Definition def_positions (d : tdef) : list (string * string * rty) :=
  match d with
  | DStr _ => []
  | DStruct _ fs => map (fun f => (EmptyString, fst (fst f), snd (fst f))) fs
  | DEnum _ vs => flat_map (fun v => map (fun f => (fst v, fst f, snd f)) (snd v)) vs
  end.
Fixpoint rty_eqb (a b : rty) : bool :=
  match a, b with
  | TPrim x, TPrim y | TName x, TName y => String.eqb x y
  | TParam, TParam => true
  | TApp x a', TApp y b' => String.eqb x y && rty_eqb a' b'
  | TOpt a', TOpt b' | TVec a', TVec b' => rty_eqb a' b'
  | TPair a1 a2, TPair b1 b2 => rty_eqb a1 b1 && rty_eqb a2 b2
  | _, _ => false
  end.
Definition pos_eqb (a b : string * string * rty) : bool :=
  String.eqb (fst (fst a)) (fst (fst b)) && String.eqb (snd (fst a)) (snd (fst b)) && rty_eqb (snd a) (snd b).
Fixpoint all2 {A} (f : A -> A -> bool) (a b : list A) : bool :=
  match a, b with
  | [], [] => true
  | x :: a', y :: b' => f x y && all2 f a' b'
  | _, _ => false
  end.
Definition covered (p : string * impl_kind) : bool :=
  match snd p with
  | IFields _ => match find_def (fst p) with
                 | Some d => all2 pos_eqb (rows_of (fst p)) (def_positions d)
                 | None => false
                 end
  | _ => match rows_of (fst p) with [] => true | _ => false end
  end.
Definition table_covers_definitions : Prop :=
  (forall p, In p impls -> covered p = true) /\
  (forall r, In r rows -> exists k, find_impl (r_type r) = Some (IFields k)).
Lemma table_covers_definitions_holds : table_covers_definitions.
Proof.
  split.
  - assert (H : forallb covered impls = true) by (vm_compute; reflexivity).
    intros p Hin. rewrite forallb_forall in H. exact (H p Hin).
  - assert (H : forallb (fun r => match find_impl (r_type r) with Some (IFields _) => true | _ => false end) rows = true)
      by (vm_compute; reflexivity).
    intros r Hin. rewrite forallb_forall in H. specialize (H r Hin). cbv beta in H.
    destruct (find_impl (r_type r)) as [[m| |k]|]; try discriminate. exists k. reflexivity.
Qed.

(* the closure computation reached its fixpoint, contains every leaf and no excluded type *)
Definition ref_types_closed : Prop :=
  step type_defs (ref_types type_defs) = ref_types type_defs /\
  (forall n, In n leaf_names -> mem n (ref_types type_defs) = true) /\
  (forall n, excluded n = true -> mem n (ref_types type_defs) = false).
Lemma ref_types_closed_holds : ref_types_closed.
Proof.
  unfold ref_types_closed. rewrite RT_eq. split; [vm_compute; reflexivity|split].
  - assert (H : forallb (fun n => mem n RT) leaf_names = true) by (vm_compute; reflexivity).
    intros n Hin. rewrite forallb_forall in H. exact (H n Hin).
  - assert (H : forallb (fun n => negb (excluded n)) RT = true) by (vm_compute; reflexivity).
    intros n He. destruct (mem n RT) eqn:Hm; [|reflexivity].
    unfold mem in Hm. apply existsb_exists in Hm. destruct Hm as (x & Hx & Hnx).
    apply String.eqb_eq in Hnx. subst x. rewrite forallb_forall in H. specialize (H n Hx).
    rewrite He in H. discriminate.
Qed.

(* Th 3, table part: who supplies the owner of declared members *)
Local Open Scope string_scope.

Definition impl_opt_eqb (a b : option impl_kind) : bool :=
  match a, b with
  | Some x, Some y => if impl_eq_dec x y then true else false
  | None, None => true
  | _, _ => false
  end.
Lemma impl_opt_eqb_eq a b : impl_opt_eqb a b = true -> a = b.
Proof.
  destruct a as [x|], b as [y|]; cbn; try congruence. destruct (impl_eq_dec x y); congruence.
Qed.

Definition is_rec (c : cls_arg) (r : row) : bool :=
  match r_act r with Remapped (MRec c') => if cls_arg_eq_dec c c' then true else false | _ => false end.
Lemma is_rec_true c r : is_rec c r = true -> r_act r = Remapped (MRec c).
Proof.
  unfold is_rec. destruct (r_act r) as [| |m]; try discriminate. destruct m; try discriminate.
  destruct (cls_arg_eq_dec c c0); [congruence|discriminate].
Qed.
Lemma is_rec_of c r : r_act r = Remapped (MRec c) -> is_rec c r = true.
Proof. unfold is_rec. intros ->. destruct (cls_arg_eq_dec c c); congruence. Qed.

Definition wants_class (r : row) : bool :=
  match base_name (r_ty r) with
  | Some n => match find_impl n with Some (IFields true) => true | _ => false end
  | None => false
  end.
Definition impl_takes_class (r : row) : bool :=
  match find_impl (r_type r) with Some (IFields true) => true | _ => false end.
Definition rec_arg_fits (r : row) : bool :=
  match r_act r with
  | Remapped (MRec c) => Bool.eqb (wants_class r) (if cls_arg_eq_dec c CNone then false else true)
  | _ => true
  end.
Definition is_decl_act (r : row) : bool :=
  match r_act r with Remapped (MDeclName _ | MDeclDesc _) => true | _ => false end.
Definition act_is (a : action) (r : row) : bool := action_eqb (r_act r) a.
Definition pos_in (ps : list (string * string * string)) (r : row) : bool :=
  existsb (fun p => at_pos r (fst (fst p)) (snd (fst p)) (snd p)) ps.

Lemma forallb_if (p q : row -> bool) :
  forallb (fun r => if p r then q r else true) rows = true ->
  forall r, In r rows -> p r = true -> q r = true.
Proof. intros H r Hin Hp. rewrite forallb_forall in H. specialize (H r Hin). cbv beta in H. rewrite Hp in H. exact H. Qed.

Definition owner_flow : Prop :=
  (* ClassFile::remap hands `&self.name` — its own name BEFORE remapping — to its fields and methods *)
  (forall r, In r rows -> pos_in [("ClassFile", "", "fields"); ("ClassFile", "", "methods"); ("ClassFile", "", "record_components")] r = true ->
             r_act r = Remapped (MRec CSelfName)) /\
  (exists r, In r rows /\ at_pos r "ClassFile" "" "fields" = true) /\
  (exists r, In r rows /\ at_pos r "ClassFile" "" "methods" = true) /\
  (* no other impl introduces a class name *)
  (forall r, In r rows -> r_act r = Remapped (MRec CSelfName) -> r_type r = "ClassFile") /\
  (* the received name is passed on unchanged, and only by impls that received one *)
  (forall r, In r rows -> r_act r = Remapped (MRec CThisClass) -> find_impl (r_type r) = Some (IFields true)) /\
  (* an impl that expects a class name is reached with one, and only such an impl is *)
  (forall r c, In r rows -> r_act r = Remapped (MRec c) -> (wants_class r = true <-> c <> CNone)) /\
  (* declared members: map_field / map_method (this_class, &self.name, &self.descriptor), nowhere else *)
  (forall r, In r rows -> at_pos r "Field" "" "name" = true -> r_act r = Remapped (MDeclName DField)) /\
  (forall r, In r rows -> at_pos r "Field" "" "descriptor" = true -> r_act r = Remapped (MDeclDesc DField)) /\
  (forall r, In r rows -> at_pos r "Method" "" "name" = true -> r_act r = Remapped (MDeclName DMethod)) /\
  (forall r, In r rows -> at_pos r "Method" "" "descriptor" = true -> r_act r = Remapped (MDeclDesc DMethod)) /\
  (* record components: the field of the component's name in the record class *)
  (forall r, In r rows -> at_pos r "RecordComponent" "" "name" = true -> r_act r = Remapped (MDeclName DRecord)) /\
  (forall r, In r rows -> at_pos r "RecordComponent" "" "descriptor" = true -> r_act r = Remapped (MDeclDesc DRecord)) /\
  (forall r, In r rows -> is_decl_act r = true ->
             pos_in [("Field", "", "name"); ("Field", "", "descriptor"); ("Method", "", "name"); ("Method", "", "descriptor");
                     ("RecordComponent", "", "name"); ("RecordComponent", "", "descriptor")] r = true) /\
  (* the impls of Field, Method and RecordComponent receive the class name *)
  find_impl "Field" = Some (IFields true) /\ find_impl "Method" = Some (IFields true) /\
  find_impl "RecordComponent" = Some (IFields true) /\
  (* member references: the remapper's *_ref methods, which take the owner from the reference *)
  find_impl "FieldRef" = Some (ILeaf MFieldRef) /\ find_impl "MethodRef" = Some (ILeaf MMethodRef).

Lemma owner_flow_table : owner_flow.
Proof.
  unfold owner_flow. repeat match goal with |- _ /\ _ => split end.
  - intros r Hin Hp. apply is_rec_true. revert r Hin Hp. apply forallb_if. vm_compute. reflexivity.
  - destruct (row_at "ClassFile" "" "fields") as [r|] eqn:E; [|vm_compute in E; discriminate].
    exists r. apply find_some in E. exact E.
  - destruct (row_at "ClassFile" "" "methods") as [r|] eqn:E; [|vm_compute in E; discriminate].
    exists r. apply find_some in E. exact E.
  - intros r Hin Ha. apply String.eqb_eq. apply is_rec_of in Ha. revert r Hin Ha.
    apply (forallb_if (is_rec CSelfName) (fun r => r_type r =? "ClassFile")). vm_compute. reflexivity.
  - intros r Hin Ha. apply is_rec_of in Ha.
    assert (H : impl_takes_class r = true).
    { revert r Hin Ha. apply (forallb_if (is_rec CThisClass) impl_takes_class). vm_compute. reflexivity. }
    unfold impl_takes_class in H. destruct (find_impl (r_type r)) as [[m| |[|]]|]; try discriminate. reflexivity.
  - intros r c Hin Ha.
    assert (H : rec_arg_fits r = true).
    { assert (H : forallb rec_arg_fits rows = true) by (vm_compute; reflexivity).
      rewrite forallb_forall in H. exact (H r Hin). }
    unfold rec_arg_fits in H. rewrite Ha in H. destruct (cls_arg_eq_dec c CNone) as [->|Hn].
    + destruct (wants_class r); [discriminate|]. split; [discriminate|congruence].
    + destruct (wants_class r); [|discriminate]. split; auto.
  - intros r Hin Hp. apply action_eqb_eq. revert r Hin Hp.
    apply (forallb_if (fun r => at_pos r "Field" "" "name") (act_is (Remapped (MDeclName DField)))). vm_compute. reflexivity.
  - intros r Hin Hp. apply action_eqb_eq. revert r Hin Hp.
    apply (forallb_if (fun r => at_pos r "Field" "" "descriptor") (act_is (Remapped (MDeclDesc DField)))). vm_compute. reflexivity.
  - intros r Hin Hp. apply action_eqb_eq. revert r Hin Hp.
    apply (forallb_if (fun r => at_pos r "Method" "" "name") (act_is (Remapped (MDeclName DMethod)))). vm_compute. reflexivity.
  - intros r Hin Hp. apply action_eqb_eq. revert r Hin Hp.
    apply (forallb_if (fun r => at_pos r "Method" "" "descriptor") (act_is (Remapped (MDeclDesc DMethod)))). vm_compute. reflexivity.
  - intros r Hin Hp. apply action_eqb_eq. revert r Hin Hp.
    apply (forallb_if (fun r => at_pos r "RecordComponent" "" "name") (act_is (Remapped (MDeclName DRecord)))). vm_compute. reflexivity.
  - intros r Hin Hp. apply action_eqb_eq. revert r Hin Hp.
    apply (forallb_if (fun r => at_pos r "RecordComponent" "" "descriptor") (act_is (Remapped (MDeclDesc DRecord)))). vm_compute. reflexivity.
  - apply (forallb_if is_decl_act). vm_compute. reflexivity.
  - apply impl_opt_eqb_eq. vm_compute. reflexivity.
  - apply impl_opt_eqb_eq. vm_compute. reflexivity.
  - apply impl_opt_eqb_eq. vm_compute. reflexivity.
  - apply impl_opt_eqb_eq. vm_compute. reflexivity.
  - apply impl_opt_eqb_eq. vm_compute. reflexivity.
Qed.

Local Close Scope string_scope.

(* ------------------------------------------------------------------ *)
(* Part B.  The hand model, for all inputs. *)

(* strip_suffix is what its name says *)
Lemma app_suffix_neq (c : N) (p suf : str) : c :: p ++ suf <> suf.
Proof.
  intros H. apply (f_equal (@List.length N)) in H. cbn [List.length] in H. rewrite app_length in H. lia.
Qed.

Lemma strip_suffix_spec suf s p : strip_suffix suf s = Some p <-> s = p ++ suf.
Proof.
  revert p; induction s as [|c s IH]; intros p; cbn [strip_suffix].
  - destruct (str_eqb_spec [] suf) as [E|E].
    + subst suf. split.
      * intros [= <-]. reflexivity.
      * intros H. symmetry in H. apply app_eq_nil in H. destruct H as [-> _]. reflexivity.
    + split; [discriminate|]. intros H. symmetry in H. apply app_eq_nil in H. destruct H as [_ H]. congruence.
  - destruct (str_eqb_spec (c :: s) suf) as [E|E].
    + split.
      * intros [= <-]. exact E.
      * intros H. destruct p as [|x p]; [reflexivity|].
        exfalso. cbn [app] in H. rewrite H in E. exact (app_suffix_neq x p suf E).
    + destruct (strip_suffix suf s) as [q|] eqn:Hq.
      * split.
        -- intros [= <-]. cbn [app]. f_equal. apply IH. reflexivity.
        -- intros H. destruct p as [|x p]; cbn [app] in H; [congruence|].
           injection H as -> Hs. f_equal. f_equal. apply IH in Hs. congruence.
      * split; [discriminate|]. intros H. destruct p as [|x p]; cbn [app] in H; [congruence|].
        injection H as -> Hs. apply IH in Hs. discriminate.
Qed.

Lemma strip_suffix_none suf s : strip_suffix suf s = None <-> forall p, s <> p ++ suf.
Proof.
  split.
  - intros H p Hp. apply strip_suffix_spec in Hp. congruence.
  - intros H. destruct (strip_suffix suf s) as [p|] eqn:E; [|reflexivity].
    apply strip_suffix_spec in E. exfalso. exact (H p E).
Qed.

Definition dot_class : str := [46; 99; 108; 97; 115; 115].   (* ".class" *)
Lemma class_suffix_is_dot_class : class_suffix = dot_class.
Proof. reflexivity. Qed.

(* Th 4: an entry whose name ends in ".class" is stored under map_class(name without it) ++ ".class";
   every other entry keeps its name *)
Definition entry_name_spec_stmt : Prop :=
  forall R name,
    (forall base, name = base ++ dot_class ->
                  entry_name R name = match map_class R base with Ok n => Ok (n ++ dot_class) | Err => Err end) /\
    ((forall base, name <> base ++ dot_class) -> entry_name R name = Ok name).
Lemma entry_name_spec : entry_name_spec_stmt.
Proof.
  intros R name. unfold entry_name. rewrite class_suffix_is_dot_class. split.
  - intros base Hb. apply strip_suffix_spec in Hb. rewrite Hb. reflexivity.
  - intros Hn. apply strip_suffix_none in Hn. rewrite Hn. reflexivity.
Qed.

(* an unmapped class keeps its entry name; a mapped one moves *)
Lemma entry_name_answer R base n :
  rm_class R base = Ok (Some n) -> entry_name R (base ++ dot_class) = Ok (n ++ dot_class).
Proof.
  intros H. destruct (entry_name_spec R (base ++ dot_class)) as [H1 _]. rewrite (H1 base eq_refl).
  unfold map_class. rewrite H. reflexivity.
Qed.
Lemma entry_name_unmapped R base :
  rm_class R base = Ok None -> entry_name R (base ++ dot_class) = Ok (base ++ dot_class).
Proof.
  intros H. destruct (entry_name_spec R (base ++ dot_class)) as [H1 _]. rewrite (H1 base eq_refl).
  unfold map_class. rewrite H. reflexivity.
Qed.

(* Th 3, model part: the owner used for each kind of member position *)
Definition member_owner_stmt : Prop :=
  (* declared members are asked about with the class they are declared in (the name handed down) *)
  (forall R this n d n' d', remap_at R (MDeclName DField) this (VDecl n d) = Ok (VDecl n' d') ->
                            map_field R this n d = Ok (n', d')) /\
  (forall R this n d n' d', remap_at R (MDeclDesc DField) this (VDecl n d) = Ok (VDecl n' d') ->
                            map_field R this n d = Ok (n', d')) /\
  (forall R this n d n' d', remap_at R (MDeclName DMethod) this (VDecl n d) = Ok (VDecl n' d') ->
                            map_method R this n d = Ok (n', d')) /\
  (forall R this n d n' d', remap_at R (MDeclDesc DMethod) this (VDecl n d) = Ok (VDecl n' d') ->
                            map_method R this n d = Ok (n', d')) /\
  (* a record component is asked about as the field of its name in the record class; a name that is no
     field name is an error *)
  (forall R this n d n' d', remap_at R (MDeclName DRecord) this (VDecl n d) = Ok (VDecl n' d') ->
                            map_field R this n d = Ok (n', d') /\ C18.Model.is_valid_unqualified_name n = true) /\
  (* member references with the owner they name — never with the class they stand in *)
  (forall R this c n d c' n' d', remap_at R MFieldRef this (VRef (c, n, d)) = Ok (VRef (c', n', d')) ->
                                 map_field R c n d = Ok (n', d') /\ map_class R c = Ok c') /\
  (forall R this c n d c' n' d', is_array c = false ->
                                 remap_at R MMethodRef this (VRef (c, n, d)) = Ok (VRef (c', n', d')) ->
                                 map_method R c n d = Ok (n', d') /\ map_class R c = Ok c') /\
  (* a method of an array class (clone) keeps name and descriptor; the array type is rewritten *)
  (forall R this c n d c' n' d', is_array c = true ->
                                 remap_at R MMethodRef this (VRef (c, n, d)) = Ok (VRef (c', n', d')) ->
                                 n' = n /\ d' = d /\ map_desc R c = Ok c') /\
  (* EnclosingMethod: the method is a reference owned by the record's class *)
  (forall R this c n d c' m', remap_at R MEnclMethod this (VEncl c (Some (n, d))) = Ok (VEncl c' m') ->
                              exists n' d', m' = Some (n', d') /\ map_method_ref R (c, n, d) = Ok (c', n', d')) /\
  (forall R this c c' m', remap_at R MEnclClass this (VEncl c None) = Ok (VEncl c' m') ->
                          m' = None /\ map_class_any R c = Ok c').

Lemma member_owner : member_owner_stmt.
Proof.
  unfold member_owner_stmt. repeat match goal with |- _ /\ _ => split end.
  - intros R this n d n' d'. cbn [remap_at]. destruct (map_field R this n d) as [[a b]|]; [|discriminate].
    intros [= -> ->]. reflexivity.
  - intros R this n d n' d'. cbn [remap_at]. destruct (map_field R this n d) as [[a b]|]; [|discriminate].
    intros [= -> ->]. reflexivity.
  - intros R this n d n' d'. cbn [remap_at]. destruct (map_method R this n d) as [[a b]|]; [|discriminate].
    intros [= -> ->]. reflexivity.
  - intros R this n d n' d'. cbn [remap_at]. destruct (map_method R this n d) as [[a b]|]; [|discriminate].
    intros [= -> ->]. reflexivity.
  - intros R this n d n' d'. cbn [remap_at]. destruct (C18.Model.is_valid_unqualified_name n); [|discriminate].
    destruct (map_field R this n d) as [[a b]|]; [|discriminate]. intros [= -> ->]. split; reflexivity.
  - intros R this c n d c' n' d'. cbn [remap_at]. unfold map_field_ref.
    destruct (map_field R c n d) as [[a b]|]; [|discriminate].
    destruct (map_class R c) as [x|]; [|discriminate]. intros [= -> -> ->]. split; reflexivity.
  - intros R this c n d c' n' d' Ha. cbn [remap_at]. unfold map_method_ref, map_class_any. rewrite Ha.
    destruct (map_method R c n d) as [[a b]|]; [|discriminate].
    destruct (map_class R c) as [x|]; [|discriminate]. intros [= -> -> ->]. split; reflexivity.
  - intros R this c n d c' n' d' Ha. cbn [remap_at]. unfold map_method_ref, map_class_any. rewrite Ha.
    destruct (map_desc R c) as [x|]; [|discriminate]. intros [= -> -> ->]. repeat split; reflexivity.
  - intros R this c n d c' m'. cbn [remap_at remap_enclosing].
    destruct (map_method_ref R (c, n, d)) as [[[x y] z]|]; [|discriminate].
    intros [= -> <-]. exists y, z. split; reflexivity.
  - intros R this c c' m'. cbn [remap_at remap_enclosing].
    destruct (map_class_any R c) as [x|]; [|discriminate]. intros [= -> <-]. split; reflexivity.
Qed.

(* Th 5: the name chosen at a position is what the remapper answers.
   [answer_*]: the remapper's answer for the original reference, stated from its three required
   methods alone (found => that; not found => the original name, descriptors rewritten class by class) *)
Definition answers_stmt : Prop :=
  forall R,
    (* class names *)
    (forall this c c', remap_at R MClass this (VName c) = Ok (VName c') ->
        (rm_class R c = Ok (Some c')) \/ (rm_class R c = Ok None /\ c' = c)) /\
    (forall this c c', is_array c = false -> remap_at R MClassAny this (VName c) = Ok (VName c') ->
        (rm_class R c = Ok (Some c')) \/ (rm_class R c = Ok None /\ c' = c)) /\
    (* fields: found under (owner, name, descriptor) => that pair; else old name, rewritten descriptor *)
    (forall this c n d c' n' d', remap_at R MFieldRef this (VRef (c, n, d)) = Ok (VRef (c', n', d')) ->
        (rm_field R c n d = Ok (Some (n', d')) \/ (rm_field R c n d = Ok None /\ n' = n /\ map_desc R d = Ok d'))) /\
    (forall this c n d c' n' d', is_array c = false ->
        remap_at R MMethodRef this (VRef (c, n, d)) = Ok (VRef (c', n', d')) ->
        (rm_method R c n d = Ok (Some (n', d')) \/ (rm_method R c n d = Ok None /\ n' = n /\ map_desc R d = Ok d'))) /\
    (forall this n d n' d', remap_at R (MDeclName DField) this (VDecl n d) = Ok (VDecl n' d') ->
        (rm_field R this n d = Ok (Some (n', d')) \/ (rm_field R this n d = Ok None /\ n' = n /\ map_desc R d = Ok d'))) /\
    (forall this n d n' d', remap_at R (MDeclName DMethod) this (VDecl n d) = Ok (VDecl n' d') ->
        (rm_method R this n d = Ok (Some (n', d')) \/ (rm_method R this n d = Ok None /\ n' = n /\ map_desc R d = Ok d'))).

Lemma map_member_answer fail R o n d n' d' :
  map_member fail R o n d = Ok (n', d') ->
  fail o n d = Ok (Some (n', d')) \/ (fail o n d = Ok None /\ n' = n /\ map_desc R d = Ok d').
Proof.
  unfold map_member. destruct (fail o n d) as [[[a b]|]|]; try discriminate.
  - intros [= -> ->]. left. reflexivity.
  - destruct (map_desc R d) as [x|]; [|discriminate]. intros [= -> ->]. right. repeat split; reflexivity.
Qed.

Lemma map_class_answer R c c' :
  map_class R c = Ok c' -> rm_class R c = Ok (Some c') \/ (rm_class R c = Ok None /\ c' = c).
Proof.
  unfold map_class. destruct (rm_class R c) as [[x|]|]; try discriminate.
  - intros [= ->]. left. reflexivity.
  - intros [= ->]. right. split; reflexivity.
Qed.

Lemma answers : answers_stmt.
Proof.
  intros R. repeat match goal with |- _ /\ _ => split end.
  - intros this c c'. cbn [remap_at]. destruct (map_class R c) as [x|] eqn:E; [|discriminate].
    intros [= ->]. exact (map_class_answer _ _ _ E).
  - intros this c c' Ha. cbn [remap_at]. unfold map_class_any. rewrite Ha.
    destruct (map_class R c) as [x|] eqn:E; [|discriminate]. intros [= ->]. exact (map_class_answer _ _ _ E).
  - intros this c n d c' n' d' H. destruct member_owner as (_ & _ & _ & _ & _ & Hf & _).
    destruct (Hf _ _ _ _ _ _ _ _ H) as [Hm _]. exact (map_member_answer _ _ _ _ _ _ _ Hm).
  - intros this c n d c' n' d' Ha H. destruct member_owner as (_ & _ & _ & _ & _ & _ & Hm & _).
    destruct (Hm _ _ _ _ _ _ _ _ Ha H) as [Hm' _]. exact (map_member_answer _ _ _ _ _ _ _ Hm').
  - intros this n d n' d' H. destruct member_owner as (Hf & _).
    exact (map_member_answer _ _ _ _ _ _ _ (Hf _ _ _ _ _ _ H)).
  - intros this n d n' d' H. destruct member_owner as (_ & _ & Hm & _).
    exact (map_member_answer _ _ _ _ _ _ _ (Hm _ _ _ _ _ _ H)).
Qed.

(* ------------------------------------------------------------------ *)
(* the entry loop: when no two entries are sent to the same name, the remapped jar has one entry
   per input entry, in the same order, under the remapped name, holding what [f] made of the content *)
Lemma im_insert_fresh {V} k (v : V) l : ~ In k (map fst l) -> im_insert k v l = l ++ [(k, v)].
Proof.
  induction l as [|[k' v'] l IH]; cbn [im_insert map fst In app]; intros Hn; [reflexivity|].
  destruct (str_eqb_spec k k') as [->|Hne]; [exfalso; apply Hn; left; reflexivity|].
  rewrite IH; [reflexivity|]. intros Hin. apply Hn. right. exact Hin.
Qed.

Fixpoint entries_spec {A B} (R : remapper) (f : str -> A -> res B) (es : list (str * A)) : res (list (str * B)) :=
  match es with
  | [] => Ok []
  | (name, a) :: es' =>
      match entry_name R name, f name a, entries_spec R f es' with
      | Ok n', Ok b, Ok l => Ok ((n', b) :: l)
      | _, _, _ => Err
      end
  end.

Lemma remap_entries_from_spec {A B} R (f : str -> A -> res B) es :
  forall acc l, entries_spec R f es = Ok l -> NoDup (map fst acc ++ map fst l) ->
                remap_entries_from R f es acc = Ok (acc ++ l).
Proof.
  induction es as [|[name a] es IH]; intros acc l; cbn [entries_spec remap_entries_from].
  - intros [= <-] _. rewrite app_nil_r. reflexivity.
  - destruct (entry_name R name) as [n'|]; [|discriminate].
    destruct (f name a) as [b|]; [|discriminate].
    destruct (entries_spec R f es) as [l'|] eqn:E; [|discriminate].
    intros [= <-] Hnd. cbn [map fst] in Hnd.
    assert (Hfresh : ~ In n' (map fst acc)).
    { intros Hin. apply NoDup_remove_2 in Hnd. apply Hnd. apply in_or_app. left. exact Hin. }
    rewrite (im_insert_fresh _ _ _ Hfresh).
    rewrite (IH (acc ++ [(n', b)]) l' eq_refl).
    + rewrite <- app_assoc. reflexivity.
    + rewrite map_app. cbn [map fst]. rewrite <- app_assoc. cbn [app].
      (* NoDup (acc ++ n' :: l')  from  NoDup (acc ++ n' :: l') *)
      exact Hnd.
Qed.

Definition entries_in_order_stmt : Prop :=
  forall (A B : Type) (R : remapper) (f : str -> A -> res B) (es : list (str * A)) (l : list (str * B)),
    entries_spec R f es = Ok l -> NoDup (map fst l) -> remap_entries R f es = Ok l.
Lemma entries_in_order : entries_in_order_stmt.
Proof.
  intros A B R f es l Hs Hnd. unfold remap_entries.
  rewrite (remap_entries_from_spec R f es [] l Hs); [reflexivity|exact Hnd].
Qed.

(* an error in a name or in a content makes the whole call fail (the `?`s of the loop) *)
Lemma remap_entries_from_err {A B} R (f : str -> A -> res B) es :
  forall acc, entries_spec R f es = Err -> remap_entries_from R f es acc = Err.
Proof.
  induction es as [|[name a] es IH]; intros acc; cbn [entries_spec remap_entries_from]; [discriminate|].
  destruct (entry_name R name) as [n'|]; [|reflexivity].
  destruct (f name a) as [b|]; [|reflexivity].
  destruct (entries_spec R f es) as [l'|] eqn:E; [discriminate|]. intros _. apply IH. reflexivity.
Qed.
Definition entries_err_stmt : Prop :=
  forall (A B : Type) (R : remapper) (f : str -> A -> res B) (es : list (str * A)),
    entries_spec R f es = Err -> remap_entries R f es = Err.
Lemma entries_err : entries_err_stmt.
Proof. intros A B R f es H. apply remap_entries_from_err. exact H. Qed.

(* ------------------------------------------------------------------ *)
(* non-vacuity: a concrete remapper and concrete references *)
Definition ex_R : remapper :=
  mkRemapper (fun c => Ok (if str_eqb c [97;47;65] then Some [120;47;89] else None))            (* a/A -> x/Y *)
             (fun o n d => Ok (if str_eqb o [97;47;65] && str_eqb n [102] then Some ([103], [73]) else None))   (* a/A.f:I -> g *)
             (fun _ _ _ => Ok None).
Definition nonvacuous : Prop :=
  entry_name ex_R ([97;47;65] ++ dot_class) = Ok ([120;47;89] ++ dot_class) /\
  entry_name ex_R [77;69;84;65;45;73;78;70;47] = Ok [77;69;84;65;45;73;78;70;47] /\                (* META-INF/ *)
  remap_at ex_R MMethodDesc [] (VName [40;76;97;47;65;59;41;91;76;97;47;65;59]) =
    Ok (VName [40;76;120;47;89;59;41;91;76;120;47;89;59]) /\                                     (* (La/A;)[La/A; *)
  remap_at ex_R MFieldRef [] (VRef ([97;47;65], [102], [73])) = Ok (VRef ([120;47;89], [103], [73])) /\
  remap_at ex_R MMethodRef [] (VRef ([91;76;97;47;65;59], [99], [40;41;86])) = Ok (VRef ([91;76;120;47;89;59], [99], [40;41;86])) /\
  remap_at ex_R MEnumConst [] (VEnumC [76;97;47;65;59] [102]) = Ok (VEnumC [76;120;47;89;59] [103]) /\
  (exists r, In r rows /\ known_row r = false /\ carries_ref type_defs r = true) /\
  (exists r, In r rows /\ known_row r = false /\ carries_ref type_defs r = false).
Lemma nonvacuous_holds : nonvacuous.
Proof.
  unfold nonvacuous. repeat match goal with |- _ /\ _ => split end; try (vm_compute; reflexivity).
  - destruct (row_at "ClassFile"%string ""%string "name"%string) as [r|] eqn:E; [|vm_compute in E; discriminate].
    exists r. split; [exact (row_at_In _ _ _ _ E)|]. rewrite carries_RT. vm_compute in E. injection E as <-.
    split; vm_compute; reflexivity.
  - destruct (row_at "ClassFile"%string ""%string "access"%string) as [r|] eqn:E; [|vm_compute in E; discriminate].
    exists r. split; [exact (row_at_In _ _ _ _ E)|]. rewrite carries_RT. vm_compute in E. injection E as <-.
    split; vm_compute; reflexivity.
Qed.
