(* C07 — SPECIFICATION of which positions of a class carry class / field / method references and
   which remapper method is appropriate for each.  Written by hand from the property text and
   JVMS 4 (4.1 ClassFile, 4.4 constant pool, 4.5/4.6 fields and methods, 4.7.3 Code, 4.7.4
   StackMapTable, 4.7.5 Exceptions, 4.7.6 InnerClasses, 4.7.7 EnclosingMethod, 4.7.13/14 local
   variable tables, 4.7.16–4.7.22 annotations, 4.7.23 BootstrapMethods, 4.7.25–27 Module*,
   4.7.28/29 nest records, 4.7.30 Record, 4.7.31 PermittedSubclasses) — NOT from remap.rs.

   It talks about the types of the duke tree (C07/RemapTable.v [type_defs], generated from
   duke/src/tree) only through their names:

   - LEAF reference types: class names, descriptors, owner-qualified member references;
   - a struct / enum / container carries references iff one of its components does (closure
     over [type_defs], computed as a least fixpoint);
   - POSITIONS that are references only together with their context: the name and descriptor of a
     declared field / method (owner: the declaring class), EnclosingMethod (owner: its class), the
     constant name of an enum element value (owner: the enum class named by type_name), the name
     of a record component (owner: the declaring class);
   - EXCLUDED, explicitly: generic signatures (ClassSignature, FieldSignature, MethodSignature —
     they contain class names, but the property's list does not name them and the remapper trait has
     no method for them); names that are not owner-qualified references: the name of an
     invokedynamic / dynamic constant (interpreted by the bootstrap method only), local variable and
     parameter names, InnerClass.inner_name (the simple source name, JVMS 4.7.6 — not resolved by
     the JVM), source file names, module and package names, unknown attributes (opaque bytes). *)
From Coq Require Import String.
From FB Require Export C07.Schema.
Local Open Scope string_scope.

Definition mem (n : string) (l : list string) : bool := existsb (String.eqb n) l.

(* ---- leaf reference types and the remapper method appropriate for each ---- *)
Definition leaf_method (n : string) : option meth :=
  if n =? "ObjClassName" then Some MClass                (* CONSTANT_Class naming a class or interface *)
  else if n =? "ClassName" then Some MClassAny           (* CONSTANT_Class that may also be an array type *)
  else if n =? "ArrClassName" then Some MClassAny
  else if n =? "FieldDescriptor" then Some MFieldDesc    (* 4.3.2 *)
  else if n =? "MethodDescriptor" then Some MMethodDesc  (* 4.3.3 *)
  else if n =? "ReturnDescriptor" then Some MReturnDesc  (* class element values: 4.7.16.1 class_info_index *)
  else if n =? "FieldRef" then Some MFieldRef            (* CONSTANT_Fieldref: class + name-and-type *)
  else if n =? "MethodRef" then Some MMethodRef          (* CONSTANT_Methodref / InterfaceMethodref *)
  else if n =? "MethodRefObj" then Some MMethodRef
  else None.

(* name-and-type pairs are references, but only an owner makes them answerable: there must be a
   position rule for every place they occur in *)
Definition needs_owner (n : string) : bool := mem n ["FieldNameAndDesc"; "MethodNameAndDesc"].

Definition is_leaf (n : string) : bool :=
  match leaf_method n with Some _ => true | None => needs_owner n end.

(* signatures are outside the property's list *)
Definition excluded (n : string) : bool := mem n ["ClassSignature"; "FieldSignature"; "MethodSignature"].

Definition leaf_names : list string :=
  ["ObjClassName"; "ClassName"; "ArrClassName"; "FieldDescriptor"; "MethodDescriptor"; "ReturnDescriptor";
   "FieldRef"; "MethodRef"; "MethodRefObj"; "FieldNameAndDesc"; "MethodNameAndDesc"].

(* ---- closure: containers of reference carriers carry references ---- *)
Fixpoint mentions (S : list string) (t : rty) : bool :=
  match t with
  | TPrim _ | TParam => false
  | TName n => mem n S
  | TApp n a => if mem n S then true else mentions S a
  | TOpt a | TVec a => mentions S a
  | TPair a b => if mentions S a then true else mentions S b
  end.

Definition def_carries (S : list string) (d : tdef) : bool :=
  match d with
  | DStr _ => false
  | DStruct _ fs => existsb (fun f => mentions S (snd (fst f))) fs
  | DEnum _ vs => existsb (fun v => existsb (fun f => mentions S (snd f)) (snd v)) vs
  end.

Definition step (defs : list tdef) (S : list string) : list string :=
  S ++ filter (fun n => negb (mem n S) && negb (excluded n)) (map def_name (filter (def_carries S) defs)).

Fixpoint iter (k : nat) (defs : list tdef) (S : list string) : list string :=
  match k with O => S | S k' => iter k' defs (step defs S) end.

(* the names of all types that carry references *)
Definition ref_types (defs : list tdef) : list string := iter (length defs) defs leaf_names.

Definition carries_ref_ty (defs : list tdef) (t : rty) : bool := mentions (ref_types defs) t.

(* ---- positions ---- *)
Definition at_pos (r : row) (t v f : string) : bool :=
  (r_type r =? t) && (r_variant r =? v) && (r_field r =? f).

Definition position_method (r : row) : option meth :=
  if at_pos r "Field" "" "name" then Some (MDeclName DField)              (* 4.5 field_info.name_index: declared in this class *)
  else if at_pos r "Field" "" "descriptor" then Some (MDeclDesc DField)
  else if at_pos r "Method" "" "name" then Some (MDeclName DMethod)       (* 4.6 *)
  else if at_pos r "Method" "" "descriptor" then Some (MDeclDesc DMethod)
  else if at_pos r "RecordComponent" "" "name" then Some (MDeclName DRecord)       (* 4.7.30: the component is the field of that name *)
  else if at_pos r "RecordComponent" "" "descriptor" then Some (MDeclDesc DRecord)
  else if at_pos r "EnclosingMethod" "" "class" then Some MEnclClass      (* 4.7.7 *)
  else if at_pos r "EnclosingMethod" "" "method" then Some MEnclMethod
  else if at_pos r "ElementValue" "Enum" "const_name" then Some MEnumConst (* 4.7.16.1 enum_const_value.const_name_index *)
  else None.

(* does the position carry a reference?  ([S]: the reference-carrying type names) *)
Definition carries_ref_in (S : list string) (r : row) : bool :=
  match position_method r with
  | Some _ => true
  | None => mentions S (r_ty r)
  end.
Definition carries_ref (defs : list tdef) (r : row) : bool := carries_ref_in (ref_types defs) r.

(* the remapper method appropriate for a reference-carrying position *)
Definition appropriate (r : row) : meth :=
  match position_method r with
  | Some m => m
  | None =>
      match base_ty (r_ty r) with
      | TName n => match leaf_method n with
                   | Some m => m
                   | None => if needs_owner n then MUnspecified else MRec CNone   (* composite: rebuilt component-wise *)
                   end
      | TApp _ _ => MRec CNone
      | _ => MUnspecified      (* a pair or primitive that would carry references: no rule *)
      end
  end.

(* ---- known findings: the table rows on which remap.rs falls short of this specification.
   None today: the four rows recorded earlier (ClassFile.record_components — F18c —, ClassFile.module /
   module_packages / module_main_class — F18d —: dropped by the remapper) were repaired in the source;
   the theorems keep the parameter so that a row can be recorded here again, as narrow as the row itself ---- *)
Definition known_row (r : row) : bool := false.
