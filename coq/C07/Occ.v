(* C07 — EVERY OCCURRENCE.  A path leads from a tree value to one of its sub-values; [sub_ty] follows it along the
   type definitions and hands the class name down as the specification does ([self_ctx]: everything inside a
   ClassFile stands in that ClassFile's ORIGINAL name).

   LOCALITY ([spec_val_sub]): what remapping leaves at a path is the remapping of the sub-value that stood there,
   under the class name handed down to it — so every statement about one value is a statement about every
   occurrence of such a value anywhere in a class.  With it, Th 3 (member_refs_use_owner) at the level of whole
   trees, for the interpreter of the regenerated table ([member_refs_use_owner_tree]):

   - every FieldRef / MethodRef anywhere in a class (instructions, handles, bootstrap arguments, …) comes out as
     map_field / map_method asked with THE OWNER THE REFERENCE NAMES (an array-class owner keeps name and
     descriptor), its class as map_class(_any) of that owner — never with the class it stands in;
   - every declared Field / Method comes out with the name and descriptor map_field / map_method answer for THE
     DECLARING CLASS (the original ClassFile.name). *)
From Coq Require Import String Lia.
From FB Require Import C07.Model C07.Spec C07.Theory C07.Tree C07.TreeTheory C07.Laws C07.Laws2.
Local Open Scope string_scope.

Inductive pstep :=
| PField (k : string)     (* the field / payload k of a node *)
| PIndex (i : nat)        (* element i of a Vec *)
| PSome                   (* inside Some *)
| PFst | PSnd.            (* the components of a pair *)
Definition path := list pstep.

Fixpoint sub (p : path) (v : val) : option val :=
  match p with
  | [] => Some v
  | s :: p' =>
      match s, v with
      | PField k, VNode _ _ fs => match field_of fs k with Ok x => sub p' x | Err => None end
      | PIndex i, VList l => match nth_error l i with Some x => sub p' x | None => None end
      | PSome, VSome x => sub p' x
      | PFst, VPair a _ => sub p' a
      | PSnd, VPair _ b => sub p' b
      | _, _ => None
      end
  end.

(* the path followed along the types; it goes through reference-carrying composite types only (a value of any other
   type is left as a whole), and not into leaf references or joint positions (those are rebuilt as a whole) *)
Fixpoint sub_ty (defs : list tdef) (S : list string) (p : path) (T : rty) (ctx : option str) (v : val)
  : option (rty * option str * val) :=
  match p with
  | [] => Some (T, ctx, v)
  | s :: p' =>
      if negb (mentions S T) then None else
      match s, T, v with
      | PSome, TOpt a, VSome x => sub_ty defs S p' a ctx x
      | PIndex i, TVec a, VList l => match nth_error l i with Some x => sub_ty defs S p' a ctx x | None => None end
      | PFst, TPair a _, VPair x _ => sub_ty defs S p' a ctx x
      | PSnd, TPair _ b, VPair _ y => sub_ty defs S p' b ctx y
      | PField k, (TName n | TApp n _), VNode n' c fs =>
          match (match T with TName _ => leaf_method n | _ => None end) with
          | Some _ => None
          | None =>
              if negb (String.eqb n' n) then None else
              match node_fields defs n c with
              | None => None
              | Some fts =>
                  match lookup_ty fts k, field_of fs k with
                  | Some t, Ok x =>
                      match position_method (pseudo_row n c k t) with
                      | Some _ => None
                      | None => sub_ty defs S p' t (self_ctx n ctx fs) x
                      end
                  | _, _ => None
                  end
              end
          end
      | _, _, _ => None
      end
  end.

Lemma mapM_nth {A B} (F : A -> res B) : forall l l1 i x,
  mapM F l = Ok l1 -> nth_error l i = Some x -> exists y, nth_error l1 i = Some y /\ F x = Ok y.
Proof.
  induction l as [|a l IH]; intros l1 i x; [destruct i; discriminate|].
  rewrite mapM_cons. destruct (F a) as [b|] eqn:E; [|discriminate]. destruct (mapM F l) as [r|]; [|discriminate].
  intros [= <-]. destruct i as [|i]; cbn [nth_error].
  - intros [= <-]. exists b. split; [reflexivity|exact E].
  - intros H. exact (IH r i x eq_refl H).
Qed.

(* LOCALITY *)
Theorem spec_val_sub defs S R : forall p v T ctx v1 T' ctx' x,
  spec_val defs S R ctx T v = Ok v1 ->
  sub_ty defs S p T ctx v = Some (T', ctx', x) ->
  exists x1, sub p v1 = Some x1 /\ spec_val defs S R ctx' T' x = Ok x1.
Proof.
  induction p as [|s p IH]; intros v T ctx v1 T' ctx' x Hs Hp.
  - cbn [sub_ty] in Hp. injection Hp as <- <- <-. exists v1. split; [reflexivity|exact Hs].
  - cbn [sub_ty] in Hp. destruct (mentions S T) eqn:Em; [|discriminate]. cbn [negb] in Hp.
    destruct s as [k|i| | |].
    + (* a field of a node *)
      destruct T as [q|n| |n a|a|a|a b]; try discriminate; destruct v as [| |n' c fs| | | |]; try discriminate.
      * rewrite spec_val_name, Em in Hs. cbn [negb] in Hs.
        destruct (leaf_method n); [discriminate|]. destruct (needs_owner n); [discriminate|].
        cbn [spec_node] in Hs. destruct (String.eqb n' n); [|discriminate]. cbn [negb] in Hp.
        destruct (node_fields defs n c) as [fts|]; [|discriminate].
        destruct (spec_fields defs S R ctx n c fts fs) as [fs1|] eqn:Ef; [|discriminate]. injection Hs as <-.
        rewrite spec_fields_step in Ef.
        destruct (mapM_fields_of (step defs S R (self_ctx n ctx fs) n c fts fs) fs fs1 Ef) as [_ SF]. specialize (SF k).
        destruct (lookup_ty fts k) as [t|] eqn:Et; [|discriminate].
        destruct (field_of fs k) as [y|] eqn:Ey; [|discriminate].
        destruct (position_method (pseudo_row n c k t)) eqn:Ep; [discriminate|].
        destruct SF as (y1 & Hy1 & Hst). unfold step in Hst. rewrite Et, Ep in Hst.
        destruct (IH y t (self_ctx n ctx fs) y1 T' ctx' x Hst Hp) as (x1 & Hx1 & Hsp).
        exists x1. split; [|exact Hsp]. cbn [sub]. rewrite Hy1. exact Hx1.
      * rewrite spec_val_app, Em in Hs. cbn [negb] in Hs.
        cbn [spec_node] in Hs. destruct (String.eqb n' n); [|discriminate]. cbn [negb] in Hp.
        destruct (node_fields defs n c) as [fts|]; [|discriminate].
        destruct (spec_fields defs S R ctx n c fts fs) as [fs1|] eqn:Ef; [|discriminate]. injection Hs as <-.
        rewrite spec_fields_step in Ef.
        destruct (mapM_fields_of (step defs S R (self_ctx n ctx fs) n c fts fs) fs fs1 Ef) as [_ SF]. specialize (SF k).
        destruct (lookup_ty fts k) as [t|] eqn:Et; [|discriminate].
        destruct (field_of fs k) as [y|] eqn:Ey; [|discriminate].
        destruct (position_method (pseudo_row n c k t)) eqn:Ep; [discriminate|].
        destruct SF as (y1 & Hy1 & Hst). unfold step in Hst. rewrite Et, Ep in Hst.
        destruct (IH y t (self_ctx n ctx fs) y1 T' ctx' x Hst Hp) as (x1 & Hx1 & Hsp).
        exists x1. split; [|exact Hsp]. cbn [sub]. rewrite Hy1. exact Hx1.
    + (* an element of a Vec *)
      destruct T as [q|n| |n a|a|a|a b]; try discriminate; destruct v as [| | |l| | |]; try discriminate.
      cbn [mentions] in Em. rewrite spec_val_vec, Em in Hs. cbn [negb] in Hs.
      destruct (mapM (spec_val defs S R ctx a) l) as [l1|] eqn:El; [|discriminate]. injection Hs as <-.
      destruct (nth_error l i) as [y|] eqn:Ey; [|discriminate].
      destruct (mapM_nth _ l l1 i y El Ey) as (y1 & Hy1 & Hst).
      destruct (IH y a ctx y1 T' ctx' x Hst Hp) as (x1 & Hx1 & Hsp).
      exists x1. split; [|exact Hsp]. cbn [sub]. rewrite Hy1. exact Hx1.
    + destruct T as [q|n| |n a|a|a|a b]; try discriminate; destruct v as [| | | | |y|]; try discriminate.
      cbn [mentions] in Em. rewrite spec_val_opt, Em in Hs. cbn [negb] in Hs.
      destruct (spec_val defs S R ctx a y) as [y1|] eqn:Hst; [|discriminate]. injection Hs as <-.
      destruct (IH y a ctx y1 T' ctx' x Hst Hp) as (x1 & Hx1 & Hsp). exists x1. split; [exact Hx1|exact Hsp].
    + destruct T as [q|n| |n a|a|a|a b]; try discriminate; destruct v as [| | | | | |y z]; try discriminate.
      rewrite spec_val_pair, Em in Hs. cbn [negb] in Hs.
      destruct (spec_val defs S R ctx a y) as [y1|] eqn:Hst; [|discriminate].
      destruct (spec_val defs S R ctx b z) as [z1|]; [|discriminate]. injection Hs as <-.
      destruct (IH y a ctx y1 T' ctx' x Hst Hp) as (x1 & Hx1 & Hsp). exists x1. split; [exact Hx1|exact Hsp].
    + destruct T as [q|n| |n a|a|a|a b]; try discriminate; destruct v as [| | | | | |y z]; try discriminate.
      rewrite spec_val_pair, Em in Hs. cbn [negb] in Hs.
      destruct (spec_val defs S R ctx a y) as [y1|]; [|discriminate].
      destruct (spec_val defs S R ctx b z) as [z1|] eqn:Hst; [|discriminate]. injection Hs as <-.
      destruct (IH z b ctx z1 T' ctx' x Hst Hp) as (x1 & Hx1 & Hsp). exists x1. split; [exact Hx1|exact Hsp].
Qed.

(* ------------------------------------------------------------------ *)
(* Th 3 for whole trees *)

Definition RTo : list string := Eval vm_compute in ref_types type_defs.
Lemma RTo_eq : ref_types type_defs = RTo.
Proof. vm_compute. reflexivity. Qed.

Definition ref_node (n : string) (c nm d : str) : val :=
  VNode n "" [("class", VStr c); ("name", VStr nm); ("desc", VStr d)].

Definition member_refs_use_owner_tree_stmt : Prop :=
  forall (R : remapper) (ctx : option str) (T : rty) (v v1 : val),
    deleg_ok gen_table (ref_types type_defs) T = true ->
    has_ty type_defs T v = true ->
    remap_val gen_table R ctx T v = Ok v1 ->
    forall (p : path) (ctx' : option str),
      (* a field reference anywhere: asked with the owner it names *)
      (forall n k fs c nm d, sub_ty type_defs (ref_types type_defs) p T ctx v = Some (TName "FieldRef", ctx', VNode n k fs) ->
         str_field fs "class" = Ok c -> str_field fs "name" = Ok nm -> str_field fs "desc" = Ok d ->
         exists c' nm' d', map_field R c nm d = Ok (nm', d') /\ map_class R c = Ok c' /\
           sub p v1 = Some (VNode n k (set_field "class" (VStr c') (set_field "name" (VStr nm') (set_field "desc" (VStr d') fs))))) /\
      (* a method reference anywhere: asked with the owner it names; an array-class owner keeps name and descriptor *)
      (forall n k fs c nm d, sub_ty type_defs (ref_types type_defs) p T ctx v = Some (TName "MethodRef", ctx', VNode n k fs) ->
         str_field fs "class" = Ok c -> str_field fs "name" = Ok nm -> str_field fs "desc" = Ok d ->
         exists c' nm' d', (if is_array c then (nm', d') = (nm, d) else map_method R c nm d = Ok (nm', d')) /\
           map_class_any R c = Ok c' /\
           sub p v1 = Some (VNode n k (set_field "class" (VStr c') (set_field "name" (VStr nm') (set_field "desc" (VStr d') fs))))) /\
      (* a declared field / method anywhere: asked with the declaring class handed down to it *)
      (forall fs nm d, sub_ty type_defs (ref_types type_defs) p T ctx v = Some (TName "Field", ctx', VNode "Field" "" fs) ->
         str_field fs "name" = Ok nm -> str_field fs "descriptor" = Ok d ->
         exists this nm' d' fs1, ctx' = Some this /\ map_field R this nm d = Ok (nm', d') /\
           sub p v1 = Some (VNode "Field" "" fs1) /\ str_field fs1 "name" = Ok nm' /\ str_field fs1 "descriptor" = Ok d') /\
      (forall fs nm d, sub_ty type_defs (ref_types type_defs) p T ctx v = Some (TName "Method", ctx', VNode "Method" "" fs) ->
         str_field fs "name" = Ok nm -> str_field fs "descriptor" = Ok d ->
         exists this nm' d' fs1, ctx' = Some this /\ map_method R this nm d = Ok (nm', d') /\
           sub p v1 = Some (VNode "Method" "" fs1) /\ str_field fs1 "name" = Ok nm' /\ str_field fs1 "descriptor" = Ok d').

(* … and the class name handed down inside a ClassFile is that ClassFile's original name *)
Lemma sub_ty_class_ctx k p fs ctx T' ctx' x c :
  sub_ty type_defs (ref_types type_defs) (PField k :: PIndex p :: nil) (TName "ClassFile") ctx (VNode "ClassFile" "" fs) = Some (T', ctx', x) ->
  str_field fs "name" = Ok c -> ctx' = Some c.
Proof.
  rewrite RTo_eq. cbn [sub_ty]. change (mentions RTo (TName "ClassFile")) with true. cbn [negb].
  change (leaf_method "ClassFile") with (@None meth). cbv iota. cbn [String.eqb Ascii.eqb Bool.eqb negb].
  destruct (node_fields type_defs "ClassFile" "") as [fts|]; [|discriminate].
  destruct (lookup_ty fts k) as [t|]; [|discriminate]. destruct (field_of fs k) as [y|]; [|discriminate].
  destruct (position_method (pseudo_row "ClassFile" "" k t)); [discriminate|].
  destruct (negb (mentions RTo t)); [discriminate|].
  destruct t; try discriminate. destruct y; try discriminate.
  destruct (nth_error l p); [|discriminate]. cbn [sub_ty]. intros [= _ <- _] Hn.
  unfold self_ctx. cbn [String.eqb Ascii.eqb Bool.eqb]. unfold name_ctx. rewrite Hn. reflexivity.
Qed.

Lemma decl_fields_out d R this sib y yd nm ds nm' d' :
  str_field sib "name" = Ok nm -> str_field sib "descriptor" = Ok ds -> decl_map d R this nm ds = Ok (nm', d') ->
  apply_pos R (MDeclName d) (Some this) sib (VStr nm) = Ok y ->
  apply_pos R (MDeclDesc d) (Some this) sib (VStr ds) = Ok yd -> y = VStr nm' /\ yd = VStr d'.
Proof.
  intros En Ed Em. cbn [apply_pos]. rewrite En, Ed, Em. intros [= <-] [= <-]. split; reflexivity.
Qed.

Lemma member_refs_use_owner_tree : member_refs_use_owner_tree_stmt.
Proof.
  intros R ctx T v v1 Hd Hty H p ctx'. rewrite (remap_val_spec_full R ctx T v Hd Hty) in H. unfold spec_remap_val in H.
  repeat split.
  - intros n k fs c nm d Hp Ec En Ed.
    destruct (spec_val_sub type_defs (ref_types type_defs) R p v T ctx v1 _ _ _ H Hp) as (x1 & Hx1 & Hs).
    rewrite RTo_eq in Hs. rewrite spec_val_name in Hs. change (mentions RTo (TName "FieldRef")) with true in Hs. cbn [negb] in Hs.
    change (leaf_method "FieldRef") with (Some MFieldRef) in Hs. cbv iota in Hs. cbn [apply_leaf apply_ref] in Hs.
    rewrite Ec, En, Ed in Hs. unfold map_field_ref in Hs.
    destruct (map_field R c nm d) as [[nm' d']|]; [|discriminate]. destruct (map_class R c) as [c'|]; [|discriminate].
    injection Hs as <-. exists c', nm', d'. repeat split. exact Hx1.
  - intros n k fs c nm d Hp Ec En Ed.
    destruct (spec_val_sub type_defs (ref_types type_defs) R p v T ctx v1 _ _ _ H Hp) as (x1 & Hx1 & Hs).
    rewrite RTo_eq in Hs. rewrite spec_val_name in Hs. change (mentions RTo (TName "MethodRef")) with true in Hs. cbn [negb] in Hs.
    change (leaf_method "MethodRef") with (Some MMethodRef) in Hs. cbv iota in Hs. cbn [apply_leaf apply_ref] in Hs.
    rewrite Ec, En, Ed in Hs. unfold map_method_ref in Hs.
    destruct (is_array c).
    + destruct (map_class_any R c) as [c'|]; [|discriminate]. injection Hs as <-. exists c', nm, d. repeat split. exact Hx1.
    + destruct (map_method R c nm d) as [[nm' d']|]; [|discriminate]. destruct (map_class_any R c) as [c'|]; [|discriminate].
      injection Hs as <-. exists c', nm', d'. repeat split. exact Hx1.
  - intros fs nm d Hp En Ed.
    destruct (spec_val_sub type_defs (ref_types type_defs) R p v T ctx v1 _ _ _ H Hp) as (x1 & Hx1 & Hs).
    rewrite RTo_eq in Hs. rewrite spec_val_name in Hs. change (mentions RTo (TName "Field")) with true in Hs. cbn [negb] in Hs.
    change (leaf_method "Field") with (@None meth) in Hs. change (needs_owner "Field") with false in Hs. cbv iota in Hs.
    cbn [spec_node String.eqb Ascii.eqb Bool.eqb] in Hs.
    destruct (node_fields type_defs "Field" "") as [fts|] eqn:Enf; [|discriminate].
    destruct (spec_fields type_defs RTo R ctx' "Field" "" fts fs) as [fs1|] eqn:Ef; [|discriminate]. injection Hs as <-.
    rewrite spec_fields_step in Ef.
    destruct (mapM_fields_of (step type_defs RTo R (self_ctx "Field" ctx' fs) "Field" "" fts fs) fs fs1 Ef) as [_ SF].
    apply str_field_of in En, Ed.
    pose proof (SF "name") as SFn. rewrite En in SFn. destruct SFn as (yn & Hyn & Hsn).
    pose proof (SF "descriptor") as SFd. rewrite Ed in SFd. destruct SFd as (yd & Hyd & Hsd).
    unfold step in Hsn, Hsd.
    destruct (lookup_ty fts "name") as [t1|]; [|discriminate]. destruct (lookup_ty fts "descriptor") as [t2|]; [|discriminate].
    change (position_method (pseudo_row "Field" "" "name" t1)) with (Some (MDeclName DField)) in Hsn.
    change (position_method (pseudo_row "Field" "" "descriptor" t2)) with (Some (MDeclDesc DField)) in Hsd. cbv iota in Hsn, Hsd.
    change (self_ctx "Field" ctx' fs) with ctx' in Hsn, Hsd.
    cbn [apply_pos] in Hsn, Hsd. destruct ctx' as [this|]; [|discriminate].
    rewrite (proj2 (str_field_of fs "name" nm) En), (proj2 (str_field_of fs "descriptor" d) Ed) in Hsn, Hsd.
    cbn [decl_map] in Hsn, Hsd. destruct (map_field R this nm d) as [[nm' d']|] eqn:Em; [|discriminate].
    injection Hsn as <-. injection Hsd as <-.
    exists this, nm', d', fs1. split; [reflexivity|]. split; [exact Em|]. split; [exact Hx1|].
    split; apply str_field_of; assumption.
  - intros fs nm d Hp En Ed.
    destruct (spec_val_sub type_defs (ref_types type_defs) R p v T ctx v1 _ _ _ H Hp) as (x1 & Hx1 & Hs).
    rewrite RTo_eq in Hs. rewrite spec_val_name in Hs. change (mentions RTo (TName "Method")) with true in Hs. cbn [negb] in Hs.
    change (leaf_method "Method") with (@None meth) in Hs. change (needs_owner "Method") with false in Hs. cbv iota in Hs.
    cbn [spec_node String.eqb Ascii.eqb Bool.eqb] in Hs.
    destruct (node_fields type_defs "Method" "") as [fts|] eqn:Enf; [|discriminate].
    destruct (spec_fields type_defs RTo R ctx' "Method" "" fts fs) as [fs1|] eqn:Ef; [|discriminate]. injection Hs as <-.
    rewrite spec_fields_step in Ef.
    destruct (mapM_fields_of (step type_defs RTo R (self_ctx "Method" ctx' fs) "Method" "" fts fs) fs fs1 Ef) as [_ SF].
    apply str_field_of in En, Ed.
    pose proof (SF "name") as SFn. rewrite En in SFn. destruct SFn as (yn & Hyn & Hsn).
    pose proof (SF "descriptor") as SFd. rewrite Ed in SFd. destruct SFd as (yd & Hyd & Hsd).
    unfold step in Hsn, Hsd.
    destruct (lookup_ty fts "name") as [t1|]; [|discriminate]. destruct (lookup_ty fts "descriptor") as [t2|]; [|discriminate].
    change (position_method (pseudo_row "Method" "" "name" t1)) with (Some (MDeclName DMethod)) in Hsn.
    change (position_method (pseudo_row "Method" "" "descriptor" t2)) with (Some (MDeclDesc DMethod)) in Hsd. cbv iota in Hsn, Hsd.
    change (self_ctx "Method" ctx' fs) with ctx' in Hsn, Hsd.
    cbn [apply_pos] in Hsn, Hsd. destruct ctx' as [this|]; [|discriminate].
    rewrite (proj2 (str_field_of fs "name" nm) En), (proj2 (str_field_of fs "descriptor" d) Ed) in Hsn, Hsd.
    cbn [decl_map] in Hsn, Hsd. destruct (map_method R this nm d) as [[nm' d']|] eqn:Em; [|discriminate].
    injection Hsn as <-. injection Hsd as <-.
    exists this, nm', d', fs1. split; [reflexivity|]. split; [exact Em|]. split; [exact Hx1|].
    split; apply str_field_of; assumption.
Qed.

(* non-vacuity: in class a/A { int f; void m() { … getfield b/B.f:I … } } the path to the declared field hands a/A down,
   the path to the instruction's operand reaches the reference to b/B.f *)
Definition p_field0 : path := [PField "fields"; PIndex 0].
Definition p_getfield : path :=
  [PField "methods"; PIndex 0; PField "code"; PSome; PField "instructions"; PIndex 1; PField "instruction"; PField "0"].
Definition occ_example : Prop :=
  (exists fs, sub_ty type_defs (ref_types type_defs) p_field0 class_ty None (ex_class_of "a/A" "f" "b/B" "f")
              = Some (TName "Field", Some (bs "a/A"), VNode "Field" "" fs) /\
              str_field fs "name" = Ok (bs "f") /\ str_field fs "descriptor" = Ok (bs "I")) /\
  sub_ty type_defs (ref_types type_defs) p_getfield class_ty None (ex_class_of "a/A" "f" "b/B" "f")
    = Some (TName "FieldRef", Some (bs "a/A"), ref_node "FieldRef" (bs "b/B") (bs "f") (bs "I")) /\
  (* ex_R renames a/A.f to g and knows nothing about b/B.f: the declaration moves, the reference stays *)
  (exists v1, remap_val gen_table ex_R None class_ty (ex_class_of "a/A" "f" "b/B" "f") = Ok v1 /\
              sub p_getfield v1 = Some (ref_node "FieldRef" (bs "b/B") (bs "f") (bs "I")) /\
              exists fs1, sub p_field0 v1 = Some (VNode "Field" "" fs1) /\ str_field fs1 "name" = Ok (bs "g")).
Lemma occ_example_holds : occ_example.
Proof.
  unfold occ_example. split; [|split].
  - eexists. split; [vm_compute; reflexivity|]. split; vm_compute; reflexivity.
  - vm_compute. reflexivity.
  - eexists. split; [vm_compute; reflexivity|]. split; [vm_compute; reflexivity|].
    eexists. split; vm_compute; reflexivity.
Qed.
