(* C07 — vocabulary of the generated table (C07/RemapTable.v).  Definitions only.

   The translator (translate/c07_remap_table.py) emits
     type_defs : the struct / enum / string-newtype definitions of the duke class tree
                 (duke/src/tree/**, duke/src/visitor/** for StackMapData / VerificationTypeInfo)
     impls     : per type the shape of its `impl Mappable… for T` in dukebox/src/remap.rs
     rows      : per rebuilt struct field / enum variant payload what remap.rs does with it
   in the terms defined here. *)
From Coq Require Export List NArith Bool.
From Coq Require Import String.
Export ListNotations.

(* Rust type expressions that occur in the tree *)
Inductive rty :=
| TPrim (n : string)          (* u8 u16 i8 i16 i32 i64 f32 f64 bool JavaString *)
| TName (n : string)          (* a struct / enum / string newtype of the tree *)
| TParam                      (* the type parameter T of TypeAnnotation<T> *)
| TApp (n : string) (a : rty)  (* TypeAnnotation<TargetInfoClass> *)
| TOpt (t : rty)
| TVec (t : rty)
| TPair (a b : rty).

Inductive tdef :=
| DStr (n : string)                                              (* make_string_str_like!: a string newtype *)
| DStruct (n : string) (fields : list (string * rty * bool))      (* field, type, is `pub` (false: pub(crate)) *)
| DEnum (n : string) (variants : list (string * list (string * rty))).   (* payload fields: named, or "0","1",… *)

Definition def_name (d : tdef) : string :=
  match d with DStr n => n | DStruct n _ => n | DEnum n _ => n end.

(* which class name a `remap_with_class_name` call hands down *)
Inductive cls_arg :=
| CNone          (* `.remap(remapper)` *)
| CThisClass     (* `.remap_with_class_name(remapper, this_class)`: the caller's own argument *)
| CSelfName.     (* `.remap_with_class_name(remapper, &self.name)`: ClassFile's original name *)

Inductive decl :=
| DField | DMethod
| DRecord.   (* a record component: the field of its name — the name goes through FieldName (an error when it is no
                field name) and comes back as a RecordName *)

(* how a position is rebuilt *)
Inductive meth :=
| MClass | MClassAny                          (* remapper.map_class / map_class_any *)
| MFieldDesc | MMethodDesc | MReturnDesc      (* remapper.map_*_desc *)
| MFieldRef | MMethodRef                      (* remapper.map_field_ref / map_method_ref: owner = the reference's class *)
| MDeclName (d : decl) | MDeclDesc (d : decl) (* remapper.map_field|map_method(this_class, &self.name, &self.descriptor) .name/.desc *)
| MEnclClass | MEnclMethod                    (* EnclosingMethod: map_method_ref(method.with_class(class)) / map_class_any(class) *)
| MEnumConst                                  (* map_field(class named by type_name, const_name, type_name).name — the
                                                 specification's method for enum constants; remap.rs has no such call today *)
| MRec (c : cls_arg)                          (* delegated to the impl of the field's type (Option / Vec element-wise) *)
| MUnspecified.                               (* never produced by the translator: a reference for which the
                                                 specification names no method (forces the table theorems to fail) *)

Inductive action := Copied | Dropped | Remapped (m : meth).

Inductive impl_kind :=
| ILeaf (m : meth)            (* body is `remapper.m(self)` *)
| IIdentity                   (* body returns self unchanged (signatures — a TODO in the source —, MethodParameter) *)
| IFields (with_class : bool).  (* struct literal / exhaustive match; described by rows *)

Record row := mkRow {
  r_type : string;      (* struct or enum *)
  r_variant : string;   (* "" for structs *)
  r_field : string;     (* field name, or position "0","1" in tuple variants *)
  r_ty : rty;
  r_act : action }.

(* element type of Option / Vec nests: the type whose impl a `.remap` on the field ends up in
   (the Option / Vec impls of remap.rs are element-wise; the translator checks their bodies) *)
Fixpoint base_ty (t : rty) : rty :=
  match t with TOpt a | TVec a => base_ty a | _ => t end.
