(* C07 — entry names, continued (model: [entry_name], [remap_entries] of C07/Model.v).

   remap_jar_entry_name_java looks at the LAST SIX characters of an entry name and nothing else:
   - a directory entry (zip: the name ends in `/`) keeps its name, whatever the remapper says — also a
     directory called `x.class/`;
   - an entry `<anything>.class` is renamed by its WHOLE path: `META-INF/versions/9/a/B.class` is the
     class `META-INF/versions/9/a/B` to it.  A remapper that has no answer for that path leaves the entry
     where it is, although the class inside (a/B) is renamed: the clause "each class entry is stored under
     the name of its remapped class" holds for entries named by their class and is REFUTED for the
     multi-release layout ([multi_release_entry_not_moved]);
   - the characters of the name are never inspected otherwise: names outside ASCII go through unchanged
     resp. to the remapper as they are (the model is over code points);
   - the NoDup hypothesis of [entries_in_order] follows from the input names being distinct and the
     remapper being injective on the class entries of the jar ([entry_names_distinct],
     [remap_entries_injective]): a class entry can never land on the name of a non-class entry. *)
From Coq Require Import String.
From FB Require Import C07.Model C07.Theory.

Definition slash : N := 47.

Lemma app_last_inj {A} (p q : list A) (a b : A) : p ++ [a] = q ++ [b] -> p = q /\ a = b.
Proof. intros H. apply app_inj_tail in H. exact H. Qed.

(* no name that ends in `/` ends in `.class` *)
Lemma dir_not_class (p base : str) : p ++ [slash] <> base ++ dot_class.
Proof.
  intros H. unfold dot_class in H.
  change (base ++ [46; 99; 108; 97; 115; 115]) with (base ++ [46; 99; 108; 97; 115] ++ [115]) in H.
  rewrite app_assoc in H. apply app_last_inj in H. destruct H as [_ H]. discriminate H.
Qed.

(* a directory entry keeps its name *)
Lemma entry_name_dir R p : entry_name R (p ++ [slash]) = Ok (p ++ [slash]).
Proof.
  destruct (entry_name_spec R (p ++ [slash])) as [_ H]. apply H. intros base. apply dir_not_class.
Qed.

(* an entry is renamed by its whole path *)
Lemma entry_name_path R prefix base :
  entry_name R (prefix ++ base ++ dot_class) =
  match map_class R (prefix ++ base) with Ok n => Ok (n ++ dot_class) | Err => Err end.
Proof.
  destruct (entry_name_spec R (prefix ++ base ++ dot_class)) as [H _].
  apply H. rewrite app_assoc. reflexivity.
Qed.

(* … so an entry under a prefix the remapper knows nothing about stays where it is *)
Lemma entry_name_prefixed_kept R prefix base :
  rm_class R (prefix ++ base) = Ok None ->
  entry_name R (prefix ++ base ++ dot_class) = Ok (prefix ++ base ++ dot_class).
Proof.
  intros H. rewrite entry_name_path. unfold map_class. rewrite H. rewrite app_assoc. reflexivity.
Qed.

(* "each class entry is stored under the name of its remapped class", for an entry [name] holding the
   class [cls] *)
Definition stored_under_remapped_class (R : remapper) (name cls : str) : Prop :=
  match map_class R cls with
  | Ok n => entry_name R name = Ok (n ++ dot_class)
  | Err => entry_name R name = Err
  end.

(* it holds when the entry is named by its class (the hypothesis of the property's check) … *)
Lemma stored_under_remapped_class_holds R cls : stored_under_remapped_class R (cls ++ dot_class) cls.
Proof.
  unfold stored_under_remapped_class. destruct (entry_name_spec R (cls ++ dot_class)) as [H _].
  rewrite (H cls eq_refl). destruct (map_class R cls); reflexivity.
Qed.

(* … and fails for the multi-release layout: META-INF/versions/9/a/B.class holding a/B, a/B -> x/Y *)
Definition mr_prefix : str := [77;69;84;65;45;73;78;70;47;118;101;114;115;105;111;110;115;47;57;47].  (* META-INF/versions/9/ *)
Definition mr_R : remapper :=
  mkRemapper (fun c => Ok (if str_eqb c [97;47;66] then Some [120;47;89] else None))
             (fun _ _ _ => Ok None) (fun _ _ _ => Ok None).
Definition multi_release_entry_not_moved_stmt : Prop :=
  exists R prefix cls,
    map_class R cls <> Ok cls /\
    entry_name R (prefix ++ cls ++ dot_class) = Ok (prefix ++ cls ++ dot_class) /\
    ~ stored_under_remapped_class R (prefix ++ cls ++ dot_class) cls.
Lemma multi_release_entry_not_moved : multi_release_entry_not_moved_stmt.
Proof.
  exists mr_R, mr_prefix, [97;47;66]. split; [|split].
  - vm_compute. discriminate.
  - vm_compute. reflexivity.
  - unfold stored_under_remapped_class. vm_compute. discriminate.
Qed.
(* the unrestricted clause, NOT proved (false by the lemma above) *)
Definition stored_under_remapped_class_full : Prop :=
  forall R name cls, stored_under_remapped_class R name cls.

(* ------------------------------------------------------------------ *)
(* distinct input names + a remapper that is injective on the class entries => distinct output names *)

Definition class_base (name : str) : option str := strip_suffix dot_class name.

Definition injective_on (R : remapper) (names : list str) : Prop :=
  forall a b ba bb, In a names -> In b names -> class_base a = Some ba -> class_base b = Some bb ->
                    map_class R ba = map_class R bb -> ba = bb.

Lemma entry_name_class_base R name :
  entry_name R name =
  match class_base name with
  | Some base => match map_class R base with Ok n => Ok (n ++ dot_class) | Err => Err end
  | None => Ok name
  end.
Proof. unfold entry_name, class_base. rewrite class_suffix_is_dot_class. reflexivity. Qed.

Lemma entry_name_inj R names a b o :
  injective_on R names -> In a names -> In b names ->
  entry_name R a = Ok o -> entry_name R b = Ok o -> a = b.
Proof.
  intros Hinj Ha Hb. rewrite !entry_name_class_base.
  destruct (class_base a) as [ba|] eqn:Ea; destruct (class_base b) as [bb|] eqn:Eb.
  - destruct (map_class R ba) as [na|] eqn:Ma; [|discriminate].
    destruct (map_class R bb) as [nb|] eqn:Mb; [|discriminate].
    intros [= <-] [= H]. apply app_inv_tail in H. subst nb.
    assert (ba = bb) by (apply (Hinj a b ba bb Ha Hb Ea Eb); rewrite Ma, Mb; reflexivity). subst bb.
    apply strip_suffix_spec in Ea. apply strip_suffix_spec in Eb. congruence.
  - (* a class entry cannot land on the name of a non-class entry *)
    destruct (map_class R ba) as [na|]; [|discriminate]. intros [= <-] [= H].
    exfalso. apply (proj1 (strip_suffix_none dot_class b) Eb na). exact H.
  - destruct (map_class R bb) as [nb|]; [|discriminate]. intros [= <-] [= H].
    exfalso. apply (proj1 (strip_suffix_none dot_class a) Ea nb). symmetry. exact H.
  - intros [= <-] [= <-]. reflexivity.
Qed.

Fixpoint names_spec (R : remapper) (names : list str) : res (list str) :=
  match names with
  | [] => Ok []
  | n :: r => match entry_name R n, names_spec R r with Ok n', Ok l => Ok (n' :: l) | _, _ => Err end
  end.

Lemma names_spec_In R names : forall outs o, names_spec R names = Ok outs -> In o outs ->
  exists a, In a names /\ entry_name R a = Ok o.
Proof.
  induction names as [|n r IH]; cbn [names_spec]; intros outs o.
  - intros [= <-] [].
  - destruct (entry_name R n) as [n'|] eqn:E; [|discriminate].
    destruct (names_spec R r) as [l|]; [|discriminate]. intros [= <-] [<-|Hin].
    + exists n. split; [left; reflexivity|exact E].
    + destruct (IH l o eq_refl Hin) as (a & Ha & Ea). exists a. split; [right; exact Ha|exact Ea].
Qed.

Lemma entry_names_distinct_aux R all : injective_on R all ->
  forall names outs, (forall a, In a names -> In a all) -> NoDup names -> names_spec R names = Ok outs -> NoDup outs.
Proof.
  intros Hinj. induction names as [|n r IH]; cbn [names_spec]; intros outs Hsub Hnd.
  - intros [= <-]. constructor.
  - destruct (entry_name R n) as [n'|] eqn:E; [|discriminate].
    destruct (names_spec R r) as [l|] eqn:El; [|discriminate]. intros [= <-].
    inversion Hnd as [|? ? Hnotin Hnd']; subst. constructor.
    + intros Hin. destruct (names_spec_In R r l n' El Hin) as (a & Ha & Ea).
      assert (a = n) by (apply (entry_name_inj R all a n n' Hinj); [apply Hsub; right; exact Ha|apply Hsub; left; reflexivity|exact Ea|exact E]).
      subst a. exact (Hnotin Ha).
    + apply (IH l); [intros a Ha; apply Hsub; right; exact Ha|exact Hnd'|reflexivity].
Qed.

Definition entry_names_distinct_stmt : Prop :=
  forall R names outs, NoDup names -> injective_on R names -> names_spec R names = Ok outs -> NoDup outs.
Lemma entry_names_distinct : entry_names_distinct_stmt.
Proof. intros R names outs Hnd Hinj H. exact (entry_names_distinct_aux R names Hinj names outs (fun a Ha => Ha) Hnd H). Qed.

Lemma entries_spec_names {A B} R (f : str -> A -> res B) es :
  forall l, entries_spec R f es = Ok l -> names_spec R (map fst es) = Ok (map fst l).
Proof.
  induction es as [|[name a] es IH]; cbn [entries_spec names_spec map fst]; intros l.
  - intros [= <-]. reflexivity.
  - destruct (entry_name R name) as [n'|]; [|discriminate].
    destruct (f name a) as [b|]; [|discriminate].
    destruct (entries_spec R f es) as [l'|]; [|discriminate]. intros [= <-].
    rewrite (IH l' eq_refl). reflexivity.
Qed.

(* the entry loop without the NoDup hypothesis on the OUTPUT: distinct input names and a remapper that is
   injective on the jar's class entries are enough *)
Definition remap_entries_injective_stmt : Prop :=
  forall (A B : Type) (R : remapper) (f : str -> A -> res B) (es : list (str * A)) (l : list (str * B)),
    NoDup (map fst es) -> injective_on R (map fst es) ->
    entries_spec R f es = Ok l -> remap_entries R f es = Ok l.
Lemma remap_entries_injective : remap_entries_injective_stmt.
Proof.
  intros A B R f es l Hnd Hinj Hs. apply entries_in_order; [exact Hs|].
  apply (entry_names_distinct R (map fst es) (map fst l) Hnd Hinj). apply (entries_spec_names R f es l Hs).
Qed.

(* non-vacuity: a jar with a renamed class, an unmapped class, a directory named like a class, a resource outside ASCII
   and a multi-release entry; ex_R (a/A -> x/Y) is injective on it *)
Definition ex_names : list str :=
  [ [97;47;65] ++ dot_class;                  (* a/A.class *)
    [98;47;66] ++ dot_class;                  (* b/B.class *)
    [111;100;100] ++ dot_class ++ [slash];    (* odd.class/ *)
    [100;111;110;110;233;101;115;47;25991;20214;32;119964;46;116;120;116];   (* données/文件 𝒜.txt *)
    mr_prefix ++ [97;47;65] ++ dot_class ].   (* META-INF/versions/9/a/A.class *)
Definition entry_examples_stmt : Prop :=
  NoDup ex_names /\ injective_on ex_R ex_names /\
  names_spec ex_R ex_names =
    Ok [ [120;47;89] ++ dot_class; [98;47;66] ++ dot_class; [111;100;100] ++ dot_class ++ [slash];
         [100;111;110;110;233;101;115;47;25991;20214;32;119964;46;116;120;116];
         mr_prefix ++ [97;47;65] ++ dot_class ].
Lemma entry_examples : entry_examples_stmt.
Proof.
  split; [|split].
  - unfold ex_names. repeat (constructor; [vm_compute; intuition discriminate|]). constructor.
  - intros a b ba bb Ha Hb Ea Eb Hm.
    unfold ex_names in Ha, Hb. cbn [In] in Ha, Hb.
    repeat (destruct Ha as [<-|Ha]; [|]); try contradiction;
    repeat (destruct Hb as [<-|Hb]; [|]); try contradiction;
    vm_compute in Ea; vm_compute in Eb; try discriminate;
    injection Ea as <-; injection Eb as <-; vm_compute in Hm; try discriminate; reflexivity.
  - vm_compute. reflexivity.
Qed.

(* ------------------------------------------------------------------ *)
(* the content of the entries ([remap_content], [remap_jar] of C07/Model.v) *)

(* the entries that are READ AS CLASSES (zip_impls.rs) are exactly the entries that are RENAMED AS CLASSES (remap.rs):
   both suffix literals, regenerated from the two source files, are `.class` *)
Lemma zip_class_suffix_is_dot_class : zip_class_suffix = dot_class.
Proof. reflexivity. Qed.
Definition class_suffixes_agree_stmt : Prop := zip_class_suffix = class_suffix.
Lemma class_suffixes_agree : class_suffixes_agree_stmt.
Proof. unfold class_suffixes_agree_stmt. rewrite zip_class_suffix_is_dot_class, class_suffix_is_dot_class. reflexivity. Qed.

(* what `remap` returns for one entry, entry by entry (input order), whenever it succeeds:
   - an entry that is no class entry (its name does not end in `.class`) keeps its NAME and its CONTENT — a directory stays a
     directory, any other entry keeps its bytes;
   - a class entry that is not a directory is stored under map_class(name without `.class`) + `.class` and holds what
     remap_class makes of its bytes *)
Definition entry_out {C} (R : remapper) (rc : list N -> res C) (e : str * (bool * list N)) (o : str * content C) : Prop :=
  ((forall base, fst e <> base ++ dot_class) ->
     fst o = fst e /\ snd o = (if fst (snd e) then KDir else KOther (snd (snd e)))) /\
  (forall base, fst e = base ++ dot_class ->
     (exists n, map_class R base = Ok n /\ fst o = n ++ dot_class) /\
     (if fst (snd e) then snd o = KDir else exists c, rc (snd (snd e)) = Ok c /\ snd o = KClass c)).

Lemma entries_spec_out {C} R (rc : list N -> res C) : forall es l,
  entries_spec R (remap_content rc) es = Ok l -> Forall2 (entry_out R rc) es l.
Proof.
  induction es as [|[name [d data]] es IH]; cbn [entries_spec]; intros l.
  - intros [= <-]. constructor.
  - destruct (entry_name R name) as [n'|] eqn:En; [|discriminate].
    destruct (remap_content rc name (d, data)) as [b|] eqn:Ec; [|discriminate].
    destruct (entries_spec R (remap_content rc) es) as [l'|]; [|discriminate]. intros [= <-].
    constructor; [|apply IH; reflexivity]. unfold entry_out. cbn [fst snd].
    unfold remap_content in Ec. cbn [fst snd] in Ec. rewrite zip_class_suffix_is_dot_class in Ec.
    destruct (entry_name_spec R name) as [Hc Ho]. split.
    + intros Hno. rewrite (Ho Hno) in En. injection En as <-. split; [reflexivity|].
      destruct d; [injection Ec as <-; reflexivity|].
      rewrite (proj2 (strip_suffix_none dot_class name) Hno) in Ec. injection Ec as <-. reflexivity.
    + intros base Hb. rewrite (Hc base Hb) in En. split.
      * destruct (map_class R base) as [n|]; [|discriminate]. injection En as <-. exists n. split; reflexivity.
      * destruct d; [injection Ec as <-; reflexivity|].
        rewrite (proj2 (strip_suffix_spec dot_class name base) Hb) in Ec. destruct (rc data) as [c|]; [|discriminate]. injection Ec as <-.
        exists c. split; reflexivity.
Qed.

(* … and `remap` returns exactly that list when the input names are distinct and the remapper is injective on the class
   entries; it fails as a whole when one name or one class fails *)
Definition remap_jar_spec_stmt : Prop :=
  forall (C : Type) (R : remapper) (rc : list N -> res C) (es : list (str * (bool * list N))) (l : list (str * content C)),
    NoDup (map fst es) -> injective_on R (map fst es) ->
    entries_spec R (remap_content rc) es = Ok l ->
    remap_jar R rc es = Ok l /\ Forall2 (entry_out R rc) es l.
Lemma remap_jar_spec : remap_jar_spec_stmt.
Proof.
  intros C R rc es l Hnd Hinj Hs. split; [exact (remap_entries_injective _ _ R (remap_content rc) es l Hnd Hinj Hs)|].
  exact (entries_spec_out R rc es l Hs).
Qed.

(* non-vacuity: [ex_names] with contents — a class (bytes [1]), another class, a directory named like a class, a resource,
   a multi-release class entry; `rc` doubles the bytes *)
Definition ex_jar : list (str * (bool * list N)) :=
  combine ex_names [(false, [1]); (false, [2]); (true, []); (false, [3; 4]); (false, [5])].
Definition content_example_stmt : Prop :=
  remap_jar ex_R (fun d => Ok (d ++ d)) ex_jar =
    Ok (combine [ [120;47;89] ++ dot_class; [98;47;66] ++ dot_class; [111;100;100] ++ dot_class ++ [slash];
                  [100;111;110;110;233;101;115;47;25991;20214;32;119964;46;116;120;116];
                  mr_prefix ++ [97;47;65] ++ dot_class ]
                [KClass [1; 1]; KClass [2; 2]; KDir; KOther [3; 4]; KClass [5; 5]]).
Lemma content_example : content_example_stmt.
Proof. vm_compute. reflexivity. Qed.
