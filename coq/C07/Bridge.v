(* C07 — BRIDGE to the class writer (C02): the reference operands of the instructions of a remapped class, in the
   bytes of the written class file.

   Three models of duke's class tree exist: C07's [val] (generic, typed by the regenerated type definitions; strings
   are code points), C02's [cclass] (the input of the writer model [write_class_aux]; strings are modified-UTF-8
   bytes, an instruction with a pool operand is [ICp opcode-bytes constant trailing-bytes]) and C01's [class_desc]
   (what the reader model delivers).  This file connects the first two on the part of the tree all of them cover in
   the same way: the instructions that carry a class, field or method reference as their direct operand.

   - [op_ref]: the operand of such an instruction of a C07 tree value, with its JVMS opcode (JVMS 6.5: new 187,
     anewarray 189, checkcast 192, instanceof 193, multianewarray 197 + dimensions, getstatic 178, putstatic 179,
     getfield 180, putfield 181, invokevirtual 182, invokespecial 183, invokestatic 184; the bool of
     InvokeSpecial / InvokeStatic chooses CONSTANT_InterfaceMethodref).
   - [cinsn_of]: that operand as C02's writer takes it ([mutf8]: C02's JVMS 4.4.7 encoder).
   - [remap_oref]: what the remapper answers for the operand.
   - [insn_commutes]: the projection commutes with remapping — the operand of the remapped instruction is the
     remapped operand of the instruction (from the specification [spec_val], hence for [remap_val gen_table]).
   - [written_operands]: composition with C02's theorems (code_operands_resolve of TheoryC10.v, lifted to whole classes in C07/BridgeLift.v as bootstrap_resolves of TheoryB2.v is): for every well-typed
     class v, remapper R, and every writer input t whose instruction lists carry the operands of the remapped tree
     ([code_views]), in the class file [write_class_aux t] writes, at the position of every such instruction of the
     ORIGINAL tree, stand the opcode and an index that designates — in every decoder view of the written constant
     pool, through C02's kind-checked getters — the constant of what the remapper answers for the ORIGINAL operand.

   What this is not: a theorem about C01's reader ([C01.ClassFile.read_class]).  See props/c07.py
   (stated_not_proved) for the bridge lemmas that are missing for that. *)
From Coq Require Import String Lia ZArith.
From FB Require Import C07.BridgeDefs C07.Model C07.Spec C07.Theory C07.Tree C07.TreeTheory C07.Laws C07.Laws2 C07.Occ.
From FB Require C02.Class C02.Decode C02.TheoryC1 C02.TheoryC2 C02.TheoryC8 C02.TheoryC10 C02.TheoryB2 C07.BridgeLift.
Local Open Scope string_scope.

(* the instruction k of method j of a class *)
Definition insn_path (j k : nat) : path :=
  [PField "methods"; PIndex j; PField "code"; PSome; PField "instructions"; PIndex k; PField "instruction"].

(* ------------------------------------------------------------------ *)
(* 2. paths through struct types, followed along the types only *)

Fixpoint ty_walk (defs : list tdef) (S : list string) (p : path) (T : rty) : option rty :=
  match p with
  | [] => Some T
  | s :: p' =>
      if negb (mentions S T) then None else
      match s, T with
      | PSome, TOpt a => ty_walk defs S p' a
      | PIndex _, TVec a => ty_walk defs S p' a
      | PField k, TName n =>
          match leaf_method n, lookup_def defs n with
          | None, Some (DStruct _ _) =>
              match node_fields defs n "" with
              | Some fts =>
                  match lookup_ty fts k with
                  | Some t => match position_method (pseudo_row n "" k t) with
                              | Some _ => None
                              | None => ty_walk defs S p' t
                              end
                  | None => None
                  end
              | None => None
              end
          | _, _ => None
          end
      | _, _ => None
      end
  end.

Lemma field_of_In fs k x : field_of fs k = Ok x -> In (k, x) fs.
Proof.
  unfold field_of. destruct (find (fun p => fst p =? k) fs) as [p|] eqn:E; [|discriminate].
  intros [= <-]. apply find_some in E. destruct E as [Hin He]. apply String.eqb_eq in He.
  destruct p as [a b]. cbn [fst snd] in *. subst a. exact Hin.
Qed.

Lemma node_fields_struct defs n nm fs0 c fts :
  lookup_def defs n = Some (DStruct nm fs0) -> node_fields defs n c = Some fts -> c = "".
Proof.
  unfold node_fields. intros ->. destruct (c =? "") eqn:E; [|discriminate]. intros _. apply String.eqb_eq. exact E.
Qed.

Lemma sub_ty_typed defs S : forall p T ctx v x T',
  ty_walk defs S p T = Some T' -> has_ty defs T v = true -> sub p v = Some x ->
  exists ctx', sub_ty defs S p T ctx v = Some (T', ctx', x) /\ has_ty defs T' x = true.
Proof.
  induction p as [|s p IH]; intros T ctx v x T' Hw Hty Hs.
  - cbn [ty_walk] in Hw. cbn [sub] in Hs. injection Hw as <-. injection Hs as <-. exists ctx. split; [reflexivity|exact Hty].
  - cbn [ty_walk] in Hw. cbn [sub_ty]. destruct (mentions S T) eqn:Em; [|discriminate]. cbn [negb] in Hw |- *.
    destruct s as [k|i| | |]; try discriminate.
    + (* a field of a struct *)
      destruct T as [q|n| |n a|a|a|a b]; try discriminate.
      destruct (leaf_method n) eqn:El; [discriminate|].
      destruct (lookup_def defs n) as [[nm|nm fs0|nm vs]|] eqn:Ed; try discriminate.
      destruct (node_fields defs n "") as [fts|] eqn:En; [|discriminate].
      destruct (lookup_ty fts k) as [t|] eqn:Et; [|discriminate].
      destruct (position_method (pseudo_row n "" k t)) eqn:Ep; [discriminate|].
      destruct v as [| |n' c fs| | | |]; try discriminate.
      cbn [sub] in Hs. destruct (field_of fs k) as [y|] eqn:Ey; [|discriminate].
      destruct (has_ty_node_inv defs (TName n) n n' c fs (or_introl eq_refl) Hty) as (Hn & fts' & Hnf & Hall).
      pose proof (node_fields_struct defs n nm fs0 c fts' Ed Hnf) as ->. rewrite En in Hnf. injection Hnf as <-.
      rewrite Hn. cbn [negb]. rewrite En, Et, Ep.
      destruct (Hall (k, y) (field_of_In fs k y Ey)) as (t0 & Ht0 & Hty0). cbn [fst snd] in Ht0, Hty0.
      rewrite Et in Ht0. injection Ht0 as <-.
      exact (IH t (self_ctx n ctx fs) y x T' Hw Hty0 Hs).
    + (* an element of a Vec *)
      destruct T as [q|n| |n a|a|a|a b]; try discriminate.
      destruct v as [| | |l| | |]; try discriminate.
      cbn [sub] in Hs. destruct (nth_error l i) as [y|] eqn:Ey; [|discriminate].
      cbn [has_ty] in Hty. rewrite forallb_forall in Hty. specialize (Hty y (nth_error_In l i Ey)).
      exact (IH a ctx y x T' Hw Hty Hs).
    + (* inside Some *)
      destruct T as [q|n| |n a|a|a|a b]; try discriminate.
      destruct v as [| | | | |y|]; try discriminate.
      cbn [sub] in Hs. cbn [has_ty] in Hty. exact (IH a ctx y x T' Hw Hty Hs).
Qed.

Lemma sub_ty_app defs S : forall p q T ctx v T1 ctx1 x,
  sub_ty defs S p T ctx v = Some (T1, ctx1, x) ->
  sub_ty defs S (p ++ q)%list T ctx v = sub_ty defs S q T1 ctx1 x.
Proof.
  induction p as [|s p IH]; intros q T ctx v T1 ctx1 x H.
  - cbn [sub_ty] in H. injection H as <- <- <-. reflexivity.
  - cbn [app sub_ty] in H |- *. destruct (negb (mentions S T)); [discriminate|].
    destruct s as [k|i| | |].
    + destruct T as [a|n| |n a|a|a|a b]; try discriminate; destruct v as [| |n' c fs| | | |]; try discriminate.
      * destruct (leaf_method n); [discriminate|]. destruct (negb (n' =? n)); [discriminate|].
        destruct (node_fields defs n c) as [fts|]; [|discriminate].
        destruct (lookup_ty fts k) as [t|]; [|discriminate]. destruct (field_of fs k) as [y|]; [|discriminate].
        destruct (position_method (pseudo_row n c k t)); [discriminate|]. exact (IH q _ _ _ _ _ _ H).
      * destruct (negb (n' =? n)); [discriminate|].
        destruct (node_fields defs n c) as [fts|]; [|discriminate].
        destruct (lookup_ty fts k) as [t|]; [|discriminate]. destruct (field_of fs k) as [y|]; [|discriminate].
        destruct (position_method (pseudo_row n c k t)); [discriminate|]. exact (IH q _ _ _ _ _ _ H).
    + destruct T as [a|n| |n a|a|a|a b]; try discriminate; destruct v as [| | |l| | |]; try discriminate.
      destruct (nth_error l i) as [y|]; [|discriminate]. exact (IH q _ _ _ _ _ _ H).
    + destruct T as [a|n| |n a|a|a|a b]; try discriminate; destruct v as [| | | | |y|]; try discriminate.
      exact (IH q _ _ _ _ _ _ H).
    + destruct T as [a|n| |n a|a|a|a b]; try discriminate; destruct v as [| | | | | |y z]; try discriminate.
      exact (IH q _ _ _ _ _ _ H).
    + destruct T as [a|n| |n a|a|a|a b]; try discriminate; destruct v as [| | | | | |y z]; try discriminate.
      exact (IH q _ _ _ _ _ _ H).
Qed.

(* ------------------------------------------------------------------ *)
(* 3. the projection commutes with remapping *)

Definition insn_t : rty := TName "Instruction".

Lemma spec_insn_inv R ctx c fs i' :
  spec_val type_defs RTo R ctx insn_t (VNode "Instruction" c fs) = Ok i' ->
  exists fts fs1, node_fields type_defs "Instruction" c = Some fts /\ i' = VNode "Instruction" c fs1 /\
    forall k, match field_of fs k with
              | Ok x => exists y, field_of fs1 k = Ok y /\ step type_defs RTo R ctx "Instruction" c fts fs k x = Ok y
              | Err => field_of fs1 k = Err
              end.
Proof.
  unfold insn_t. rewrite spec_val_name. change (mentions RTo (TName "Instruction")) with true. cbn [negb].
  change (leaf_method "Instruction") with (@None meth). change (needs_owner "Instruction") with false. cbv iota.
  cbn [spec_node String.eqb Ascii.eqb Bool.eqb].
  destruct (node_fields type_defs "Instruction" c) as [fts|]; [|discriminate].
  destruct (spec_fields type_defs RTo R ctx "Instruction" c fts fs) as [fs1|] eqn:Ef; [|discriminate]. intros [= <-].
  rewrite spec_fields_step in Ef. change (self_ctx "Instruction" ctx fs) with ctx in Ef.
  destruct (mapM_fields_of (step type_defs RTo R ctx "Instruction" c fts fs) fs fs1 Ef) as [_ SF].
  exists fts, fs1. split; [reflexivity|]. split; [reflexivity|exact SF].
Qed.

Lemma step_leaf R ctx c fts fs k tn m x :
  lookup_ty fts k = Some (TName tn) -> position_method (pseudo_row "Instruction" c k (TName tn)) = None ->
  mentions RTo (TName tn) = true -> leaf_method tn = Some m ->
  step type_defs RTo R ctx "Instruction" c fts fs k x = apply_leaf R m x.
Proof. intros H1 H2 H3 H4. unfold step. rewrite H1, H2, spec_val_name, H3, H4. reflexivity. Qed.

Lemma step_prim R ctx c fts fs k q x :
  lookup_ty fts k = Some (TPrim q) -> position_method (pseudo_row "Instruction" c k (TPrim q)) = None ->
  step type_defs RTo R ctx "Instruction" c fts fs k x = Ok x.
Proof. intros H1 H2. unfold step. rewrite H1, H2. apply spec_val_nomention. reflexivity. Qed.

Lemma ref3_of_set n k fs c nm d c' nm' d' :
  ref3_of (VNode n k fs) = Some (c, nm, d) ->
  ref3_of (VNode n k (set_field "class" (VStr c') (set_field "name" (VStr nm') (set_field "desc" (VStr d') fs)))) = Some (c', nm', d').
Proof.
  cbn [ref3_of]. destruct (str_field fs "class") as [c0|] eqn:Ec; [|discriminate].
  destruct (str_field fs "name") as [n0|] eqn:En; [|discriminate].
  destruct (str_field fs "desc") as [d0|] eqn:Ed; [|discriminate]. intros _.
  apply str_field_of in Ec, En, Ed.
  rewrite (str_field_set_same "class" c' _ (VStr c0)).
  2:{ rewrite field_of_set_other by discriminate. rewrite field_of_set_other by discriminate. exact Ec. }
  rewrite str_field_set_other by discriminate. rewrite (str_field_set_same "name" nm' _ (VStr n0)).
  2:{ rewrite field_of_set_other by discriminate. exact En. }
  rewrite str_field_set_other by discriminate. rewrite str_field_set_other by discriminate.
  rewrite (str_field_set_same "desc" d' _ (VStr d0) Ed). reflexivity.
Qed.

Lemma ref3_of_fields r c nm d : ref3_of r = Some (c, nm, d) ->
  exists n k fs, r = VNode n k fs /\ str_field fs "class" = Ok c /\ str_field fs "name" = Ok nm /\ str_field fs "desc" = Ok d.
Proof.
  destruct r as [| |n k fs| | | |]; try discriminate. cbn [ref3_of].
  destruct (str_field fs "class") as [c0|] eqn:Ec; [|discriminate]. destruct (str_field fs "name") as [n0|] eqn:En; [|discriminate].
  destruct (str_field fs "desc") as [d0|] eqn:Ed; [|discriminate]. intros [= <- <- <-]. exists n, k, fs. split; [reflexivity|]. split; [exact Ec|]. split; [exact En|exact Ed].
Qed.

(* the three kinds of operand *)
Lemma class_op_commutes R ctx c fts fs fs1 op post o :
  (forall k, match field_of fs k with
             | Ok x => exists y, field_of fs1 k = Ok y /\ step type_defs RTo R ctx "Instruction" c fts fs k x = Ok y
             | Err => field_of fs1 k = Err
             end) ->
  lookup_ty fts "0" = Some (TName "ClassName") -> position_method (pseudo_row "Instruction" c "0" (TName "ClassName")) = None ->
  class_op op fs post = Some o ->
  exists o', remap_oref R o = Ok o' /\ class_op op fs1 post = Some o'.
Proof.
  intros SF Ht Hp. unfold class_op. destruct (str_field fs "0") as [c0|] eqn:E0; [|discriminate]. intros [= <-].
  apply str_field_of in E0. pose proof (SF "0") as S0. rewrite E0 in S0. destruct S0 as (y & Hy & Hs).
  rewrite (step_leaf R ctx c fts fs "0" "ClassName" MClassAny _ Ht Hp eq_refl eq_refl) in Hs.
  cbn [apply_leaf apply_str] in Hs. cbn [remap_oref].
  destruct (map_class_any R c0) as [c1|]; [|discriminate]. injection Hs as <-.
  exists (OClass op c1 post). split; [reflexivity|]. rewrite (proj2 (str_field_of fs1 "0" c1) Hy). reflexivity.
Qed.

Lemma field_op_commutes R ctx c fts fs fs1 op o :
  (forall k, match field_of fs k with
             | Ok x => exists y, field_of fs1 k = Ok y /\ step type_defs RTo R ctx "Instruction" c fts fs k x = Ok y
             | Err => field_of fs1 k = Err
             end) ->
  lookup_ty fts "0" = Some (TName "FieldRef") -> position_method (pseudo_row "Instruction" c "0" (TName "FieldRef")) = None ->
  field_op op fs = Some o ->
  exists o', remap_oref R o = Ok o' /\ field_op op fs1 = Some o'.
Proof.
  intros SF Ht Hp. unfold field_op. destruct (field_of fs "0") as [r|] eqn:E0; [|discriminate].
  destruct (ref3_of r) as [[[c0 n0] d0]|] eqn:Er; [|discriminate]. intros [= <-].
  pose proof (SF "0") as S0. rewrite E0 in S0. destruct S0 as (y & Hy & Hs).
  rewrite (step_leaf R ctx c fts fs "0" "FieldRef" MFieldRef _ Ht Hp eq_refl eq_refl) in Hs.
  destruct (ref3_of_fields r c0 n0 d0 Er) as (n & k & rfs & -> & Ec & En & Ed).
  cbn [apply_leaf apply_ref] in Hs. rewrite Ec, En, Ed in Hs. cbn [remap_oref].
  destruct (map_field_ref R (c0, n0, d0)) as [[[c1 n1] d1]|]; [|discriminate]. injection Hs as <-.
  exists (OField op c1 n1 d1). split; [reflexivity|]. rewrite Hy. rewrite (ref3_of_set n k rfs c0 n0 d0 c1 n1 d1 Er). reflexivity.
Qed.

Lemma method_op_commutes R ctx c fts fs fs1 op b o :
  (forall k, match field_of fs k with
             | Ok x => exists y, field_of fs1 k = Ok y /\ step type_defs RTo R ctx "Instruction" c fts fs k x = Ok y
             | Err => field_of fs1 k = Err
             end) ->
  lookup_ty fts "0" = Some (TName "MethodRef") -> position_method (pseudo_row "Instruction" c "0" (TName "MethodRef")) = None ->
  method_op op b fs = Some o ->
  exists o', remap_oref R o = Ok o' /\ method_op op b fs1 = Some o'.
Proof.
  intros SF Ht Hp. unfold method_op. destruct (field_of fs "0") as [r|] eqn:E0; [|discriminate].
  destruct (ref3_of r) as [[[c0 n0] d0]|] eqn:Er; [|discriminate]. intros [= <-].
  pose proof (SF "0") as S0. rewrite E0 in S0. destruct S0 as (y & Hy & Hs).
  rewrite (step_leaf R ctx c fts fs "0" "MethodRef" MMethodRef _ Ht Hp eq_refl eq_refl) in Hs.
  destruct (ref3_of_fields r c0 n0 d0 Er) as (n & k & rfs & -> & Ec & En & Ed).
  cbn [apply_leaf apply_ref] in Hs. rewrite Ec, En, Ed in Hs. cbn [remap_oref].
  destruct (map_method_ref R (c0, n0, d0)) as [[[c1 n1] d1]|]; [|discriminate]. injection Hs as <-.
  exists (OMethod op b c1 n1 d1). split; [reflexivity|]. rewrite Hy. rewrite (ref3_of_set n k rfs c0 n0 d0 c1 n1 d1 Er). reflexivity.
Qed.

Lemma iface_op_commutes R ctx c fts fs fs1 o :
  (forall k, match field_of fs k with
             | Ok x => exists y, field_of fs1 k = Ok y /\ step type_defs RTo R ctx "Instruction" c fts fs k x = Ok y
             | Err => field_of fs1 k = Err
             end) ->
  lookup_ty fts "0" = Some (TName "MethodRef") -> position_method (pseudo_row "Instruction" c "0" (TName "MethodRef")) = None ->
  iface_op fs = Some o ->
  exists o', remap_oref R o = Ok o' /\ iface_op fs1 = Some o'.
Proof.
  intros SF Ht Hp. unfold iface_op. destruct (field_of fs "0") as [r|] eqn:E0; [|discriminate].
  destruct (ref3_of r) as [[[c0 n0] d0]|] eqn:Er; [|discriminate]. intros [= <-].
  pose proof (SF "0") as S0. rewrite E0 in S0. destruct S0 as (y & Hy & Hs).
  rewrite (step_leaf R ctx c fts fs "0" "MethodRef" MMethodRef _ Ht Hp eq_refl eq_refl) in Hs.
  destruct (ref3_of_fields r c0 n0 d0 Er) as (n & k & rfs & -> & Ec & En & Ed).
  cbn [apply_leaf apply_ref] in Hs. rewrite Ec, En, Ed in Hs. cbn [remap_oref].
  destruct (map_method_ref R (c0, n0, d0)) as [[[c1 n1] d1]|]; [|discriminate]. injection Hs as <-.
  exists (OIface c1 n1 d1). split; [reflexivity|]. rewrite Hy. rewrite (ref3_of_set n k rfs c0 n0 d0 c1 n1 d1 Er). reflexivity.
Qed.

(* a primitive field (the bool of InvokeSpecial / InvokeStatic, the dimensions of MultiANewArray) comes out as it went in *)
Lemma prim_field_kept R ctx c fts fs fs1 k q :
  (forall k, match field_of fs k with
             | Ok x => exists y, field_of fs1 k = Ok y /\ step type_defs RTo R ctx "Instruction" c fts fs k x = Ok y
             | Err => field_of fs1 k = Err
             end) ->
  lookup_ty fts k = Some (TPrim q) -> position_method (pseudo_row "Instruction" c k (TPrim q)) = None ->
  field_of fs1 k = field_of fs k.
Proof.
  intros SF Ht Hp. pose proof (SF k) as S0. destruct (field_of fs k) as [x|] eqn:E; [|exact S0].
  destruct S0 as (y & Hy & Hs). rewrite (step_prim R ctx c fts fs k q x Ht Hp) in Hs. injection Hs as <-. exact Hy.
Qed.

Theorem insn_commutes R ctx i i' o :
  spec_val type_defs RTo R ctx insn_t i = Ok i' -> op_ref i = Some o ->
  exists o', remap_oref R o = Ok o' /\ op_ref i' = Some o'.
Proof.
  intros Hs Ho. destruct i as [| |n c fs| | | |]; try discriminate. cbn [op_ref] in Ho.
  destruct (n =? "Instruction") eqn:En; [|discriminate]. apply String.eqb_eq in En. subst n. cbn [negb] in Ho.
  destruct (spec_insn_inv R ctx c fs i' Hs) as (fts & fs1 & Hnf & -> & SF).
  cbn [op_ref String.eqb Ascii.eqb Bool.eqb negb].
  repeat match type of Ho with
  | (if ?c =? ?lit then _ else _) = _ =>
      let E := fresh "E" in destruct (c =? lit) eqn:E;
      [apply String.eqb_eq in E; subst c; vm_compute in Hnf; injection Hnf as <-|]
  end; try discriminate.
  - apply (class_op_commutes R ctx "New" _ fs fs1 187 [] o SF eq_refl eq_refl Ho).
  - apply (class_op_commutes R ctx "ANewArray" _ fs fs1 189 [] o SF eq_refl eq_refl Ho).
  - apply (class_op_commutes R ctx "CheckCast" _ fs fs1 192 [] o SF eq_refl eq_refl Ho).
  - apply (class_op_commutes R ctx "InstanceOf" _ fs fs1 193 [] o SF eq_refl eq_refl Ho).
  - rewrite (prim_field_kept R ctx "MultiANewArray" _ fs fs1 "1" "u8" SF eq_refl eq_refl).
    destruct (field_of fs "1") as [dv|]; [|discriminate]. destruct (u8_of dv) as [dims|]; [|discriminate].
    apply (class_op_commutes R ctx "MultiANewArray" _ fs fs1 197 [dims] o SF eq_refl eq_refl Ho).
  - apply (field_op_commutes R ctx "GetStatic" _ fs fs1 178 o SF eq_refl eq_refl Ho).
  - apply (field_op_commutes R ctx "PutStatic" _ fs fs1 179 o SF eq_refl eq_refl Ho).
  - apply (field_op_commutes R ctx "GetField" _ fs fs1 180 o SF eq_refl eq_refl Ho).
  - apply (field_op_commutes R ctx "PutField" _ fs fs1 181 o SF eq_refl eq_refl Ho).
  - apply (method_op_commutes R ctx "InvokeVirtual" _ fs fs1 182 false o SF eq_refl eq_refl Ho).
  - unfold iface_of in *. rewrite (prim_field_kept R ctx "InvokeSpecial" _ fs fs1 "1" "bool" SF eq_refl eq_refl).
    destruct (match field_of fs "1" with Ok b => bool_of b | Err => None end) as [b|]; [|discriminate].
    apply (method_op_commutes R ctx "InvokeSpecial" _ fs fs1 183 b o SF eq_refl eq_refl Ho).
  - unfold iface_of in *. rewrite (prim_field_kept R ctx "InvokeStatic" _ fs fs1 "1" "bool" SF eq_refl eq_refl).
    destruct (match field_of fs "1" with Ok b => bool_of b | Err => None end) as [b|]; [|discriminate].
    apply (method_op_commutes R ctx "InvokeStatic" _ fs fs1 184 b o SF eq_refl eq_refl Ho).
  - apply (iface_op_commutes R ctx "InvokeInterface" _ fs fs1 o SF eq_refl eq_refl Ho).
Qed.

(* … for the interpreter of the regenerated table *)
Lemma insn_deleg_ok : deleg_ok gen_table (ref_types type_defs) insn_t = true.
Proof. vm_compute. reflexivity. Qed.
Theorem insn_commutes_remap R ctx i i' o :
  has_ty type_defs insn_t i = true -> remap_val gen_table R ctx insn_t i = Ok i' -> op_ref i = Some o ->
  exists o', remap_oref R o = Ok o' /\ op_ref i' = Some o'.
Proof.
  intros Hty Hr Ho. rewrite (remap_val_spec_full R ctx insn_t i insn_deleg_ok Hty) in Hr.
  unfold spec_remap_val in Hr. rewrite RTo_eq in Hr. exact (insn_commutes R ctx i i' o Hr Ho).
Qed.

(* ------------------------------------------------------------------ *)
(* 4. composition with the class writer of C02 *)

(* [t] (an input of C02's writer model) carries, at the instructions of the tree value [v'] that have a reference
   operand, that operand: the relation between the two models of duke's tree, on the part this file covers.
   (C02's harness builds a cclass from a duke tree in Rust, C07's harness a val from the same tree's Debug
   rendering; nothing in Coq derives one from the other for whole classes.) *)
Definition code_views (v' : val) (t : C02.Class.cclass) : Prop :=
  forall j k i' o', sub (insn_path j k) v' = Some i' -> op_ref i' = Some o' ->
    exists cm c ci, nth_error (C02.Class.k_methods t) j = Some cm /\ C02.Class.md_code cm = Some c /\
                    nth_error (C02.Class.c_insns c) k = Some ci /\ snd ci = cinsn_of o'.

(* at byte [q] of the code array [w]: the opcode, a u16 index and the trailing bytes; the index designates, in the
   decoder view [cp] of the constant pool, the constant of the operand (C02/Decode.v: get_class / get_fieldref /
   get_methodref / get_imethodref fail on an index out of range or an entry of another kind) *)
Definition written_at (cp : C02.Decode.cpool) (w : list N) (q : Z) (o : oref) : Prop :=
  match o with
  | OClass op c post =>
      exists x, C02.TheoryC10.bytes_at w q ([op] ++ C02.Model.be16 x ++ post)%list /\
                C02.Decode.get_class cp x = Some (C02.Class.mutf8 c)
  | OField op c n d =>
      exists x, C02.TheoryC10.bytes_at w q ([op] ++ C02.Model.be16 x ++ [])%list /\
                C02.Decode.get_fieldref cp x = Some (mref c n d)
  | OMethod op b c n d =>
      exists x, C02.TheoryC10.bytes_at w q ([op] ++ C02.Model.be16 x ++ [])%list /\
                (if b then C02.Decode.get_imethodref cp x else C02.Decode.get_methodref cp x) = Some (mref c n d)
  | OIface c n d =>
      exists x cnt, C02.TheoryC10.bytes_at w q (185%N :: C02.Model.be16 x ++ [C02.Model.byte_of cnt; 0%N])%list /\
                    C02.Decode.get_imethodref cp x = Some (mref c n d) /\
                    C02.Class.args_size (C02.Class.mutf8 d) = Ok cnt
  end.

Lemma insn_path_walk j k : ty_walk type_defs RTo (insn_path j k) class_ty = Some insn_t.
Proof. vm_compute. reflexivity. Qed.

Lemma refers_now {A} (g : C02.Decode.cpool -> Z -> option A) (x : A) p i cp :
  C02.TheoryC2.refers g x p i -> C02.TheoryC1.agrees p cp -> g cp i = Some x.
Proof. intros (_ & _ & H) Hag. exact (H p cp (C02.TheoryC2.pool_ext_refl p) Hag). Qed.

Definition written_operands_stmt : Prop :=
  forall (R : remapper) (v v' : val) (t : C02.Class.cclass) (bs : list N) (aux : C02.Class.class_aux),
    has_ty type_defs class_ty v = true ->
    remap_val gen_table R None class_ty v = Ok v' ->
    code_views v' t ->
    C02.TheoryC8.cclass_ok t = true ->
    C02.Class.write_class_aux t = C02.Class.WOK (bs, aux) ->
    forall cp, C02.TheoryC1.agrees (C02.Class.a_pool aux) cp ->
    forall j k i o, sub (insn_path j k) v = Some i -> op_ref i = Some o ->
      exists o' w labs pos q,
        remap_oref R o = Ok o' /\
        nth_error (C02.Class.a_codes aux) j = Some (Some (w, labs, pos)) /\ nth_error pos k = Some q /\
        written_at cp w q o'.

Theorem written_operands : written_operands_stmt.
Proof.
  intros R v v' t bs aux Hty Hr Hv Hok Hw cp Hag j k i o Hi Ho.
  rewrite (remap_class_spec_full R None v Hty) in Hr. unfold spec_remap_val in Hr. rewrite RTo_eq in Hr.
  destruct (sub_ty_typed type_defs RTo (insn_path j k) class_ty None v i insn_t (insn_path_walk j k) Hty Hi) as (ctx' & Hst & _).
  destruct (spec_val_sub type_defs RTo R (insn_path j k) v class_ty None v' insn_t ctx' i Hr Hst) as (i' & Hi' & Hs).
  destruct (insn_commutes R ctx' i i' o Hs Ho) as (o' & Hro & Ho').
  destruct (Hv j k i' o' Hi' Ho') as (cm & c & ci & Hcm & Hc & Hci & Hview).
  pose proof (C07.BridgeLift.class_operands_ok t bs aux Hok Hw) as F.
  destruct (C02.TheoryC10.Forall2_nth_inv _ _ _ j cm F Hcm) as (ca & Hca & Hden).
  unfold C07.BridgeLift.method_ok in Hden. rewrite Hc in Hden. destruct ca as [[[w labs] pos]|]; [|contradiction].
  unfold C07.BridgeLift.code_ok in Hden. cbn [fst snd] in Hden.
  destruct (C02.TheoryC10.Forall2_nth_inv _ _ _ k ci Hden Hci) as (q & Hq & Hop).
  rewrite Hview in Hop. exists o', w, labs, pos, q. split; [exact Hro|]. split; [exact Hca|]. split; [exact Hq|].
  destruct o' as [op c0 post|op c0 n0 d0|op b c0 n0 d0|c0 n0 d0]; cbn [cinsn_of C02.TheoryC10.operand_ok written_at] in Hop |- *.
  - destruct Hop as (x & Hb & Hd). cbn [C02.TheoryC10.iconst_refers] in Hd.
    exists x. split; [exact Hb|exact (refers_now _ _ _ _ cp Hd Hag)].
  - destruct Hop as (x & Hb & Hd). cbn [C02.TheoryC10.iconst_refers] in Hd.
    exists x. split; [exact Hb|exact (refers_now _ _ _ _ cp Hd Hag)].
  - destruct b; destruct Hop as (x & Hb & Hd); cbn [C02.TheoryC10.iconst_refers] in Hd;
      (exists x; split; [exact Hb|exact (refers_now _ _ _ _ cp Hd Hag)]).
  - destruct Hop as (x & cnt & Hb & Hd & Ha). exists x, cnt. split; [exact Hb|]. split; [exact (refers_now _ _ _ _ cp Hd Hag)|exact Ha].
Qed.

(* ------------------------------------------------------------------ *)
(* 4b. the boolean that C07/Run.v evaluates on the bytes duke wrote (BridgeDefs.check_written) is the conclusion
   of written_operands *)
Lemma list_eqb_N_eq : forall a b : list N, list_eqb N.eqb a b = true -> a = b.
Proof.
  induction a as [|x a IH]; destruct b as [|y b]; cbn [list_eqb]; try discriminate; [reflexivity|].
  intros H. apply andb_prop in H. destruct H as [H1 H2]. apply N.eqb_eq in H1. subst y. rewrite (IH b H2). reflexivity.
Qed.

Lemma bytes_at_b_sound w q l : l <> [] -> bytes_at_b w q l = true -> C02.TheoryC10.bytes_at w q l.
Proof.
  intros Hne H. unfold bytes_at_b in H. apply andb_prop in H. destruct H as [Hq He]. apply Z.leb_le in Hq.
  apply list_eqb_N_eq in He. unfold C02.TheoryC10.bytes_at.
  exists (firstn (Z.to_nat q) w), (skipn (List.length l) (skipn (Z.to_nat q) w)). split.
  - rewrite <- He at 1. rewrite (firstn_skipn (List.length l) (skipn (Z.to_nat q) w)). symmetry. apply firstn_skipn.
  - unfold C02.Model.zlen. rewrite firstn_length.
    assert (Hlt : (Z.to_nat q < List.length w)%nat).
    { destruct (Nat.lt_ge_cases (Z.to_nat q) (List.length w)) as [Hl|Hge]; [exact Hl|].
      exfalso. rewrite (skipn_all2 w Hge) in He. rewrite firstn_nil in He. apply Hne. symmetry. exact He. }
    rewrite Nat.min_l by lia. lia.
Qed.

Lemma mref_eqb_sound a b : mref_eqb a b = true -> a = Some b.
Proof.
  destruct a as [x|]; [|discriminate]. cbn [mref_eqb]. unfold C02.Class.memberref_eqb, C02.Class.bytes_eqb. intros H.
  apply andb_prop in H. destruct H as [H H3]. apply andb_prop in H. destruct H as [H1 H2].
  apply str_eqb_eq in H1, H2, H3. destruct x, b. cbn in H1, H2, H3. subst. reflexivity.
Qed.
Lemma obytes_eqb_sound a b : obytes_eqb a b = true -> a = Some b.
Proof. destruct a as [x|]; [|discriminate]. cbn [obytes_eqb]. intros H. apply list_eqb_N_eq in H. subst. reflexivity. Qed.

Theorem written_at_b_sound cp w q o : written_at_b cp w q o = true -> written_at cp w q o.
Proof.
  destruct o as [op c post|op c n d|op b c n d|c n d]; cbn [written_at_b written_at]; intros H.
  1-3: (apply andb_prop in H; destruct H as [Hb Hg];
        (eexists; split; [apply bytes_at_b_sound; [discriminate|exact Hb]|])).
  - apply obytes_eqb_sound. exact Hg.
  - apply mref_eqb_sound. exact Hg.
  - destruct b; apply mref_eqb_sound; exact Hg.
  - apply andb_prop in H. destruct H as [H Ha]. apply andb_prop in H. destruct H as [Hb Hg].
    destruct (C02.Class.args_size (C02.Class.mutf8 d)) as [k|] eqn:Ek; [|discriminate]. apply Z.eqb_eq in Ha. subst k.
    eexists. eexists. split; [apply bytes_at_b_sound; [discriminate|exact Hb]|]. split; [apply mref_eqb_sound; exact Hg|reflexivity].
Qed.

(* ------------------------------------------------------------------ *)
(* 5. non-vacuity: class a/A { int f; void m() { aload_0; getfield a/A.f:I; ldc "a/A"; return } } remapped with ex_R
   (a/A -> x/Y, a/A.f:I -> g) and the writer input of the remapped class (only what the writer needs for this
   method).  All hypotheses hold; the theorem then says that the written code array holds, at byte 1, getfield (180)
   with an index that every decoder view of the written pool resolves to the Fieldref x/Y.g:I. *)
Definition exw_class : val := ex_class_of "a/A" "f" "a/A" "f".
Definition exw_annots : C02.Class.annots :=
  {| C02.Class.an_vis := []; C02.Class.an_invis := []; C02.Class.an_tvis := []; C02.Class.an_tinvis := [] |}.
Definition exw_code : C02.Class.ccode := {|
  C02.Class.c_max := Some (1, 1)%Z;
  C02.Class.c_insns := [ (None, None, C02.Class.IRaw [42]%N);
                         (None, None, C02.Class.ICp [180]%N (C02.Class.KField (mref (bs "x/Y") (bs "g") (bs "I"))) []);
                         (None, None, C02.Class.ILdc (C02.Class.LString (C02.Class.mutf8 (bs "a/A"))));
                         (None, None, C02.Class.IRaw [177]%N) ];
  C02.Class.c_last := None; C02.Class.c_exceptions := []; C02.Class.c_lines := None; C02.Class.c_locals := None;
  C02.Class.c_tvis := []; C02.Class.c_tinvis := []; C02.Class.c_unknown := [] |}.
Definition exw_cclass : C02.Class.cclass := {|
  C02.Class.k_minor := 0%Z; C02.Class.k_major := 52%Z; C02.Class.k_access := 0%Z;
  C02.Class.k_name := C02.Class.mutf8 (bs "x/Y"); C02.Class.k_super := Some (C02.Class.mutf8 (bs "java/lang/Object"));
  C02.Class.k_interfaces := []; C02.Class.k_fields := [];
  C02.Class.k_methods := [ {| C02.Class.md_access := 0%Z; C02.Class.md_name := C02.Class.mutf8 (bs "m");
                              C02.Class.md_desc := C02.Class.mutf8 (bs "()V");
                              C02.Class.md_deprecated := false; C02.Class.md_synthetic := false;
                              C02.Class.md_code := Some exw_code; C02.Class.md_exceptions := None; C02.Class.md_signature := None;
                              C02.Class.md_annots := exw_annots; C02.Class.md_default := None; C02.Class.md_parameters := None;
                              C02.Class.md_unknown := [] |} ];
  C02.Class.k_deprecated := false; C02.Class.k_synthetic := false; C02.Class.k_inner := None; C02.Class.k_enclosing := None;
  C02.Class.k_signature := None; C02.Class.k_source_file := None; C02.Class.k_source_debug := None;
  C02.Class.k_annots := exw_annots; C02.Class.k_module := None; C02.Class.k_module_packages := None;
  C02.Class.k_module_main := None; C02.Class.k_nest_host := None; C02.Class.k_nest_members := None;
  C02.Class.k_permitted := None; C02.Class.k_record := []; C02.Class.k_unknown := [] |}.

Definition written_example : Prop :=
  has_ty type_defs class_ty exw_class = true /\
  C02.TheoryC8.cclass_ok exw_cclass = true /\
  exists v' cbytes aux w labs pos,
    remap_val gen_table ex_R None class_ty exw_class = Ok v' /\
    code_views v' exw_cclass /\
    C02.Class.write_class_aux exw_cclass = C02.Class.WOK (cbytes, aux) /\
    sub (insn_path 0 1) exw_class = Some (VNode "Instruction" "GetField" [("0", ref_node "FieldRef" (bs "a/A") (bs "f") (bs "I"))]) /\
    C02.Class.a_codes aux = [Some (w, labs, pos)] /\ nth_error pos 1 = Some 1%Z /\
    forall cp, C02.TheoryC1.agrees (C02.Class.a_pool aux) cp ->
               written_at cp w 1%Z (OField 180 (bs "x/Y") (bs "g") (bs "I")).

Lemma written_example_holds : written_example.
Proof.
  split; [vm_compute; reflexivity|]. split; [vm_compute; reflexivity|].
  destruct (remap_val gen_table ex_R None class_ty exw_class) as [v'|] eqn:Ev; [|vm_compute in Ev; discriminate].
  destruct (C02.Class.write_class_aux exw_cclass) as [[bs0 aux]|?c|] eqn:Ew; [|vm_compute in Ew; discriminate|vm_compute in Ew; discriminate].
  assert (Hviews : code_views v' exw_cclass).
  { vm_compute in Ev. injection Ev as <-. intros j k i' o' Hs Ho.
    destruct j as [|j]; [|destruct j; vm_compute in Hs; discriminate].
    destruct k as [|k]; [vm_compute in Hs; injection Hs as <-; vm_compute in Ho; discriminate Ho|].
    destruct k as [|k].
    { vm_compute in Hs. injection Hs as <-. vm_compute in Ho. injection Ho as <-.
      eexists. eexists. eexists. split; [reflexivity|]. split; [reflexivity|]. split; [reflexivity|]. reflexivity. }
    destruct k as [|k]; [vm_compute in Hs; injection Hs as <-; vm_compute in Ho; discriminate Ho|].
    destruct k as [|k]; [vm_compute in Hs; injection Hs as <-; vm_compute in Ho; discriminate Ho|].
    vm_compute in Hs. destruct k; discriminate Hs. }
  assert (Hcodes : exists w labs pos, C02.Class.a_codes aux = [Some (w, labs, pos)] /\ nth_error pos 1 = Some 1%Z).
  { vm_compute in Ew. injection Ew as _ <-. eexists. eexists. eexists. split; reflexivity. }
  destruct Hcodes as (w & labs & pos & Hc & Hp).
  exists v', bs0, aux, w, labs, pos. split; [reflexivity|]. split; [exact Hviews|]. split; [reflexivity|].
  split; [vm_compute; reflexivity|]. split; [exact Hc|]. split; [exact Hp|].
  intros cp Hag.
  destruct (written_operands ex_R exw_class v' exw_cclass bs0 aux ltac:(vm_compute; reflexivity) Ev Hviews
              ltac:(vm_compute; reflexivity) Ew cp Hag 0%nat 1%nat _ (OField 180 (bs "a/A") (bs "f") (bs "I"))
              ltac:(vm_compute; reflexivity) ltac:(vm_compute; reflexivity))
    as (o' & w1 & labs1 & pos1 & q & Hro & Hn & Hq & Hwr).
  vm_compute in Hro. injection Hro as <-. rewrite Hc in Hn. cbn [nth_error] in Hn. injection Hn as <- <- <-.
  rewrite Hp in Hq. injection Hq as <-. exact Hwr.
Qed.

(* the boolean of C07/Run.v on the example: true at the offsets of the written instructions, false at others, false for a
   remapper that renames nothing (the written class is the remapped one) *)
Definition exw_bytes : list N := match C02.Class.write_class_aux exw_cclass with C02.Class.WOK (b, _) => b | _ => [] end.
Definition written_check_example : Prop :=
  check_written ex_R exw_class exw_bytes [[0; 1; 4; 6]%Z] = true /\
  check_written ex_R exw_class exw_bytes [[0; 2; 4; 6]%Z] = false /\
  check_written (mkRemapper (fun _ => Ok None) (fun _ _ _ => Ok None) (fun _ _ _ => Ok None)) exw_class exw_bytes [[0; 1; 4; 6]%Z] = false.
Lemma written_check_example_holds : written_check_example.
Proof. vm_compute. repeat split. Qed.
