(* C07 composed with C06: the abstract remapper of C07/Model.v instantiated with the model of
   quill's BRemapperImpl (C06/Model.v: class table and member tables built by
   Mappings::remapper_b, super-type search over a SuperClassProvider).

   The default methods modelled in C07/Model.v (over ANY remapper) coincide, on that instance,
   with C06's models of the same methods; C06's theorems then say what a jar position becomes in
   terms of the mapping rows: descriptors are rewritten type by type, a member reference gets the
   row of the first type, in depth-first pre-order of the owner's super types, that declares it. *)
From FB Require C06.Model C06.Theory2 Props.C06.
From FB Require Import C07.Model.

Module M6 := FB.C06.Model.
Module T6 := FB.C06.Theory2.

Definition of_c06 (R : M6.bremap) (I : M6.inh) : remapper :=
  mkRemapper (fun c => Ok (M6.b_map_class_fail R c))
             (fun o n d => M6.map_field_fail R I o (n, d))
             (fun o n d => M6.map_method_fail R I o (n, d)).

Lemma c06_map_class R I c : map_class (of_c06 R I) c = Ok (M6.b_map_class R c).
Proof.
  unfold map_class, of_c06, M6.b_map_class. cbn [rm_class].
  destruct (M6.b_map_class_fail R c); reflexivity.
Qed.

Lemma c06_take_until_semi s : take_until_semi s = FB.C18.Model.take_until_semi s.
Proof. induction s as [|c s IH]; cbn; [reflexivity|]. rewrite IH. reflexivity. Qed.

Lemma c06_map_desc_f R I k s : map_desc_f k (of_c06 R I) s = M6.map_desc_f k (M6.b_map_class R) s.
Proof.
  revert s; induction k as [|k IH]; intros s; [reflexivity|].
  cbn [map_desc_f M6.map_desc_f]. destruct s as [|c s]; [reflexivity|].
  change chL with FB.C18.Model.cL. change chSEMI with cSEMI.
  destruct (N.eqb c FB.C18.Model.cL).
  - destruct s as [|c1 s]; [reflexivity|]. destruct (N.eqb c1 cSEMI); [reflexivity|].
    rewrite c06_take_until_semi. destruct (FB.C18.Model.take_until_semi s) as [[n r]|]; [|reflexivity].
    rewrite c06_map_class, IH. reflexivity.
  - rewrite IH. reflexivity.
Qed.

Lemma c06_map_desc R I s : map_desc (of_c06 R I) s = M6.b_map_desc R s.
Proof. unfold map_desc, M6.b_map_desc, M6.map_desc. apply c06_map_desc_f. Qed.

Lemma c06_is_array c : is_array c = M6.is_array_name c.
Proof.
  unfold is_array, M6.is_array_name. destruct c as [|x c]; [reflexivity|].
  cbn [starts_with]. change chLBRACK with cLBRACK. rewrite N.eqb_sym. rewrite andb_true_r. reflexivity.
Qed.

Lemma c06_map_class_any R I c : map_class_any (of_c06 R I) c = M6.b_map_class_any R c.
Proof.
  unfold map_class_any, M6.b_map_class_any. rewrite c06_is_array, c06_map_desc, c06_map_class. reflexivity.
Qed.

Lemma c06_map_field R I o n d : map_field (of_c06 R I) o n d = M6.map_field R I o (n, d).
Proof.
  unfold map_field, map_member. cbn [rm_field of_c06].
  unfold M6.map_field, M6.map_member, M6.map_field_fail. cbn [fst snd].
  destruct (M6.map_member_fail M6.b_fields (M6.default_fuel I) R I o (n, d)) as [[[a b]|]|]; try reflexivity.
  rewrite c06_map_desc. reflexivity.
Qed.

Lemma c06_map_method R I o n d : map_method (of_c06 R I) o n d = M6.map_method R I o (n, d).
Proof.
  unfold map_method, map_member. cbn [rm_method of_c06].
  unfold M6.map_method, M6.map_member, M6.map_method_fail. cbn [fst snd].
  destruct (M6.map_member_fail M6.b_methods (M6.default_fuel I) R I o (n, d)) as [[[a b]|]|]; try reflexivity.
  rewrite c06_map_desc. reflexivity.
Qed.

Definition flat (x : res (str * M6.key)) : res ref3 :=
  match x with Ok (c, (n, d)) => Ok (c, n, d) | Err => Err end.

Lemma c06_map_field_ref R I c n d : map_field_ref (of_c06 R I) (c, n, d) = flat (M6.map_field_ref R I c (n, d)).
Proof.
  unfold map_field_ref, M6.map_field_ref. rewrite c06_map_field, c06_map_class.
  destruct (M6.map_field R I c (n, d)) as [[a b]|]; reflexivity.
Qed.

Lemma c06_map_method_ref R I c n d : map_method_ref (of_c06 R I) (c, n, d) = flat (M6.map_method_ref R I c (n, d)).
Proof.
  unfold map_method_ref, M6.map_method_ref. rewrite c06_is_array, c06_map_class_any, c06_map_method.
  destruct (M6.is_array_name c).
  - destruct (M6.b_map_class_any R c); reflexivity.
  - destruct (M6.map_method R I c (n, d)) as [[a b]|]; [|reflexivity].
    destruct (M6.b_map_class_any R c); reflexivity.
Qed.

(* ---- what a jar position becomes, in terms of the mapping rows ---- *)

Definition c06_positions : Prop :=
  forall (R : M6.bremap) (I : M6.inh) (this : str),
    (* class names: the row's name, or the name itself *)
    (forall c, remap_at (of_c06 R I) MClass this (VName c) = Ok (VName (M6.b_map_class R c))) /\
    (* descriptors: type by type *)
    (forall d t, FB.C18.Model.parse_field d = Ok t ->
       remap_at (of_c06 R I) MFieldDesc this (VName d) = Ok (VName (FB.C18.Model.print_ty (M6.map_ty (M6.b_map_class R) t)))) /\
    (forall d m, FB.C18.Model.parse_method d = Ok m ->
       remap_at (of_c06 R I) MMethodDesc this (VName d) = Ok (VName (FB.C18.Model.print_method (M6.map_mty (M6.b_map_class R) m)))) /\
    (forall d r, FB.C18.Model.parse_return d = Ok r ->
       remap_at (of_c06 R I) MReturnDesc this (VName d) = Ok (VName (FB.C18.Model.print_return (M6.map_ret (M6.b_map_class R) r)))) /\
    (* member references: the first declaring type in the depth-first pre-order of the owner's super types *)
    (forall rank c n d, T6.acyclic_rank I rank ->
       remap_at (of_c06 R I) MFieldRef this (VRef (c, n, d)) =
         match T6.first_declaring (fun x => M6.declared M6.b_fields R x (n, d)) (T6.preorder I c) with
         | Some (n', d') => Ok (VRef (M6.b_map_class R c, n', d'))
         | None => match M6.b_map_desc R d with Ok d' => Ok (VRef (M6.b_map_class R c, n, d')) | Err => Err end
         end) /\
    (forall rank c n d, T6.acyclic_rank I rank -> M6.is_array_name c = false ->
       remap_at (of_c06 R I) MMethodRef this (VRef (c, n, d)) =
         match T6.first_declaring (fun x => M6.declared M6.b_methods R x (n, d)) (T6.preorder I c) with
         | Some (n', d') => Ok (VRef (M6.b_map_class R c, n', d'))
         | None => match M6.b_map_desc R d with Ok d' => Ok (VRef (M6.b_map_class R c, n, d')) | Err => Err end
         end) /\
    (* declared members: the same search, started at the declaring class *)
    (forall rank n d, T6.acyclic_rank I rank ->
       remap_at (of_c06 R I) (MDeclName DField) this (VDecl n d) =
         match T6.first_declaring (fun x => M6.declared M6.b_fields R x (n, d)) (T6.preorder I this) with
         | Some (n', d') => Ok (VDecl n' d')
         | None => match M6.b_map_desc R d with Ok d' => Ok (VDecl n d') | Err => Err end
         end) /\
    (forall rank n d, T6.acyclic_rank I rank ->
       remap_at (of_c06 R I) (MDeclName DMethod) this (VDecl n d) =
         match T6.first_declaring (fun x => M6.declared M6.b_methods R x (n, d)) (T6.preorder I this) with
         | Some (n', d') => Ok (VDecl n' d')
         | None => match M6.b_map_desc R d with Ok d' => Ok (VDecl n d') | Err => Err end
         end).

Lemma member_spec sel R I rank c n d :
  T6.acyclic_rank I rank ->
  M6.map_member sel (M6.default_fuel I) R I c (n, d) =
    match T6.first_declaring (fun x => M6.declared sel R x (n, d)) (T6.preorder I c) with
    | Some v => Ok v
    | None => match M6.b_map_desc R d with Ok d' => Ok (n, d') | Err => Err end
    end.
Proof. intros Ha. exact (proj2 (FB.Props.C06.C06_map_member_spec sel R I rank c (n, d) Ha)). Qed.

Lemma c06_positions_hold : c06_positions.
Proof.
  intros R I this. repeat match goal with |- _ /\ _ => split end.
  - intros c. cbn [remap_at]. rewrite c06_map_class. reflexivity.
  - intros d t Hp. cbn [remap_at]. rewrite c06_map_desc. unfold M6.b_map_desc.
    rewrite (proj1 (FB.Props.C06.C06_map_desc_shape_field _ _ _ Hp)). reflexivity.
  - intros d m Hp. cbn [remap_at]. rewrite c06_map_desc. unfold M6.b_map_desc.
    rewrite (proj1 (FB.Props.C06.C06_map_desc_shape_method _ _ _ Hp)). reflexivity.
  - intros d r Hp. cbn [remap_at]. rewrite c06_map_desc. unfold M6.b_map_desc.
    rewrite (proj1 (FB.Props.C06.C06_map_desc_shape_return _ _ _ Hp)). reflexivity.
  - intros rank c n d Ha. cbn [remap_at]. rewrite c06_map_field_ref. unfold M6.map_field_ref, M6.map_field.
    rewrite (member_spec _ _ _ _ _ _ _ Ha).
    destruct (T6.first_declaring _ _) as [[a b]|]; [reflexivity|].
    destruct (M6.b_map_desc R d); reflexivity.
  - intros rank c n d Ha Harr. cbn [remap_at]. rewrite c06_map_method_ref. unfold M6.map_method_ref, M6.map_method.
    rewrite Harr. rewrite (member_spec _ _ _ _ _ _ _ Ha). unfold M6.b_map_class_any. rewrite Harr.
    destruct (T6.first_declaring _ _) as [[a b]|]; [reflexivity|].
    destruct (M6.b_map_desc R d); reflexivity.
  - intros rank n d Ha. cbn [remap_at]. rewrite c06_map_field. unfold M6.map_field.
    rewrite (member_spec _ _ _ _ _ _ _ Ha).
    destruct (T6.first_declaring _ _) as [[a b]|]; [reflexivity|].
    destruct (M6.b_map_desc R d); reflexivity.
  - intros rank n d Ha. cbn [remap_at]. rewrite c06_map_method. unfold M6.map_method.
    rewrite (member_spec _ _ _ _ _ _ _ Ha).
    destruct (T6.first_declaring _ _) as [[a b]|]; [reflexivity|].
    destruct (M6.b_map_desc R d); reflexivity.
Qed.
