(* C07 — two laws of remapping whole trees (consistency checks of the table and of the specification):

   IDENTITY     a remapper that renames nothing ([renames_nothing]: map_class_fail / map_field_fail /
                map_method_fail always answer None) leaves every tree as it is: whenever the
                interpreter of the regenerated table answers Ok v', v' = v  — on every well-typed value
                of every type `.remap…` may be called on ([remap_val_identity]).  (It answers Err only
                where a string at a descriptor position is no descriptor, a record component's name is
                no field name, or the class name is missing for a declared member.)

   The law is proved for the SPECIFICATION ([spec_val], for any type definitions) and carried over to the
   interpreter of the regenerated table by Th 6 (remap_val gen_table = spec_remap_val type_defs on well-typed
   values): a table row that rebuilt a position with the wrong method, the wrong owner or from the wrong
   sibling would break Th 6, and with it this law for the table.

   The only structural hypothesis is [fields_nodup]: the field names of every node are pairwise distinct
   (implied by [has_ty] for the regenerated type definitions, [has_ty_fields_nodup]) — a joint position
   (declared member, EnclosingMethod, enum constant) reads its siblings BY NAME. *)
From Coq Require Import String Lia.
From FB Require C18.Model.
From FB Require Import C07.Model C07.Spec C07.Theory C07.Tree C07.TreeTheory.
Local Open Scope string_scope.

(* ------------------------------------------------------------------ *)
(* remappers that rename nothing *)

Definition renames_nothing (R : remapper) : Prop :=
  (forall c, rm_class R c = Ok None) /\
  (forall o n d, rm_field R o n d = Ok None) /\
  (forall o n d, rm_method R o n d = Ok None).

Definition id_remapper : remapper :=
  mkRemapper (fun _ => Ok None) (fun _ _ _ => Ok None) (fun _ _ _ => Ok None).
Lemma id_renames_nothing : renames_nothing id_remapper.
Proof. repeat split. Qed.

Lemma take_until_semi_app s n r : take_until_semi s = Ok (n, r) -> s = (n ++ chSEMI :: r)%list.
Proof.
  revert n r. induction s as [|c s IH]; intros n r; cbn [take_until_semi]; [discriminate|].
  destruct (N.eqb_spec c chSEMI) as [->|Hne].
  - intros [= <- <-]. reflexivity.
  - destruct (take_until_semi s) as [[n0 r0]|]; [|discriminate]. intros [= <- <-].
    cbn [app]. rewrite (IH n0 r0 eq_refl). reflexivity.
Qed.

Lemma map_class_id R c : renames_nothing R -> map_class R c = Ok c.
Proof. intros (Hc & _). unfold map_class. rewrite Hc. reflexivity. Qed.

Lemma map_desc_f_id R : renames_nothing R -> forall k s o, map_desc_f k R s = Ok o -> o = s.
Proof.
  intros HR. induction k as [|k IH]; intros s o; cbn [map_desc_f]; [discriminate|].
  destruct s as [|c s']; [intros [= <-]; reflexivity|].
  destruct (N.eqb_spec c chL) as [->|Hne].
  - destruct s' as [|c1 s'']; [discriminate|].
    destruct (N.eqb c1 chSEMI); [discriminate|].
    destruct (take_until_semi s'') as [[n r]|] eqn:Et; [|discriminate].
    rewrite (map_class_id R (c1 :: n) HR).
    destruct (map_desc_f k R r) as [o'|] eqn:Eo; [|discriminate]. intros [= <-].
    rewrite (IH r o' Eo). rewrite (take_until_semi_app _ _ _ Et). reflexivity.
  - destruct (map_desc_f k R s') as [o'|] eqn:Eo; [|discriminate]. intros [= <-].
    rewrite (IH s' o' Eo). reflexivity.
Qed.
Lemma map_desc_id R s o : renames_nothing R -> map_desc R s = Ok o -> o = s.
Proof. intros HR. unfold map_desc. apply map_desc_f_id. exact HR. Qed.

Lemma map_class_any_id R c o : renames_nothing R -> map_class_any R c = Ok o -> o = c.
Proof.
  intros HR. unfold map_class_any. destruct (is_array c).
  - apply map_desc_id. exact HR.
  - rewrite (map_class_id R c HR). intros [= <-]. reflexivity.
Qed.

Lemma map_field_id R o n d p : renames_nothing R -> map_field R o n d = Ok p -> p = (n, d).
Proof.
  intros HR. destruct HR as (Hc & Hf & Hm). unfold map_field, map_member. rewrite Hf.
  destruct (map_desc R d) as [d'|] eqn:E; [|discriminate]. intros [= <-].
  rewrite (map_desc_id R d d' (conj Hc (conj Hf Hm)) E). reflexivity.
Qed.
Lemma map_method_id R o n d p : renames_nothing R -> map_method R o n d = Ok p -> p = (n, d).
Proof.
  intros HR. destruct HR as (Hc & Hf & Hm). unfold map_method, map_member. rewrite Hm.
  destruct (map_desc R d) as [d'|] eqn:E; [|discriminate]. intros [= <-].
  rewrite (map_desc_id R d d' (conj Hc (conj Hf Hm)) E). reflexivity.
Qed.

Lemma map_field_ref_id R x y : renames_nothing R -> map_field_ref R x = Ok y -> y = x.
Proof.
  intros HR. destruct x as [[c n] d]. unfold map_field_ref.
  destruct (map_field R c n d) as [[n' d']|] eqn:E; [|discriminate].
  rewrite (map_class_id R c HR). intros [= <-]. apply (map_field_id R c n d _ HR) in E.
  injection E as -> ->. reflexivity.
Qed.
Lemma map_method_ref_id R x y : renames_nothing R -> map_method_ref R x = Ok y -> y = x.
Proof.
  intros HR. destruct x as [[c n] d]. unfold map_method_ref.
  destruct (is_array c).
  - destruct (map_class_any R c) as [c'|] eqn:E; [|discriminate]. intros [= <-].
    rewrite (map_class_any_id R c c' HR E). reflexivity.
  - destruct (map_method R c n d) as [[n' d']|] eqn:E; [|discriminate].
    destruct (map_class_any R c) as [c'|] eqn:E2; [|discriminate]. intros [= <-].
    apply (map_method_id R c n d _ HR) in E. injection E as -> ->.
    rewrite (map_class_any_id R c c' HR E2). reflexivity.
Qed.

Lemma remap_enclosing_id R c mm y : renames_nothing R -> remap_enclosing R c mm = Ok y -> y = (c, mm).
Proof.
  intros HR. unfold remap_enclosing. destruct mm as [[n d]|].
  - destruct (map_method_ref R (c, n, d)) as [[[c' n'] d']|] eqn:E; [|discriminate]. intros [= <-].
    apply (map_method_ref_id R _ _ HR) in E. injection E as -> -> ->. reflexivity.
  - destruct (map_class_any R c) as [c'|] eqn:E; [|discriminate]. intros [= <-].
    rewrite (map_class_any_id R c c' HR E). reflexivity.
Qed.

Lemma remap_enum_const_id R t c c' : renames_nothing R -> remap_enum_const R t c = Ok c' -> c' = c.
Proof.
  intros HR. unfold remap_enum_const.
  destruct (C18.Model.parse_field t) as [[| | | | | | | |cls|dm a]|]; try (intros [= <-]; reflexivity).
  destruct (C18.Model.is_valid_unqualified_name c); [|intros [= <-]; reflexivity].
  destruct (map_field R cls c t) as [[n' d']|] eqn:E; [|discriminate]. intros [= <-].
  apply (map_field_id R cls c t _ HR) in E. injection E as -> _. reflexivity.
Qed.

(* ------------------------------------------------------------------ *)
(* fields by name *)

Fixpoint keys_nodup (l : list (string * val)) : bool :=
  match l with
  | [] => true
  | p :: r => negb (existsb (fun q => String.eqb (fst q) (fst p)) r) && keys_nodup r
  end.

Fixpoint fields_nodup (v : val) {struct v} : bool :=
  match v with
  | VNode _ _ fs => keys_nodup fs && forallb (fun p => fields_nodup (snd p)) fs
  | VList l => forallb fields_nodup l
  | VSome x => fields_nodup x
  | VPair a b => fields_nodup a && fields_nodup b
  | _ => true
  end.

Lemma fields_nodup_node n c fs :
  fields_nodup (VNode n c fs) = keys_nodup fs && forallb (fun p => fields_nodup (snd p)) fs.
Proof. reflexivity. Qed.

Lemma field_of_in fs p : keys_nodup fs = true -> In p fs -> field_of fs (fst p) = Ok (snd p).
Proof.
  induction fs as [|q fs IH]; [intros _ []|]. cbn [keys_nodup]. intros H Hin.
  apply andb_prop in H. destruct H as [Hq Hr]. rewrite field_of_cons.
  destruct Hin as [->|Hin].
  - rewrite String.eqb_refl. reflexivity.
  - destruct (String.eqb (fst q) (fst p)) eqn:E.
    + exfalso. apply negb_true_iff in Hq. rewrite <- not_true_iff_false in Hq. apply Hq.
      apply existsb_exists. exists p. split; [exact Hin|]. rewrite String.eqb_sym. exact E.
    + apply IH; assumption.
Qed.

Lemma set_field_same f s : forall fs, field_of fs f = Ok (VStr s) -> set_field f (VStr s) fs = fs.
Proof.
  induction fs as [|p fs IH]; [reflexivity|]. rewrite field_of_cons. cbn [set_field].
  destruct (String.eqb (fst p) f) eqn:E.
  - intros [= H]. destruct p as [k x]. cbn [fst snd] in *. subst x. reflexivity.
  - intros H. rewrite (IH H). reflexivity.
Qed.

(* ------------------------------------------------------------------ *)
(* leaves and positions under a remapper that renames nothing *)

Lemma apply_str_id (g : str -> res str) v v' :
  (forall s o, g s = Ok o -> o = s) -> apply_str g v = Ok v' -> v' = v.
Proof.
  intros Hg. destruct v; try discriminate. cbn [apply_str]. destruct (g s) as [s'|] eqn:E; [|discriminate].
  intros [= <-]. rewrite (Hg s s' E). reflexivity.
Qed.

Lemma apply_ref_id (g : ref3 -> res ref3) v v' :
  (forall x y, g x = Ok y -> y = x) -> apply_ref g v = Ok v' -> v' = v.
Proof.
  intros Hg. destruct v as [s|s|n c fs|l| |y|a b]; try discriminate. cbn [apply_ref].
  destruct (str_field fs "class") as [cl|] eqn:E1; [|discriminate].
  destruct (str_field fs "name") as [nm|] eqn:E2; [|discriminate].
  destruct (str_field fs "desc") as [d|] eqn:E3; [|discriminate].
  destruct (g (cl, nm, d)) as [[[cl' nm'] d']|] eqn:Eg; [|discriminate]. intros [= <-].
  apply Hg in Eg. injection Eg as -> -> ->.
  apply str_field_ok in E1, E2, E3.
  rewrite (set_field_same "desc" d fs E3), (set_field_same "name" nm fs E2), (set_field_same "class" cl fs E1).
  reflexivity.
Qed.

Lemma apply_leaf_id R m v v' : renames_nothing R -> apply_leaf R m v = Ok v' -> v' = v.
Proof.
  intros HR. destruct m; cbn [apply_leaf]; try discriminate.
  - apply apply_str_id. intros s o. rewrite (map_class_id R s HR). intros [= <-]. reflexivity.
  - apply apply_str_id. intros s o. apply map_class_any_id. exact HR.
  - apply apply_str_id. intros s o. apply map_desc_id. exact HR.
  - apply apply_str_id. intros s o. apply map_desc_id. exact HR.
  - apply apply_str_id. intros s o. apply map_desc_id. exact HR.
  - apply apply_ref_id. intros x y. apply map_field_ref_id. exact HR.
  - apply apply_ref_id. intros x y. apply map_method_ref_id. exact HR.
Qed.

Lemma decl_map_id d R this n ds p : renames_nothing R -> decl_map d R this n ds = Ok p -> p = (n, ds).
Proof.
  intros HR. destruct d; cbn [decl_map].
  - apply map_field_id. exact HR.
  - apply map_method_id. exact HR.
  - destruct (C18.Model.is_valid_unqualified_name n); [|discriminate]. apply map_field_id. exact HR.
Qed.

(* [x] is the value of the field [f] of [sib] *)
Lemma apply_pos_id R m ctx sib f x y :
  renames_nothing R -> field_of sib f = Ok x ->
  match m with
  | MDeclName _ => f = "name" | MDeclDesc _ => f = "descriptor"
  | MEnclClass => f = "class" | MEnclMethod => f = "method" | MEnumConst => f = "const_name"
  | _ => True
  end ->
  apply_pos R m ctx sib x = Ok y -> y = x.
Proof.
  intros HR Hx Hf. destruct m; cbn [apply_pos]; try discriminate.
  - subst f. destruct x; try discriminate. destruct ctx as [this|]; [|discriminate].
    unfold str_field. rewrite Hx.
    destruct (match field_of sib "descriptor" with Ok (VStr s0) => Ok s0 | _ => Err end) as [ds|]; [|discriminate].
    destruct (decl_map d R this s ds) as [[n' d']|] eqn:E; [|discriminate]. intros [= <-].
    apply (decl_map_id d R this s ds _ HR) in E. injection E as -> ->. reflexivity.
  - subst f. destruct x; try discriminate. destruct ctx as [this|]; [|discriminate].
    destruct (str_field sib "name") as [nm|]; [|discriminate].
    unfold str_field. rewrite Hx.
    destruct (decl_map d R this nm s) as [[n' d']|] eqn:E; [|discriminate]. intros [= <-].
    apply (decl_map_id d R this nm s _ HR) in E. injection E as -> ->. reflexivity.
  - subst f. destruct x; try discriminate. cbn [get_str].
    destruct (match field_of sib "method" with Ok mv => member_of mv | Err => Err end) as [mm|]; [|discriminate].
    destruct (remap_enclosing R s mm) as [[c' mm']|] eqn:E; [|discriminate]. intros [= <-].
    apply (remap_enclosing_id R s mm _ HR) in E. injection E as -> _. reflexivity.
  - subst f. destruct (str_field sib "class") as [c|]; [|discriminate].
    destruct (member_of x) as [mm|] eqn:Em; [|discriminate].
    destruct (remap_enclosing R c mm) as [[c' mm']|] eqn:E; [|discriminate].
    apply (remap_enclosing_id R c mm _ HR) in E. injection E as -> ->.
    destruct x as [s|s|n k fs|l| |z|a1 b1]; try discriminate.
    + destruct mm; [discriminate|]. intros [= <-]. reflexivity.
    + destruct z as [s|s|n k fs|l| |z|a1 b1]; try discriminate.
      cbn [member_of] in Em.
      destruct (str_field fs "name") as [nm|] eqn:E2; [|discriminate].
      destruct (str_field fs "desc") as [ds|] eqn:E3; [|discriminate].
      injection Em as <-. intros [= <-].
      apply str_field_ok in E2, E3.
      rewrite (set_field_same "desc" ds fs E3), (set_field_same "name" nm fs E2). reflexivity.
  - subst f. destruct x; try discriminate. destruct (str_field sib "type_name") as [t|]; [|discriminate].
    destruct (remap_enum_const R t s) as [c'|] eqn:E; [|discriminate]. intros [= <-].
    rewrite (remap_enum_const_id R t s c' HR E). reflexivity.
Qed.

(* which field a position rule talks about *)
Lemma position_method_field n c f t m :
  position_method (pseudo_row n c f t) = Some m ->
  match m with
  | MDeclName _ => f = "name" | MDeclDesc _ => f = "descriptor"
  | MEnclClass => f = "class" | MEnclMethod => f = "method" | MEnumConst => f = "const_name"
  | _ => False
  end.
Proof.
  unfold position_method, at_pos, pseudo_row. cbn [r_type r_variant r_field].
  repeat match goal with
         | |- context [if ?b then _ else _] => let E := fresh "E" in destruct b eqn:E
         end; try discriminate; intros [= <-];
    repeat match goal with
           | H : (_ && _)%bool = true |- _ => apply andb_prop in H; destruct H
           | H : String.eqb _ _ = true |- _ => apply String.eqb_eq in H
           end; subst; reflexivity.
Qed.

Lemma mapM_id_out {A} (f : A -> res A) l l' :
  mapM f l = Ok l' -> (forall x y, In x l -> f x = Ok y -> y = x) -> l' = l.
Proof.
  revert l'. induction l as [|x l IH]; intros l'.
  - cbn. intros [= <-] _. reflexivity.
  - rewrite mapM_cons. destruct (f x) as [y|] eqn:E; [|discriminate].
    destruct (mapM f l) as [r|]; [|discriminate]. intros [= <-] H.
    rewrite (H x y (or_introl eq_refl) E). rewrite (IH r eq_refl); [reflexivity|].
    intros x0 y0 Hin. apply H. right. exact Hin.
Qed.

(* IDENTITY, for the specification (any type definitions, any set of reference-carrying type names) *)
Theorem spec_val_identity defs S R : renames_nothing R ->
  forall v T ctx v', fields_nodup v = true -> spec_val defs S R ctx T v = Ok v' -> v' = v.
Proof.
  intros HR.
  (* the node case, shared by TName and TApp *)
  assert (Hnode : forall vn vc fs,
             Forall (fun p => forall T ctx v', fields_nodup (snd p) = true -> spec_val defs S R ctx T (snd p) = Ok v' -> v' = snd p) fs ->
             forall tn ctx v', fields_nodup (VNode vn vc fs) = true -> spec_node defs S R ctx tn (VNode vn vc fs) = Ok v' -> v' = VNode vn vc fs).
  { intros vn vc fs IHfs tn ctx v' Hnd Hs.
    cbn [spec_node] in Hs. destruct (String.eqb vn tn); [|discriminate].
    destruct (node_fields defs tn vc) as [fts|]; [|discriminate].
    destruct (spec_fields defs S R ctx tn vc fts fs) as [fs'|] eqn:Ef; [|discriminate]. injection Hs as <-.
    rewrite fields_nodup_node in Hnd. apply andb_prop in Hnd. destruct Hnd as [Hk Hsub].
    f_equal. unfold spec_fields in Ef. apply (mapM_id_out _ _ _ Ef).
    intros p q Hin. destruct (lookup_ty fts (fst p)) as [t|]; [|discriminate].
    destruct (position_method (pseudo_row tn vc (fst p) t)) as [m|] eqn:Ep.
    - destruct (apply_pos R m (self_ctx tn ctx fs) fs (snd p)) as [y|] eqn:Ea; [|discriminate]. intros [= <-].
      apply position_method_field in Ep.
      assert (Hy : y = snd p).
      { apply (apply_pos_id R m (self_ctx tn ctx fs) fs (fst p) (snd p) y HR (field_of_in fs p Hk Hin)); [|exact Ea].
        destruct m; try exact I; try exact Ep; contradiction. }
      rewrite Hy. destruct p; reflexivity.
    - destruct (spec_val defs S R (self_ctx tn ctx fs) t (snd p)) as [y|] eqn:Ea; [|discriminate]. intros [= <-].
      rewrite Forall_forall in IHfs. rewrite forallb_forall in Hsub.
      rewrite (IHfs p Hin t _ y (Hsub p Hin) Ea). destruct p; reflexivity. }
  (* TName / TApp on any value *)
  assert (Hname : forall v, (forall tn ctx v', fields_nodup v = true -> spec_node defs S R ctx tn v = Ok v' -> v' = v) ->
             forall tn ctx v', fields_nodup v = true -> spec_val defs S R ctx (TName tn) v = Ok v' -> v' = v).
  { intros v Hn tn ctx v' Hnd Hs. rewrite spec_val_name in Hs.
    destruct (negb (mentions S (TName tn))); [injection Hs as <-; reflexivity|].
    destruct (leaf_method tn) as [m|]; [exact (apply_leaf_id R m _ _ HR Hs)|].
    destruct (needs_owner tn); [discriminate|]. exact (Hn tn ctx v' Hnd Hs). }
  assert (Happ : forall v, (forall tn ctx v', fields_nodup v = true -> spec_node defs S R ctx tn v = Ok v' -> v' = v) ->
             forall tn ta ctx v', fields_nodup v = true -> spec_val defs S R ctx (TApp tn ta) v = Ok v' -> v' = v).
  { intros v Hn tn ta ctx v' Hnd Hs. rewrite spec_val_app in Hs.
    destruct (negb (mentions S (TApp tn ta))); [injection Hs as <-; reflexivity|]. exact (Hn tn ctx v' Hnd Hs). }
  assert (Hnonnode : forall v, (forall n c fs, v <> VNode n c fs) ->
             forall tn ctx v', fields_nodup v = true -> spec_node defs S R ctx tn v = Ok v' -> v' = v).
  { intros v Hv tn ctx v' _ Hs. destruct v; try discriminate. exfalso. exact (Hv _ _ _ eq_refl). }
  induction v as [s|s|vn vc fs IHfs|l IHl| |x IHx|x1 x2 IH1 IH2] using val_ind2; intros T ctx v' Hnd Hs.
  - destruct T as [p|tn| |tn ta|ta|ta|ta tb].
    + cbn [spec_val] in Hs. injection Hs as <-. reflexivity.
    + apply (Hname (VStr s) (Hnonnode (VStr s) ltac:(intros; discriminate)) tn ctx v' Hnd Hs).
    + cbn [spec_val] in Hs. injection Hs as <-. reflexivity.
    + apply (Happ (VStr s) (Hnonnode (VStr s) ltac:(intros; discriminate)) tn ta ctx v' Hnd Hs).
    + rewrite spec_val_opt in Hs. destruct (negb (mentions S ta)); [injection Hs as <-; reflexivity|discriminate].
    + rewrite spec_val_vec in Hs. destruct (negb (mentions S ta)); [injection Hs as <-; reflexivity|discriminate].
    + rewrite spec_val_pair in Hs. destruct (negb (mentions S (TPair ta tb))); [injection Hs as <-; reflexivity|discriminate].
  - destruct T as [p|tn| |tn ta|ta|ta|ta tb].
    + cbn [spec_val] in Hs. injection Hs as <-. reflexivity.
    + apply (Hname (VOpaque s) (Hnonnode (VOpaque s) ltac:(intros; discriminate)) tn ctx v' Hnd Hs).
    + cbn [spec_val] in Hs. injection Hs as <-. reflexivity.
    + apply (Happ (VOpaque s) (Hnonnode (VOpaque s) ltac:(intros; discriminate)) tn ta ctx v' Hnd Hs).
    + rewrite spec_val_opt in Hs. destruct (negb (mentions S ta)); [injection Hs as <-; reflexivity|discriminate].
    + rewrite spec_val_vec in Hs. destruct (negb (mentions S ta)); [injection Hs as <-; reflexivity|discriminate].
    + rewrite spec_val_pair in Hs. destruct (negb (mentions S (TPair ta tb))); [injection Hs as <-; reflexivity|discriminate].
  - destruct T as [p|tn| |tn ta|ta|ta|ta tb].
    + cbn [spec_val] in Hs. injection Hs as <-. reflexivity.
    + apply (Hname (VNode vn vc fs) (Hnode vn vc fs IHfs) tn ctx v' Hnd Hs).
    + cbn [spec_val] in Hs. injection Hs as <-. reflexivity.
    + apply (Happ (VNode vn vc fs) (Hnode vn vc fs IHfs) tn ta ctx v' Hnd Hs).
    + rewrite spec_val_opt in Hs. destruct (negb (mentions S ta)); [injection Hs as <-; reflexivity|discriminate].
    + rewrite spec_val_vec in Hs. destruct (negb (mentions S ta)); [injection Hs as <-; reflexivity|discriminate].
    + rewrite spec_val_pair in Hs. destruct (negb (mentions S (TPair ta tb))); [injection Hs as <-; reflexivity|discriminate].
  - destruct T as [p|tn| |tn ta|ta|ta|ta tb].
    + cbn [spec_val] in Hs. injection Hs as <-. reflexivity.
    + apply (Hname (VList l) (Hnonnode (VList l) ltac:(intros; discriminate)) tn ctx v' Hnd Hs).
    + cbn [spec_val] in Hs. injection Hs as <-. reflexivity.
    + apply (Happ (VList l) (Hnonnode (VList l) ltac:(intros; discriminate)) tn ta ctx v' Hnd Hs).
    + rewrite spec_val_opt in Hs. destruct (negb (mentions S ta)); [injection Hs as <-; reflexivity|discriminate].
    + rewrite spec_val_vec in Hs. destruct (negb (mentions S ta)); [injection Hs as <-; reflexivity|].
      destruct (mapM (spec_val defs S R ctx ta) l) as [l'|] eqn:El; [|discriminate]. injection Hs as <-.
      f_equal. apply (mapM_id_out _ _ _ El). intros x y Hin Hy.
      rewrite Forall_forall in IHl. cbn [fields_nodup] in Hnd. rewrite forallb_forall in Hnd.
      exact (IHl x Hin ta ctx y (Hnd x Hin) Hy).
    + rewrite spec_val_pair in Hs. destruct (negb (mentions S (TPair ta tb))); [injection Hs as <-; reflexivity|discriminate].
  - destruct T as [p|tn| |tn ta|ta|ta|ta tb].
    + cbn [spec_val] in Hs. injection Hs as <-. reflexivity.
    + apply (Hname VNone (Hnonnode VNone ltac:(intros; discriminate)) tn ctx v' Hnd Hs).
    + cbn [spec_val] in Hs. injection Hs as <-. reflexivity.
    + apply (Happ VNone (Hnonnode VNone ltac:(intros; discriminate)) tn ta ctx v' Hnd Hs).
    + rewrite spec_val_opt in Hs. destruct (negb (mentions S ta)); injection Hs as <-; reflexivity.
    + rewrite spec_val_vec in Hs. destruct (negb (mentions S ta)); [injection Hs as <-; reflexivity|discriminate].
    + rewrite spec_val_pair in Hs. destruct (negb (mentions S (TPair ta tb))); [injection Hs as <-; reflexivity|discriminate].
  - destruct T as [p|tn| |tn ta|ta|ta|ta tb].
    + cbn [spec_val] in Hs. injection Hs as <-. reflexivity.
    + apply (Hname (VSome x) (Hnonnode (VSome x) ltac:(intros; discriminate)) tn ctx v' Hnd Hs).
    + cbn [spec_val] in Hs. injection Hs as <-. reflexivity.
    + apply (Happ (VSome x) (Hnonnode (VSome x) ltac:(intros; discriminate)) tn ta ctx v' Hnd Hs).
    + rewrite spec_val_opt in Hs. destruct (negb (mentions S ta)); [injection Hs as <-; reflexivity|].
      destruct (spec_val defs S R ctx ta x) as [y|] eqn:Ey; [|discriminate]. injection Hs as <-.
      cbn [fields_nodup] in Hnd. rewrite (IHx ta ctx y Hnd Ey). reflexivity.
    + rewrite spec_val_vec in Hs. destruct (negb (mentions S ta)); [injection Hs as <-; reflexivity|discriminate].
    + rewrite spec_val_pair in Hs. destruct (negb (mentions S (TPair ta tb))); [injection Hs as <-; reflexivity|discriminate].
  - destruct T as [p|tn| |tn ta|ta|ta|ta tb].
    + cbn [spec_val] in Hs. injection Hs as <-. reflexivity.
    + apply (Hname (VPair x1 x2) (Hnonnode (VPair x1 x2) ltac:(intros; discriminate)) tn ctx v' Hnd Hs).
    + cbn [spec_val] in Hs. injection Hs as <-. reflexivity.
    + apply (Happ (VPair x1 x2) (Hnonnode (VPair x1 x2) ltac:(intros; discriminate)) tn ta ctx v' Hnd Hs).
    + rewrite spec_val_opt in Hs. destruct (negb (mentions S ta)); [injection Hs as <-; reflexivity|discriminate].
    + rewrite spec_val_vec in Hs. destruct (negb (mentions S ta)); [injection Hs as <-; reflexivity|discriminate].
    + rewrite spec_val_pair in Hs. destruct (negb (mentions S (TPair ta tb))); [injection Hs as <-; reflexivity|].
      destruct (spec_val defs S R ctx ta x1) as [x'|] eqn:Ex; [|discriminate].
      destruct (spec_val defs S R ctx tb x2) as [y'|] eqn:Ey; [|discriminate]. injection Hs as <-.
      cbn [fields_nodup] in Hnd. apply andb_prop in Hnd. destruct Hnd as [H1 H2].
      rewrite (IH1 ta ctx x' H1 Ex), (IH2 tb ctx y' H2 Ey). reflexivity.
Qed.

(* ------------------------------------------------------------------ *)
(* the same law for WELL-TYPED values: [has_ty] makes the field names of a node those of its definition, which
   are pairwise distinct in duke's tree ([defs_nodup], a finite check of the regenerated definitions).  (A value
   at the type parameter of TypeAnnotation<T> is never looked into: no demand on it.) *)

Fixpoint strs_nodup (l : list string) : bool :=
  match l with
  | [] => true
  | x :: r => negb (existsb (String.eqb x) r) && strs_nodup r
  end.

Definition def_nodup (d : tdef) : bool :=
  match d with
  | DStr _ => true
  | DStruct _ fs => strs_nodup (map (fun f => fst (fst f)) fs)
  | DEnum _ vs => forallb (fun v => strs_nodup (map fst (snd v))) vs
  end.
Definition defs_nodup (defs : list tdef) : bool := forallb def_nodup defs.

Lemma list_eqb_str_eq (a b : list string) : list_eqb String.eqb a b = true -> a = b.
Proof.
  revert b. induction a as [|x a IH]; intros [|y b]; cbn [list_eqb]; try discriminate; [reflexivity|].
  intros H. apply andb_prop in H. destruct H as [H1 H2]. apply String.eqb_eq in H1. rewrite H1, (IH b H2). reflexivity.
Qed.

Lemma existsb_keys (k : string) (r : list (string * val)) :
  existsb (fun q => String.eqb (fst q) k) r = existsb (String.eqb k) (map fst r).
Proof.
  induction r as [|q r IH]; [reflexivity|]. cbn [existsb map]. rewrite IH, (String.eqb_sym (fst q) k). reflexivity.
Qed.
Lemma keys_nodup_strs fs : keys_nodup fs = strs_nodup (map fst fs).
Proof.
  induction fs as [|p r IH]; [reflexivity|]. cbn [keys_nodup strs_nodup map]. rewrite IH, existsb_keys. reflexivity.
Qed.

Lemma find_some_forallb {A} (p q : A -> bool) l x : forallb q l = true -> find p l = Some x -> q x = true.
Proof.
  intros Hq Hf. apply find_some in Hf. destruct Hf as [Hin _]. rewrite forallb_forall in Hq. exact (Hq x Hin).
Qed.

Lemma node_fields_nodup defs n c fts :
  defs_nodup defs = true -> node_fields defs n c = Some fts -> strs_nodup (map fst fts) = true.
Proof.
  intros Hd. unfold node_fields, lookup_def.
  destruct (find (fun d => String.eqb (def_name d) n) defs) as [d|] eqn:Ef; [|discriminate].
  pose proof (find_some_forallb _ def_nodup defs d Hd Ef) as Hn.
  destruct d as [nm|nm fs0|nm vs]; [discriminate| |].
  - destruct (String.eqb c ""); [|discriminate]. intros [= <-]. rewrite map_map. cbn [fst]. exact Hn.
  - destruct (find (fun v => String.eqb (fst v) c) vs) as [v|] eqn:Ev; [|discriminate]. intros [= <-].
    cbn [def_nodup] in Hn. exact (find_some_forallb _ _ vs v Hn Ev).
Qed.

Lemma has_ty_node_inv2 defs T n n' c fs :
  named T n -> has_ty defs T (VNode n' c fs) = true ->
  exists fts, node_fields defs n c = Some fts /\ map fst fs = map fst fts /\
              forall p, In p fs -> exists t, lookup_ty fts (fst p) = Some t /\ has_ty defs t (snd p) = true.
Proof.
  intros Hn H. destruct (has_ty_node_inv defs T n n' c fs Hn H) as (_ & fts & Hf & Hall).
  exists fts. split; [exact Hf|]. split; [|exact Hall].
  destruct Hn as [->|[a ->]]; cbn [has_ty] in H;
    (destruct (lookup_def defs n) as [[nm|nm fs0|nm vs]|]; try discriminate;
     apply andb_prop in H; destruct H as [_ H]; rewrite Hf in H; apply andb_prop in H; destruct H as [H _];
     exact (list_eqb_str_eq _ _ H)).
Qed.

Theorem spec_val_identity_typed defs S R : renames_nothing R -> defs_nodup defs = true ->
  forall v T ctx v', has_ty defs T v = true -> spec_val defs S R ctx T v = Ok v' -> v' = v.
Proof.
  intros HR Hdefs.
  assert (Hnode : forall vn vc fs,
             Forall (fun p => forall T ctx v', has_ty defs T (snd p) = true -> spec_val defs S R ctx T (snd p) = Ok v' -> v' = snd p) fs ->
             forall T tn ctx v', named T tn -> has_ty defs T (VNode vn vc fs) = true ->
                                 spec_node defs S R ctx tn (VNode vn vc fs) = Ok v' -> v' = VNode vn vc fs).
  { intros vn vc fs IHfs T tn ctx v' Hnm Hty Hs.
    destruct (has_ty_node_inv2 defs T tn vn vc fs Hnm Hty) as (fts & Hf & Hkeys & Hall).
    cbn [spec_node] in Hs. destruct (String.eqb vn tn); [|discriminate]. rewrite Hf in Hs.
    destruct (spec_fields defs S R ctx tn vc fts fs) as [fs'|] eqn:Ef; [|discriminate]. injection Hs as <-.
    assert (Hk : keys_nodup fs = true) by (rewrite keys_nodup_strs, Hkeys; exact (node_fields_nodup defs tn vc fts Hdefs Hf)).
    f_equal. unfold spec_fields in Ef. apply (mapM_id_out _ _ _ Ef).
    intros p q Hin. destruct (Hall p Hin) as (t & Ht & Hpt). rewrite Ht.
    destruct (position_method (pseudo_row tn vc (fst p) t)) as [m|] eqn:Ep.
    - destruct (apply_pos R m (self_ctx tn ctx fs) fs (snd p)) as [y|] eqn:Ea; [|discriminate]. intros [= <-].
      apply position_method_field in Ep.
      assert (Hy : y = snd p).
      { apply (apply_pos_id R m (self_ctx tn ctx fs) fs (fst p) (snd p) y HR (field_of_in fs p Hk Hin)); [|exact Ea].
        destruct m; try exact I; try exact Ep; contradiction. }
      rewrite Hy. destruct p; reflexivity.
    - destruct (spec_val defs S R (self_ctx tn ctx fs) t (snd p)) as [y|] eqn:Ea; [|discriminate]. intros [= <-].
      rewrite Forall_forall in IHfs. rewrite (IHfs p Hin t _ y Hpt Ea). destruct p; reflexivity. }
  induction v as [s|s|vn vc fs IHfs|l IHl| |x IHx|x1 x2 IH1 IH2] using val_ind2; intros T ctx v' Hty Hs.
  (* every case: by the shape of T; mismatches between T and the constructor are excluded by has_ty *)
  all: destruct T as [p|tn| |tn ta|ta|ta|ta tb]; try (cbn [has_ty] in Hty; discriminate);
    try (cbn [spec_val] in Hs; injection Hs as <-; reflexivity).
  all: try (rewrite spec_val_name in Hs; destruct (negb (mentions S (TName tn))); [injection Hs as <-; reflexivity|];
            destruct (leaf_method tn) as [m|]; [exact (apply_leaf_id R m _ _ HR Hs)|];
            destruct (needs_owner tn); [discriminate|]).
  all: try (rewrite spec_val_app in Hs; destruct (negb (mentions S (TApp tn ta))); [injection Hs as <-; reflexivity|]).
  all: try (cbn [spec_node] in Hs; discriminate).
  - exact (Hnode vn vc fs IHfs (TName tn) tn ctx v' (or_introl eq_refl) Hty Hs).
  - exact (Hnode vn vc fs IHfs (TApp tn ta) tn ctx v' (or_intror (ex_intro _ ta eq_refl)) Hty Hs).
  - rewrite spec_val_vec in Hs. destruct (negb (mentions S ta)); [injection Hs as <-; reflexivity|].
    destruct (mapM (spec_val defs S R ctx ta) l) as [l'|] eqn:El; [|discriminate]. injection Hs as <-.
    f_equal. apply (mapM_id_out _ _ _ El). intros x y Hin Hy.
    rewrite Forall_forall in IHl. cbn [has_ty] in Hty. rewrite forallb_forall in Hty.
    exact (IHl x Hin ta ctx y (Hty x Hin) Hy).
  - rewrite spec_val_opt in Hs. destruct (negb (mentions S ta)); injection Hs as <-; reflexivity.
  - rewrite spec_val_opt in Hs. destruct (negb (mentions S ta)); [injection Hs as <-; reflexivity|].
    destruct (spec_val defs S R ctx ta x) as [y|] eqn:Ey; [|discriminate]. injection Hs as <-.
    cbn [has_ty] in Hty. rewrite (IHx ta ctx y Hty Ey). reflexivity.
  - rewrite spec_val_pair in Hs. destruct (negb (mentions S (TPair ta tb))); [injection Hs as <-; reflexivity|].
    destruct (spec_val defs S R ctx ta x1) as [x'|] eqn:Ex; [|discriminate].
    destruct (spec_val defs S R ctx tb x2) as [y'|] eqn:Ey; [|discriminate]. injection Hs as <-.
    cbn [has_ty] in Hty. apply andb_prop in Hty. destruct Hty as [H1 H2].
    rewrite (IH1 ta ctx x' H1 Ex), (IH2 tb ctx y' H2 Ey). reflexivity.
Qed.

(* the regenerated definitions have pairwise distinct field names (finite check, re-run on every build) *)
Lemma type_defs_nodup : defs_nodup type_defs = true.
Proof. vm_compute. reflexivity. Qed.

(* IDENTITY for the interpreter of the regenerated table *)
Theorem remap_val_identity :
  forall (R : remapper) (ctx : option str) (T : rty) (v v' : val),
    renames_nothing R ->
    deleg_ok gen_table (ref_types type_defs) T = true ->
    has_ty type_defs T v = true ->
    remap_val gen_table R ctx T v = Ok v' -> v' = v.
Proof.
  intros R ctx T v v' HR Hd Hty H. rewrite (remap_val_spec_full R ctx T v Hd Hty) in H.
  exact (spec_val_identity_typed type_defs (ref_types type_defs) R HR type_defs_nodup v T ctx v' Hty H).
Qed.

Theorem remap_class_identity :
  forall (R : remapper) (ctx : option str) (v v' : val),
    renames_nothing R ->
    has_ty type_defs (TName "ClassFile") v = true ->
    remap_val gen_table R ctx (TName "ClassFile") v = Ok v' -> v' = v.
Proof. intros R ctx v v' HR Hty H. exact (remap_val_identity R ctx _ v v' HR class_deleg_ok Hty H). Qed.

(* non-vacuity: the remapper that renames nothing does answer Ok on a concrete class (and gives it back); a string that
   is no descriptor at a descriptor position is where it answers Err *)
Definition identity_example : Prop :=
  renames_nothing id_remapper /\
  has_ty type_defs class_ty (ex_class_of "a/A" "f" "b/B" "g") = true /\
  remap_val gen_table id_remapper None class_ty (ex_class_of "a/A" "f" "b/B" "g") = Ok (ex_class_of "a/A" "f" "b/B" "g") /\
  remap_val gen_table id_remapper (Some (bs "a/A")) (TName "RecordComponent") (ex_component "f" "La/A") = Err.
Lemma identity_example_holds : identity_example.
Proof. unfold identity_example. split; [exact id_renames_nothing|]. repeat split; vm_compute; reflexivity. Qed.
